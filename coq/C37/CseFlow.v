(* C37 -- how Symbols flow through the rebuild of tree_cse (empty opt_subs), for constructors that
   do not invent Symbols ([ctors_syms]):
     - every Symbol leaf of a right-hand side / reduced expression is an excluded symbol (a Symbol
       of the inputs) or a replacement symbol that was pushed EARLIER (tree_cse_defined_before:
       the replacement list can be evaluated front to back, back-substituted last to first),
     - nothing else appears (tree_cse_closed).
   Hypothesis [excl_complete]: every Symbol leaf of the inputs is in excluded_symbols.  It is a
   boolean of the model, evaluated by the extracted model on every explored input; CseExcl.v proves
   it for well-formed inputs. *)
From SE Require Export C37.CseProofs.
From Coq Require Import Lia.
Local Open Scope N_scope.

(* ---------- the arguments of a node carry no Symbol the node does not carry ---------- *)
Ltac in_syms :=
  repeat match goal with
         | H : In _ (_ ++ _) |- _ => apply in_app_or in H; destruct H as [H|H]
         | H : In _ [] |- _ => destruct H
         | H : In _ (_ :: _) |- _ => destruct H as [H|H]
         end.

Lemma syms_mul_from_dict : forall v dk n, In n (syms (mul_from_dict v dk)) ->
  In n (flat_map (fun p => syms (fst p) ++ syms (snd p)) dk).
Proof.
  intros v dk n H. unfold mul_from_dict in H.
  destruct (nis_zero v); [destruct H|].
  destruct dk as [|[k x] [|p r]]; [destruct H| |exact H].
  cbn [flat_map app fst snd]. rewrite app_nil_r.
  assert (G1 : In n (syms k) -> In n (syms k ++ syms x)) by (intro; apply in_or_app; auto).
  assert (G2 : In n (syms (EPow k x)) -> In n (syms k ++ syms x)) by (intro Q; exact Q).
  assert (G3 : In n (syms (EMul v [(k, x)])) -> In n (syms k ++ syms x)).
  { cbn [syms flat_map fst snd]. rewrite app_nil_r. auto. }
  destruct x as [[z| | | | | |]| | | | | | | | | | | | | | | | |];
    repeat match type of H with context [if ?c then _ else _] => destruct c end; auto.
Qed.

Lemma syms_add_single : forall k v n, In n (syms (add_single k v)) -> In n (syms k).
Proof.
  intros k v n H. unfold add_single in H.
  assert (G : In n (syms match k with
                         | EMul _ dk => mul_from_dict v dk
                         | EPow b x => EMul v [(b, x)]
                         | _ => EMul v [(k, E1)]
                         end) -> In n (syms k)).
  { destruct k; try (cbn [syms flat_map fst snd E1]; rewrite !app_nil_r; tauto).
    - intro Q. apply syms_mul_from_dict in Q. exact Q. }
  destruct v; try (apply G; exact H).
  destruct (z =? 0)%Z; [destruct H|]. destruct (z =? 1)%Z; [exact H|apply G; exact H].
Qed.

Lemma syms_get_args : forall e a n, In a (get_args e) -> In n (syms a) -> In n (syms e).
Proof.
  intros e a n Hin Hn.
  destruct e as [nu|nm|nm idx|nm|co d|co d|pb px|code fa|code fa fb|code l|nm l|code la lb|da dxs|sa sd|pl|bb|is ie lo ro|code];
    cbn [get_args] in Hin; cbn [syms].
  - destruct nu; cbn [In] in Hin; try tauto. destruct Hin as [<-|[]]. destruct Hn.
  - destruct Hin.
  - destruct Hin.
  - destruct Hin.
  - (* Add *) apply in_app_or in Hin. destruct Hin as [Hin|Hin].
    + destruct (nis_zero co); [destruct Hin|]. destruct Hin as [<-|[]]. destruct Hn.
    + apply in_map_iff in Hin. destruct Hin as ([k v] & <- & Hin).
      apply in_flat_map. exists (k, v). split; [exact Hin|]. cbn [fst].
      unfold add_term_arg in Hn. cbn [fst snd] in Hn. destruct (Cmp.num_eqb v (NInt 1)); [exact Hn|].
      unfold add_from_dict in Hn. cbn [nis_zero Z.eqb] in Hn. apply syms_add_single in Hn. exact Hn.
  - (* Mul *) apply in_app_or in Hin. destruct Hin as [Hin|Hin].
    + destruct (nis_one co); [destruct Hin|]. destruct Hin as [<-|[]]. destruct Hn.
    + apply in_map_iff in Hin. destruct Hin as ([k v] & <- & Hin).
      apply in_flat_map. exists (k, v). split; [exact Hin|]. cbn [fst snd].
      unfold mul_term_arg in Hn. cbn [fst snd] in Hn. destruct (is_int_one v); [apply in_or_app; left; exact Hn|exact Hn].
  - destruct Hin as [<-|[<-|[]]]; apply in_or_app; auto.
  - destruct Hin as [<-|[]]. exact Hn.
  - destruct Hin as [<-|[<-|[]]]; apply in_or_app; auto.
  - apply in_flat_map. exists a. auto.
  - apply in_flat_map. exists a. auto.
  - destruct Hin as [<-|[<-|[]]]; apply in_or_app; auto.
  - destruct Hin as [<-|Hin]; apply in_or_app; [left; exact Hn|right]. apply in_flat_map. exists a. auto.
  - destruct Hin as [<-|Hin]; apply in_or_app; [left; exact Hn|right].
    apply in_app_or in Hin. destruct Hin as [Hin|Hin]; apply in_map_iff in Hin; destruct Hin as ([k v] & <- & Hin);
      apply in_flat_map; exists (k, v); (split; [exact Hin|]); apply in_or_app; cbn [fst snd] in *; auto.
  - apply in_flat_map in Hin. destruct Hin as ([k v] & Hin & Ha). cbn [fst snd] in Ha.
    apply in_flat_map. exists (k, v). split; [exact Hin|]. cbn [fst snd].
    destruct Ha as [<-|[<-|[]]]; apply in_or_app; auto.
  - destruct Hin.
  - destruct Hin as [<-|[<-|[<-|[<-|[]]]]]; try (destruct Hn; fail); apply in_or_app; auto.
  - destruct Hin.
Qed.

(* ---------- constructors that do not invent Symbols ---------- *)
Record ctors_syms (C : ctors) : Prop := mkCS {
  cs_add : forall l v n, c_add C l = Ok v -> In n (syms v) -> exists a, In a l /\ In n (syms a);
  cs_mul : forall l v n, c_mul C l = Ok v -> In n (syms v) -> exists a, In a l /\ In n (syms a);
  cs_pow : forall a b v n, c_pow C a b = Ok v -> In n (syms v) -> In n (syms a) \/ In n (syms b);
  cs_f1 : forall c a v n, c_f1 C c a = Ok v -> In n (syms v) -> In n (syms a);
  cs_f2 : forall c a b v n, c_f2 C c a b = Ok v -> In n (syms v) -> In n (syms a) \/ In n (syms b);
  cs_fn : forall c l v n, c_fn C c l = Ok v -> In n (syms v) -> exists a, In a l /\ In n (syms a);
  cs_eq_true : forall a v n, c_eq_true C a = Ok v -> In n (syms v) -> In n (syms a);
  cs_pw : forall l v n, c_pw C l = Ok v -> In n (syms v) ->
            exists p, In p l /\ (In n (syms (fst p)) \/ In n (syms (snd p)))
}.

(* ---------- the invariant ---------- *)
Section Flow.
  Variable C : ctors.
  Hypothesis CS : ctors_syms C.
  Variable env : rb_env.
  Hypothesis no_opt : env_opt env = [].
  Let excl := env_excl env.

  Definition excl_ok (e : expr) : Prop := forall n, In n (syms e) -> hset_mem (ESym n) excl = true.
  Definition known (reps : list (expr * expr)) (n : list N) : Prop :=
    hset_mem (ESym n) excl = true \/ exists r, In (ESym n, r) reps.
  Definition good (st : rb_state) (v : expr) : Prop := forall n, In n (syms v) -> known (rb_reps st) n.

  (* every right-hand side mentions only excluded symbols and symbols pushed before it *)
  Fixpoint wfreps (l : list (expr * expr)) : Prop :=
    match l with
    | [] => True
    | (s, r) :: t => (forall n, In n (syms r) -> known t n) /\ wfreps t
    end.
  Definition subs_ok (st : rb_state) : Prop :=
    forall o s, In (o, s) (rb_subs st) -> exists n r, s = ESym n /\ In (ESym n, r) (rb_reps st).
  Definition J (st : rb_state) : Prop := wfreps (rb_reps st) /\ subs_ok st.

  (* growth of the replacement list *)
  Definition grows (st st' : rb_state) : Prop := exists new, rb_reps st' = new ++ rb_reps st.
  Lemma grows_refl : forall st, grows st st.
  Proof. intro. exists []. reflexivity. Qed.
  Lemma grows_trans : forall a b c, grows a b -> grows b c -> grows a c.
  Proof. intros a b c (n1 & E1) (n2 & E2). exists (n2 ++ n1). rewrite E2, E1. apply app_assoc. Qed.
  Lemma good_grows : forall st st' v, grows st st' -> good st v -> good st' v.
  Proof.
    intros st st' v (new & E) G n Hn. destruct (G n Hn) as [H|(r & H)]; [left; exact H|right].
    exists r. rewrite E. apply in_or_app. right. exact H.
  Qed.
  Lemma excl_ok_good : forall st e, excl_ok e -> good st e.
  Proof. intros st e H n Hn. left. apply H. exact Hn. Qed.
  Lemma excl_ok_args : forall e a, excl_ok e -> In a (get_args e) -> excl_ok a.
  Proof. intros e a H Hin n Hn. apply H. eapply syms_get_args; eassumption. Qed.

  Lemma bmap_find_in : forall k m v, bmap_find k m = Some v -> exists k', In (k', v) m.
  Proof.
    induction m as [|[k' v'] m IH]; intros v H; cbn [bmap_find] in H; [discriminate|].
    destruct ((hash k' =? hash k) && expr_eqb k k').
    - injection H as <-. exists k'. left. reflexivity.
    - destruct (IH _ H) as (k2 & Hin). exists k2. right. exact Hin.
  Qed.

  (* what one call of apply guarantees *)
  Definition ap_ok (ap : rb_state -> expr -> res ares) : Prop :=
    forall st e x, ap st e = Ok x -> J st -> excl_ok e ->
      J (fst x) /\ good (fst x) (fst (snd x)) /\ grows st (fst x).

  Section Visit.
    Variable ap : rb_state -> expr -> res ares.
    Hypothesis AP : ap_ok ap.

    Lemma apply_list_ok : forall l st x, apply_list ap st l = Ok x -> J st ->
      (forall a, In a l -> excl_ok a) ->
      J (fst x) /\ (forall v, In v (snd x) -> good (fst x) v) /\ grows st (fst x).
    Proof.
      induction l as [|a l IH]; intros st x H HJ Hl; cbn [apply_list] in H.
      - inv_ok H. cbn [fst snd]. split; [exact HJ|]. split; [intros v []|apply grows_refl].
      - stepn H r1 E1. stepn H r2 E2. inv_ok H. cbn [fst snd].
        destruct (AP _ _ _ E1 HJ (Hl a (or_introl eq_refl))) as (J1 & G1 & W1).
        destruct (IH _ _ E2 J1 (fun b Hb => Hl b (or_intror Hb))) as (J2 & G2 & W2).
        split; [exact J2|]. split; [|eapply grows_trans; eassumption].
        intros v [<-|Hv]; [eapply good_grows; eassumption|apply G2; exact Hv].
    Qed.

    Lemma apply_pairs_ok : forall l st x, apply_pairs C ap st l = Ok x -> J st ->
      (forall p, In p l -> excl_ok (fst p) /\ excl_ok (snd p)) ->
      J (fst x) /\ (forall p, In p (snd x) -> good (fst x) (fst p) /\ good (fst x) (snd p)) /\ grows st (fst x).
    Proof.
      induction l as [|[b c] l IH]; intros st x H HJ Hl; cbn [apply_pairs] in H.
      - inv_ok H. cbn [fst snd]. split; [exact HJ|]. split; [intros v []|apply grows_refl].
      - stepn H r1 E1. stepn H r2 E2. stepn H nc E3. stepn H r3 E4. inv_ok H. cbn [fst snd].
        destruct (Hl (b, c) (or_introl eq_refl)) as [Hb Hc]. cbn [fst snd] in Hb, Hc.
        destruct (AP _ _ _ E1 HJ Hb) as (J1 & G1 & W1).
        destruct (AP _ _ _ E2 J1 Hc) as (J2 & G2 & W2).
        destruct (IH _ _ E4 J2 (fun p Hp => Hl p (or_intror Hp))) as (J3 & G3 & W3).
        split; [exact J3|]. split; [|exact (grows_trans _ _ _ (grows_trans _ _ _ W1 W2) W3)].
        intros p [<-|Hp]; [|apply G3; exact Hp]. cbn [fst snd]. split.
        + exact (good_grows _ _ _ (grows_trans _ _ _ W2 W3) G1).
        + assert (Gnc : good (fst r2) nc).
          { destruct (is_boolean (fst (snd r2))).
            - inv_ok E3. exact G2.
            - intros n Hn. apply G2. eapply cs_eq_true; eassumption. }
          exact (good_grows _ _ _ W3 Gnc).
    Qed.

    Lemma good_of_list : forall st (l : list expr) v,
      (forall n, In n (syms v) -> exists a, In a l /\ In n (syms a)) ->
      (forall a, In a l -> good st a) -> good st v.
    Proof. intros st l v H G n Hn. destruct (H n Hn) as (a & Ha & Hna). exact (G a Ha n Hna). Qed.

    Lemma rb_visit_ok : forall st e x, rb_visit C ap st e = Ok x -> J st -> excl_ok e ->
      J (fst x) /\ good (fst x) (fst (snd x)) /\ grows st (fst x).
    Proof.
      intros st e x H HJ He.
      assert (SAME : J st /\ good st e /\ grows st st).
      { split; [exact HJ|]. split; [apply excl_ok_good; exact He|apply grows_refl]. }
      destruct e as [nu|nm|nm idx|nm|co d|co d|pb px|code fa|code fa fb|code l|nm l|code la lb|da dxs|sa sd|pl|bb|is ie lo ro|code];
        cbn [rb_visit] in H; try (inv_ok H; exact SAME).
      - (* Add *) stepn H r1 E1. stepn H r2 E2. inv_ok H. cbn [fst snd].
        destruct (apply_list_ok _ _ _ E1 HJ (fun a Ha => excl_ok_args _ a He Ha)) as (J1 & G1 & W1).
        split; [exact J1|]. split; [|exact W1].
        eapply good_of_list; [intros n Hn; eapply cs_add; eassumption|exact G1].
      - (* Mul *) stepn H r1 E1. stepn H r2 E2. inv_ok H. cbn [fst snd].
        destruct (apply_list_ok _ _ _ E1 HJ (fun a Ha => excl_ok_args _ a He Ha)) as (J1 & G1 & W1).
        split; [exact J1|]. split; [|exact W1].
        eapply good_of_list; [intros n Hn; eapply cs_mul; eassumption|exact G1].
      - (* Pow *) stepn H r1 E1. stepn H r2 E2.
        assert (Hb : excl_ok pb) by (intros n Hn; apply He; cbn [syms]; apply in_or_app; auto).
        assert (Hx : excl_ok px) by (intros n Hn; apply He; cbn [syms]; apply in_or_app; auto).
        destruct (AP _ _ _ E1 HJ Hb) as (J1 & G1 & W1). destruct (AP _ _ _ E2 J1 Hx) as (J2 & G2 & W2).
        assert (W : grows st (fst r2)) by (eapply grows_trans; eassumption).
        destruct (snd (snd r1) && snd (snd r2)).
        + inv_ok H. cbn [fst snd]. split; [exact J2|]. split; [apply excl_ok_good; exact He|exact W].
        + stepn H r3 E3. inv_ok H. cbn [fst snd]. split; [exact J2|]. split; [|exact W].
          intros n Hn. destruct (cs_pow C CS _ _ _ _ E3 Hn) as [Q|Q]; [exact (good_grows _ _ _ W2 G1 n Q)|exact (G2 n Q)].
      - (* F1 *) destruct (is_one_arg_function code); [|inv_ok H; exact SAME].
        stepn H r1 E1. assert (Ha : excl_ok fa) by (intros n Hn; apply He; exact Hn).
        destruct (AP _ _ _ E1 HJ Ha) as (J1 & G1 & W1).
        destruct (expr_eqb (fst (snd r1)) fa).
        + inv_ok H. cbn [fst snd]. split; [exact J1|]. split; [apply excl_ok_good; exact He|exact W1].
        + stepn H r2 E2. inv_ok H. cbn [fst snd]. split; [exact J1|]. split; [|exact W1].
          intros n Hn. apply G1. eapply cs_f1; eassumption.
      - (* F2 *) stepn H r1 E1. stepn H r2 E2.
        assert (Ha : excl_ok fa) by (intros n Hn; apply He; cbn [syms]; apply in_or_app; auto).
        assert (Hb : excl_ok fb) by (intros n Hn; apply He; cbn [syms]; apply in_or_app; auto).
        destruct (AP _ _ _ E1 HJ Ha) as (J1 & G1 & W1). destruct (AP _ _ _ E2 J1 Hb) as (J2 & G2 & W2).
        assert (W : grows st (fst r2)) by (eapply grows_trans; eassumption).
        destruct (snd (snd r1) && snd (snd r2)).
        + inv_ok H. cbn [fst snd]. split; [exact J2|]. split; [apply excl_ok_good; exact He|exact W].
        + stepn H r3 E3. inv_ok H. cbn [fst snd]. split; [exact J2|]. split; [|exact W].
          intros n Hn. destruct (cs_f2 C CS _ _ _ _ _ E3 Hn) as [Q|Q]; [exact (good_grows _ _ _ W2 G1 n Q)|exact (G2 n Q)].
      - (* FN *) destruct (is_multi_arg_function code); [|inv_ok H; exact SAME].
        stepn H r1 E1. stepn H r2 E2. inv_ok H. cbn [fst snd].
        assert (Hl : forall a, In a l -> excl_ok a).
        { intros a Ha n Hn. apply He. cbn [syms]. apply in_flat_map. exists a. auto. }
        destruct (apply_list_ok _ _ _ E1 HJ Hl) as (J1 & G1 & W1).
        split; [exact J1|]. split; [|exact W1].
        eapply good_of_list; [intros n Hn; eapply cs_fn; eassumption|exact G1].
      - (* FunSym *) stepn H r1 E1.
        assert (Hl : forall a, In a l -> excl_ok a).
        { intros a Ha n Hn. apply He. cbn [syms]. apply in_flat_map. exists a. auto. }
        destruct (apply_list_ok _ _ _ E1 HJ Hl) as (J1 & G1 & W1).
        destruct (bytes_eqb nm name_add).
        { stepn H r2 E2. inv_ok H. cbn [fst snd]. split; [exact J1|]. split; [|exact W1].
          eapply good_of_list; [intros n Hn; eapply cs_add; eassumption|exact G1]. }
        destruct (bytes_eqb nm name_mul).
        { stepn H r2 E2. inv_ok H. cbn [fst snd]. split; [exact J1|]. split; [|exact W1].
          eapply good_of_list; [intros n Hn; eapply cs_mul; eassumption|exact G1]. }
        destruct (bytes_eqb nm name_pow).
        { destruct (snd r1) as [|u [|v t]] eqn:EL; try discriminate. stepn H r2 E2. inv_ok H. cbn [fst snd].
          split; [exact J1|]. split; [|exact W1].
          intros n Hn. destruct (cs_pow C CS _ _ _ _ E2 Hn) as [Q|Q].
          - apply (G1 u); [left; reflexivity|exact Q].
          - apply (G1 v); [right; left; reflexivity|exact Q]. }
        inv_ok H. cbn [fst snd]. split; [exact J1|]. split; [|exact W1].
        intros n Hn. cbn [syms] in Hn. apply in_flat_map in Hn. destruct Hn as (a & Ha & Hn). exact (G1 a Ha n Hn).
      - (* Pw *) stepn H r1 E1. stepn H r2 E2. inv_ok H. cbn [fst snd].
        assert (Hl : forall p, In p pl -> excl_ok (fst p) /\ excl_ok (snd p)).
        { intros p Hp. split; intros n Hn; apply He; cbn [syms]; apply in_flat_map; exists p;
            (split; [exact Hp|]); apply in_or_app; auto. }
        destruct (apply_pairs_ok _ _ _ E1 HJ Hl) as (J1 & G1 & W1).
        split; [exact J1|]. split; [|exact W1].
        intros n Hn. destruct (cs_pw C CS _ _ _ E2 Hn) as (p & Hp & [Q|Q]); destruct (G1 p Hp) as [Ga Gb]; auto.
    Qed.
  End Visit.

  Lemma rb_apply_ok : forall fuel, ap_ok (rb_apply C env fuel).
  Proof.
    induction fuel as [|f IH]; intros st e x H HJ He; cbn [rb_apply] in H; [discriminate|].
    destruct (is_atom e).
    { inv_ok H. cbn [fst snd]. split; [exact HJ|]. split; [apply excl_ok_good; exact He|apply grows_refl]. }
    destruct (bmap_find e (rb_subs st)) as [s|] eqn:EF.
    { inv_ok H. cbn [fst snd]. split; [exact HJ|]. split; [|apply grows_refl].
      destruct (bmap_find_in _ _ _ EF) as (k' & Hin). destruct HJ as [_ HS].
      destruct (HS _ _ Hin) as (n & r & -> & Hr). intros m Hm. cbn [syms] in Hm. destruct Hm as [<-|[]].
      right. exists r. exact Hr. }
    rewrite no_opt in H. cbn [bmap_find] in H.
    stepn H r1 E1.
    destruct (rb_visit_ok _ IH _ _ _ E1 HJ He) as (J1 & G1 & W1).
    destruct (hset_mem e (env_elim env)).
    - stepn H sk E2. inv_ok H. cbn [fst snd]. destruct sk as [s k']. cbn [fst snd].
      apply next_symbol_spec in E2. destruct E2 as (j & Hs & _ & _ & _). unfold sym_x in Hs.
      split; [|split].
      + split.
        * cbn [rb_reps wfreps]. split; [exact G1|apply J1].
        * intros o s' [Ho|Ho]; cbn [rb_reps].
          -- injection Ho as <- <-. exists (sym_name j), (fst (snd r1)). split; [exact Hs|]. left. rewrite Hs. reflexivity.
          -- destruct J1 as [_ HS]. destruct (HS _ _ Ho) as (n & r & Hn & Hr). exists n, r. split; [exact Hn|right; exact Hr].
      + intros m Hm. rewrite Hs in Hm. cbn [syms] in Hm. destruct Hm as [<-|[]]. right.
        exists (fst (snd r1)). cbn [rb_reps]. left. rewrite Hs. reflexivity.
      + eapply grows_trans; [exact W1|]. exists [(s, fst (snd r1))]. reflexivity.
    - inv_ok H. cbn [fst snd]. split; [exact J1|]. split; [exact G1|exact W1].
  Qed.

  Lemma rb_all_ok : forall fuel es st x, rb_all C env fuel st es = Ok x -> J st ->
    (forall e, In e es -> excl_ok e) ->
    J (fst x) /\ (forall v, In v (snd x) -> good (fst x) v).
  Proof.
    induction es as [|e es IH]; intros st x H HJ Hes; cbn [rb_all] in H.
    - inv_ok H. cbn [fst snd]. split; [exact HJ|intros v []].
    - stepn H r1 E1. stepn H r2 E2. inv_ok H. cbn [fst snd].
      destruct (rb_apply_ok _ _ _ _ E1 HJ (Hes e (or_introl eq_refl))) as (J1 & G1 & W1).
      destruct (IH _ _ E2 J1 (fun b Hb => Hes b (or_intror Hb))) as (J2 & G2).
      split; [exact J2|]. intros v [<-|Hv]; [|apply G2; exact Hv].
      assert (W2 : grows (fst r1) (fst r2)).
      { destruct (rb_all_ext C env _ _ _ _ E2) as (new & En & _). exists new. exact En. }
      eapply good_grows; eassumption.
  Qed.
End Flow.

(* ---------- the statements ---------- *)
Lemma wfreps_app : forall excl a b, wfreps excl (a ++ b) -> wfreps excl b.
Proof.
  induction a as [|[s r] a IH]; intros b H; cbn [app wfreps] in H; [exact H|]. apply IH. apply H.
Qed.

Lemma rev_split : forall {A} (l l1 l2 : list A) x, rev l = l1 ++ x :: l2 -> l = rev l2 ++ x :: rev l1.
Proof.
  intros A l l1 l2 x H. rewrite <- (rev_involutive l), H, rev_app_distr. cbn [rev]. rewrite <- app_assoc. reflexivity.
Qed.

Theorem tree_cse_flow : forall C fuel es reps red excl,
  ctors_syms C ->
  tree_cse_with C fuel [] es = Ok (reps, red) ->
  tree_cse_excluded fuel [] es = Ok excl ->
  excl_complete excl es = true ->
  defined_before reps /\
  (forall o n, In o (red ++ map snd reps) -> In n (syms o) ->
     (exists r, In (ESym n, r) reps) \/ hset_mem (ESym n) excl = true).
Proof.
  intros C fuel es reps red excl CS H HX HC.
  pose proof (tree_cse_fresh_names _ _ _ _ _ _ H) as (excl' & ks & HX' & Hkeys & _ & Hnot).
  rewrite HX in HX'. injection HX' as <-.
  unfold tree_cse_with in H. stepn H fr E1. stepn H r2 E2. inv_ok H.
  unfold tree_cse_excluded in HX. rewrite E1 in HX. cbn [bind] in HX. injection HX as HX. subst excl.
  set (env := mkEnv [] (fr_elim fr) (fr_excl fr)) in *.
  assert (Hes : forall e, In e es -> excl_ok env e).
  { intros e He n Hn. unfold excl_complete in HC. rewrite forallb_forall in HC. specialize (HC e He).
    rewrite forallb_forall in HC. apply HC. exact Hn. }
  assert (J0 : J env rb_empty) by (split; [exact I|intros o s []]).
  destruct (rb_all_ok C CS env eq_refl _ _ _ _ E2 J0 Hes) as ((WF & _) & G).
  split.
  - intros l1 s r l2 n Hsplit Hocc Hin.
    apply rev_split in Hsplit. rewrite Hsplit in WF. apply wfreps_app in WF. cbn [wfreps] in WF.
    destruct WF as [Hr _]. destruct (Hr n Hocc) as [Hex|(r' & Hr')].
    + exfalso. rewrite Hkeys in Hin. apply in_map_iff in Hin. destruct Hin as (k & Hk & Hkin).
      specialize (Hnot k Hkin). rewrite Hk in Hnot. change (env_excl env) with (fr_excl fr) in Hex. congruence.
    + apply in_map_iff. exists (ESym n, r'). split; [reflexivity|]. apply in_rev. exact Hr'.
  - intros o n Ho Hn. apply in_app_or in Ho. destruct Ho as [Ho|Ho].
    + destruct (G o Ho n Hn) as [Q|(r & Q)]; [right; exact Q|left]. exists r. apply -> in_rev. exact Q.
    + apply in_map_iff in Ho. destruct Ho as ([s r] & <- & Hsr). cbn [snd] in Hn.
      apply <- in_rev in Hsr. apply in_split in Hsr. destruct Hsr as (l1 & l2 & Hsplit).
      rewrite Hsplit in WF. apply wfreps_app in WF. cbn [wfreps] in WF. destruct WF as [Hr _].
      destruct (Hr n Hn) as [Q|(r' & Q)]; [right; exact Q|left]. exists r'. apply -> in_rev.
      rewrite Hsplit. apply in_or_app. right. right. exact Q.
Qed.
