(* C37 -- soundness of the checker: check_cse es reps red back = true -> cse_valid es reps red back. *)
From SE Require Export C37.CseSpec.
From Coq Require Import Lia.
Local Open Scope N_scope.

(* ---------- byte strings ---------- *)
Lemma bytes_cmp_eq : forall a b, bytes_cmp a b = 0%Z -> a = b.
Proof.
  induction a as [|x a IH]; intros [|y b] H; cbn [bytes_cmp] in H; try discriminate; try reflexivity.
  destruct (x =? y) eqn:E.
  - apply N.eqb_eq in E. subst y. f_equal. apply IH. exact H.
  - destruct (x <? y); discriminate.
Qed.
Lemma bytes_cmp_refl : forall a, bytes_cmp a a = 0%Z.
Proof. induction a as [|x a IH]; cbn [bytes_cmp]; [reflexivity|]. rewrite N.eqb_refl. exact IH. Qed.
Lemma bytes_eqb_eq : forall a b, bytes_eqb a b = true <-> a = b.
Proof.
  intros a b. unfold bytes_eqb. split; intro H.
  - apply bytes_cmp_eq. apply Z.eqb_eq. exact H.
  - subst b. rewrite bytes_cmp_refl. reflexivity.
Qed.

Lemma mem_name_In : forall n l, mem_name n l = true <-> In n l.
Proof.
  intros n l. unfold mem_name. rewrite existsb_exists. split.
  - intros (x & Hin & Hx). apply bytes_eqb_eq in Hx. subst x. exact Hin.
  - intro Hin. exists n. split; [exact Hin|]. apply bytes_eqb_eq. reflexivity.
Qed.
Lemma mem_name_false : forall n l, mem_name n l = false <-> ~ In n l.
Proof.
  intros n l. rewrite <- mem_name_In. destruct (mem_name n l).
  - split; [discriminate|]. intro H. exfalso. apply H. reflexivity.
  - split; [intros _ H; discriminate|reflexivity].
Qed.

Lemma nodup_names_NoDup : forall l, nodup_names l = true -> NoDup l.
Proof.
  induction l as [|n l IH]; intro H; [constructor|].
  cbn [nodup_names] in H. apply andb_true_iff in H. destruct H as [H1 H2].
  constructor; [|apply IH; exact H2].
  apply negb_true_iff in H1. apply mem_name_false in H1. exact H1.
Qed.

Lemma occurs_in_any_iff : forall n es, occurs_in_any n es = true <-> exists e, In e es /\ sym_occurs n e.
Proof.
  intros n es. unfold occurs_in_any, sym_occurs. rewrite existsb_exists.
  split; intros (e & H1 & H2); exists e; (split; [exact H1|]); apply mem_name_In; exact H2.
Qed.

(* ---------- the replacement list read as names ---------- *)
Definition as_reps (nr : list (list N * expr)) : list (expr * expr) :=
  map (fun p => (ESym (fst p), snd p)) nr.

Lemma rep_names_spec : forall reps nr, rep_names reps = Some nr -> reps = as_reps nr.
Proof.
  induction reps as [|[s r] t IH]; intros nr H; cbn [rep_names] in H.
  - inversion H. reflexivity.
  - destruct s; try discriminate. destruct (rep_names t) as [l|] eqn:E; [|discriminate].
    inversion H. subst nr. cbn [as_reps map fst snd]. f_equal. apply IH. reflexivity.
Qed.

Lemma in_as_reps : forall nr s r, In (s, r) (as_reps nr) -> exists n, s = ESym n /\ In (n, r) nr.
Proof.
  intros nr s r H. unfold as_reps in H. apply in_map_iff in H. destruct H as ([n r'] & Heq & Hin).
  cbn [fst snd] in Heq. inversion Heq. subst. exists n. split; [reflexivity|exact Hin].
Qed.

Lemma map_fst_as_reps : forall nr, map fst (as_reps nr) = map (fun n => ESym n) (map fst nr).
Proof. intro nr. unfold as_reps. rewrite !map_map. reflexivity. Qed.
Lemma map_snd_as_reps : forall nr, map snd (as_reps nr) = map snd nr.
Proof. intro nr. unfold as_reps. rewrite map_map. reflexivity. Qed.

Lemma NoDup_map_ESym : forall l, NoDup l -> NoDup (map (fun n => ESym n) l).
Proof.
  induction l as [|n l IH]; intro H; [constructor|]. inversion H as [|? ? Hn Hl]. subst.
  cbn [map]. constructor; [|apply IH; exact Hl].
  intro Hin. apply in_map_iff in Hin. destruct Hin as (m & Hm & Hin). inversion Hm. subst m. contradiction.
Qed.

(* ---------- acyclicity ---------- *)
Lemma in_keys_as_reps : forall nr n, In (ESym n) (map fst (as_reps nr)) <-> In n (map fst nr).
Proof.
  intros nr n. rewrite map_fst_as_reps. rewrite in_map_iff. split.
  - intros (m & Hm & Hin). injection Hm as Hm. subst m. exact Hin.
  - intro Hin. exists n. split; [reflexivity|exact Hin].
Qed.

Lemma check_acyclic_spec : forall l1 n0 rhs l2 n, check_acyclic (l1 ++ (n0, rhs) :: l2) = true ->
  In n (syms rhs) -> In n (map fst (l1 ++ (n0, rhs) :: l2)) -> In n (map fst l1).
Proof.
  induction l1 as [|[m rm] l1 IH]; intros n0 rhs l2 n H Hocc Hin; cbn [app] in *.
  - exfalso. cbn [check_acyclic] in H. apply andb_true_iff in H. destruct H as [H1 _].
    rewrite forallb_forall in H1. cbn [map fst] in Hin. specialize (H1 n Hin).
    apply negb_true_iff in H1. apply mem_name_false in H1. contradiction.
  - cbn [check_acyclic] in H. apply andb_true_iff in H. destruct H as [_ H2].
    cbn [map fst] in Hin |- *. destruct Hin as [Hin|Hin]; [left; exact Hin|].
    right. eapply IH; eassumption.
Qed.

Lemma as_reps_split : forall nr l1 s r l2, as_reps nr = l1 ++ (s, r) :: l2 ->
  exists m1 n0 m2, nr = m1 ++ (n0, r) :: m2 /\ l1 = as_reps m1 /\ s = ESym n0 /\ l2 = as_reps m2.
Proof.
  induction nr as [|[m rm] nr IH]; intros l1 s r l2 H.
  - destruct l1; discriminate.
  - destruct l1 as [|p l1]; cbn [as_reps map app fst snd] in H.
    + injection H as H1 H2 H3. subst. exists [], m, nr. repeat split; reflexivity.
    + injection H as H1 H2. subst p. destruct (IH _ _ _ _ H2) as (m1 & n0 & m2 & E1 & E2 & E3 & E4).
      subst. exists ((m, rm) :: m1), n0, m2. repeat split; reflexivity.
Qed.

Lemma forall2b_Forall2 : forall {A B} (f : A -> B -> bool) l1 l2,
  forall2b f l1 l2 = true -> Forall2 (fun a b => f a b = true) l1 l2.
Proof.
  induction l1 as [|x l1 IH]; intros [|y l2] H; cbn [forall2b] in H; try discriminate; [constructor|].
  apply andb_true_iff in H. destruct H as [H1 H2]. constructor; [exact H1|apply IH; exact H2].
Qed.

(* ---------- the theorem ---------- *)
Theorem check_cse_sound : forall es reps red back,
  check_cse es reps red back = true -> cse_valid es reps red back.
Proof.
  intros es reps red back H. unfold check_cse in H.
  destruct (rep_names reps) as [nr|] eqn:E; [|discriminate].
  apply rep_names_spec in E. subst reps.
  repeat (apply andb_true_iff in H; destruct H as [H ?]).
  rename H into Hshape, H0 into Hclosed, H1 into Hacyc, H2 into Hfresh, H3 into Hfaith.
  unfold check_fresh in Hfresh. apply andb_true_iff in Hfresh. destruct Hfresh as [Hnd Hfr].
  rewrite forallb_forall in Hfr.
  constructor.
  - apply Nat.eqb_eq. exact Hshape.
  - apply forall2b_Forall2. exact Hfaith.
  - intros s r Hin. apply in_as_reps in Hin. destruct Hin as (n & -> & _). exists n. reflexivity.
  - rewrite map_fst_as_reps. apply NoDup_map_ESym. apply nodup_names_NoDup. exact Hnd.
  - intros n r e Hin He Hocc. apply in_as_reps in Hin. destruct Hin as (n' & Hn & Hin). inversion Hn. subst n'.
    assert (Hn' : In n (map fst nr)). { apply in_map_iff. exists (n, r). split; [reflexivity|exact Hin]. }
    specialize (Hfr n Hn'). apply negb_true_iff in Hfr.
    assert (occurs_in_any n es = true). { apply occurs_in_any_iff. exists e. split; assumption. }
    congruence.
  - intros l1 s r l2 n Hsplit Hocc Hin.
    destruct (as_reps_split _ _ _ _ _ Hsplit) as (m1 & n0 & m2 & E1 & E2 & E3 & E4). subst.
    apply in_keys_as_reps. apply in_keys_as_reps in Hin.
    eapply check_acyclic_spec; eassumption.
  - intros o n Ho Hocc. rewrite map_snd_as_reps in Ho.
    unfold check_closed in Hclosed. rewrite forallb_forall in Hclosed. specialize (Hclosed o Ho).
    rewrite forallb_forall in Hclosed. specialize (Hclosed n Hocc).
    apply orb_true_iff in Hclosed. destruct Hclosed as [Hc|Hc].
    + left. apply mem_name_In in Hc. apply in_map_iff in Hc. destruct Hc as ([n' r] & Hn & Hin). cbn [fst] in Hn. subst n'.
      exists r. unfold as_reps. apply in_map_iff. exists (n, r). split; [reflexivity|exact Hin].
    + right. apply occurs_in_any_iff. exact Hc.
Qed.

(* the report line of the extracted checker is the conjunction *)
Lemma check_cse_parts_all : forall es reps red back,
  forallb (fun b => b) (check_cse_parts es reps red back) = check_cse es reps red back.
Proof.
  intros. unfold check_cse_parts, check_cse. destruct (rep_names reps); [|reflexivity].
  cbn [forallb]. rewrite andb_true_r. rewrite !andb_assoc. reflexivity.
Qed.
