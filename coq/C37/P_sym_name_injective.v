(* C37 obligation: the candidate names "x" + to_string(k) of RebuildVisitor::next_symbol are
   pairwise different for different counters k (decimal printing is injective), any k. *)
From SE Require Import C37.CseNames.
Theorem C37_sym_name_injective : forall a b : N, sym_name a = sym_name b -> a = b.
Proof. exact sym_name_inj. Qed.
Print Assumptions C37_sym_name_injective.
