(* C37 refutation (reproduced on the library: known finding C37/unfaithful:piecewise-condition-replaced):
   two Piecewise with the same condition x < y: the model (as the library) returns x0 := x < y and
   conditions Eq(x0, True); substituting back gives Eq(True, x < y), which is not eq to the input,
   and the proved checker rejects the output. *)
From SE Require Import C37.CseRefuted.
Theorem C37_piecewise_condition_refuted :
  exists nr red back,
    tree_cse_lib [] wit_pw = Ok (map (fun p => (ESym (fst p), snd p)) nr, red) /\
    map (backsubst lib_ctors nr) red = map (@Ok expr) back /\
    forall2b expr_eqb back wit_pw = false /\
    check_cse wit_pw (map (fun p => (ESym (fst p), snd p)) nr) red back = false.
Proof. exact piecewise_condition_refuted. Qed.
Print Assumptions C37_piecewise_condition_refuted.
