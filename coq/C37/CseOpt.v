(* C37 -- opt_cse of symengine/cse.cpp transcribed: OptsCSEVisitor (negative-coefficient Mul,
   negative-exponent Pow, collection of the Adds and Muls) and match_common_args with its
   FuncArgTracker.  Generic in the constructors neg / pow (record [ctors] of CseModel.v).

   Conventions
   - set_basic adds / muls are ITERATED (set_as_vec): lists kept sorted by RCPBasicKeyLess
     ([set_insert] of C39/QueryModel.v); seen_subexp is only queried ([hset]).
   - std::sort on the vector of (function, arguments) pairs: libstdc++ runs a plain (stable)
     insertion sort for at most 16 elements and an unstable introsort beyond: more than 16
     collected Adds (or Muls) are outside the model (EXN_UNMODELLED).  The other two std::sort
     calls do not influence the result (the first feeds a std::map, the second sorts by a total
     order).
   - std::set<unsigned> / sorted std::vector<unsigned>: strictly increasing lists of N.
   - value_numbers (unordered_map value -> number): the list of values in numbering order,
     searched for "same hash and eq(query, stored)".
   - arg_to_funcset is indexed by value number; every index ever read has been created
     (resize + one push_back per new value): a total map with default "empty set".
   No proofs here. *)
From SE Require Export C37.CseModel.
Local Open Scope N_scope.
Local Open Scope res_scope.

(* Number::is_negative *)
Definition num_negative (n : number) : bool :=
  match n with
  | NInt z => (z <? 0)%Z
  | NRat p _ => (p <? 0)%Z
  | NDbl b => (9223372036854775808 <? b) && negb (dbl_is_nan b)      (* x < 0.0: not -0.0, not NaN *)
  | NInf d => (d <? 0)%Z
  | NCplx _ _ _ _ | NCDbl _ _ | NNaN => false
  end.

(* ================================================================ OptsCSEVisitor *)
Record ov_state := mkOV {
  ov_opt : bmap;
  ov_adds : list hx;         (* set_basic adds, in RCPBasicKeyLess order *)
  ov_muls : list hx;
  ov_seen : hset
}.
Definition ov_empty : ov_state := mkOV [] [] [] [].
Definition ov_see (e : expr) (st : ov_state) : ov_state :=
  mkOV (ov_opt st) (ov_adds st) (ov_muls st) (hset_add e (ov_seen st)).

Definition e_minus_one : expr := ENum (NInt (-1)).

Fixpoint ov_visit (C : ctors) (fuel : nat) (st : ov_state) (e : expr) : res ov_state :=
  match fuel with
  | O => ErrFuel
  | S f =>
      match e with
      | EDeriv _ _ | ESubs _ _ => Ok st
      | EAdd _ _ =>
          if hset_mem e (ov_seen st) then Ok st
          else
            do st1 <- foldM (ov_visit C f) (get_args e) (ov_see e st);
            Ok (mkOV (ov_opt st1) (set_insert (mk_hx e) (ov_adds st1)) (ov_muls st1) (ov_seen st1))
      | EPow b x =>
          if hset_mem e (ov_seen st) then Ok st
          else
            do st1 <- foldM (ov_visit C f) (get_args e) (ov_see e st);
            let ex := match x with EMul c _ => ENum c | _ => x end in
            match ex with
            | ENum n =>
                if num_negative n then
                  do nx <- c_neg C x;
                  do p <- c_pow C b nx;
                  Ok (mkOV (bmap_set e (EFunSym name_pow [p; e_minus_one]) (ov_opt st1))
                           (ov_adds st1) (ov_muls st1) (ov_seen st1))
                else Ok st1
            | _ => Ok st1
            end
      | EMul c _ =>
          if hset_mem e (ov_seen st) then Ok st
          else
            do st1 <- foldM (ov_visit C f) (get_args e) (ov_see e st);
            do r <- (if num_negative c then
                       do ne <- c_neg C e;
                       if is_symbol ne then Ok (st1, e)
                       else Ok (mkOV (bmap_set e (EFunSym name_mul [e_minus_one; ne]) (ov_opt st1))
                                     (ov_adds st1) (ov_muls st1) (hset_add ne (ov_seen st1)), ne)
                     else Ok (st1, e));
            let st2 := fst r in
            match snd r with
            | EMul _ _ => Ok (mkOV (ov_opt st2) (ov_adds st2) (set_insert (mk_hx (snd r)) (ov_muls st2)) (ov_seen st2))
            | _ => Ok st2
            end
      | _ =>
          match get_args e with
          | [] => Ok st
          | v => if hset_mem e (ov_seen st) then Ok st else foldM (ov_visit C f) v (ov_see e st)
          end
      end
  end.

(* ================================================================ sorted sets of numbers *)
Fixpoint ns_insert (x : N) (l : list N) : list N :=
  match l with
  | [] => [x]
  | y :: r => if x <? y then x :: l else if x =? y then l else y :: ns_insert x r
  end.
Definition ns_mem (x : N) (l : list N) : bool := existsb (N.eqb x) l.
Definition ns_remove (x : N) (l : list N) : list N := filter (fun y => negb (x =? y)) l.
Definition ns_inter (a b : list N) : list N := filter (fun x => ns_mem x b) a.
Definition ns_diff (a b : list N) : list N := filter (fun x => negb (ns_mem x b)) a.

(* total maps N -> list N with default [] *)
Definition nmap := list (N * list N).
Fixpoint nm_get (k : N) (m : nmap) : list N :=
  match m with
  | [] => []
  | (k', v) :: r => if k =? k' then v else nm_get k r
  end.
Fixpoint nm_set (k : N) (v : list N) (m : nmap) : nmap :=
  match m with
  | [] => [(k, v)]
  | (k', v') :: r => if k =? k' then (k, v) :: r else (k', v') :: nm_set k v r
  end.

(* ================================================================ FuncArgTracker *)
Record tracker := mkTR {
  tr_values : list expr;      (* value_number_to_value *)
  tr_a2f : nmap;              (* arg_to_funcset *)
  tr_f2a : nmap               (* func_to_argset *)
}.

Fixpoint find_value (v : expr) (vals : list expr) (i : N) : option N :=
  match vals with
  | [] => None
  | w :: r => if (hash w =? hash v) && expr_eqb v w then Some i else find_value v r (i + 1)
  end.
Definition get_or_add (v : expr) (t : tracker) : N * tracker :=
  match find_value v (tr_values t) 0 with
  | Some i => (i, t)
  | None => (N.of_nat (length (tr_values t)), mkTR (tr_values t ++ [v]) (tr_a2f t) (tr_f2a t))
  end.

Definition tracker_init (funcs : list (expr * list expr)) : tracker :=
  snd (fold_left (fun (acc : N * tracker) fa =>
                    let fi := fst acc in
                    let t' := fold_left (fun (t : tracker) a =>
                                           let r := get_or_add a t in
                                           let t1 := snd r in
                                           mkTR (tr_values t1)
                                                (nm_set (fst r) (ns_insert fi (nm_get (fst r) (tr_a2f t1))) (tr_a2f t1))
                                                (nm_set fi (ns_insert (fst r) (nm_get fi (tr_f2a t1))) (tr_f2a t1)))
                                        (snd fa) (snd acc) in
                    (fi + 1, t'))
                 funcs (0, mkTR [] [] [])).

Definition values_of (t : tracker) (args : list N) : list expr :=
  map (fun i => nth (N.to_nat i) (tr_values t) (ENum (NInt 0))) args.

(* update_func_argset *)
Definition update_argset (fi : N) (new_args : list N) (t : tracker) : tracker :=
  let old := nm_get fi (tr_f2a t) in
  let a2f1 := fold_left (fun m a => nm_set a (ns_remove fi (nm_get a m)) m) (ns_diff old new_args) (tr_a2f t) in
  let a2f2 := fold_left (fun m a => nm_set a (ns_insert fi (nm_get a m)) m) (ns_diff new_args old) a2f1 in
  mkTR (tr_values t) a2f2 (nm_set fi (fold_left (fun s a => ns_insert a s) new_args []) (tr_f2a t)).

(* stop_arg_tracking *)
Definition stop_tracking (fi : N) (t : tracker) : tracker :=
  mkTR (tr_values t)
       (fold_left (fun m a => nm_set a (ns_remove fi (nm_get a m)) m) (nm_get fi (tr_f2a t)) (tr_a2f t))
       (tr_f2a t).

(* get_common_arg_candidates: function numbers >= min_func_i sharing at least two arguments
   with argset, with the number of shared arguments; in increasing order of the function number *)
Fixpoint cm_incr (k : N) (m : list (N * N)) : list (N * N) :=
  match m with
  | [] => [(k, 1)]
  | (k', c) :: r => if k <? k' then (k, 1) :: m else if k =? k' then (k', c + 1) :: r else (k', c) :: cm_incr k r
  end.
Definition common_candidates (t : tracker) (argset : list N) (min_f : N) : list (N * N) :=
  filter (fun p => 2 <=? snd p)
         (fold_left (fun m a => fold_left (fun m f => if min_f <=? f then cm_incr f m else m) (nm_get a (tr_a2f t)) m)
                    argset []).

(* insertion sort by a key (stable) *)
Fixpoint ins_by {A : Type} (lt : A -> A -> bool) (x : A) (l : list A) : list A :=
  match l with
  | [] => [x]
  | y :: r => if lt x y then x :: l else y :: ins_by lt x r
  end.
Definition sort_by {A : Type} (lt : A -> A -> bool) (l : list A) : list A :=
  fold_left (fun acc x => ins_by lt x acc) l [].

(* get_subset_candidates *)
Definition subset_candidates (t : tracker) (argset : list N) (restrict : list N) : list N :=
  fold_left (fun ind a => ns_inter ind (nm_get a (tr_a2f t))) argset (fold_left (fun s a => ns_insert a s) restrict []).

Record mc_state := mkMC {
  mc_tr : tracker;
  mc_changed : list N;
  mc_opt : bmap
}.

Section Match.
  Variable func_class : list N.
  Variable funcs : list (expr * list expr).       (* sorted by number of arguments *)

  Definition func_expr (i : N) : expr := fst (nth (N.to_nat i) funcs (ENum (NInt 0), [])).

  (* the while loop over the candidate queue of function i *)
  Fixpoint mc_queue (i : N) (queue : list N) (st : mc_state) : mc_state :=
    match queue with
    | [] => st
    | j :: rest =>
        let t := mc_tr st in
        let com := ns_inter (nm_get i (tr_f2a t)) (nm_get j (tr_f2a t)) in
        if (length com <=? 1)%nat then mc_queue i rest st
        else
          let diff_i := ns_diff (nm_get i (tr_f2a t)) com in
          let r :=
            match diff_i with
            | _ :: _ =>
                let cf := EFunSym func_class (values_of t com) in
                let r1 := get_or_add cf t in
                (fst r1, update_argset i (ns_insert (fst r1) diff_i) (snd r1), ns_insert i (mc_changed st))
            | [] =>
                let r1 := get_or_add (func_expr i) t in
                (fst r1, snd r1, mc_changed st)
            end in
          let num := fst (fst r) in
          let t1 := snd (fst r) in
          let ch1 := snd r in
          let t2 := update_argset j (ns_insert num (ns_diff (nm_get j (tr_f2a t1)) com)) t1 in
          let ch2 := ns_insert j ch1 in
          let ks := subset_candidates t2 com rest in
          let r3 := fold_left (fun (acc : tracker * list N) k =>
                                 (update_argset k (ns_insert num (ns_diff (nm_get k (tr_f2a (fst acc))) com)) (fst acc),
                                  ns_insert k (snd acc)))
                              ks (t2, ch2) in
          mc_queue i rest (mkMC (fst r3) (snd r3) (mc_opt st))
    end.

  Definition mc_step (st : mc_state) (i : N) : mc_state :=
    let t := mc_tr st in
    let counts := common_candidates t (nm_get i (tr_f2a t)) (i + 1) in
    let queue := map fst (sort_by (fun a b : N * N => if snd a =? snd b then fst a <? fst b else snd a <? snd b) counts) in
    let st1 := mc_queue i queue st in
    let opt1 :=
      if ns_mem i (mc_changed st1)
      then bmap_set (func_expr i) (EFunSym func_class (values_of (mc_tr st1) (nm_get i (tr_f2a (mc_tr st1))))) (mc_opt st1)
      else mc_opt st1 in
    mkMC (stop_tracking i (mc_tr st1)) (mc_changed st1) opt1.
End Match.

Definition match_common_args (func_class : list N) (fs : list expr) (opt : bmap) : res bmap :=
  if (16 <? length fs)%nat then ErrExn EXN_UNMODELLED
  else
    let funcs := sort_by (fun a b : expr * list expr => (length (snd a) <? length (snd b))%nat)
                         (map (fun b => (b, get_args b)) fs) in
    let st := fold_left (mc_step func_class funcs) (map N.of_nat (seq 0 (length funcs)))
                        (mkMC (tracker_init funcs) [] opt) in
    Ok (mc_opt st).

(* ================================================================ opt_cse *)
Definition opt_fuel (es : list expr) : nat := (2 * total_weight es + 10)%nat.

Definition opt_cse (C : ctors) (es : list expr) : res bmap :=
  do st <- foldM (ov_visit C (opt_fuel es)) es ov_empty;
  do o1 <- match_common_args name_add (map snd (ov_adds st)) (ov_opt st);
  match_common_args name_mul (map snd (ov_muls st)) o1.

(* cse = opt_cse ; tree_cse *)
Definition cse_model (C : ctors) (es : list expr) : res (list (expr * expr) * list expr) :=
  do opt <- opt_cse C es; tree_cse C opt es.
