(* C37: the hypotheses of the theorems are satisfiable on non-trivial inputs.
   es = [z*(x + y); sin(x + y)]  (the trees exactly as the library dumps them). *)
From SE Require Import C37.CseLibProofs C37.CseRefuted C37.CseOptLib C37.CseExcl.
Local Open Scope N_scope.

Definition vx : expr := ESym [120].
Definition vy : expr := ESym [121].
Definition vz : expr := ESym [122].
Definition xy : expr := EAdd (NInt 0) [(vy, NInt 1); (vx, NInt 1)].
Definition es0 : list expr :=
  [EMul (NInt 1) [(vz, ENum (NInt 1)); (xy, ENum (NInt 1))]; EF1 TC_Sin xy].

(* the checker accepts the factoring x0 := x + y, [z*x0; sin(x0)] (as returned by the library) *)
Example checker_accepts :
  check_cse es0 [(sym_x 0, xy)]
            [EMul (NInt 1) [(vz, ENum (NInt 1)); (sym_x 0, ENum (NInt 1))]; EF1 TC_Sin (sym_x 0)] es0 = true.
Proof. vm_compute. reflexivity. Qed.
(* ... and rejects a replacement symbol that occurs in the inputs, or a cyclic definition *)
Example checker_rejects_not_fresh :
  check_cse es0 [(vz, xy)] [EMul (NInt 1) [(vz, ENum (NInt 1)); (vz, ENum (NInt 1))]; EF1 TC_Sin vz] es0 = false.
Proof. vm_compute. reflexivity. Qed.
Example checker_rejects_cyclic :
  check_cse es0 [(sym_x 0, EF1 TC_Sin (sym_x 0))] [sym_x 0; sym_x 0] es0 = false.
Proof. vm_compute. reflexivity. Qed.

(* the model with the library's constructors finds the common subexpression; the inputs satisfy
   the per-instance hypothesis excl_complete and the guard of the faithfulness theorem *)
Example model_runs :
  exists reps red excl,
    tree_cse_lib [] es0 = Ok (reps, red) /\ length reps = 1%nat /\
    tree_cse_excluded (cse_fuel [] es0) [] es0 = Ok excl /\
    excl_complete excl es0 = true /\ cse_guard es0 = false.
Proof.
  eexists. eexists. eexists.
  split; [vm_compute; reflexivity|]. split; [reflexivity|].
  split; [vm_compute; reflexivity|]. split; vm_compute; reflexivity.
Qed.

(* the hypotheses on the constructors and on the semantics are satisfiable: the free constructors
   invent no Symbol; the laws hold e.g. for the one-point semantics (any compositional evaluation of
   the library's trees that respects its eq is the intended instance) *)
Example ctors_hypothesis_satisfiable : ctors_syms free_ctors.
Proof. exact free_ctors_syms. Qed.
Example sem_hypothesis_satisfiable : sem_laws free_ctors unit (fun _ _ => tt) (fun _ => True).
Proof. exact (unit_sem_laws free_ctors). Qed.
Example free_model_runs :
  exists reps red, tree_cse free_ctors [] es0 = Ok (reps, red) /\ length reps = 1%nat.
Proof. eexists. eexists. split; [vm_compute; reflexivity|reflexivity]. Qed.

(* the inputs of the examples are in the class of the excluded-symbols theorem *)
Example inputs_ok : forallb input_ok es0 = true.
Proof. vm_compute. reflexivity. Qed.

(* opt_cse / match_common_args: es = [z + y + x; w + y + x] share the sub-sum y + x; the model of
   the whole cse() finds it (one replacement), as the library does *)
Definition vw : expr := ESym [119].
Definition es1 : list expr :=
  [EAdd (NInt 0) [(vz, NInt 1); (vy, NInt 1); (vx, NInt 1)]; EAdd (NInt 0) [(vw, NInt 1); (vy, NInt 1); (vx, NInt 1)]].
Example opt_model_runs :
  exists opt reps red, opt_cse_lib es1 = Ok opt /\ length opt = 2%nat /\
                       cse_lib es1 = Ok (reps, red) /\ length reps = 1%nat /\ length red = 2%nat.
Proof.
  eexists. eexists. eexists.
  split; [vm_compute; reflexivity|]. split; [reflexivity|].
  split; [vm_compute; reflexivity|]. split; reflexivity.
Qed.
