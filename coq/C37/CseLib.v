(* C37 -- the constructors of the library, as far as they are modelled, plugged into the generic
   model of CseModel.v.  This is the instance the extracted model runs against the library.

   - add(vec), mul(vec), pow, neg: the arithmetic model Expr/Arith.v (C03/C04/C07), with its own
     fuel [api_fuel].
   - OneArgFunction::create(arg): every create() of functions.cpp returns the plain node when the
     argument is a Symbol (no numeric evaluation, no sign extraction, no inverse-function
     shortcut applies); other arguments are outside the model (EXN_UNMODELLED: the case is then
     covered by the checker and the oracle only).
   - Max/Min::create = max(vec)/min(vec): transcribed for argument lists with at most one
     Number, no Complex and no nested Max/Min (then no number arithmetic is needed): the
     arguments go through a set_basic, the result lists them in RCPBasicKeyLess order.
     LeviCivita::create is outside the model.
   - Eq(lhs, rhs) (logic.cpp) and piecewise(vec) (logic.cpp): transcribed.
   No proofs here. *)
From SE Require Export C37.CseModel.
From SE Require Import Expr.Arith.
Local Open Scope N_scope.
Local Open Scope res_scope.

Definition lib_add (l : list expr) : res expr := api_run OAddV l.
Definition lib_mul (l : list expr) : res expr := api_run OMulV l.
Definition lib_pow (a b : expr) : res expr := api_run OPow [a; b].
Definition lib_neg (a : expr) : res expr := api_run ONeg [a].

Definition lib_f1 (c : N) (a : expr) : res expr :=
  match a with
  | ESym _ => Ok (EF1 c a)
  | _ => ErrExn EXN_UNMODELLED
  end.

Definition is_complex_num (e : expr) : bool :=
  match e with ENum (NCplx _ _ _ _) => true | _ => false end.
Definition lib_fn (c : N) (l : list expr) : res expr :=
  if (c =? TC_Max) || (c =? TC_Min) then
    if existsb is_complex_num l then ErrExn EXN_SYMENGINE
    else if (2 <=? length (filter CseModel.is_number l))%nat
            || existsb (fun a => match a with EFN c' _ => c' =? c | _ => false end) l
    then ErrExn EXN_UNMODELLED
    else
      (* new_args.insert(p) for the non-numbers in order, then the number (if any) *)
      let others := filter (fun a => negb (CseModel.is_number a)) l in
      let nums := filter CseModel.is_number l in
      let s := set_insert_all (map mk_hx (others ++ nums)) [] in
      match s with
      | [] => ErrExn EXN_SYMENGINE
      | [x] => Ok (snd x)
      | _ => Ok (EFN c (map snd s))
      end
  else ErrExn EXN_UNMODELLED.

(* Eq(lhs, rhs) *)
Definition lib_eq (lhs rhs : expr) : res expr :=
  match lhs, rhs with
  | ENum NNaN, _ | _, ENum NNaN => Ok (EBool false)
  | _, _ =>
      if expr_eqb lhs rhs then Ok (EBool true)
      else if (CseModel.is_number lhs && CseModel.is_number rhs) || (is_bool_atom lhs && is_bool_atom rhs)
      then Ok (EBool false)
      else if (expr_cmp lhs rhs =? 1)%Z then Ok (EF2 TC_Equality rhs lhs)
      else Ok (EF2 TC_Equality lhs rhs)
  end.
Definition lib_eq_true (c : expr) : res expr := lib_eq c (EBool true).

(* Ne(lhs, rhs) *)
Definition lib_ne (lhs rhs : expr) : res expr :=
  do r <- lib_eq lhs rhs;
  match r with
  | EBool b => Ok (EBool (negb b))
  | _ => if (expr_cmp lhs rhs =? 1)%Z then Ok (EF2 TC_Unequality rhs lhs) else Ok (EF2 TC_Unequality lhs rhs)
  end.

(* Le(lhs, rhs) / Lt(lhs, rhs); the comparison of two Numbers (a subtraction) is outside the model *)
Definition is_complex_number (e : expr) : bool :=
  match e with ENum (NCplx _ _ _ _) | ENum (NCDbl _ _) | ENum (NInf 0%Z) => true | _ => false end.
Definition lib_ineq (c : N) (strict : bool) (lhs rhs : expr) : res expr :=
  if is_complex_number lhs || is_complex_number rhs then ErrExn EXN_SYMENGINE
  else match lhs, rhs with
  | ENum NNaN, _ | _, ENum NNaN => ErrExn EXN_SYMENGINE
  | _, _ =>
      if is_bool_atom lhs || is_bool_atom rhs then ErrExn EXN_SYMENGINE
      else if expr_eqb lhs rhs then Ok (EBool (negb strict))
      else if CseModel.is_number lhs && CseModel.is_number rhs then ErrExn EXN_UNMODELLED
      else Ok (EF2 c lhs rhs)
  end.

(* TwoArgBasic<T>::create.  ATan2::create = atan2(num, den) returns the plain node unless the
   quotient is a tabulated value or an argument is a Number: modelled when one argument is a
   Symbol, the other is not a Number and the two differ; the other two-argument functions
   (beta and kronecker_delta reorder their arguments, ...) are outside the model. *)
Definition lib_f2 (c : N) (a b : expr) : res expr :=
  if c =? TC_Equality then lib_eq a b
  else if c =? TC_Unequality then lib_ne a b
  else if c =? TC_LessThan then lib_ineq c false a b
  else if c =? TC_StrictLessThan then lib_ineq c true a b
  else if c =? TC_ATan2 then
    if (CseModel.is_symbol a || CseModel.is_symbol b) && negb (CseModel.is_number a) && negb (CseModel.is_number b)
       && negb (expr_eqb a b)
    then Ok (EF2 c a b) else ErrExn EXN_UNMODELLED
  else ErrExn EXN_UNMODELLED.

(* piecewise(vec) *)
Fixpoint pw_loop (l : list (expr * expr)) (conds : hset) (acc : list (expr * expr)) : list (expr * expr) :=
  match l with
  | [] => rev acc
  | p :: r =>
      if expr_eqb (snd p) (EBool false) then pw_loop r conds acc
      else if expr_eqb (snd p) (EBool true) then rev (p :: acc)
      else if hset_mem (snd p) conds then pw_loop r conds acc
      else pw_loop r (hset_add (snd p) conds) (p :: acc)
  end.
Definition lib_pw (l : list (expr * expr)) : res expr :=
  match pw_loop l [] [] with
  | [] => ErrExn EXN_DOMAIN
  | [p] => if expr_eqb (snd p) (EBool true) then Ok (fst p) else Ok (EPw [p])
  | v => Ok (EPw v)
  end.

Definition lib_ctors : ctors :=
  mkCtors lib_add lib_mul lib_pow lib_neg lib_f1 lib_f2 lib_fn lib_eq_true lib_pw.

Definition tree_cse_lib (opt : bmap) (es : list expr) : res (list (expr * expr) * list expr) :=
  tree_cse lib_ctors opt es.
