(* C37 obligation (cse_faithful, guarded): tree_cse with empty opt_subs is a faithful factoring
   under EVERY compositional semantics.  For any constructors C that do not invent Symbols and any
   interpretation sem : valuation -> tree -> D under which (sem_laws) a Symbol means its value, the
   meaning depends only on the Symbols of the tree, trees identified by the library's hash + eq
   mean the same (on a class `ok` of trees closed under get_args, e.g. the well-formed ones), and
   each constructor is compositional w.r.t. the get_args of the node it rebuilds:
   evaluating the replacement list FRONT TO BACK (x_k := meaning of its right-hand side) and then
   the reduced expressions yields exactly the meanings of the inputs -- equivalently,
   substituting the replacements back last to first reproduces the inputs up to sem.
   Guard: cse_guard es = false (no FunctionSymbol named add/mul/pow, no Piecewise: the two defects
   refuted in P_*_refuted.v).  excl_complete is checked per instance by the extracted model. *)
From SE Require Import C37.CseSem.
Theorem C37_tree_cse_faithful_guarded :
  forall (C : ctors) (D : Type) (sem : (list N -> D) -> expr -> D) (ok : expr -> Prop),
    sem_laws C D sem ok -> ctors_syms C ->
    forall (fuel : nat) (es : list expr) reps red excl (r0 : list N -> D),
      (forall e, In e es -> ok e) ->
      tree_cse_with C fuel [] es = Ok (reps, red) ->
      tree_cse_excluded fuel [] es = Ok excl ->
      excl_complete excl es = true ->
      cse_guard es = false ->
      Forall2 (fun v e => sem (eval_reps sem reps r0) v = sem r0 e) red es.
Proof. exact tree_cse_faithful. Qed.
Print Assumptions C37_tree_cse_faithful_guarded.
