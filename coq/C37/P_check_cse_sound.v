(* C37 obligation (Deliverable A): the checker that the extracted model runs on the outputs of the
   library's cse() for every explored input is sound: when it answers true, (reps, red) is a
   faithful factoring of es in the sense of CseSpec.v -- as many outputs as inputs, the library's
   own back-substitution `back` is eq to the inputs, every replacement key is a Symbol, pairwise
   distinct, not occurring in es, every right-hand side mentions only replacement symbols defined
   strictly earlier, and no Symbol is invented.  For ALL es, reps, red, back. *)
From SE Require Import C37.CseCheckProofs.
Theorem C37_check_cse_sound :
  forall (es : list expr) (reps : list (expr * expr)) (red back : list expr),
    check_cse es reps red back = true ->
    length red = length es /\
    Forall2 (fun b e => expr_eqb b e = true) back es /\
    (forall s r, In (s, r) reps -> exists n, s = ESym n) /\
    NoDup (map fst reps) /\
    (forall n r e, In (ESym n, r) reps -> In e es -> ~ In n (syms e)) /\
    (forall l1 s r l2 n, reps = l1 ++ (s, r) :: l2 -> In n (syms r) ->
        In (ESym n) (map fst reps) -> In (ESym n) (map fst l1)) /\
    (forall o n, In o (red ++ map snd reps) -> In n (syms o) ->
        (exists r, In (ESym n, r) reps) \/ (exists e, In e es /\ In n (syms e))).
Proof.
  intros es reps red back H. destruct (check_cse_sound _ _ _ _ H) as [H1 H2 H3 H4 H5 H6 H7].
  repeat split; assumption.
Qed.
Print Assumptions C37_check_cse_sound.
