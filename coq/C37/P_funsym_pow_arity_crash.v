(* C37 refutation (reproduced on the library: known finding C37/crash:funsym-named-add-mul-pow):
   on the input [pow(x)] (a user FunctionSymbol "pow" with one argument) the model reads newargs[1]
   out of range, as the library does (abort under _GLIBCXX_ASSERTIONS). *)
From SE Require Import C37.CseRefuted.
Theorem C37_funsym_pow_arity_crash :
  tree_cse_lib [] [EFunSym name_pow [ESym [120%N]]] = ErrOOB 1 1.
Proof. exact funsym_pow_arity_crash. Qed.
Print Assumptions C37_funsym_pow_arity_crash.
