(* C37 -- faithfulness of tree_cse (empty opt_subs), stated for EVERY compositional semantics.

   Let [sem rho e : D] be any interpretation of expression trees under a valuation rho of the
   Symbols, such that ([sem_laws])
     - a Symbol means its value, and the meaning of a tree depends only on the Symbols in it,
     - expressions that the library's unordered_map identifies (same hash, eq) mean the same,
     - each constructor the rebuild calls is compositional: built from arguments that mean the
       same as the arguments (get_args) of a node, the result means the same as the node.
   Then, evaluating the replacement list front to back (x_k := meaning of its right-hand side
   under the valuation extended so far) and then the reduced expressions gives exactly the
   meanings of the inputs: [tree_cse_faithful].  With D = trees and sem = "substitute and
   re-canonicalise" this is the back-substitution statement of the property; with D = numbers
   it is "the factored program computes the same values".

   Guard [cse_guard es = false]: no FunctionSymbol named add / mul / pow and no Piecewise in the
   inputs (the two defects, CseRefuted.v).  Hypotheses checked per instance by the extracted
   model: [excl_complete].  Constructors must not invent Symbols ([ctors_syms]). *)
From SE Require Export C37.CseFlow.
From Coq Require Import Lia.
Local Open Scope N_scope.

(* ---------- the guard is inherited by the arguments ---------- *)
Notation gp := guard_node.

Lemma existsb_false_in : forall {A} (f : A -> bool) l a, existsb f l = false -> In a l -> f a = false.
Proof.
  intros A f l a H Hin. destruct (f a) eqn:E; [|reflexivity].
  assert (existsb f l = true) by (apply existsb_exists; exists a; auto). congruence.
Qed.

Lemma gn_mul_from_dict : forall v dk,
  existsb (fun q => any_node gp (fst q) || any_node gp (snd q)) dk = false ->
  any_node gp (mul_from_dict v dk) = false.
Proof.
  intros v dk H. unfold mul_from_dict. destruct (nis_zero v); [reflexivity|].
  destruct dk as [|[k x] [|p r]]; [reflexivity| |cbn [any_node guard_node is_reserved_funsym is_piecewise orb]; exact H].
  cbn [existsb fst snd] in H. rewrite orb_false_r in H. apply orb_false_iff in H. destruct H as [Hk Hx].
  assert (G2 : any_node gp (EPow k x) = false) by (cbn [any_node guard_node is_reserved_funsym is_piecewise orb]; rewrite Hk, Hx; reflexivity).
  assert (G3 : any_node gp (EMul v [(k, x)]) = false).
  { cbn [any_node guard_node is_reserved_funsym is_piecewise orb existsb fst snd]. rewrite Hk, Hx. reflexivity. }
  destruct x as [[z| | | | | |]| | | | | | | | | | | | | | | | |];
    repeat match goal with |- context [if ?c then _ else _] => destruct c end; assumption.
Qed.

Lemma gn_add_single : forall k v, any_node gp k = false -> any_node gp (add_single k v) = false.
Proof.
  intros k v H. unfold add_single.
  assert (G : any_node gp match k with
                          | EMul _ dk => mul_from_dict v dk
                          | EPow b x => EMul v [(b, x)]
                          | _ => EMul v [(k, E1)]
                          end = false).
  { destruct k; try (cbn [any_node guard_node is_reserved_funsym is_piecewise orb existsb fst snd E1] in *; rewrite ?H; reflexivity).
    apply gn_mul_from_dict. cbn [any_node guard_node is_reserved_funsym is_piecewise orb] in H. exact H. }
  destruct v; try exact G.
  destruct (z =? 0)%Z; [reflexivity|]. destruct (z =? 1)%Z; [exact H|exact G].
Qed.

Lemma guard_args : forall e a, any_node gp e = false -> In a (get_args e) -> any_node gp a = false.
Proof.
  intros e a H Hin.
  destruct e as [nu|nm|nm idx|nm|co d|co d|pb px|code fa|code fa fb|code l|nm l|code la lb|da dxs|sa sd|pl|bb|is ie lo ro|code];
    cbn [get_args] in Hin; cbn [any_node] in H; apply orb_false_iff in H; destruct H as [_ H].
  - destruct nu; cbn [In] in Hin; try tauto. destruct Hin as [<-|[]]. reflexivity.
  - destruct Hin.
  - destruct Hin.
  - destruct Hin.
  - apply in_app_or in Hin. destruct Hin as [Hin|Hin].
    + destruct (nis_zero co); [destruct Hin|]. destruct Hin as [<-|[]]. reflexivity.
    + apply in_map_iff in Hin. destruct Hin as ([k v] & <- & Hin).
      pose proof (existsb_false_in _ _ _ H Hin) as Hk. cbn [fst] in Hk.
      unfold add_term_arg. cbn [fst snd]. destruct (Cmp.num_eqb v (NInt 1)); [exact Hk|].
      unfold add_from_dict. cbn [nis_zero Z.eqb]. apply gn_add_single. exact Hk.
  - apply in_app_or in Hin. destruct Hin as [Hin|Hin].
    + destruct (nis_one co); [destruct Hin|]. destruct Hin as [<-|[]]. reflexivity.
    + apply in_map_iff in Hin. destruct Hin as ([k v] & <- & Hin).
      pose proof (existsb_false_in _ _ _ H Hin) as Hkv. cbn [fst snd] in Hkv. apply orb_false_iff in Hkv. destruct Hkv as [Hk Hv].
      unfold mul_term_arg. cbn [fst snd]. destruct (is_int_one v); [exact Hk|].
      cbn [any_node guard_node is_reserved_funsym is_piecewise orb]. rewrite Hk, Hv. reflexivity.
  - apply orb_false_iff in H. destruct H. destruct Hin as [<-|[<-|[]]]; assumption.
  - destruct Hin as [<-|[]]. exact H.
  - apply orb_false_iff in H. destruct H. destruct Hin as [<-|[<-|[]]]; assumption.
  - eapply existsb_false_in; eassumption.
  - eapply existsb_false_in; eassumption.
  - apply orb_false_iff in H. destruct H. destruct Hin as [<-|[<-|[]]]; assumption.
  - apply orb_false_iff in H. destruct H as [H1 H2]. destruct Hin as [<-|Hin]; [exact H1|]. eapply existsb_false_in; eassumption.
  - apply orb_false_iff in H. destruct H as [H1 H2]. destruct Hin as [<-|Hin]; [exact H1|].
    apply in_app_or in Hin. destruct Hin as [Hin|Hin]; apply in_map_iff in Hin; destruct Hin as ([k v] & <- & Hin);
      pose proof (existsb_false_in _ _ _ H2 Hin) as Hkv; cbn [fst snd] in Hkv; apply orb_false_iff in Hkv; destruct Hkv; assumption.
  - apply in_flat_map in Hin. destruct Hin as ([k v] & Hin & Ha). cbn [fst snd] in Ha.
    pose proof (existsb_false_in _ _ _ H Hin) as Hkv. cbn [fst snd] in Hkv. apply orb_false_iff in Hkv. destruct Hkv.
    destruct Ha as [<-|[<-|[]]]; assumption.
  - destruct Hin.
  - apply orb_false_iff in H. destruct H. destruct Hin as [<-|[<-|[<-|[<-|[]]]]]; try reflexivity; assumption.
  - destruct Hin.
Qed.

(* ---------- semantics ---------- *)
Section Sem.
  Variable C : ctors.
  Variable D : Type.
  Variable sem : (list N -> D) -> expr -> D.
  (* the class of input trees for which the semantics respects the library's eq (e.g. well-formed
     trees, C01); it must be inherited by get_args *)
  Variable ok : expr -> Prop.

  Definition sem_args (r' r : list N -> D) (l' l : list expr) : Prop :=
    Forall2 (fun a' a => sem r' a' = sem r a) l' l.

  Record sem_laws : Prop := mkSL {
    sl_sym : forall r n, sem r (ESym n) = r n;
    sl_ext : forall r r' e, (forall n, In n (syms e) -> r n = r' n) -> sem r e = sem r' e;
    sl_ok_args : forall e a, ok e -> In a (get_args e) -> ok a;
    sl_key : forall r a b, ok a -> ok b -> (hash b =? hash a) && expr_eqb a b = true -> sem r a = sem r b;
    sl_add : forall r r' co d l v, c_add C l = Ok v -> sem_args r' r l (get_args (EAdd co d)) -> sem r' v = sem r (EAdd co d);
    sl_mul : forall r r' co d l v, c_mul C l = Ok v -> sem_args r' r l (get_args (EMul co d)) -> sem r' v = sem r (EMul co d);
    sl_pow : forall r r' b x b' x' v, c_pow C b' x' = Ok v -> sem r' b' = sem r b -> sem r' x' = sem r x ->
               sem r' v = sem r (EPow b x);
    sl_f1 : forall r r' c a a' v, c_f1 C c a' = Ok v -> sem r' a' = sem r a -> sem r' v = sem r (EF1 c a);
    sl_f2 : forall r r' c a b a' b' v, c_f2 C c a' b' = Ok v -> sem r' a' = sem r a -> sem r' b' = sem r b ->
               sem r' v = sem r (EF2 c a b);
    sl_fn : forall r r' c l l' v, c_fn C c l' = Ok v -> sem_args r' r l' l -> sem r' v = sem r (EFN c l);
    sl_funsym : forall r r' nm l l', sem_args r' r l' l -> sem r' (EFunSym nm l') = sem r (EFunSym nm l)
  }.

  Hypothesis SL : sem_laws.
  Hypothesis CS : ctors_syms C.
  Variable env : rb_env.
  Hypothesis no_opt : env_opt env = [].
  Let excl := env_excl env.
  Variable r0 : list N -> D.          (* the valuation of the input Symbols *)

  Definition upd (r : list N -> D) (n : list N) (d : D) : list N -> D :=
    fun m => if bytes_eqb m n then d else r m.

  (* the valuation after the replacements of a state (list: last pushed first) *)
  Fixpoint val (L : list (expr * expr)) : list N -> D :=
    match L with
    | [] => r0
    | (ESym n, r) :: t => upd (val t) n (sem (val t) r)
    | _ :: t => val t
    end.

  Definition nonexcl (L : list (expr * expr)) : Prop := forall s r, In (s, r) L -> hset_mem s excl = false.

  Lemma val_agree : forall new old n, nonexcl new ->
    (hset_mem (ESym n) excl = true \/ ((exists r, In (ESym n, r) old) /\ NoDup (map fst (new ++ old)))) ->
    val (new ++ old) n = val old n.
  Proof.
    induction new as [|[s r] t IH]; intros old n Hne Hn; cbn [app]; [reflexivity|].
    assert (Ht : nonexcl t) by (intros s' r' H'; apply (Hne s' r'); right; exact H').
    assert (IH' : val (t ++ old) n = val old n).
    { apply IH; [exact Ht|]. destruct Hn as [Hn|[Hn ND]]; [left; exact Hn|right]. split; [exact Hn|].
      cbn [app map] in ND. inversion ND. assumption. }
    destruct s; cbn [val]; try exact IH'.
    unfold upd. destruct (bytes_eqb n name) eqn:E; [|exact IH'].
    exfalso. apply bytes_eqb_eq in E. subst name.
    pose proof (Hne (ESym n) r (or_introl eq_refl)) as Hs.
    destruct Hn as [Hn|[(r' & Hr') ND]]; [congruence|].
    cbn [app map fst] in ND. inversion ND as [|? ? Hnotin _]. subst. apply Hnotin.
    apply in_map_iff. exists (ESym n, r'). split; [reflexivity|]. apply in_or_app. right. exact Hr'.
  Qed.

  (* facts carried by the chain of CseProofs.v *)
  Lemma chain_facts : forall L lo hi, chain excl L lo hi -> nonexcl L /\ NoDup (map fst L).
  Proof.
    intros L lo hi H. destruct (chain_keys _ _ _ _ H) as (ks & Hm & Hs & Hall). split.
    - intros s r Hin. assert (Hk : In s (map fst L)) by (apply in_map_iff; exists (s, r); auto).
      rewrite Hm in Hk. apply in_map_iff in Hk. destruct Hk as (k & <- & Hk). apply Hall. exact Hk.
    - rewrite Hm. apply NoDup_map_sym_x.
      pose proof (sorted_lt_NoDup _ (sorted_rev _ Hs)) as ND. apply NoDup_rev in ND.
      rewrite rev_involutive in ND. exact ND.
  Qed.

  Definition chained (st : rb_state) : Prop := chain excl (rb_reps st) 0 (rb_next st).

  Lemma chained_ext : forall st st', chained st -> ext excl st st' -> chained st'.
  Proof.
    intros st st' H (new & E & Hc). unfold chained. rewrite E. eapply chain_app; eassumption.
  Qed.

  (* an expression that is good in st keeps its meaning when the state is extended *)
  Lemma sem_stable : forall st st' v, chained st' -> ext excl st st' -> good env st v ->
    sem (val (rb_reps st')) v = sem (val (rb_reps st)) v.
  Proof.
    intros st st' v Hch (new & E & Hc) G. rewrite E. apply (sl_ext SL). intros n Hn.
    unfold chained in Hch. rewrite E in Hch. destruct (chain_facts _ _ _ Hch) as [Hne ND].
    apply val_agree.
    - intros s r Hin. apply (Hne s r). apply in_or_app. left. exact Hin.
    - destruct (G n Hn) as [Q|Q]; [left; exact Q|right]. split; [exact Q|exact ND].
  Qed.

  (* an original subtree means the same under every state valuation *)
  Lemma sem_orig : forall st e, chained st -> excl_ok env e -> sem (val (rb_reps st)) e = sem r0 e.
  Proof.
    intros st e Hch He. apply (sl_ext SL). intros n Hn.
    destruct (chain_facts _ _ _ Hch) as [Hne _].
    rewrite <- (app_nil_r (rb_reps st)). apply (val_agree (rb_reps st) [] n Hne). left. apply He. exact Hn.
  Qed.

  Definition subs_sem (st : rb_state) : Prop :=
    forall o s, In (o, s) (rb_subs st) -> ok o /\ sem (val (rb_reps st)) s = sem r0 o.
  Definition K (st : rb_state) : Prop := J env st /\ chained st /\ subs_sem st.
  Definition pre (e : expr) : Prop := (excl_ok env e /\ any_node gp e = false) /\ ok e.

  Definition ap_sem (ap : rb_state -> expr -> res ares) : Prop :=
    forall st e x, ap st e = Ok x -> K st -> pre e ->
      K (fst x) /\ good env (fst x) (fst (snd x)) /\ ext excl st (fst x) /\
      sem (val (rb_reps (fst x))) (fst (snd x)) = sem r0 e.

  Lemma ext_grows : forall st st', ext excl st st' -> grows st st'.
  Proof. intros st st' (new & E & _). exists new. exact E. Qed.

  Lemma pre_args : forall e a, pre e -> In a (get_args e) -> pre a.
  Proof.
    intros e a [[H1 H2] H3] Hin. split; [split; [eapply excl_ok_args; eassumption|eapply guard_args; eassumption]|].
    eapply (sl_ok_args SL); eassumption.
  Qed.

  Section Visit.
    Variable ap : rb_state -> expr -> res ares.
    Hypothesis AP : ap_sem ap.

    Lemma apply_list_sem : forall l st x, apply_list ap st l = Ok x -> K st -> (forall a, In a l -> pre a) ->
      K (fst x) /\ (forall v, In v (snd x) -> good env (fst x) v) /\ ext excl st (fst x) /\
      sem_args (val (rb_reps (fst x))) r0 (snd x) l.
    Proof.
      induction l as [|a l IH]; intros st x H HK Hl; cbn [apply_list] in H.
      - inv_ok H. cbn [fst snd]. split; [exact HK|]. split; [intros v []|]. split; [apply ext_refl|constructor].
      - stepn H r1 E1. stepn H r2 E2. inv_ok H. cbn [fst snd].
        destruct (AP _ _ _ E1 HK (Hl a (or_introl eq_refl))) as (K1 & G1 & X1 & S1).
        destruct (IH _ _ E2 K1 (fun b Hb => Hl b (or_intror Hb))) as (K2 & G2 & X2 & S2).
        split; [exact K2|]. split; [|split; [eapply ext_trans; eassumption|]].
        + intros v [<-|Hv]; [eapply good_grows; [apply ext_grows; exact X2|exact G1]|apply G2; exact Hv].
        + constructor; [|exact S2]. rewrite <- S1. apply sem_stable; [apply K2|exact X2|exact G1].
    Qed.

    Lemma rb_visit_sem : forall st e x, rb_visit C ap st e = Ok x -> K st -> pre e ->
      K (fst x) /\ good env (fst x) (fst (snd x)) /\ ext excl st (fst x) /\
      sem (val (rb_reps (fst x))) (fst (snd x)) = sem r0 e.
    Proof.
      intros st e x H HK He.
      assert (Hex : excl_ok env e) by apply He.
      assert (SAME : K st /\ good env st e /\ ext excl st st /\ sem (val (rb_reps st)) e = sem r0 e).
      { split; [exact HK|]. split; [apply excl_ok_good; exact Hex|]. split; [apply ext_refl|].
        apply sem_orig; [apply HK|exact Hex]. }
      destruct e as [nu|nm|nm idx|nm|co d|co d|pb px|code fa|code fa fb|code l|nm l|code la lb|da dxs|sa sd|pl|bb|is ie lo ro|code];
        cbn [rb_visit] in H; try (inv_ok H; exact SAME).
      - (* Add *) stepn H r1 E1. stepn H r2 E2. inv_ok H. cbn [fst snd].
        destruct (apply_list_sem _ _ _ E1 HK (fun a Ha => pre_args _ a He Ha)) as (K1 & G1 & X1 & S1).
        split; [exact K1|]. split; [|split; [exact X1|]].
        + eapply good_of_list; [intros n Hn; eapply cs_add; eassumption|exact G1].
        + eapply (sl_add SL); eassumption.
      - (* Mul *) stepn H r1 E1. stepn H r2 E2. inv_ok H. cbn [fst snd].
        destruct (apply_list_sem _ _ _ E1 HK (fun a Ha => pre_args _ a He Ha)) as (K1 & G1 & X1 & S1).
        split; [exact K1|]. split; [|split; [exact X1|]].
        + eapply good_of_list; [intros n Hn; eapply cs_mul; eassumption|exact G1].
        + eapply (sl_mul SL); eassumption.
      - (* Pow *) stepn H r1 E1. stepn H r2 E2.
        assert (Hb : pre pb) by (apply (pre_args _ pb He); cbn [get_args]; auto with datatypes).
        assert (Hx : pre px) by (apply (pre_args _ px He); cbn [get_args]; auto with datatypes).
        destruct (AP _ _ _ E1 HK Hb) as (K1 & G1 & X1 & S1). destruct (AP _ _ _ E2 K1 Hx) as (K2 & G2 & X2 & S2).
        assert (X : ext excl st (fst r2)) by (eapply ext_trans; eassumption).
        destruct (snd (snd r1) && snd (snd r2)).
        + inv_ok H. cbn [fst snd]. split; [exact K2|]. split; [apply excl_ok_good; exact Hex|]. split; [exact X|].
          apply sem_orig; [apply K2|exact Hex].
        + stepn H r3 E3. inv_ok H. cbn [fst snd]. split; [exact K2|]. split; [|split; [exact X|]].
          * intros n Hn. destruct (cs_pow C CS _ _ _ _ E3 Hn) as [Q|Q];
              [exact (good_grows _ _ _ _ (ext_grows _ _ X2) G1 n Q)|exact (G2 n Q)].
          * eapply (sl_pow SL); [eassumption| |exact S2].
            rewrite <- S1. apply sem_stable; [apply K2|exact X2|exact G1].
      - (* F1 *) destruct (is_one_arg_function code); [|inv_ok H; exact SAME].
        stepn H r1 E1. assert (Ha : pre fa) by (apply (pre_args _ fa He); cbn [get_args]; auto with datatypes).
        destruct (AP _ _ _ E1 HK Ha) as (K1 & G1 & X1 & S1).
        destruct (expr_eqb (fst (snd r1)) fa).
        + inv_ok H. cbn [fst snd]. split; [exact K1|]. split; [apply excl_ok_good; exact Hex|]. split; [exact X1|].
          apply sem_orig; [apply K1|exact Hex].
        + stepn H r2 E2. inv_ok H. cbn [fst snd]. split; [exact K1|]. split; [|split; [exact X1|]].
          * intros n Hn. apply G1. eapply cs_f1; eassumption.
          * eapply (sl_f1 SL); eassumption.
      - (* F2 *) stepn H r1 E1. stepn H r2 E2.
        assert (Ha : pre fa) by (apply (pre_args _ fa He); cbn [get_args]; auto with datatypes).
        assert (Hb : pre fb) by (apply (pre_args _ fb He); cbn [get_args]; auto with datatypes).
        destruct (AP _ _ _ E1 HK Ha) as (K1 & G1 & X1 & S1). destruct (AP _ _ _ E2 K1 Hb) as (K2 & G2 & X2 & S2).
        assert (X : ext excl st (fst r2)) by (eapply ext_trans; eassumption).
        destruct (snd (snd r1) && snd (snd r2)).
        + inv_ok H. cbn [fst snd]. split; [exact K2|]. split; [apply excl_ok_good; exact Hex|]. split; [exact X|].
          apply sem_orig; [apply K2|exact Hex].
        + stepn H r3 E3. inv_ok H. cbn [fst snd]. split; [exact K2|]. split; [|split; [exact X|]].
          * intros n Hn. destruct (cs_f2 C CS _ _ _ _ _ E3 Hn) as [Q|Q];
              [exact (good_grows _ _ _ _ (ext_grows _ _ X2) G1 n Q)|exact (G2 n Q)].
          * eapply (sl_f2 SL); [eassumption| |exact S2].
            rewrite <- S1. apply sem_stable; [apply K2|exact X2|exact G1].
      - (* FN *) destruct (is_multi_arg_function code); [|inv_ok H; exact SAME].
        stepn H r1 E1. stepn H r2 E2. inv_ok H. cbn [fst snd].
        destruct (apply_list_sem _ _ _ E1 HK (fun a Ha => pre_args _ a He Ha)) as (K1 & G1 & X1 & S1).
        split; [exact K1|]. split; [|split; [exact X1|]].
        + eapply good_of_list; [intros n Hn; eapply cs_fn; eassumption|exact G1].
        + eapply (sl_fn SL); eassumption.
      - (* FunSym: the guard excludes the reserved names *)
        stepn H r1 E1.
        destruct (apply_list_sem _ _ _ E1 HK (fun a Ha => pre_args _ a He Ha)) as (K1 & G1 & X1 & S1).
        destruct He as [[_ Hg] _]. cbn [any_node guard_node is_reserved_funsym is_piecewise] in Hg.
        apply orb_false_iff in Hg. destruct Hg as [Hg _]. unfold guard_node, is_reserved_funsym, is_piecewise in Hg. rewrite orb_false_r in Hg.
        apply orb_false_iff in Hg. destruct Hg as [Hg Hg3]. apply orb_false_iff in Hg. destruct Hg as [Hg1 Hg2].
        rewrite Hg1, Hg2, Hg3 in H. inv_ok H. cbn [fst snd].
        split; [exact K1|]. split; [|split; [exact X1|]].
        + intros n Hn. cbn [syms] in Hn. apply in_flat_map in Hn. destruct Hn as (a & Ha & Hn). exact (G1 a Ha n Hn).
        + apply (sl_funsym SL). exact S1.
      - (* Pw: excluded by the guard *)
        destruct He as [[_ Hg] _]. cbn [any_node] in Hg. unfold guard_node, is_reserved_funsym, is_piecewise in Hg. rewrite orb_true_r in Hg. discriminate.
    Qed.
  End Visit.

  Lemma bmap_find_key : forall k m v, bmap_find k m = Some v ->
    exists k', In (k', v) m /\ (hash k' =? hash k) && expr_eqb k k' = true.
  Proof.
    induction m as [|[k' v'] m IH]; intros v H; cbn [bmap_find] in H; [discriminate|].
    destruct ((hash k' =? hash k) && expr_eqb k k') eqn:E.
    - injection H as <-. exists k'. split; [left; reflexivity|exact E].
    - destruct (IH _ H) as (k2 & Hin & Hk). exists k2. split; [right; exact Hin|exact Hk].
  Qed.

  Lemma rb_apply_sem : forall fuel, ap_sem (rb_apply C env fuel).
  Proof.
    induction fuel as [|f IH]; intros st e x H HK He; cbn [rb_apply] in H; [discriminate|].
    assert (Hex : excl_ok env e) by apply He.
    assert (Hoke : ok e) by apply He.
    destruct (is_atom e).
    { inv_ok H. cbn [fst snd]. split; [exact HK|]. split; [apply excl_ok_good; exact Hex|]. split; [apply ext_refl|].
      apply sem_orig; [apply HK|exact Hex]. }
    destruct (bmap_find e (rb_subs st)) as [s|] eqn:EF.
    { inv_ok H. cbn [fst snd]. split; [exact HK|].
      destruct (bmap_find_key _ _ _ EF) as (k' & Hin & Hkey). destruct HK as (HJ & Hch & HS).
      split; [|split; [apply ext_refl|]].
      - destruct HJ as [_ HSo]. destruct (HSo _ _ Hin) as (n & r & -> & Hr). intros m Hm. cbn [syms] in Hm.
        destruct Hm as [<-|[]]. right. exists r. exact Hr.
      - destruct (HS _ _ Hin) as [Hok' Hs']. rewrite Hs'. symmetry. apply (sl_key SL); assumption. }
    rewrite no_opt in H. cbn [bmap_find] in H.
    stepn H r1 E1.
    destruct (rb_visit_sem _ IH _ _ _ E1 HK He) as (K1 & G1 & X1 & S1).
    destruct (hset_mem e (env_elim env)).
    - stepn H sk E2. inv_ok H. cbn [fst snd]. destruct sk as [s k']. cbn [fst snd].
      apply next_symbol_spec in E2. destruct E2 as (j & Hs & Hj & Hk & Hnex).
      pose (st2 := mkRB ((e, s) :: rb_subs (fst r1)) ((s, fst (snd r1)) :: rb_reps (fst r1)) k').
      change (mkRB ((e, s) :: rb_subs (fst r1)) ((s, fst (snd r1)) :: rb_reps (fst r1)) k') with st2.
      assert (X12 : ext excl (fst r1) st2).
      { exists [(s, fst (snd r1))]. unfold st2. cbn [rb_reps rb_next app]. split; [reflexivity|].
        cbn [chain]. exists j. repeat split; try assumption; lia. }
      destruct K1 as (J1 & C1 & SS1).
      assert (C2 : chained st2) by (eapply chained_ext; eassumption).
      assert (VS : sem (val (rb_reps st2)) s = sem r0 e).
      { unfold st2. cbn [rb_reps]. unfold sym_x in Hs. rewrite Hs. cbn [val]. rewrite (sl_sym SL). unfold upd.
        rewrite (proj2 (bytes_eqb_eq _ _) eq_refl). exact S1. }
      assert (G2 : good env st2 s).
      { intros m Hm. unfold sym_x in Hs. rewrite Hs in Hm. cbn [syms] in Hm. destruct Hm as [<-|[]]. right.
        exists (fst (snd r1)). unfold st2. cbn [rb_reps]. left. rewrite Hs. reflexivity. }
      split; [|split; [exact G2|split; [eapply ext_trans; eassumption|exact VS]]].
      split; [|split; [exact C2|]].
      + split.
        * unfold st2. cbn [rb_reps wfreps]. split; [exact G1|apply J1].
        * unfold st2. cbn [rb_reps rb_subs]. intros o s' [Ho|Ho].
          -- injection Ho as <- <-. unfold sym_x in Hs. exists (sym_name j), (fst (snd r1)). split; [exact Hs|]. left. rewrite Hs. reflexivity.
          -- destruct J1 as [_ HSo]. destruct (HSo _ _ Ho) as (n & r & Hn & Hr). exists n, r. split; [exact Hn|right; exact Hr].
      + intros o s' Ho. unfold st2 in Ho. cbn [rb_subs] in Ho. destruct Ho as [Ho|Ho].
        * injection Ho as <- <-. split; [exact Hoke|exact VS].
        * destruct (SS1 _ _ Ho) as [Hok' Hs']. split; [exact Hok'|]. rewrite <- Hs'. apply sem_stable; [exact C2|exact X12|].
          destruct J1 as [_ HSo]. destruct (HSo _ _ Ho) as (n & r & -> & Hr). intros m Hm. cbn [syms] in Hm.
          destruct Hm as [<-|[]]. right. exists r. exact Hr.
    - inv_ok H. cbn [fst snd]. split; [exact K1|]. split; [exact G1|]. split; [exact X1|exact S1].
  Qed.

  Lemma rb_all_sem : forall fuel es st x, rb_all C env fuel st es = Ok x -> K st -> (forall e, In e es -> pre e) ->
    K (fst x) /\ sem_args (val (rb_reps (fst x))) r0 (snd x) es.
  Proof.
    induction es as [|e es IH]; intros st x H HK Hes; cbn [rb_all] in H.
    - inv_ok H. cbn [fst snd]. split; [exact HK|constructor].
    - stepn H r1 E1. stepn H r2 E2. inv_ok H. cbn [fst snd].
      destruct (rb_apply_sem _ _ _ _ E1 HK (Hes e (or_introl eq_refl))) as (K1 & G1 & X1 & S1).
      destruct (IH _ _ E2 K1 (fun b Hb => Hes b (or_intror Hb))) as (K2 & S2).
      split; [exact K2|]. constructor; [|exact S2].
      rewrite <- S1. apply sem_stable; [apply K2| |exact G1]. eapply rb_all_ext. eassumption.
  Qed.
End Sem.

(* ---------- the statement ---------- *)
(* evaluate the replacement list front to back *)
Fixpoint eval_reps {D : Type} (sem : (list N -> D) -> expr -> D) (reps : list (expr * expr)) (r : list N -> D)
  : list N -> D :=
  match reps with
  | [] => r
  | (ESym n, rhs) :: t => eval_reps sem t (upd D r n (sem r rhs))
  | _ :: t => eval_reps sem t r
  end.

Lemma eval_reps_app : forall {D} (sem : (list N -> D) -> expr -> D) a b r,
  eval_reps sem (a ++ b) r = eval_reps sem b (eval_reps sem a r).
Proof.
  induction a as [|[s rhs] a IH]; intros b r; cbn [app eval_reps]; [reflexivity|].
  destruct s; apply IH.
Qed.

Lemma val_eval : forall {D} (sem : (list N -> D) -> expr -> D) r0 L,
  val D sem r0 L = eval_reps sem (rev L) r0.
Proof.
  induction L as [|[s rhs] t IH]; cbn [rev val]; [reflexivity|].
  rewrite eval_reps_app. cbn [eval_reps]. destruct s; rewrite <- ?IH; reflexivity.
Qed.

Theorem tree_cse_faithful : forall C D (sem : (list N -> D) -> expr -> D) (ok : expr -> Prop),
  sem_laws C D sem ok -> ctors_syms C ->
  forall fuel es reps red excl r0,
  (forall e, In e es -> ok e) ->
  tree_cse_with C fuel [] es = Ok (reps, red) ->
  tree_cse_excluded fuel [] es = Ok excl ->
  excl_complete excl es = true ->
  cse_guard es = false ->
  Forall2 (fun v e => sem (eval_reps sem reps r0) v = sem r0 e) red es.
Proof.
  intros C D sem ok SL CS fuel es reps red excl r0 Hok H HX HC HG.
  unfold tree_cse_with in H. stepn H fr E1. stepn H r2 E2. inv_ok H.
  unfold tree_cse_excluded in HX. rewrite E1 in HX. cbn [bind] in HX. injection HX as HX. subst excl.
  set (env := mkEnv [] (fr_elim fr) (fr_excl fr)) in *.
  assert (Hes : forall e, In e es -> pre ok env e).
  { intros e He. split; [|apply Hok; exact He]. split.
    - intros n Hn. unfold excl_complete in HC. rewrite forallb_forall in HC. specialize (HC e He).
      rewrite forallb_forall in HC. apply HC. exact Hn.
    - unfold cse_guard in HG. eapply existsb_false_in; eassumption. }
  assert (K0 : K D sem ok env r0 rb_empty).
  { split; [split; [exact I|intros o s []]|]. split; [unfold chained; cbn [rb_empty rb_reps rb_next chain]; lia|intros o s []]. }
  destruct (rb_all_sem C D sem ok SL CS env eq_refl r0 _ _ _ _ E2 K0 Hes) as (_ & S).
  rewrite val_eval in S. exact S.
Qed.
