(* C37 -- specification: what it means for (reps, reduced) to be a faithful factoring of es.
   Symbol occurrence is the schoolbook notion: the name labels a Symbol leaf of the tree.
   [cse_valid es reps red back]: back is the result of substituting the replacements back into
   red, last to first (computed by the library's subs and read from its dump); the statement is
     - as many outputs as inputs,
     - the back-substituted expressions are eq (the model of the library's __eq__, C01) to the inputs,
     - every replacement key is a Symbol, the keys are pairwise distinct, none occurs in es,
     - replacement i mentions only replacement symbols of smaller index,
     - no Symbol is invented: every Symbol of the outputs is a replacement symbol or occurs in es. *)
From SE Require Export C37.CseCheck.

Definition sym_occurs (n : list N) (e : expr) : Prop := In n (syms e).

(* every replacement symbol mentioned by a right-hand side is defined strictly earlier in the list *)
Definition defined_before (reps : list (expr * expr)) : Prop :=
  forall l1 s r l2 n, reps = l1 ++ (s, r) :: l2 -> sym_occurs n r ->
    In (ESym n) (map fst reps) -> In (ESym n) (map fst l1).

Record cse_valid (es : list expr) (reps : list (expr * expr)) (red back : list expr) : Prop := mkValid {
  v_shape : length red = length es;
  v_faithful : Forall2 (fun b e => expr_eqb b e = true) back es;
  v_keys : forall s r, In (s, r) reps -> exists n, s = ESym n;
  v_distinct : NoDup (map fst reps);
  v_fresh : forall n r e, In (ESym n, r) reps -> In e es -> ~ sym_occurs n e;
  v_acyclic : defined_before reps;
  v_closed : forall o n, In o (red ++ map snd reps) -> sym_occurs n o ->
      (exists r, In (ESym n, r) reps) \/ (exists e, In e es /\ sym_occurs n e)
}.
