(* C37 -- symengine/cse.cpp transcribed on the expression AST: tree_cse (find_repeated,
   RebuildVisitor) and the TransformVisitor dispatch of visitor.cpp that RebuildVisitor inherits.

   The canonicalising constructors that the rebuild calls (add(vec), mul(vec), pow, neg,
   OneArgFunction::create, MultiArgFunction::create, Eq(c, true), piecewise(vec)) are a PARAMETER
   of the model (record [ctors]): the bookkeeping of cse.cpp -- which subexpressions are seen
   twice, which symbol names are handed out, what is stored in the replacement list, what is
   rebuilt from what -- is independent of them.  CseLib.v instantiates them with the arithmetic
   model of Expr/Arith.v; that instance is what the extracted model runs.

   Conventions
   - get_args of every class: C39/QueryModel.v (validated against the library by check C39).
   - set_basic (std::set ordered by RCPBasicKeyLess): the three sets of tree_cse (seen_subexp,
     to_eliminate, excluded_symbols) are only ever queried with find(), never iterated: they
     are lists with insertion at the front and the membership test "some stored key is
     equivalent under RCPBasicKeyLess" ([set_equiv], = what std::set::find answers when the
     comparator is a strict weak order -- C02).  Stored keys carry their cached hash ([hx]).
   - umap_basic_basic (subs, opt_subs): association lists searched for "same hash and
     eq(query, stored)"; they are never iterated.
   - RCP pointer identity is observable in TransformVisitor::bvisit(const Pow &) and in the
     template bvisit(const TwoArgBasic<T> &) (base_ != newarg1): apply returns, besides the new expression, the flag "this is the very object
     that was passed in".
   - unsigned next_symbol_index: a 32-bit counter; the model stops with EXN_UNMODELLED instead
     of wrapping (2^32 replacement symbols).
   - every traversal is fuelled (ErrFuel when exhausted); an out-of-range vector access is
     ErrOOB (observed as an abort of the assertion-enabled build).
   No proofs here. *)
From SE Require Export Base.Prelude Expr.IO C39.QueryModel.
Local Open Scope N_scope.
Local Open Scope res_scope.

Definition EXN_UNMODELLED : N := 97.

(* ---------- monadic folds ---------- *)
Fixpoint foldM {A B : Type} (f : A -> B -> res A) (l : list B) (a : A) : res A :=
  match l with
  | [] => Ok a
  | x :: r => bind (f a x) (fun a' => foldM f r a')
  end.

(* ---------- classes ---------- *)
Definition is_number (e : expr) : bool := match e with ENum _ => true | _ => false end.
Definition is_bool_atom (e : expr) : bool := match e with EBool _ => true | _ => false end.
Definition is_symbol (e : expr) : bool := match e with ESym _ => true | _ => false end.   (* is_a<Symbol>: exact class *)
(* is_a_Atom (basic.cpp): Number, Symbol (exact class: not Dummy), Constant *)
Definition is_atom (e : expr) : bool :=
  match e with ENum _ | ESym _ | EConst _ => true | _ => false end.
(* is_a_Boolean (logic.h) *)
Definition is_boolean (e : expr) : bool :=
  match e with
  | EBool _ => true
  | ELex c _ _ => c =? TC_Contains
  | EFN c _ => (c =? TC_And) || (c =? TC_Or) || (c =? TC_Xor)
  | EF1 c _ => c =? TC_Not
  | EF2 c _ _ => (c =? TC_Equality) || (c =? TC_Unequality) || (c =? TC_LessThan) || (c =? TC_StrictLessThan)
  | _ => false
  end.
(* EF1 nodes are the OneArgFunction subclasses and Not (a Boolean, not a OneArgFunction) *)
Definition is_one_arg_function (c : N) : bool := negb (c =? TC_Not).
(* EFN nodes that are MultiArgFunction subclasses (FunctionSymbol is EFunSym) *)
Definition is_multi_arg_function (c : N) : bool :=
  (c =? TC_Max) || (c =? TC_Min) || (c =? TC_LeviCivita).

(* ---------- containers ---------- *)
Definition hset := list hx.
Definition hset_mem (x : expr) (s : hset) : bool := existsb (set_equiv (mk_hx x)) s.
Definition hset_add (x : expr) (s : hset) : hset := if hset_mem x s then s else mk_hx x :: s.

Definition bmap := list (expr * expr).
(* unordered_map::find: a stored key with the same hash and eq(query, stored) *)
Fixpoint bmap_find (k : expr) (m : bmap) : option expr :=
  match m with
  | [] => None
  | (k', v) :: r => if (hash k' =? hash k) && expr_eqb k k' then Some v else bmap_find k r
  end.
(* m[k] = v *)
Fixpoint bmap_set (k v : expr) (m : bmap) : bmap :=
  match m with
  | [] => [(k, v)]
  | (k', v') :: r => if (hash k' =? hash k) && expr_eqb k k' then (k', v) :: r else (k', v') :: bmap_set k v r
  end.

(* ---------- the name of the k-th candidate symbol: "x" + to_string(k) ---------- *)
Definition sym_name (k : N) : list N := 120 :: map (fun d => 48 + d) (digits_of_N k).
Definition sym_x (k : N) : expr := ESym (sym_name k).

(* ---------- the constructors called by the rebuild ---------- *)
Record ctors := mkCtors {
  c_add : list expr -> res expr;              (* add(const vec_basic &) *)
  c_mul : list expr -> res expr;              (* mul(const vec_basic &) *)
  c_pow : expr -> expr -> res expr;           (* pow(a, b) *)
  c_neg : expr -> res expr;                   (* neg(a) *)
  c_f1 : N -> expr -> res expr;               (* OneArgFunction::create of the class with this code *)
  c_f2 : N -> expr -> expr -> res expr;       (* TwoArgBasic<T>::create: two-argument functions and relationals *)
  c_fn : N -> list expr -> res expr;          (* MultiArgFunction::create (Max, Min, LeviCivita) *)
  c_eq_true : expr -> res expr;               (* Eq(c, boolTrue) *)
  c_pw : list (expr * expr) -> res expr       (* piecewise(PiecewiseVec) *)
}.

Definition name_add : list N := [97; 100; 100].
Definition name_mul : list N := [109; 117; 108].
Definition name_pow : list N := [112; 111; 119].

(* ================================================================ find_repeated *)
Record fr_state := mkFR {
  fr_seen : hset;          (* seen_subexp *)
  fr_elim : hset;          (* to_eliminate *)
  fr_excl : hset           (* excluded_symbols *)
}.
Definition fr_empty : fr_state := mkFR [] [] [].

Definition opt_or_self (opt : bmap) (e : expr) : expr :=
  match bmap_find e opt with Some v => v | None => e end.

Fixpoint find_repeated (opt : bmap) (fuel : nat) (st : fr_state) (e : expr) : res fr_state :=
  match fuel with
  | O => ErrFuel
  | S f =>
      (* Do not replace atoms *)
      if is_number e || is_bool_atom e then Ok st
      else
        let st1 := if is_symbol e then mkFR (fr_seen st) (fr_elim st) (hset_add e (fr_excl st)) else st in
        if hset_mem e (fr_seen st1) then
          (* A Boolean (e.g. the condition of a Piecewise) cannot be replaced by a Symbol *)
          Ok (mkFR (fr_seen st1) (if is_boolean e then fr_elim st1 else hset_add e (fr_elim st1)) (fr_excl st1))
        else
          let st2 := mkFR (hset_add e (fr_seen st1)) (fr_elim st1) (fr_excl st1) in
          foldM (find_repeated opt f) (get_args (opt_or_self opt e)) st2
  end.

(* ================================================================ RebuildVisitor *)
Record rb_state := mkRB {
  rb_subs : bmap;                       (* subs: original subexpression -> its symbol *)
  rb_reps : list (expr * expr);         (* replacements, LAST PUSHED FIRST *)
  rb_next : N                           (* next_symbol_index *)
}.
Definition rb_empty : rb_state := mkRB [] [] 0.

Record rb_env := mkEnv {
  env_opt : bmap;
  env_elim : hset;
  env_excl : hset
}.

(* next_symbol(): the first name x<k>, k >= next_symbol_index, that is not excluded *)
Fixpoint next_symbol (excl : hset) (fuel : nat) (k : N) : res (expr * N) :=
  match fuel with
  | O => ErrFuel
  | S f =>
      if W32 <=? k + 1 then ErrExn EXN_UNMODELLED
      else if hset_mem (sym_x k) excl then next_symbol excl f (k + 1)
      else Ok (sym_x k, k + 1)
  end.

(* result of apply: the new expression, and whether it is the object that was passed in *)
Definition ares : Type := (rb_state * (expr * bool))%type.

Section Rebuild.
  Variable C : ctors.
  Variable env : rb_env.

  Section Visit.
    (* the recursive call (RebuildVisitor::apply at one unit of fuel less) *)
    Variable ap : rb_state -> expr -> res ares.

    (* for (a : args) newargs.push_back(apply(a)) *)
    Fixpoint apply_list (st : rb_state) (l : list expr) : res (rb_state * list expr) :=
      match l with
      | [] => Ok (st, [])
      | a :: r =>
          do x <- ap st a;
          do y <- apply_list (fst x) r;
          Ok (fst y, fst (snd x) :: snd y)
      end.

    (* TransformVisitor::bvisit(const Piecewise &): the loop body *)
    Fixpoint apply_pairs (st : rb_state) (l : list (expr * expr)) : res (rb_state * list (expr * expr)) :=
      match l with
      | [] => Ok (st, [])
      | (branch, cond) :: r =>
          do x <- ap st branch;
          do y <- ap (fst x) cond;
          let nc := fst (snd y) in
          do nc' <- (if is_boolean nc then Ok nc else c_eq_true C nc);
          do z <- apply_pairs (fst y) r;
          Ok (fst z, (fst (snd x), nc') :: snd z)
      end.

    (* expr->accept( *this ): the bvisit overloads of TransformVisitor and RebuildVisitor *)
    Definition rb_visit (st : rb_state) (e : expr) : res ares :=
      match e with
      | EAdd _ _ =>
          do x <- apply_list st (get_args e);
          do r <- c_add C (snd x); Ok (fst x, (r, false))
      | EMul _ _ =>
          do x <- apply_list st (get_args e);
          do r <- c_mul C (snd x); Ok (fst x, (r, false))
      | EPow b x =>
          do r1 <- ap st b;
          do r2 <- ap (fst r1) x;
          if snd (snd r1) && snd (snd r2) then Ok (fst r2, (e, true))
          else do r <- c_pow C (fst (snd r1)) (fst (snd r2)); Ok (fst r2, (r, false))
      | EF1 c a =>
          if is_one_arg_function c then
            do r1 <- ap st a;
            if expr_eqb (fst (snd r1)) a then Ok (fst r1, (e, true))
            else do r <- c_f1 C c (fst (snd r1)); Ok (fst r1, (r, false))
          else Ok (st, (e, true))
      | EF2 c a b =>
          (* template bvisit(const TwoArgBasic<T> &): TwoArgFunction and Relational subclasses *)
          do r1 <- ap st a;
          do r2 <- ap (fst r1) b;
          if snd (snd r1) && snd (snd r2) then Ok (fst r2, (e, true))
          else do r <- c_f2 C c (fst (snd r1)) (fst (snd r2)); Ok (fst r2, (r, false))
      | EFN c l =>
          if is_multi_arg_function c then
            do x <- apply_list st l;
            do r <- c_fn C c (snd x); Ok (fst x, (r, false))
          else Ok (st, (e, true))
      | EFunSym name l =>
          (* RebuildVisitor::bvisit(const FunctionSymbol &) *)
          do x <- apply_list st l;
          let na := snd x in
          if bytes_eqb name name_add then do r <- c_add C na; Ok (fst x, (r, false))
          else if bytes_eqb name name_mul then do r <- c_mul C na; Ok (fst x, (r, false))
          else if bytes_eqb name name_pow then
            match na with
            | a :: b :: _ => do r <- c_pow C a b; Ok (fst x, (r, false))
            | [_] => ErrOOB 1 1
            | [] => ErrOOB 0 0
            end
          else Ok (fst x, (EFunSym name na, false))
      | EPw l =>
          do x <- apply_pairs st l;
          do r <- c_pw C (snd x); Ok (fst x, (r, false))
      | _ => Ok (st, (e, true))          (* TransformVisitor::bvisit(const Basic &) *)
      end.
  End Visit.

  (* RebuildVisitor::apply *)
  Fixpoint rb_apply (fuel : nat) (st : rb_state) (orig : expr) : res ares :=
    match fuel with
    | O => ErrFuel
    | S f =>
        if is_atom orig then Ok (st, (orig, true))
        else
          match bmap_find orig (rb_subs st) with
          | Some s => Ok (st, (s, false))
          | None =>
              let hit := bmap_find orig (env_opt env) in
              let e := match hit with Some v => v | None => orig end in
              do r <- rb_visit (rb_apply f) st e;
              let st1 := fst r in
              let new_expr := fst (snd r) in
              if hset_mem orig (env_elim env) then
                do sk <- next_symbol (env_excl env) (S (length (env_excl env))) (rb_next st1);
                Ok (mkRB ((orig, fst sk) :: rb_subs st1) ((fst sk, new_expr) :: rb_reps st1) (snd sk),
                    (fst sk, false))
              else
                Ok (st1, (new_expr, match hit with Some _ => false | None => snd (snd r) end))
          end
    end.

  (* for (e : exprs) reduced_exprs.push_back(rebuild_visitor.apply(e)) *)
  Fixpoint rb_all (fuel : nat) (st : rb_state) (es : list expr) : res (rb_state * list expr) :=
    match es with
    | [] => Ok (st, [])
    | e :: r =>
        do x <- rb_apply fuel st e;
        do y <- rb_all fuel (fst x) r;
        Ok (fst y, fst (snd x) :: snd y)
    end.
End Rebuild.

(* ================================================================ tree_cse *)
Definition total_weight (es : list expr) : nat := fold_right (fun e acc => (weight e + acc)%nat) 0%nat es.
(* recursion depth: one unit per get_args level or opt_subs hop *)
Definition cse_fuel (opt : bmap) (es : list expr) : nat :=
  (2 * (total_weight es + total_weight (map snd opt)) + 10)%nat.

Definition tree_cse_with (C : ctors) (fuel : nat) (opt : bmap) (es : list expr)
  : res (list (expr * expr) * list expr) :=
  do fr <- foldM (find_repeated opt fuel) es fr_empty;
  let env := mkEnv opt (fr_elim fr) (fr_excl fr) in
  do x <- rb_all C env fuel rb_empty es;
  Ok (rev (rb_reps (fst x)), snd x).

Definition tree_cse (C : ctors) (opt : bmap) (es : list expr) : res (list (expr * expr) * list expr) :=
  tree_cse_with C (cse_fuel opt es) opt es.

(* the excluded symbols computed by the first phase (for the statements of the theorems) *)
Definition tree_cse_excluded (fuel : nat) (opt : bmap) (es : list expr) : res hset :=
  do fr <- foldM (find_repeated opt fuel) es fr_empty; Ok (fr_excl fr).
