(* C37 obligation (cse_fresh, part 1): for ANY constructors, any opt_subs, any inputs and fuel, when
   the tree_cse model returns, its replacement symbols are x<k0>, x<k1>, ... with k0 < k1 < ...
   (so they are pairwise distinct) and none of them is in excluded_symbols, the set of Symbols that
   find_repeated collected from the inputs.  (That this set contains every Symbol of the inputs is
   the boolean excl_complete, checked per instance by the extracted model.) *)
From SE Require Import C37.CseProofs.
From Coq Require Import Sorted.
Theorem C37_tree_cse_fresh_names :
  forall (C : ctors) (fuel : nat) (opt : bmap) (es : list expr) reps red,
    tree_cse_with C fuel opt es = Ok (reps, red) ->
    exists excl ks,
      tree_cse_excluded fuel opt es = Ok excl /\
      map fst reps = map sym_x ks /\ StronglySorted N.lt ks /\
      (forall k, In k ks -> hset_mem (sym_x k) excl = false) /\
      NoDup (map fst reps).
Proof.
  intros C fuel opt es reps red H.
  destruct (tree_cse_fresh_names _ _ _ _ _ _ H) as (excl & ks & H1 & H2 & H3 & H4).
  exists excl, ks. repeat split; try assumption. eapply tree_cse_symbols_distinct. eassumption.
Qed.
Print Assumptions C37_tree_cse_fresh_names.
