(* C37 -- the checker run on the outputs of the library's cse() for every explored input:
     check_cse es reps reduced back
   where es are the inputs, (reps, reduced) the outputs and back the library's own
   back-substitution  reduced[i].subs({reps[n-1]}). ... .subs({reps[0]})  (all read from dumps).
   It validates, structurally on the dumps,
     - shape: as many reduced / back-substituted expressions as inputs,
     - faithful: back[i] is eq (the model of __eq__, C01) to es[i],
     - fresh: every replacement key is a Symbol, the names are pairwise distinct and none of them
       occurs as a Symbol leaf anywhere in es,
     - acyclic: the right-hand side of replacement k mentions no replacement symbol >= k,
     - closed: every Symbol leaf of the reduced expressions and of the right-hand sides is a
       Symbol leaf of es or a replacement symbol.
   CseCheckProofs.v proves that [true] implies the Prop-level statement of CseSpec.v.
   Also here: [backsubst], the model-side back-substitution through the rebuild dispatch of
   CseModel.v (a homomorphic substitution over the constructors), used as a second opinion on
   the library's subs().  No proofs here. *)
From SE Require Export C37.CseModel.
Local Open Scope N_scope.
Local Open Scope res_scope.

(* ---------- Symbol leaves of the raw tree ---------- *)
Fixpoint syms (e : expr) : list (list N) :=
  match e with
  | ESym n => [n]
  | ENum _ | EDummy _ _ | EConst _ | EBool _ | EAtom _ => []
  | EAdd _ d => flat_map (fun p => syms (fst p)) d
  | EMul _ d => flat_map (fun p => syms (fst p) ++ syms (snd p)) d
  | EPow b x => syms b ++ syms x
  | EF1 _ a => syms a
  | EF2 _ a b => syms a ++ syms b
  | EFN _ l => flat_map syms l
  | EFunSym _ l => flat_map syms l
  | ELex _ a b => syms a ++ syms b
  | EDeriv a xs => syms a ++ flat_map syms xs
  | ESubs a d => syms a ++ flat_map (fun p => syms (fst p) ++ syms (snd p)) d
  | EPw l => flat_map (fun p => syms (fst p) ++ syms (snd p)) l
  | EInterval s x _ _ => syms s ++ syms x
  end.

Definition mem_name (n : list N) (l : list (list N)) : bool := existsb (bytes_eqb n) l.
Fixpoint nodup_names (l : list (list N)) : bool :=
  match l with
  | [] => true
  | n :: r => negb (mem_name n r) && nodup_names r
  end.

(* the replacement list with its keys read as Symbol names; None when some key is not a Symbol *)
Fixpoint rep_names (reps : list (expr * expr)) : option (list (list N * expr)) :=
  match reps with
  | [] => Some []
  | (ESym n, r) :: t => match rep_names t with Some l => Some ((n, r) :: l) | None => None end
  | _ :: _ => None
  end.

Definition occurs_in_any (n : list N) (es : list expr) : bool :=
  existsb (fun e => mem_name n (syms e)) es.

Definition check_fresh (es : list expr) (names : list (list N)) : bool :=
  nodup_names names && forallb (fun n => negb (occurs_in_any n es)) names.

Fixpoint check_acyclic (nr : list (list N * expr)) : bool :=
  match nr with
  | [] => true
  | (n, rhs) :: t =>
      forallb (fun m => negb (mem_name m (syms rhs))) (n :: map fst t) && check_acyclic t
  end.

Fixpoint forall2b {A B : Type} (f : A -> B -> bool) (l1 : list A) (l2 : list B) : bool :=
  match l1, l2 with
  | [], [] => true
  | x :: r1, y :: r2 => f x y && forall2b f r1 r2
  | _, _ => false
  end.

Definition check_closed (es : list expr) (names : list (list N)) (outs : list expr) : bool :=
  forallb (fun o => forallb (fun n => mem_name n names || occurs_in_any n es) (syms o)) outs.

Definition check_cse (es : list expr) (reps : list (expr * expr)) (red back : list expr) : bool :=
  match rep_names reps with
  | None => false
  | Some nr =>
      (length red =? length es)%nat
      && forall2b expr_eqb back es
      && check_fresh es (map fst nr)
      && check_acyclic nr
      && check_closed es (map fst nr) (red ++ map snd nr)
  end.

(* the individual verdicts, for the report line of the extracted checker *)
Definition check_cse_parts (es : list expr) (reps : list (expr * expr)) (red back : list expr) : list bool :=
  match rep_names reps with
  | None => [false; false; false; false; false]
  | Some nr =>
      [ (length red =? length es)%nat;
        forall2b expr_eqb back es;
        check_fresh es (map fst nr);
        check_acyclic nr;
        check_closed es (map fst nr) (red ++ map snd nr) ]
  end.

(* ---------- the per-instance hypothesis of the flow / faithfulness theorems: every Symbol leaf
   of the inputs was collected into excluded_symbols by find_repeated ---------- *)
Definition excl_complete (excl : hset) (es : list expr) : bool :=
  forallb (fun e => forallb (fun n => hset_mem (ESym n) excl) (syms e)) es.
Definition excl_complete_run (es : list expr) : res bool :=
  do excl <- tree_cse_excluded (cse_fuel [] es) [] es; Ok (excl_complete excl es).

(* ---------- guards: the classes of inputs on which the code departs from the property
   (CseRefuted.v), excluded from the faithfulness theorem ---------- *)
Definition is_reserved_funsym (e : expr) : bool :=
  match e with
  | EFunSym nm _ => bytes_eqb nm name_add || bytes_eqb nm name_mul || bytes_eqb nm name_pow
  | _ => false
  end.
Definition guard_reserved (es : list expr) : bool := existsb (any_node is_reserved_funsym) es.
Definition is_piecewise (e : expr) : bool := match e with EPw _ => true | _ => false end.
Definition guard_piecewise (es : list expr) : bool := existsb (any_node is_piecewise) es.

Definition guard_node (e : expr) : bool := is_reserved_funsym e || is_piecewise e.
Definition cse_guard (es : list expr) : bool := existsb (any_node guard_node) es.

(* ---------- model-side back-substitution ---------- *)
(* e with the Symbol named n replaced by r, every node above a replaced leaf rebuilt through
   the constructors (the rebuild dispatch of TransformVisitor / RebuildVisitor) *)
Section Subst.
  Variable C : ctors.
  Variable n : list N.
  Variable r : expr.
  Fixpoint xsubst (fuel : nat) (st : rb_state) (e : expr) : res ares :=
    match fuel with
    | O => ErrFuel
    | S f =>
        match e with
        | ESym m => if bytes_eqb m n then Ok (st, (r, false)) else Ok (st, (e, true))
        | _ => if is_atom e then Ok (st, (e, true)) else rb_visit C (xsubst f) st e
        end
    end.
End Subst.

Definition subst1 (C : ctors) (n : list N) (r : expr) (e : expr) : res expr :=
  do x <- xsubst C n r (S (weight e)) rb_empty e; Ok (fst (snd x)).

(* last replacement first *)
Fixpoint backsubst_rev (C : ctors) (rreps : list (list N * expr)) (e : expr) : res expr :=
  match rreps with
  | [] => Ok e
  | (n, r) :: t => do e' <- subst1 C n r e; backsubst_rev C t e'
  end.
Definition backsubst (C : ctors) (nr : list (list N * expr)) (e : expr) : res expr :=
  backsubst_rev C (rev nr) e.
