(* C37 -- what the generic theorems say about the whole cse() = opt_cse ; tree_cse (any
   constructors): whatever opt_subs opt_cse / match_common_args produce, the replacement symbols
   handed out are x<k0>, x<k1>, ... with k0 < k1 < ..., pairwise distinct, none in the
   excluded_symbols that find_repeated computed for these inputs and this opt_subs. *)
From SE Require Export C37.CseProofs C37.CseOpt.
From Coq Require Import Sorted.
Local Open Scope N_scope.

Theorem cse_fresh_names : forall C es reps red,
  cse_model C es = Ok (reps, red) ->
  exists opt excl ks,
    opt_cse C es = Ok opt /\
    tree_cse_excluded (cse_fuel opt es) opt es = Ok excl /\
    map fst reps = map sym_x ks /\ StronglySorted N.lt ks /\
    (forall k, In k ks -> hset_mem (sym_x k) excl = false) /\
    NoDup (map fst reps).
Proof.
  intros C es reps red H. unfold cse_model in H. stepn H opt E. unfold tree_cse in H.
  destruct (tree_cse_fresh_names _ _ _ _ _ _ H) as (excl & ks & H1 & H2 & H3 & H4).
  exists opt, excl, ks. repeat split; try assumption. eapply tree_cse_symbols_distinct. eassumption.
Qed.
