(* C37 regression obligation for the fix "cse replaced repeated Boolean subexpressions by symbols"
   (formerly the refutation C37_piecewise_condition_refuted): on two Piecewise sharing the
   condition x < y the model -- which transcribes the fixed find_repeated -- returns no replacement
   and the inputs unchanged, and the proved checker accepts that output. *)
From SE Require Import C37.CseRefuted.
Theorem C37_piecewise_condition_fixed :
  tree_cse_lib [] wit_pw = Ok ([], wit_pw) /\ check_cse wit_pw [] wit_pw wit_pw = true.
Proof. exact piecewise_condition_fixed. Qed.
Print Assumptions C37_piecewise_condition_fixed.
