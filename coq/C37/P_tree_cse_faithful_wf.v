(* C37 obligation (cse_faithful, guarded, no per-instance hypothesis): as
   C37_tree_cse_faithful_guarded, with excl_complete discharged for well-formed inputs:
   for every compositional semantics (sem_laws), constructors that do not invent Symbols, and all
   well-formed inputs inside the guard (no FunctionSymbol named add/mul/pow, no Piecewise),
   evaluating the replacements front to back and then the reduced expressions gives the meanings
   of the inputs. *)
From SE Require Import C37.CseExcl.
Theorem C37_tree_cse_faithful_wf :
  forall (C : ctors) (D : Type) (sem : (list N -> D) -> expr -> D) (ok : expr -> Prop),
    sem_laws C D sem ok -> ctors_syms C ->
    forall (fuel : nat) (es : list expr) reps red (r0 : list N -> D),
      (forall e, In e es -> ok e) -> (forall e, In e es -> input_ok e = true) ->
      tree_cse_with C fuel [] es = Ok (reps, red) ->
      cse_guard es = false ->
      Forall2 (fun v e => sem (eval_reps sem reps r0) v = sem r0 e) red es.
Proof. exact tree_cse_faithful_wf. Qed.
Print Assumptions C37_tree_cse_faithful_wf.
