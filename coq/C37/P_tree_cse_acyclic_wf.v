(* C37 obligation (cse_acyclic, no per-instance hypothesis): for constructors that do not invent
   Symbols and all well-formed inputs, every replacement symbol mentioned by a right-hand side of
   the tree_cse model (empty opt_subs) is defined strictly earlier in the replacement list. *)
From SE Require Import C37.CseExcl.
Theorem C37_tree_cse_acyclic_wf :
  forall (C : ctors) (fuel : nat) (es : list expr) reps red,
    ctors_syms C -> (forall e, In e es -> input_ok e = true) ->
    tree_cse_with C fuel [] es = Ok (reps, red) ->
    forall l1 s r l2 n, reps = l1 ++ (s, r) :: l2 -> In n (syms r) ->
      In (ESym n) (map fst reps) -> In (ESym n) (map fst l1).
Proof. exact tree_cse_acyclic_wf. Qed.
Print Assumptions C37_tree_cse_acyclic_wf.
