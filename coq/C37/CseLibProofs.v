(* C37 -- instances of the hypotheses of CseFlow.v / CseSem.v:
   the "free" constructors (every constructor returns the plain node; add / mul / pow return the
   unevaluated FunctionSymbols that opt_cse itself uses) do not invent Symbols, and the laws of
   CseSem.v are satisfiable.  (For the library constructors of CseLib.v, [ctors_syms] is a
   property of the arithmetic model Expr/Arith.v -- add / mul / pow never invent a Symbol -- that
   is validated per instance by the checker's `closed' verdict, not proved here.) *)
From SE Require Export C37.CseSem.
Local Open Scope N_scope.

Definition free_ctors : ctors :=
  mkCtors (fun l => Ok (EFunSym name_add l))
          (fun l => Ok (EFunSym name_mul l))
          (fun a b => Ok (EFunSym name_pow [a; b]))
          (fun a => Ok (EFunSym name_mul [ENum (NInt (-1)); a]))
          (fun c a => Ok (EF1 c a))
          (fun c a b => Ok (EF2 c a b))
          (fun c l => Ok (EFN c l))
          (fun a => Ok (EF2 TC_Equality a (EBool true)))
          (fun l => Ok (EPw l)).

Lemma free_ctors_syms : ctors_syms free_ctors.
Proof.
  constructor; cbn [free_ctors c_add c_mul c_pow c_f1 c_f2 c_fn c_eq_true c_pw].
  - intros l v n H Hn. injection H as <-. cbn [syms] in Hn. apply in_flat_map in Hn. exact Hn.
  - intros l v n H Hn. injection H as <-. cbn [syms] in Hn. apply in_flat_map in Hn. exact Hn.
  - intros a b v n H Hn. injection H as <-. cbn [syms flat_map] in Hn. rewrite app_nil_r in Hn. apply in_app_or in Hn. exact Hn.
  - intros c a v n H Hn. injection H as <-. exact Hn.
  - intros c a b v n H Hn. injection H as <-. cbn [syms] in Hn. apply in_app_or in Hn. exact Hn.
  - intros c l v n H Hn. injection H as <-. cbn [syms] in Hn. apply in_flat_map in Hn. exact Hn.
  - intros a v n H Hn. injection H as <-. cbn [syms] in Hn. rewrite app_nil_r in Hn. exact Hn.
  - intros l v n H Hn. injection H as <-. cbn [syms] in Hn. apply in_flat_map in Hn. destruct Hn as (p & Hp & Hn).
    exists p. split; [exact Hp|]. apply in_app_or in Hn. exact Hn.
Qed.

Lemma unit_sem_laws : forall C, sem_laws C unit (fun _ _ => tt) (fun _ => True).
Proof.
  intro C. constructor; intros; try reflexivity; try exact I.
  destruct (r n). reflexivity.
Qed.
