(* C37 -- opt_cse and the full cse() with the library's constructors (extracted). *)
From SE Require Export C37.CseLib C37.CseOpt.
Definition opt_cse_lib (es : list expr) : res bmap := opt_cse lib_ctors es.
Definition cse_lib (es : list expr) : res (list (expr * expr) * list expr) := cse_model lib_ctors es.
