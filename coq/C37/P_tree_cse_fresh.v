(* C37 obligation (cse_fresh): for ANY constructors and all well-formed inputs (input_ok), every
   replacement key of the tree_cse model (empty opt_subs) is a Symbol whose name labels no Symbol
   leaf of any input; together with C37_tree_cse_fresh_names (keys x<k0>, x<k1>, ... with
   k0 < k1 < ...: pairwise distinct) this is "each replacement symbol is fresh". *)
From SE Require Import C37.CseExcl.
Theorem C37_tree_cse_fresh :
  forall (C : ctors) (fuel : nat) (es : list expr) reps red,
    (forall e, In e es -> input_ok e = true) ->
    tree_cse_with C fuel [] es = Ok (reps, red) ->
    forall s r, In (s, r) reps -> exists n, s = ESym n /\ forall e, In e es -> ~ In n (syms e).
Proof. exact tree_cse_fresh. Qed.
Print Assumptions C37_tree_cse_fresh.
