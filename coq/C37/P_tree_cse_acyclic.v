(* C37 obligation (cse_acyclic + closedness), tree_cse with empty opt_subs, ANY constructors that do
   not invent Symbols, all inputs: if every Symbol of the inputs was collected in excluded_symbols
   (excl_complete, a boolean evaluated by the extracted model on every explored input), then every
   replacement symbol mentioned by a right-hand side is defined strictly earlier in the list, and
   every Symbol of the reduced expressions / right-hand sides is a replacement symbol or an
   (excluded) Symbol of the inputs. *)
From SE Require Import C37.CseFlow.
Theorem C37_tree_cse_acyclic :
  forall (C : ctors) (fuel : nat) (es : list expr) reps red excl,
    ctors_syms C ->
    tree_cse_with C fuel [] es = Ok (reps, red) ->
    tree_cse_excluded fuel [] es = Ok excl ->
    excl_complete excl es = true ->
    (forall l1 s r l2 n, reps = l1 ++ (s, r) :: l2 -> In n (syms r) ->
        In (ESym n) (map fst reps) -> In (ESym n) (map fst l1)) /\
    (forall o n, In o (red ++ map snd reps) -> In n (syms o) ->
        (exists r, In (ESym n, r) reps) \/ hset_mem (ESym n) excl = true).
Proof. exact tree_cse_flow. Qed.
Print Assumptions C37_tree_cse_acyclic.
