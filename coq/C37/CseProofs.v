(* C37 -- proofs about the tree_cse model, for ANY constructors [C] (they hold in particular for
   the library instance of CseLib.v):
     - the state of the RebuildVisitor only grows: replacements are appended, the symbol counter
       only increases (generic monotonicity of the TransformVisitor dispatch),
     - tree_cse_fresh_names: the replacement symbols are x<k0>, x<k1>, ... with k0 < k1 < ...,
       none of them in excluded_symbols; hence pairwise distinct. *)
From SE Require Export C37.CseNames.
From Coq Require Import Lia Sorted.
Local Open Scope N_scope.

(* ---------- the res monad ---------- *)
Lemma bind_ok : forall {A B} (r : res A) (f : A -> res B) x,
  bind r f = Ok x -> exists a, r = Ok a /\ f a = Ok x.
Proof. intros A B r f x H. destruct r; cbn [bind] in H; try discriminate. exists a. split; [reflexivity|exact H]. Qed.

Ltac inv_ok H := injection H as H; subst.
Ltac step H :=
  match type of H with
  | bind ?r ?f = Ok _ =>
      let a := fresh "a" in let E := fresh "E" in
      apply bind_ok in H; destruct H as (a & E & H)
  end.
Tactic Notation "stepn" hyp(H) ident(a) ident(E) :=
  apply bind_ok in H; destruct H as (a & E & H).

(* ---------- generic monotonicity of the visit dispatch ---------- *)
Section Mono.
  Variable C : ctors.
  Variable R : rb_state -> rb_state -> Prop.
  Hypothesis R_refl : forall s, R s s.
  Hypothesis R_trans : forall a b c, R a b -> R b c -> R a c.
  Variable ap : rb_state -> expr -> res ares.
  Hypothesis ap_mono : forall st e x, ap st e = Ok x -> R st (fst x).

  Lemma apply_list_mono : forall l st x, apply_list ap st l = Ok x -> R st (fst x).
  Proof.
    induction l as [|a l IH]; intros st x H; cbn [apply_list] in H.
    - inv_ok H. apply R_refl.
    - step H. step H. inv_ok H. cbn [fst].
      eapply R_trans; [eapply ap_mono; eassumption|]. eapply IH. eassumption.
  Qed.

  Lemma apply_pairs_mono : forall l st x, apply_pairs C ap st l = Ok x -> R st (fst x).
  Proof.
    induction l as [|[b c] l IH]; intros st x H; cbn [apply_pairs] in H.
    - inv_ok H. apply R_refl.
    - step H. step H. step H. step H. inv_ok H. cbn [fst].
      eapply R_trans; [eapply ap_mono; eassumption|].
      eapply R_trans; [eapply ap_mono; eassumption|]. eapply IH. eassumption.
  Qed.

  Lemma rb_visit_mono : forall st e x, rb_visit C ap st e = Ok x -> R st (fst x).
  Proof.
    intros st e x H.
    destruct e as [n|nm|nm idx|nm|co d|co d|pb px|code fa|code fa fb|code l|nm l|code la lb|da dxs|sa sd|pl|bb|is ie lo ro|code];
      cbn [rb_visit] in H; try (inv_ok H; apply R_refl).
    - (* Add *) stepn H r1 E1. stepn H r2 E2. inv_ok H. cbn [fst]. eapply apply_list_mono; eassumption.
    - (* Mul *) stepn H r1 E1. stepn H r2 E2. inv_ok H. cbn [fst]. eapply apply_list_mono; eassumption.
    - (* Pow *) stepn H r1 E1. stepn H r2 E2.
      destruct (snd (snd r1) && snd (snd r2)).
      + inv_ok H. cbn [fst]. eapply R_trans; eapply ap_mono; eassumption.
      + stepn H r3 E3. inv_ok H. cbn [fst]. eapply R_trans; eapply ap_mono; eassumption.
    - (* F1 *) destruct (is_one_arg_function code).
      + stepn H r1 E1. destruct (expr_eqb (fst (snd r1)) fa).
        * inv_ok H. cbn [fst]. eapply ap_mono; eassumption.
        * stepn H r2 E2. inv_ok H. cbn [fst]. eapply ap_mono; eassumption.
      + inv_ok H. apply R_refl.
    - (* F2 *) stepn H r1 E1. stepn H r2 E2.
      destruct (snd (snd r1) && snd (snd r2)).
      + inv_ok H. cbn [fst]. eapply R_trans; eapply ap_mono; eassumption.
      + stepn H r3 E3. inv_ok H. cbn [fst]. eapply R_trans; eapply ap_mono; eassumption.
    - (* FN *) destruct (is_multi_arg_function code).
      + stepn H r1 E1. stepn H r2 E2. inv_ok H. cbn [fst]. eapply apply_list_mono; eassumption.
      + inv_ok H. apply R_refl.
    - (* FunSym *) stepn H r1 E1.
      assert (G : R st (fst r1)) by (eapply apply_list_mono; eassumption).
      destruct (bytes_eqb nm name_add); [stepn H r2 E2; inv_ok H; exact G|].
      destruct (bytes_eqb nm name_mul); [stepn H r2 E2; inv_ok H; exact G|].
      destruct (bytes_eqb nm name_pow).
      + destruct (snd r1) as [|u [|v t]]; try discriminate. stepn H r2 E2. inv_ok H. exact G.
      + inv_ok H. exact G.
    - (* Pw *) stepn H r1 E1. stepn H r2 E2. inv_ok H. cbn [fst]. eapply apply_pairs_mono; eassumption.
  Qed.
End Mono.

(* ---------- the chain of replacement symbols ---------- *)
(* l (last pushed first) carries the symbols x<k> with strictly decreasing k, lo <= k < hi,
   none excluded *)
Fixpoint chain (excl : hset) (l : list (expr * expr)) (lo hi : N) : Prop :=
  match l with
  | [] => lo <= hi
  | (s, r) :: t => exists k, s = sym_x k /\ k < hi /\ hset_mem s excl = false /\ chain excl t lo k
  end.

Lemma chain_le : forall excl l lo hi, chain excl l lo hi -> lo <= hi.
Proof.
  induction l as [|[s r] t IH]; intros lo hi H; cbn [chain] in H; [exact H|].
  destruct H as (k & _ & Hk & _ & Ht). apply IH in Ht. lia.
Qed.
Lemma chain_weaken : forall excl l lo hi hi', chain excl l lo hi -> hi <= hi' -> chain excl l lo hi'.
Proof.
  intros excl [|[s r] t] lo hi hi' H Hle; cbn [chain] in *; [lia|].
  destruct H as (k & Hs & Hk & He & Ht). exists k. repeat split; try assumption. lia.
Qed.
Lemma chain_app : forall excl l2 l1 lo mid hi,
  chain excl l2 mid hi -> chain excl l1 lo mid -> chain excl (l2 ++ l1) lo hi.
Proof.
  induction l2 as [|[s r] t IH]; intros l1 lo mid hi H2 H1; cbn [chain app] in *.
  - eapply chain_weaken; eassumption.
  - destruct H2 as (k & Hs & Hk & He & Ht). exists k. repeat split; try assumption. eapply IH; eassumption.
Qed.

Definition ext (excl : hset) (st st' : rb_state) : Prop :=
  exists new, rb_reps st' = new ++ rb_reps st /\ chain excl new (rb_next st) (rb_next st').

Lemma ext_refl : forall excl st, ext excl st st.
Proof. intros. exists []. split; [reflexivity|]. cbn [chain]. lia. Qed.
Lemma ext_trans : forall excl a b c, ext excl a b -> ext excl b c -> ext excl a c.
Proof.
  intros excl a b c (n1 & E1 & C1) (n2 & E2 & C2). exists (n2 ++ n1). split.
  - rewrite E2, E1. apply app_assoc.
  - eapply chain_app; eassumption.
Qed.

Lemma next_symbol_spec : forall excl fuel k s k',
  next_symbol excl fuel k = Ok (s, k') ->
  exists j, s = sym_x j /\ k <= j /\ k' = j + 1 /\ hset_mem s excl = false.
Proof.
  induction fuel as [|f IH]; intros k s k' H; cbn [next_symbol] in H; [discriminate|].
  destruct (W32 <=? k + 1); [discriminate|].
  destruct (hset_mem (sym_x k) excl) eqn:E.
  - apply IH in H. destruct H as (j & Hs & Hj & Hk & He). exists j. repeat split; try assumption. lia.
  - inv_ok H. exists k. repeat split; try assumption; lia.
Qed.

Section Ext.
  Variable C : ctors.
  Variable env : rb_env.
  Let excl := env_excl env.

  Lemma rb_apply_ext : forall fuel st e x, rb_apply C env fuel st e = Ok x -> ext excl st (fst x).
  Proof.
    induction fuel as [|f IH]; intros st e x H; cbn [rb_apply] in H; [discriminate|].
    destruct (is_atom e); [inv_ok H; apply ext_refl|].
    destruct (bmap_find e (rb_subs st)); [inv_ok H; apply ext_refl|].
    step H.
    assert (G : ext excl st (fst a)).
    { eapply (rb_visit_mono C (ext excl) (ext_refl excl) (ext_trans excl) (rb_apply C env f) IH). eassumption. }
    destruct (hset_mem e (env_elim env)).
    - step H. inv_ok H. cbn [fst]. eapply ext_trans; [exact G|].
      destruct a0 as [s k']. apply next_symbol_spec in E0. destruct E0 as (j & Hs & Hj & Hk & He).
      exists [(s, fst (snd a))]. cbn [rb_reps rb_next fst snd app]. split; [reflexivity|].
      cbn [chain]. exists j. repeat split; try assumption; lia.
    - inv_ok H. exact G.
  Qed.

  Lemma rb_all_ext : forall fuel es st x, rb_all C env fuel st es = Ok x -> ext excl st (fst x).
  Proof.
    induction es as [|e es IH]; intros st x H; cbn [rb_all] in H.
    - inv_ok H. apply ext_refl.
    - step H. step H. inv_ok H. cbn [fst]. eapply ext_trans; [eapply rb_apply_ext; eassumption|]. eapply IH. eassumption.
  Qed.
End Ext.

(* ---------- from the chain to the statement ---------- *)
Lemma chain_keys : forall excl l lo hi, chain excl l lo hi ->
  exists ks, map fst l = map sym_x ks /\ StronglySorted (fun a b => b < a) ks
             /\ (forall j, In j ks -> lo <= j < hi /\ hset_mem (sym_x j) excl = false).
Proof.
  induction l as [|[s r] t IH]; intros lo hi H; cbn [chain] in H.
  - exists []. split; [reflexivity|]. split; [constructor|]. intros j [].
  - destruct H as (k & Hs & Hk & He & Ht). pose proof (chain_le _ _ _ _ Ht) as Hle.
    destruct (IH _ _ Ht) as (ks & Hm & Hsort & Hall). exists (k :: ks).
    split; [cbn [map fst]; rewrite Hs, Hm; reflexivity|]. split.
    + constructor; [exact Hsort|]. apply Forall_forall. intros j Hj. destruct (Hall j Hj) as [[_ ?] _]. assumption.
    + intros j [<-|Hj].
      * split; [lia|]. rewrite <- Hs. exact He.
      * destruct (Hall j Hj) as [[? ?] ?]. split; [lia|assumption].
Qed.

Lemma sorted_snoc : forall (r : list N) a, StronglySorted N.lt r -> Forall (fun b => b < a) r ->
  StronglySorted N.lt (r ++ [a]).
Proof.
  induction r as [|b r IH]; intros a Hs Ha; cbn [app].
  - constructor; constructor.
  - inversion Hs as [|? ? Hr Hb]. subst. inversion Ha as [|? ? Hba Har]. subst.
    constructor; [apply IH; assumption|].
    apply Forall_app. split; [exact Hb|]. constructor; [exact Hba|constructor].
Qed.
Lemma sorted_rev : forall l, StronglySorted (fun a b : N => b < a) l -> StronglySorted N.lt (rev l).
Proof.
  induction l as [|a l IH]; intro H; cbn [rev]; [constructor|].
  inversion H as [|? ? Hl Ha]. subst. apply sorted_snoc; [apply IH; exact Hl|].
  apply Forall_forall. intros b Hb. rewrite Forall_forall in Ha. apply Ha. apply in_rev. exact Hb.
Qed.

Lemma sorted_lt_NoDup : forall l, StronglySorted N.lt l -> NoDup l.
Proof.
  induction l as [|a l IH]; intro H; [constructor|]. inversion H as [|? ? Hl Ha]. subst.
  constructor; [|apply IH; exact Hl]. intro Hin. rewrite Forall_forall in Ha. specialize (Ha a Hin). lia.
Qed.

Lemma NoDup_map_sym_x : forall ks, NoDup ks -> NoDup (map sym_x ks).
Proof.
  induction ks as [|k ks IH]; intro H; cbn [map]; [constructor|]. inversion H as [|? ? Hk Hks]. subst.
  constructor; [|apply IH; exact Hks]. intro Hin. apply in_map_iff in Hin. destruct Hin as (j & Hj & Hin).
  apply sym_x_inj in Hj. subst j. contradiction.
Qed.

(* the replacement symbols of tree_cse are x<k0>, x<k1>, ... with k0 < k1 < ..., none of them
   among the excluded symbols collected by find_repeated *)
Theorem tree_cse_fresh_names : forall C fuel opt es reps red,
  tree_cse_with C fuel opt es = Ok (reps, red) ->
  exists excl ks,
    tree_cse_excluded fuel opt es = Ok excl /\
    map fst reps = map sym_x ks /\ StronglySorted N.lt ks /\
    (forall k, In k ks -> hset_mem (sym_x k) excl = false).
Proof.
  intros C fuel opt es reps red H. unfold tree_cse_with in H. step H. step H. inv_ok H.
  pose proof (rb_all_ext C _ _ _ _ _ E0) as (new & Hnew & Hchain).
  cbn [rb_reps rb_next rb_empty env_excl] in Hnew, Hchain. rewrite app_nil_r in Hnew.
  destruct (chain_keys _ _ _ _ Hchain) as (ks & Hm & Hsort & Hall).
  exists (fr_excl a), (rev ks). repeat split.
  - unfold tree_cse_excluded. rewrite E. reflexivity.
  - rewrite Hnew, map_rev, Hm, map_rev. reflexivity.
  - apply sorted_rev. exact Hsort.
  - intros k Hk. apply in_rev in Hk. destruct (Hall k Hk) as [_ ?]. assumption.
Qed.

Corollary tree_cse_symbols_distinct : forall C fuel opt es reps red,
  tree_cse_with C fuel opt es = Ok (reps, red) -> NoDup (map fst reps).
Proof.
  intros C fuel opt es reps red H. destruct (tree_cse_fresh_names _ _ _ _ _ _ H) as (excl & ks & _ & Hm & Hs & _).
  rewrite Hm. apply NoDup_map_sym_x. apply sorted_lt_NoDup. exact Hs.
Qed.
