(* C37 -- find_repeated collects EVERY Symbol of the inputs into excluded_symbols
   (the hypothesis [excl_complete] of C37_tree_cse_acyclic / C37_tree_cse_faithful_guarded), for
   inputs that are well-formed (wf, C01/C02), tree_ok (C39: no zero coefficient, distinct hashes
   inside one Add dictionary) and contain no Subs node (whose get_args are not its subterms).
   Since find_repeated does not revisit a subexpression that RCPBasicKeyLess identifies with an
   earlier one, this needs: equivalent under RCPBasicKeyLess => eq (C02, for wf trees), eq trees
   have the same Symbols (C39: eqb_occn), and a Symbol of a node is a Symbol of one of its
   get_args (C39: occn_arg_down).
   Consequence: the replacement symbols of tree_cse do not occur in the inputs (cse_fresh). *)
From SE Require Export C37.CseSem.
From SE Require Import Expr.CmpProofs Expr.HashProofs Expr.Unfold C39.ArgsDown C39.OccProofs.
From Coq Require Import Lia.
Local Open Scope N_scope.

(* ---------- any_node is inherited by get_args, for predicates that are false on the nodes that
   Add::get_args / Mul::get_args build ---------- *)
Section AnyArgs.
  Variable p : expr -> bool.
  Hypothesis p_num : forall n, p (ENum n) = false.
  Hypothesis p_mul : forall c d, p (EMul c d) = false.
  Hypothesis p_pow : forall b x, p (EPow b x) = false.
  Hypothesis p_bool : forall b, p (EBool b) = false.

  Lemma an_num : forall n, any_node p (ENum n) = false.
  Proof. intro n. cbn [any_node]. rewrite p_num. reflexivity. Qed.
  Lemma an_pow : forall k x, any_node p k = false -> any_node p x = false -> any_node p (EPow k x) = false.
  Proof. intros k x Hk Hx. cbn [any_node]. rewrite p_pow, Hk, Hx. reflexivity. Qed.
  Lemma an_mul : forall v d, existsb (fun q => any_node p (fst q) || any_node p (snd q)) d = false ->
    any_node p (EMul v d) = false.
  Proof. intros v d H. cbn [any_node]. rewrite p_mul, H. reflexivity. Qed.
  Lemma an_mul1 : forall v k x, any_node p k = false -> any_node p x = false -> any_node p (EMul v [(k, x)]) = false.
  Proof. intros v k x Hk Hx. apply an_mul. cbn [existsb fst snd]. rewrite Hk, Hx. reflexivity. Qed.

  Lemma an_mul_from_dict : forall v dk,
    existsb (fun q => any_node p (fst q) || any_node p (snd q)) dk = false ->
    any_node p (mul_from_dict v dk) = false.
  Proof.
    intros v dk H. unfold mul_from_dict. destruct (nis_zero v); [apply an_num|].
    destruct dk as [|[k x] [|q r]]; [apply an_num| |apply an_mul; exact H].
    cbn [existsb fst snd] in H. rewrite orb_false_r in H. apply orb_false_iff in H. destruct H as [Hk Hx].
    pose proof (an_pow k x Hk Hx) as G2. pose proof (an_mul1 v k x Hk Hx) as G3.
    destruct x as [[z| | | | | |]| | | | | | | | | | | | | | | | |];
      repeat match goal with |- context [if ?c then _ else _] => destruct c end; assumption.
  Qed.

  Lemma an_add_single : forall k v, any_node p k = false -> any_node p (add_single k v) = false.
  Proof.
    intros k v H. unfold add_single.
    assert (G : any_node p match k with
                            | EMul _ dk => mul_from_dict v dk
                            | EPow b x => EMul v [(b, x)]
                            | _ => EMul v [(k, E1)]
                            end = false).
    { assert (D : any_node p (EMul v [(k, E1)]) = false) by (apply an_mul1; [exact H|apply an_num]).
      destruct k; try exact D.
      - apply an_mul_from_dict. cbn [any_node] in H. rewrite p_mul in H. cbn [orb] in H. exact H.
      - cbn [any_node] in H. rewrite p_pow in H. cbn [orb] in H. apply orb_false_iff in H. destruct H. apply an_mul1; assumption. }
    destruct v; try exact G.
    destruct (z =? 0)%Z; [apply an_num|]. destruct (z =? 1)%Z; [exact H|exact G].
  Qed.

  Lemma any_args : forall e a, any_node p e = false -> In a (get_args e) -> any_node p a = false.
  Proof.
    intros e a H Hin.
    destruct e as [nu|nm|nm idx|nm|co d|co d|pb px|code fa|code fa fb|code l|nm l|code la lb|da dxs|sa sd|pl|bb|is ie lo ro|code];
      cbn [get_args] in Hin; cbn [any_node] in H; apply orb_false_iff in H; destruct H as [_ H].
    - destruct nu; cbn [In] in Hin; try tauto. destruct Hin as [<-|[]]. apply an_num.
    - destruct Hin.
    - destruct Hin.
    - destruct Hin.
    - apply in_app_or in Hin. destruct Hin as [Hin|Hin].
      + destruct (nis_zero co); [destruct Hin|]. destruct Hin as [<-|[]]. apply an_num.
      + apply in_map_iff in Hin. destruct Hin as ([k v] & <- & Hin).
        pose proof (existsb_false_in _ _ _ H Hin) as Hk. cbn [fst] in Hk.
        unfold add_term_arg. cbn [fst snd]. destruct (Cmp.num_eqb v (NInt 1)); [exact Hk|].
        unfold add_from_dict. cbn [nis_zero Z.eqb]. apply an_add_single. exact Hk.
    - apply in_app_or in Hin. destruct Hin as [Hin|Hin].
      + destruct (nis_one co); [destruct Hin|]. destruct Hin as [<-|[]]. apply an_num.
      + apply in_map_iff in Hin. destruct Hin as ([k v] & <- & Hin).
        pose proof (existsb_false_in _ _ _ H Hin) as Hkv. cbn [fst snd] in Hkv. apply orb_false_iff in Hkv. destruct Hkv as [Hk Hv].
        unfold mul_term_arg. cbn [fst snd]. destruct (is_int_one v); [exact Hk|]. apply an_pow; assumption.
    - apply orb_false_iff in H. destruct H. destruct Hin as [<-|[<-|[]]]; assumption.
    - destruct Hin as [<-|[]]. exact H.
    - apply orb_false_iff in H. destruct H. destruct Hin as [<-|[<-|[]]]; assumption.
    - eapply existsb_false_in; eassumption.
    - eapply existsb_false_in; eassumption.
    - apply orb_false_iff in H. destruct H. destruct Hin as [<-|[<-|[]]]; assumption.
    - apply orb_false_iff in H. destruct H as [H1 H2]. destruct Hin as [<-|Hin]; [exact H1|]. eapply existsb_false_in; eassumption.
    - apply orb_false_iff in H. destruct H as [H1 H2]. destruct Hin as [<-|Hin]; [exact H1|].
      apply in_app_or in Hin. destruct Hin as [Hin|Hin]; apply in_map_iff in Hin; destruct Hin as ([k v] & <- & Hin);
        pose proof (existsb_false_in _ _ _ H2 Hin) as Hkv; cbn [fst snd] in Hkv; apply orb_false_iff in Hkv; destruct Hkv; assumption.
    - apply in_flat_map in Hin. destruct Hin as ([k v] & Hin & Ha). cbn [fst snd] in Ha.
      pose proof (existsb_false_in _ _ _ H Hin) as Hkv. cbn [fst snd] in Hkv. apply orb_false_iff in Hkv. destruct Hkv.
      destruct Ha as [<-|[<-|[]]]; assumption.
    - destruct Hin.
    - apply orb_false_iff in H. destruct H.
      destruct Hin as [<-|[<-|[<-|[<-|[]]]]]; try assumption; cbn [any_node]; rewrite p_bool; reflexivity.
    - destruct Hin.
  Qed.
End AnyArgs.

Lemma nosubs_args : forall e a, any_node is_subs e = false -> In a (get_args e) -> any_node is_subs a = false.
Proof. apply any_args; reflexivity. Qed.
Lemma nosubs_node : forall e, any_node is_subs e = false -> is_subs e = false.
Proof. intros e H. destruct e; cbn [any_node] in H; apply orb_false_iff in H; apply H. Qed.

(* ---------- wf is inherited by get_args ---------- *)
Lemma wf_split : forall e, wf e = true <-> wf_struct e = true /\ codes_ok e = true.
Proof. intro e. unfold wf. apply andb_true_iff. Qed.

Lemma wf_pow_intro : forall b x, wf b = true -> wf x = true -> wf (EPow b x) = true.
Proof.
  intros b x Hb Hx. apply wf_split in Hb. apply wf_split in Hx. destruct Hb as [B1 B2]. destruct Hx as [X1 X2].
  apply wf_split. split.
  - cbn [wf_struct]. rewrite B1, X1. reflexivity.
  - cbn [codes_ok]. rewrite B2, X2. reflexivity.
Qed.
Lemma wf_mul_intro : forall v d, num_wf v = true ->
  (forall q, In q d -> wf (fst q) = true /\ wf (snd q) = true) -> wf (EMul v d) = true.
Proof.
  intros v d Hv Hd. apply wf_split. split.
  - cbn [wf_struct]. rewrite Hv. cbn [andb]. apply forallb_forall. intros q Hq.
    destruct (Hd q Hq) as [A B]. apply wf_split in A. apply wf_split in B. destruct A as [A _]. destruct B as [B _]. rewrite A, B. reflexivity.
  - cbn [codes_ok]. apply andb_true_iff. split; [reflexivity|]. apply forallb_forall. intros q Hq.
    destruct (Hd q Hq) as [A B]. apply wf_split in A. apply wf_split in B. destruct A as [_ A]. destruct B as [_ B]. rewrite A, B. reflexivity.
Qed.
Lemma wf_E1 : wf E1 = true.
Proof. reflexivity. Qed.

Lemma wf_mul_inv : forall c d, wf (EMul c d) = true -> forall q, In q d -> wf (fst q) = true /\ wf (snd q) = true.
Proof.
  intros c d W q Hq. split; apply (children_wf _ _ W); cbn [children]; unfold flat; apply in_flat_map; exists q;
    (split; [exact Hq|]); cbn [In]; auto.
Qed.

Lemma wf_mul_from_dict : forall v c dk, num_wf v = true -> wf (EMul c dk) = true -> wf (mul_from_dict v dk) = true.
Proof.
  intros v c dk Hv W. pose proof (wf_mul_inv _ _ W) as Hd. unfold mul_from_dict.
  assert (Wv : wf (ENum v) = true) by (rewrite wf_num; exact Hv).
  destruct (nis_zero v); [exact Wv|].
  destruct dk as [|[k x] [|q r]]; [exact Wv| |apply wf_mul_intro; assumption].
  destruct (Hd (k, x) (or_introl eq_refl)) as [Wk Wx]. cbn [fst snd] in Wk, Wx.
  pose proof (wf_pow_intro k x Wk Wx) as G2.
  assert (G3 : wf (EMul v [(k, x)]) = true).
  { apply wf_mul_intro; [exact Hv|]. intros q [<-|[]]. cbn [fst snd]. split; assumption. }
  destruct x as [[z| | | | | |]| | | | | | | | | | | | | | | | |];
    repeat match goal with |- context [if ?c then _ else _] => destruct c end; assumption.
Qed.

Lemma wf_add_single : forall k v, num_wf v = true -> wf k = true -> wf (add_single k v) = true.
Proof.
  intros k v Hv Wk. unfold add_single.
  assert (G : wf match k with
                 | EMul _ dk => mul_from_dict v dk
                 | EPow b x => EMul v [(b, x)]
                 | _ => EMul v [(k, E1)]
                 end = true).
  { assert (D : wf (EMul v [(k, E1)]) = true).
    { apply wf_mul_intro; [exact Hv|]. intros q [<-|[]]. cbn [fst snd]. split; [exact Wk|exact wf_E1]. }
    destruct k; try exact D.
    - eapply wf_mul_from_dict; eassumption.
    - apply wf_mul_intro; [exact Hv|]. intros q [<-|[]]. cbn [fst snd].
      split; apply (children_wf _ _ Wk); cbn [children In]; auto. }
  destruct v; try exact G.
  destruct (z =? 0)%Z; [reflexivity|]. destruct (z =? 1)%Z; [exact Wk|exact G].
Qed.

Lemma wf_args : forall e a, wf e = true -> In a (get_args e) -> wf a = true.
Proof.
  intros e a W Hin.
  pose proof (children_wf e) as CW. specialize (fun x => CW x W).
  destruct e as [nu|nm|nm idx|nm|co d|co d|pb px|code fa|code fa fb|code l|nm l|code la lb|da dxs|sa sd|pl|bb|is ie lo ro|code];
    cbn [get_args] in Hin; cbn [children] in CW; try (destruct Hin; fail).
  - destruct nu; cbn [In] in Hin; try tauto. destruct Hin as [<-|[]]. reflexivity.
  - destruct (wf_add _ _ W) as (Hc & Hd & _).
    apply in_app_or in Hin. destruct Hin as [Hin|Hin].
    + destruct (nis_zero co); [destruct Hin|]. destruct Hin as [<-|[]]. rewrite wf_num. exact Hc.
    + apply in_map_iff in Hin. destruct Hin as ([k v] & <- & Hin). destruct (Hd _ Hin) as [Wk Wv]. cbn [fst snd] in Wk, Wv.
      unfold add_term_arg. cbn [fst snd]. destruct (Cmp.num_eqb v (NInt 1)); [exact Wk|].
      unfold add_from_dict. cbn [nis_zero Z.eqb]. apply wf_add_single; assumption.
  - pose proof (wf_coef _ W) as Hc. cbn in Hc.
    apply in_app_or in Hin. destruct Hin as [Hin|Hin].
    + destruct (nis_one co); [destruct Hin|]. destruct Hin as [<-|[]]. rewrite wf_num. exact Hc.
    + apply in_map_iff in Hin. destruct Hin as ([k v] & <- & Hin).
      destruct (wf_mul_inv _ _ W _ Hin) as [Wk Wv]. cbn [fst snd] in Wk, Wv.
      unfold mul_term_arg. cbn [fst snd]. destruct (is_int_one v); [exact Wk|]. apply wf_pow_intro; assumption.
  - apply CW. exact Hin.
  - apply CW. exact Hin.
  - apply CW. exact Hin.
  - apply CW. exact Hin.
  - apply CW. exact Hin.
  - apply CW. exact Hin.
  - apply CW. exact Hin.
  - destruct Hin as [<-|Hin]; [apply CW; left; reflexivity|]. apply CW. right.
    apply in_app_or in Hin. destruct Hin as [Hin|Hin]; apply in_map_iff in Hin; destruct Hin as ([k v] & <- & Hin);
      unfold flat; apply in_flat_map; exists (k, v); (split; [exact Hin|]); cbn [fst snd In]; auto.
  - apply CW. unfold flat. exact Hin.
  - destruct Hin as [<-|[<-|[<-|[<-|[]]]]]; try reflexivity; apply CW; cbn [In]; auto.
Qed.

(* ---------- equivalent under RCPBasicKeyLess => eq, on well-formed trees ---------- *)
Lemma set_equiv_eqb : forall a b, wf a = true -> wf b = true ->
  set_equiv (mk_hx a) (mk_hx b) = true -> expr_eqb a b = true.
Proof.
  intros a b Wa Wb H. unfold set_equiv, keyless_h, mk_hx in H. cbn [fst snd] in H.
  apply andb_true_iff in H. destruct H as [H1 H2]. apply negb_true_iff in H1. apply negb_true_iff in H2.
  destruct (hash a =? hash b) eqn:Eh.
  - rewrite N.eqb_sym in H2. rewrite Eh in H2. cbn [negb] in H1, H2.
    destruct (expr_eqb a b) eqn:Eab; [reflexivity|].
    destruct (expr_eqb b a) eqn:Eba.
    { apply (expr_eqb_sym b a Wb Wa) in Eba. congruence. }
    apply Z.eqb_neq in H1. apply Z.eqb_neq in H2.
    pose proof (cmp_antisym a b Wa Wb) as AS. pose proof (expr_cmp_range a b) as R. unfold in_range in R.
    assert (Z0 : expr_cmp a b = 0%Z) by lia.
    apply (cmp_eq_iff a b Wa Wb) in Z0. congruence.
  - rewrite N.eqb_sym in H2. rewrite Eh in H2. cbn [negb] in H1, H2.
    apply N.ltb_ge in H1. apply N.ltb_ge in H2. apply N.eqb_neq in Eh. lia.
Qed.

(* ---------- a Symbol leaf is an occurrence (C39's notion, every occurrence counts) ---------- *)
Lemma syms_occurs : forall k e, (size e <= k)%nat -> forall n, In n (syms e) -> occurs B_none (ESym n) e.
Proof.
  induction k as [|k IH]; intros e Hs n Hn; [pose proof (size_pos e); lia|].
  assert (REC : forall c, In c (children e) -> In n (syms c) -> occurs B_none (ESym n) c).
  { intros c Hc Hnc. apply IH; [|exact Hnc]. pose proof (children_size e c Hc). lia. }
  destruct e as [nu|nm|nm idx|nm|co d|co d|pb px|code fa|code fa fb|code l|nm l|code la lb|da dxs|sa sd|pl|bb|is ie lo ro|code];
    cbn [syms] in Hn; cbn [children] in REC; try (destruct Hn; fail).
  - destruct Hn as [<-|[]]. apply O_self. reflexivity.
  - apply in_flat_map in Hn. destruct Hn as ([k0 v] & Hin & Hn). cbn [fst] in Hn.
    eapply O_add; [exact Hin|]. apply REC; [apply in_map_iff; exists (k0, v); auto|exact Hn].
  - apply in_flat_map in Hn. destruct Hn as ([k0 v] & Hin & Hn). cbn [fst snd] in Hn. apply in_app_or in Hn.
    destruct Hn as [Hn|Hn].
    + eapply O_mul_key; [exact Hin|]. apply REC; [eapply in_flat_l; exact Hin|exact Hn].
    + eapply O_mul_exp; [exact Hin|]. apply REC; [eapply in_flat_r; exact Hin|exact Hn].
  - apply in_app_or in Hn. destruct Hn as [Hn|Hn]; [apply O_pow_base|apply O_pow_exp]; apply REC; cbn [In]; auto.
  - apply O_f1. apply REC; cbn [In]; auto.
  - apply in_app_or in Hn. destruct Hn as [Hn|Hn]; [apply O_f2_l|apply O_f2_r]; apply REC; cbn [In]; auto.
  - apply in_flat_map in Hn. destruct Hn as (a & Ha & Hn). eapply O_fn; [reflexivity|exact Ha|]. apply REC; assumption.
  - apply in_flat_map in Hn. destruct Hn as (a & Ha & Hn). eapply O_funsym; [exact Ha|]. apply REC; assumption.
  - apply in_app_or in Hn. destruct Hn as [Hn|Hn]; [apply O_lex_l|apply O_lex_r]; apply REC; cbn [In]; auto.
  - apply in_app_or in Hn. destruct Hn as [Hn|Hn].
    + apply O_deriv_arg. apply REC; cbn [In]; auto.
    + apply in_flat_map in Hn. destruct Hn as (a & Ha & Hn). eapply O_deriv_var; [exact Ha|]. apply REC; [right; exact Ha|exact Hn].
  - apply in_app_or in Hn. destruct Hn as [Hn|Hn].
    + apply O_subs_arg; [apply REC; cbn [In]; auto|]. intro Q. discriminate.
    + apply in_flat_map in Hn. destruct Hn as ([k0 v] & Hin & Hn). cbn [fst snd] in Hn. apply in_app_or in Hn.
      destruct Hn as [Hn|Hn].
      * eapply O_subs_var; [reflexivity|exact Hin|]. apply REC; [right; eapply in_flat_l; exact Hin|exact Hn].
      * eapply O_subs_point; [exact Hin|]. apply REC; [right; eapply in_flat_r; exact Hin|exact Hn].
  - apply in_flat_map in Hn. destruct Hn as ([x c] & Hin & Hn). cbn [fst snd] in Hn. apply in_app_or in Hn.
    destruct Hn as [Hn|Hn].
    + eapply O_pw_expr; [exact Hin|]. apply REC; [eapply in_flat_l; exact Hin|exact Hn].
    + eapply O_pw_cond; [exact Hin|]. apply REC; [eapply in_flat_r; exact Hin|exact Hn].
  - apply in_app_or in Hn. destruct Hn as [Hn|Hn]; [apply O_interval_l|apply O_interval_r]; apply REC; cbn [In]; auto.
Qed.

(* ---------- the class of inputs ---------- *)
Definition input_ok (e : expr) : bool := wf e && tree_ok e && negb (any_node is_subs e).
Definition P (e : expr) : Prop := wf e = true /\ tree_ok e = true /\ any_node is_subs e = false.
Lemma input_ok_P : forall e, input_ok e = true -> P e.
Proof.
  intros e H. unfold input_ok in H. apply andb_true_iff in H. destruct H as [H H3].
  apply andb_true_iff in H. destruct H as [H1 H2]. apply negb_true_iff in H3. repeat split; assumption.
Qed.
Lemma P_args : forall e a, P e -> In a (get_args e) -> P a.
Proof.
  intros e a (H1 & H2 & H3) Hin. repeat split;
    [eapply wf_args|eapply tree_ok_args|eapply nosubs_args]; eassumption.
Qed.

(* ---------- sets ---------- *)
Lemma hset_mem_incl : forall a s s', incl s s' -> hset_mem a s = true -> hset_mem a s' = true.
Proof.
  intros a s s' Hi H. unfold hset_mem in *. apply existsb_exists in H. destruct H as (h & Hh & He).
  apply existsb_exists. exists h. split; [apply Hi; exact Hh|exact He].
Qed.
Lemma hset_add_incl : forall x s, incl s (hset_add x s).
Proof. intros x s h Hh. unfold hset_add. destruct (hset_mem x s); [exact Hh|right; exact Hh]. Qed.
Lemma set_equiv_refl : forall x, wf x = true -> set_equiv (mk_hx x) (mk_hx x) = true.
Proof.
  intros x W. unfold set_equiv, keyless_h, mk_hx. cbn [fst snd]. rewrite N.eqb_refl. cbn [negb].
  rewrite (expr_eqb_refl x W). reflexivity.
Qed.
Lemma hset_mem_add_self : forall x s, wf x = true -> hset_mem x (hset_add x s) = true.
Proof.
  intros x s W. unfold hset_add. destruct (hset_mem x s) eqn:E; [exact E|].
  unfold hset_mem. cbn [existsb]. rewrite (set_equiv_refl x W). reflexivity.
Qed.

(* ---------- what find_repeated leaves behind ---------- *)
Definition covered (seen : hset) (a : expr) : Prop :=
  CseModel.is_number a = true \/ is_bool_atom a = true \/ hset_mem a seen = true.
Lemma covered_incl : forall s s' a, incl s s' -> covered s a -> covered s' a.
Proof. intros s s' a Hi [H|[H|H]]; [left; exact H|right; left; exact H|right; right; eapply hset_mem_incl; eassumption]. Qed.

(* a stored key: a tree of the class, all of whose arguments are numbers, boolean atoms or
   (equivalent to) stored keys, and which is excluded when it is a Symbol *)
Definition NEW (h : hx) (st : fr_state) : Prop :=
  (exists t, h = mk_hx t /\ P t) /\
  (forall a, In a (get_args (snd h)) -> covered (fr_seen st) a) /\
  (is_symbol (snd h) = true -> hset_mem (snd h) (fr_excl st) = true).
Lemma NEW_mono : forall h st st', incl (fr_seen st) (fr_seen st') -> incl (fr_excl st) (fr_excl st') ->
  NEW h st -> NEW h st'.
Proof.
  intros h st st' I1 I2 (H1 & H2 & H3). split; [exact H1|]. split.
  - intros a Ha. eapply covered_incl; [exact I1|apply H2; exact Ha].
  - intro Hs. eapply hset_mem_incl; [exact I2|apply H3; exact Hs].
Qed.

Definition fr_post (st st' : fr_state) : Prop :=
  incl (fr_seen st) (fr_seen st') /\ incl (fr_excl st) (fr_excl st') /\
  (forall h, In h (fr_seen st') -> In h (fr_seen st) \/ NEW h st').

Lemma fr_post_refl : forall st, fr_post st st.
Proof. intro st. split; [apply incl_refl|]. split; [apply incl_refl|]. intros h Hh. left. exact Hh. Qed.
Lemma fr_post_trans : forall a b c, fr_post a b -> fr_post b c -> fr_post a c.
Proof.
  intros a b c (A1 & A2 & A3) (B1 & B2 & B3). split; [eapply incl_tran; eassumption|]. split; [eapply incl_tran; eassumption|].
  intros h Hh. destruct (B3 h Hh) as [Q|Q]; [|right; exact Q].
  destruct (A3 h Q) as [Q'|Q']; [left; exact Q'|right]. eapply NEW_mono; eassumption.
Qed.

Section FR.
  Variable f : nat.
  Hypothesis IH : forall st e st', find_repeated [] f st e = Ok st' -> P e ->
    fr_post st st' /\ covered (fr_seen st') e.

  Lemma fr_list : forall l st st', foldM (find_repeated [] f) l st = Ok st' -> (forall a, In a l -> P a) ->
    fr_post st st' /\ (forall a, In a l -> covered (fr_seen st') a).
  Proof.
    induction l as [|a l IHl]; intros st st' H Hl; cbn [foldM] in H.
    - inv_ok H. split; [apply fr_post_refl|intros a []].
    - stepn H st1 E1. destruct (IH _ _ _ E1 (Hl a (or_introl eq_refl))) as (Q1 & C1).
      destruct (IHl _ _ H (fun b Hb => Hl b (or_intror Hb))) as (Q2 & C2).
      split; [eapply fr_post_trans; eassumption|].
      intros b [<-|Hb]; [|apply C2; exact Hb]. eapply covered_incl; [apply Q2|exact C1].
  Qed.
End FR.

Lemma find_repeated_post : forall f st e st', find_repeated [] f st e = Ok st' -> P e ->
  fr_post st st' /\ covered (fr_seen st') e.
Proof.
  induction f as [|f IH]; intros st e st' H HP; cbn [find_repeated] in H; [discriminate|].
  destruct (CseModel.is_number e || is_bool_atom e) eqn:Eat.
  { inv_ok H. split; [apply fr_post_refl|]. apply orb_true_iff in Eat. destruct Eat as [Q|Q]; [left; exact Q|right; left; exact Q]. }
  set (st1 := if is_symbol e then mkFR (fr_seen st) (fr_elim st) (hset_add e (fr_excl st)) else st) in *.
  assert (S1 : fr_seen st1 = fr_seen st) by (unfold st1; destruct (is_symbol e); reflexivity).
  assert (X1 : incl (fr_excl st) (fr_excl st1)).
  { unfold st1; destruct (is_symbol e); [cbn [fr_excl]; apply hset_add_incl|apply incl_refl]. }
  assert (Y1 : is_symbol e = true -> hset_mem e (fr_excl st1) = true).
  { intro Hs. unfold st1. rewrite Hs. cbn [fr_excl]. apply hset_mem_add_self. apply HP. }
  destruct (hset_mem e (fr_seen st1)) eqn:Em.
  - inv_ok H. cbn [fr_seen fr_excl]. split.
    + split; [rewrite S1; apply incl_refl|]. split; [exact X1|]. cbn [fr_seen]. intros h Hh. left. rewrite <- S1. exact Hh.
    + right. right. exact Em.
  - unfold opt_or_self in H. cbn [bmap_find] in H.
    set (st2 := mkFR (hset_add e (fr_seen st1)) (fr_elim st1) (fr_excl st1)) in *.
    destruct (fr_list f IH _ _ _ H (fun a Ha => P_args e a HP Ha)) as ((Q1 & Q2 & Q3) & C).
    assert (I12 : incl (fr_seen st) (fr_seen st2)).
    { unfold st2. cbn [fr_seen]. rewrite <- S1. apply hset_add_incl. }
    assert (Hin : In (mk_hx e) (fr_seen st2)).
    { unfold st2. cbn [fr_seen]. unfold hset_add. rewrite Em. left. reflexivity. }
    split.
    + split; [eapply incl_tran; eassumption|]. split; [eapply incl_tran; [exact X1|exact Q2]|].
      intros h Hh. destruct (Q3 h Hh) as [Q|Q]; [|right; exact Q].
      unfold st2 in Q. cbn [fr_seen] in Q. unfold hset_add in Q. rewrite Em in Q. destruct Q as [<-|Q].
      * right. split; [exists e; split; [reflexivity|exact HP]|]. cbn [mk_hx snd]. split; [exact C|].
        intro Hs. eapply hset_mem_incl; [exact Q2|]. unfold st2. cbn [fr_excl]. apply Y1. exact Hs.
      * left. rewrite <- S1. exact Q.
    + right. right. unfold hset_mem. apply existsb_exists. exists (mk_hx e). split; [apply Q1; exact Hin|].
      apply set_equiv_refl. apply HP.
Qed.

(* ---------- every occurrence of a Symbol in a covered tree is excluded ---------- *)
Lemma occ_excluded : forall fr, (forall h, In h (fr_seen fr) -> NEW h fr) ->
  forall n m a, P a -> covered (fr_seen fr) a -> occn B_none (ESym n) m a ->
    hset_mem (ESym n) (fr_excl fr) = true.
Proof.
  intros fr HN n. induction m as [|m IHm]; intros a HP Hc Ho; [destruct Ho|].
  destruct Hc as [Hc|[Hc|Hc]].
  - destruct a; try discriminate. exfalso. eapply occn_num. exact Ho.
  - destruct a; try discriminate. cbn [occn] in Ho. destruct Ho as [[_ Q]|[]]. discriminate.
  - unfold hset_mem in Hc. apply existsb_exists in Hc. destruct Hc as (h & Hh & He).
    destruct (HN h Hh) as ((t & -> & HPt) & Hcl & Hsx). cbn [mk_hx snd] in Hcl, Hsx.
    assert (Heq : expr_eqb a t = true) by (apply set_equiv_eqb; [apply HP|apply HPt|exact He]).
    assert (Hot : occn B_none (ESym n) (S m) t).
    { apply (eqb_occn B_none eq_refl (S m) a t (ESym n)); [apply HP|apply HPt|exact Heq|exact Ho]. }
    destruct (is_symbol t) eqn:Est.
    + destruct t; try discriminate. cbn [occn] in Hot. destruct Hot as [[_ Q]|[]].
      rewrite <- Q. apply Hsx. reflexivity.
    + assert (Hns : ~ (is_sym (ESym n) = true /\ t = ESym n)).
      { intros [_ Q]. rewrite Q in Est. discriminate. }
      destruct (occn_arg_down B_none (ESym n) m t eq_refl (proj1 (proj2 HPt)) (nosubs_node _ (proj2 (proj2 HPt))) Hot Hns)
        as (u & Hu & Hou).
      apply (IHm u); [eapply P_args; eassumption|apply Hcl; exact Hu|exact Hou].
Qed.

Theorem excl_complete_holds : forall fuel es excl,
  (forall e, In e es -> input_ok e = true) ->
  tree_cse_excluded fuel [] es = Ok excl ->
  excl_complete excl es = true.
Proof.
  intros fuel es excl Hok H. unfold tree_cse_excluded in H. stepn H fr E. inv_ok H.
  assert (HP : forall e, In e es -> P e) by (intros e He; apply input_ok_P; apply Hok; exact He).
  destruct (fr_list fuel (find_repeated_post fuel) _ _ _ E HP) as ((_ & _ & Q3) & C).
  assert (HN : forall h, In h (fr_seen fr) -> NEW h fr).
  { intros h Hh. destruct (Q3 h Hh) as [[]|Q]. exact Q. }
  unfold excl_complete. apply forallb_forall. intros e He. apply forallb_forall. intros n Hn.
  pose proof (syms_occurs (size e) e (le_n _) n Hn) as Ho. apply occurs_iff_occn in Ho. destruct Ho as (m & Ho).
  eapply occ_excluded; [exact HN|apply HP; exact He|apply C; exact He|exact Ho].
Qed.

(* ---------- consequences: the theorems without the per-instance hypothesis ---------- *)
(* cse_fresh: the replacement symbols do not occur in the inputs *)
Theorem tree_cse_fresh : forall C fuel es reps red,
  (forall e, In e es -> input_ok e = true) ->
  tree_cse_with C fuel [] es = Ok (reps, red) ->
  forall s r, In (s, r) reps -> exists n, s = ESym n /\ forall e, In e es -> ~ In n (syms e).
Proof.
  intros C fuel es reps red Hok H s r Hin.
  destruct (tree_cse_fresh_names _ _ _ _ _ _ H) as (excl & ks & HX & Hm & _ & Hnot).
  pose proof (excl_complete_holds _ _ _ Hok HX) as HC.
  assert (Hs : In s (map fst reps)) by (apply in_map_iff; exists (s, r); auto).
  rewrite Hm in Hs. apply in_map_iff in Hs. destruct Hs as (k & <- & Hk).
  exists (sym_name k). split; [reflexivity|]. intros e He Hn.
  unfold excl_complete in HC. rewrite forallb_forall in HC. specialize (HC e He). rewrite forallb_forall in HC.
  specialize (HC _ Hn). specialize (Hnot k Hk). unfold sym_x in Hnot. congruence.
Qed.

Theorem tree_cse_acyclic_wf : forall C fuel es reps red,
  ctors_syms C -> (forall e, In e es -> input_ok e = true) ->
  tree_cse_with C fuel [] es = Ok (reps, red) -> defined_before reps.
Proof.
  intros C fuel es reps red CS Hok H.
  destruct (tree_cse_fresh_names _ _ _ _ _ _ H) as (excl & ks & HX & _).
  exact (proj1 (tree_cse_flow C fuel es reps red excl CS H HX (excl_complete_holds _ _ _ Hok HX))).
Qed.

Theorem tree_cse_faithful_wf : forall C D (sem : (list N -> D) -> expr -> D) (ok : expr -> Prop),
  sem_laws C D sem ok -> ctors_syms C ->
  forall fuel es reps red r0,
  (forall e, In e es -> ok e) -> (forall e, In e es -> input_ok e = true) ->
  tree_cse_with C fuel [] es = Ok (reps, red) ->
  cse_guard es = false ->
  Forall2 (fun v e => sem (eval_reps sem reps r0) v = sem r0 e) red es.
Proof.
  intros C D sem ok SL CS fuel es reps red r0 Hok Hin H HG.
  destruct (tree_cse_fresh_names _ _ _ _ _ _ H) as (excl & ks & HX & _).
  eapply tree_cse_faithful; try eassumption. eapply excl_complete_holds; eassumption.
Qed.
