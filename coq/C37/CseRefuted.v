(* C37 -- the faithful model reproduces the defects seen on the library (known_findings.txt);
   each witness is replayed on the real library by checks/C37.py (CORPUS). *)
From SE Require Export C37.CseLib C37.CseCheck.
Local Open Scope N_scope.

Definition sx : expr := ESym [120].
Definition sy : expr := ESym [121].

(* (1) a user FunctionSymbol named "add" is evaluated: cse([add(x, y)]) returns no replacement
   and a reduced expression that is not eq to the input (with no replacement, back-substitution
   is the identity) *)
Definition wit_clash : list expr := [EFunSym name_add [sx; sy]].
Definition red_clash : list expr := [EAdd (NInt 0) [(sx, NInt 1); (sy, NInt 1)]].
Theorem funsym_name_clash_refuted :
  exists red, tree_cse_lib [] wit_clash = Ok ([], red) /\ forall2b expr_eqb red wit_clash = false.
Proof. exists red_clash. split; vm_compute; reflexivity. Qed.

(* (2) pow(x) with one argument: newargs[1] is read out of range *)
Theorem funsym_pow_arity_crash : tree_cse_lib [] [EFunSym name_pow [sx]] = ErrOOB 1 1.
Proof. vm_compute. reflexivity. Qed.

(* (3) FIXED in the library (fix: "cse replaced repeated Boolean subexpressions by symbols"): a
   Piecewise condition seen twice used to be replaced by a Symbol and wrapped in Eq(x0, True), so
   that substituting back gave Eq(True, x < y) instead of the condition x < y.  find_repeated no
   longer marks Booleans for elimination; on the former witness the model (as the library) now
   returns no replacement and the inputs themselves, and the proved checker accepts. *)
Definition cond_lt : expr := EF2 TC_StrictLessThan sx sy.
Definition wit_pw : list expr :=
  [EPw [(ESym [97], cond_lt); (ESym [98], EBool true)]; EPw [(ESym [99], cond_lt); (ESym [100], EBool true)]].
Theorem piecewise_condition_fixed :
  tree_cse_lib [] wit_pw = Ok ([], wit_pw) /\ check_cse wit_pw [] wit_pw wit_pw = true.
Proof. split; vm_compute; reflexivity. Qed.

Example witnesses_outside_guards :
  guard_reserved wit_clash = true /\ cse_guard wit_clash = true.
Proof. vm_compute. split; reflexivity. Qed.
