(* C37 refutation (reproduced on the library: known finding C37/unfaithful:funsym-named-add-mul-pow):
   on the input [add(x, y)] -- the user's FunctionSymbol called "add" -- the faithful model of
   tree_cse with the library's constructors returns no replacement and a reduced expression that is
   not eq to the input (with no replacement, back-substitution is the identity). *)
From SE Require Import C37.CseRefuted.
Theorem C37_funsym_name_clash_refuted :
  exists es red, tree_cse_lib [] es = Ok ([], red) /\ forall2b expr_eqb red es = false /\ guard_reserved es = true.
Proof.
  exists wit_clash. destruct funsym_name_clash_refuted as (red & H1 & H2). exists red.
  split; [exact H1|]. split; [exact H2|]. vm_compute. reflexivity.
Qed.
Print Assumptions C37_funsym_name_clash_refuted.
