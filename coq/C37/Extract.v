(* Extraction of the C37 model and checker (run from the output directory; not part of `make`).
   The module is called semodel so that ocaml/expr_io.ml (open Semodel) resolves. *)
From SE Require Import Expr.IO C37.CseModel C37.CseLib C37.CseCheck C37.CseOptLib.
Require Import ExtrOcamlBasic.
Extraction "semodel.ml" N_of_digits Z_of_digits digits_of_N tc_lookup tc_table hash expr_eqb expr_cmp wf
  tree_cse_lib lib_ctors check_cse check_cse_parts rep_names backsubst get_args tree_ok
  excl_complete_run cse_guard opt_cse_lib cse_lib.
