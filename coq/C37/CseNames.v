(* C37 -- the candidate names "x" + to_string(k) are pairwise different for different k
   (decimal printing is injective), and what RCPBasicKeyLess-equivalence means on two Symbols. *)
From SE Require Export C37.CseCheckProofs.
From Coq Require Import Lia.
Local Open Scope N_scope.

Definition dstep (a d : N) : N := a * 10 + d.

Lemma fold_dstep_shift : forall l x, fold_left dstep l x = x * 10 ^ N.of_nat (length l) + fold_left dstep l 0.
Proof.
  induction l as [|d l IH]; intro x.
  - cbn. lia.
  - cbn [fold_left length]. rewrite (IH (dstep x d)), (IH (dstep 0 d)). unfold dstep.
    rewrite Nat2N.inj_succ, N.pow_succ_r'. lia.
Qed.

Lemma digits_aux_value : forall fuel n acc, n < 10 ^ N.of_nat fuel ->
  fold_left dstep (digits_aux fuel n acc) 0 = n * 10 ^ N.of_nat (length acc) + fold_left dstep acc 0.
Proof.
  induction fuel as [|f IH]; intros n acc Hn.
  - cbn in Hn. assert (n = 0) by lia. subst n. cbn [digits_aux]. lia.
  - cbn [digits_aux]. destruct (n <? 10) eqn:E.
    + cbn [fold_left]. rewrite fold_dstep_shift. unfold dstep. lia.
    + apply N.ltb_ge in E. rewrite IH.
      * cbn [length fold_left]. rewrite (fold_dstep_shift acc (dstep 0 (n mod 10))). unfold dstep.
        rewrite Nat2N.inj_succ, N.pow_succ_r'.
        pose proof (N.div_mod n 10 ltac:(lia)) as DM.
        set (q := n / 10) in *. set (m := n mod 10) in *. set (P := 10 ^ N.of_nat (length acc)) in *.
        assert (E2 : n * P = (10 * q + m) * P) by (f_equal; exact DM).
        rewrite E2. lia.
      * rewrite Nat2N.inj_succ, N.pow_succ_r' in Hn. apply N.div_lt_upper_bound; lia.
Qed.

Lemma size_pow10 : forall n, n < 10 ^ N.of_nat (S (N.to_nat (N.size n))).
Proof.
  intro n. rewrite Nat2N.inj_succ, N2Nat.id.
  destruct n as [|p]; [cbn; lia|].
  pose proof (N.size_gt (N.pos p)) as H.
  assert (2 ^ N.size (N.pos p) <= 10 ^ N.size (N.pos p)) by (apply N.pow_le_mono_l; lia).
  assert (10 ^ N.size (N.pos p) <= 10 ^ N.succ (N.size (N.pos p))) by (apply N.pow_le_mono_r; lia).
  lia.
Qed.

Lemma digits_value : forall n, N_of_digits 10 (digits_of_N n) = n.
Proof.
  intro n. unfold N_of_digits, digits_of_N.
  change (fun a d : N => a * 10 + d) with dstep.
  rewrite digits_aux_value by apply size_pow10. cbn [length fold_left].
  change (N.of_nat 0) with 0. rewrite N.pow_0_r, N.mul_1_r, N.add_0_r. reflexivity.
Qed.

Lemma map_inj_gen : forall {A B : Type} (f : A -> B), (forall x y, f x = f y -> x = y) ->
  forall l1 l2, map f l1 = map f l2 -> l1 = l2.
Proof.
  intros A B f Hf. induction l1 as [|a l1 IH]; intros [|b l2] H; cbn [map] in H; try discriminate; [reflexivity|].
  injection H as H1 H2. f_equal; [apply Hf; exact H1|apply IH; exact H2].
Qed.
Lemma map_add48_inj : forall l1 l2 : list N, map (fun d => 48 + d) l1 = map (fun d => 48 + d) l2 -> l1 = l2.
Proof. apply map_inj_gen. intros x y H. lia. Qed.

Lemma cons_inj_tl : forall {A : Type} (a b : A) l l', a :: l = b :: l' -> l = l'.
Proof. intros A a b l l' H. injection H as _ H. exact H. Qed.

Theorem sym_name_inj : forall a b, sym_name a = sym_name b -> a = b.
Proof.
  intros a b H. unfold sym_name in H. apply cons_inj_tl in H. apply map_add48_inj in H.
  rewrite <- (digits_value a), <- (digits_value b), H. reflexivity.
Qed.

Lemma ESym_inj : forall a b, ESym a = ESym b -> a = b.
Proof. intros a b H. injection H as H. exact H. Qed.
Lemma sym_x_inj : forall a b, sym_x a = sym_x b -> a = b.
Proof. intros a b H. unfold sym_x in H. apply ESym_inj in H. apply sym_name_inj. exact H. Qed.
