(* C37 obligation: for the model of the WHOLE cse() (opt_cse with match_common_args, then tree_cse),
   any constructors, all inputs: the replacement symbols are x<k0>, x<k1>, ... with k0 < k1 < ...
   (pairwise distinct) and none of them is in the excluded_symbols computed from the inputs under
   the opt_subs that opt_cse produced. *)
From SE Require Import C37.CseOptProofs.
From Coq Require Import Sorted.
Theorem C37_cse_fresh_names :
  forall (C : ctors) (es : list expr) reps red,
    cse_model C es = Ok (reps, red) ->
    exists opt excl ks,
      opt_cse C es = Ok opt /\
      tree_cse_excluded (cse_fuel opt es) opt es = Ok excl /\
      map fst reps = map sym_x ks /\ StronglySorted N.lt ks /\
      (forall k, In k ks -> hset_mem (sym_x k) excl = false) /\
      NoDup (map fst reps).
Proof. exact cse_fresh_names. Qed.
Print Assumptions C37_cse_fresh_names.
