(* C37 obligation: find_repeated collects EVERY Symbol leaf of the inputs into excluded_symbols
   -- the per-instance hypothesis excl_complete of C37_tree_cse_acyclic / C37_tree_cse_faithful_guarded
   holds for all inputs that are well-formed (wf: C01/C02), tree_ok (C39) and without Subs nodes,
   any number of inputs, any size, any fuel for which the model returns.  (find_repeated does not
   descend into a subexpression that RCPBasicKeyLess identifies with one seen before: the proof
   uses "equivalent => eq" (C02), "eq trees carry the same Symbols" and "a Symbol of a node is a
   Symbol of one of its get_args" (C39).) *)
From SE Require Import C37.CseExcl.
Theorem C37_excluded_complete :
  forall (fuel : nat) (es : list expr) (excl : hset),
    (forall e, In e es -> input_ok e = true) ->
    tree_cse_excluded fuel [] es = Ok excl ->
    excl_complete excl es = true.
Proof. exact excl_complete_holds. Qed.
Print Assumptions C37_excluded_complete.
