(* C45 -- theorems about the GENERATED table mpfr_rules (EvalMPFRVisitor):
   mpfr_rules_ideal       every class with a specification has a formula that, interpreted over the
                          reals, is the mathematical function of the class; Pow, the constants, the
                          folds of Add / Mul / Max / Min;
   mpfr_rules_agree_eval  class by class the same function as the double table (visitor_rules of
                          Eval/Gen_EvalRules.v): syntactically after expanding the functions MPFR has
                          natively, and semantically on the domain of each specified class. *)
From Coq Require Import Reals Lra Lia ZArith NArith List Bool.
From Flocq Require Import Core.Raux.
From SE Require Import Gen.TypeCodes Eval.EvalModel Eval.EvalIdeal Eval.EvalSpec Eval.Gen_EvalRules Eval.TableProofs
  C45.MpfrTerm C45.Gen_MpfrRules C45.MpfrSpec.
Import ListNotations.
Local Open Scope R_scope.

Section TABLE.
Variables gamma_R erf_R erfc_R : R -> R.
Variable gamma_inc_R : R -> R -> R.
Variables euler_R catalan_R : R.
Variable lit_other : lit -> R.

Notation minterpR := (minterp_R gamma_R erf_R erfc_R gamma_inc_R euler_R catalan_R lit_other).
Notation MSAT := (msat gamma_R erf_R erfc_R gamma_inc_R euler_R catalan_R lit_other).
Notation MEETS := (mrule_meets gamma_R erf_R erfc_R gamma_inc_R euler_R catalan_R lit_other).
Notation LNG := (lngamma_R gamma_R).

Ltac red_m := cbn [minterp_R sel_vals map nth nth_error option_map MR_un MR_bin MR_const R_un R_bin R_lit].
Ltac fun1 := intros x Hx; red_m.
Ltac inv1 := intros x Hx; red_m; eexists; split; [ reflexivity | ].
Ltac fun2 := intros x y Hxy; red_m.

(* ---- one lemma per formula shape ---- *)
Lemma mok_direct : forall (u : ufun) (f : R -> R), (forall x, R_un gamma_R LNG erf_R erfc_R u x = f x) ->
  MSAT (SFun all1 f) [0%nat] (MUn (MU u) (MArg 0)).
Proof. intros u f H. fun1. rewrite H. reflexivity. Qed.

Lemma mok_tan : MSAT (SFun (fun x => cos x <> 0) (fun x => sin x / cos x)) [0%nat] (MUn (MU UTan) (MArg 0)).
Proof. fun1. reflexivity. Qed.
Lemma mok_cot : MSAT (SFun (fun x => sin x <> 0 /\ cos x <> 0) (fun x => cos x / sin x)) [0%nat] (MUn MCot (MArg 0)).
Proof. fun1. reflexivity. Qed.
Lemma mok_sec : MSAT (SFun (fun x => cos x <> 0) (fun x => / cos x)) [0%nat] (MUn MSec (MArg 0)).
Proof. fun1. reflexivity. Qed.
Lemma mok_csc : MSAT (SFun (fun x => sin x <> 0) (fun x => / sin x)) [0%nat] (MUn MCsc (MArg 0)).
Proof. fun1. reflexivity. Qed.
Lemma mok_tanh : MSAT (SFun all1 (fun x => sinh x / cosh x)) [0%nat] (MUn (MU UTanh) (MArg 0)).
Proof. fun1. reflexivity. Qed.
Lemma mok_coth : MSAT (SFun (fun x => x <> 0) (fun x => cosh x / sinh x)) [0%nat] (MUn MCoth (MArg 0)).
Proof. fun1. reflexivity. Qed.
Lemma mok_sech : MSAT (SFun all1 (fun x => / cosh x)) [0%nat] (MUn MSech (MArg 0)).
Proof. fun1. reflexivity. Qed.
Lemma mok_csch : MSAT (SFun (fun x => x <> 0) (fun x => / sinh x)) [0%nat] (MUn MCsch (MArg 0)).
Proof. fun1. reflexivity. Qed.
Lemma mok_loggamma : MSAT (SFun all1 LNG) [0%nat] (MUn MLnGamma (MArg 0)).
Proof. fun1. reflexivity. Qed.

Lemma mok_asin : MSAT (SInv (fun x => -1 <= x <= 1) (fun x y => - (PI / 2) <= y <= PI / 2 /\ sin y = x)) [0%nat] (MUn (MU UAsin) (MArg 0)).
Proof. inv1. split; [ pose proof (asin_bound x); lra | apply sin_asin; auto ]. Qed.
Lemma mok_acos : MSAT (SInv (fun x => -1 <= x <= 1) (fun x y => 0 <= y <= PI /\ cos y = x)) [0%nat] (MUn (MU UAcos) (MArg 0)).
Proof. inv1. split; [ pose proof (acos_bound x); lra | apply cos_acos; auto ]. Qed.
Lemma mok_atan : MSAT (SInv all1 (fun x y => - (PI / 2) < y < PI / 2 /\ tan y = x)) [0%nat] (MUn (MU UAtan) (MArg 0)).
Proof. inv1. split; [ pose proof (atan_bound x); lra | apply tan_atan ]. Qed.
Lemma mok_acot : MSAT (SInv (fun x => x <> 0) (fun x y => - (PI / 2) < y < PI / 2 /\ tan y <> 0 /\ / tan y = x)) [0%nat]
                      (MUn (MU UAtan) (MBin (MB BDiv) (MLit L1) (MArg 0))).
Proof. inv1. apply acot_ok; auto. Qed.
Lemma mok_asec : MSAT (SInv out1 (fun x y => 0 <= y <= PI /\ cos y <> 0 /\ / cos y = x)) [0%nat]
                      (MUn (MU UAcos) (MBin (MB BDiv) (MLit L1) (MArg 0))).
Proof. inv1. apply asec_ok; auto. Qed.
Lemma mok_acsc : MSAT (SInv out1 (fun x y => - (PI / 2) <= y <= PI / 2 /\ sin y <> 0 /\ / sin y = x)) [0%nat]
                      (MUn (MU UAsin) (MBin (MB BDiv) (MLit L1) (MArg 0))).
Proof. inv1. apply acsc_ok; auto. Qed.
Lemma mok_asinh : MSAT (SInv all1 (fun x y => sinh y = x)) [0%nat] (MUn (MU UAsinh) (MArg 0)).
Proof. inv1. apply sinh_arcsinh. Qed.
Lemma mok_acosh : MSAT (SInv (fun x => 1 <= x) (fun x y => 0 <= y /\ cosh y = x)) [0%nat] (MUn (MU UAcosh) (MArg 0)).
Proof. inv1. split; [ apply acosh_nonneg | apply cosh_acosh ]; auto. Qed.
Lemma mok_atanh : MSAT (SInv (fun x => -1 < x < 1) (fun x y => tanh y = x)) [0%nat] (MUn (MU UAtanh) (MArg 0)).
Proof. inv1. apply tanh_atanh; auto. Qed.
Lemma mok_acoth : MSAT (SInv (fun x => x < -1 \/ 1 < x) (fun x y => tanh y <> 0 /\ / tanh y = x)) [0%nat]
                       (MUn (MU UAtanh) (MBin (MB BDiv) (MLit L1) (MArg 0))).
Proof. inv1. apply acoth_ok; auto. Qed.
Lemma mok_asech : MSAT (SInv (fun x => 0 < x <= 1) (fun x y => 0 <= y /\ / cosh y = x)) [0%nat]
                       (MUn (MU UAcosh) (MBin (MB BDiv) (MLit L1) (MArg 0))).
Proof. inv1. apply asech_ok; auto. Qed.
Lemma mok_acsch : MSAT (SInv (fun x => x <> 0) (fun x y => sinh y <> 0 /\ / sinh y = x)) [0%nat]
                       (MUn (MU UAsinh) (MBin (MB BDiv) (MLit L1) (MArg 0))).
Proof. inv1. apply acsch_ok; auto. Qed.
Lemma mok_log : MSAT (SInv (fun x => 0 < x) (fun x y => exp y = x)) [0%nat] (MUn (MU ULog) (MArg 0)).
Proof. inv1. apply exp_ln; auto. Qed.

Lemma mok_atan2 : MSAT (SFun2 all2 atan2_R) [0%nat; 1%nat] (MBin (MB BAtan2) (MArg 0) (MArg 1)).
Proof. fun2. reflexivity. Qed.

(* the relationals: if (mpfr_equal_p(a, b)) 1 else 0 *)
Lemma mok_eq : MSAT (SFun2 all2 (fun x y => if Req_EM_T x y then 1 else 0)) [0%nat; 1%nat]
                    (MIf (MBin (MB BEq) (MArg 0) (MArg 1)) (MLit L1) (MLit L0)).
Proof. fun2. rewrite r_true_b2r. unfold r_eqb. destruct (Req_EM_T x y); reflexivity. Qed.
Lemma mok_ne : MSAT (SFun2 all2 (fun x y => if Req_EM_T x y then 0 else 1)) [0%nat; 1%nat]
                    (MIf (MBin MLessGreater (MArg 0) (MArg 1)) (MLit L1) (MLit L0)).
Proof. fun2. rewrite r_true_b2r. unfold r_eqb. destruct (Req_EM_T x y); reflexivity. Qed.
Lemma mok_le : MSAT (SFun2 all2 (fun x y => if Rle_dec x y then 1 else 0)) [0%nat; 1%nat]
                    (MIf (MBin (MB BLe) (MArg 0) (MArg 1)) (MLit L1) (MLit L0)).
Proof. fun2. rewrite r_true_b2r. unfold r_leb. destruct (Rle_dec x y); reflexivity. Qed.
Lemma mok_lt : MSAT (SFun2 all2 (fun x y => if Rlt_dec x y then 1 else 0)) [0%nat; 1%nat]
                    (MIf (MBin (MB BLt) (MArg 0) (MArg 1)) (MLit L1) (MLit L0)).
Proof. fun2. rewrite r_true_b2r. unfold r_ltb. destruct (Rlt_dec x y); reflexivity. Qed.

(* the incomplete gamma functions: the second argument is evaluated first (sel = [1; 0]) *)
Lemma mok_uppergamma : MSAT (SFun2 all2 gamma_inc_R) [1%nat; 0%nat] (MBin MGammaInc (MArg 1) (MArg 0)).
Proof. fun2. reflexivity. Qed.
Lemma mok_lowergamma : MSAT (SFun2 all2 (fun a x => gamma_R a - gamma_inc_R a x)) [1%nat; 0%nat]
                            (MBin MSub (MUn (MU UGamma) (MArg 1)) (MBin MGammaInc (MArg 1) (MArg 0))).
Proof. fun2. reflexivity. Qed.

Ltac mdirect := apply mok_direct; intros; reflexivity.

Ltac mmeets :=
  cbv [mrule_meets];
  first [ exact I | mdirect | exact mok_tan | exact mok_cot | exact mok_sec | exact mok_csc | exact mok_tanh | exact mok_coth
        | exact mok_sech | exact mok_csch | exact mok_loggamma | exact mok_asin | exact mok_acos | exact mok_atan | exact mok_acot
        | exact mok_asec | exact mok_acsc | exact mok_asinh | exact mok_acosh | exact mok_atanh | exact mok_acoth
        | exact mok_asech | exact mok_acsch | exact mok_log | exact mok_atan2 | exact mok_eq | exact mok_ne
        | exact mok_le | exact mok_lt | exact mok_uppergamma | exact mok_lowergamma ].

Theorem mpfr_table_ideal : mtable_ideal gamma_R erf_R erfc_R gamma_inc_R euler_R catalan_R lit_other mpfr_rules.
Proof.
  unfold mtable_ideal; intros c sp Hin; cbv [mspec_table spec_table mpfr_extra_spec app] in Hin; simpl In in Hin;
  repeat (destruct Hin as [Hin | Hin];
          [ injection Hin as <- <-;
            match goal with |- context [lookup_mrule mpfr_rules ?k] =>
              let r := eval vm_compute in (lookup_mrule mpfr_rules k) in change (lookup_mrule mpfr_rules k) with r end;
            mmeets | ]);
  contradiction.
Qed.

(* ---- Pow ---- *)
Theorem mpfr_pow_ideal : mpow_meets gamma_R erf_R erfc_R gamma_inc_R euler_R catalan_R lit_other (lookup_mrule mpfr_rules TC_Pow).
Proof.
  match goal with |- context [lookup_mrule mpfr_rules ?k] =>
    let r := eval vm_compute in (lookup_mrule mpfr_rules k) in change (lookup_mrule mpfr_rules k) with r end.
  cbv [mpow_meets]. repeat split; intros; red_m; try reflexivity. apply Rpower_exp1.
Qed.

(* ---- Constant ---- *)
Theorem mpfr_const_ideal : mconst_meets gamma_R erf_R erfc_R gamma_inc_R euler_R catalan_R lit_other (lookup_mrule mpfr_rules TC_Constant).
Proof.
  match goal with |- context [lookup_mrule mpfr_rules ?k] =>
    let r := eval vm_compute in (lookup_mrule mpfr_rules k) in change (lookup_mrule mpfr_rules k) with r end.
  cbv [mconst_meets]. intros nm v Hin. cbv [const_values] in Hin. simpl In in Hin.
  repeat (destruct Hin as [Hin | Hin];
          [ injection Hin as <- <-; eexists; split; [ vm_compute; reflexivity | red_m; try reflexivity ] | ]);
    try contradiction.
  (* GoldenRatio: (sqrt 5 + 1) / 2 *)
  f_equal. simpl. lra.
Qed.

(* ---- the folds ---- *)
Lemma fold_add_sum : forall l x, fold_left (fun acc v => acc + v) l x = x + fold_right Rplus 0 l.
Proof. induction l as [ | a l IH ]; intro x; simpl; [ lra | rewrite IH; lra ]. Qed.
Lemma fold_mul_prod : forall l x, fold_left (fun acc v => acc * v) l x = x * fold_right Rmult 1 l.
Proof. induction l as [ | a l IH ]; intro x; simpl; [ lra | rewrite IH; lra ]. Qed.

Lemma fold_max_spec : forall l x,
  let r := fold_left (fun acc v => Rmax acc v) l x in In r (x :: l) /\ forall v, In v (x :: l) -> v <= r.
Proof.
  induction l as [ | a l IH ]; intro x; simpl.
  - split; [ auto | intros v [<- | []]; lra ].
  - destruct (IH (Rmax x a)) as [Hin Hle]. simpl in Hin, Hle. split.
    + assert (Hc : Rmax x a = x \/ Rmax x a = a) by (unfold Rmax; destruct (Rle_dec x a); auto).
      destruct Hin as [Hin | Hin]; [ | auto ]. destruct Hc as [Hc | Hc]; rewrite Hc in *; auto.
    + intros v [<- | [<- | Hv]].
      * apply Rle_trans with (Rmax x a); [ apply Rmax_l | apply Hle; auto ].
      * apply Rle_trans with (Rmax x a); [ apply Rmax_r | apply Hle; auto ].
      * apply Hle; auto.
Qed.

Lemma fold_min_spec : forall l x,
  let r := fold_left (fun acc v => Rmin acc v) l x in In r (x :: l) /\ forall v, In v (x :: l) -> r <= v.
Proof.
  induction l as [ | a l IH ]; intro x; simpl.
  - split; [ auto | intros v [<- | []]; lra ].
  - destruct (IH (Rmin x a)) as [Hin Hle]. simpl in Hin, Hle. split.
    + assert (Hc : Rmin x a = x \/ Rmin x a = a) by (unfold Rmin; destruct (Rle_dec x a); auto).
      destruct Hin as [Hin | Hin]; [ | auto ]. destruct Hc as [Hc | Hc]; rewrite Hc in *; auto.
    + intros v [<- | [<- | Hv]].
      * apply Rle_trans with (Rmin x a); [ apply Hle; auto | apply Rmin_l ].
      * apply Rle_trans with (Rmin x a); [ apply Hle; auto | apply Rmin_r ].
      * apply Hle; auto.
Qed.

Ltac fold_tac :=
  match goal with |- context [lookup_mrule mpfr_rules ?k] =>
    let r := eval vm_compute in (lookup_mrule mpfr_rules k) in change (lookup_mrule mpfr_rules k) with r end;
  cbv [mfold_meets fold_first_R MR_bin R_bin]; intros x l.

Theorem mpfr_add_ideal : mfold_meets gamma_inc_R (lookup_mrule mpfr_rules TC_Add) is_sum.
Proof. fold_tac. unfold is_sum. simpl. apply fold_add_sum. Qed.
Theorem mpfr_mul_ideal : mfold_meets gamma_inc_R (lookup_mrule mpfr_rules TC_Mul) is_prod.
Proof. fold_tac. unfold is_prod. simpl. apply fold_mul_prod. Qed.
Theorem mpfr_max_ideal : mfold_meets gamma_inc_R (lookup_mrule mpfr_rules TC_Max) is_max.
Proof. fold_tac. apply fold_max_spec. Qed.
Theorem mpfr_min_ideal : mfold_meets gamma_inc_R (lookup_mrule mpfr_rules TC_Min) is_min.
Proof. fold_tac. apply fold_min_spec. Qed.

End TABLE.

(* ---- coverage (non-vacuity): the classes of the specification really have formulas ---- *)
Definition is_mformula (r : option mrule) : bool :=
  match r with Some (MRFormula _ _) => true | _ => false end.

Definition mpfr_classes : list N :=
  [TC_Sin; TC_Cos; TC_Tan; TC_Cot; TC_Sec; TC_Csc; TC_ASin; TC_ACos; TC_ATan; TC_ACot; TC_ASec; TC_ACsc;
   TC_Sinh; TC_Cosh; TC_Tanh; TC_Coth; TC_Sech; TC_Csch; TC_ASinh; TC_ACosh; TC_ATanh; TC_ACoth; TC_ASech;
   TC_ACsch; TC_Log; TC_Abs; TC_Gamma; TC_LogGamma; TC_Erf; TC_Erfc; TC_ATan2; TC_Equality; TC_Unequality;
   TC_LessThan; TC_StrictLessThan; TC_UpperGamma; TC_LowerGamma].

Theorem mpfr_table_covers_spec :
  forallb (fun c => is_mformula (lookup_mrule mpfr_rules c)) mpfr_classes = true /\ length mpfr_classes = 37%nat.
Proof. split; vm_compute; reflexivity. Qed.

(* ---- agreement with the double table, syntactically ---- *)
Definition recip (t : fterm) : fterm := FBin BDiv (FLit L1) t.

Definition is_cmp (f : mbin) : bool :=
  match f with MB BEq | MB BLe | MB BLt | MLessGreater => true | _ => false end.

(* the term of the double evaluators' language that denotes the same function:
   native functions are expanded (sec = 1/cos, coth = 1/tanh, ...), `if (cmp) 1 else 0` is cmp *)
Fixpoint lower (t : mterm) : option fterm :=
  match t with
  | MArg i => Some (FArg i)
  | MLit l => Some (FLit l)
  | MUi _ => None
  | MConst _ => None
  | MUn f a =>
      match lower a with
      | Some a' =>
          match f with
          | MU u => Some (FUn u a')
          | MSec => Some (recip (FUn UCos a'))
          | MCsc => Some (recip (FUn USin a'))
          | MCot => Some (recip (FUn UTan a'))
          | MSech => Some (recip (FUn UCosh a'))
          | MCsch => Some (recip (FUn USinh a'))
          | MCoth => Some (recip (FUn UTanh a'))
          | MLnGamma => Some (FUn ULgamma a')      (* log Gamma; C's lgamma is log |Gamma| *)
          | MSqrt => None
          end
      | None => None
      end
  | MBin f a b =>
      match lower a, lower b with
      | Some a', Some b' =>
          match f with
          | MB g => Some (FBin g a' b')
          | MLessGreater => Some (FBin BNe a' b')  (* they differ on NaN only *)
          | _ => None
          end
      | _, _ => None
      end
  | MIf c (MLit L1) (MLit L0) =>
      match c with
      | MBin f _ _ => if is_cmp f then lower c else None
      | _ => None
      end
  | MIf _ _ _ => None
  end.

Definition lower_rule (r : mrule) : option rule :=
  match r with
  | MRLeafInt => Some RLeafInt
  | MRLeafRat => Some RLeafRat
  | MRLeafDbl => Some RLeafDbl
  | MRLeafMpfr => None
  | MRFormula sel t => match lower t with Some ft => Some (RFormula sel ft) | None => None end
  | MRFoldFirst (MB BAdd) _ => Some (RFoldArgs L0 BAdd)     (* 0 + a1 + ... = a1 + ... *)
  | MRFoldFirst (MB BMul) _ => Some (RFoldArgs L1 BMul)
  | MRFoldFirst (MB f) _ => Some (RFoldFirst f 1)
  | MRFoldFirst _ _ => None
  | MRPow _ e g =>
      match lower e, lower g with
      | Some e', Some g' => Some (RPow true e' g')              (* the evaluation order of base / exponent is not compared *)
      | _, _ => None
      end
  | MRConstants _ => None                                       (* compared separately: const_agree *)
  | MRRewrite => None
  | MRWrapper => Some RWrapper
  | MRPass => Some RPass
  | MRThrow c => Some (RThrow c)
  end.

Definition mrule_at (c : N) : mrule :=
  match lookup_mrule mpfr_rules c with Some r => r | None => MRThrow EXN_NOTIMPL end.
Definition is_mthrow (r : mrule) : bool := match r with MRThrow _ => true | _ => false end.
Definition mall_codes : list N := map fst mpfr_rules.

Definition agree_at (c : N) : bool :=
  match lower_rule (mrule_at c) with
  | Some r => rule_agree (rule_at visitor_rules c) r
  | None => false
  end.

(* classes both evaluators accept whose rules are compared separately or cannot be compared *)
Definition mpfr_differs : list N := [TC_Constant].

Theorem mpfr_agree :
  forallb (fun c => is_mthrow (mrule_at c) || is_throw (rule_at visitor_rules c)
                    || existsb (N.eqb c) mpfr_differs || agree_at c) mall_codes = true.
Proof. vm_compute. reflexivity. Qed.

(* the classes compared (both accept, not in mpfr_differs): all agree *)
Theorem mpfr_agree_classes :
  filter (fun c => negb (is_mthrow (mrule_at c)) && negb (is_throw (rule_at visitor_rules c))
                   && negb (existsb (N.eqb c) mpfr_differs)) mall_codes
  = [TC_Integer; TC_Rational; TC_RealDouble; TC_NumberWrapper; TC_Mul; TC_Add; TC_Pow; TC_Log] ++
    [TC_Sin; TC_Cos; TC_Tan; TC_Cot; TC_Csc; TC_Sec; TC_ASin; TC_ACos; TC_ASec; TC_ACsc; TC_ATan; TC_ACot; TC_ATan2;
     TC_Sinh; TC_Csch; TC_Cosh; TC_Sech; TC_Tanh; TC_Coth; TC_ASinh; TC_ACsch; TC_ACosh; TC_ATanh; TC_ACoth; TC_ASech] ++
    [TC_Erf; TC_Erfc; TC_Gamma; TC_LogGamma; TC_FunctionWrapper; TC_Abs; TC_Max; TC_Min;
     TC_Equality; TC_Unequality; TC_LessThan; TC_StrictLessThan; TC_UnevaluatedExpr].
Proof. vm_compute. reflexivity. Qed.

(* classes eval_double accepts and eval_mpfr does not / the converse *)
Theorem mpfr_lacks :
  filter (fun c => is_mthrow (mrule_at c) && negb (is_throw (rule_at visitor_rules c))) mall_codes
  = [TC_Piecewise; TC_BooleanAtom].
Proof. vm_compute. reflexivity. Qed.

Theorem mpfr_extra :
  filter (fun c => negb (is_mthrow (mrule_at c)) && is_throw (rule_at visitor_rules c)) mall_codes
  = [TC_RealMPFR; TC_LowerGamma; TC_UpperGamma; TC_Beta].
Proof. vm_compute. reflexivity. Qed.

(* Constant: both tables know the same five names, and E is exp(1) in both *)
Definition const_names_m : list (list N) :=
  match mrule_at TC_Constant with MRConstants t => map fst t | _ => [] end.
Definition const_names_d : list (list N) :=
  match rule_at visitor_rules TC_Constant with RConstants t => map fst t | _ => [] end.

Theorem const_agree :
  const_names_m = const_names_d /\ length const_names_m = 5%nat /\
  (match mrule_at TC_Constant, rule_at visitor_rules TC_Constant with
   | MRConstants tm, RConstants td =>
       match mconst_lookup NM_E tm, const_find NM_E td with
       | Some a, Some b => match lower a with Some a' => fterm_eqb a' b | None => false end
       | _, _ => false
       end
   | _, _ => false
   end) = true.
Proof. repeat split; vm_compute; reflexivity. Qed.

(* ---- agreement with the double table, semantically: on the domain of every specified class with a
        direct specification both formulas compute the same real number ---- *)
Section SEM.
Variables gamma_R erf_R erfc_R : R -> R.
Variable gamma_inc_R : R -> R -> R.
Variables euler_R catalan_R : R.
Variable lit_other : lit -> R.
Notation LNG := (lngamma_R gamma_R).

Definition same_on (sp : cspec) (rm : option mrule) (rd : option rule) : Prop :=
  match sp, rm, rd with
  | SFun dom _, Some (MRFormula ms mt), Some (RFormula ds dt) =>
      forall x, dom x ->
        minterp_R gamma_R erf_R erfc_R gamma_inc_R euler_R catalan_R lit_other mt (sel_vals ms [x])
        = interp_R gamma_R LNG erf_R erfc_R lit_other dt [x]
  | SFun2 dom _, Some (MRFormula ms mt), Some (RFormula ds dt) =>
      forall x y, dom x y ->
        minterp_R gamma_R erf_R erfc_R gamma_inc_R euler_R catalan_R lit_other mt (sel_vals ms [x; y])
        = interp_R gamma_R LNG erf_R erfc_R lit_other dt [x; y]
  | _, _, _ => True
  end.

Theorem mpfr_agree_sem : forall c sp, In (c, sp) (spec_table gamma_R LNG erf_R erfc_R) ->
  same_on sp (lookup_mrule mpfr_rules c) (lookup_rule visitor_rules c).
Proof.
  intros c sp Hin.
  pose proof (mpfr_table_ideal gamma_R erf_R erfc_R gamma_inc_R euler_R catalan_R lit_other c sp) as Hm.
  pose proof (visitor_table_ideal gamma_R LNG erf_R erfc_R lit_other c sp Hin) as Hd.
  assert (Hin' : In (c, sp) (mspec_table gamma_R erf_R erfc_R gamma_inc_R)).
  { unfold mspec_table. apply in_or_app. left. exact Hin. }
  specialize (Hm Hin').
  destruct (lookup_mrule mpfr_rules c) as [rm | ]; [ | destruct sp; exact I ].
  destruct rm as [ | | | | ms mt | | | | | | | ]; try (destruct sp; exact I).
  destruct (lookup_rule visitor_rules c) as [rd | ]; [ | destruct sp; exact I ].
  destruct rd; try (destruct sp; exact I).
  destruct sp as [dom f | dom ch | dom f]; cbn [same_on]; try exact I.
  - cbn [mrule_meets msat] in Hm. cbn [rule_meets sat] in Hd. destruct Hd as [_ Hd].
    intros x Hx. rewrite (Hm x Hx), (Hd x Hx). reflexivity.
  - cbn [mrule_meets msat] in Hm. cbn [rule_meets sat] in Hd. destruct Hd as [_ Hd].
    intros x y Hxy. rewrite (Hm x y Hxy), (Hd x y Hxy). reflexivity.
Qed.
End SEM.

(* ---- the combined statements used by the obligation files ---- *)
Theorem mpfr_rules_ideal :
  forall (gamma_R erf_R erfc_R : R -> R) (gamma_inc_R : R -> R -> R) (euler_R catalan_R : R) (lit_other : lit -> R),
    mtable_ideal gamma_R erf_R erfc_R gamma_inc_R euler_R catalan_R lit_other mpfr_rules /\
    mpow_meets gamma_R erf_R erfc_R gamma_inc_R euler_R catalan_R lit_other (lookup_mrule mpfr_rules TC_Pow) /\
    mconst_meets gamma_R erf_R erfc_R gamma_inc_R euler_R catalan_R lit_other (lookup_mrule mpfr_rules TC_Constant) /\
    mfold_meets gamma_inc_R (lookup_mrule mpfr_rules TC_Add) is_sum /\
    mfold_meets gamma_inc_R (lookup_mrule mpfr_rules TC_Mul) is_prod /\
    mfold_meets gamma_inc_R (lookup_mrule mpfr_rules TC_Max) is_max /\
    mfold_meets gamma_inc_R (lookup_mrule mpfr_rules TC_Min) is_min.
Proof.
  intros.
  split; [ apply mpfr_table_ideal | ].
  split; [ apply mpfr_pow_ideal | ].
  split; [ apply mpfr_const_ideal | ].
  split; [ apply mpfr_add_ideal | ].
  split; [ apply mpfr_mul_ideal | ].
  split; [ apply mpfr_max_ideal | apply mpfr_min_ideal ].
Qed.
