From Coq Require Import Reals ZArith List.
From Flocq Require Import Core.
From SE Require Import C45.MpfrModel C45.Gen_MpfrRules C45.MpfrRound C45.MpfrArith.
(* RealMPFR(ps, vs).<o>real(other) for the (operation, operand kind) pairs of single_rounding_pairs, finite operands:
   the Integer 0 (multiplication by the exact zero), the MPC exception (negative base of pow), or a RealMPFR whose
   precision is the larger operand precision and whose value is the exact result rounded once to nearest even *)
Theorem C45_mpfr_arith_correctly_rounded :
  forall o k ps vs other xs xo q,
    In (o, k) single_rounding_pairs ->
    opd_kind other = k ->
    xq_of_mpv vs = Some xs -> opd_val other = Some xo ->
    exp_bounded o xs xo = true ->
    exact_op o xs xo = Some q ->
    (arith_run mpfr_arith o ps vs other = AExactZero /\ o = OMul /\ k = KInteger /\ xq2R xo = 0%R) \/
    (arith_run mpfr_arith o ps vs other = AExn EXN_SYMENGINE /\ o = OPow /\ (xq2R xs < 0)%R) \/
    exists v r,
      arith_run mpfr_arith o ps vs other = AVal (result_prec ps other) v /\
      is_exact o (xq2R xs) (xq2R xo) r /\
      mpv2R v = round radix2 (FLX_exp (Zpos (result_prec ps other))) ZnearestE r /\
      result_prec ps other = match other with DMpfr po _ => Pos.max ps po | _ => ps end.
Proof. exact mpfr_arith_correctly_rounded. Qed.
Print Assumptions C45_mpfr_arith_correctly_rounded.
