From Coq Require Import List NArith Bool.
From SE Require Import Gen.TypeCodes C45.MpfrTerm C45.Gen_MpfrRules C45.MpfrTable.
Theorem C45_mpfr_table_covers_spec :
  forallb (fun c => is_mformula (lookup_mrule mpfr_rules c)) mpfr_classes = true /\ length mpfr_classes = 37%nat.
Proof. exact mpfr_table_covers_spec. Qed.
Print Assumptions C45_mpfr_table_covers_spec.
