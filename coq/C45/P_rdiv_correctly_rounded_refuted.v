From Coq Require Import ZArith List.
From SE Require Import C45.MpfrModel C45.Gen_MpfrRules C45.MpfrArith.
(* Integer / RealMPFR and Rational / RealMPFR are computed as 1 / round(this / other): two roundings.
   Witness: 3 / RealMPFR(13, 4 bits) and (3/2) / RealMPFR(13, 4 bits) (replayed on the library by checks/C45.py) *)
Theorem C45_rdiv_correctly_rounded_refuted :
  (exists ps vs z, exists p1 v1 p2 v2,
     arith_run mpfr_arith ORdiv ps vs (DInt z) = AVal p1 v1 /\
     arith_ref ORdiv ps vs (DInt z) = Some (p2, v2) /\ mpv_eqb v1 v2 = false) /\
  (exists ps vs n d, exists p1 v1 p2 v2,
     arith_run mpfr_arith ORdiv ps vs (DRat n d) = AVal p1 v1 /\
     arith_ref ORdiv ps vs (DRat n d) = Some (p2, v2) /\ mpv_eqb v1 v2 = false).
Proof. split; [ exact rdiv_integer_refuted | exact rdiv_rational_refuted ]. Qed.
Print Assumptions C45_rdiv_correctly_rounded_refuted.
