From Coq Require Import Reals ZArith.
From Flocq Require Import Core.
From SE Require Import C45.MpfrModel C45.MpfrRound.
(* the model's rounding of a rational n/d to p bits is round-to-nearest-even in the format with p bits
   and unbounded exponents (MPFR_RNDN) *)
Theorem C45_rounding_is_flocq_round : forall (p : positive) (n : Z) (d : positive),
  F2R (Float radix2 (fst (rnd_q p n d)) (snd (rnd_q p n d)))
  = round radix2 (FLX_exp (Zpos p)) ZnearestE (IZR n / IZR (Zpos d))
  /\ mpv2R (mp_of_xq p (n, d)) = round radix2 (FLX_exp (Zpos p)) ZnearestE (IZR n / IZR (Zpos d)).
Proof. intros p n d. split; [ exact (rnd_q_correct p n d) | exact (mp_of_xq_correct p (n, d)) ]. Qed.
Print Assumptions C45_rounding_is_flocq_round.
