(* Extraction of the C45 model (run from the output directory; not part of `make`).
   The module is called semodel so that ocaml/expr_io.ml (open Semodel) reads the dumps. *)
From SE Require Import Expr.IO C45.MpfrRun.
Require Import ExtrOcamlBasic.
Extraction "semodel.ml" N_of_digits Z_of_digits digits_of_N tc_lookup run_eval run_arith run_arith_ref.
