(* C45 -- the IDEAL interpretation of the MPFR formula language (real numbers, the real functions
   of the Coq standard library; Gamma, erf, erfc, the incomplete gamma function and the constants
   of Euler and Catalan are parameters: every theorem holds for any interpretation of them) and
   the specification each node class has to meet (the schoolbook definitions of Eval/EvalSpec.v,
   extended with the classes only eval_mpfr accepts).  Definitions only. *)
From Coq Require Import Reals Lra Lia ZArith NArith List Bool.
From Flocq Require Import Core.Raux.
From SE Require Import Gen.TypeCodes Eval.EvalModel Eval.EvalIdeal Eval.EvalSpec C45.MpfrTerm.
Import ListNotations.
Local Open Scope R_scope.

Section MIDEAL.
Variables gamma_R erf_R erfc_R : R -> R.
Variable gamma_inc_R : R -> R -> R.
Variables euler_R catalan_R : R.
Variable lit_other : lit -> R.

(* mpfr_lngamma is log(Gamma(x)) *)
Definition lngamma_R (x : R) : R := ln (gamma_R x).

Notation Run := (R_un gamma_R lngamma_R erf_R erfc_R).

(* the native MPFR functions by their mathematical definitions *)
Definition MR_un (f : mfun) (x : R) : R :=
  match f with
  | MU u => Run u x
  | MSec => / cos x
  | MCsc => / sin x
  | MCot => cos x / sin x
  | MSech => / cosh x
  | MCsch => / sinh x
  | MCoth => cosh x / sinh x
  | MSqrt => sqrt x
  | MLnGamma => lngamma_R x
  end.

Definition MR_bin (f : mbin) (x y : R) : R :=
  match f with
  | MB b => R_bin b x y
  | MSub => x - y
  | MGammaInc => gamma_inc_R x y
  | MLessGreater => b2r (negb (r_eqb x y))
  end.

Definition MR_const (k : mconst) : R :=
  match k with KPi => PI | KEuler => euler_R | KCatalan => catalan_R end.

Fixpoint minterp_R (t : mterm) (args : list R) : option R :=
  match t with
  | MArg i => nth_error args i
  | MLit l => Some (R_lit lit_other l)
  | MUi n => Some (IZR (Z.of_N n))
  | MConst k => Some (MR_const k)
  | MUn f a => option_map (MR_un f) (minterp_R a args)
  | MBin f a b =>
      match minterp_R a args, minterp_R b args with
      | Some x, Some y => Some (MR_bin f x y)
      | _, _ => None
      end
  | MIf c a b =>
      match minterp_R c args with
      | Some v => if r_true v then minterp_R a args else minterp_R b args
      | None => None
      end
  end.

(* the values bound to MArg 0, MArg 1, ...: the children selected by sel, in this order *)
Definition sel_vals (sel : list nat) (children : list R) : list R :=
  map (fun i => nth i children 0) sel.

(* classes eval_mpfr accepts beyond those of the double evaluators *)
Definition mpfr_extra_spec : list (N * cspec) := [
  (TC_UpperGamma, SFun2 all2 gamma_inc_R);
  (TC_LowerGamma, SFun2 all2 (fun a x => gamma_R a - gamma_inc_R a x))
].

Definition mspec_table : list (N * cspec) :=
  spec_table gamma_R lngamma_R erf_R erfc_R ++ mpfr_extra_spec.

Definition msat (sp : cspec) (sel : list nat) (t : mterm) : Prop :=
  match sp with
  | SFun dom f => forall x, dom x -> minterp_R t (sel_vals sel [x]) = Some (f x)
  | SInv dom char => forall x, dom x -> exists y, minterp_R t (sel_vals sel [x]) = Some y /\ char x y
  | SFun2 dom f => forall x y, dom x y -> minterp_R t (sel_vals sel [x; y]) = Some (f x y)
  end.

(* a class the evaluator does not accept (throw) is not constrained *)
Definition mrule_meets (sp : cspec) (r : option mrule) : Prop :=
  match r with
  | Some (MRFormula sel t) => msat sp sel t
  | Some (MRThrow _) => True
  | _ => False
  end.

Definition mtable_ideal (tbl : list (N * mrule)) : Prop :=
  forall c sp, In (c, sp) mspec_table -> mrule_meets sp (lookup_mrule tbl c).

(* Pow: the E case is exp, the general case the real power, and E**x = exp x *)
Definition mpow_meets (r : option mrule) : Prop :=
  match r with
  | Some (MRPow _ ecase gen) =>
      (forall x, minterp_R ecase [x] = Some (exp x)) /\
      (forall b x, minterp_R gen [b; x] = Some (Rpower b x)) /\
      (forall x, Rpower (exp 1) x = exp x)
  | _ => False
  end.

Fixpoint mconst_lookup (nm : list N) (t : list (list N * mterm)) : option mterm :=
  match t with
  | [] => None
  | (n, f) :: r => if bytes_eqb n nm then Some f else mconst_lookup nm r
  end.

(* Constant: each name is given the value of that constant *)
Definition NM_pi : list N := [112; 105]%N.
Definition NM_E : list N := [69]%N.
Definition NM_EulerGamma : list N := [69; 117; 108; 101; 114; 71; 97; 109; 109; 97]%N.
Definition NM_Catalan : list N := [67; 97; 116; 97; 108; 97; 110]%N.
Definition NM_GoldenRatio : list N := [71; 111; 108; 100; 101; 110; 82; 97; 116; 105; 111]%N.

Definition const_values : list (list N * R) := [
  (NM_pi, PI); (NM_E, exp 1); (NM_EulerGamma, euler_R); (NM_Catalan, catalan_R);
  (NM_GoldenRatio, (1 + sqrt 5) / 2)
].

Definition mconst_meets (r : option mrule) : Prop :=
  match r with
  | Some (MRConstants t) =>
      forall nm v, In (nm, v) const_values ->
        exists ft, mconst_lookup nm t = Some ft /\ minterp_R ft [] = Some v
  | _ => False
  end.

(* Add / Mul / Max / Min: result = first argument, then result = result op next *)
Definition fold_first_R (op : mbin) (acc_left : bool) (x : R) (l : list R) : R :=
  fold_left (fun acc v => if acc_left then MR_bin op acc v else MR_bin op v acc) l x.

(* P (values of the arguments) (result) *)
Definition mfold_meets (r : option mrule) (P : list R -> R -> Prop) : Prop :=
  match r with
  | Some (MRFoldFirst op acc_left) => forall x l, P (x :: l) (fold_first_R op acc_left x l)
  | _ => False
  end.

Definition is_sum (l : list R) (r : R) : Prop := r = fold_right Rplus 0 l.
Definition is_prod (l : list R) (r : R) : Prop := r = fold_right Rmult 1 l.
Definition is_max (l : list R) (r : R) : Prop := In r l /\ forall v, In v l -> v <= r.
Definition is_min (l : list R) (r : R) : Prop := In r l /\ forall v, In v l -> r <= v.

End MIDEAL.
