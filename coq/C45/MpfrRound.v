(* C45 -- the rounding function of the model IS Flocq's round-to-nearest-even in the format with
   p bits and unbounded exponents (FLX), and the exact rational arithmetic of the model is real
   arithmetic.  Used by MpfrArith.v. *)
From Coq Require Import ZArith NArith List Bool Reals Lra Lia.
From Flocq Require Import Core Calc.Bracket Calc.Div Calc.Round.
From SE Require Import C45.MpfrModel.
Import ListNotations.
Local Open Scope R_scope.

Definition xq2R (q : xq) : R := IZR (fst q) / IZR (Zpos (snd q)).
Definition dy2R (m e : Z) : R := F2R (Float radix2 m e).
Definition rndR (p : positive) (x : R) : R := round radix2 (FLX_exp (Zpos p)) ZnearestE x.

Lemma prec_gt_0_pos : forall p, Prec_gt_0 (Zpos p).
Proof. intro p. reflexivity. Qed.
#[export] Existing Instance prec_gt_0_pos.

Lemma IZR_pos_neq0 : forall d : positive, IZR (Zpos d) <> 0.
Proof. intro d. apply IZR_neq. discriminate. Qed.

Lemma IZR_pos_gt0 : forall d : positive, 0 < IZR (Zpos d).
Proof. intro d. apply IZR_lt. reflexivity. Qed.

Lemma F2R_exp0 : forall m, F2R (Float radix2 m 0) = IZR m.
Proof. intro m. unfold F2R. simpl. lra. Qed.

(* ---- rounding ---- *)
Lemma rnd_pos_correct : forall p n d,
  dy2R (fst (rnd_pos p n d)) (snd (rnd_pos p n d)) = rndR p (IZR (Zpos n) / IZR (Zpos d)).
Proof.
  intros p n d. unfold rnd_pos, rndR, dy2R.
  pose proof (@Fdiv_correct radix2 (fexp_p p) (Float radix2 (Zpos n) 0) (Float radix2 (Zpos d) 0)) as H.
  rewrite !F2R_exp0 in H.
  specialize (H (IZR_pos_gt0 n) (IZR_pos_gt0 d)).
  destruct (Fdiv (fexp_p p) (Float radix2 (Zpos n) 0) (Float radix2 (Zpos d) 0)) as [[m e] l].
  destruct H as [He Hin].
  assert (Hx : 0 <= IZR (Zpos n) / IZR (Zpos d)).
  { apply Rlt_le. apply Rdiv_lt_0_compat; apply IZR_pos_gt0. }
  pose proof (@round_trunc_NE_correct' radix2 (fexp_p p) (FLX_exp_valid (Zpos p)) _ m e l Hx Hin (or_introl He)) as Hr.
  unfold fexp_p in *.
  rewrite Hr.
  destruct (truncate radix2 (FLX_exp (Zpos p)) (m, e, l)) as [[m' e'] l'].
  reflexivity.
Qed.

Theorem rnd_q_correct : forall p n d,
  dy2R (fst (rnd_q p n d)) (snd (rnd_q p n d)) = rndR p (IZR n / IZR (Zpos d)).
Proof.
  intros p n d. destruct n as [ | n | n ]; unfold rnd_q.
  - unfold dy2R, rndR. simpl. rewrite F2R_0. unfold Rdiv. rewrite Rmult_0_l. rewrite round_0; auto with typeclass_instances.
  - apply rnd_pos_correct.
  - pose proof (rnd_pos_correct p n d) as H.
    destruct (rnd_pos p n d) as [m e]. simpl in *.
    unfold dy2R in *. rewrite F2R_Zopp, H. unfold rndR.
    rewrite <- round_NE_opp. f_equal.
    change (Zneg n) with (- Zpos n)%Z. rewrite opp_IZR. field. apply IZR_pos_neq0.
Qed.

(* ---- canonical form ---- *)
Lemma strip2_F2R : forall q e,
  dy2R (Zpos (fst (strip2 q e))) (snd (strip2 q e)) = dy2R (Zpos q) e.
Proof.
  induction q as [q IH | q IH | ]; intro e; try reflexivity.
  simpl. rewrite IH. unfold dy2R, F2R. simpl Fnum. simpl Fexp.
  rewrite bpow_plus_1. rewrite (Pos2Z.inj_xO q), mult_IZR. simpl (IZR radix2). ring.
Qed.

Lemma strip2_F2R_neg : forall q e,
  dy2R (Zneg (fst (strip2 q e))) (snd (strip2 q e)) = dy2R (Zneg q) e.
Proof.
  intros q e. pose proof (strip2_F2R q e) as H. unfold dy2R in *.
  change (Zneg (fst (strip2 q e))) with (- Zpos (fst (strip2 q e)))%Z.
  change (Zneg q) with (- Zpos q)%Z.
  rewrite !F2R_Zopp. rewrite H. reflexivity.
Qed.

Lemma norm_dy_F2R : forall m e, dy2R (fst (norm_dy m e)) (snd (norm_dy m e)) = dy2R m e.
Proof.
  intros [ | q | q ] e; unfold norm_dy.
  - unfold dy2R. simpl. rewrite !F2R_0. reflexivity.
  - pose proof (strip2_F2R q e). destruct (strip2 q e). exact H.
  - pose proof (strip2_F2R_neg q e). destruct (strip2 q e). exact H.
Qed.

Definition mpv2R (v : mpv) : R := match v with VFin m e => dy2R m e | _ => 0 end.

Theorem mp_of_xq_correct : forall p q, mpv2R (mp_of_xq p q) = rndR p (xq2R q).
Proof.
  intros p q. unfold mp_of_xq, xq2R.
  pose proof (rnd_q_correct p (fst q) (snd q)) as H.
  destruct (rnd_q p (fst q) (snd q)) as [m e]. simpl in H.
  pose proof (norm_dy_F2R m e) as Hn.
  destruct (norm_dy m e) as [m' e']. simpl in *. rewrite Hn. exact H.
Qed.

Lemma mp_of_xq_fin : forall p q, exists m e, mp_of_xq p q = VFin m e.
Proof.
  intros p q. unfold mp_of_xq. destruct (rnd_q p (fst q) (snd q)) as [m e].
  destruct (norm_dy m e) as [m' e']. eauto.
Qed.

(* ---- exact rationals ---- *)
Lemma xq_of_dy_correct : forall m e, xq2R (xq_of_dy m e) = dy2R m e.
Proof.
  intros m e. unfold xq_of_dy, xq2R, dy2R, F2R. simpl Fnum. simpl Fexp.
  destruct (Z.leb_spec 0 e) as [He | He]; simpl fst; simpl snd.
  - rewrite mult_IZR. change 2%Z with (radix_val radix2). rewrite IZR_Zpower by auto. field.
  - assert (Hp : (0 < 2 ^ (- e))%Z) by (apply Z.pow_pos_nonneg; lia).
    rewrite Z2Pos.id by auto.
    change 2%Z with (radix_val radix2). rewrite IZR_Zpower by lia.
    rewrite bpow_opp. field.
    apply Rgt_not_eq. apply bpow_gt_0.
Qed.

Lemma xq_add_correct : forall a b, xq2R (xq_add a b) = xq2R a + xq2R b.
Proof.
  intros [a1 a2] [b1 b2]. unfold xq_add, xq2R. simpl fst. simpl snd.
  rewrite plus_IZR, !mult_IZR, Pos2Z.inj_mul, mult_IZR.
  field. split; apply IZR_pos_neq0.
Qed.

Lemma xq_opp_correct : forall a, xq2R (xq_opp a) = - xq2R a.
Proof.
  intros [a1 a2]. unfold xq_opp, xq2R. simpl fst. simpl snd. rewrite opp_IZR. field. apply IZR_pos_neq0.
Qed.

Lemma xq_sub_correct : forall a b, xq2R (xq_sub a b) = xq2R a - xq2R b.
Proof. intros. unfold xq_sub. rewrite xq_add_correct, xq_opp_correct. ring. Qed.

Lemma xq_mul_correct : forall a b, xq2R (xq_mul a b) = xq2R a * xq2R b.
Proof.
  intros [a1 a2] [b1 b2]. unfold xq_mul, xq2R. simpl fst. simpl snd.
  rewrite mult_IZR, Pos2Z.inj_mul, mult_IZR. field. split; apply IZR_pos_neq0.
Qed.

Lemma xq_inv_correct : forall a q, xq_inv a = Some q -> xq2R a <> 0 /\ xq2R q = / xq2R a.
Proof.
  intros [a1 a2] q. unfold xq_inv, xq2R. simpl fst. simpl snd.
  destruct a1 as [ | n | n ]; intro H; inversion H; subst; clear H; simpl fst; simpl snd.
  - split.
    + apply Rgt_not_eq. apply Rdiv_lt_0_compat; apply IZR_pos_gt0.
    + field. split; apply IZR_pos_neq0.
  - assert (Hn : IZR (Zneg n) <> 0) by (apply IZR_neq; discriminate).
    split.
    + unfold Rdiv. apply Rmult_integral_contrapositive_currified; auto.
      apply Rinv_neq_0_compat. apply IZR_pos_neq0.
    + change (Zneg a2) with (- Zpos a2)%Z. change (Zneg n) with (- Zpos n)%Z.
      rewrite !opp_IZR. field. split; apply IZR_pos_neq0.
Qed.

Lemma xq_div_correct : forall a b q, xq_div a b = Some q -> xq2R b <> 0 /\ xq2R q = xq2R a / xq2R b.
Proof.
  intros a b q. unfold xq_div. destruct (xq_inv b) as [ib | ] eqn:Hi; intro H; inversion H; subst.
  destruct (xq_inv_correct b ib Hi) as [Hb Hv]. split; auto.
  rewrite xq_mul_correct, Hv. reflexivity.
Qed.

Lemma xq_pow_pos_correct : forall a k, xq2R (xq_pow_pos a k) = xq2R a ^ Pos.to_nat k.
Proof.
  intros [a1 a2] k. unfold xq_pow_pos, xq2R. simpl fst. simpl snd.
  rewrite Zpower_pos_powerRZ. cbn [powerRZ].
  rewrite Pos2Z.inj_pow. change (Z.pos a2 ^ Z.pos k)%Z with (Z.pow_pos (Z.pos a2) k).
  rewrite Zpower_pos_powerRZ. cbn [powerRZ].
  unfold Rdiv. rewrite Rpow_mult_distr, pow_inv. reflexivity.
Qed.

Lemma xq_pow_correct : forall a k q, xq_pow a k = Some q -> xq2R q = powerRZ (xq2R a) k.
Proof.
  intros a k q. destruct k as [ | k | k ]; unfold xq_pow; intro H.
  - inversion H; subst. unfold xq2R. simpl. field.
  - inversion H; subst. rewrite xq_pow_pos_correct. reflexivity.
  - destruct (xq_inv_correct _ _ H) as [_ Hv]. rewrite Hv, xq_pow_pos_correct. reflexivity.
Qed.

Lemma xq_to_Z_correct : forall a k, xq_to_Z a = Some k -> xq2R a = IZR k.
Proof.
  intros [a1 a2] k. unfold xq_to_Z, xq2R. simpl fst. simpl snd.
  destruct (Z.eqb_spec (a1 mod Z.pos a2) 0) as [Hm | Hm]; intro H; inversion H; subst; clear H.
  assert (Ha : a1 = (Z.pos a2 * (a1 / Z.pos a2))%Z).
  { pose proof (Z.div_mod a1 (Z.pos a2)). lia. }
  rewrite Ha at 1. rewrite mult_IZR. field. apply IZR_pos_neq0.
Qed.
