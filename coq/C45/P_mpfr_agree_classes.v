From Coq Require Import List NArith Bool.
From SE Require Import Gen.TypeCodes Eval.EvalTerm Eval.Gen_EvalRules Eval.TableProofs C45.MpfrTerm C45.Gen_MpfrRules C45.MpfrSpec C45.MpfrTable.
Import ListNotations.
(* non-vacuity of the agreement: the 46 classes actually compared, and Constant *)
Theorem C45_mpfr_agree_classes :
  filter (fun c => negb (is_mthrow (mrule_at c)) && negb (is_throw (rule_at visitor_rules c))
                   && negb (existsb (N.eqb c) mpfr_differs)) mall_codes
  = [TC_Integer; TC_Rational; TC_RealDouble; TC_NumberWrapper; TC_Mul; TC_Add; TC_Pow; TC_Log] ++
    [TC_Sin; TC_Cos; TC_Tan; TC_Cot; TC_Csc; TC_Sec; TC_ASin; TC_ACos; TC_ASec; TC_ACsc; TC_ATan; TC_ACot; TC_ATan2;
     TC_Sinh; TC_Csch; TC_Cosh; TC_Sech; TC_Tanh; TC_Coth; TC_ASinh; TC_ACsch; TC_ACosh; TC_ATanh; TC_ACoth; TC_ASech] ++
    [TC_Erf; TC_Erfc; TC_Gamma; TC_LogGamma; TC_FunctionWrapper; TC_Abs; TC_Max; TC_Min;
     TC_Equality; TC_Unequality; TC_LessThan; TC_StrictLessThan; TC_UnevaluatedExpr]
  /\ const_names_m = const_names_d /\ length const_names_m = 5%nat.
Proof. split; [ exact mpfr_agree_classes | split; [ exact (proj1 const_agree) | exact (proj1 (proj2 const_agree)) ] ]. Qed.
Print Assumptions C45_mpfr_agree_classes.
