From Coq Require Import Reals List NArith.
From SE Require Import Gen.TypeCodes Eval.EvalTerm C45.MpfrTerm C45.Gen_MpfrRules C45.MpfrSpec C45.MpfrTable.
Theorem C45_mpfr_rules_ideal :
  forall (gamma_R erf_R erfc_R : R -> R) (gamma_inc_R : R -> R -> R) (euler_R catalan_R : R) (lit_other : lit -> R),
    mtable_ideal gamma_R erf_R erfc_R gamma_inc_R euler_R catalan_R lit_other mpfr_rules /\
    mpow_meets gamma_R erf_R erfc_R gamma_inc_R euler_R catalan_R lit_other (lookup_mrule mpfr_rules TC_Pow) /\
    mconst_meets gamma_R erf_R erfc_R gamma_inc_R euler_R catalan_R lit_other (lookup_mrule mpfr_rules TC_Constant) /\
    mfold_meets gamma_inc_R (lookup_mrule mpfr_rules TC_Add) is_sum /\
    mfold_meets gamma_inc_R (lookup_mrule mpfr_rules TC_Mul) is_prod /\
    mfold_meets gamma_inc_R (lookup_mrule mpfr_rules TC_Max) is_max /\
    mfold_meets gamma_inc_R (lookup_mrule mpfr_rules TC_Min) is_min.
Proof. exact mpfr_rules_ideal. Qed.
Print Assumptions C45_mpfr_rules_ideal.
