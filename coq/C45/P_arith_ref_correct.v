From Coq Require Import Reals ZArith List.
From Flocq Require Import Core.
From SE Require Import C45.MpfrModel C45.MpfrRound C45.MpfrArith.
(* the reference the refutation and the check compare with IS the correctly rounded result *)
Theorem C45_arith_ref_correct : forall o ps vs other pt v xs xo,
  arith_ref o ps vs other = Some (pt, v) -> xq_of_mpv vs = Some xs -> opd_val other = Some xo ->
  pt = result_prec ps other /\
  exists r, is_exact o (xq2R xs) (xq2R xo) r /\ mpv2R v = round radix2 (FLX_exp (Zpos pt)) ZnearestE r.
Proof. exact arith_ref_correct. Qed.
Print Assumptions C45_arith_ref_correct.
