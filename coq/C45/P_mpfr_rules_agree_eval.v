From Coq Require Import List NArith Bool.
From SE Require Import Gen.TypeCodes Eval.EvalTerm Eval.Gen_EvalRules Eval.TableProofs C45.MpfrTerm C45.Gen_MpfrRules C45.MpfrTable.
Import ListNotations.
(* class by class: eval_mpfr and eval_double throw, or the class is Constant, or the MPFR rule -- with the
   functions MPFR has natively expanded -- is the rule of the double table; which classes are compared,
   which only one of the evaluators accepts *)
Theorem C45_mpfr_rules_agree_eval :
  forallb (fun c => is_mthrow (mrule_at c) || is_throw (rule_at visitor_rules c)
                    || existsb (N.eqb c) mpfr_differs || agree_at c) mall_codes = true
  /\ filter (fun c => is_mthrow (mrule_at c) && negb (is_throw (rule_at visitor_rules c))) mall_codes
     = [TC_Piecewise; TC_BooleanAtom]
  /\ filter (fun c => negb (is_mthrow (mrule_at c)) && is_throw (rule_at visitor_rules c)) mall_codes
     = [TC_RealMPFR; TC_LowerGamma; TC_UpperGamma; TC_Beta].
Proof. split; [ exact mpfr_agree | split; [ exact mpfr_lacks | exact mpfr_extra ] ]. Qed.
Print Assumptions C45_mpfr_rules_agree_eval.
