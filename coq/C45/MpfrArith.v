(* C45 -- RealMPFR arithmetic: a dispatch rule of the shape "one MPFR call on the two exact operands
   into a result of the larger precision" (optionally followed by an exact negation) returns the
   correctly rounded result; which (operation, operand kind) pairs of the GENERATED table have
   this shape is computed; the pairs that have not are refuted by witnesses. *)
From Coq Require Import ZArith NArith List Bool Reals Lra Lia.
From Flocq Require Import Core.
From SE Require Import C45.MpfrModel C45.Gen_MpfrRules C45.MpfrRound.
Import ListNotations.
Local Open Scope R_scope.
Arguments dbl_value : simpl never.
Arguments rnd_q : simpl never.
Arguments mp_of_xq : simpl never.
Arguments xq_of_dy : simpl never.

(* ---- the shape ---- *)
Definition is_self (a : aopd) : bool := match a with OSelf => true | _ => false end.
Definition is_other (a : aopd) : bool := match a with OOther => true | _ => false end.
Definition so (a b : aopd) : bool := is_self a && is_other b.
Definition os (a b : aopd) : bool := is_other a && is_self b.

(* the step computes (self o other) from the two exact operands *)
Definition step_for (o : aop) (s : astep) : bool :=
  match o, s with
  | OAdd, AAdd a b => so a b || os a b
  | OSub, ASub a b => so a b
  | ORsub, ASub a b => os a b
  | OMul, AMul a b => so a b || os a b
  | ODiv, ADiv a b => so a b
  | ORdiv, ADiv a b => os a b
  | OPow, APow a b => so a b
  | ORpow, APow a b => os a b
  | _, _ => false
  end.

Definition is_sub_so (s : astep) : bool := match s with ASub a b => so a b | _ => false end.
Definition is_neg_t (s : astep) : bool := match s with ANeg OT => true | _ => false end.
Definition is_rsub (o : aop) : bool := match o with ORsub => true | _ => false end.

Definition steps_single (o : aop) (l : list astep) : bool :=
  match l with
  | [s] => step_for o s
  | [s1; s2] => is_rsub o && is_sub_so s1 && is_neg_t s2      (* -(self - other), the negation is exact *)
  | _ => false
  end.

(* the precision of the result: the larger operand precision *)
Definition prec_ok (k : akind) (p : apsel) : bool :=
  match k, p with
  | KRealMPFR, PMax => true
  | KRealMPFR, _ => false
  | _, PSelf => true
  | _, _ => false
  end.

Definition rule_single_rounding (o : aop) (k : akind) (r : arule) : bool :=
  match r with
  | ARule _ p steps => prec_ok k p && steps_single o steps
  | ARThrow _ => false
  end.

(* integer exponents the model computes exactly *)
Definition exp_bounded (o : aop) (xs xo : xq) : bool :=
  match o with
  | OPow => match xq_to_Z xo with Some k => Z.leb (Z.abs k) POW_BOUND | None => true end
  | ORpow => match xq_to_Z xs with Some k => Z.leb (Z.abs k) POW_BOUND | None => true end
  | _ => true
  end.

(* ---- the real number a (self o other) denotes ---- *)
Definition is_exact (o : aop) (x y r : R) : Prop :=
  match o with
  | OAdd => r = x + y
  | OSub => r = x - y
  | ORsub => r = y - x
  | OMul => r = x * y
  | ODiv => y <> 0 /\ r = x / y
  | ORdiv => x <> 0 /\ r = y / x
  | OPow => exists k, y = IZR k /\ r = powerRZ x k
  | ORpow => exists k, x = IZR k /\ r = powerRZ y k
  end.

Lemma exact_op_correct : forall o x y q,
  exact_op o x y = Some q -> is_exact o (xq2R x) (xq2R y) (xq2R q).
Proof.
  intros o x y q H. destruct o; simpl in H; unfold is_exact.
  - inversion H; subst. apply xq_add_correct.
  - inversion H; subst. apply xq_sub_correct.
  - inversion H; subst. apply xq_sub_correct.
  - inversion H; subst. apply xq_mul_correct.
  - apply xq_div_correct in H. tauto.
  - apply xq_div_correct in H. tauto.
  - destruct (xq_to_Z y) as [k | ] eqn:Hk; [ | discriminate ].
    destruct (Z.leb (Z.abs k) POW_BOUND); [ | discriminate ].
    exists k. split; [ apply xq_to_Z_correct; auto | apply xq_pow_correct; auto ].
  - destruct (xq_to_Z x) as [k | ] eqn:Hk; [ | discriminate ].
    destruct (Z.leb (Z.abs k) POW_BOUND); [ | discriminate ].
    exists k. split; [ apply xq_to_Z_correct; auto | apply xq_pow_correct; auto ].
Qed.

(* ---- rounding facts ---- *)
Lemma rndR_idem : forall p x, rndR p (rndR p x) = rndR p x.
Proof.
  intros p x. unfold rndR. apply round_generic; auto with typeclass_instances.
  apply generic_format_round; auto with typeclass_instances.
Qed.

Lemma rndR_opp : forall p x, rndR p (- x) = - rndR p x.
Proof. intros. unfold rndR. apply round_NE_opp. Qed.

Lemma rndR_opp_rnd : forall p x, rndR p (- rndR p x) = - rndR p x.
Proof. intros. rewrite rndR_opp, rndR_idem. reflexivity. Qed.

Lemma xq_of_rnd_correct : forall p q, xq2R (xq_of_rnd p q) = rndR p (xq2R q).
Proof.
  intros p q. unfold xq_of_rnd.
  pose proof (rnd_q_correct p (fst q) (snd q)) as H.
  destruct (rnd_q p (fst q) (snd q)) as [m e]. simpl in H.
  rewrite xq_of_dy_correct. exact H.
Qed.

(* ---- one step ---- *)
Lemma step_for_exact : forall o s xs xo q,
  step_for o s = true -> exp_bounded o xs xo = true -> exact_op o xs xo = Some q ->
  exists q', astep_exact xs xo None s = Some q' /\ xq2R q' = xq2R q.
Proof.
  intros o s xs xo q Hs Hb He.
  destruct o; destruct s as [a b | a b | a b | a b | a b | a k | a | a]; try discriminate Hs;
    destruct a; try discriminate Hs; destruct b; try discriminate Hs;
    cbn [astep_exact aopd_val]; cbn [exact_op] in He; cbn [exp_bounded] in Hb.
  (* add *)
  - eexists; split; [ reflexivity | ]. inversion He; subst. reflexivity.
  - eexists; split; [ reflexivity | ]. inversion He; subst. rewrite !xq_add_correct. ring.
  (* sub, rsub *)
  - eexists; split; [ reflexivity | ]. inversion He; subst. reflexivity.
  - eexists; split; [ reflexivity | ]. inversion He; subst. reflexivity.
  (* mul *)
  - eexists; split; [ reflexivity | ]. inversion He; subst. reflexivity.
  - eexists; split; [ reflexivity | ]. inversion He; subst. rewrite !xq_mul_correct. ring.
  (* div, rdiv *)
  - exists q. split; [ exact He | reflexivity ].
  - exists q. split; [ exact He | reflexivity ].
  (* pow, rpow *)
  - destruct (xq_to_Z xo) as [k | ]; [ | discriminate ]. rewrite Hb in He |- *. exists q. split; [ exact He | reflexivity ].
  - destruct (xq_to_Z xs) as [k | ]; [ | discriminate ]. rewrite Hb in He |- *. exists q. split; [ exact He | reflexivity ].
Qed.

Lemma sel_prec_ok : forall k psel ps other xo,
  prec_ok k psel = true -> opd_kind other = k -> opd_val other = Some xo ->
  sel_prec psel ps other = Some (result_prec ps other).
Proof.
  intros k psel ps other xo Hp Hk Hv. subst k.
  destruct other; cbn [opd_val] in Hv; try discriminate Hv; destruct psel; cbn [prec_ok opd_kind] in Hp; try discriminate Hp; reflexivity.
Qed.

Lemma steps_single_inv : forall o steps, steps_single o steps = true ->
  (exists s, steps = [s] /\ step_for o s = true) \/
  (o = ORsub /\ steps = [ASub OSelf OOther; ANeg OT]).
Proof.
  intros o steps H. destruct steps as [ | s1 [ | s2 [ | ] ] ]; try discriminate.
  - left. exists s1. auto.
  - right. simpl in H. apply andb_prop in H. destruct H as [H H2]. apply andb_prop in H. destruct H as [H0 H1].
    destruct o; try discriminate.
    destruct s1 as [a b | a b | a b | a b | a b | a k | a | a]; try discriminate.
    destruct a; try discriminate; destruct b; try discriminate.
    destruct s2 as [a b | a b | a b | a b | a b | a k | a | a]; try discriminate.
    destruct a; try discriminate. auto.
Qed.

(* ---- the rule ---- *)
Theorem arith_exec_correctly_rounded :
  forall o k g psel steps ps vs other xs xo q,
    rule_single_rounding o k (ARule g psel steps) = true ->
    opd_kind other = k ->
    xq_of_mpv vs = Some xs -> opd_val other = Some xo ->
    guard_fires g xs xo = None ->
    exp_bounded o xs xo = true ->
    exact_op o xs xo = Some q ->
    exists v, arith_exec (ARule g psel steps) ps vs other = AVal (result_prec ps other) v
              /\ mpv2R v = rndR (result_prec ps other) (xq2R q).
Proof.
  intros o k g psel steps ps vs other xs xo q Hr Hk Hs Ho Hg Hb He.
  unfold rule_single_rounding in Hr. apply andb_prop in Hr. destruct Hr as [Hp Hst].
  unfold arith_exec. rewrite Hs, Ho, Hg.
  rewrite (sel_prec_ok k psel ps other xo Hp Hk Ho).
  set (pt := result_prec ps other).
  destruct (steps_single_inv o steps Hst) as [[s [-> Hsf]] | [-> ->]].
  - destruct (step_for_exact o s xs xo q Hsf Hb He) as [q' [Hq' Hv]].
    cbn [asteps]. rewrite Hq'.
    eexists. split; [ reflexivity | ].
    rewrite mp_of_xq_correct, xq_of_rnd_correct, rndR_idem, Hv. reflexivity.
  - cbn [asteps astep_exact aopd_val].
    eexists. split; [ reflexivity | ].
    rewrite mp_of_xq_correct, xq_of_rnd_correct, rndR_idem, xq_opp_correct, xq_of_rnd_correct.
    rewrite rndR_opp_rnd. rewrite <- rndR_opp. f_equal.
    simpl in He. inversion He; subst. rewrite !xq_sub_correct. ring.
Qed.

(* ---- the generated table ---- *)
Definition arule_at (o : aop) (k : akind) : arule :=
  match lookup_arule mpfr_arith o k with Some r => r | None => ARThrow EXN_NOTIMPL end.

Definition all_pairs : list (aop * akind) := map fst mpfr_arith.

(* (operation, operand kind) pairs whose rule rounds once at the larger precision *)
Definition single_rounding_pairs : list (aop * akind) :=
  filter (fun ok => rule_single_rounding (fst ok) (snd ok) (arule_at (fst ok) (snd ok))) all_pairs.

(* the pairs that return a RealMPFR but not by one rounding of the exact operands *)
Definition other_real_pairs : list (aop * akind) :=
  filter (fun ok => match arule_at (fst ok) (snd ok) with
                    | ARule _ _ _ => negb (rule_single_rounding (fst ok) (snd ok) (arule_at (fst ok) (snd ok)))
                    | ARThrow _ => false
                    end) all_pairs.

Theorem single_rounding_pairs_eq :
  single_rounding_pairs =
  [(OAdd, KInteger); (OAdd, KRational); (OAdd, KRealDouble); (OAdd, KRealMPFR);
   (OSub, KInteger); (OSub, KRational); (OSub, KRealDouble); (OSub, KRealMPFR);
   (ORsub, KInteger); (ORsub, KRational); (ORsub, KRealDouble);
   (OMul, KInteger); (OMul, KRational); (OMul, KRealDouble); (OMul, KRealMPFR);
   (ODiv, KInteger); (ODiv, KRational); (ODiv, KRealDouble); (ODiv, KRealMPFR);
   (ORdiv, KRealDouble);
   (OPow, KInteger); (OPow, KRealMPFR)].
Proof. vm_compute. reflexivity. Qed.

(* exact dividend / exact or inexact exponent or base converted first: two roundings *)
Theorem other_real_pairs_eq :
  other_real_pairs =
  [(ORdiv, KInteger); (ORdiv, KRational); (OPow, KRational); (OPow, KRealDouble);
   (ORpow, KInteger); (ORpow, KRational); (ORpow, KRealDouble)].
Proof. vm_compute. reflexivity. Qed.

(* operand kinds that need MPC: SymEngineException *)
Theorem complex_pairs_throw :
  forallb (fun o => forallb (fun k => match arule_at o k with ARThrow c => N.eqb c EXN_SYMENGINE | _ => false end)
                            [KComplex; KComplexDouble])
          [OAdd; OSub; ORsub; OMul; ODiv; ORdiv; OPow; ORpow] = true.
Proof. vm_compute. reflexivity. Qed.

(* the guards of the single-rounding rules: the exact-zero shortcut of Integer multiplication and
   the negative-base test of pow *)
Definition guard_ok (o : aop) (k : akind) (g : aguard) : bool :=
  match g with
  | GNone => true
  | GOtherZeroExact => match o with OMul => true | _ => false end && match k with KInteger => true | _ => false end
  | GSelfNegThrows => match o with OPow => true | _ => false end
  | GOtherNegThrows => false
  end.

Lemma guards_of_single :
  forallb (fun ok => match arule_at (fst ok) (snd ok) with ARule g _ _ => guard_ok (fst ok) (snd ok) g | ARThrow _ => true end)
          single_rounding_pairs = true.
Proof. vm_compute. reflexivity. Qed.

Lemma in_single_rounding : forall o k, In (o, k) single_rounding_pairs ->
  exists g psel steps, lookup_arule mpfr_arith o k = Some (ARule g psel steps)
                       /\ rule_single_rounding o k (ARule g psel steps) = true.
Proof.
  intros o k H. rewrite single_rounding_pairs_eq in H. simpl in H.
  repeat (destruct H as [H | H];
          [ inversion H; subst o k; clear H;
            match goal with |- exists g p s, lookup_arule ?t ?o ?k = _ /\ _ =>
              let r := eval vm_compute in (lookup_arule t o k) in
              match r with
              | Some (ARule ?g ?p ?s) => exists g, p, s; split; [ vm_compute; reflexivity | vm_compute; reflexivity ]
              end
            end | ]).
  contradiction.
Qed.

(* the statement used by the obligation file: for every pair of the list above, on finite operands,
   when no guard fires, RealMPFR(ps, vs).<o>real(other) is a RealMPFR whose precision is the larger
   operand precision and whose value is the exact result rounded ONCE to nearest-even (Flocq's
   [round] in the format FLX with that many bits) *)
Theorem mpfr_arith_correctly_rounded :
  forall o k ps vs other xs xo q,
    In (o, k) single_rounding_pairs ->
    opd_kind other = k ->
    xq_of_mpv vs = Some xs -> opd_val other = Some xo ->
    exp_bounded o xs xo = true ->
    exact_op o xs xo = Some q ->
    (arith_run mpfr_arith o ps vs other = AExactZero /\ o = OMul /\ k = KInteger /\ xq2R xo = 0) \/
    (arith_run mpfr_arith o ps vs other = AExn EXN_SYMENGINE /\ o = OPow /\ xq2R xs < 0) \/
    exists v r,
      arith_run mpfr_arith o ps vs other = AVal (result_prec ps other) v /\
      is_exact o (xq2R xs) (xq2R xo) r /\
      mpv2R v = round radix2 (FLX_exp (Zpos (result_prec ps other))) ZnearestE r /\
      result_prec ps other = match other with DMpfr po _ => Pos.max ps po | _ => ps end.
Proof.
  intros o k ps vs other xs xo q Hin Hk Hs Ho Hb He.
  destruct (in_single_rounding o k Hin) as [g [psel [steps [Hl Hr]]]].
  unfold arith_run. rewrite Hk, Hl.
  destruct (guard_fires g xs xo) as [a | ] eqn:Hg.
  - (* a guard fires: which guards occur in the single-rounding rules is computed *)
    assert (Hgk : (g = GOtherZeroExact /\ o = OMul /\ k = KInteger) \/ (g = GSelfNegThrows /\ o = OPow)).
    { pose proof guards_of_single as HG. rewrite forallb_forall in HG. specialize (HG (o, k) Hin).
      cbn [fst snd] in HG. unfold arule_at in HG. rewrite Hl in HG.
      destruct g; cbn [guard_fires] in Hg; try discriminate Hg; cbn [guard_ok] in HG.
      - apply andb_prop in HG. destruct HG as [H1 H2].
        destruct o; try discriminate H1. destruct k; try discriminate H2. auto.
      - destruct o; try discriminate HG. auto.
      - discriminate HG. }
    destruct Hgk as [[-> [-> ->]] | [-> ->]].
    + left. unfold arith_exec. rewrite Hs, Ho, Hg. simpl in Hg.
      destruct (Z.eqb_spec (fst xo) 0) as [Hz | Hz]; [ | discriminate ].
      inversion Hg; subst. repeat split; auto.
      unfold xq2R. rewrite Hz. unfold Rdiv. apply Rmult_0_l.
    + right. left. unfold arith_exec. rewrite Hs, Ho, Hg. simpl in Hg.
      destruct (Z.ltb_spec (fst xs) 0) as [Hz | Hz]; [ | discriminate ].
      inversion Hg; subst. repeat split; auto.
      unfold xq2R, Rdiv.
      assert (H1 : IZR (fst xs) < 0) by (apply IZR_lt; exact Hz).
      assert (H2 : 0 < / IZR (Z.pos (snd xs))) by (apply Rinv_0_lt_compat; apply IZR_pos_gt0).
      nra.
  - right. right.
    destruct (arith_exec_correctly_rounded o k g psel steps ps vs other xs xo q Hr Hk Hs Ho Hg Hb He) as [v [Hv Hval]].
    exists v, (xq2R q). split; [ exact Hv | ]. split; [ apply exact_op_correct; exact He | ].
    split; [ exact Hval | ]. destruct other; reflexivity.
Qed.

(* ---- refutations: the double roundings are observable ---- *)
(* 3 / RealMPFR(13, 4 bits): the library computes 1 / round(13/3) = 1 / 4.5 -> 0.21875; 3/13 rounds to 0.234375 *)
Theorem rdiv_integer_refuted :
  exists ps vs z, exists p1 v1 p2 v2,
    arith_run mpfr_arith ORdiv ps vs (DInt z) = AVal p1 v1 /\
    arith_ref ORdiv ps vs (DInt z) = Some (p2, v2) /\ mpv_eqb v1 v2 = false.
Proof.
  exists 4%positive, (VFin 13 0), 3%Z. do 4 eexists.
  split; [ vm_compute; reflexivity | ]. split; [ vm_compute; reflexivity | ]. vm_compute. reflexivity.
Qed.

Theorem rdiv_rational_refuted :
  exists ps vs n d, exists p1 v1 p2 v2,
    arith_run mpfr_arith ORdiv ps vs (DRat n d) = AVal p1 v1 /\
    arith_ref ORdiv ps vs (DRat n d) = Some (p2, v2) /\ mpv_eqb v1 v2 = false.
Proof.
  exists 4%positive, (VFin 13 0), 3%Z, 2%positive. do 4 eexists.
  split; [ vm_compute; reflexivity | ]. split; [ vm_compute; reflexivity | ]. vm_compute. reflexivity.
Qed.

(* the reference IS the correctly rounded result *)
Theorem arith_ref_correct : forall o ps vs other pt v xs xo,
  arith_ref o ps vs other = Some (pt, v) -> xq_of_mpv vs = Some xs -> opd_val other = Some xo ->
  pt = result_prec ps other /\
  exists r, is_exact o (xq2R xs) (xq2R xo) r /\ mpv2R v = round radix2 (FLX_exp (Zpos pt)) ZnearestE r.
Proof.
  intros o ps vs other pt v xs xo H Hs Ho. unfold arith_ref in H. rewrite Hs, Ho in H.
  destruct (exact_op o xs xo) as [q | ] eqn:He; [ | discriminate ].
  inversion H; subst. split; [ reflexivity | ].
  exists (xq2R q). split; [ apply exact_op_correct; auto | apply mp_of_xq_correct ].
Qed.
