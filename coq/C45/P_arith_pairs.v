From Coq Require Import List NArith Bool.
From SE Require Import C45.MpfrModel C45.Gen_MpfrRules C45.MpfrArith.
Import ListNotations.
(* which overloads of the generated table round once at the larger precision, which return a RealMPFR
   otherwise (two roundings), and that the Complex / ComplexDouble overloads throw without MPC *)
Theorem C45_arith_pairs :
  single_rounding_pairs =
  [(OAdd, KInteger); (OAdd, KRational); (OAdd, KRealDouble); (OAdd, KRealMPFR);
   (OSub, KInteger); (OSub, KRational); (OSub, KRealDouble); (OSub, KRealMPFR);
   (ORsub, KInteger); (ORsub, KRational); (ORsub, KRealDouble);
   (OMul, KInteger); (OMul, KRational); (OMul, KRealDouble); (OMul, KRealMPFR);
   (ODiv, KInteger); (ODiv, KRational); (ODiv, KRealDouble); (ODiv, KRealMPFR);
   (ORdiv, KRealDouble);
   (OPow, KInteger); (OPow, KRealMPFR)]
  /\ other_real_pairs =
  [(ORdiv, KInteger); (ORdiv, KRational); (OPow, KRational); (OPow, KRealDouble);
   (ORpow, KInteger); (ORpow, KRational); (ORpow, KRealDouble)]
  /\ forallb (fun o => forallb (fun k => match arule_at o k with ARThrow c => N.eqb c EXN_SYMENGINE | _ => false end)
                               [KComplex; KComplexDouble])
             [OAdd; OSub; ORsub; OMul; ODiv; ORdiv; OPow; ORpow] = true.
Proof. split; [ exact single_rounding_pairs_eq | split; [ exact other_real_pairs_eq | exact complex_pairs_throw ] ]. Qed.
Print Assumptions C45_arith_pairs.
