(* C45 -- executable model of arbitrary-precision evaluation.
   [rnd_q]      : round-to-nearest-even of a rational to p bits (MPFR_RNDN, unbounded exponent),
                  computed with Flocq's Fdiv / truncate / round_N (correctness: MpfrProofs.v);
   [mp_*]       : MPFR operations on values = exact dyadics, NaN, infinities (the sign of zero is
                  not modelled); functions the model cannot compute are looked up in an oracle
                  list supplied with the case (None = not modelled);
   [meval]      : EvalMPFRVisitor::apply at precision p over the dumped trees, driven by the
                  generated table Gen_MpfrRules.mpfr_rules;
   [arith_exec] : RealMPFR::<op>real, driven by the generated table Gen_MpfrRules.mpfr_arith;
   [num_op]     : a.add(b) / sub / mul / div / pow when one operand is a RealMPFR.
   No proofs here. *)
From Coq Require Import ZArith NArith List Bool.
From Flocq Require Import Core.Zaux Core.Defs Core.Digits Core.FLX Calc.Bracket Calc.Div Calc.Round.
From SE Require Export Base.Prelude Expr.ExprDefs Expr.Cmp Eval.EvalTerm C45.MpfrTerm.
From SE Require Import Eval.EvalModel.
Import ListNotations.
Local Open Scope Z_scope.

(* ---------------------------------------------------------------- rounding *)
Definition fexp_p (p : positive) : Z -> Z := FLX_exp (Zpos p).

(* n/d > 0 rounded to nearest even with p bits: (mantissa, exponent) *)
Definition rnd_pos (p : positive) (n d : positive) : Z * Z :=
  let '(m, e, l) := @Fdiv radix2 (fexp_p p) (Float radix2 (Zpos n) 0) (Float radix2 (Zpos d) 0) in
  let '(m', e', l') := truncate radix2 (fexp_p p) (m, e, l) in
  (cond_incr (round_N (negb (Z.even m')) l') m', e').

Definition rnd_q (p : positive) (n : Z) (d : positive) : Z * Z :=
  match n with
  | Z0 => (0, 0)
  | Zpos n' => rnd_pos p n' d
  | Zneg n' => let (m, e) := rnd_pos p n' d in (- m, e)
  end.

(* canonical form of a dyadic: odd mantissa (or 0 * 2^0) *)
Fixpoint strip2 (m : positive) (e : Z) : positive * Z :=
  match m with
  | xO q => strip2 q (e + 1)
  | _ => (m, e)
  end.
Definition norm_dy (m e : Z) : Z * Z :=
  match m with
  | Z0 => (0, 0)
  | Zpos q => let (q', e') := strip2 q e in (Zpos q', e')
  | Zneg q => let (q', e') := strip2 q e in (Zneg q', e')
  end.

(* ---------------------------------------------------------------- exact rationals (not reduced) *)
Definition xq := (Z * positive)%type.

Definition xq_of_dy (m e : Z) : xq :=
  if 0 <=? e then (m * 2 ^ e, 1%positive) else (m, Z.to_pos (2 ^ (- e))).
Definition xq_add (a b : xq) : xq := (fst a * Zpos (snd b) + fst b * Zpos (snd a), (snd a * snd b)%positive).
Definition xq_opp (a : xq) : xq := (- fst a, snd a).
Definition xq_sub (a b : xq) : xq := xq_add a (xq_opp b).
Definition xq_mul (a b : xq) : xq := (fst a * fst b, (snd a * snd b)%positive).
Definition xq_inv (a : xq) : option xq :=
  match fst a with
  | Z0 => None
  | Zpos n => Some (Zpos (snd a), n)
  | Zneg n => Some (Zneg (snd a), n)
  end.
Definition xq_div (a b : xq) : option xq :=
  match xq_inv b with Some ib => Some (xq_mul a ib) | None => None end.
Definition xq_pow_pos (a : xq) (k : positive) : xq := (Z.pow_pos (fst a) k, Pos.pow (snd a) k).
Definition xq_pow (a : xq) (k : Z) : option xq :=
  match k with
  | Z0 => Some (1, 1%positive)
  | Zpos k' => Some (xq_pow_pos a k')
  | Zneg k' => xq_inv (xq_pow_pos a k')
  end.
Definition xq_sgn (a : xq) : Z := Z.sgn (fst a).
Definition xq_compare (a b : xq) : comparison := Z.compare (fst a * Zpos (snd b)) (fst b * Zpos (snd a)).
(* the integer a rational equals, if any *)
Definition xq_to_Z (a : xq) : option Z :=
  if Z.eqb (Z.modulo (fst a) (Zpos (snd a))) 0 then Some (Z.div (fst a) (Zpos (snd a))) else None.

(* ---------------------------------------------------------------- MPFR values *)
Inductive mpv := VNaN | VInf (neg : bool) | VFin (m e : Z).

Definition mp_of_xq (p : positive) (q : xq) : mpv :=
  let (m, e) := rnd_q p (fst q) (snd q) in let (m', e') := norm_dy m e in VFin m' e'.
Definition mp_rnd (p : positive) (m e : Z) : mpv := mp_of_xq p (xq_of_dy m e).
Definition mp_bool (b : bool) : mpv := if b then VFin 1 0 else VFin 0 0.

Definition mpv_eqb (a b : mpv) : bool :=
  match a, b with
  | VNaN, VNaN => true
  | VInf s, VInf t => Bool.eqb s t
  | VFin m e, VFin n f => Z.eqb m n && Z.eqb e f
  | _, _ => false
  end.

Definition is_zero (m : Z) : bool := Z.eqb m 0.
Definition neg_of (m : Z) : bool := Z.ltb m 0.

(* exponents above this bound are not modelled (exact powers get too large) *)
Definition POW_BOUND : Z := 64.

Section OPS.
Variable p : positive.        (* precision of the destination *)

Definition mp_add (a b : mpv) : option mpv :=
  match a, b with
  | VNaN, _ | _, VNaN => Some VNaN
  | VInf s, VInf t => Some (if Bool.eqb s t then VInf s else VNaN)
  | VInf s, _ | _, VInf s => Some (VInf s)
  | VFin m e, VFin n f => Some (mp_of_xq p (xq_add (xq_of_dy m e) (xq_of_dy n f)))
  end.
Definition mp_neg (a : mpv) : option mpv :=
  match a with
  | VNaN => Some VNaN
  | VInf s => Some (VInf (negb s))
  | VFin m e => Some (mp_of_xq p (xq_opp (xq_of_dy m e)))
  end.
Definition mp_sub (a b : mpv) : option mpv :=
  match a, b with
  | VNaN, _ | _, VNaN => Some VNaN
  | VInf s, VInf t => Some (if Bool.eqb s t then VNaN else VInf s)
  | VInf s, _ => Some (VInf s)
  | _, VInf s => Some (VInf (negb s))
  | VFin m e, VFin n f => Some (mp_of_xq p (xq_sub (xq_of_dy m e) (xq_of_dy n f)))
  end.
Definition mp_mul (a b : mpv) : option mpv :=
  match a, b with
  | VNaN, _ | _, VNaN => Some VNaN
  | VInf s, VInf t => Some (VInf (xorb s t))
  | VInf s, VFin m _ | VFin m _, VInf s => Some (if is_zero m then VNaN else VInf (xorb s (neg_of m)))
  | VFin m e, VFin n f => Some (mp_of_xq p (xq_mul (xq_of_dy m e) (xq_of_dy n f)))
  end.
(* x / 0 depends on the sign of the zero: not modelled *)
Definition mp_div (a b : mpv) : option mpv :=
  match a, b with
  | VNaN, _ | _, VNaN => Some VNaN
  | VInf _, VInf _ => Some VNaN
  | VFin _ _, VInf _ => Some (VFin 0 0)
  | VInf s, VFin n _ => if is_zero n then None else Some (VInf (xorb s (neg_of n)))
  | VFin m e, VFin n f =>
      match xq_div (xq_of_dy m e) (xq_of_dy n f) with
      | Some q => Some (mp_of_xq p q)
      | None => if is_zero m then Some VNaN else None
      end
  end.
(* mpfr_pow with an integer-valued exponent of moderate size (exact rational power, one rounding) *)
Definition mp_pow (a b : mpv) : option mpv :=
  match a, b with
  | VFin m e, VFin n f =>
      match xq_to_Z (xq_of_dy n f) with
      | Some k =>
          if Z.leb (Z.abs k) POW_BOUND then
            match xq_pow (xq_of_dy m e) k with
            | Some q => Some (mp_of_xq p q)
            | None => None
            end
          else None
      | None => None
      end
  | _, _ => None
  end.
Definition mp_cmp (a b : mpv) : option comparison :=
  match a, b with
  | VFin m e, VFin n f => Some (xq_compare (xq_of_dy m e) (xq_of_dy n f))
  | _, _ => None
  end.
Definition mp_max (a b : mpv) : option mpv :=
  match mp_cmp a b, a, b with
  | Some Lt, _, VFin n f => Some (mp_rnd p n f)
  | Some _, VFin m e, _ => Some (mp_rnd p m e)
  | _, _, _ => None
  end.
Definition mp_min (a b : mpv) : option mpv :=
  match mp_cmp a b, a, b with
  | Some Gt, _, VFin n f => Some (mp_rnd p n f)
  | Some _, VFin m e, _ => Some (mp_rnd p m e)
  | _, _, _ => None
  end.
Definition mp_abs (a : mpv) : option mpv :=
  match a with
  | VNaN => Some VNaN
  | VInf _ => Some (VInf false)
  | VFin m e => Some (mp_rnd p (Z.abs m) e)
  end.
Definition mp_rel (f : comparison -> bool) (a b : mpv) : option mpv :=
  match mp_cmp a b with Some c => Some (mp_bool (f c)) | None => None end.

(* ---- leaves ---- *)
Definition mp_of_Z (z : Z) : mpv := mp_rnd p z 0.
Definition mp_of_Q (n : Z) (d : positive) : mpv := mp_of_xq p (n, d).
(* the value of a binary64 bit pattern (exact) *)
Definition dbl_value (b : N) : mpv :=
  let bz := Z.of_N b in
  let s := Z.testbit bz 63 in
  let ex := Z.land (Z.shiftr bz 52) 2047 in
  let fr := Z.land bz (2 ^ 52 - 1) in
  if Z.eqb ex 2047 then (if Z.eqb fr 0 then VInf s else VNaN)
  else
    let m := if Z.eqb ex 0 then fr else fr + 2 ^ 52 in
    let e := if Z.eqb ex 0 then -1074 else ex - 1075 in
    VFin (if s then - m else m) e.
Definition mp_set (v : mpv) : mpv :=
  match v with VFin m e => mp_rnd p m e | _ => v end.
Definition mp_of_bits (b : N) : mpv := mp_set (dbl_value b).

(* ---- the oracle: results of MPFR calls the model cannot compute, supplied with the case.
        key = (kind, function code, arguments); kind 0 = constant, 1 = unary, 2 = binary ---- *)
Variable orc : list ((N * N * list mpv) * mpv).

Fixpoint list_mpv_eqb (a b : list mpv) : bool :=
  match a, b with
  | [], [] => true
  | x :: r, y :: s => mpv_eqb x y && list_mpv_eqb r s
  | _, _ => false
  end.
Fixpoint orc_find (l : list ((N * N * list mpv) * mpv)) (k c : N) (args : list mpv) : option mpv :=
  match l with
  | [] => None
  | ((k', c', a'), v) :: r =>
      if N.eqb k k' && N.eqb c c' && list_mpv_eqb args a' then Some v else orc_find r k c args
  end.

Definition mp_un (f : mfun) (x : mpv) : option mpv :=
  if negb (match x with VFin _ e => Z.leb (Z.abs e) 1200 | _ => true end) then None else
  match f with
  | MU UAbs => mp_abs x
  | _ => orc_find orc 1 (mfun_code f) [x]
  end.

Definition cmp_eq (c : comparison) : bool := match c with Eq => true | _ => false end.
Definition cmp_ne (c : comparison) : bool := match c with Eq => false | _ => true end.
Definition cmp_le (c : comparison) : bool := match c with Gt => false | _ => true end.
Definition cmp_lt (c : comparison) : bool := match c with Lt => true | _ => false end.

(* values whose exponent is far outside the binary64 range are not modelled (MPFR's exponent range is 2^62:
   the exact rationals the model computes with would have that many bits) *)
Definition EXP_BOUND : Z := 1200.
Definition small (v : mpv) : bool :=
  match v with VFin _ e => Z.leb (Z.abs e) EXP_BOUND | _ => true end.

Definition mp_bin (f : mbin) (x y : mpv) : option mpv :=
  if negb (small x && small y) then None else
  match f with
  | MB BAdd => mp_add x y
  | MB BMul => mp_mul x y
  | MB BDiv => mp_div x y
  | MSub => mp_sub x y
  | MB BPow =>
      match mp_pow x y with
      | Some v => Some v
      | None => orc_find orc 2 (mbin_code f) [x; y]
      end
  | MB BMax => mp_max x y
  | MB BMin => mp_min x y
  | MB BEq => mp_rel cmp_eq x y
  | MB BLe => mp_rel cmp_le x y
  | MB BLt => mp_rel cmp_lt x y
  | MLessGreater => mp_rel cmp_ne x y
  | _ => orc_find orc 2 (mbin_code f) [x; y]
  end.

Definition mp_true (v : mpv) : option bool :=
  match v with VFin m _ => Some (negb (is_zero m)) | _ => None end.

(* operands that are C constants (the 1 of mpfr_ui_div, the 5 of mpfr_sqrt_ui) are exact *)
Fixpoint minterp (t : mterm) (args : list mpv) : option mpv :=
  match t with
  | MArg i => nth_error args i
  | MLit L0 => Some (VFin 0 0)
  | MLit L1 => Some (VFin 1 0)
  | MLit _ => None
  | MUi n => Some (VFin (Z.of_N n) 0)
  | MConst k => orc_find orc 0 (mconst_code k) []
  | MUn f a => match minterp a args with Some x => mp_un f x | None => None end
  | MBin f a b =>
      match minterp a args, minterp b args with
      | Some x, Some y => mp_bin f x y
      | _, _ => None
      end
  | MIf c a b =>
      match minterp c args with
      | Some v => match mp_true v with
                  | Some true => minterp a args
                  | Some false => minterp b args
                  | None => None
                  end
      | None => None
      end
  end.

(* a formula's value is stored in result_ (precision p): literal results are representable *)
Definition mlift (o : option mpv) : res mpv :=
  match o with Some v => Ok v | None => ErrExn EXN_NOMODEL end.

Fixpoint mconst_find (nm : list N) (t : list (list N * mterm)) : option mterm :=
  match t with
  | [] => None
  | (n, f) :: r => if bytes_eqb n nm then Some f else mconst_find nm r
  end.

Definition mrule_of (tbl : list (N * mrule)) (e : expr) : mrule :=
  match lookup_mrule tbl (type_code e) with Some r => r | None => MRThrow EXN_NOTIMPL end.

Fixpoint mfold (ev : expr -> res mpv) (op : mbin) (acc_left : bool) (acc : mpv) (l : list expr) : res mpv :=
  match l with
  | [] => Ok acc
  | x :: r =>
      match ev x with
      | Ok v =>
          match (if acc_left then mp_bin op acc v else mp_bin op v acc) with
          | Some a => mfold ev op acc_left a r
          | None => ErrExn EXN_NOMODEL
          end
      | ErrOOB i n => ErrOOB i n | ErrFuel => ErrFuel | ErrExn c => ErrExn c
      end
  end.

(* EvalMPFRVisitor::apply(result (precision p), e) *)
Fixpoint meval (fuel : nat) (tbl : list (N * mrule)) (e : expr) {struct fuel} : res mpv :=
  match fuel with
  | O => ErrFuel
  | S fu =>
    let ev := meval fu tbl in
    match mrule_of tbl e with
    | MRLeafInt => match e with ENum (NInt z) => Ok (mp_of_Z z) | _ => ErrExn EXN_STD end
    | MRLeafRat => match e with ENum (NRat n d) => Ok (mp_of_Q n d) | _ => ErrExn EXN_STD end
    | MRLeafDbl => match e with ENum (NDbl b) => Ok (mp_of_bits b) | _ => ErrExn EXN_STD end
    | MRLeafMpfr => ErrExn EXN_NOMODEL
    | MRFormula sel t =>
        match mapM (fun i => match nth_child e i with Ok c => ev c | ErrOOB a b => ErrOOB a b | ErrFuel => ErrFuel | ErrExn c => ErrExn c end) sel with
        | Ok vs => mlift (minterp t vs)
        | ErrOOB a b => ErrOOB a b | ErrFuel => ErrFuel | ErrExn c => ErrExn c
        end
    | MRFoldFirst op acc_left =>
        match children e with
        | [] => ErrOOB 0 0
        | c0 :: rest =>
            match ev c0 with
            | Ok r => mfold ev op acc_left r rest
            | ErrOOB a b => ErrOOB a b | ErrFuel => ErrFuel | ErrExn c => ErrExn c
            end
        end
    | MRPow exp_first ecase gen =>
        match e with
        | EPow b x =>
            if is_E b then
              match ev x with
              | Ok xv => mlift (minterp ecase [xv])
              | ErrOOB a b' => ErrOOB a b' | ErrFuel => ErrFuel | ErrExn c => ErrExn c
              end
            else if exp_first then
              match ev x with
              | Ok xv => match ev b with
                         | Ok bv => mlift (minterp gen [bv; xv])
                         | ErrOOB a b' => ErrOOB a b' | ErrFuel => ErrFuel | ErrExn c => ErrExn c
                         end
              | ErrOOB a b' => ErrOOB a b' | ErrFuel => ErrFuel | ErrExn c => ErrExn c
              end
            else
              match ev b with
              | Ok bv => match ev x with
                         | Ok xv => mlift (minterp gen [bv; xv])
                         | ErrOOB a b' => ErrOOB a b' | ErrFuel => ErrFuel | ErrExn c => ErrExn c
                         end
              | ErrOOB a b' => ErrOOB a b' | ErrFuel => ErrFuel | ErrExn c => ErrExn c
              end
        | _ => ErrExn EXN_STD
        end
    | MRConstants t =>
        match e with
        | EConst nm => match mconst_find nm t with Some ft => mlift (minterp ft []) | None => ErrExn EXN_NOTIMPL end
        | _ => ErrExn EXN_STD
        end
    | MRRewrite => ErrExn EXN_NOMODEL
    | MRWrapper => ErrExn EXN_NOMODEL
    | MRPass => match nth_child e 0 with Ok c => ev c | ErrOOB a b => ErrOOB a b | ErrFuel => ErrFuel | ErrExn c => ErrExn c end
    | MRThrow c => ErrExn c
    end
  end.

End OPS.

(* evalf(b, bits, real): eval_mpfr at `bits` bits (bits > 53), MPFR_RNDN *)
Definition evalf_mpfr (tbl : list (N * mrule)) (orc : list ((N * N * list mpv) * mpv)) (bits : positive) (e : expr) : res mpv :=
  meval bits orc (eval_fuel e) tbl e.

(* ---------------------------------------------------------------- RealMPFR arithmetic *)
(* the operands of Number::add etc.; a RealMPFR is a precision and a value *)
Inductive opd :=
| DInt (z : Z)
| DRat (n : Z) (d : positive)
| DDbl (bits : N)
| DMpfr (prec : positive) (v : mpv)
| DCplx
| DCDbl.

Definition opd_kind (o : opd) : akind :=
  match o with
  | DInt _ => KInteger | DRat _ _ => KRational | DDbl _ => KRealDouble | DMpfr _ _ => KRealMPFR
  | DCplx => KComplex | DCDbl => KComplexDouble
  end.

(* the exact value of a finite operand *)
Definition xq_of_mpv (v : mpv) : option xq :=
  match v with VFin m e => Some (xq_of_dy m e) | _ => None end.
Definition opd_val (o : opd) : option xq :=
  match o with
  | DInt z => Some (z, 1%positive)
  | DRat n d => Some (n, d)
  | DDbl b => xq_of_mpv (dbl_value b)
  | DMpfr _ v => xq_of_mpv v
  | _ => None
  end.

Inductive ares :=
| AVal (prec : positive) (v : mpv)     (* a RealMPFR *)
| AExactZero                           (* the Integer 0 *)
| AExn (c : N)
| ANoModel.

Definition sel_prec (s : apsel) (ps : positive) (other : opd) : option positive :=
  match s, other with
  | PSelf, _ => Some ps
  | PMax, DMpfr po _ => Some (Pos.max ps po)
  | PMin, DMpfr po _ => Some (Pos.min ps po)
  | POther, DMpfr po _ => Some po
  | _, _ => None
  end.

Section ASTEP.
Variable pt : positive.      (* precision of t *)
Variables xs xo : xq.        (* exact values of this->i and of the other operand *)

Definition aopd_val (t : option xq) (a : aopd) : option xq :=
  match a with OSelf => Some xs | OOther => Some xo | OT => t end.

(* the exact real result of one MPFR call (None: not computed by the model) *)
Definition astep_exact (t : option xq) (s : astep) : option xq :=
  match s with
  | AAdd a b => match aopd_val t a, aopd_val t b with Some x, Some y => Some (xq_add x y) | _, _ => None end
  | ASub a b => match aopd_val t a, aopd_val t b with Some x, Some y => Some (xq_sub x y) | _, _ => None end
  | AMul a b => match aopd_val t a, aopd_val t b with Some x, Some y => Some (xq_mul x y) | _, _ => None end
  | ADiv a b => match aopd_val t a, aopd_val t b with Some x, Some y => xq_div x y | _, _ => None end
  | APow a b =>
      match aopd_val t a, aopd_val t b with
      | Some x, Some y =>
          match xq_to_Z y with
          | Some k => if Z.leb (Z.abs k) POW_BOUND then xq_pow x k else None
          | None => None
          end
      | _, _ => None
      end
  | APowSi a k => match aopd_val t a with Some x => xq_pow x k | None => None end
  | ANeg a => match aopd_val t a with Some x => Some (xq_opp x) | None => None end
  | ASet a => aopd_val t a
  end.

(* t after a step: the exact result rounded once to t's precision *)
Definition xq_of_rnd (q : xq) : xq := let (m, e) := rnd_q pt (fst q) (snd q) in xq_of_dy m e.

Fixpoint asteps (t : option xq) (l : list astep) : option xq :=
  match l with
  | [] => t
  | s :: r =>
      match astep_exact t s with
      | Some q => asteps (Some (xq_of_rnd q)) r
      | None => None
      end
  end.
End ASTEP.

Definition guard_fires (g : aguard) (xs xo : xq) : option ares :=
  match g with
  | GNone => None
  | GOtherZeroExact => if Z.eqb (fst xo) 0 then Some AExactZero else None
  | GSelfNegThrows => if Z.ltb (fst xs) 0 then Some (AExn EXN_SYMENGINE) else None
  | GOtherNegThrows => if Z.ltb (fst xo) 0 then Some (AExn EXN_SYMENGINE) else None
  end.

(* RealMPFR(ps, vs).<op>real(other) according to a rule *)
Definition arith_exec (r : arule) (ps : positive) (vs : mpv) (other : opd) : ares :=
  match r with
  | ARThrow c => AExn c
  | ARule g psel steps =>
      match xq_of_mpv vs, opd_val other with
      | Some xs, Some xo =>
          match guard_fires g xs xo with
          | Some a => a
          | None =>
              match sel_prec psel ps other with
              | Some pt =>
                  match asteps pt xs xo None steps with
                  | Some q => AVal pt (mp_of_xq pt q)
                  | None => ANoModel
                  end
              | None => ANoModel
              end
          end
      | _, _ => ANoModel
      end
  end.

Definition arith_run (tbl : list ((aop * akind) * arule)) (o : aop) (ps : positive) (vs : mpv) (other : opd) : ares :=
  match lookup_arule tbl o (opd_kind other) with
  | Some r => arith_exec r ps vs other
  | None => AExn EXN_NOTIMPL
  end.

(* a.add(b), a.sub(b), a.mul(b), a.div(b), a.pow(b) (o = OAdd, OSub, OMul, ODiv, OPow) when one operand is
   a RealMPFR: RealMPFR::<op> dispatches on the kind of b (real_mpfr.h); Integer/Rational/RealDouble::<op>
   call b.add(a) / b.rsub(a) / b.mul(a) / b.rdiv(a) / b.rpow(a) *)
Definition reversed (o : aop) : aop :=
  match o with OAdd => OAdd | OSub => ORsub | OMul => OMul | ODiv => ORdiv | OPow => ORpow | x => x end.
Definition num_op (tbl : list ((aop * akind) * arule)) (o : aop) (a b : opd) : ares :=
  match a, b with
  | DMpfr ps vs, _ => arith_run tbl o ps vs b
  | _, DMpfr ps vs => arith_run tbl (reversed o) ps vs a
  | _, _ => ANoModel
  end.

(* the correctly rounded result: the exact value of (a o b) rounded once to the larger precision *)
Definition exact_op (o : aop) (x y : xq) : option xq :=
  match o with
  | OAdd => Some (xq_add x y) | OSub => Some (xq_sub x y) | ORsub => Some (xq_sub y x)
  | OMul => Some (xq_mul x y) | ODiv => xq_div x y | ORdiv => xq_div y x
  | OPow => match xq_to_Z y with Some k => if Z.leb (Z.abs k) POW_BOUND then xq_pow x k else None | None => None end
  | ORpow => match xq_to_Z x with Some k => if Z.leb (Z.abs k) POW_BOUND then xq_pow y k else None | None => None end
  end.
Definition opd_prec (o : opd) : option positive := match o with DMpfr p _ => Some p | _ => None end.
Definition result_prec (ps : positive) (other : opd) : positive :=
  match other with DMpfr po _ => Pos.max ps po | _ => ps end.
Definition arith_ref (o : aop) (ps : positive) (vs : mpv) (other : opd) : option (positive * mpv) :=
  match xq_of_mpv vs, opd_val other with
  | Some xs, Some xo =>
      match exact_op o xs xo with
      | Some q => let pt := result_prec ps other in Some (pt, mp_of_xq pt q)
      | None => None
      end
  | _, _ => None
  end.
