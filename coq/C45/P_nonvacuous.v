From Coq Require Import ZArith NArith List Bool.
From SE Require Import Gen.TypeCodes C45.MpfrModel C45.Gen_MpfrRules C45.MpfrRun C45.MpfrArith C45.MpfrTable.
Import ListNotations.
Open Scope Z_scope.
(* 1/3 at 10 bits, 1/10 at 53 bits, ties to even (9 -> 8, 11 -> 12 at 3 bits; 3 -> 4 at 1 bit) *)
Example C45_nv_round :
  mp_of_xq 10 (1, 3%positive) = VFin 683 (-11) /\ mp_of_xq 53 (1, 10%positive) = VFin 3602879701896397 (-55) /\
  mp_rnd 3 9 0 = VFin 1 3 /\ mp_rnd 3 11 0 = VFin 3 2 /\ mp_rnd 1 3 0 = VFin 1 2.
Proof. vm_compute. repeat split. Qed.
(* RealMPFR(1, 10 bits) + 1/3; RealMPFR(1023, 10 bits) + RealMPFR(31/128, 5 bits) has 10 bits;
   the hypotheses of C45_mpfr_arith_correctly_rounded hold for them *)
Example C45_nv_arith :
  run_arith OAdd (DMpfr 10 (VFin 1 0)) (DRat 1 3) = AVal 10 (VFin 683 (-9)) /\
  run_arith OAdd (DMpfr 10 (VFin 1023 0)) (DMpfr 5 (VFin 31 (-7))) = AVal 10 (VFin 1023 0) /\
  run_arith OMul (DMpfr 10 (VFin 1 0)) (DInt 0) = AExactZero /\
  run_arith OPow (DMpfr 20 (VFin (-3) 0)) (DInt (-3)) = AVal 20 (VFin (-310689) (-23)) /\
  In (OAdd, KRational) single_rounding_pairs /\
  exact_op OAdd (1, 1%positive) (1, 3%positive) = Some (4, 3%positive) /\
  exp_bounded OPow (-3, 1%positive) (-3, 1%positive) = true.
Proof. vm_compute. repeat split; auto 10. Qed.
(* eval_mpfr at 100 bits of uneval(1/3) + uneval(1/7) and of 7^-2 * (1/3) at 64 bits *)
Example C45_nv_eval :
  run_eval 100 [] (EAdd (NInt 0) [(EF1 TC_UnevaluatedExpr (ENum (NRat 1 7)), NInt 1); (EF1 TC_UnevaluatedExpr (ENum (NRat 1 3)), NInt 1)])
  = Ok (VFin 75455392870727940565279952701 (-97)) /\
  run_eval 64 [] (ESym [120%N]) = ErrExn EXN_NOTIMPL.
Proof. vm_compute. split; reflexivity. Qed.
(* the specification table is not empty and every class of it has a formula *)
Example C45_nv_table : forallb (fun c => is_mformula (lookup_mrule mpfr_rules c)) mpfr_classes = true /\ length mpfr_classes = 37%nat.
Proof. split; vm_compute; reflexivity. Qed.
