From Coq Require Import Reals List NArith.
From SE Require Import Gen.TypeCodes Eval.EvalTerm Eval.EvalSpec Eval.Gen_EvalRules C45.MpfrTerm C45.Gen_MpfrRules C45.MpfrSpec C45.MpfrTable.
(* on the domain of every class with a direct specification the MPFR formula and the double formula,
   interpreted over the reals, compute the same number *)
Theorem C45_mpfr_agree_sem :
  forall (gamma_R erf_R erfc_R : R -> R) (gamma_inc_R : R -> R -> R) (euler_R catalan_R : R) (lit_other : lit -> R) c sp,
    In (c, sp) (spec_table gamma_R (lngamma_R gamma_R) erf_R erfc_R) ->
    same_on gamma_R erf_R erfc_R gamma_inc_R euler_R catalan_R lit_other sp
            (lookup_mrule mpfr_rules c) (lookup_rule visitor_rules c).
Proof. exact mpfr_agree_sem. Qed.
Print Assumptions C45_mpfr_agree_sem.
