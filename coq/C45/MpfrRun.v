(* C45 -- entry points of the extracted model.  No proofs here. *)
From Coq Require Import ZArith NArith List Bool.
From SE Require Import Expr.IO C45.MpfrModel C45.Gen_MpfrRules.
Import ListNotations.

(* evalf(e, bits, Real) for bits > 53 = eval_mpfr(result at `bits` bits, e, MPFR_RNDN) *)
Definition run_eval (bits : positive) (orc : list ((N * N * list mpv) * mpv)) (e : expr) : res mpv :=
  evalf_mpfr mpfr_rules orc bits e.

(* a.add(b) etc. on Number operands, one of them a RealMPFR *)
Definition run_arith (o : aop) (a b : opd) : ares := num_op mpfr_arith o a b.

(* the correctly rounded result of the same operation (None: outside the exact fragment) *)
Definition run_arith_ref (o : aop) (a b : opd) : option (positive * mpv) :=
  match a, b with
  | DMpfr ps vs, _ => arith_ref o ps vs b
  | _, DMpfr ps vs => arith_ref (reversed o) ps vs a
  | _, _ => None
  end.
