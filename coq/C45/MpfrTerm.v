(* C45 -- the formula language into which translators/tr_mpfrrules.py translates
   EvalMPFRVisitor::bvisit (eval_mpfr.cpp) and RealMPFR::<op>real (real_mpfr.cpp).
   It extends the term language of the EVAL slice (Eval/EvalTerm.v: ufun, bfun, lit) with the
   functions MPFR has natively (mpfr_sec, mpfr_coth, ...), subtraction, the incomplete gamma
   function, MPFR's constants and unsigned-long literals.  No proofs here. *)
From Coq Require Import List NArith ZArith Bool.
From SE Require Export Eval.EvalTerm.
Import ListNotations.

(* one-argument MPFR functions *)
Inductive mfun :=
| MU (f : ufun)          (* the function also used by the double evaluators (mpfr_sin = sin, ...) *)
| MSec | MCsc | MCot | MSech | MCsch | MCoth     (* native in MPFR *)
| MSqrt
| MLnGamma.              (* mpfr_lngamma: log(Gamma(x)), NaN where Gamma(x) < 0 (C's lgamma is log|Gamma|) *)

Inductive mbin :=
| MB (f : bfun)
| MSub
| MGammaInc              (* mpfr_gamma_inc(a, x): the upper incomplete gamma function *)
| MLessGreater.          (* mpfr_lessgreater_p: a < b or a > b (false when an operand is NaN) *)

Inductive mconst := KPi | KEuler | KCatalan.   (* mpfr_const_pi / _euler / _catalan *)

Inductive mterm :=
| MArg (i : nat)
| MLit (l : lit)                     (* 0 / 1 (mpfr_set_ui, the `1` of mpfr_ui_div) *)
| MUi (n : N)                        (* another unsigned long operand (mpfr_sqrt_ui(5), mpfr_div_ui(.., 2)) *)
| MConst (k : mconst)
| MUn (f : mfun) (a : mterm)
| MBin (f : mbin) (a b : mterm)
| MIf (c a b : mterm).

(* how one node class is evaluated by EvalMPFRVisitor *)
Inductive mrule :=
| MRLeafInt                          (* mpfr_set_z *)
| MRLeafRat                          (* mpfr_set_q *)
| MRLeafDbl                          (* mpfr_set_d *)
| MRLeafMpfr                         (* mpfr_set (from a RealMPFR of any precision) *)
| MRFormula (sel : list nat) (t : mterm)
    (* evaluate the children get_args()[i], i in sel, in this order; MArg k = k-th of them *)
| MRFoldFirst (op : mbin) (acc_left : bool)
    (* result = apply(args[0]); for the other args: t = apply(arg); result = result op t
       (acc_left = false: t op result) *)
| MRPow (exp_first : bool) (ecase gen : mterm)
    (* base == E: ecase [MArg 0 = exponent]; else gen [MArg 0 = base, MArg 1 = exponent];
       exp_first: in the general case the exponent is evaluated before the base *)
| MRConstants (tbl : list (list N * mterm))
| MRRewrite                          (* Beta: apply(x.rewrite_as_gamma()) *)
| MRWrapper                          (* NumberWrapper / FunctionWrapper: x.eval(prec) *)
| MRPass                             (* UnevaluatedExpr: apply(arg) *)
| MRThrow (cls : N).

(* ---- RealMPFR arithmetic (real_mpfr.cpp) ---- *)
Inductive aop := OAdd | OSub | ORsub | OMul | ODiv | ORdiv | OPow | ORpow.
Inductive akind := KInteger | KRational | KComplex | KRealDouble | KComplexDouble | KRealMPFR.

Inductive aguard :=
| GNone
| GOtherZeroExact        (* if (other.is_zero()) return zero;   -- the exact Integer 0 *)
| GSelfNegThrows         (* if (this < 0) throw SymEngineException (MPC needed) *)
| GOtherNegThrows.       (* if (other.is_negative()) throw SymEngineException *)

Inductive apsel := PSelf | PMax | PMin | POther.   (* precision of the result t *)

Inductive aopd := OSelf | OOther | OT.             (* this->i, the other operand (exact value), t *)

(* one MPFR call with destination t and rounding MPFR_RNDN *)
Inductive astep :=
| AAdd (a b : aopd) | ASub (a b : aopd) | AMul (a b : aopd) | ADiv (a b : aopd)
| APow (a b : aopd)                  (* mpfr_pow / mpfr_pow_z *)
| APowSi (a : aopd) (k : Z)          (* mpfr_pow_si *)
| ANeg (a : aopd)
| ASet (a : aopd).                   (* mpfr_set_z / _q / _d *)

Inductive arule :=
| ARule (g : aguard) (p : apsel) (steps : list astep)
| ARThrow (cls : N).

(* ---- decidable equality / lookup ---- *)
Definition aop_code (o : aop) : N :=
  match o with OAdd => 0 | OSub => 1 | ORsub => 2 | OMul => 3 | ODiv => 4 | ORdiv => 5 | OPow => 6 | ORpow => 7 end%N.
Definition akind_code (k : akind) : N :=
  match k with KInteger => 0 | KRational => 1 | KComplex => 2 | KRealDouble => 3 | KComplexDouble => 4 | KRealMPFR => 5 end%N.

Fixpoint lookup_arule (tbl : list ((aop * akind) * arule)) (o : aop) (k : akind) : option arule :=
  match tbl with
  | [] => None
  | ((o', k'), r) :: rest =>
      if N.eqb (aop_code o) (aop_code o') && N.eqb (akind_code k) (akind_code k') then Some r
      else lookup_arule rest o k
  end.

Fixpoint lookup_mrule (tbl : list (N * mrule)) (c : N) : option mrule :=
  match tbl with
  | [] => None
  | (k, r) :: rest => if N.eqb k c then Some r else lookup_mrule rest c
  end.

Definition mfun_code (f : mfun) : N :=
  match f with
  | MU u => ufun_code u
  | MSec => 100 | MCsc => 101 | MCot => 102 | MSech => 103 | MCsch => 104 | MCoth => 105
  | MSqrt => 106 | MLnGamma => 107
  end%N.
Definition mbin_code (f : mbin) : N :=
  match f with MB b => bfun_code b | MSub => 100 | MGammaInc => 101 | MLessGreater => 102 end%N.
Definition mconst_code (k : mconst) : N := match k with KPi => 0 | KEuler => 1 | KCatalan => 2 end%N.
