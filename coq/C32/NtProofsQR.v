(* C32 -- proofs, part 8: quadratic_residues returns the increasing list of the squares modulo a. *)
From SE Require Import C32.NtSpec.
From Coq Require Import Lia ZifyBool.
Local Open Scope Z_scope.
Local Open Scope res_scope.

Lemma in_squares_upto : forall cnt i a r,
  In r (squares_upto cnt i a) <-> exists j, i <= j < i + Z.of_nat cnt /\ r = Z.rem (j * j) a.
Proof.
  induction cnt as [|c IH]; intros i a r; cbn [squares_upto In].
  - split; [tauto|]. intros (j & Hj & _). lia.
  - rewrite IH. split.
    + intros [H|(j & Hj & Hr)]; [exists i; split; [lia|congruence]|exists j; split; [lia|assumption]].
    + intros (j & Hj & Hr). destruct (Z.eq_dec j i) as [->|]; [left; congruence|right].
      exists j. split; [lia|assumption].
Qed.

Lemma in_insert_sorted x y l : In y (insert_sorted x l) <-> y = x \/ In y l.
Proof.
  induction l as [|z l IH]; cbn [insert_sorted In].
  - split; intros [H|H]; auto.
  - destruct (x <=? z); cbn [In]; [split; intros [H|H]; auto|].
    rewrite IH. tauto.
Qed.

Lemma in_sort_z y l : In y (sort_z l) <-> In y l.
Proof.
  induction l as [|x l IH]; cbn [sort_z fold_right In]; [tauto|].
  change (fold_right insert_sorted [] l) with (sort_z l).
  rewrite in_insert_sorted, IH. split; intros [H|H]; auto.
Qed.

Lemma insert_sorted_nd x l : nondecreasing l -> nondecreasing (insert_sorted x l).
Proof.
  induction 1 as [|y|y z l Hyz Hnd IH]; cbn [insert_sorted].
  - constructor.
  - destruct (x <=? y) eqn:E; constructor; try constructor; lia.
  - destruct (x <=? y) eqn:E.
    + constructor; [lia|]. constructor; assumption.
    + cbn [insert_sorted] in IH. destruct (x <=? z) eqn:E2.
      * constructor; [lia|]. exact IH.
      * constructor; [assumption|exact IH].
Qed.

Lemma sort_z_nd l : nondecreasing (sort_z l).
Proof.
  induction l as [|x l IH]; [constructor|].
  cbn [sort_z fold_right]. apply insert_sorted_nd. exact IH.
Qed.

Lemma unique_adj_hd : forall r y, exists t, unique_adj (y :: r) = y :: t.
Proof.
  induction r as [|z r IH]; intros y.
  - eexists; reflexivity.
  - change (unique_adj (y :: z :: r)) with (if y =? z then unique_adj (z :: r) else y :: unique_adj (z :: r)).
    destruct (y =? z) eqn:E.
    + destruct (IH z) as (t & Ht). exists t. rewrite Ht. f_equal. lia.
    + eexists; reflexivity.
Qed.

Lemma in_unique_adj y l : In y (unique_adj l) <-> In y l.
Proof.
  induction l as [|x [|z r] IH]; [tauto|cbn; tauto|].
  change (unique_adj (x :: z :: r)) with (if x =? z then unique_adj (z :: r) else x :: unique_adj (z :: r)).
  destruct (x =? z) eqn:E.
  - rewrite IH. cbn [In]. split; [tauto|]. intros [H|H]; [left; lia|assumption].
  - cbn [In] in *. rewrite IH. tauto.
Qed.

Lemma unique_adj_increasing l : nondecreasing l -> increasing (unique_adj l).
Proof.
  induction 1 as [|y|y z l Hyz Hnd IH].
  - constructor.
  - constructor.
  - change (unique_adj (y :: z :: l)) with (if y =? z then unique_adj (z :: l) else y :: unique_adj (z :: l)).
    destruct (y =? z) eqn:E; [exact IH|].
    destruct (unique_adj_hd l z) as (t & Ht). rewrite Ht in *.
    constructor; [lia|exact IH].
Qed.

Theorem quadratic_residues_correct a :
  1 <= a <= LONG_MAX ->
  exists l, nt_quadratic_residues a = Ok l /\ increasing l /\
            forall r, In r l <-> exists x, 0 <= x < a /\ r = (x * x) mod a.
Proof.
  intros Ha. unfold nt_quadratic_residues.
  destruct (a <? 1) eqn:E1; [lia|]. destruct (LONG_MAX <? a) eqn:E2; [lia|].
  eexists. split; [reflexivity|]. split.
  - apply unique_adj_increasing, sort_z_nd.
  - intros r. rewrite in_unique_adj, in_sort_z, in_squares_upto.
    set (h := Z.quot a 2).
    assert (Hh : 0 <= h /\ a <= 2 * h + 1 /\ 2 * h <= a).
    { unfold h. pose proof (Z.quot_rem' a 2). pose proof (Z.rem_bound_pos a 2). lia. }
    rewrite Nat2Z.inj_succ, Z2Nat.id by lia.
    split.
    + intros (j & Hj & Hr). exists j. split; [lia|].
      rewrite Hr. apply Z.rem_mod_nonneg; nia.
    + intros (x & Hx & Hr). destruct (Z.le_gt_cases x h) as [Hxh|Hxh].
      * exists x. split; [lia|]. rewrite Hr. symmetry. apply Z.rem_mod_nonneg; nia.
      * exists (a - x). split; [lia|]. rewrite Hr.
        rewrite Z.rem_mod_nonneg by nia.
        replace ((a - x) * (a - x)) with (x * x + (a - 2 * x) * a) by ring.
        rewrite Z.mod_add by lia. reflexivity.
Qed.

Theorem quadratic_residues_domain a : a < 1 -> nt_quadratic_residues a = ErrExn EXN_SYMENGINE.
Proof. intros H. unfold nt_quadratic_residues. destruct (a <? 1) eqn:E; [reflexivity|lia]. Qed.
