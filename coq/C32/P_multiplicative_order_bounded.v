(* C32 obligation: multiplicative_order(a, n) is the least k > 0 with a^k = 1 (mod |n|) when gcd(a, n) = 1 and `false` otherwise, for all |a| <= 30, 1 <= |n| <= 60, in both configurations (complete evaluation) *)
From SE Require Import C32.NtBrute C32.NtBounded.
Local Open Scope Z_scope.
Theorem C32_multiplicative_order_bounded :
  forallb (fun n => forallb (order_check n) (zrange (-30) 30)) (nonzero_range 60) = true.
Proof. exact multiplicative_order_bounded. Qed.
Print Assumptions C32_multiplicative_order_bounded.
