(* C32 obligation: fibonacci, fibonacci2, lucas, lucas2 (2x2 matrix powers by repeated squaring in mp_boost.cpp) follow the recurrences F(n+2) = F(n) + F(n+1), L(n+2) = L(n) + L(n+1) *)
From SE Require Import C32.NtSpec C32.NtProofsComb.
Local Open Scope Z_scope.
Theorem C32_fibonacci_lucas :
  forall n : Z, 0 <= n ->
  nt_fibonacci n = fib (Z.to_nat n) /\
  nt_fibonacci2 n = (fib (Z.to_nat n), fib (S (Z.to_nat n)) - fib (Z.to_nat n)) /\
  nt_lucas n = lucas (Z.to_nat n) /\
  (1 <= n -> nt_lucas2 n = Ok (lucas (Z.to_nat n), lucas (Z.to_nat (n - 1)))) /\
  (n = 0 -> nt_lucas2 n = Ok (2, -1)).
Proof. exact fibonacci_lucas_correct. Qed.
Print Assumptions C32_fibonacci_lucas.
