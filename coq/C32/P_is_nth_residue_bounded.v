(* C32 obligation: guarded by a >= 0: is_nth_residue(a, k, m) says whether a is a k-th power modulo |m|, for all 0 <= a <= 50, 1 <= k <= 6, 1 <= |m| <= 40 (complete evaluation) *)
From SE Require Import C32.NtBrute C32.NtBounded.
Local Open Scope Z_scope.
Theorem C32_is_nth_residue_bounded :
  forallb (fun m => forallb (fun k => forallb (nth_residue_check m k) (zrange 0 50)) (zrange 1 6))
          (nonzero_range 40) = true.
Proof. exact is_nth_residue_bounded. Qed.
Print Assumptions C32_is_nth_residue_bounded.
