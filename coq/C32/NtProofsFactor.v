(* C32 -- proofs, part 6: trial-division factorisation (prime_factor_multiplicities,
   prime_factors, factor_trial_division) returns the prime factorisation. *)
From SE Require Import C32.NtSpec.
From Coq Require Import Lia ZifyBool.
Local Open Scope Z_scope.
Local Open Scope res_scope.

(* ------------------------------------------------------------------ *)
(** * the primality test by trial division *)

Lemma rem_zero_divide n e : e <> 0 -> (Z.rem n e = 0 <-> (e | n)).
Proof. intros. apply Z.rem_divide. assumption. Qed.

Lemma sq_le_mono a b : 0 <= a <= b -> a * a <= b * b.
Proof. intros. apply Z.mul_le_mono_nonneg; lia. Qed.

Lemma no_divisor_true : forall cnt d n,
  2 <= d -> n < (d + Z.of_nat cnt) * (d + Z.of_nat cnt) ->
  no_divisor cnt d n = true ->
  forall e, d <= e -> e * e <= n -> ~ (e | n).
Proof.
  induction cnt as [|c IH]; intros d n Hd Hb Ht e He Hee.
  - change (Z.of_nat 0) with 0 in Hb. rewrite Z.add_0_r in Hb.
    pose proof (sq_le_mono d e). lia.
  - cbn [no_divisor] in Ht.
    destruct (n <? d * d) eqn:E1.
    + pose proof (sq_le_mono d e). lia.
    + destruct (Z.rem n d =? 0) eqn:E2; [discriminate|].
      destruct (Z.eq_dec e d) as [->|Hne].
      * intros Hdiv. apply rem_zero_divide in Hdiv; lia.
      * apply (IH (d + 1) n); [lia| |exact Ht|lia|exact Hee].
        replace (d + 1 + Z.of_nat c) with (d + Z.of_nat (S c)) by lia. exact Hb.
Qed.

Lemma no_divisor_false : forall cnt d n,
  2 <= d -> no_divisor cnt d n = false ->
  exists e, d <= e /\ e * e <= n /\ (e | n).
Proof.
  induction cnt as [|c IH]; intros d n Hd Hf; cbn [no_divisor] in Hf; [discriminate|].
  destruct (n <? d * d) eqn:E1; [discriminate|].
  destruct (Z.rem n d =? 0) eqn:E2.
  - exists d. split; [lia|]. split; [lia|]. apply rem_zero_divide; lia.
  - destruct (IH (d + 1) n ltac:(lia) Hf) as (e & H1 & H2 & H3).
    exists e. split; [lia|]. split; assumption.
Qed.

Lemma no_small_divisor_prime n :
  2 <= n -> (forall e, 2 <= e -> e * e <= n -> ~ (e | n)) -> prime n.
Proof.
  intros Hn H. apply prime_alt. split; [lia|].
  intros k Hk (j & Hj).
  assert (Hj1 : 1 < j) by nia.
  destruct (Z.le_gt_cases (k * k) n) as [Hkk|Hkk].
  - apply (H k); [lia|assumption|]. exists j. exact Hj.
  - assert (Hjk : j < k) by (apply (Z.mul_lt_mono_pos_r k); lia).
    assert (j * j <= j * k) by (apply Z.mul_le_mono_nonneg_l; lia).
    apply (H j); [lia|lia|]. exists k. lia.
Qed.

Lemma is_prime_true n : is_prime n = true -> prime n.
Proof.
  unfold is_prime. destruct (n <? 2) eqn:E; [discriminate|]. intros H.
  apply no_small_divisor_prime; [lia|].
  apply (no_divisor_true (Z.to_nat (Z.sqrt n)) 2 n); [lia| |exact H].
  rewrite Z2Nat.id by apply Z.sqrt_nonneg.
  pose proof (Z.sqrt_spec n ltac:(lia)) as Hs. unfold Z.succ in Hs.
  pose proof (Z.sqrt_nonneg n).
  assert ((Z.sqrt n + 1) * (Z.sqrt n + 1) <= (2 + Z.sqrt n) * (2 + Z.sqrt n)) by (apply sq_le_mono; lia).
  lia.
Qed.

Lemma is_prime_false n :
  2 <= n -> is_prime n = false -> exists e, 2 <= e < n /\ (e | n).
Proof.
  unfold is_prime. intros Hn. destruct (n <? 2) eqn:E; [lia|]. intros H.
  destruct (no_divisor_false (Z.to_nat (Z.sqrt n)) 2 n ltac:(lia) H) as (e & H1 & H2 & H3).
  exists e. split; [nia|assumption].
Qed.

Lemma is_prime_iff n : is_prime n = true <-> prime n.
Proof.
  split; [apply is_prime_true|]. intros Hp.
  destruct (is_prime n) eqn:E; [reflexivity|exfalso].
  pose proof (prime_ge_2 _ Hp).
  destruct (is_prime_false n ltac:(lia) E) as (e & He & Hd).
  apply prime_alt in Hp. destruct Hp as [_ Hp]. apply (Hp e); [lia|assumption].
Qed.

(* ------------------------------------------------------------------ *)
(** * dividing out a prime *)

Lemma divide_out_spec : forall fuel n p cnt,
  2 <= p -> 0 < n -> n < 2 ^ Z.of_nat fuel ->
  exists k, 0 <= k /\ divide_out fuel n p cnt = (Z.quot n (p ^ k), cnt + k) /\
            n = Z.quot n (p ^ k) * p ^ k /\ 0 < Z.quot n (p ^ k) /\ ~ (p | Z.quot n (p ^ k)).
Proof.
  induction fuel as [|f IH]; intros n p cnt Hp Hn Hb.
  - change (2 ^ Z.of_nat 0) with 1 in Hb. lia.
  - cbn [divide_out]. destruct (Z.rem n p =? 0) eqn:E.
    + assert (Hd : (p | n)) by (apply rem_zero_divide; lia).
      destruct Hd as (q & Hq).
      assert (Eq : Z.quot n p = q) by (rewrite Hq; apply Z.quot_mul; lia).
      rewrite Eq.
      assert (Hq0 : 0 < q) by nia.
      assert (Hqb : q < 2 ^ Z.of_nat f).
      { rewrite Nat2Z.inj_succ, Z.pow_succ_r in Hb by lia. nia. }
      destruct (IH q p (cnt + 1) Hp Hq0 Hqb) as (k & Hk & E1 & E2 & E3 & E4).
      exists (k + 1). split; [lia|].
      assert (Epow : Z.quot n (p ^ (k + 1)) = Z.quot q (p ^ k)).
      { rewrite Z.pow_add_r, Z.pow_1_r by lia. rewrite Hq.
        rewrite Z.quot_mul_cancel_r; [reflexivity| |lia].
        pose proof (Z.pow_pos_nonneg p k). lia. }
      rewrite Epow. split; [rewrite E1; f_equal; lia|].
      split; [|split; assumption].
      rewrite Z.pow_add_r, Z.pow_1_r by lia. rewrite Hq. rewrite E2 at 1. ring.
    + exists 0. rewrite Z.pow_0_r, Z.quot_1_r. split; [lia|].
      split; [f_equal; lia|]. split; [ring|]. split; [assumption|].
      intros Hd. apply rem_zero_divide in Hd; lia.
Qed.

Lemma divide_out_fuel_ok n : 0 < n -> n < 2 ^ Z.of_nat (divide_out_fuel n).
Proof.
  intros Hn. unfold divide_out_fuel. rewrite Nat2Z.inj_succ.
  rewrite Z2Nat.id by apply Z.log2_nonneg.
  pose proof (Z.log2_spec n Hn). lia.
Qed.

(* ------------------------------------------------------------------ *)
(** * lists of prime powers *)

Lemma prod_pe_app l1 l2 : prod_pe (l1 ++ l2) = prod_pe l1 * prod_pe l2.
Proof.
  induction l1 as [|x l IH]; cbn [app]; unfold prod_pe in *; cbn [fold_right].
  - ring.
  - rewrite IH. ring.
Qed.

Lemma map_insert_last k v l :
  Forall (fun pe => fst pe < k) l -> map_insert k v l = l ++ [(k, v)].
Proof.
  induction l as [|[k' v'] l IH]; intros H; cbn [map_insert app]; [reflexivity|].
  pose proof (Forall_inv H) as H1. cbn in H1.
  destruct (k <? k') eqn:E1; [lia|]. destruct (k =? k') eqn:E2; [lia|].
  rewrite IH by (eapply Forall_inv_tail; eassumption). reflexivity.
Qed.

Lemma increasing_snoc l x :
  increasing l -> Forall (fun y => y < x) l -> increasing (l ++ [x]).
Proof.
  induction 1 as [|y|y z l Hyz Hinc IH]; intros Hall; cbn [app].
  - constructor.
  - constructor; [exact (Forall_inv Hall)|constructor].
  - constructor; [assumption|]. apply IH. eapply Forall_inv_tail; eassumption.
Qed.

(* ------------------------------------------------------------------ *)
(** * the loop of prime_factor_multiplicities *)

Definition pf_inv (N p n' : Z) (acc : list (Z * Z)) : Prop :=
  0 < n' /\ prod_pe acc * n' = N /\
  (forall d, 2 <= d < p -> ~ (d | n')) /\
  Forall (fun pe => prime (fst pe) /\ 1 <= snd pe /\ fst pe < p) acc /\
  increasing (map fst acc).

Lemma pf_inv_next N p n' acc :
  2 <= p -> pf_inv N p n' acc -> ~ (p | n') -> pf_inv N (p + 1) n' acc.
Proof.
  intros Hp (H1 & H2 & H3 & H4 & H5) Hnd. unfold pf_inv.
  split; [assumption|]. split; [assumption|]. split; [|split; [|assumption]].
  - intros d Hd. destruct (Z.eq_dec d p) as [->|]; [assumption|apply H3; lia].
  - eapply Forall_impl; [|exact H4]. cbn. intros pe (?&?&?). split; [assumption|split; [assumption|lia]].
Qed.

Lemma pf_inv_add N p n' acc k :
  2 <= p -> prime p -> 1 <= k -> pf_inv N p n' acc ->
  n' = Z.quot n' (p ^ k) * p ^ k -> 0 < Z.quot n' (p ^ k) -> ~ (p | Z.quot n' (p ^ k)) ->
  pf_inv N (p + 1) (Z.quot n' (p ^ k)) (acc ++ [(p, k)]).
Proof.
  intros Hp Hpr Hk (H1 & H2 & H3 & H4 & H5) E Hq Hnd. set (q := Z.quot n' (p ^ k)) in *.
  unfold pf_inv. split; [assumption|]. split; [|split; [|split]].
  - rewrite prod_pe_app. unfold prod_pe at 2. cbn [fold_right fst snd]. rewrite <- H2.
    transitivity (prod_pe acc * (q * p ^ k)); [ring|]. rewrite <- E. reflexivity.
  - intros d Hd. destruct (Z.eq_dec d p) as [->|]; [assumption|].
    intros Hdq. apply (H3 d); [lia|]. rewrite E. apply Z.divide_mul_l. assumption.
  - apply Forall_app. split.
    + eapply Forall_impl; [|exact H4]. cbn. intros pe (?&?&?). split; [assumption|split; [assumption|lia]].
    + constructor; [|constructor]. cbn. split; [assumption|split; lia].
  - rewrite map_app. cbn [map fst]. apply increasing_snoc; [assumption|].
    rewrite Forall_map. eapply Forall_impl; [|exact H4]. cbn. intros pe (?&?&?). assumption.
Qed.

Lemma pfm_loop_spec N limit : forall cnt p n' acc,
  2 <= p -> pf_inv N p n' acc -> limit + 2 <= p + Z.of_nat cnt ->
  exists p', p <= p' /\ pf_inv N p' (fst (pfm_loop cnt p limit n' acc)) (snd (pfm_loop cnt p limit n' acc)) /\
             (fst (pfm_loop cnt p limit n' acc) = 1 \/ limit < p').
Proof.
  induction cnt as [|c IH]; intros p n' acc Hp Hinv Hc; cbn [pfm_loop].
  - exists p. cbn [fst snd]. split; [lia|]. split; [assumption|]. right. lia.
  - destruct (limit <? p) eqn:E1.
    { exists p. cbn [fst snd]. split; [lia|]. split; [assumption|]. right. lia. }
    destruct (is_prime p) eqn:E2.
    + apply is_prime_true in E2.
      pose proof Hinv as (Hn' & _).
      destruct (divide_out_spec (divide_out_fuel n') n' p 0 Hp Hn' (divide_out_fuel_ok n' Hn'))
        as (k & Hk & Ed & E3 & E4 & E5).
      rewrite Ed. rewrite Z.add_0_l.
      destruct (0 <? k) eqn:E6.
      * assert (Hall : Forall (fun pe => fst pe < p) acc).
        { destruct Hinv as (_ & _ & _ & H4 & _). eapply Forall_impl; [|exact H4]. cbn. intros pe (?&?&?). assumption. }
        rewrite map_insert_last by assumption.
        pose proof (pf_inv_add N p n' acc k Hp E2 ltac:(lia) Hinv E3 E4 E5) as Hinv'.
        destruct (Z.quot n' (p ^ k) =? 1) eqn:E7.
        -- exists (p + 1). cbn [fst snd]. split; [lia|]. split; [assumption|]. left. lia.
        -- destruct (IH (p + 1) _ _ ltac:(lia) Hinv' ltac:(lia)) as (p' & Hp' & Hi & Hr).
           exists p'. split; [lia|]. split; assumption.
      * assert (k = 0) by lia. subst k. rewrite Z.pow_0_r, Z.quot_1_r in *.
        destruct (IH (p + 1) n' acc ltac:(lia) (pf_inv_next _ _ _ _ Hp Hinv E5) ltac:(lia)) as (p' & Hp' & Hi & Hr).
        exists p'. split; [lia|]. split; assumption.
    + assert (Hnd : ~ (p | n')).
      { destruct (is_prime_false p Hp E2) as (e & He & Hd). intros Hpn.
        destruct Hinv as (_ & _ & H3 & _). apply (H3 e); [lia|]. eapply Z.divide_trans; eassumption. }
      destruct (IH (p + 1) n' acc ltac:(lia) (pf_inv_next _ _ _ _ Hp Hinv Hnd) ltac:(lia)) as (p' & Hp' & Hi & Hr).
      exists p'. split; [lia|]. split; assumption.
Qed.

Lemma prod_pe_pos acc :
  Forall (fun pe : Z * Z => prime (fst pe) /\ 1 <= snd pe) acc -> 1 <= prod_pe acc.
Proof.
  induction acc as [|[p e] l IH]; intros H; unfold prod_pe in *; cbn [fold_right fst snd]; [lia|].
  pose proof (Forall_inv H) as (Hp & He). cbn in Hp, He.
  specialize (IH (Forall_inv_tail H)). pose proof (prime_ge_2 _ Hp).
  assert (1 <= p ^ e) by (pose proof (Z.pow_pos_nonneg p e); lia). nia.
Qed.

Theorem factorisation_correct n :
  n <> 0 -> Z.sqrt (Z.abs n) <= UINT_MAX ->
  exists l, nt_prime_factor_multiplicities n = Ok l /\ is_factorisation n l.
Proof.
  intros Hn Hlim. unfold nt_prime_factor_multiplicities, sieve_limit.
  destruct (n =? 0) eqn:E0; [lia|].
  destruct (UINT_MAX <? Z.sqrt (Z.abs n)) eqn:E1; [lia|]. cbn [bind].
  set (N := Z.abs n). set (limit := Z.sqrt N).
  assert (HN : 0 < N) by (unfold N; lia).
  assert (Hinv0 : pf_inv N 2 N []).
  { unfold pf_inv. split; [assumption|]. split; [unfold prod_pe; cbn [fold_right]; ring|].
    split; [intros d Hd; lia|]. split; constructor. }
  destruct (pfm_loop_spec N limit (Z.to_nat limit) 2 N [] ltac:(lia) Hinv0) as (p' & Hp' & Hi & Hr).
  { rewrite Z2Nat.id by apply Z.sqrt_nonneg. lia. }
  destruct (pfm_loop (Z.to_nat limit) 2 limit N []) as [n' l]. cbn [fst snd] in *.
  destruct Hi as (H1 & H2 & H3 & H4 & H5).
  assert (H4' : Forall (fun pe : Z * Z => prime (fst pe) /\ 1 <= snd pe) l).
  { eapply Forall_impl; [|exact H4]. cbn. intros pe (?&?&?). split; assumption. }
  destruct (n' =? 1) eqn:E2.
  - exists l. split; [reflexivity|]. unfold is_factorisation. split; [assumption|]. split; [assumption|].
    fold N. rewrite <- H2. assert (n' = 1) by lia. subst n'. ring.
  - destruct Hr as [Hr|Hr]; [lia|].
    assert (Hn2 : 2 <= n') by lia.
    pose proof (prod_pe_pos l H4') as Hpos.
    assert (HnN : n' <= N) by nia.
    assert (Hprime : prime n').
    { apply no_small_divisor_prime; [assumption|]. intros e He Hee. apply H3.
      assert (e <= limit).
      { unfold limit. apply Z.sqrt_le_square; lia. }
      lia. }
    assert (Hge : p' <= n').
    { destruct (Z.le_gt_cases p' n'); [assumption|exfalso]. apply (H3 n'); [lia|apply Z.divide_refl]. }
    assert (Hall : Forall (fun pe => fst pe < n') l).
    { eapply Forall_impl; [|exact H4]. cbn. intros pe (?&?&?). lia. }
    rewrite map_insert_last by assumption.
    exists (l ++ [(n', 1)]). split; [reflexivity|]. unfold is_factorisation. split; [|split].
    + apply Forall_app. split; [assumption|]. constructor; [|constructor]. cbn. split; [assumption|lia].
    + rewrite map_app. cbn [map fst]. apply increasing_snoc; [assumption|].
      rewrite Forall_map. exact Hall.
    + rewrite prod_pe_app. unfold prod_pe at 2. cbn [fold_right fst snd]. fold N. rewrite <- H2.
      rewrite Z.pow_1_r. ring.
Qed.

Theorem factorisation_exceptions n :
  (n = 0 -> nt_prime_factor_multiplicities n = Ok []) /\
  (n <> 0 -> UINT_MAX < Z.sqrt (Z.abs n) -> nt_prime_factor_multiplicities n = ErrExn EXN_SYMENGINE).
Proof.
  unfold nt_prime_factor_multiplicities, sieve_limit. split.
  - intros ->. reflexivity.
  - intros Hn Hb. destruct (n =? 0) eqn:E; [lia|].
    destruct (UINT_MAX <? Z.sqrt (Z.abs n)) eqn:E1; [reflexivity|lia].
Qed.
