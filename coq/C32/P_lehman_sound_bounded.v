(* C32 obligation: guarded (soundness only): a factor reported by factor_lehman_method is a proper divisor, for every 21 <= n <= 2000 (complete evaluation) *)
From SE Require Import C32.NtBrute C32.NtBounded.
Local Open Scope Z_scope.
Theorem C32_lehman_sound_bounded :
  forallb lehman_check (zrange 21 2000) = true.
Proof. exact lehman_sound_bounded. Qed.
Print Assumptions C32_lehman_sound_bounded.
