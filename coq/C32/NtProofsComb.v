(* C32 -- proofs, part 5: factorial, binomial coefficients (including negative upper argument),
   Fibonacci and Lucas numbers (2x2 matrix powers by repeated squaring). *)
From SE Require Import C32.NtSpec.
From Coq Require Import Lia ZifyBool.
Local Open Scope Z_scope.

(* ------------------------------------------------------------------ *)
(** * factorial *)

Lemma zfact_pos k : 0 < zfact k.
Proof. induction k; cbn [zfact]; lia. Qed.

Lemma fac_loop_spec : forall cnt k,
  fac_loop cnt (Z.of_nat (S k)) (zfact k) = zfact (k + cnt).
Proof.
  induction cnt as [|c IH]; intros k; cbn [fac_loop].
  - rewrite Nat.add_0_r. reflexivity.
  - replace (Z.of_nat (S k) + 1) with (Z.of_nat (S (S k))) by lia.
    change (zfact k * Z.of_nat (S k)) with (zfact (S k)).
    rewrite IH. f_equal. lia.
Qed.

Theorem factorial_correct n : 0 <= n -> nt_factorial n = zfact (Z.to_nat n).
Proof.
  intros Hn. unfold nt_factorial, mp_fac.
  destruct (Z.eq_dec n 0) as [->|Hn0]; [reflexivity|].
  change 2 with (Z.of_nat 2). change 1 with (zfact 1) at 2.
  rewrite fac_loop_spec. f_equal. lia.
Qed.

(* ------------------------------------------------------------------ *)
(** * binomial *)

Lemma ffact_shift y k : ffact (y + 1) (S k) = (y + 1) * ffact y k.
Proof.
  induction k as [|k IH].
  - cbn [ffact]. change (Z.of_nat 0) with 0. ring.
  - change (ffact (y + 1) (S (S k))) with (ffact (y + 1) (S k) * (y + 1 - Z.of_nat (S k))).
    rewrite IH. cbn [ffact]. rewrite Nat2Z.inj_succ. ring.
Qed.

Lemma ffact_diff y k : ffact (y + 1) (S k) = ffact y (S k) + Z.of_nat (S k) * ffact y k.
Proof. rewrite ffact_shift. cbn [ffact]. rewrite Nat2Z.inj_succ. ring. Qed.

Lemma ffact_0 k : ffact 0 (S k) = 0.
Proof.
  induction k as [|k IH]; [reflexivity|].
  change (ffact 0 (S (S k))) with (ffact 0 (S k) * (0 - Z.of_nat (S k))).
  rewrite IH. reflexivity.
Qed.

(* the product of k consecutive integers is divisible by k! *)
Lemma zfact_divides_ffact : forall k y, (zfact k | ffact y k).
Proof.
  induction k as [|k IH]; intros y.
  - cbn. apply Z.divide_1_l.
  - assert (Hstep : forall z, (zfact (S k) | Z.of_nat (S k) * ffact z k)).
    { intros z. destruct (IH z) as (c & Hc). exists c. rewrite Hc. cbn [zfact]. ring. }
    assert (Hup : forall n : nat, (zfact (S k) | ffact (Z.of_nat n) (S k))).
    { induction n as [|n IHn].
      - exists 0. change (Z.of_nat 0) with 0. rewrite ffact_0. reflexivity.
      - rewrite Nat2Z.inj_succ, <- Z.add_1_r, ffact_diff.
        apply Z.divide_add_r; [exact IHn|apply Hstep]. }
    assert (Hdown : forall n : nat, (zfact (S k) | ffact (- Z.of_nat n) (S k))).
    { induction n as [|n IHn].
      - exact (Hup O).
      - pose proof (ffact_diff (- Z.of_nat (S n)) k) as Hd.
        replace (- Z.of_nat (S n) + 1) with (- Z.of_nat n) in Hd by lia.
        replace (ffact (- Z.of_nat (S n)) (S k))
          with (ffact (- Z.of_nat n) (S k) - Z.of_nat (S k) * ffact (- Z.of_nat (S n)) k) by lia.
        apply Z.divide_sub_r; [exact IHn|apply Hstep]. }
    destruct (Z.le_gt_cases 0 y).
    + rewrite <- (Z2Nat.id y) by assumption. apply Hup.
    + replace y with (- Z.of_nat (Z.to_nat (- y))) by lia. apply Hdown.
Qed.

Lemma bin_loop_spec : forall cnt j x res,
  res * zfact j = ffact (x + Z.of_nat j) j ->
  bin_loop cnt (Z.of_nat (S j)) x res * zfact (j + cnt)
  = ffact (x + Z.of_nat (j + cnt)) (j + cnt).
Proof.
  induction cnt as [|c IH]; intros j x res Hinv; cbn [bin_loop].
  - rewrite Nat.add_0_r. exact Hinv.
  - replace (Z.of_nat (S j) + 1) with (Z.of_nat (S (S j))) by lia.
    replace (j + S c)%nat with (S j + c)%nat by lia.
    apply IH.
    (* exactness of the division by i = j + 1 *)
    destruct (zfact_divides_ffact (S j) (x + Z.of_nat (S j))) as (q & Hq).
    pose proof (ffact_shift (x + Z.of_nat j) j) as Hs.
    replace (x + Z.of_nat j + 1) with (x + Z.of_nat (S j)) in Hs by lia.
    pose proof (zfact_pos j) as Hp.
    assert (Hmul : res * (x + Z.of_nat (S j)) = q * Z.of_nat (S j)).
    { apply (Z.mul_cancel_r _ _ (zfact j)); [lia|].
      transitivity (ffact (x + Z.of_nat (S j)) (S j)).
      - rewrite Hs, <- Hinv. ring.
      - rewrite Hq. cbn [zfact]. ring. }
    rewrite Hmul, Z.quot_mul by lia. rewrite Hq. reflexivity.
Qed.

(* binomial(n, k) k! = n (n-1) ... (n-k+1) for every integer n *)
Theorem binomial_correct n k :
  0 <= k -> nt_binomial n k * zfact (Z.to_nat k) = ffact n (Z.to_nat k).
Proof.
  intros Hk. unfold nt_binomial, mp_bin.
  pose proof (bin_loop_spec (Z.to_nat k) 0 (n - k) 1) as H.
  cbn [Nat.add] in H. change (Z.of_nat 1) with 1 in H.
  rewrite H by reflexivity. f_equal. lia.
Qed.

(* ------------------------------------------------------------------ *)
(** * Fibonacci and Lucas numbers *)

Lemma fib_SS n : fib (S (S n)) = fib n + fib (S n).
Proof. unfold fib. cbn [fib_pair]. destruct (fib_pair n) as [a b]. reflexivity. Qed.
Lemma lucas_SS n : lucas (S (S n)) = lucas n + lucas (S n).
Proof. unfold lucas. cbn [luc_pair]. destruct (luc_pair n) as [a b]. reflexivity. Qed.

Lemma mat_eq (a b c d a' b' c' d' : Z) :
  a = a' -> b = b' -> c = c' -> d = d' -> (a, b, c, d) = (a', b', c', d').
Proof. intros; subst; reflexivity. Qed.

Lemma mmul_assoc x y z : mmul (mmul x y) z = mmul x (mmul y z).
Proof.
  destruct x as [[[a b] c] d], y as [[[e f] g] h], z as [[[i j] k] l].
  unfold mmul. apply mat_eq; ring.
Qed.
Lemma mmul_id_l x : mmul mid x = x.
Proof. destruct x as [[[a b] c] d]. unfold mmul, mid. apply mat_eq; ring. Qed.
Lemma mmul_id_r x : mmul x mid = x.
Proof. destruct x as [[[a b] c] d]. unfold mmul, mid. apply mat_eq; ring. Qed.

Fixpoint mpow_nat (x : mat) (n : nat) : mat :=
  match n with O => mid | S n' => mmul (mpow_nat x n') x end.

Lemma mpow_nat_add x a b : mpow_nat x (a + b) = mmul (mpow_nat x a) (mpow_nat x b).
Proof.
  induction b as [|b IH].
  - rewrite Nat.add_0_r. cbn. rewrite mmul_id_r. reflexivity.
  - replace (a + S b)%nat with (S (a + b)) by lia. cbn [mpow_nat].
    rewrite IH, mmul_assoc. reflexivity.
Qed.

Lemma mpow_pos_nat x p : mpow_pos x p = mpow_nat x (Pos.to_nat p).
Proof.
  induction p as [p IH|p IH|]; cbn [mpow_pos].
  - rewrite IH, Pos2Nat.inj_xI. cbn [mpow_nat].
    replace (2 * Pos.to_nat p)%nat with (Pos.to_nat p + Pos.to_nat p)%nat by lia.
    rewrite mpow_nat_add. reflexivity.
  - rewrite IH, Pos2Nat.inj_xO.
    replace (2 * Pos.to_nat p)%nat with (Pos.to_nat p + Pos.to_nat p)%nat by lia.
    rewrite mpow_nat_add. reflexivity.
  - change (Pos.to_nat 1) with 1%nat. cbn [mpow_nat]. rewrite mmul_id_l. reflexivity.
Qed.

Lemma mpow_correct x n : 0 <= n -> mpow x n = mpow_nat x (Z.to_nat n).
Proof.
  intros Hn. destruct n as [|p|p]; [reflexivity| |lia].
  cbn [mpow]. rewrite mpow_pos_nat. reflexivity.
Qed.

Lemma fib_matrix_nat n :
  mpow_nat (1, 1, 1, 0) n = (fib (S n), fib n, fib n, fib (S n) - fib n).
Proof.
  induction n as [|n IH].
  - reflexivity.
  - cbn [mpow_nat]. rewrite IH. unfold mmul. rewrite (fib_SS n). apply mat_eq; ring.
Qed.

Lemma lucas_fib n : lucas n = 2 * fib (S n) - fib n /\ lucas (S n) = 2 * fib (S (S n)) - fib (S n).
Proof.
  induction n as [|n [IH1 IH2]].
  - split; reflexivity.
  - split; [exact IH2|]. rewrite lucas_SS, IH1, IH2, (fib_SS (S n)), (fib_SS n). ring.
Qed.

Theorem fibonacci_lucas_correct n :
  0 <= n ->
  nt_fibonacci n = fib (Z.to_nat n) /\
  nt_fibonacci2 n = (fib (Z.to_nat n), fib (S (Z.to_nat n)) - fib (Z.to_nat n)) /\
  nt_lucas n = lucas (Z.to_nat n) /\
  (1 <= n -> nt_lucas2 n = Ok (lucas (Z.to_nat n), lucas (Z.to_nat (n - 1)))) /\
  (n = 0 -> nt_lucas2 n = Ok (2, -1)).
Proof.
  intros Hn.
  unfold nt_fibonacci, nt_fibonacci2, nt_lucas, nt_lucas2, mp_fib, mp_fib2, mp_lucnum, mp_lucnum2,
    fib_matrix, luc_matrix.
  rewrite mpow_correct, fib_matrix_nat by assumption.
  split; [reflexivity|]. split; [reflexivity|]. split; [|split].
  - unfold mmul. rewrite (proj1 (lucas_fib (Z.to_nat n))). ring.
  - intros H1. destruct (n =? 0) eqn:E; [lia|].
    rewrite mpow_correct, fib_matrix_nat by lia. unfold mmul.
    replace (Z.to_nat n) with (S (Z.to_nat (n - 1))) by lia.
    set (k := Z.to_nat (n - 1)).
    rewrite (proj1 (lucas_fib (S k))), (proj1 (lucas_fib k)), (fib_SS k). f_equal. f_equal; ring.
  - intros ->. reflexivity.
Qed.
