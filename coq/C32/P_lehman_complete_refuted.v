(* C32 obligation: factor_lehman_method is not complete: it reports no factor for the composite 35 *)
From SE Require Import C32.NtSpec C32.NtProofsMisc.
Local Open Scope Z_scope.
Theorem C32_lehman_complete_refuted :
  nt_factor_lehman 35 = Ok None /\ 35 = 5 * 7.
Proof. exact lehman_misses_factor. Qed.
Print Assumptions C32_lehman_complete_refuted.
