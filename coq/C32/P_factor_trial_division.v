(* C32 obligation: factor_trial_division returns the least prime factor when there is one not above sqrt(n), and reports none exactly when n is prime *)
From SE Require Import C32.NtSpec C32.NtProofsTotient.
Local Open Scope Z_scope.
Theorem C32_factor_trial_division :
  forall n : Z, 2 <= n -> Z.sqrt n <= UINT_MAX ->
  match nt_factor_trial_division n with
  | Ok (Some f) => prime f /\ (f | n) /\ f * f <= n /\ forall d, 2 <= d < f -> ~ (d | n)
  | Ok None => prime n
  | _ => False
  end.
Proof. exact factor_trial_division_correct. Qed.
Print Assumptions C32_factor_trial_division.
