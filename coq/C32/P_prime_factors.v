(* C32 obligation: prime_factors returns primes in nondecreasing order whose product is |n| *)
From SE Require Import C32.NtSpec C32.NtProofsPF.
Local Open Scope Z_scope.
Theorem C32_prime_factors :
  forall n : Z, n <> 0 -> Z.sqrt (Z.abs n) <= UINT_MAX ->
  exists l, nt_prime_factors n = Ok l /\
            Forall prime l /\ nondecreasing l /\ prod_list l = Z.abs n.
Proof. exact prime_factors_correct. Qed.
Print Assumptions C32_prime_factors.
