(* C32 obligation: mertens(a) is the sum of mobius(1), ..., mobius(a) *)
From SE Require Import C32.NtSpec C32.NtProofsPF.
Local Open Scope Z_scope.
Theorem C32_mertens :
  forall a : Z, 0 <= a <= LONG_MAX ->
  exists s, nt_mertens a = Ok s /\
            forall f, (forall k, 1 <= k <= a -> nt_mobius k = Ok (f k)) ->
                      s = fold_right Z.add 0 (map f (map (fun j => 1 + Z.of_nat j) (seq 0 (Z.to_nat a)))).
Proof. exact mertens_correct. Qed.
Print Assumptions C32_mertens.
