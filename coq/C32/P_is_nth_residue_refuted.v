(* C32 obligation: is_nth_residue does not agree with its definition for negative a: -1 is reported as a square modulo 4 *)
From SE Require Import C32.NtSpec C32.NtProofsMisc.
Local Open Scope Z_scope.
Theorem C32_is_nth_residue_refuted :
  nt_is_nth_residue (-1) 2 4 = Ok true /\ forall x, ~ cong 4 (x * x) (-1).
Proof. exact is_nth_residue_negative_refuted. Qed.
Print Assumptions C32_is_nth_residue_refuted.
