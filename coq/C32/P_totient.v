(* C32 obligation: totient(n) is Euler's product over the prime factorisation of n *)
From SE Require Import C32.NtSpec C32.NtProofsTotient.
Local Open Scope Z_scope.
Theorem C32_totient :
  forall n : Z, n <> 0 -> Z.sqrt (Z.abs n) <= UINT_MAX ->
  exists l, is_factorisation n l /\ nt_totient n = Ok (euler_product l).
Proof. exact totient_correct. Qed.
Print Assumptions C32_totient.
