(* C32 obligation: carmichael(n) is the least e > 0 with x^e = 1 (mod n) for all units x, for every 1 <= |n| <= 64 (complete evaluation) *)
From SE Require Import C32.NtBrute C32.NtBounded.
Local Open Scope Z_scope.
Theorem C32_carmichael_bounded :
  forallb carmichael_check (nonzero_range 64) = true.
Proof. exact carmichael_bounded. Qed.
Print Assumptions C32_carmichael_bounded.
