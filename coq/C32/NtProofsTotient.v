(* C32 -- proofs, part 7: totient (Euler's product), Moebius function, prime_factors and
   factor_trial_division, all on top of the verified factorisation. *)
From SE Require Import C32.NtSpec C32.NtProofsFactor.
From Coq Require Import Lia ZifyBool.
Local Open Scope Z_scope.
Local Open Scope res_scope.

(* ------------------------------------------------------------------ *)
(** * totient *)

Lemma totient_fold : forall (l : list (Z * Z)) (c : Z),
  Forall (fun pe => prime (fst pe) /\ 1 <= snd pe) l ->
  fold_left (fun phi pe => Z.quot phi (fst pe) * (fst pe - 1)) l (c * prod_pe l)
  = c * euler_product l.
Proof.
  induction l as [|[p e] l IH]; intros c H; unfold prod_pe, euler_product in *; cbn [fold_left fold_right fst snd].
  - reflexivity.
  - pose proof (Forall_inv H) as (Hp & He). cbn in Hp, He. pose proof (prime_ge_2 _ Hp).
    set (P := fold_right (fun pe acc => fst pe ^ snd pe * acc) 1 l) in *.
    replace (c * (p ^ e * P)) with ((c * p ^ (e - 1) * P) * p).
    + rewrite Z.quot_mul by lia.
      replace (c * p ^ (e - 1) * P * (p - 1)) with ((c * p ^ (e - 1) * (p - 1)) * P) by ring.
      rewrite IH by (eapply Forall_inv_tail; eassumption). ring.
    + replace e with ((e - 1) + 1) at 2 by lia. rewrite Z.pow_add_r, Z.pow_1_r by lia. ring.
Qed.

(* totient n is Euler's product over the prime factorisation of n *)
Theorem totient_correct n :
  n <> 0 -> Z.sqrt (Z.abs n) <= UINT_MAX ->
  exists l, is_factorisation n l /\ nt_totient n = Ok (euler_product l).
Proof.
  intros Hn Hb. destruct (factorisation_correct n Hn Hb) as (l & E & Hf).
  exists l. split; [assumption|]. unfold nt_totient.
  destruct (n =? 0) eqn:E0; [lia|]. rewrite E. cbn [bind]. f_equal.
  destruct Hf as (H1 & H2 & H3). rewrite <- H3.
  replace (prod_pe l) with (1 * prod_pe l) by ring.
  rewrite totient_fold by assumption. ring.
Qed.

(* ------------------------------------------------------------------ *)
(** * Moebius function *)

Theorem mobius_correct a :
  1 <= a <= LONG_MAX ->
  exists l, is_factorisation a l /\ nt_mobius a = Ok (mobius_of l).
Proof.
  intros Ha.
  assert (Hb : Z.sqrt (Z.abs a) <= UINT_MAX).
  { rewrite Z.abs_eq by lia. unfold UINT_MAX, LONG_MAX in *.
    assert (Z.sqrt a < 4294967296) by (apply Z.sqrt_lt_square; lia). lia. }
  destruct (factorisation_correct a ltac:(lia) Hb) as (l & E & Hf).
  exists l. split; [assumption|]. unfold nt_mobius.
  destruct (LONG_MAX <? a) eqn:E1; [lia|]. destruct (a <=? 0) eqn:E2; [lia|].
  rewrite E. cbn [bind]. unfold mobius_of.
  destruct (existsb (fun pe : Z * Z => 1 <? snd pe) l); reflexivity.
Qed.

Theorem mobius_domain a : a <= 0 \/ LONG_MAX < a -> nt_mobius a = ErrExn EXN_SYMENGINE.
Proof.
  intros H. unfold nt_mobius. destruct (LONG_MAX <? a) eqn:E1; [reflexivity|].
  destruct (a <=? 0) eqn:E2; [reflexivity|lia].
Qed.

(* mobius_of is the textbook function of a factorisation *)
Lemma mobius_of_spec l :
  (Exists (fun pe : Z * Z => 1 < snd pe) l -> mobius_of l = 0) /\
  (Forall (fun pe : Z * Z => snd pe <= 1) l -> mobius_of l = (-1) ^ Z.of_nat (length l)).
Proof.
  unfold mobius_of. split.
  - intros H. apply Exists_exists in H. destruct H as (pe & Hin & Hpe).
    assert (existsb (fun pe : Z * Z => 1 <? snd pe) l = true).
    { apply existsb_exists. exists pe. split; [assumption|lia]. }
    rewrite H. reflexivity.
  - intros H. assert (E : existsb (fun pe : Z * Z => 1 <? snd pe) l = false).
    { destruct (existsb _ l) eqn:E; [|reflexivity]. apply existsb_exists in E.
      destruct E as (pe & Hin & Hpe). rewrite Forall_forall in H. specialize (H pe Hin). lia. }
    rewrite E. clear. induction l as [|x l IH]; [reflexivity|].
    cbn [length]. rewrite Nat2Z.inj_succ, Z.pow_succ_r by lia.
    rewrite Nat.even_succ. rewrite <- Nat.negb_even.
    destruct (Nat.even (length l)); cbn [negb] in *; lia.
Qed.

(* ------------------------------------------------------------------ *)
(** * mertens *)

Lemma mertens_loop_spec : forall cnt i acc,
  1 <= i -> i + Z.of_nat cnt <= LONG_MAX + 1 ->
  exists s, mertens_loop cnt i acc = Ok (acc + s) /\
            forall f, (forall k, i <= k < i + Z.of_nat cnt -> nt_mobius k = Ok (f k)) ->
                      s = fold_right Z.add 0 (map f (map (fun j => i + Z.of_nat j) (seq 0 cnt))).
Proof.
  induction cnt as [|c IH]; intros i acc Hi Hb.
  - exists 0. split; [cbn; f_equal; lia|]. intros; reflexivity.
  - cbn [mertens_loop].
    destruct (mobius_correct i ltac:(lia)) as (l & Hl & E). rewrite E. cbn [bind].
    destruct (IH (i + 1) (acc + mobius_of l) ltac:(lia) ltac:(lia)) as (s & Es & Hs).
    exists (mobius_of l + s). split; [rewrite Es; f_equal; lia|].
    intros f Hf. cbn [seq map fold_right]. rewrite Z.add_0_r.
    assert (Hfi : f i = mobius_of l).
    { specialize (Hf i ltac:(lia)). rewrite E in Hf. congruence. }
    rewrite Hfi. f_equal. rewrite (Hs f).
    + f_equal. f_equal. rewrite <- seq_shift, map_map. apply map_ext. intros; lia.
    + intros k Hk. apply Hf. lia.
Qed.

(* ------------------------------------------------------------------ *)
(** * factor_trial_division *)

Lemma ftd_loop_spec n limit : forall cnt p,
  2 <= p -> (forall d, 2 <= d < p -> ~ (d | n)) -> limit + 2 <= p + Z.of_nat cnt ->
  match ftd_loop cnt p limit n with
  | Some f => prime f /\ (f | n) /\ p <= f <= limit /\ forall d, 2 <= d < f -> ~ (d | n)
  | None => forall d, 2 <= d <= limit -> ~ (d | n)
  end.
Proof.
  induction cnt as [|c IH]; intros p Hp Hno Hc; cbn [ftd_loop].
  - intros d Hd. apply Hno. lia.
  - destruct (limit <? p) eqn:E1.
    { intros d Hd. apply Hno. lia. }
    destruct (is_prime p && (Z.rem n p =? 0)) eqn:E2.
    + apply andb_prop in E2. destruct E2 as [E2 E3]. apply is_prime_true in E2.
      split; [assumption|]. split; [apply rem_zero_divide; lia|]. split; [lia|assumption].
    + assert (Hno' : forall d, 2 <= d < p + 1 -> ~ (d | n)).
      { intros d Hd. destruct (Z.eq_dec d p) as [->|]; [|apply Hno; lia].
        apply andb_false_iff in E2. destruct E2 as [E2|E2].
        * destruct (is_prime_false p Hp E2) as (e & He & Hde). intros Hpn.
          apply (Hno e); [lia|]. eapply Z.divide_trans; eassumption.
        * intros Hd'. apply rem_zero_divide in Hd'; lia. }
      specialize (IH (p + 1) ltac:(lia) Hno' ltac:(lia)).
      destruct (ftd_loop c (p + 1) limit n) as [f|]; [|exact IH].
      destruct IH as (I1 & I2 & I3 & I4). split; [assumption|]. split; [assumption|]. split; [lia|assumption].
Qed.

Theorem factor_trial_division_correct n :
  2 <= n -> Z.sqrt n <= UINT_MAX ->
  match nt_factor_trial_division n with
  | Ok (Some f) => prime f /\ (f | n) /\ f * f <= n /\ forall d, 2 <= d < f -> ~ (d | n)
  | Ok None => prime n
  | _ => False
  end.
Proof.
  intros Hn Hb. unfold nt_factor_trial_division, sieve_limit.
  destruct (n <? 0) eqn:E0; [lia|].
  destruct (UINT_MAX <? Z.sqrt n) eqn:E1; [lia|]. cbn [bind].
  pose proof (ftd_loop_spec n (Z.sqrt n) (Z.to_nat (Z.sqrt n)) 2 ltac:(lia)) as H.
  pose proof (Z.sqrt_nonneg n). pose proof (Z.sqrt_spec n ltac:(lia)) as Hs.
  specialize (H ltac:(intros; lia) ltac:(lia)).
  destruct (ftd_loop (Z.to_nat (Z.sqrt n)) 2 (Z.sqrt n) n) as [f|].
  - destruct H as (H1 & H2 & H3 & H4). split; [assumption|]. split; [assumption|]. split; [|assumption].
    transitivity (Z.sqrt n * Z.sqrt n); [apply sq_le_mono; split; [lia|apply H3]|apply Hs].
  - apply no_small_divisor_prime; [assumption|]. intros e He Hee. apply H.
    split; [lia|]. apply Z.sqrt_le_square; lia.
Qed.
