(* C32 obligation: totient(n) equals the number of residues in 1..|n| coprime to n, for every 1 <= |n| <= 400 (complete evaluation) *)
From SE Require Import C32.NtBrute C32.NtBounded.
Local Open Scope Z_scope.
Theorem C32_totient_bounded :
  forallb totient_check (nonzero_range 400) = true.
Proof. exact totient_bounded. Qed.
Print Assumptions C32_totient_bounded.
