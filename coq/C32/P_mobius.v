(* C32 obligation: mobius(a) is 0 when a prime square divides a and (-1)^(number of prime factors) otherwise *)
From SE Require Import C32.NtSpec C32.NtProofsTotient.
Local Open Scope Z_scope.
Theorem C32_mobius :
  forall a : Z, 1 <= a <= LONG_MAX ->
  exists l, is_factorisation a l /\ nt_mobius a = Ok (mobius_of l) /\
    (Exists (fun pe : Z * Z => 1 < snd pe) l -> mobius_of l = 0) /\
    (Forall (fun pe : Z * Z => snd pe <= 1) l -> mobius_of l = (-1) ^ Z.of_nat (length l)).
Proof. exact (fun a H => match mobius_correct a H with ex_intro _ l (conj H1 H2) => ex_intro _ l (conj H1 (conj H2 (mobius_of_spec l))) end). Qed.
Print Assumptions C32_mobius.
