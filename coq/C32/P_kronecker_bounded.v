(* C32 obligation: kronecker(a, n), jacobi(a, n) for odd positive n and legendre(a, p) for odd primes p equal the symbols defined from squares modulo primes, (a|2), (a|-1), (a|0), for all |a|, |n| <= 40, in both configurations (complete evaluation) *)
From SE Require Import C32.NtBrute C32.NtBounded.
Local Open Scope Z_scope.
Theorem C32_kronecker_bounded :
  forallb (fun n => forallb (kronecker_check n) (zrange (-40) 40)) (zrange (-40) 40) = true.
Proof. exact kronecker_bounded. Qed.
Print Assumptions C32_kronecker_bounded.
