(* C32 -- definitions by exhaustive search (the textbook definitions made executable) used to state
   theorems over explicit finite ranges, proved by complete evaluation in the kernel. *)
From SE Require Export C32.NtSpec.
Local Open Scope Z_scope.

Fixpoint zrange_from (lo : Z) (cnt : nat) : list Z :=
  match cnt with O => [] | S c => lo :: zrange_from (lo + 1) c end.
(* lo, lo+1, ..., hi *)
Definition zrange (lo hi : Z) : list Z := zrange_from lo (Z.to_nat (hi - lo + 1)).

Definition res_is {A} (eqb : A -> A -> bool) (r : res A) (x : A) : bool :=
  match r with Ok y => eqb y x | _ => false end.
Definition opt_eqb (a b : option Z) : bool :=
  match a, b with Some x, Some y => x =? y | None, None => true | _, _ => false end.

(* number of residues in 1..n coprime to n *)
Definition totient_brute (n : Z) : Z :=
  Z.of_nat (length (filter (fun x => Z.gcd x n =? 1) (zrange 1 n))).

(* least k in 1..n with a^k = 1 (mod n); a^k mod n is evaluated by [powm_nn], which
   NtProofsPowm.powm_nn_correct shows to be (a ^ k) mod |n| *)
Definition order_brute (a n : Z) : option Z :=
  find (fun k => powm_nn a k n =? 1 mod n) (zrange 1 n).

(* least e in 1..n with x^e = 1 (mod n) for every unit x *)
Definition carmichael_brute (n : Z) : option Z :=
  find (fun e => forallb (fun x => negb (Z.gcd x n =? 1) || (powm_nn x e n =? 1 mod n)) (zrange 1 n))
       (zrange 1 n).

Definition is_primitive_root_brute (g n : Z) : bool :=
  (Z.gcd g n =? 1) && opt_eqb (order_brute g n) (Some (totient_brute n)).

(* exists x in [0, m) with x^k = a (mod m) *)
Definition has_root_brute (a k m : Z) : bool :=
  existsb (fun x => (x ^ k - a) mod m =? 0) (zrange 0 (m - 1)).

(* Legendre symbol at an odd prime p, by the definition (a is / is not a square mod p) *)
Definition legendre_brute (a p : Z) : Z :=
  if a mod p =? 0 then 0 else if has_root_brute a 2 p then 1 else -1.

(* Kronecker symbol: completely multiplicative in n, with (a|2), (a|-1), (a|0) as usual *)
Definition kron2 (a : Z) : Z :=
  if Z.even a then 0 else if (a mod 8 =? 1) || (a mod 8 =? 7) then 1 else -1.
Fixpoint smallest_factor (cnt : nat) (d n : Z) : Z :=
  match cnt with
  | O => n
  | S c => if n mod d =? 0 then d else smallest_factor c (d + 1) n
  end.
Fixpoint kronecker_pos (fuel : nat) (a n : Z) : Z :=   (* n >= 1 *)
  match fuel with
  | O => 1
  | S f =>
      if n <=? 1 then 1
      else
        let p := smallest_factor (Z.to_nat n) 2 n in
        (if p =? 2 then kron2 a else legendre_brute a p) * kronecker_pos f a (n / p)
  end.
Definition kronecker_brute (a n : Z) : Z :=
  if n =? 0 then (if (a =? 1) || (a =? -1) then 1 else 0)
  else (if (n <? 0) && (a <? 0) then -1 else 1) * kronecker_pos (Z.to_nat (Z.abs n)) a (Z.abs n).
