(* C32 obligation: factorial(n) = 1 * 2 * ... * n *)
From SE Require Import C32.NtSpec C32.NtProofsComb.
Local Open Scope Z_scope.
Theorem C32_factorial :
  forall n : Z, 0 <= n -> nt_factorial n = zfact (Z.to_nat n).
Proof. exact factorial_correct. Qed.
Print Assumptions C32_factorial.
