(* C32 obligation: binomial(n, k) * k! = n (n-1) ... (n-k+1) for every integer n (negative n included): each division of the product loop of mp_boost.cpp is exact *)
From SE Require Import C32.NtSpec C32.NtProofsComb.
Local Open Scope Z_scope.
Theorem C32_binomial :
  forall n k : Z, 0 <= k -> nt_binomial n k * zfact (Z.to_nat k) = ffact n (Z.to_nat k).
Proof. exact binomial_correct. Qed.
Print Assumptions C32_binomial.
