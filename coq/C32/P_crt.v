(* C32 obligation: crt on positive moduli: a returned value solves every congruence, every solution is congruent to it modulo the lcm of the moduli, with at least two moduli it lies in [0, lcm); `false` is returned only when no integer solves the system; no other outcome occurs *)
From SE Require Import C32.NtSpec C32.NtProofsCrt.
Local Open Scope Z_scope.
Theorem C32_crt_guarded :
  forall (c : cfg) (rems mods : list Z),
  mods <> [] -> (length mods <= length rems)%nat -> Forall (fun x => 0 < x) mods ->
  crt_post (nt_crt c rems mods) (2 <= length mods)%nat (combine rems mods) /\
  map snd (combine rems mods) = mods.
Proof. exact crt_correct. Qed.
Print Assumptions C32_crt_guarded.
