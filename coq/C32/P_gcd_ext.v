(* C32 obligation: gcd_ext (Euclid's algorithm of mp_boost.cpp; mpz_gcdext in the GMP configuration) terminates within its fuel and returns the gcd with Bezout cofactors, for all integers *)
From SE Require Import C32.NtSpec C32.NtProofsGcd.
Local Open Scope Z_scope.
Theorem C32_gcd_ext :
  forall (c : cfg) (a b : Z),
  exists g s t, nt_gcd_ext c a b = Ok (g, s, t) /\ s * a + t * b = g /\ is_gcd g a b.
Proof. exact gcd_ext_correct. Qed.
Print Assumptions C32_gcd_ext.
