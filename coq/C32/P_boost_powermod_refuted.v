(* C32 obligation: without the guard 0 < m the boost configuration is wrong: mp_powm adds the negative modulus to a negative intermediate result *)
From SE Require Import C32.NtSpec C32.NtProofsMisc.
Local Open Scope Z_scope.
Theorem C32_boost_powermod_refuted :
  nt_powermod BOOST (-3) 3 (-5) = Ok (Some (-7)) /\ nt_powermod GMP (-3) 3 (-5) = Ok (Some 3).
Proof. exact boost_powermod_negative_modulus. Qed.
Print Assumptions C32_boost_powermod_refuted.
