(* C32 obligation: prime_factor_multiplicities returns the prime factorisation: primes in increasing order, positive multiplicities, product |n| *)
From SE Require Import C32.NtSpec C32.NtProofsFactor.
Local Open Scope Z_scope.
Theorem C32_factorisation :
  forall n : Z, n <> 0 -> Z.sqrt (Z.abs n) <= UINT_MAX ->
  exists l, nt_prime_factor_multiplicities n = Ok l /\ is_factorisation n l.
Proof. exact factorisation_correct. Qed.
Print Assumptions C32_factorisation.
