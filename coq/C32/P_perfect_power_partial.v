(* C32 obligation: PARTIAL.  Full statement: mp_perfect_power_decomposition n returns (b, e) with b^e = n and e the highest (lowest_exponent: the lowest e >= 2) exponent for which n is a perfect power, (n, 1) if there is none.  Proved here: b^e = n and e >= 1 whenever a pair is returned; missing: maximality/minimality of e and termination of the bisection within its fuel (checked by the driver's oracle only) *)
From SE Require Import C32.NtSpec C32.NtProofsMisc.
Local Open Scope Z_scope.
Theorem C32_perfect_power_partial :
  forall (n : Z) (lowest : bool) (b e : Z),
  nt_perfect_power_decomposition n lowest = Ok (b, e) -> b ^ e = n /\ 1 <= e.
Proof. exact perfect_power_decomposition_sound. Qed.
Print Assumptions C32_perfect_power_partial.
