(* C32 obligation: bernoulli(n) is the n-th Bernoulli number defined by B_0 = 1, sum_{j<=m} C(m+1,j) B_j = 0 (with the sign convention B_1 = +1/2 of the library), as a reduced fraction, for all 0 <= n <= 30 (complete evaluation) *)
From SE Require Import C32.NtBrute C32.NtBoundedQ.
Local Open Scope Z_scope.
Theorem C32_bernoulli_bounded : forallb bernoulli_check (zrange 0 30) = true.
Proof. exact bernoulli_bounded. Qed.
Print Assumptions C32_bernoulli_bounded.
