(* Extraction of the C32 model (run from the output directory; not part of `make`). *)
From SE Require Import C32.NtModel.
Require Import ExtrOcamlBasic.
Extraction "nt_model.ml"
  Z.add Z.mul Z.opp Z.div_eucl Z.of_nat Z.to_nat
  tdiv_qr fdiv_qr cdiv_qr divisible gcdext invert mp_powm mp_root mp_root_boost
  mp_perfect_square_p mp_perfect_power_p mp_scan1 is_prime
  mp_fib mp_fib2 mp_lucnum mp_lucnum2 mp_fac mp_bin mp_legendre mp_jacobi mp_kronecker
  nt_gcd nt_lcm nt_gcd_ext nt_mod_inverse nt_mod nt_quotient nt_quotient_mod nt_mod_f
  nt_quotient_f nt_quotient_mod_f nt_divides nt_binomial nt_factorial nt_fibonacci
  nt_fibonacci2 nt_lucas nt_lucas2 nt_crt nt_powermod nt_powermod_list nt_prime_factors
  nt_prime_factor_multiplicities nt_factor_trial_division nt_totient nt_carmichael
  nt_multiplicative_order nt_primitive_root nt_legendre nt_jacobi nt_kronecker
  nt_quadratic_residues nt_is_quad_residue nt_is_nth_residue nt_mobius nt_mertens
  nt_polygonal_number nt_principal_polygonal_root nt_perfect_power_decomposition
  nt_harmonic nt_bernoulli nt_factor_lehman.
