(* C32 -- theorems over explicit finite ranges for the functions whose general correctness needs
   number theory not developed here (cyclic unit groups, quadratic reciprocity): the faithful
   model is compared with the definitions by exhaustive search, completely, inside the kernel. *)
From SE Require Import C32.NtBrute.
Local Open Scope Z_scope.

Definition nonzero_range (b : Z) : list Z := zrange (- b) (-1) ++ zrange 1 b.
Definition both (f : cfg -> bool) : bool := f GMP && f BOOST.

(* totient(n) is the number of residues coprime to n *)
Definition totient_check (n : Z) : bool := res_is Z.eqb (nt_totient n) (totient_brute (Z.abs n)).
Lemma totient_bounded : forallb totient_check (nonzero_range 400) = true.
Proof. vm_compute. reflexivity. Qed.

(* carmichael(n) is the exponent of the unit group *)
Definition carmichael_check (n : Z) : bool :=
  match carmichael_brute (Z.abs n) with Some e => res_is Z.eqb (nt_carmichael n) e | None => false end.
Lemma carmichael_bounded : forallb carmichael_check (nonzero_range 64) = true.
Proof. vm_compute. reflexivity. Qed.

(* multiplicative_order(a, n): the least k > 0 with a^k = 1 (mod |n|) when gcd(a, n) = 1, else none *)
Definition order_check (n a : Z) : bool :=
  let n1 := Z.abs n in
  let expected := if Z.gcd a n1 =? 1 then order_brute a n1 else None in
  both (fun c => res_is opt_eqb (nt_multiplicative_order c a n) expected).
Lemma multiplicative_order_bounded :
  forallb (fun n => forallb (order_check n) (zrange (-30) 30)) (nonzero_range 60) = true.
Proof. vm_compute. reflexivity. Qed.

(* primitive_root(n): a generator of the unit group when one exists, none otherwise *)
Definition primitive_root_check (n : Z) : bool :=
  let n1 := Z.abs n in
  match nt_primitive_root n with
  | Ok (Some g) => (0 <? g) && (g <? n1) && is_primitive_root_brute g n1
  | Ok None => (n1 <=? 1) || negb (existsb (fun g => is_primitive_root_brute g n1) (zrange 1 (n1 - 1)))
  | _ => false
  end.
Lemma primitive_root_bounded : forallb primitive_root_check (zrange (-150) 150) = true.
Proof. vm_compute. reflexivity. Qed.

(* kronecker, jacobi (odd positive n), legendre (odd primes) against the definition of the symbols *)
Definition kronecker_check (n a : Z) : bool :=
  both (fun c => res_is Z.eqb (nt_kronecker c a n) (kronecker_brute a n)) &&
  (negb ((0 <? n) && Z.odd n) || both (fun c => res_is Z.eqb (nt_jacobi c a n) (kronecker_brute a n))) &&
  (negb ((2 <? n) && is_prime n) || both (fun c => res_is Z.eqb (nt_legendre c a n) (legendre_brute a n))).
Lemma kronecker_bounded :
  forallb (fun n => forallb (kronecker_check n) (zrange (-40) 40)) (zrange (-40) 40) = true.
Proof. vm_compute. reflexivity. Qed.

(* is_quad_residue(a, p): a is a square modulo |p| (boost configuration: positive p, see the defect) *)
Definition quad_residue_check (p a : Z) : bool :=
  res_is Bool.eqb (nt_is_quad_residue GMP a p) (has_root_brute a 2 (Z.abs p)) &&
  ((p <? 0) || res_is Bool.eqb (nt_is_quad_residue BOOST a p) (has_root_brute a 2 p)).
Lemma is_quad_residue_bounded :
  forallb (fun p => forallb (quad_residue_check p) (zrange (-40) 40)) (nonzero_range 60) = true.
Proof. vm_compute. reflexivity. Qed.

(* is_nth_residue(a, k, m) for a >= 0 (negative a: see the defect) *)
Definition nth_residue_check (m k a : Z) : bool :=
  res_is Bool.eqb (nt_is_nth_residue a k m) (has_root_brute a k (Z.abs m)).
Lemma is_nth_residue_bounded :
  forallb (fun m => forallb (fun k => forallb (nth_residue_check m k) (zrange 0 50)) (zrange 1 6))
          (nonzero_range 40) = true.
Proof. vm_compute. reflexivity. Qed.

(* factor_lehman_method is sound: a reported factor is a proper divisor *)
Definition lehman_check (n : Z) : bool :=
  match nt_factor_lehman n with
  | Ok (Some f) => (1 <? f) && (f <? n) && (n mod f =? 0)
  | Ok None => true
  | _ => false
  end.
Lemma lehman_sound_bounded : forallb lehman_check (zrange 21 2000) = true.
Proof. vm_compute. reflexivity. Qed.
