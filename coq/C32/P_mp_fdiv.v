(* C32 obligation: mp_boost.cpp: mp_fdiv_qr (built from truncated division) is floored division, and mp_cdiv_qr is ceiling division *)
From SE Require Import C32.NtSpec C32.NtProofsDiv.
Local Open Scope Z_scope.
Theorem C32_mp_fdiv :
  forall n d : Z, d <> 0 ->
    fdiv_qr n d = Ok (n / d, n mod d) /\
    exists q r, cdiv_qr n d = Ok (q, r) /\ ceil_div_spec n d q r.
Proof. exact (fun n d H => conj (fdiv_qr_div_mod n d H) (cdiv_qr_spec n d H)). Qed.
Print Assumptions C32_mp_fdiv.
