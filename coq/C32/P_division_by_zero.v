(* C32 obligation: with a zero divisor the six division functions raise DivisionByZeroError *)
From SE Require Import C32.NtSpec C32.NtProofsDiv.
Local Open Scope Z_scope.
Theorem C32_division_by_zero :
  forall n : Z,
  nt_quotient_mod n 0 = ErrExn EXN_DIVZERO /\ nt_quotient_mod_f n 0 = ErrExn EXN_DIVZERO /\
  nt_mod n 0 = ErrExn EXN_DIVZERO /\ nt_quotient n 0 = ErrExn EXN_DIVZERO /\
  nt_mod_f n 0 = ErrExn EXN_DIVZERO /\ nt_quotient_f n 0 = ErrExn EXN_DIVZERO.
Proof. exact division_by_zero. Qed.
Print Assumptions C32_division_by_zero.
