(* C32 obligation: gcd is the greatest common divisor, lcm the least common multiple (both non-negative), divides(a, b) says b divides a *)
From SE Require Import C32.NtSpec C32.NtProofsDiv.
Local Open Scope Z_scope.
Theorem C32_gcd_lcm :
  forall a b : Z,
    is_gcd (nt_gcd a b) a b /\ is_lcm (nt_lcm a b) a b /\ (nt_divides a b = true <-> (b | a)).
Proof. exact gcd_lcm_correct. Qed.
Print Assumptions C32_gcd_lcm.
