(* C32 obligation: the trial-division primality test that models the external primality tests and the sieve is exactly primality *)
From SE Require Import C32.NtSpec C32.NtProofsFactor.
Local Open Scope Z_scope.
Theorem C32_is_prime :
  forall n : Z, is_prime n = true <-> prime n.
Proof. exact is_prime_iff. Qed.
Print Assumptions C32_is_prime.
