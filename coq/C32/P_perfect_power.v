(* C32 obligation: mp_perfect_power_decomposition terminates within its fuel; the returned pair
   (b, e) has b^e = n; e = 1 (and b = n) exactly when n is no perfect power; otherwise b >= 2 and e is
   the highest exponent for which n is a perfect power (with lowest_exponent: the lowest one >= 2) *)
From SE Require Import C32.NtSpec C32.NtProofsPPD.
Local Open Scope Z_scope.
Theorem C32_perfect_power :
  forall (n : Z) (lowest : bool), 1 <= n ->
  exists r, nt_perfect_power_decomposition n lowest = Ok r /\
    fst r ^ snd r = n /\
    ((snd r = 1 /\ fst r = n /\ forall k, 2 <= k -> ~ perfect_power n k) \/
     (2 <= snd r /\ 2 <= fst r /\
      if lowest then forall k, 2 <= k < snd r -> ~ perfect_power n k
      else forall k, 2 <= k -> perfect_power n k -> k <= snd r)).
Proof. exact perfect_power_decomposition_correct. Qed.
Print Assumptions C32_perfect_power.
