(* C32 obligation: mod_inverse succeeds exactly when gcd(a, m) = 1, and then returns the inverse in [0, |m|) *)
From SE Require Import C32.NtSpec C32.NtProofsGcd.
Local Open Scope Z_scope.
Theorem C32_mod_inverse :
  forall (c : cfg) (a m : Z), m <> 0 ->
  (Z.gcd a m = 1 -> exists x, nt_mod_inverse c a m = Ok (true, x) /\ is_inverse x a m) /\
  (Z.gcd a m <> 1 -> nt_mod_inverse c a m = Ok (false, 0) /\ forall x, ~ cong m (a * x) 1).
Proof. exact mod_inverse_correct. Qed.
Print Assumptions C32_mod_inverse.
