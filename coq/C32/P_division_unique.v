(* C32 obligation: the two division specifications determine quotient and remainder uniquely (so the theorems pin the values down) *)
From SE Require Import C32.NtSpec C32.NtProofsDiv.
Local Open Scope Z_scope.
Theorem C32_division_unique :
  forall n d q r q' r' : Z,
    (trunc_div_spec n d q r -> trunc_div_spec n d q' r' -> q = q' /\ r = r') /\
    (floor_div_spec n d q r -> floor_div_spec n d q' r' -> q = q' /\ r = r').
Proof. exact (fun n d q r q' r' => conj (trunc_div_unique n d q r q' r') (floor_div_unique n d q r q' r')). Qed.
Print Assumptions C32_division_unique.
