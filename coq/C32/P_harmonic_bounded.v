(* C32 obligation: harmonic(n, m) = sum_{i=1..n} 1/i^m as a reduced fraction, for all 0 <= n <= 40, -3 <= m <= 5 (complete evaluation) *)
From SE Require Import C32.NtBrute C32.NtBoundedQ.
Local Open Scope Z_scope.
Theorem C32_harmonic_bounded :
  forallb (fun m => forallb (harmonic_check m) (zrange 0 40)) (zrange (-3) 5) = true.
Proof. exact harmonic_bounded. Qed.
Print Assumptions C32_harmonic_bounded.
