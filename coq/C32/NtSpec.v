(* C32 -- specifications: the schoolbook definitions the number-theoretic functions of
   symengine/ntheory.cpp are compared with. *)
From SE Require Export C32.NtModel.
From Coq Require Export ZArith Znumtheory List.
Local Open Scope Z_scope.

(** Truncated division (C, mpz_tdiv_qr): quotient rounded towards zero, the remainder
    has the sign of the dividend. *)
Definition trunc_div_spec (n d q r : Z) : Prop :=
  n = d * q + r /\ Z.abs r < Z.abs d /\ (r = 0 \/ (0 < r /\ 0 < n) \/ (r < 0 /\ n < 0)).

(** Floored division (mpz_fdiv_qr): quotient rounded towards minus infinity, the
    remainder has the sign of the divisor. *)
Definition floor_div_spec (n d q r : Z) : Prop :=
  n = d * q + r /\ (0 <= r < d \/ d < r <= 0).

(** Ceiling division: the remainder has the sign opposite to the divisor. *)
Definition ceil_div_spec (n d q r : Z) : Prop :=
  n = d * q + r /\ (0 <= - r < d \/ d < - r <= 0).

(** Greatest common divisor and least common multiple, by their universal properties. *)
Definition is_gcd (g a b : Z) : Prop :=
  0 <= g /\ (g | a) /\ (g | b) /\ forall d, (d | a) -> (d | b) -> (d | g).
Definition is_lcm (l a b : Z) : Prop :=
  0 <= l /\ (a | l) /\ (b | l) /\ forall c, (a | c) -> (b | c) -> (l | c).

(** Congruence. *)
Definition cong (m x y : Z) : Prop := (m | x - y).

(** Modular inverse. *)
Definition is_inverse (x a m : Z) : Prop := 0 <= x < Z.abs m /\ cong m (a * x) 1.

(** Simultaneous congruences x = r_i (mod m_i), as a list of pairs (r_i, m_i). *)
Definition solves (x : Z) (sys : list (Z * Z)) : Prop :=
  Forall (fun rm => cong (snd rm) x (fst rm)) sys.
Definition lcm_list (ms : list Z) : Z := fold_left Z.lcm ms 1.

(** What crt may return for the system [sys] of pairs (remainder, modulus): a solution to which
    every solution is congruent modulo the lcm of the moduli (and which lies in [0, lcm) when
    [reduced] holds), or `no solution` only if there is none; never an error. *)
Definition crt_post (o : res (option Z)) (reduced : Prop) (sys : list (Z * Z)) : Prop :=
  match o with
  | Ok (Some x) =>
      solves x sys /\
      (forall y, solves y sys -> cong (lcm_list (map snd sys)) y x) /\
      (reduced -> 0 <= x < lcm_list (map snd sys))
  | Ok None => forall x, ~ solves x sys
  | _ => False
  end.

(** Falling factorial n (n-1) ... (n-k+1) and factorial. *)
Fixpoint ffact (n : Z) (k : nat) : Z :=
  match k with O => 1 | S k' => ffact n k' * (n - Z.of_nat k') end.
Fixpoint zfact (k : nat) : Z :=
  match k with O => 1 | S k' => zfact k' * Z.of_nat (S k') end.

(** Fibonacci and Lucas numbers by their recurrences. *)
Fixpoint fib_pair (n : nat) : Z * Z :=         (* (F n, F (n+1)) *)
  match n with O => (0, 1) | S n' => let '(a, b) := fib_pair n' in (b, a + b) end.
Definition fib (n : nat) : Z := fst (fib_pair n).
Fixpoint luc_pair (n : nat) : Z * Z :=         (* (L n, L (n+1)) *)
  match n with O => (2, 1) | S n' => let '(a, b) := luc_pair n' in (b, a + b) end.
Definition lucas (n : nat) : Z := fst (luc_pair n).

(** Prime factorisations: a list of (prime, multiplicity) with strictly increasing primes. *)
Definition prod_pe (l : list (Z * Z)) : Z :=
  fold_right (fun pe acc => fst pe ^ snd pe * acc) 1 l.
Definition prod_list (l : list Z) : Z := fold_right Z.mul 1 l.

Inductive increasing : list Z -> Prop :=
| inc_nil : increasing []
| inc_one x : increasing [x]
| inc_cons x y l : x < y -> increasing (y :: l) -> increasing (x :: y :: l).

Inductive nondecreasing : list Z -> Prop :=
| nd_nil : nondecreasing []
| nd_one x : nondecreasing [x]
| nd_cons x y l : x <= y -> nondecreasing (y :: l) -> nondecreasing (x :: y :: l).

Definition is_factorisation (n : Z) (l : list (Z * Z)) : Prop :=
  Forall (fun pe => prime (fst pe) /\ 1 <= snd pe) l /\
  increasing (map fst l) /\
  prod_pe l = Z.abs n.

(** Euler's product for the totient, and the Moebius function, from the factorisation. *)
Definition euler_product (l : list (Z * Z)) : Z :=
  fold_right (fun pe acc => (fst pe - 1) * fst pe ^ (snd pe - 1) * acc) 1 l.
Definition mobius_of (l : list (Z * Z)) : Z :=
  if existsb (fun pe => 1 <? snd pe) l then 0
  else if Nat.even (length l) then 1 else -1.

(** Polygonal numbers. *)
Definition polygonal (s n : Z) : Z := ((s - 2) * n * n - (s - 4) * n) / 2.

(** twice the polygonal number P(s, k) *)
Definition poly2 (s k : Z) : Z := (s - 2) * k * k - (s - 4) * k.

(** n is a perfect k-th power of some base >= 2 *)
Definition perfect_power (n k : Z) : Prop := exists c, 2 <= c /\ c ^ k = n.
