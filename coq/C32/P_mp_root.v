(* C32 obligation: the integer root standing for mpz_root (exactness flag, truncated root) and
   mp_perfect_square_p have their documented meaning *)
From SE Require Import C32.NtSpec C32.NtProofsRoot.
Local Open Scope Z_scope.
Theorem C32_mp_root :
  (forall i n : Z, 0 <= i -> 1 <= n ->
     let '(exact, r) := mp_root i n in
     0 <= r /\ r ^ n <= i < (r + 1) ^ n /\ (exact = true <-> exists c, 0 <= c /\ c ^ n = i)) /\
  (forall i : Z, mp_perfect_square_p i = true <-> exists c, c * c = i).
Proof. exact (conj mp_root_correct perfect_square_correct). Qed.
Print Assumptions C32_mp_root.
