(* C32: the hypotheses of the theorems are met by concrete non-trivial inputs, and the model
   computes the expected values on them (evaluated by the kernel). *)
From SE Require Import C32.NtSpec C32.NtProofsCrt.
Local Open Scope Z_scope.
Example C32_nonvacuous_values :
  nt_quotient_mod (-7) 2 = Ok (-3, -1) /\ nt_quotient_mod_f (-7) 2 = Ok (-4, 1) /\
  nt_gcd_ext BOOST 240 46 = Ok (2, -9, 47) /\ nt_gcd_ext GMP 0 0 = Ok (0, 0, 0) /\
  nt_mod_inverse GMP 3 10 = Ok (true, 7) /\ nt_mod_inverse BOOST 4 10 = Ok (false, 0) /\
  nt_crt GMP [2; 3; 2] [3; 5; 7] = Ok (Some 23) /\ nt_crt GMP [1; 2] [4; 6] = Ok None /\
  nt_crt BOOST [3; 5] [4; 6] = Ok (Some 11) /\
  nt_powermod GMP 3 (-1) 10 = Ok (Some 7) /\ nt_powermod BOOST (-3) 3 5 = Ok (Some 3) /\
  nt_powermod BOOST (-3) 3 (-5) = Ok (Some 3) /\ nt_gcd_ext BOOST 0 0 = Ok (0, 0, 0) /\ nt_kronecker BOOST 1 0 = Ok 1 /\
  nt_binomial (-7) 3 = -84 /\ nt_binomial 10 3 = 120 /\ nt_factorial 10 = 3628800 /\
  nt_fibonacci 30 = 832040 /\ nt_lucas 10 = 123 /\
  nt_prime_factor_multiplicities (-126) = Ok [(2, 1); (3, 2); (7, 1)] /\
  nt_prime_factors 360 = Ok [2; 2; 2; 3; 3; 5] /\
  nt_factor_trial_division 91 = Ok (Some 7) /\ nt_factor_trial_division 97 = Ok None /\
  nt_totient 360 = Ok 96 /\ nt_carmichael 360 = Ok 12 /\ nt_mobius 30 = Ok (-1) /\ nt_mobius 12 = Ok 0 /\
  nt_mertens 10 = Ok (-1) /\
  nt_multiplicative_order GMP 3 7 = Ok (Some 6) /\ nt_primitive_root 50 = Ok (Some 27) /\
  nt_kronecker GMP 3 5 = Ok (-1) /\ nt_kronecker BOOST 7 (-15) = Ok (-1) /\
  nt_quadratic_residues 12 = Ok [0; 1; 4; 9] /\ nt_is_quad_residue GMP 2 7 = Ok true /\
  nt_is_nth_residue 3 3 7 = Ok false /\
  nt_polygonal_number 5 7 = 70 /\ nt_principal_polygonal_root 5 70 = Ok 7 /\
  nt_perfect_power_decomposition 64 false = Ok (2, 6) /\ nt_perfect_power_decomposition 64 true = Ok (8, 2) /\
  nt_harmonic 3 2 = (49, 36) /\ nt_bernoulli 12 = Ok (-691, 2730) /\
  nt_factor_lehman 1001 = Ok (Some 143).
Proof. vm_compute. repeat split; reflexivity. Qed.
(* the hypotheses of C32_crt_guarded on a non-trivial system *)
Example C32_nonvacuous_crt_hyps :
  [3; 5; 7] <> [] /\ (length [3; 5; 7] <= length [2; 3; 2])%nat /\ Forall (fun x => 0 < x) [3; 5; 7] /\
  crt_post (nt_crt GMP [2; 3; 2] [3; 5; 7]) (2 <= 3)%nat (combine [2; 3; 2] [3; 5; 7]).
Proof.
  split; [discriminate|]. split; [cbn; auto|]. split; [repeat constructor|].
  exact (proj1 (crt_correct GMP [2; 3; 2] [3; 5; 7] ltac:(discriminate) ltac:(cbn; auto) ltac:(repeat constructor))).
Qed.
Print Assumptions C32_nonvacuous_values.
Print Assumptions C32_nonvacuous_crt_hyps.
