(* C32 obligation: quadratic_residues(a) is the strictly increasing list of the values x^2 mod a *)
From SE Require Import C32.NtSpec C32.NtProofsQR.
Local Open Scope Z_scope.
Theorem C32_quadratic_residues :
  forall a : Z, 1 <= a <= LONG_MAX ->
  exists l, nt_quadratic_residues a = Ok l /\ increasing l /\
            forall r, In r l <-> exists x, 0 <= x < a /\ r = (x * x) mod a.
Proof. exact quadratic_residues_correct. Qed.
Print Assumptions C32_quadratic_residues.
