(* C32 -- proofs, part 2: extended gcd (Euclid's algorithm of mp_boost.cpp) and modular inverse. *)
From SE Require Import C32.NtSpec C32.NtProofsDiv.
From Coq Require Import Lia ZifyBool.
Local Open Scope Z_scope.
Local Open Scope res_scope.

Section Euclid.
Variables a b : Z.

Definition euclid_inv (ts tt ns nt tr nr : Z) : Prop :=
  ts * a + tt * b = tr /\ ns * a + nt * b = nr /\ Z.gcd tr nr = Z.gcd a b.

Lemma euclid_step ts tt ns nt tr nr :
  nr <> 0 -> euclid_inv ts tt ns nt tr nr ->
  euclid_inv ns nt (ts - Z.quot tr nr * ns) (tt - Z.quot tr nr * nt) nr (Z.rem tr nr).
Proof.
  intros Hnr (H1 & H2 & H3). pose proof (Z.quot_rem' tr nr) as Hq.
  set (q := Z.quot tr nr) in *. set (r := Z.rem tr nr) in *.
  unfold euclid_inv. split; [exact H2|]. split.
  - replace ((ts - q * ns) * a + (tt - q * nt) * b)
      with ((ts * a + tt * b) - q * (ns * a + nt * b)) by ring.
    rewrite H1, H2. lia.
  - rewrite <- H3. replace r with (tr + (- q) * nr) by lia.
    rewrite Z.gcd_add_mult_diag_r. apply Z.gcd_comm.
Qed.

Lemma euclid_done ts tt ns nt tr :
  euclid_inv ts tt ns nt tr 0 -> ts * a + tt * b = tr /\ Z.abs tr = Z.gcd a b.
Proof. intros (H1 & _ & H3). split; [exact H1|]. rewrite <- H3. symmetry. apply Z.gcd_0_r. Qed.

(* two rounds at least halve the remainder *)
Lemma rem_halves tr nr :
  nr <> 0 -> Z.rem tr nr <> 0 -> 2 * Z.abs (Z.rem nr (Z.rem tr nr)) < Z.abs nr.
Proof.
  intros Hnr Hr1. set (r1 := Z.rem tr nr) in *.
  pose proof (Z.rem_bound_abs tr nr Hnr) as B1. fold r1 in B1.
  destruct (tdiv_qr_spec nr r1 Hr1) as (q2 & r2 & E & (S1 & S2 & S3)).
  unfold tdiv_qr in E. destruct (r1 =? 0) eqn:E0; [lia|]. injection E as <- <-.
  set (q2 := Z.quot nr r1) in *. set (r2 := Z.rem nr r1) in *.
  assert (Hq : q2 <> 0) by (intros Hq; rewrite Hq in S1; lia).
  assert (M : Z.abs r1 <= Z.abs (r1 * q2)).
  { rewrite Z.abs_mul. assert (1 <= Z.abs q2) by lia.
    replace (Z.abs r1) with (Z.abs r1 * 1) at 1 by ring.
    apply Z.mul_le_mono_nonneg_l; lia. }
  lia.
Qed.

Lemma gcdext_loop_ok :
  forall (k : nat) (fuel : nat) ts tt ns nt tr nr,
    Z.abs nr < 2 ^ Z.of_nat k -> (2 * k + 1 <= fuel)%nat ->
    euclid_inv ts tt ns nt tr nr ->
    exists g s t, gcdext_loop fuel ts tt ns nt tr nr = Ok (g, s, t) /\
                  s * a + t * b = g /\ Z.abs g = Z.gcd a b.
Proof.
  induction k as [|k IH]; intros fuel ts tt ns nt tr nr Hb Hf Hinv.
  - assert (nr = 0) by (change (2 ^ Z.of_nat 0) with 1 in Hb; lia). subst nr.
    destruct fuel as [|f]; [lia|]. cbn [gcdext_loop]. rewrite Z.eqb_refl.
    exists tr, ts, tt. split; [reflexivity|]. eapply euclid_done; eassumption.
  - destruct fuel as [|[|f]]; try lia.
    cbn [gcdext_loop].
    destruct (nr =? 0) eqn:E0.
    { assert (nr = 0) by lia. subst nr. exists tr, ts, tt. split; [reflexivity|].
      eapply euclid_done; eassumption. }
    assert (Hnr : nr <> 0) by lia.
    pose proof (euclid_step _ _ _ _ _ _ Hnr Hinv) as Hinv1.
    set (r1 := Z.rem tr nr) in *.
    destruct (r1 =? 0) eqn:E1.
    { assert (r1 = 0) by lia. rewrite H in Hinv1.
      eexists _, _, _. split; [reflexivity|]. eapply euclid_done; eassumption. }
    assert (Hr1 : r1 <> 0) by lia.
    pose proof (euclid_step _ _ _ _ _ _ Hr1 Hinv1) as Hinv2.
    apply IH; [| lia | exact Hinv2].
    pose proof (rem_halves tr nr Hnr Hr1) as Hh. fold r1 in Hh.
    rewrite Nat2Z.inj_succ, Z.pow_succ_r in Hb by lia. lia.
Qed.

Lemma abs_lt_pow_log2 x : Z.abs x < 2 ^ (Z.log2 (Z.abs x) + 1).
Proof.
  destruct (Z.eq_dec x 0) as [->|Hx]; [cbn; lia|].
  pose proof (Z.log2_spec (Z.abs x)). rewrite Z.add_1_r. lia.
Qed.

Lemma gcdext_euclid_ok :
  exists g s t, gcdext_euclid a b = Ok (g, s, t) /\ s * a + t * b = g /\ g = Z.gcd a b.
Proof.
  unfold gcdext_euclid.
  set (ts0 := if (a =? 0) && (b =? 0) then 0 else 1).
  destruct (gcdext_loop_ok (Z.to_nat (Z.log2 (Z.abs b) + 1)) (gcdext_fuel b) ts0 0 0 1 a b)
    as (g & s & t & E & Hbz & Hg).
  - rewrite Z2Nat.id by (pose proof (Z.log2_nonneg (Z.abs b)); lia). apply abs_lt_pow_log2.
  - unfold gcdext_fuel. lia.
  - unfold euclid_inv, ts0. destruct ((a =? 0) && (b =? 0)) eqn:E0; repeat split; lia.
  - rewrite E. cbn [bind]. pose proof (Z.gcd_nonneg a b).
    destruct (g <? 0) eqn:En.
    + exists (- g), (- s), (- t). split; [reflexivity|]. split; lia.
    + exists g, s, t. split; [reflexivity|]. split; lia.
Qed.

End Euclid.

Theorem gcd_ext_correct c a b :
  exists g s t, nt_gcd_ext c a b = Ok (g, s, t) /\ s * a + t * b = g /\ is_gcd g a b.
Proof.
  assert (G : is_gcd (Z.gcd a b) a b).
  { unfold is_gcd. repeat split; [apply Z.gcd_nonneg | apply Z.gcd_divide_l | apply Z.gcd_divide_r
      | intros; now apply Z.gcd_greatest]. }
  unfold nt_gcd_ext, gcdext.
  destruct (gcdext_euclid_ok a b) as (g & s & t & E1 & E2 & E3). rewrite E3 in E1, E2.
  exists (Z.gcd a b), s, t. split; [exact E1|]. split; [exact E2|exact G].
Qed.

Lemma gcdext_gcd c a b :
  exists s t, gcdext c a b = Ok (Z.gcd a b, s, t) /\ s * a + t * b = Z.gcd a b.
Proof.
  destruct (gcd_ext_correct c a b) as (g & s & t & E & Hb & Hg).
  assert (g = Z.gcd a b).
  { destruct Hg as (H0 & H1 & H2 & H3). symmetry. apply Z.gcd_unique; auto. }
  rewrite H in E, Hb. exists s, t. split; assumption.
Qed.

(* ------------------------------------------------------------------ *)
(** * Modular inverse *)

Theorem mod_inverse_correct c a m :
  m <> 0 ->
  (Z.gcd a m = 1 -> exists x, nt_mod_inverse c a m = Ok (true, x) /\ is_inverse x a m) /\
  (Z.gcd a m <> 1 -> nt_mod_inverse c a m = Ok (false, 0) /\ forall x, ~ cong m (a * x) 1).
Proof.
  intros Hm. unfold nt_mod_inverse, invert.
  destruct (gcdext_gcd c a m) as (s & t & E & Hb). rewrite E. cbn [bind]. split.
  - intros Hg. rewrite Hg. cbn [negb Z.eqb Pos.eqb].
    rewrite fdiv_r_mod by assumption. cbn [bind].
    eexists. split; [reflexivity|]. unfold is_inverse, cong.
    pose proof (Z.div_mod s m Hm) as Hdm.
    pose proof (Z.mod_pos_bound s m). pose proof (Z.mod_neg_bound s m).
    set (s1 := s mod m) in *.
    destruct (s1 <? 0) eqn:Es; split; try lia.
    + (* a * (s1 + |m|) - 1 = m * (...) *)
      exists (- (a * (s / m)) - t - a). rewrite Hg in Hb.
      replace (Z.abs m) with (- m) by lia. nia.
    + exists (- (a * (s / m)) - t). rewrite Hg in Hb. nia.
  - intros Hg. destruct (Z.gcd a m =? 1) eqn:E1; [lia|]. cbn [negb]. split; [reflexivity|].
    intros x (k & Hk). apply Hg.
    apply Z.gcd_unique; [lia| apply Z.divide_1_l | apply Z.divide_1_l|].
    intros q Ha Hmq. destruct Ha as (u & Hu). destruct Hmq as (v & Hv).
    exists (u * x - k * v). nia.
Qed.
