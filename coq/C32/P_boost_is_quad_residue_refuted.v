(* C32 obligation: boost configuration: is_quad_residue with a negative composite modulus throws (the negative modulus is handed to mp_jacobi) where the GMP configuration answers *)
From SE Require Import C32.NtSpec C32.NtProofsMisc.
Local Open Scope Z_scope.
Theorem C32_boost_is_quad_residue_refuted :
  nt_is_quad_residue BOOST 5 (-9) = ErrExn EXN_STD /\ nt_is_quad_residue GMP 5 (-9) = Ok false.
Proof. exact boost_is_quad_residue_negative_modulus. Qed.
Print Assumptions C32_boost_is_quad_residue_refuted.
