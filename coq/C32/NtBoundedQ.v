(* C32 -- harmonic and Bernoulli numbers against their definitions over Q, on explicit finite
   ranges, by complete evaluation in the kernel. *)
From SE Require Import C32.NtBrute.
From Coq Require Import QArith Qreduction.
Local Open Scope Z_scope.

Definition q_pair (q : Q) : Z * Z := let r := Qred q in (Qnum r, Zpos (Qden r)).
Definition pair_eqb (a b : Z * Z) : bool := (fst a =? fst b) && (snd a =? snd b).

(* H(n, m) = sum_{i=1..n} 1 / i^m  (i^(-m) for negative m) *)
Definition qpow_inv (i m : Z) : Q :=
  if 0 <=? m then (1 # Z.to_pos (i ^ m))%Q else inject_Z (i ^ (- m)).
Definition harmonic_spec (n m : Z) : Q :=
  fold_right (fun i acc => Qplus (qpow_inv i m) acc) (0 # 1)%Q (zrange 1 n).

Definition harmonic_check (m n : Z) : bool := pair_eqb (nt_harmonic n m) (q_pair (harmonic_spec n m)).
Lemma harmonic_bounded :
  forallb (fun m => forallb (harmonic_check m) (zrange 0 40)) (zrange (-3) 5) = true.
Proof. vm_compute. reflexivity. Qed.

(* Bernoulli numbers: B_0 = 1, sum_{j=0..m} C(m+1, j) B_j = 0 for m >= 1 (so B_1 = -1/2);
   the library returns the other convention B_1 = +1/2 and the same values otherwise *)
Definition binom_q (n k : nat) : Q := inject_Z (ffact (Z.of_nat n) k / zfact k).
Fixpoint bernoulli_list (m : nat) : list Q :=      (* [B_0; ...; B_m] *)
  match m with
  | O => [1%Q]
  | S m' =>
      let prev := bernoulli_list m' in
      let s := fold_right Qplus (0 # 1)%Q
                 (map (fun jb => Qmult (binom_q (S (S m')) (fst jb)) (snd jb)) (combine (seq 0 (S m')) prev)) in
      prev ++ [Qred (Qdiv (Qopp s) (inject_Z (Z.of_nat (S (S m')))))]
  end.
Definition bernoulli_spec (n : nat) : Q :=
  let b := nth n (bernoulli_list n) (0 # 1)%Q in if Nat.eqb n 1 then Qopp b else b.

Definition bernoulli_check (n : Z) : bool :=
  res_is pair_eqb (nt_bernoulli n) (q_pair (bernoulli_spec (Z.to_nat n))).
Lemma bernoulli_bounded : forallb bernoulli_check (zrange 0 30) = true.
Proof. vm_compute. reflexivity. Qed.
