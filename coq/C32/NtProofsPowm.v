(* C32 -- proofs, part 3: modular powers (square-and-multiply) and powermod. *)
From SE Require Import C32.NtSpec C32.NtProofsDiv C32.NtProofsGcd.
From Coq Require Import Lia ZifyBool.
Local Open Scope Z_scope.
Local Open Scope res_scope.

Lemma powm_pos_correct a e m : 0 < m -> powm_pos a e m = (a ^ Zpos e) mod m.
Proof.
  intros Hm. induction e as [e IH|e IH|]; cbn [powm_pos].
  - rewrite IH. rewrite Pos2Z.inj_xI.
    rewrite Z.pow_add_r, Z.pow_1_r, Z.pow_twice_r by lia.
    rewrite <- Z.mul_mod by lia.
    rewrite Z.mul_mod_idemp_l by lia. reflexivity.
  - rewrite IH. rewrite Pos2Z.inj_xO, Z.pow_twice_r.
    rewrite <- Z.mul_mod by lia. reflexivity.
  - rewrite Z.pow_1_r. reflexivity.
Qed.

Lemma powm_nn_correct a e m : 0 <= e -> m <> 0 -> powm_nn a e m = (a ^ e) mod (Z.abs m).
Proof.
  intros He Hm. unfold powm_nn. destruct e as [|p|p]; [reflexivity| |lia].
  apply powm_pos_correct. lia.
Qed.

Lemma powm_nn_range a e m : 0 <= e -> m <> 0 -> 0 <= powm_nn a e m < Z.abs m.
Proof. intros. rewrite powm_nn_correct by assumption. apply Z.mod_pos_bound. lia. Qed.

(* mp_powm has the documented meaning of mpz_powm in both configurations *)
Lemma mp_powm_correct c a e m :
  0 <= e -> m <> 0 -> mp_powm c a e m = Ok ((a ^ e) mod (Z.abs m)).
Proof.
  intros He Hm. unfold mp_powm.
  destruct (m =? 0) eqn:E0; [lia|].
  pose proof (powm_nn_range a e m He Hm) as R. rewrite <- (powm_nn_correct a e m He Hm).
  destruct c; [reflexivity|].
  unfold tpowm. set (r := powm_nn a e m) in *.
  destruct ((a <? 0) && Z.odd e && negb (r =? 0)) eqn:Eb.
  - destruct (r - Z.abs m <? 0) eqn:E1; f_equal; lia.
  - destruct (r <? 0) eqn:E1; f_equal; lia.
Qed.

Theorem powermod_correct c a b m :
  m <> 0 ->
  (0 <= b -> nt_powermod c a b m = Ok (Some ((a ^ b) mod (Z.abs m)))) /\
  (b < 0 ->
   let p := (a ^ (- b)) mod (Z.abs m) in
   (Z.gcd p m = 1 -> exists x, nt_powermod c a b m = Ok (Some x) /\ is_inverse x p m) /\
   (Z.gcd p m <> 1 -> nt_powermod c a b m = Ok None)).
Proof.
  intros Hm. unfold nt_powermod. split.
  - intros Hb. destruct (b <? 0) eqn:E; [lia|].
    rewrite mp_powm_correct by assumption. reflexivity.
  - intros Hb. cbv zeta. set (p := (a ^ (- b)) mod Z.abs m).
    destruct (b <? 0) eqn:E; [|lia].
    rewrite mp_powm_correct by (assumption || lia). cbn [bind]. fold p.
    destruct (mod_inverse_correct c p m Hm) as [H1 H2]. unfold nt_mod_inverse in *. split.
    + intros Hg. destruct (H1 Hg) as (x & Ex & Hx). rewrite Ex. cbn [bind]. eauto.
    + intros Hg. destruct (H2 Hg) as (Ex & _). rewrite Ex. reflexivity.
Qed.

Theorem powermod_list_correct c a b m :
  nt_powermod_list c a b m =
  match nt_powermod c a b m with
  | Ok (Some x) => Ok [x] | Ok None => Ok []
  | ErrOOB i l => ErrOOB i l | ErrFuel => ErrFuel | ErrExn e => ErrExn e
  end.
Proof. unfold nt_powermod_list. destruct (nt_powermod c a b m) as [[x|]| | |]; reflexivity. Qed.
