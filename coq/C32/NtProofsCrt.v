(* C32 -- proofs, part 4: crt returns a solution iff the congruences are solvable; the
   solution is unique modulo the lcm of the moduli and (from two moduli on) reduced. *)
From SE Require Import C32.NtSpec C32.NtProofsDiv C32.NtProofsGcd.
From Coq Require Import Lia ZifyBool.
Local Open Scope Z_scope.
Local Open Scope res_scope.

Lemma divisible_iff a b : divisible a b = true <-> (b | a).
Proof. exact (proj2 (proj2 (gcd_lcm_correct a b))). Qed.

Lemma lcm_list_snoc ms x : lcm_list (ms ++ [x]) = Z.lcm (lcm_list ms) x.
Proof. unfold lcm_list. rewrite fold_left_app. reflexivity. Qed.

Lemma solves_app x l1 l2 : solves x (l1 ++ l2) <-> solves x l1 /\ solves x l2.
Proof. unfold solves. apply Forall_app. Qed.

Definition crt_inv (m r : Z) (done : list (Z * Z)) : Prop :=
  0 < m /\ solves r done /\ Forall (fun rm => (snd rm | m)) done /\
  (forall x, solves x done -> cong m x r) /\ m = lcm_list (map snd done).

Lemma quot_exact t g : g <> 0 -> (g | t) -> t = g * Z.quot t g.
Proof.
  intros Hg (k & ->). rewrite Z.quot_mul by assumption. ring.
Qed.

Lemma crt_loop_correct c :
  forall mods rems m r done,
    Forall (fun x => 0 < x) mods -> (length mods <= length rems)%nat ->
    crt_inv m r done ->
    crt_post (crt_loop c m r rems mods) (mods <> [] \/ 0 <= r < m) (done ++ combine rems mods).
Proof.
  induction mods as [|mi mods IH]; intros rems m r done Hpos Hlen (Hm & Hs & Hd & Hu & Hl).
  - cbn [crt_loop]. destruct rems; cbn [combine]; rewrite app_nil_r; unfold crt_post.
    all: split; [exact Hs|]; split; [rewrite <- Hl; exact Hu|];
      intros [H|H]; [congruence| rewrite <- Hl; exact H].
  - destruct rems as [|ri rems]; [cbn in Hlen; lia|].
    cbn [crt_loop combine].
    destruct (gcdext_gcd c m mi) as (s & t & E & Hb). rewrite E. cbn [bind].
    set (g := Z.gcd m mi) in *.
    pose proof (Forall_inv Hpos) as Hmi. pose proof (Forall_inv_tail Hpos) as Hpos'. cbn beta in Hmi.
    assert (Hg : 0 < g).
    { pose proof (Z.gcd_nonneg m mi). fold g in H.
      destruct (Z.eq_dec g 0) as [Hg0|]; [|lia].
      apply Z.gcd_eq_0_l in Hg0. lia. }
    assert (Hgm : (g | m)) by apply Z.gcd_divide_l.
    assert (Hgmi : (g | mi)) by apply Z.gcd_divide_r.
    destruct (divisible (ri - r) g) eqn:Ed; cbn [negb].
    + apply divisible_iff in Ed.
      rewrite !tdiv_q_quot by lia. cbn [bind].
      set (tq := Z.quot (ri - r) g). set (mq := Z.quot mi g).
      assert (Htq : ri - r = g * tq) by (apply quot_exact; [lia|exact Ed]).
      assert (Hmq : mi = g * mq) by (apply quot_exact; [lia|exact Hgmi]).
      assert (Hmq0 : 0 < mq) by nia.
      assert (Hm1 : 0 < m * mq) by nia.
      rewrite fdiv_r_mod by lia. cbn [bind].
      set (r1 := r + m * s * tq). set (m1 := m * mq). set (r2 := r1 mod m1).
      assert (Hr2 : 0 <= r2 < m1) by (apply Z.mod_pos_bound; assumption).
      assert (Hc21 : (m1 | r2 - r1)).
      { exists (- (r1 / m1)). unfold r2. pose proof (Z.div_mod r1 m1). lia. }
      assert (Hmm1 : (m | m1)) by (exists mq; unfold m1; ring).
      assert (Hmim1 : (mi | m1)).
      { destruct Hgm as (m' & Hm'). exists m'. unfold m1. rewrite Hmq. rewrite Hm' at 1. ring. }
      assert (Hc2r : (m | r2 - r)).
      { replace (r2 - r) with ((r2 - r1) + m * (s * tq)) by (unfold r1; ring).
        apply Z.divide_add_r; [eapply Z.divide_trans; eassumption|apply Z.divide_factor_l]. }
      assert (Hc2ri : (mi | r2 - ri)).
      { assert (Hx : r1 - ri = mi * (- t * tq)).
        { unfold r1. rewrite <- Hb in Htq. lia. }
        replace (r2 - ri) with ((r2 - r1) + mi * (- t * tq)) by lia.
        apply Z.divide_add_r; [eapply Z.divide_trans; eassumption|apply Z.divide_factor_l]. }
      assert (Hlcm : m1 = Z.lcm m mi).
      { unfold Z.lcm. fold g. unfold m1, mq.
        rewrite <- Z.quot_div_nonneg by lia. rewrite Z.abs_eq by (fold mq; lia). reflexivity. }
      specialize (IH rems m1 r2 (done ++ [(ri, mi)]) Hpos' ltac:(cbn in Hlen; lia)).
      rewrite <- app_assoc in IH. cbn [app] in IH.
      assert (Hinv : crt_inv m1 r2 (done ++ [(ri, mi)])).
      { unfold crt_inv. split; [assumption|]. split; [|split; [|split]].
        - apply solves_app. split.
          + unfold solves in *. rewrite Forall_forall in *. intros rm Hin.
            specialize (Hs rm Hin). specialize (Hd rm Hin). unfold cong in *.
            replace (r2 - fst rm) with ((r2 - r) + (r - fst rm)) by ring.
            apply Z.divide_add_r; [eapply Z.divide_trans; eassumption|assumption].
          + constructor; [|constructor]. exact Hc2ri.
        - apply Forall_app. split.
          + eapply Forall_impl; [|exact Hd]. cbn. intros rm H. eapply Z.divide_trans; eassumption.
          + constructor; [|constructor]. exact Hmim1.
        - intros x Hx. apply solves_app in Hx. destruct Hx as [Hx1 Hx2].
          pose proof (Forall_inv Hx2) as Hx3. cbn in Hx3. unfold cong in *.
          rewrite Hlcm. apply Z.lcm_least.
          + replace (x - r2) with ((x - r) - (r2 - r)) by ring.
            apply Z.divide_sub_r; [apply Hu; exact Hx1|exact Hc2r].
          + replace (x - r2) with ((x - ri) - (r2 - ri)) by ring.
            apply Z.divide_sub_r; assumption.
        - rewrite map_app. cbn [map snd]. rewrite lcm_list_snoc, <- Hl. exact Hlcm. }
      specialize (IH Hinv).
      destruct (crt_loop c m1 r2 rems mods) as [[x|]| | |]; cbn [crt_post] in *; try exact IH.
      destruct IH as (I1 & I2 & I3). split; [exact I1|]. split; [exact I2|].
      intros _. apply I3. right. exact Hr2.
    + cbn [crt_post]. intros x Hx. apply solves_app in Hx. destruct Hx as [Hx1 Hx2].
      pose proof (Forall_inv Hx2) as Hx3. cbn in Hx3. unfold cong in *.
      assert (Hnd : ~ (g | ri - r)).
      { intros Hdv. apply divisible_iff in Hdv. congruence. }
      apply Hnd. replace (ri - r) with ((x - r) - (x - ri)) by ring.
      apply Z.divide_sub_r.
      * eapply Z.divide_trans; [exact Hgm|]. apply Hu. exact Hx1.
      * eapply Z.divide_trans; [exact Hgmi|]. exact Hx3.
Qed.

(* the system of congruences handed to crt: the first |mod| remainders with the moduli *)
Theorem crt_correct c rems mods :
  mods <> [] -> (length mods <= length rems)%nat -> Forall (fun x => 0 < x) mods ->
  crt_post (nt_crt c rems mods) (2 <= length mods)%nat (combine rems mods) /\
  map snd (combine rems mods) = mods.
Proof.
  intros Hne Hlen Hpos. split.
  - unfold nt_crt.
    destruct (length rems <? length mods)%nat eqn:E; [apply Nat.ltb_lt in E; lia|].
    destruct mods as [|m0 mods]; [congruence|].
    destruct rems as [|r0 rems]; [cbn in Hlen; lia|].
    pose proof (Forall_inv Hpos) as Hm0. pose proof (Forall_inv_tail Hpos) as Hpos'. cbn beta in Hm0.
    pose proof (crt_loop_correct c mods rems m0 r0 [(r0, m0)] Hpos' ltac:(cbn in Hlen; lia)) as H.
    cbn [app] in H. cbn [combine].
    assert (Hinv : crt_inv m0 r0 [(r0, m0)]).
    { unfold crt_inv. split; [assumption|]. split; [|split; [|split]].
      - constructor; [|constructor]. unfold cong. cbn. rewrite Z.sub_diag. apply Z.divide_0_r.
      - constructor; [|constructor]. cbn. apply Z.divide_refl.
      - intros x Hx. exact (Forall_inv Hx).
      - cbn. unfold lcm_list. cbn. rewrite Z.lcm_1_l. lia. }
    specialize (H Hinv).
    destruct (crt_loop c m0 r0 rems mods) as [[x|]| | |]; cbn [crt_post] in *; try exact H.
    destruct H as (I1 & I2 & I3). split; [exact I1|]. split; [exact I2|].
    intros Hl. apply I3. left. destruct mods; [cbn in Hl; lia|congruence].
  - clear Hne Hpos. revert rems Hlen. induction mods as [|m mods IH]; intros rems Hlen.
    + destruct rems; reflexivity.
    + destruct rems as [|r rems]; [cbn in Hlen; lia|]. cbn. f_equal. apply IH. cbn in Hlen. lia.
Qed.

(* argument checks of crt *)
Theorem crt_exceptions c rems mods :
  (length rems < length mods)%nat \/ mods = [] -> nt_crt c rems mods = ErrExn EXN_SYMENGINE.
Proof.
  intros [H| ->]; unfold nt_crt.
  - apply Nat.ltb_lt in H. rewrite H. reflexivity.
  - destruct (length rems <? length (@nil Z))%nat; reflexivity.
Qed.
