(* C32 -- proofs, part 12: the integer n-th root used as the documented meaning of mpz_root
   (bisection over the bits) is the truncated root; perfect squares. *)
From SE Require Import C32.NtSpec.
From Coq Require Import Lia ZifyBool.
Local Open Scope Z_scope.

Lemma iroot_bits_spec : forall bits i n acc,
  1 <= n -> 0 <= acc -> acc ^ n <= i < (acc + 2 ^ Z.of_nat bits) ^ n ->
  let r := iroot_bits bits i n acc in acc <= r /\ r ^ n <= i < (r + 1) ^ n.
Proof.
  induction bits as [|b IH]; intros i n acc Hn Hacc Hb; cbn [iroot_bits].
  - change (2 ^ Z.of_nat 0) with 1 in Hb. cbv zeta. split; [lia|assumption].
  - rewrite Nat2Z.inj_succ, Z.pow_succ_r in Hb by lia.
    cbv zeta. pose proof (Z.pow_pos_nonneg 2 (Z.of_nat b) ltac:(lia) ltac:(lia)) as Hpos.
    destruct ((acc + 2 ^ Z.of_nat b) ^ n <=? i) eqn:E.
    + destruct (IH i n (acc + 2 ^ Z.of_nat b) Hn ltac:(lia)) as (H1 & H2).
      { split; [lia|]. replace (acc + 2 ^ Z.of_nat b + 2 ^ Z.of_nat b) with (acc + 2 * 2 ^ Z.of_nat b) by lia. lia. }
      split; [lia|assumption].
    + destruct (IH i n acc Hn Hacc) as (H1 & H2); [lia|]. split; assumption.
Qed.

Theorem iroot_correct i n :
  0 <= i -> 1 <= n -> 0 <= iroot i n /\ iroot i n ^ n <= i < (iroot i n + 1) ^ n.
Proof.
  intros Hi Hn. unfold iroot.
  set (bits := Z.to_nat (Z.log2 i / n + 1)).
  destruct (iroot_bits_spec bits i n 0 Hn ltac:(lia)) as (H1 & H2); [|split; assumption].
  rewrite Z.pow_0_l by lia. split; [assumption|].
  rewrite Z.add_0_l, <- Z.pow_mul_r by lia.
  unfold bits. pose proof (Z.log2_nonneg i).
  assert (0 <= Z.log2 i / n) by (apply Z.div_pos; lia).
  rewrite Z2Nat.id by lia.
  destruct (Z.eq_dec i 0) as [->|Hi0]; [apply Z.pow_pos_nonneg; nia|].
  pose proof (Z.log2_spec i ltac:(lia)) as Hl.
  assert (Z.log2 i < (Z.log2 i / n + 1) * n).
  { pose proof (Z.div_mod (Z.log2 i) n ltac:(lia)). pose proof (Z.mod_pos_bound (Z.log2 i) n ltac:(lia)). nia. }
  assert (2 ^ Z.succ (Z.log2 i) <= 2 ^ ((Z.log2 i / n + 1) * n)) by (apply Z.pow_le_mono_r; lia).
  lia.
Qed.

(* mp_root: exactness flag and truncated root *)
Theorem mp_root_correct i n :
  0 <= i -> 1 <= n ->
  let '(exact, r) := mp_root i n in
  0 <= r /\ r ^ n <= i < (r + 1) ^ n /\ (exact = true <-> exists c, 0 <= c /\ c ^ n = i).
Proof.
  intros Hi Hn. unfold mp_root. destruct (iroot_correct i n Hi Hn) as (H0 & H1).
  split; [assumption|]. split; [assumption|]. split.
  - intros E. exists (iroot i n). split; [assumption|lia].
  - intros (c & Hc & Hci). set (r := iroot i n) in *.
    destruct (Z.lt_trichotomy c r) as [H|[H|H]].
    + pose proof (Z.pow_lt_mono_l c r n ltac:(lia) ltac:(lia)). lia.
    + subst c. lia.
    + pose proof (Z.pow_le_mono_l (r + 1) c n ltac:(lia)). lia.
Qed.

Theorem perfect_square_correct i :
  mp_perfect_square_p i = true <-> exists c, c * c = i.
Proof.
  unfold mp_perfect_square_p. destruct (i <? 0) eqn:E.
  - split; [discriminate|]. intros (c & Hc). nia.
  - pose proof (Z.sqrt_spec i ltac:(lia)) as Hs. pose proof (Z.sqrt_nonneg i).
    set (r := Z.sqrt i) in *. unfold Z.succ in Hs. split.
    + intros H1. exists r. lia.
    + intros (c & Hc). assert (Hc' : Z.abs c * Z.abs c = i) by nia.
      assert (Z.abs c = r); [|nia].
      destruct (Z.lt_trichotomy (Z.abs c) r) as [H1|[H1|H1]]; [|assumption|].
      * assert (Z.abs c * Z.abs c < r * r) by nia. nia.
      * assert ((r + 1) * (r + 1) <= Z.abs c * Z.abs c) by nia. lia.
Qed.
