(* C32 obligation: primitive_root(n) returns a generator of the unit group modulo |n| when one exists and `false` when none exists, for every |n| <= 150 (complete evaluation) *)
From SE Require Import C32.NtBrute C32.NtBounded.
Local Open Scope Z_scope.
Theorem C32_primitive_root_bounded :
  forallb primitive_root_check (zrange (-150) 150) = true.
Proof. exact primitive_root_bounded. Qed.
Print Assumptions C32_primitive_root_bounded.
