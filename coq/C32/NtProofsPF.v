(* C32 -- proofs, part 10: prime_factors is the factorisation written out with repetitions
   (primes in nondecreasing order, product |n|); mertens is the sum of the Moebius values. *)
From SE Require Import C32.NtSpec C32.NtProofsFactor C32.NtProofsTotient.
From Coq Require Import Lia ZifyBool.
Local Open Scope Z_scope.
Local Open Scope res_scope.

Definition expand (l : list (Z * Z)) : list Z :=
  flat_map (fun pe => repeat (fst pe) (Z.to_nat (snd pe))) l.

Lemma expand_app l1 l2 : expand (l1 ++ l2) = expand l1 ++ expand l2.
Proof. unfold expand. apply flat_map_app. Qed.

Lemma expand_snoc l p k : expand (l ++ [(p, k)]) = expand l ++ repeat p (Z.to_nat k).
Proof. rewrite expand_app. unfold expand at 2. cbn [flat_map fst snd]. rewrite app_nil_r. reflexivity. Qed.

(* both loops run in lockstep *)
Lemma pf_pfm_lockstep limit : forall cnt p n' acc,
  2 <= p -> 0 < n' -> n' <> 1 -> Forall (fun pe => fst pe < p) acc ->
  pf_loop cnt p limit n' (expand acc)
  = (fst (pfm_loop cnt p limit n' acc), expand (snd (pfm_loop cnt p limit n' acc))).
Proof.
  induction cnt as [|c IH]; intros p n' acc Hp Hn Hn1 Hall; cbn [pf_loop pfm_loop]; [reflexivity|].
  destruct (limit <? p); [reflexivity|].
  assert (Hall' : Forall (fun pe : Z * Z => fst pe < p + 1) acc).
  { eapply Forall_impl; [|exact Hall]. cbn. intros; lia. }
  destruct (is_prime p) eqn:E2; [|apply IH; (assumption || lia)].
  destruct (divide_out_spec (divide_out_fuel n') n' p 0 Hp Hn (divide_out_fuel_ok n' Hn))
    as (k & Hk & Ed & E3 & E4 & E5).
  rewrite Ed, Z.add_0_l.
  destruct (0 <? k) eqn:E6.
  - rewrite map_insert_last by assumption.
    rewrite <- expand_snoc.
    destruct (Z.quot n' (p ^ k) =? 1) eqn:E7; [reflexivity|].
    apply IH; try lia.
    apply Forall_app. split; [assumption|]. constructor; [cbn; lia|constructor].
  - assert (k = 0) by lia. subst k. rewrite Z.pow_0_r, Z.quot_1_r in *.
    change (Z.to_nat 0) with O. cbn [repeat]. rewrite app_nil_r.
    destruct (n' =? 1) eqn:E7; [lia|].
    apply IH; assumption || lia.
Qed.

Lemma increasing_all_gt x l : increasing (x :: l) -> Forall (fun y => x < y) l.
Proof.
  revert x. induction l as [|y l IH]; intros x H; [constructor|].
  inversion H as [| |? ? ? Hxy Hinc]; subst. constructor; [assumption|].
  eapply Forall_impl; [|apply IH; exact Hinc]. cbn. intros; lia.
Qed.

Lemma increasing_tail x l : increasing (x :: l) -> increasing l.
Proof. intros H. inversion H; subst; [constructor|assumption]. Qed.

Lemma nondecreasing_repeat_app p k r :
  nondecreasing r -> Forall (fun y => p <= y) r -> nondecreasing (repeat p k ++ r).
Proof.
  intros Hr Hall. induction k as [|k IH]; cbn [repeat app]; [assumption|].
  destruct (repeat p k ++ r) as [|z t] eqn:E; [constructor|].
  constructor; [|exact IH].
  destruct k; cbn [repeat app] in E.
  - subst r. exact (Forall_inv Hall).
  - injection E as <- _. lia.
Qed.

Lemma expand_props l :
  Forall (fun pe : Z * Z => prime (fst pe) /\ 1 <= snd pe) l -> increasing (map fst l) ->
  Forall prime (expand l) /\ nondecreasing (expand l) /\ prod_list (expand l) = prod_pe l /\
  Forall (fun y => In y (map fst l)) (expand l).
Proof.
  induction l as [|[p e] l IH]; intros Hall Hinc.
  - repeat split; constructor.
  - pose proof (Forall_inv Hall) as (Hp & He). cbn [fst snd] in Hp, He.
    cbn [map fst] in Hinc.
    destruct (IH (Forall_inv_tail Hall) (increasing_tail _ _ Hinc)) as (I1 & I2 & I3 & I4).
    change (expand ((p, e) :: l)) with (repeat p (Z.to_nat e) ++ expand l).
    split; [|split; [|split]].
    + apply Forall_app. split; [|assumption]. apply Forall_forall. intros x Hx.
      apply repeat_spec in Hx. subst. assumption.
    + apply nondecreasing_repeat_app; [assumption|].
      pose proof (increasing_all_gt _ _ Hinc) as Hgt. rewrite Forall_forall in *.
      intros y Hy. specialize (I4 y Hy). specialize (Hgt y I4). lia.
    + unfold prod_pe. cbn [fold_right fst snd]. fold (prod_pe l). rewrite <- I3.
      clear - He. replace e with (Z.of_nat (Z.to_nat e)) at 2 by lia.
      induction (Z.to_nat e) as [|k IHk]; cbn [repeat app].
      * unfold prod_list. cbn [fold_right]. change (Z.of_nat 0) with 0. rewrite Z.pow_0_r. ring.
      * unfold prod_list in *. cbn [fold_right]. rewrite IHk, Nat2Z.inj_succ, Z.pow_succ_r by lia. ring.
    + apply Forall_app. split.
      * apply Forall_forall. intros x Hx. apply repeat_spec in Hx. subst. left. reflexivity.
      * eapply Forall_impl; [|exact I4]. cbn. intros; right; assumption.
Qed.

Theorem prime_factors_correct n :
  n <> 0 -> Z.sqrt (Z.abs n) <= UINT_MAX ->
  exists l, nt_prime_factors n = Ok l /\
            Forall prime l /\ nondecreasing l /\ prod_list l = Z.abs n.
Proof.
  intros Hn Hlim.
  destruct (factorisation_correct n Hn Hlim) as (fl & Efl & Hf).
  exists (expand fl).
  destruct Hf as (F1 & F2 & F3).
  destruct (expand_props fl F1 F2) as (P1 & P2 & P3 & _).
  split; [|split; [assumption|split; [assumption|congruence]]].
  revert Efl. unfold nt_prime_factors, nt_prime_factor_multiplicities, sieve_limit.
  destruct (n =? 0) eqn:E0; [lia|].
  destruct (UINT_MAX <? Z.sqrt (Z.abs n)) eqn:E1; [lia|]. cbn [bind].
  set (N := Z.abs n). set (limit := Z.sqrt N).
  assert (HN : 0 < N) by (unfold N; lia).
  clearbody N.
  destruct (Z.eq_dec N 1) as [HN1|HN1].
  { subst N. vm_compute. intros H. injection H as <-. reflexivity. }
  pose proof (pf_pfm_lockstep limit (Z.to_nat limit) 2 N [] ltac:(lia) HN HN1 ltac:(constructor)) as Hls.
  change (expand []) with (@nil Z) in Hls. rewrite Hls.
  assert (Hinv0 : pf_inv N 2 N []).
  { unfold pf_inv. split; [assumption|]. split; [unfold prod_pe; cbn [fold_right]; ring|].
    split; [intros d Hd; lia|]. split; constructor. }
  destruct (pfm_loop_spec N limit (Z.to_nat limit) 2 N [] ltac:(lia) Hinv0) as (p' & Hp' & Hi & Hr).
  { rewrite Z2Nat.id by apply Z.sqrt_nonneg. lia. }
  destruct (pfm_loop (Z.to_nat limit) 2 limit N []) as [n' l]. cbn [fst snd] in *.
  destruct (n' =? 1) eqn:E2.
  - intros H. injection H as <-. reflexivity.
  - destruct Hr as [Hr|Hr]; [lia|].
    destruct Hi as (H1 & H2 & H3 & H4 & H5).
    assert (Hge : p' <= n').
    { destruct (Z.le_gt_cases p' n'); [assumption|exfalso]. apply (H3 n'); [lia|apply Z.divide_refl]. }
    assert (Hall : Forall (fun pe => fst pe < n') l).
    { eapply Forall_impl; [|exact H4]. cbn. intros pe (?&?&?). lia. }
    rewrite map_insert_last by assumption.
    intros H. injection H as <-. rewrite expand_snoc. reflexivity.
Qed.

(* mertens(a) = sum of mobius(i), i = 1..a *)
Theorem mertens_correct a :
  0 <= a <= LONG_MAX ->
  exists s, nt_mertens a = Ok s /\
            forall f, (forall k, 1 <= k <= a -> nt_mobius k = Ok (f k)) ->
                      s = fold_right Z.add 0 (map f (map (fun j => 1 + Z.of_nat j) (seq 0 (Z.to_nat a)))).
Proof.
  intros Ha. unfold nt_mertens.
  destruct (mertens_loop_spec (Z.to_nat a) 1 0 ltac:(lia) ltac:(lia)) as (s & E & Hs).
  exists s. split; [rewrite E; f_equal; lia|].
  intros f Hf. apply Hs. intros k Hk. apply Hf. lia.
Qed.
