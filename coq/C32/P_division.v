(* C32 obligation: mod, quotient, quotient_mod follow the truncating convention (remainder has the sign of the dividend) and mod_f, quotient_f, quotient_mod_f the flooring convention (remainder has the sign of the divisor), for every dividend and every non-zero divisor *)
From SE Require Import C32.NtSpec C32.NtProofsDiv.
Local Open Scope Z_scope.
Theorem C32_division :
  forall n d : Z, d <> 0 ->
  exists q r q' r',
    nt_quotient_mod n d = Ok (q, r) /\ nt_quotient n d = Ok q /\ nt_mod n d = Ok r /\
    trunc_div_spec n d q r /\
    nt_quotient_mod_f n d = Ok (q', r') /\ nt_quotient_f n d = Ok q' /\ nt_mod_f n d = Ok r' /\
    floor_div_spec n d q' r'.
Proof. exact division_correct. Qed.
Print Assumptions C32_division.
