(* C32 -- proofs, part 11: mp_perfect_power_decomposition terminates within its fuel and returns
   the highest (or, on request, the lowest) exponent for which n is a perfect power. *)
From SE Require Import C32.NtSpec.
From Coq Require Import Lia ZifyBool.
Local Open Scope Z_scope.
Local Open Scope res_scope.

Lemma pow_lt_mono a b p : 0 <= a < b -> 1 <= p -> a ^ p < b ^ p.
Proof. intros. apply Z.pow_lt_mono_l; lia. Qed.

Lemma pow_le_mono a b p : 0 <= a <= b -> 0 <= p -> a ^ p <= b ^ p.
Proof. intros. apply Z.pow_le_mono_l; lia. Qed.

(* the bisection: i^p <= n < j^p is kept, the interval halves *)
Lemma ppd_bisect_spec : forall f n p i j,
  1 <= p -> 0 <= i < j -> i ^ p <= n < j ^ p -> j - i <= 2 ^ Z.of_nat f ->
  exists r, ppd_bisect (S f) n p i j = Ok r /\ i <= r /\ r ^ p <= n < (r + 1) ^ p.
Proof.
  induction f as [|f IH]; intros n p i j Hp Hij Hb Hd.
  - change (2 ^ Z.of_nat 0) with 1 in Hd. cbn [ppd_bisect].
    destruct (i + 1 <? j) eqn:E; [lia|]. exists i. assert (j = i + 1) by lia. subst j.
    split; [reflexivity|]. split; [lia|assumption].
  - cbn [ppd_bisect]. destruct (i + 1 <? j) eqn:E.
    + set (m := Z.quot (i + j) 2).
      assert (Hm : i < m < j /\ 2 * m <= i + j <= 2 * m + 1).
      { unfold m. pose proof (Z.quot_rem' (i + j) 2). pose proof (Z.rem_bound_pos (i + j) 2). lia. }
      rewrite Nat2Z.inj_succ, Z.pow_succ_r in Hd by lia.
      destruct (n <? m ^ p) eqn:E2.
      * destruct (IH n p i m Hp ltac:(lia) ltac:(lia) ltac:(lia)) as (r & Er & H1 & H2).
        exists r. split; [exact Er|]. split; assumption.
      * destruct (IH n p m j Hp ltac:(lia) ltac:(lia) ltac:(lia)) as (r & Er & H1 & H2).
        exists r. split; [exact Er|]. split; [lia|assumption].
    + exists i. assert (j = i + 1) by lia. subst j. split; [reflexivity|]. split; [lia|assumption].
Qed.

(* an exact p-th root, if there is one, is what the bisection finds *)
Lemma root_unique r c p n :
  1 <= p -> 0 <= r -> 0 <= c -> r ^ p <= n < (r + 1) ^ p -> c ^ p = n -> c = r.
Proof.
  intros Hp Hr Hc Hb Hcn.
  destruct (Z.lt_trichotomy c r) as [H|[H|H]]; [exfalso|assumption|exfalso].
  - pose proof (pow_lt_mono c r p ltac:(lia) Hp). lia.
  - pose proof (pow_le_mono (r + 1) c p ltac:(lia) ltac:(lia)). lia.
Qed.

Definition ppd_best (n p : Z) (lowest : bool) (best : Z * Z) : Prop :=
  fst best ^ snd best = n /\
  ((snd best = 1 /\ fst best = n /\ forall k, 2 <= k < p -> ~ perfect_power n k) \/
   (lowest = false /\ 2 <= snd best < p /\ 2 <= fst best /\
    forall k, 2 <= k < p -> perfect_power n k -> k <= snd best)).

Definition ppd_final (n : Z) (lowest : bool) (r : Z * Z) : Prop :=
  fst r ^ snd r = n /\
  ((snd r = 1 /\ fst r = n /\ forall k, 2 <= k -> ~ perfect_power n k) \/
   (2 <= snd r /\ 2 <= fst r /\
    if lowest then forall k, 2 <= k < snd r -> ~ perfect_power n k
    else forall k, 2 <= k -> perfect_power n k -> k <= snd r)).

Lemma no_power_beyond n p k : 2 <= p -> n < 2 ^ p -> p <= k -> ~ perfect_power n k.
Proof.
  intros Hp Hn Hk (c & Hc & Hck).
  pose proof (pow_le_mono 2 c k ltac:(lia) ltac:(lia)).
  pose proof (Z.pow_le_mono_r 2 p k ltac:(lia) Hk). lia.
Qed.

Lemma ppd_loop_spec : forall fuel n p lowest best,
  2 <= p -> 2 <= n -> 2 ^ (p - 1) <= n -> n < 2 ^ (p - 1 + Z.of_nat fuel) ->
  ppd_best n p lowest best ->
  exists r, ppd_loop fuel n p lowest best = Ok r /\ ppd_final n lowest r.
Proof.
  induction fuel as [|f IH]; intros n p lowest best Hp Hn Hlo Hhi Hbest.
  - rewrite Z.add_0_r in Hhi. lia.
  - cbn [ppd_loop]. destruct (2 ^ p <=? n) eqn:E1.
    + assert (Hnp : n < n ^ p).
      { assert (A1 : 2 ^ 1 <= 2 ^ (p - 1)) by (apply Z.pow_le_mono_r; lia).
        pose proof (pow_le_mono 2 n (p - 1) ltac:(lia) ltac:(lia)) as A2.
        change (2 ^ 1) with 2 in A1.
        replace p with ((p - 1) + 1) by lia. rewrite Z.pow_add_r, Z.pow_1_r by lia.
        assert (2 * n <= n ^ (p - 1) * n) by (apply Z.mul_le_mono_nonneg_r; lia). lia. }
      assert (H4 : 2 ^ 2 <= 2 ^ p) by (apply Z.pow_le_mono_r; lia). change (2 ^ 2) with 4 in H4.
      destruct (ppd_bisect_spec (S (Z.to_nat (Z.log2 n))) n p 2 n ltac:(lia) ltac:(lia) ltac:(lia))
        as (r & Er & Hr2 & Hrb).
      { rewrite Nat2Z.inj_succ, Z2Nat.id by apply Z.log2_nonneg.
        pose proof (Z.log2_spec n ltac:(lia)). lia. }
      rewrite Er. cbn [bind].
      assert (Hfuel : n < 2 ^ (p + 1 - 1 + Z.of_nat f)).
      { replace (p + 1 - 1 + Z.of_nat f) with (p - 1 + Z.of_nat (S f)) by lia. exact Hhi. }
      assert (Hlo' : 2 ^ (p + 1 - 1) <= n) by (replace (p + 1 - 1) with p by lia; lia).
      destruct (r ^ p =? n) eqn:E2.
      * destruct lowest.
        -- exists (r, p). split; [reflexivity|]. unfold ppd_final. cbn [fst snd].
           split; [lia|]. right. split; [lia|]. split; [lia|].
           destruct Hbest as (_ & [(_ & _ & Hno)|(Hl & _)]); [exact Hno|discriminate].
        -- apply IH; try assumption; try lia.
           unfold ppd_best. cbn [fst snd]. split; [lia|]. right.
           split; [reflexivity|]. split; [lia|]. split; [lia|]. intros k Hk _. lia.
      * assert (Hnot : ~ perfect_power n p).
        { intros (c & Hc & Hcp). pose proof (root_unique r c p n ltac:(lia) ltac:(lia) ltac:(lia) Hrb Hcp). subst c. lia. }
        apply IH; try assumption; try lia.
        destruct Hbest as (Hb1 & [(Hb2 & Hb3 & Hno)|(Hl & Hb2 & Hb3 & Hmax)]); unfold ppd_best.
        -- split; [assumption|]. left. split; [assumption|]. split; [assumption|].
           intros k Hk. destruct (Z.eq_dec k p) as [->|]; [assumption|apply Hno; lia].
        -- split; [assumption|]. right. split; [assumption|]. split; [lia|]. split; [assumption|].
           intros k Hk Hpp. destruct (Z.eq_dec k p) as [->|]; [contradiction|apply Hmax; [lia|assumption]].
    + exists best. split; [reflexivity|]. assert (Hn2 : n < 2 ^ p) by lia.
      destruct Hbest as (Hb1 & [(Hb2 & Hb3 & Hno)|(Hl & Hb2 & Hb3 & Hmax)]); unfold ppd_final.
      * split; [assumption|]. left. split; [assumption|]. split; [assumption|].
        intros k Hk. destruct (Z.lt_ge_cases k p); [apply Hno; lia|].
        apply (no_power_beyond n p k); lia.
      * split; [assumption|]. right. split; [lia|]. split; [assumption|]. subst lowest.
        intros k Hk Hpp. destruct (Z.lt_ge_cases k p); [apply Hmax; [lia|assumption]|].
        exfalso. apply (no_power_beyond n p k); try lia. assumption.
Qed.

Theorem perfect_power_decomposition_correct n lowest :
  1 <= n ->
  exists r, nt_perfect_power_decomposition n lowest = Ok r /\ ppd_final n lowest r.
Proof.
  intros Hn. unfold nt_perfect_power_decomposition.
  destruct (Z.eq_dec n 1) as [->|Hn1].
  { exists (1, 1). split; [reflexivity|]. unfold ppd_final. cbn [fst snd]. split; [reflexivity|].
    left. split; [reflexivity|]. split; [reflexivity|].
    intros k Hk (c & Hc & Hck). pose proof (pow_le_mono 2 c k ltac:(lia) ltac:(lia)).
    assert (2 ^ 1 <= 2 ^ k) by (apply Z.pow_le_mono_r; lia). lia. }
  apply ppd_loop_spec; try lia.
  - replace (2 - 1 + Z.of_nat (S (S (Z.to_nat (Z.log2 n))))) with (Z.log2 n + 3).
    + pose proof (Z.log2_spec n ltac:(lia)).
      assert (2 ^ Z.succ (Z.log2 n) <= 2 ^ (Z.log2 n + 3)) by (apply Z.pow_le_mono_r; lia). lia.
    + pose proof (Z.log2_nonneg n). lia.
  - unfold ppd_best. cbn [fst snd]. split; [apply Z.pow_1_r|]. left.
    split; [reflexivity|]. split; [reflexivity|]. intros k Hk. lia.
Qed.
