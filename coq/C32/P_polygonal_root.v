(* C32 obligation: the principal polygonal root r of x satisfies P(s, r) <= x < P(s, r + 1), and the root of P(s, n) is n *)
From SE Require Import C32.NtSpec C32.NtProofsMisc.
Local Open Scope Z_scope.
Theorem C32_polygonal_root :
  forall s x : Z, 3 <= s -> 1 <= x ->
  (exists r, nt_principal_polygonal_root s x = Ok r /\ 1 <= r /\
             poly2 s r <= 2 * x < poly2 s (r + 1)) /\
  nt_principal_polygonal_root s (nt_polygonal_number s x) = Ok x.
Proof. exact (fun s x Hs Hx => conj (polygonal_root_correct s x Hs Hx) (polygonal_root_of_number s x Hs Hx)). Qed.
Print Assumptions C32_polygonal_root.
