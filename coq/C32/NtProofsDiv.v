(* C32 -- proofs, part 1: the two division conventions, gcd, lcm, divides. *)
From SE Require Import C32.NtSpec.
From Coq Require Import Lia ZifyBool.
Local Open Scope Z_scope.
Local Open Scope res_scope.

Lemma abs_mul_lt_1 d k : Z.abs (d * k) < Z.abs d -> k = 0.
Proof.
  rewrite Z.abs_mul. intros H.
  destruct (Z.eq_dec k 0) as [|Hk]; [assumption|exfalso].
  assert (1 <= Z.abs k) by lia.
  assert (Z.abs d * 1 <= Z.abs d * Z.abs k) by (apply Z.mul_le_mono_nonneg_l; lia).
  lia.
Qed.

Lemma trunc_div_unique n d q r q' r' :
  trunc_div_spec n d q r -> trunc_div_spec n d q' r' -> q = q' /\ r = r'.
Proof.
  unfold trunc_div_spec. intros (H1&H2&H3) (H4&H5&H6).
  assert (E : r' - r = d * (q - q')) by lia.
  assert (B : Z.abs (d * (q - q')) < Z.abs d) by (rewrite <- E; lia).
  apply abs_mul_lt_1 in B. lia.
Qed.

Lemma floor_div_unique n d q r q' r' :
  floor_div_spec n d q r -> floor_div_spec n d q' r' -> q = q' /\ r = r'.
Proof.
  unfold floor_div_spec. intros (H1&H2) (H4&H5).
  assert (E : r' - r = d * (q - q')) by lia.
  assert (B : Z.abs (d * (q - q')) < Z.abs d) by (rewrite <- E; lia).
  apply abs_mul_lt_1 in B. lia.
Qed.

Lemma tdiv_qr_spec n d :
  d <> 0 -> exists q r, tdiv_qr n d = Ok (q, r) /\ trunc_div_spec n d q r.
Proof.
  intros Hd. unfold tdiv_qr. destruct (d =? 0) eqn:E; [lia|].
  eexists _, _. split; [reflexivity|]. unfold trunc_div_spec.
  pose proof (Z.quot_rem' n d) as H1. pose proof (Z.rem_bound_abs n d Hd) as H2.
  pose proof (Z.rem_sign_mul n d Hd) as H3.
  split; [exact H1|]. split; [exact H2|].
  set (r := Z.rem n d) in *.
  destruct (Z.lt_trichotomy r 0) as [Hr|[Hr|Hr]]; [|left; exact Hr|].
  - right; right. split; [assumption|].
    destruct (Z.lt_trichotomy n 0) as [Hn|[Hn|Hn]]; [assumption| |].
    + subst n. unfold r in Hr. rewrite Z.rem_0_l in Hr by assumption. lia.
    + pose proof (Z.mul_neg_pos r n Hr Hn). lia.
  - right; left. split; [assumption|].
    destruct (Z.lt_trichotomy n 0) as [Hn|[Hn|Hn]]; [| |assumption].
    + pose proof (Z.mul_pos_neg r n Hr Hn). lia.
    + subst n. unfold r in Hr. rewrite Z.rem_0_l in Hr by assumption. lia.
Qed.

Lemma fdiv_qr_spec n d :
  d <> 0 -> exists q r, fdiv_qr n d = Ok (q, r) /\ floor_div_spec n d q r.
Proof.
  intros Hd. unfold fdiv_qr.
  destruct (tdiv_qr_spec n d Hd) as (q & r & -> & (H1 & H2 & H3)).
  cbn [bind]. eexists _, _. split; [reflexivity|]. unfold floor_div_spec.
  destruct (n <? 0) eqn:?, (0 <? d) eqn:?, (0 <? n) eqn:?, (d <? 0) eqn:?,
           (r =? 0) eqn:?, (r <? 0) eqn:?, (0 <? r) eqn:?; cbn [andb orb negb]; lia.
Qed.

Lemma cdiv_qr_spec n d :
  d <> 0 -> exists q r, cdiv_qr n d = Ok (q, r) /\ ceil_div_spec n d q r.
Proof.
  intros Hd. unfold cdiv_qr.
  destruct (tdiv_qr_spec n d Hd) as (q & r & -> & (H1 & H2 & H3)).
  cbn [bind]. eexists _, _. split; [reflexivity|]. unfold ceil_div_spec.
  destruct (n <? 0) eqn:?, (0 <? d) eqn:?, (0 <? n) eqn:?, (d <? 0) eqn:?,
           (r =? 0) eqn:?, (r <? 0) eqn:?, (0 <? r) eqn:?; cbn [andb orb negb]; lia.
Qed.

Lemma fdiv_qr_div_mod n d : d <> 0 -> fdiv_qr n d = Ok (n / d, n mod d).
Proof.
  intros Hd. destruct (fdiv_qr_spec n d Hd) as (q & r & -> & Hs).
  assert (floor_div_spec n d (n / d) (n mod d)).
  { unfold floor_div_spec. pose proof (Z.div_mod n d Hd).
    pose proof (Z.mod_pos_bound n d). pose proof (Z.mod_neg_bound n d). lia. }
  destruct (floor_div_unique _ _ _ _ _ _ Hs H) as [-> ->]. reflexivity.
Qed.

Lemma fdiv_r_mod n d : d <> 0 -> fdiv_r n d = Ok (n mod d).
Proof. intros. unfold fdiv_r. rewrite fdiv_qr_div_mod by assumption. reflexivity. Qed.

Lemma tdiv_q_quot n d : d <> 0 -> tdiv_q n d = Ok (Z.quot n d).
Proof. intros. unfold tdiv_q, tdiv_qr. destruct (d =? 0) eqn:E; [lia|reflexivity]. Qed.

Lemma tdiv_r_rem n d : d <> 0 -> tdiv_r n d = Ok (Z.rem n d).
Proof. intros. unfold tdiv_r, tdiv_qr. destruct (d =? 0) eqn:E; [lia|reflexivity]. Qed.

(* the six functions of ntheory.cpp *)
Theorem division_correct n d :
  d <> 0 ->
  exists q r q' r',
    nt_quotient_mod n d = Ok (q, r) /\ nt_quotient n d = Ok q /\ nt_mod n d = Ok r /\
    trunc_div_spec n d q r /\
    nt_quotient_mod_f n d = Ok (q', r') /\ nt_quotient_f n d = Ok q' /\ nt_mod_f n d = Ok r' /\
    floor_div_spec n d q' r'.
Proof.
  intros Hd.
  destruct (tdiv_qr_spec n d Hd) as (q & r & E1 & S1).
  destruct (fdiv_qr_spec n d Hd) as (q' & r' & E2 & S2).
  exists q, r, q', r'.
  unfold nt_quotient_mod, nt_quotient, nt_mod, nt_quotient_mod_f, nt_quotient_f, nt_mod_f, nz,
    tdiv_q, tdiv_r, fdiv_q, fdiv_r.
  destruct (d =? 0) eqn:E0; [lia|].
  rewrite E1, E2. cbn [bind]. repeat split; try reflexivity; try apply S1; apply S2.
Qed.

Theorem division_by_zero n :
  nt_quotient_mod n 0 = ErrExn EXN_DIVZERO /\ nt_quotient_mod_f n 0 = ErrExn EXN_DIVZERO /\
  nt_mod n 0 = ErrExn EXN_DIVZERO /\ nt_quotient n 0 = ErrExn EXN_DIVZERO /\
  nt_mod_f n 0 = ErrExn EXN_DIVZERO /\ nt_quotient_f n 0 = ErrExn EXN_DIVZERO.
Proof. repeat split; reflexivity. Qed.

(* ------------------------------------------------------------------ *)
(** * gcd, lcm, divides *)

Theorem gcd_lcm_correct a b :
  is_gcd (nt_gcd a b) a b /\ is_lcm (nt_lcm a b) a b /\
  (nt_divides a b = true <-> (b | a)).
Proof.
  unfold is_gcd, is_lcm, nt_gcd, nt_lcm, nt_divides, divisible. repeat split.
  - apply Z.gcd_nonneg.
  - apply Z.gcd_divide_l.
  - apply Z.gcd_divide_r.
  - intros; now apply Z.gcd_greatest.
  - apply Z.lcm_nonneg.
  - apply Z.divide_lcm_l.
  - apply Z.divide_lcm_r.
  - intros; now apply Z.lcm_least.
  - destruct (b =? 0) eqn:E.
    + intros H. assert (a = 0) by lia. assert (b = 0) by lia. subst. apply Z.divide_0_r.
    + intros H. apply Z.rem_divide; lia.
  - intros H. destruct (b =? 0) eqn:E.
    + assert (b = 0) by lia. subst. apply Z.divide_0_l in H. lia.
    + apply Z.rem_divide in H; lia.
Qed.
