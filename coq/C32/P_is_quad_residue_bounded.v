(* C32 obligation: is_quad_residue(a, p) says whether a is a square modulo |p|, for all |a| <= 40, 1 <= |p| <= 60 (boost configuration: p > 0) (complete evaluation) *)
From SE Require Import C32.NtBrute C32.NtBounded.
Local Open Scope Z_scope.
Theorem C32_is_quad_residue_bounded :
  forallb (fun p => forallb (quad_residue_check p) (zrange (-40) 40)) (nonzero_range 60) = true.
Proof. exact is_quad_residue_bounded. Qed.
Print Assumptions C32_is_quad_residue_bounded.
