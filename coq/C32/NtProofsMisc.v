(* C32 -- proofs, part 9: polygonal numbers and roots, perfect-power decomposition (soundness),
   and the witnesses of the defects transcribed by the model. *)
From SE Require Import C32.NtSpec.
From Coq Require Import Lia ZifyBool.
Local Open Scope Z_scope.
Local Open Scope res_scope.

(* ------------------------------------------------------------------ *)
(** * polygonal numbers *)

Lemma consecutive_even n : exists k, n * (n - 1) = 2 * k.
Proof.
  destruct (Z.Even_or_Odd n) as [(m & ->)|(m & ->)].
  - exists (m * (2 * m - 1)). ring.
  - exists ((2 * m + 1) * m). ring.
Qed.

(* the division by two in mp_polygonal_number is exact, for all integers *)
Theorem polygonal_number_correct s n :
  2 * nt_polygonal_number s n = (s - 2) * n * n - (s - 4) * n.
Proof.
  unfold nt_polygonal_number. destruct (consecutive_even n) as (k & Hk).
  replace ((s - 2) * n * n - (s - 4) * n) with ((s * k - n * n + 2 * n) * 2) by nia.
  rewrite Z.quot_mul by lia. ring.
Qed.


Theorem polygonal_root_correct s x :
  3 <= s -> 1 <= x ->
  exists r, nt_principal_polygonal_root s x = Ok r /\ 1 <= r /\
            poly2 s r <= 2 * x < poly2 s (r + 1).
Proof.
  intros Hs Hx. unfold nt_principal_polygonal_root.
  replace ((s - 4) ^ 2) with ((s - 4) * (s - 4)) by ring.
  set (c := s - 2). set (e := s - 4).
  set (D := 8 * x * c + e * e).
  assert (Hc : 1 <= c) by (unfold c; lia).
  assert (HD : s * s <= D) by (unfold D, c, e; nia).
  destruct (D <? 0) eqn:E0; [nia|].
  set (t := Z.sqrt D).
  pose proof (Z.sqrt_spec D ltac:(nia)) as Ht. fold t in Ht. unfold Z.succ in Ht.
  assert (Hts : s <= t) by (apply Z.sqrt_le_square; nia).
  unfold tdiv_q, tdiv_qr. destruct (2 * c =? 0) eqn:E1; [lia|]. cbn [bind].
  replace (t + s - 4) with (t + e) by (unfold e; lia).
  set (r := Z.quot (t + e) (2 * c)).
  assert (Hr : 2 * c * r <= t + e < 2 * c * (r + 1)).
  { unfold r. rewrite Z.quot_div_nonneg by (unfold e; lia).
    pose proof (Z.div_mod (t + e) (2 * c) ltac:(lia)).
    pose proof (Z.mod_pos_bound (t + e) (2 * c) ltac:(lia)). lia. }
  assert (Hr1 : 1 <= r).
  { destruct (Z.le_gt_cases 1 r); [assumption|exfalso].
    assert (2 * c * (r + 1) <= 2 * c * 1) by (apply Z.mul_le_mono_nonneg_l; lia).
    unfold c, e in *. lia. }
  exists r. split; [reflexivity|]. split; [assumption|].
  unfold poly2. fold c e.
  (* u = 2cr - e and v = 2c(r+1) - e bracket t *)
  set (u := 2 * c * r - e). set (v := 2 * c * (r + 1) - e).
  assert (Hu : 0 <= u <= t).
  { unfold u. split; [|lia].
    assert (2 * c * 1 <= 2 * c * r) by (apply Z.mul_le_mono_nonneg_l; lia). unfold c, e in *. lia. }
  assert (Hv : t + 1 <= v) by (unfold v; lia).
  assert (Huu : u * u <= D).
  { transitivity (t * t); [|lia]. apply Z.mul_le_mono_nonneg; lia. }
  assert (Hvv : D < v * v).
  { assert ((t + 1) * (t + 1) <= v * v) by (apply Z.mul_le_mono_nonneg; lia). lia. }
  assert (Eu : u * u = 4 * c * (c * r * r - e * r) + e * e) by (unfold u; ring).
  assert (Ev : v * v = 4 * c * (c * (r + 1) * (r + 1) - e * (r + 1)) + e * e) by (unfold v; ring).
  unfold D in Huu, Hvv.
  split.
  - apply (Z.mul_le_mono_pos_l _ _ (4 * c)); [lia|]. lia.
  - apply (Z.mul_lt_mono_pos_l (4 * c)); [lia|]. lia.
Qed.

(* the polygonal numbers increase with the index, so the root of P(s, n) is n *)
Lemma poly2_step s k : poly2 s (k + 1) - poly2 s k = 2 * (s - 2) * k + 2.
Proof. unfold poly2. ring. Qed.

Lemma poly2_mono s : 3 <= s -> forall d a, 0 <= a -> poly2 s a <= poly2 s (a + Z.of_nat d).
Proof.
  intros Hs. induction d as [|d IH]; intros a Ha.
  - rewrite Z.add_0_r. lia.
  - specialize (IH a Ha). rewrite Nat2Z.inj_succ.
    replace (a + Z.succ (Z.of_nat d)) with ((a + Z.of_nat d) + 1) by lia.
    pose proof (poly2_step s (a + Z.of_nat d)).
    assert (0 <= 2 * (s - 2) * (a + Z.of_nat d)) by nia. lia.
Qed.

Theorem polygonal_root_of_number s n :
  3 <= s -> 1 <= n ->
  nt_principal_polygonal_root s (nt_polygonal_number s n) = Ok n.
Proof.
  intros Hs Hn.
  pose proof (polygonal_number_correct s n) as Hp. fold (poly2 s n) in Hp.
  assert (Hx : 1 <= nt_polygonal_number s n).
  { pose proof (poly2_mono s Hs (Z.to_nat (n - 1)) 1 ltac:(lia)) as Hm.
    replace (1 + Z.of_nat (Z.to_nat (n - 1))) with n in Hm by lia.
    unfold poly2 in Hm at 1. lia. }
  destruct (polygonal_root_correct s _ Hs Hx) as (r & E & Hr1 & Hlo & Hhi).
  rewrite E. f_equal. rewrite Hp in Hlo, Hhi.
  destruct (Z.lt_trichotomy r n) as [Hlt|[Heq|Hgt]]; [exfalso|assumption|exfalso].
  - pose proof (poly2_mono s Hs (Z.to_nat (n - (r + 1))) (r + 1) ltac:(lia)) as Hm.
    replace (r + 1 + Z.of_nat (Z.to_nat (n - (r + 1)))) with n in Hm by lia. lia.
  - pose proof (poly2_mono s Hs (Z.to_nat (r - (n + 1))) (n + 1) ltac:(lia)) as Hm.
    replace (n + 1 + Z.of_nat (Z.to_nat (r - (n + 1)))) with r in Hm by lia.
    pose proof (poly2_step s n). assert (0 <= 2 * (s - 2) * n) by nia. lia.
Qed.

(* ------------------------------------------------------------------ *)
(** * perfect power decomposition: soundness *)

Lemma ppd_loop_sound : forall fuel n p lowest best r,
  2 <= p -> fst best ^ snd best = n /\ 1 <= snd best ->
  ppd_loop fuel n p lowest best = Ok r -> fst r ^ snd r = n /\ 1 <= snd r.
Proof.
  induction fuel as [|f IH]; intros n p lowest best r Hp Hb H; cbn [ppd_loop] in H; [discriminate|].
  destruct (2 ^ p <=? n) eqn:E1.
  - destruct (ppd_bisect (S (S (Z.to_nat (Z.log2 n)))) n p 2 n) as [i| | |]; cbn [bind] in H; try discriminate.
    destruct (i ^ p =? n) eqn:E2.
    + destruct lowest.
      * injection H as <-. cbn [fst snd]. split; lia.
      * eapply IH; [| |exact H]; [lia|]. cbn [fst snd]. split; lia.
    + eapply IH; [| |exact H]; [lia|assumption].
  - injection H as <-. assumption.
Qed.

Theorem perfect_power_decomposition_sound n lowest b e :
  nt_perfect_power_decomposition n lowest = Ok (b, e) -> b ^ e = n /\ 1 <= e.
Proof.
  unfold nt_perfect_power_decomposition. intros H.
  apply (ppd_loop_sound _ n 2 lowest (n, 1) (b, e)) in H; [exact H|lia|].
  cbn [fst snd]. rewrite Z.pow_1_r. lia.
Qed.

(* ------------------------------------------------------------------ *)
(** * defects of the code, as transcribed by the model *)

(* crt with a single modulus returns the remainder unreduced *)
Theorem crt_single_modulus_not_reduced :
  exists c r m, 0 < m /\ nt_crt c [r] [m] = Ok (Some r) /\ ~ (0 <= r < m).
Proof. exists GMP, 22, 21. split; [lia|]. split; [reflexivity|lia]. Qed.

(* is_nth_residue does not normalise a negative a: -1 is reported to be a square modulo 4 *)
Theorem is_nth_residue_negative_refuted :
  nt_is_nth_residue (-1) 2 4 = Ok true /\ forall x, ~ cong 4 (x * x) (-1).
Proof.
  split; [vm_compute; reflexivity|]. intros x (k & Hk).
  destruct (Z.Even_or_Odd x) as [(m & ->)|(m & ->)]; lia.
Qed.

(* is_nth_residue divides by the exponent: n = 0 is a division by zero (the process dies) *)
Theorem is_nth_residue_zero_exponent_crash :
  nt_is_nth_residue 2 0 4 = ErrExn EXN_FPE.
Proof. vm_compute. reflexivity. Qed.

(* Lehman's method starts at floor(sqrt(4kn)) instead of the ceiling and misses 35 = 5 * 7 *)
Theorem lehman_misses_factor :
  nt_factor_lehman 35 = Ok None /\ 35 = 5 * 7.
Proof. split; [vm_compute; reflexivity|reflexivity]. Qed.

(* boost configuration: is_quad_residue passes the negative modulus to mp_jacobi, which throws *)
Theorem boost_is_quad_residue_negative_modulus :
  nt_is_quad_residue BOOST 5 (-9) = ErrExn EXN_STD /\ nt_is_quad_residue GMP 5 (-9) = Ok false.
Proof. split; vm_compute; reflexivity. Qed.

