(* C32 obligation: the unguarded statement (result always reduced modulo the lcm) is false: with a single modulus crt returns the remainder as it is *)
From SE Require Import C32.NtSpec C32.NtProofsMisc.
Local Open Scope Z_scope.
Theorem C32_crt_reduced_refuted :
  exists c r m, 0 < m /\ nt_crt c [r] [m] = Ok (Some r) /\ ~ (0 <= r < m).
Proof. exact crt_single_modulus_not_reduced. Qed.
Print Assumptions C32_crt_reduced_refuted.
