(* C32 obligation: mp_powm with a non-negative exponent is a^e mod |m| in [0, |m|): GMP's mpz_powm for every non-zero modulus, the mp_boost.cpp version for positive moduli *)
From SE Require Import C32.NtSpec C32.NtProofsPowm.
Local Open Scope Z_scope.
Theorem C32_mp_powm_guarded :
  forall (c : cfg) (a e m : Z),
  0 <= e -> (c = GMP /\ m <> 0) \/ 0 < m -> mp_powm c a e m = Ok ((a ^ e) mod (Z.abs m)).
Proof. exact mp_powm_correct. Qed.
Print Assumptions C32_mp_powm_guarded.
