(* C32 obligation: mp_powm with a non-negative exponent is a^e mod |m| in [0, |m|), for every non-zero modulus, in both configurations (mpz_powm; mp_boost.cpp corrects boost's truncated result by |m|) *)
From SE Require Import C32.NtSpec C32.NtProofsPowm.
Local Open Scope Z_scope.
Theorem C32_mp_powm :
  forall (c : cfg) (a e m : Z),
  0 <= e -> m <> 0 -> mp_powm c a e m = Ok ((a ^ e) mod (Z.abs m)).
Proof. exact mp_powm_correct. Qed.
Print Assumptions C32_mp_powm.
