(* C32 obligation: powermod with an integer exponent: a^b mod |m| for b >= 0; for b < 0 the inverse of a^|b| when it is invertible and `false` otherwise *)
From SE Require Import C32.NtSpec C32.NtProofsPowm.
Local Open Scope Z_scope.
Theorem C32_powermod :
  forall (c : cfg) (a b m : Z),
  m <> 0 ->
  (0 <= b -> nt_powermod c a b m = Ok (Some ((a ^ b) mod (Z.abs m)))) /\
  (b < 0 ->
   let p := (a ^ (- b)) mod (Z.abs m) in
   (Z.gcd p m = 1 -> exists x, nt_powermod c a b m = Ok (Some x) /\ is_inverse x p m) /\
   (Z.gcd p m <> 1 -> nt_powermod c a b m = Ok None)).
Proof. exact powermod_correct. Qed.
Print Assumptions C32_powermod.
