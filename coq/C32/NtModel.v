(* C32 -- executable model of symengine/ntheory.cpp on top of the multiprecision
   primitives of symengine/mp_class.h.

   Layer 1 (section "mp primitives") transcribes symengine/mp_boost.cpp, SymEngine's own
   implementation of the GMP-like primitives for the boost.multiprecision configuration
   (mp_fdiv_qr, mp_gcdext, mp_invert, mp_powm, mp_root, mp_fib_ui, mp_lucnum_ui, mp_fac_ui,
   mp_bin_ui, mp_legendre, mp_jacobi, mp_kronecker, mp_perfect_power_p ...).  In the GMP
   configuration the same names are thin wrappers around GMP functions, whose documented
   meaning is what the theorems of NtProofs.v establish for the transcriptions; the few points
   where the two configurations differ are carried by the parameter [cfg].
   Externals (not SymEngine code): truncated division [Z.quot/Z.rem] (mpz_tdiv_qr,
   boost divide_qr, operators / and %), [Z.gcd], [Z.lcm], [Z.pow], [Z.sqrt] (mpz_sqrt),
   boost::multiprecision::powm (= (a^e) rem m, modelled by [tpowm]), mpz_powm (= (a^e) mod |m|),
   primality tests (mpz_probab_prime_p / miller_rabin_test, modelled by trial division
   [is_prime]), and Sieve::iterator (C33: yields exactly the primes in increasing order).

   Layer 2 transcribes ntheory.cpp branch by branch.  Division by zero inside the
   multiprecision layer (SIGFPE in GMP, std::overflow_error in boost) is [ErrExn EXN_FPE],
   DivisionByZeroError is [ErrExn EXN_DIVZERO]; SymEngineException is
   [ErrExn EXN_SYMENGINE]; std::runtime_error is [ErrExn EXN_STD].                        *)
From SE Require Export Base.Prelude.
From Coq Require Export ZArith.
Local Open Scope Z_scope.
Local Open Scope res_scope.

Inductive cfg := GMP | BOOST.

(* an integer division by zero inside the multiprecision layer: SIGFPE with GMP,
   std::overflow_error with boost (not a SymEngine exception) *)
Definition EXN_FPE : N := 9.
Definition divzero {A} : res A := ErrExn EXN_FPE.
Definition exn_se {A} : res A := ErrExn EXN_SYMENGINE.
Definition exn_std {A} : res A := ErrExn EXN_STD.

(* ------------------------------------------------------------------ *)
(** * Layer 1: mp primitives                                           *)

(* mpz_tdiv_qr / boost::multiprecision::divide_qr / operator/ and operator% *)
Definition tdiv_qr (a b : Z) : res (Z * Z) :=
  if b =? 0 then divzero else Ok (Z.quot a b, Z.rem a b).

(* mp_boost.cpp: mp_fdiv_qr *)
Definition fdiv_qr (a b : Z) : res (Z * Z) :=
  do '(q, r) <- tdiv_qr a b;
  let neg_quotient := ((a <? 0) && (0 <? b)) || ((0 <? a) && (b <? 0)) in
  let q1 := if neg_quotient && negb (r =? 0) then q - 1 else q in
  let r1 := if ((0 <? b) && (r <? 0)) || ((b <? 0) && (0 <? r)) then r + b else r in
  Ok (q1, r1).

(* mp_boost.cpp: mp_cdiv_qr *)
Definition cdiv_qr (a b : Z) : res (Z * Z) :=
  do '(q, r) <- tdiv_qr a b;
  let pos_quotient := ((a <? 0) && (b <? 0)) || ((0 <? a) && (0 <? b)) in
  let q1 := if pos_quotient && negb (r =? 0) then q + 1 else q in
  let r1 := if ((0 <? b) && (0 <? r)) || ((b <? 0) && (r <? 0)) then r - b else r in
  Ok (q1, r1).

Definition fdiv_r (a b : Z) : res Z := do '(_, r) <- fdiv_qr a b; Ok r.
Definition fdiv_q (a b : Z) : res Z := do '(q, _) <- fdiv_qr a b; Ok q.
Definition tdiv_q (a b : Z) : res Z := do '(q, _) <- tdiv_qr a b; Ok q.
Definition tdiv_r (a b : Z) : res Z := do '(_, r) <- tdiv_qr a b; Ok r.

(* mp_divisible_p *)
Definition divisible (a b : Z) : bool :=
  if b =? 0 then a =? 0 else Z.rem a b =? 0.

(* mp_boost.cpp: mp_gcdext -- extended Euclid with truncated division.
   state: this_s this_t next_s next_t this_r next_r *)
Fixpoint gcdext_loop (fuel : nat) (ts tt ns nt tr nr : Z) : res (Z * Z * Z) :=
  match fuel with
  | O => ErrFuel
  | S f =>
      if nr =? 0 then Ok (tr, ts, tt)
      else
        let q := Z.quot tr nr in
        let r := Z.rem tr nr in
        gcdext_loop f ns nt (ts - q * ns) (tt - q * nt) nr r
  end.

(* the remainder at least halves every two rounds *)
Definition gcdext_fuel (b : Z) : nat := S (S (2 * Z.to_nat (Z.log2 (Z.abs b) + 1))).

Definition gcdext_euclid (a b : Z) : res (Z * Z * Z) :=
  (* this_s starts at 0 for a = b = 0 (gcd 0 with both cofactors 0), at 1 otherwise *)
  let ts0 := if (a =? 0) && (b =? 0) then 0 else 1 in
  do '(g, s, t) <- gcdext_loop (gcdext_fuel b) ts0 0 0 1 a b;
  if g <? 0 then Ok (- g, - s, - t) else Ok (g, s, t).

(* mpz_gcdext returns the same cofactors (the minimal ones) in the GMP configuration *)
Definition gcdext (c : cfg) (a b : Z) : res (Z * Z * Z) := gcdext_euclid a b.

(* mp_boost.cpp: mp_invert  (GMP: mpz_invert; undefined for m = 0) *)
Definition invert (c : cfg) (a m : Z) : res (bool * Z) :=
  do '(g, s, _) <- gcdext c a m;
  if negb (g =? 1) then Ok (false, 0)
  else
    do s1 <- fdiv_r s m;
    Ok (true, if s1 <? 0 then s1 + Z.abs m else s1).

(* a^e mod m by square and multiply, m > 0 *)
Fixpoint powm_pos (a : Z) (e : positive) (m : Z) : Z :=
  match e with
  | xH => a mod m
  | xO e' => let t := powm_pos a e' m in (t * t) mod m
  | xI e' => let t := powm_pos a e' m in ((t * t) mod m * a) mod m
  end.

(* mpz_powm for a non-negative exponent: (a^e) mod |m| in [0, |m|) *)
Definition powm_nn (a e m : Z) : Z :=
  match e with
  | Z0 => 1 mod (Z.abs m)
  | Zpos p => powm_pos a p (Z.abs m)
  | Zneg _ => 0
  end.

(* boost::multiprecision::powm for a non-negative exponent: (a^e) rem m *)
Definition tpowm (a e m : Z) : Z :=
  let r := powm_nn a e m in
  if (a <? 0) && Z.odd e && negb (r =? 0) then r - Z.abs m else r.

(* mp_powm, exponent >= 0 (mp_boost.cpp adds |m| to a negative result) *)
Definition mp_powm (c : cfg) (a e m : Z) : res Z :=
  if m =? 0 then divzero
  else
    match c with
    | GMP => Ok (powm_nn a e m)
    | BOOST => let r := tpowm a e m in Ok (if r <? 0 then r + Z.abs m else r)
    end.

(* mp_boost.cpp: step / positive_root / mp_root  (Newton iteration from x = 1) *)
Definition root_step (n i x : Z) : Z :=
  let m := n - 1 in
  Z.quot (m * x + Z.quot i (x ^ m)) n.

Fixpoint root_loop (fuel : nat) (n i y : Z) : res Z :=
  (* do { x = y; y = step(x) } while (y < x);  returns x *)
  match fuel with
  | O => ErrFuel
  | S f =>
      let x := y in
      let y' := root_step n i x in
      if y' <? x then root_loop f n i y' else Ok x
  end.

(* from far above the root the iteration shrinks x by the factor (n-1)/n per round *)
Definition root_fuel (i n : Z) : nat := Z.to_nat (n * (Z.log2 i + 2) + 8).

Definition positive_root (i n : Z) : res (bool * Z) :=
  let y := root_step n i 1 in
  do x <- root_loop (root_fuel i n) n i y;
  Ok (x ^ n =? i, x).

Definition mp_root_boost (i n : Z) : res (bool * Z) :=
  if n =? 0 then exn_std
  else if n =? 1 then Ok (true, i)
  else if i =? 0 then Ok (true, 0)
  else if 0 <? i then positive_root i n
  else if Z.even n then exn_std
  else do '(b, r) <- positive_root (- i) n; Ok (b, - r).

(* documented meaning of mpz_root for i >= 0: truncated n-th root, by bisection *)
Fixpoint iroot_bits (bits : nat) (i n acc : Z) : Z :=
  match bits with
  | O => acc
  | S b =>
      let c := acc + 2 ^ Z.of_nat b in
      if c ^ n <=? i then iroot_bits b i n c else iroot_bits b i n acc
  end.

Definition iroot (i n : Z) : Z :=
  iroot_bits (Z.to_nat (Z.log2 i / n + 1)) i n 0.

(* mp_root as used by layer 2 (arguments i >= 0, n >= 1): exactness flag and root *)
Definition mp_root (i n : Z) : bool * Z :=
  let r := iroot i n in (r ^ n =? i, r).

Definition mp_perfect_square_p (i : Z) : bool :=
  if i <? 0 then false else let r := Z.sqrt i in r * r =? i.

(* mpz_perfect_power_p for i >= 2: some exponent k in [2, log2 i] gives an exact root *)
Fixpoint pp_search (cnt : nat) (k i : Z) : bool :=
  match cnt with
  | O => false
  | S c => if fst (mp_root i k) then true else pp_search c (k + 1) i
  end.

Definition mp_perfect_power_p (i : Z) : bool :=
  if (i =? 0) || (i =? 1) then true
  else if i <? 0 then false     (* not used with negative arguments by layer 2 *)
  else pp_search (Z.to_nat (Z.log2 i)) 2 i.

(* primality: the meaning of mpz_probab_prime_p / miller_rabin_test on the ranges explored,
   and of membership in the sequence produced by Sieve::iterator *)
Fixpoint no_divisor (cnt : nat) (d n : Z) : bool :=
  match cnt with
  | O => true
  | S c => if n <? d * d then true
           else if Z.rem n d =? 0 then false else no_divisor c (d + 1) n
  end.

Definition is_prime (n : Z) : bool :=
  if n <? 2 then false else no_divisor (Z.to_nat (Z.sqrt n)) 2 n.

(* mp_boost.cpp: two_by_two_matrix, pow by repeated squaring, fib_matrix, luc_matrix *)
Definition mat := (Z * Z * Z * Z)%type.     (* data[0][0] data[0][1] data[1][0] data[1][1] *)
Definition mmul (x y : mat) : mat :=
  let '(a, b, c, d) := x in
  let '(e, f, g, h) := y in
  (a * e + b * g, a * f + b * h, c * e + d * g, c * f + d * h).
Definition mid : mat := (1, 0, 0, 1).
Fixpoint mpow_pos (x : mat) (n : positive) : mat :=
  match n with
  | xH => x
  | xO p => let h := mpow_pos x p in mmul h h
  | xI p => let h := mpow_pos x p in mmul (mmul h h) x
  end.
Definition mpow (x : mat) (n : Z) : mat :=
  match n with Zpos p => mpow_pos x p | _ => mid end.
Definition fib_matrix (n : Z) : mat := mpow (1, 1, 1, 0) n.
Definition luc_matrix (n : Z) : mat := mmul (mpow (1, 1, 1, 0) n) (1, 0, 2, 0).

Definition mp_fib (n : Z) : Z := let '(_, b, _, _) := fib_matrix n in b.
Definition mp_fib2 (n : Z) : Z * Z := let '(_, b, _, d) := fib_matrix n in (b, d).
Definition mp_lucnum (n : Z) : Z := let '(_, _, c, _) := luc_matrix n in c.
Definition mp_lucnum2 (n : Z) : res (Z * Z) :=
  if n =? 0 then Ok (2, -1) else let '(a, _, c, _) := luc_matrix (n - 1) in Ok (a, c).

(* mp_boost.cpp: mp_fac_ui, mp_bin_ui *)
Fixpoint fac_loop (cnt : nat) (i res : Z) : Z :=
  match cnt with O => res | S c => fac_loop c (i + 1) (res * i) end.
Definition mp_fac (n : Z) : Z := fac_loop (Z.to_nat (n - 1)) 2 1.

Fixpoint bin_loop (cnt : nat) (i x res : Z) : Z :=
  match cnt with O => res | S c => bin_loop c (i + 1) x (Z.quot (res * (x + i)) i) end.
Definition mp_bin (n r : Z) : Z := bin_loop (Z.to_nat r) 1 (n - r) 1.

(* mp_boost.cpp: fmod, mp_legendre, unchecked_jacobi, mp_jacobi, mp_kronecker *)
Definition bfmod (a m : Z) : Z := let r := Z.rem a m in if r <? 0 then r + m else r.

Fixpoint strip_twos (fuel : nat) (num cnt : Z) : Z * Z :=
  match fuel with
  | O => (num, cnt)
  | S f => if (Z.rem num 2 =? 0) && negb (num =? 0) then strip_twos f (Z.quot num 2) (cnt + 1)
           else (num, cnt)
  end.

Fixpoint unchecked_jacobi (fuel : nat) (a n : Z) : res Z :=
  match fuel with
  | O => ErrFuel
  | S f =>
      if a =? 1 then Ok 1
      else if n =? 0 then divzero
      else
        let num0 := bfmod a n in
        let '(num, twos) := strip_twos (S (Z.to_nat (Z.log2 (Z.abs num0)))) num0 0 in
        let den_mod_8 := bfmod n 8 in
        let product_of_twos :=
          if Z.odd twos && ((den_mod_8 =? 3) || (den_mod_8 =? 5)) then -1 else 1 in
        if num =? 1 then Ok product_of_twos
        else if negb (Z.gcd num n =? 1) then Ok 0
        else
          let qr := if (bfmod num 4 =? 3) && (bfmod n 4 =? 3) then -1 else 1 in
          do j <- unchecked_jacobi f n num;
          Ok (product_of_twos * qr * j)
  end.

Definition jacobi_fuel (a n : Z) : nat := S (S (2 * Z.to_nat (Z.log2 (Z.abs n) + 1))).

Definition jacobi_boost (a n : Z) : res Z :=
  if n <? 0 then exn_std
  else if Z.rem n 2 =? 0 then exn_std
  else unchecked_jacobi (jacobi_fuel a n) a n.

Definition mp_kronecker (c : cfg) (a n : Z) : res Z :=
  if n =? 0 then Ok (if (a =? 1) || (a =? -1) then 1 else 0)
  else
    let kr_a_u := if (n <? 0) && (a <? 0) then -1 else 1 in
    let '(m, j) := strip_twos (S (Z.to_nat (Z.log2 (Z.abs n)))) (Z.abs n) 0 in
    let a_mod_8 := bfmod a 8 in
    let kr_a_2_to_j :=
      if negb (Z.rem a 2 =? 0) then
        let kr_a_2 := if (a_mod_8 =? 1) || (a_mod_8 =? 7) then 1 else -1 in
        if (kr_a_2 =? -1) && negb (Z.rem j 2 =? 0) then -1 else 1
      else 0 in
    do jm <- unchecked_jacobi (jacobi_fuel a m) a m;
    if Z.rem n 2 =? 0 then Ok (kr_a_u * kr_a_2_to_j * jm) else Ok (kr_a_u * jm).

(* gmp.h: mpz_jacobi, mpz_kronecker and mpz_legendre are one function *)
Definition mp_jacobi (c : cfg) (a n : Z) : res Z :=
  match c with
  | BOOST => jacobi_boost a n
  | GMP => mp_kronecker GMP a n
  end.

(* mp_legendre: boost computes a^((n-1)/2) mod n (Euler); mpz_legendre is the Jacobi symbol.
   Both are only specified for odd primes n, where they agree. *)
Definition mp_legendre (c : cfg) (a n : Z) : res Z :=
  match c with
  | BOOST =>
      do r <- mp_powm BOOST a (Z.quot (n - 1) 2) n;
      Ok (if r <=? 1 then r else -1)
  | GMP => mp_jacobi GMP a n
  end.

(* mp_scan1: index of the lowest set bit (ULONG_MAX for 0) *)
Definition ULONG_MAX : Z := 18446744073709551615.
Definition UINT_MAX : Z := 4294967295.
Definition LONG_MAX : Z := 9223372036854775807.
Definition mp_scan1 (i : Z) : Z :=
  if i =? 0 then ULONG_MAX
  else snd (strip_twos (S (Z.to_nat (Z.log2 (Z.abs i)))) (Z.abs i) 0).

(* ------------------------------------------------------------------ *)
(** * Layer 2: ntheory.cpp                                             *)

Definition nt_gcd (a b : Z) : Z := Z.gcd a b.
Definition nt_lcm (a b : Z) : Z := Z.lcm a b.
Definition nt_gcd_ext := gcdext.
Definition nt_mod_inverse := invert.
(* the six division functions throw DivisionByZeroError for a zero divisor *)
Definition nz {A} (d : Z) (r : res A) : res A := if d =? 0 then ErrExn EXN_DIVZERO else r.
Definition nt_mod (n d : Z) : res Z := nz d (tdiv_r n d).
Definition nt_quotient (n d : Z) : res Z := nz d (tdiv_q n d).
Definition nt_quotient_mod (n d : Z) : res (Z * Z) := nz d (tdiv_qr n d).
Definition nt_mod_f (n d : Z) : res Z := nz d (fdiv_r n d).
Definition nt_quotient_f (n d : Z) : res Z := nz d (fdiv_q n d).
Definition nt_quotient_mod_f (n d : Z) : res (Z * Z) := nz d (fdiv_qr n d).
Definition nt_divides (a b : Z) : bool := divisible a b.
Definition nt_binomial := mp_bin.
Definition nt_factorial := mp_fac.
Definition nt_fibonacci := mp_fib.
Definition nt_fibonacci2 := mp_fib2.
Definition nt_lucas := mp_lucnum.
Definition nt_lucas2 := mp_lucnum2.

(* crt: the loop `for i = 1 .. mod.size()-1` over the remaining moduli *)
Fixpoint crt_loop (c : cfg) (m r : Z) (rems mods : list Z) : res (option Z) :=
  match mods with
  | [] => Ok (Some r)
  | mi :: mods' =>
      match rems with
      | [] => ErrOOB 0 0          (* excluded by the size test *)
      | ri :: rems' =>
          do '(g, s, _) <- gcdext c m mi;
          let t := ri - r in
          if negb (divisible t g) then Ok None
          else
            do tq <- tdiv_q t g;
            let r1 := r + m * s * tq in
            do mq <- tdiv_q mi g;
            let m1 := m * mq in
            do r2 <- fdiv_r r1 m1;
            crt_loop c m1 r2 rems' mods'
      end
  end.

Definition nt_crt (c : cfg) (rems mods : list Z) : res (option Z) :=
  if (length rems <? length mods)%nat then exn_se
  else
    match mods, rems with
    | [], _ => exn_se
    | m0 :: mods', r0 :: rems' => crt_loop c m0 r0 rems' mods'
    | _ :: _, [] => exn_se
    end.

(* powermod / powermod_list, Integer exponent *)
Definition nt_powermod (c : cfg) (a b m : Z) : res (option Z) :=
  let t := if b <? 0 then - b else b in
  do p <- mp_powm c a t m;
  if b <? 0 then
    do '(ok, inv) <- invert c p m;
    Ok (if ok then Some inv else None)
  else Ok (Some p).

Definition nt_powermod_list (c : cfg) (a b m : Z) : res (list Z) :=
  do r <- nt_powermod c a b m;
  Ok (match r with Some x => [x] | None => [] end).

(* `while (_n % p == 0) { ++count; _n = _n / p; }` *)
Fixpoint divide_out (fuel : nat) (n p cnt : Z) : Z * Z :=
  match fuel with
  | O => (n, cnt)
  | S f => if Z.rem n p =? 0 then divide_out f (Z.quot n p) p (cnt + 1) else (n, cnt)
  end.
Definition divide_out_fuel (n : Z) : nat := S (Z.to_nat (Z.log2 n)).

(* limit of the trial divisions: mp_get_ui(mp_sqrt(|n|)), must fit an unsigned *)
Definition sieve_limit (n : Z) : res Z :=
  let l := Z.sqrt n in
  if UINT_MAX <? l then exn_se else Ok l.

(* prime_factors: `while ((p = pi.next_prime()) <= limit)`, p runs through the primes *)
Fixpoint pf_loop (cnt : nat) (p limit n : Z) (acc : list Z) : Z * list Z :=
  match cnt with
  | O => (n, acc)
  | S c =>
      if limit <? p then (n, acc)
      else if is_prime p then
        let '(n', k) := divide_out (divide_out_fuel n) n p 0 in
        let acc' := acc ++ repeat p (Z.to_nat k) in
        if n' =? 1 then (n', acc') else pf_loop c (p + 1) limit n' acc'
      else pf_loop c (p + 1) limit n acc
  end.

Definition nt_prime_factors (n : Z) : res (list Z) :=
  if n =? 0 then Ok []
  else
    let n1 := Z.abs n in
    do limit <- sieve_limit n1;
    let '(n', l) := pf_loop (Z.to_nat limit) 2 limit n1 [] in
    Ok (if n' =? 1 then l else l ++ [n']).

(* insert into std::map<Integer, unsigned, less>: no overwrite *)
Fixpoint map_insert (k v : Z) (l : list (Z * Z)) : list (Z * Z) :=
  match l with
  | [] => [(k, v)]
  | (k', v') :: r =>
      if k <? k' then (k, v) :: l
      else if k =? k' then l
      else (k', v') :: map_insert k v r
  end.

Fixpoint pfm_loop (cnt : nat) (p limit n : Z) (acc : list (Z * Z)) : Z * list (Z * Z) :=
  match cnt with
  | O => (n, acc)
  | S c =>
      if limit <? p then (n, acc)
      else if is_prime p then
        let '(n', k) := divide_out (divide_out_fuel n) n p 0 in
        if 0 <? k then
          let acc' := map_insert p k acc in
          if n' =? 1 then (n', acc') else pfm_loop c (p + 1) limit n' acc'
        else pfm_loop c (p + 1) limit n' acc
      else pfm_loop c (p + 1) limit n acc
  end.

Definition nt_prime_factor_multiplicities (n : Z) : res (list (Z * Z)) :=
  if n =? 0 then Ok []
  else
    let n1 := Z.abs n in
    do limit <- sieve_limit n1;
    let '(n', l) := pfm_loop (Z.to_nat limit) 2 limit n1 [] in
    Ok (if n' =? 1 then l else map_insert n' 1 l).

(* _factor_trial_division_sieve; mp_sqrt of a negative number is an error *)
Fixpoint ftd_loop (cnt : nat) (p limit n : Z) : option Z :=
  match cnt with
  | O => None
  | S c =>
      if limit <? p then None
      else if is_prime p && (Z.rem n p =? 0) then Some p
      else ftd_loop c (p + 1) limit n
  end.

Definition nt_factor_trial_division (n : Z) : res (option Z) :=
  if n <? 0 then exn_std
  else
    do limit <- sieve_limit n;
    Ok (ftd_loop (Z.to_nat limit) 2 limit n).

(* totient, carmichael *)
Definition nt_totient (n : Z) : res Z :=
  if n =? 0 then Ok 1
  else
    do pm <- nt_prime_factor_multiplicities n;
    Ok (fold_left (fun phi pe => Z.quot phi (fst pe) * (fst pe - 1)) pm (Z.abs n)).

Definition nt_carmichael (n : Z) : res Z :=
  if n =? 0 then Ok 1
  else
    do pm <- nt_prime_factor_multiplicities n;
    Ok (fold_left
          (fun lambda pe =>
             let '(p, mult) := pe in
             let mult' := if (p =? 2) && (2 <? mult) then mult - 1 else mult in
             Z.lcm lambda (p - 1) * p ^ (mult' - 1))
          pm 1).

(* multiplicative_order *)
Fixpoint order_raise (fuel : nat) (t p n order : Z) : res Z :=
  (* while (t != 1) { t = t^p mod n; order *= p; } *)
  match fuel with
  | O => ErrFuel
  | S f => if t =? 1 then Ok order
           else order_raise f (powm_nn t p n) p n (order * p)
  end.

Fixpoint order_loop (c : cfg) (pm : list (Z * Z)) (a n order : Z) : res Z :=
  match pm with
  | [] => Ok order
  | (p, e) :: rest =>
      let order1 := Z.quot order (p ^ e) in
      do t <- mp_powm c a order1 n;
      do order2 <- order_raise (S (S (Z.to_nat e))) t p n order1;
      order_loop c rest a n order2
  end.

Definition nt_multiplicative_order (c : cfg) (a n : Z) : res (option Z) :=
  let n1 := Z.abs n in
  if negb (Z.gcd a n1 =? 1) then Ok None
  else
    do lambda <- nt_carmichael n;
    do pm <- nt_prime_factor_multiplicities lambda;
    do a1 <- tdiv_r a n1;
    do o <- order_loop c pm a1 n1 lambda;
    Ok (Some o).

(* _prime_power *)
Fixpoint prime_power_loop (fuel : nat) (n e i : Z) : res (Z * Z) :=
  match fuel with
  | O => ErrFuel
  | S f =>
      if mp_perfect_power_p n && (2 <=? n) then
        let '(exact, r) := mp_root n i in
        if exact then prime_power_loop f r (e * i) i
        else prime_power_loop f n e (i + 1)
      else Ok (n, e)
  end.

Definition prime_power (n : Z) : res (option (Z * Z)) :=
  if n <? 2 then Ok None
  else
    do '(n', e) <- prime_power_loop (Z.to_nat (2 * Z.log2 n + 4)) n 1 2;
    Ok (if is_prime n' then Some (n', e) else None).

(* _primitive_root *)
Fixpoint is_root_mod_p (qs : list Z) (g p : Z) : bool :=
  match qs with
  | [] => true
  | q :: rest => if powm_nn g (Z.quot (p - 1) q) p =? 1 then false else is_root_mod_p rest g p
  end.

Fixpoint find_root (cnt : nat) (qs : list Z) (g p : Z) : res Z :=
  (* while (g < p) { if g is a root: break; ++g; }   the least primitive root is tiny, so the
     fuel is capped; running out of it is the observable value ErrFuel *)
  match cnt with
  | O => ErrFuel
  | S c => if g <? p then (if is_root_mod_p qs g p then Ok g else find_root c qs (g + 1) p) else Ok g
  end.

Definition primitive_root_pe (p e : Z) (even : bool) : res Z :=
  do qs <- nt_prime_factors (p - 1);
  do g <- find_root (S (Z.to_nat (Z.min p 65536))) qs 2 p;
  let g1 := if (1 <? e) && (powm_nn g (p - 1) (p * p) =? 1) then g + p else g in
  Ok (if even && (Z.rem g1 2 =? 0) then g1 + p ^ e else g1).

Definition nt_primitive_root (n : Z) : res (option Z) :=
  let n1 := if n <? 0 then - n else n in
  if n1 <=? 1 then Ok None
  else if n1 <? 5 then Ok (Some (n1 - 1))
  else
    let even := Z.rem n1 2 =? 0 in
    if even && (Z.rem n1 4 =? 0) then Ok None
    else
      let n2 := if even then Z.quot n1 2 else n1 in
      do pe <- prime_power n2;
      match pe with
      | None => Ok None
      | Some (p, e) => do g <- primitive_root_pe p e even; Ok (Some g)
      end.

(* legendre / jacobi / kronecker wrappers *)
Definition nt_legendre := mp_legendre.
Definition nt_jacobi := mp_jacobi.
Definition nt_kronecker := mp_kronecker.

(* quadratic_residues: squares of 0..a/2, std::sort, std::unique *)
Fixpoint insert_sorted (x : Z) (l : list Z) : list Z :=
  match l with
  | [] => [x]
  | y :: r => if x <=? y then x :: l else y :: insert_sorted x r
  end.
Definition sort_z (l : list Z) : list Z := fold_right insert_sorted [] l.
Fixpoint unique_adj (l : list Z) : list Z :=
  match l with
  | [] => []
  | x :: r =>
      match r with
      | [] => [x]
      | y :: _ => if x =? y then unique_adj r else x :: unique_adj r
      end
  end.

Fixpoint squares_upto (cnt : nat) (i a : Z) : list Z :=
  match cnt with
  | O => []
  | S c => Z.rem (i * i) a :: squares_upto c (i + 1) a
  end.

Definition nt_quadratic_residues (a : Z) : res (list Z) :=
  if a <? 1 then exn_se
  else if LONG_MAX <? a then exn_se
  else Ok (unique_adj (sort_z (squares_upto (S (Z.to_nat (Z.quot a 2))) 0 a))).

(* _is_nthroot_mod1 *)
Definition is_nthroot_mod1 (a n p k : Z) : bool :=
  let pk := p ^ k in
  let phi := Z.quot (pk * (p - 1)) p in
  let m := Z.gcd phi n in
  powm_nn a (Z.quot phi m) pk =? 1.

(* numeric_cast<unsigned>(mp_scan1(n)) *)
Definition scan1_unsigned (n : Z) : Z := (mp_scan1 n) mod 4294967296.

(* strip the factors p from _a: `r = 1; divexact; while (_a % p == 0) {divexact; ++r}` *)
Fixpoint strip_p (fuel : nat) (a p r : Z) : Z * Z :=
  match fuel with
  | O => (a, r)
  | S f => if Z.rem a p =? 0 then strip_p f (Z.quot a p) p (r + 1) else (a, r)
  end.

(* _is_nthroot_mod_prime_power; k is unsigned: k - r wraps below zero *)
Fixpoint is_nthroot_mod_prime_power (fuel : nat) (a n p k : Z) : res bool :=
  match fuel with
  | O => ErrFuel
  | S f =>
      if negb (Z.rem a p =? 0) then
        if p =? 2 then
          let c0 := scan1_unsigned n in
          if k =? 1 then Ok true
          else if k =? 2 then Ok (negb ((0 <? c0) && (Z.rem a 4 =? 3)))
          else
            let c := if k - 2 <=? c0 then k - 2 else c0 in
            if c =? 0 then Ok true
            else Ok (a mod (2 ^ (c + 2)) =? 1)
        else Ok (is_nthroot_mod1 a n p k)
      else
        let pk := p ^ k in
        let a1 := Z.rem a pk in
        if a1 =? 0 then Ok true
        else
          let '(a2, r) := strip_p (S (Z.to_nat (Z.log2 (Z.abs a1)))) (Z.quot a1 p) p 1 in
          if r <? n then Ok false
          else
            do rm <- tdiv_r r n;
            if negb (rm =? 0) then Ok false
            else is_nthroot_mod_prime_power f a2 n p ((k - r) mod 4294967296)
  end.

Fixpoint all_prime_powers (pm : list (Z * Z)) (a n : Z) : res bool :=
  match pm with
  | [] => Ok true
  | (p, k) :: rest =>
      do b <- is_nthroot_mod_prime_power (S (Z.to_nat k)) a n p k;
      if b then all_prime_powers rest a n else Ok false
  end.

Definition nt_is_quad_residue (c : cfg) (a p : Z) : res bool :=
  if p =? 0 then exn_se
  else
    let p2 := Z.abs p in
    do a_final <- (if (p2 <=? a) || (a <? 0) then fdiv_r a p2 else Ok a);
    if a_final <? 2 then Ok true
    else if negb (is_prime p2) then
      do early <- (if Z.rem p2 2 =? 1 then
                     do j <- mp_jacobi c a_final p; Ok (j =? -1)
                   else Ok false);
      if early then Ok false
      else
        do pm <- nt_prime_factor_multiplicities p2;
        all_prime_powers pm a_final 2
    else
      do l <- mp_legendre c a_final p2;
      Ok (l =? 1).

Definition nt_is_nth_residue (a n m : Z) : res bool :=
  if m =? 0 then Ok false
  else if m =? 1 then Ok true
  else
    let m1 := Z.abs m in
    do pm <- nt_prime_factor_multiplicities m1;
    all_prime_powers pm a n.

(* mobius, mertens *)
Definition nt_mobius (a : Z) : res Z :=
  if LONG_MAX <? a then exn_se
  else if a <=? 0 then exn_se
  else
    do pm <- nt_prime_factor_multiplicities a;
    if existsb (fun pe => 1 <? snd pe) pm then Ok 0
    else Ok (if Nat.even (length pm) then 1 else -1).

Fixpoint mertens_loop (cnt : nat) (i acc : Z) : res Z :=
  match cnt with
  | O => Ok acc
  | S c => do mu <- nt_mobius i; mertens_loop c (i + 1) (acc + mu)
  end.
Definition nt_mertens (a : Z) : res Z := mertens_loop (Z.to_nat a) 1 0.

(* polygonal numbers *)
Definition nt_polygonal_number (s n : Z) : Z :=
  Z.quot ((s - 2) * n * n - (s - 4) * n) 2.

Definition nt_principal_polygonal_root (s x : Z) : res Z :=
  let tmp := (s - 4) ^ 2 in
  let d := 8 * x * (s - 2) + tmp in
  if d <? 0 then exn_std
  else
    let root := Z.sqrt d in
    tdiv_q (root + s - 4) (2 * (s - 2)).

(* mp_perfect_power_decomposition *)
Fixpoint ppd_bisect (fuel : nat) (n p i j : Z) : res Z :=
  (* while (j > i + 1) { m = (i + j)/2; if (m^p > n) j = m else i = m }  returns i *)
  match fuel with
  | O => ErrFuel
  | S f =>
      if i + 1 <? j then
        let m := Z.quot (i + j) 2 in
        if n <? m ^ p then ppd_bisect f n p i m else ppd_bisect f n p m j
      else Ok i
  end.

Fixpoint ppd_loop (fuel : nat) (n p : Z) (lowest : bool) (best : Z * Z) : res (Z * Z) :=
  match fuel with
  | O => ErrFuel
  | S f =>
      if 2 ^ p <=? n then
        do i <- ppd_bisect (S (S (Z.to_nat (Z.log2 n)))) n p 2 n;
        if i ^ p =? n then
          if lowest then Ok (i, p) else ppd_loop f n (p + 1) lowest (i, p)
        else ppd_loop f n (p + 1) lowest best
      else Ok best
  end.

Definition nt_perfect_power_decomposition (n : Z) (lowest : bool) : res (Z * Z) :=
  ppd_loop (S (S (Z.to_nat (Z.log2 n)))) n 2 lowest (n, 1).

(* rationals as normalised pairs (numerator, positive denominator) *)
Definition qnorm (n d : Z) : Z * Z :=
  let g := Z.gcd n d in
  if g =? 0 then (0, 1)
  else if d <? 0 then (- (Z.quot n g), - (Z.quot d g)) else (Z.quot n g, Z.quot d g).
Definition qadd (x y : Z * Z) : Z * Z :=
  qnorm (fst x * snd y + fst y * snd x) (snd x * snd y).
Definition qsub (x y : Z * Z) : Z * Z :=
  qnorm (fst x * snd y - fst y * snd x) (snd x * snd y).
Definition qmulz (j : Z) (x : Z * Z) : Z * Z := qnorm (j * fst x) (snd x).

(* harmonic(n, m) *)
Fixpoint harmonic_loop (cnt : nat) (i m : Z) (acc : Z * Z) : Z * Z :=
  match cnt with
  | O => acc
  | S c =>
      let term :=
        if m =? 1 then (1, i)
        else if 0 <? m then (1, i ^ m)
        else (i ^ (- m), 1) in
      harmonic_loop c (i + 1) m (qadd acc term)
  end.
Definition nt_harmonic (n m : Z) : Z * Z := harmonic_loop (Z.to_nat n) 1 m (0, 1).

(* bernoulli(n): Akiyama-Tanigawa on a vector of n + 1 rationals with checked access *)
Definition vget (v : list (Z * Z)) (i : Z) : res (Z * Z) :=
  if i <? 0 then ErrOOB 0 (N.of_nat (length v))
  else match nth_error v (Z.to_nat i) with
       | Some x => Ok x
       | None => ErrOOB (Z.to_N i) (N.of_nat (length v))
       end.
Fixpoint vset_nat (v : list (Z * Z)) (i : nat) (x : Z * Z) : option (list (Z * Z)) :=
  match v, i with
  | [], _ => None
  | _ :: r, O => Some (x :: r)
  | y :: r, S i' => match vset_nat r i' x with Some r' => Some (y :: r') | None => None end
  end.
Definition vset (v : list (Z * Z)) (i : Z) (x : Z * Z) : res (list (Z * Z)) :=
  if i <? 0 then ErrOOB 0 (N.of_nat (length v))
  else match vset_nat v (Z.to_nat i) x with
       | Some v' => Ok v'
       | None => ErrOOB (Z.to_N i) (N.of_nat (length v))
       end.

Fixpoint bern_inner (cnt : nat) (j : Z) (v : list (Z * Z)) : res (list (Z * Z)) :=
  (* for (j = m; j >= 1; --j) v[j-1] = j * (v[j-1] - v[j]) *)
  match cnt with
  | O => Ok v
  | S c =>
      do a <- vget v (j - 1);
      do b <- vget v j;
      do v' <- vset v (j - 1) (qmulz j (qsub a b));
      bern_inner c (j - 1) v'
  end.

Fixpoint bern_outer (cnt : nat) (m : Z) (v : list (Z * Z)) : res (list (Z * Z)) :=
  match cnt with
  | O => Ok v
  | S c =>
      do v1 <- vset v m (1, m + 1);
      do v2 <- bern_inner (Z.to_nat m) m v1;
      bern_outer c (m + 1) v2
  end.

Definition nt_bernoulli (n : Z) : res (Z * Z) :=
  do v <- bern_outer (S (Z.to_nat n)) 0 (repeat (0, 1) (S (Z.to_nat n)));
  vget v 0.

(* _factor_lehman_method *)
Fixpoint lehman_inner (cnt : nat) (a b k n : Z) : option Z :=
  (* while (a <= b) { l = a*a - 4kn; if perfect square: return gcd(n, a + sqrt l); a++ } *)
  match cnt with
  | O => None
  | S c =>
      if a <=? b then
        let l := a * a - 4 * k * n in
        if mp_perfect_square_p l then Some (Z.gcd n (a + Z.sqrt l))
        else lehman_inner c (a + 1) b k n
      else None
  end.

Fixpoint lehman_outer (cnt : nat) (k u_bound n : Z) : res (option Z) :=
  match cnt with
  | O => Ok None
  | S c =>
      if k <=? u_bound then
        let a := Z.sqrt (4 * k * n) in
        let b0 := snd (mp_root n 6) in
        let l := snd (mp_root k 2) in
        do b1 <- tdiv_q b0 (4 * l);
        let b := b1 + a in
        match lehman_inner (S (Z.to_nat (b - a))) a b k n with
        | Some f => Ok (Some f)
        | None => lehman_outer c (k + 1) u_bound n
        end
      else Ok None
  end.

Fixpoint lehman_trial (cnt : nat) (p limit n : Z) : option Z :=
  match cnt with
  | O => None
  | S c =>
      if limit <? p then None
      else if is_prime p && (Z.rem n p =? 0) then Some (Z.quot n p)
      else lehman_trial c (p + 1) limit n
  end.

Definition nt_factor_lehman (n : Z) : res (option Z) :=
  if n <? 21 then exn_se
  else
    let u_bound := snd (mp_root n 3) + 1 in
    match lehman_trial (Z.to_nat u_bound) 2 u_bound n with
    | Some f => Ok (Some f)
    | None => lehman_outer (Z.to_nat u_bound) 1 u_bound n
    end.
