(* C32 obligation: the division by two in the polygonal number formula is exact for all integers *)
From SE Require Import C32.NtSpec C32.NtProofsMisc.
Local Open Scope Z_scope.
Theorem C32_polygonal_number :
  forall s n : Z, 2 * nt_polygonal_number s n = (s - 2) * n * n - (s - 4) * n.
Proof. exact polygonal_number_correct. Qed.
Print Assumptions C32_polygonal_number.
