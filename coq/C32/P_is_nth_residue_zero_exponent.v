(* C32 obligation: is_nth_residue(a, 0, m) divides by the exponent inside the multiprecision layer (SIGFPE) *)
From SE Require Import C32.NtSpec C32.NtProofsMisc.
Local Open Scope Z_scope.
Theorem C32_is_nth_residue_zero_exponent_refuted :
  nt_is_nth_residue 2 0 4 = ErrExn EXN_FPE.
Proof. exact is_nth_residue_zero_exponent_crash. Qed.
Print Assumptions C32_is_nth_residue_zero_exponent_refuted.
