(* C19 -- decode (encode w) = w for labelled DAGs: the codec induction with the invariant that
   relates the encoder's set of written ids to the decoder's id table. *)
From SE Require Import Codec.CodecSpec Codec.CodecBytes Codec.CodecTotal Codec.CodecNode.
From Coq Require Import Lia.
Local Open Scope N_scope.
Local Open Scope res_scope.

(* ---------------------------------------------------------------- nested fixpoints, unfolded *)
Lemma wtree_ind2 : forall (P : wtree -> Prop),
  (forall a e ks, Forall P ks -> P (WT a e ks)) -> forall w, P w.
Proof.
  intros P H. fix IH 1. intros [a e ks]. apply H.
  induction ks as [|k ks IHks]; constructor; [apply IH | exact IHks].
Qed.

Notation enc_kids := enc_forest.

Lemma enc_node_eq : forall sw a e ks seen,
  enc_node sw (WT a e ks) seen =
  if memN a seen then (wr_uint sw 8 a ++ [0], seen)
  else let '(kb, seen') := enc_kids sw ks seen in
       (wr_uint sw 8 a ++ [1; type_code e] ++ enc_payload sw e kb, a :: seen').
Proof.
  intros. cbn [enc_node]. destruct (memN a seen); [reflexivity|].
  assert (E : forall l s,
    (fix go (ks0 : list wtree) (seen0 : list N) {struct ks0} : list (list N) * list N :=
       match ks0 with
       | [] => ([], seen0)
       | k :: r => let '(b, s1) := enc_node sw k seen0 in let '(bs, s2) := go r s1 in (b :: bs, s2)
       end) l s = enc_kids sw l s).
  { induction l as [|k l IHl]; intros s; [reflexivity|]. cbn [enc_kids].
    destruct (enc_node sw k s) as [b s1]. rewrite IHl. reflexivity. }
  rewrite E. reflexivity.
Qed.

Lemma subtrees_eq : forall a e ks, subtrees (WT a e ks) = WT a e ks :: flat_map subtrees ks.
Proof.
  intros. cbn [subtrees]. reflexivity.
Qed.

Lemma subtrees_self : forall w, In w (subtrees w).
Proof. intros [a e ks]. rewrite subtrees_eq. left. reflexivity. Qed.

Lemma subtrees_kid : forall a e ks k s, In k ks -> In s (subtrees k) -> In s (subtrees (WT a e ks)).
Proof. intros. rewrite subtrees_eq. right. apply in_flat_map. exists k. split; assumption. Qed.

Fixpoint max_wfuel (ks : list wtree) : nat :=
  match ks with [] => O | k :: r => Nat.max (wfuel k) (max_wfuel r) end.

Lemma wfuel_eq : forall a e ks, wfuel (WT a e ks) = S (nrows e + max_wfuel ks).
Proof.
  intros. cbn [wfuel]. reflexivity.
Qed.

Lemma max_wfuel_in : forall ks k, In k ks -> (wfuel k <= max_wfuel ks)%nat.
Proof.
  induction ks as [|x ks IH]; intros k H; [destruct H|].
  destruct H as [<-|H]; cbn [max_wfuel]; [lia|]. specialize (IH k H). lia.
Qed.

(* ---------------------------------------------------------------- small reading lemmas *)
Lemma rd_byte : forall sw b rest, rd_uint sw 1 (b :: rest) = Ok (b, rest).
Proof.
  intros. unfold rd_uint, take. cbn [length Nat.leb firstn skipn].
  destruct sw; cbn [rev app le_val]; rewrite N.mul_0_r, N.add_0_r; reflexivity.
Qed.

Lemma W64_pow : W64 = 256 ^ N.of_nat 8.
Proof. reflexivity. Qed.

Lemma memN_cons : forall a b l, memN a (b :: l) = (a =? b) || memN a l.
Proof. reflexivity. Qed.

(* ---------------------------------------------------------------- decoding the children *)
Definition table := list (N * wtree).

Section Fields.
  Variable rec : tclass -> dstate -> res (wtree * dstate).
  Variable sw : bool.

  (* the children [ks], whose encodings are the first elements of [kb], are decoded one after the
     other, taking the table from t to t'; kb' is what remains of kb *)
  Inductive KD : list wtree -> list (list N) -> table -> table -> list (list N) -> Prop :=
  | KD_nil : forall kb t, KD [] kb t t kb
  | KD_cons : forall k ks b kb t t' t'' kb',
      (forall rest T, derives (type_code (wt_expr k)) T = true ->
                      rec T (b ++ rest, t) = Ok (k, (rest, t'))) ->
      KD ks kb t' t'' kb' -> KD (k :: ks) (b :: kb) t t'' kb'.

  Lemma KD_app : forall ks1 ks2 kb t t'' kb'',
    KD (ks1 ++ ks2) kb t t'' kb'' ->
    exists t' kb', KD ks1 kb t t' kb' /\ KD ks2 kb' t' t'' kb''.
  Proof.
    induction ks1 as [|k ks1 IH]; intros ks2 kb t t'' kb'' H.
    - exists t, kb. split; [constructor | exact H].
    - cbn [app] in H. inversion H as [|k0 ks0 b kb0 t0 t1 t2 kb1 S R]; subst.
      destruct (IH ks2 kb0 t1 t'' kb'' R) as [t' [kb' [A B]]].
      exists t', kb'. split; [econstructor; eassumption | exact B].
  Qed.

  Lemma sval_rt : forall f v, sval_typed f v = true ->
    forall ks, map wt_expr ks = sval_kids v ->
    forall kb t t' kb', KD ks kb t t' kb' ->
    exists v' bytes, enc_sval sw f v kb = (bytes, kb') /\
      (forall rest, dec_sfield rec sw f (bytes ++ rest, t) = Ok (v', (rest, t'))) /\
      sval_map wt_expr v' = v /\ sval_kids v' = ks.
  Proof.
    intros f v TY ks MK kb t t' kb' K.
    destruct f, v as [n|s|c]; cbn [sval_typed] in TY; try discriminate;
      cbn [sval_kids] in MK.
    1-4: destruct ks; [|discriminate]; inversion K; subst;
         exists (VN n); eexists; split; [reflexivity|]; split; [|split; reflexivity];
         intros rest; cbn [dec_sfield fst snd enc_sval]; rewrite rd_wr_uint by (apply N.ltb_lt in TY; exact TY);
         reflexivity.
    - (* string *)
      destruct ks; [|discriminate]. inversion K; subst.
      apply andb_prop in TY. destruct TY as [_ L]. apply N.ltb_lt in L.
      exists (VS s). eexists. split; [reflexivity|]. split; [|split; reflexivity].
      intros rest. cbn [dec_sfield fst snd]. rewrite <- app_assoc.
      rewrite rd_wr_uint by (rewrite <- W64_pow; unfold ALLOC_LIMIT, W64 in *; lia). cbn [bind].
      replace (ALLOC_LIMIT <=? N.of_nat (length s)) with false by (symmetry; apply N.leb_gt; exact L).
      rewrite take_n_app. reflexivity.
    - (* node *)
      destruct ks as [|k [|? ?]]; try discriminate. injection MK as MK.
      inversion K as [|k0 ks0 b kb0 t0 t1 t2 kb1 S R]; subst. inversion R; subst.
      exists (VE k). exists b. split; [reflexivity|]. split; [|split; [cbn; reflexivity | reflexivity]].
      intros rest. cbn [dec_sfield]. rewrite S by exact TY. reflexivity.
  Qed.

  Lemma row_rt : forall fs vs, row_typed fs vs = true ->
    forall ks, map wt_expr ks = row_kids vs ->
    forall kb t t' kb', KD ks kb t t' kb' ->
    exists vs' bytes, enc_row sw fs vs kb = (bytes, kb') /\
      (forall rest, dec_svals rec sw fs (bytes ++ rest, t) = Ok (vs', (rest, t'))) /\
      map (sval_map wt_expr) vs' = vs /\ row_kids vs' = ks.
  Proof.
    induction fs as [|f fs IH]; intros vs TY ks MK kb t t' kb' K; destruct vs as [|v vs];
      cbn [row_typed] in TY; try discriminate.
    - cbn in MK. destruct ks; [|discriminate]. inversion K; subst.
      exists [], []. repeat split; reflexivity.
    - apply andb_prop in TY. destruct TY as [TY1 TY2].
      unfold row_kids in MK. cbn [flat_map] in MK.
      apply map_eq_app in MK. destruct MK as [ks1 [ks2 [-> [M1 M2]]]].
      apply KD_app in K. destruct K as [t1 [kb1 [K1 K2]]].
      destruct (sval_rt f v TY1 ks1 M1 kb t t1 kb1 K1) as [v' [b1 [E1 [D1 [V1 S1]]]]].
      destruct (IH vs TY2 ks2 M2 kb1 t1 t' kb' K2) as [vs' [b2 [E2 [D2 [V2 S2]]]]].
      exists (v' :: vs'), (b1 ++ b2). split; [cbn [enc_row]; rewrite E1, E2; reflexivity|].
      split; [|split].
      + intros rest. cbn [dec_svals]. rewrite <- app_assoc, D1. cbn [bind]. rewrite D2. reflexivity.
      + cbn [map]. rewrite V1, V2. reflexivity.
      + unfold row_kids in *. cbn [flat_map]. rewrite S1, S2. reflexivity.
  Qed.

  Lemma rows_rt : forall elem rows, forallb (row_typed elem) rows = true ->
    forall ks, map wt_expr ks = flat_map row_kids rows ->
    forall kb t t' kb', KD ks kb t t' kb' ->
    forall k, (length rows <= k)%nat ->
    exists rows' bytes, enc_rows sw elem rows kb = (bytes, kb') /\
      (forall rest, dec_rows rec sw k (N.of_nat (length rows)) elem (bytes ++ rest, t) = Ok (rows', (rest, t'))) /\
      map (map (sval_map wt_expr)) rows' = rows /\ flat_map row_kids rows' = ks.
  Proof.
    intros elem. induction rows as [|r rows IH]; intros TY ks MK kb t t' kb' K k LK.
    - cbn in MK. destruct ks; [|discriminate]. inversion K; subst.
      exists [], []. split; [reflexivity|]. split; [|split; reflexivity].
      intros rest. destruct k; reflexivity.
    - cbn [forallb] in TY. apply andb_prop in TY. destruct TY as [TY1 TY2].
      cbn [flat_map] in MK. apply map_eq_app in MK. destruct MK as [ks1 [ks2 [-> [M1 M2]]]].
      apply KD_app in K. destruct K as [t1 [kb1 [K1 K2]]].
      destruct k as [|k]; [cbn in LK; lia|].
      destruct (row_rt elem r TY1 ks1 M1 kb t t1 kb1 K1) as [r' [b1 [E1 [D1 [V1 S1]]]]].
      destruct (IH TY2 ks2 M2 kb1 t1 t' kb' K2 k ltac:(cbn in LK; lia)) as [rows' [b2 [E2 [D2 [V2 S2]]]]].
      exists (r' :: rows'), (b1 ++ b2). split; [cbn [enc_rows]; rewrite E1, E2; reflexivity|].
      split; [|split].
      + intros rest. cbn [dec_rows length].
        replace (N.of_nat (S (length rows)) =? 0) with false by (symmetry; apply N.eqb_neq; lia).
        rewrite <- app_assoc, D1. cbn [bind].
        replace (N.of_nat (S (length rows)) - 1) with (N.of_nat (length rows)) by lia.
        rewrite D2. reflexivity.
      + cbn [map]. rewrite V1, V2. reflexivity.
      + cbn [flat_map]. rewrite S1, S2. reflexivity.
  Qed.

  Definition nrows_of (vs : list (fval expr)) : nat :=
    fold_right (fun v acc => match v with FL rows => length rows + acc | _ => acc end)%nat O vs.

  Lemma fval_rt : forall f v, fval_typed f v = true ->
    forall ks, map wt_expr ks = fval_kids v ->
    forall kb t t' kb', KD ks kb t t' kb' ->
    forall k, (nrows_of [v] <= k)%nat ->
    exists v' bytes, enc_fval sw f v kb = (bytes, kb') /\
      (forall rest, dec_field rec sw k f (bytes ++ rest, t) = Ok (v', (rest, t'))) /\
      fval_map wt_expr v' = v /\ fval_kids v' = ks.
  Proof.
    intros f v TY ks MK kb t t' kb' K k LK.
    destruct f as [s|esz elem], v as [x|rows]; cbn [fval_typed] in TY; try discriminate.
    - cbn [fval_kids] in MK.
      destruct (sval_rt s x TY ks MK kb t t' kb' K) as [x' [b [E [D [V S]]]]].
      exists (FV x'), b. split; [exact E|]. split; [|split].
      + intros rest. cbn [dec_field]. rewrite D. reflexivity.
      + cbn. rewrite V. reflexivity.
      + exact S.
    - apply andb_prop in TY. destruct TY as [TY L2]. apply andb_prop in TY. destruct TY as [TY L1].
      apply N.ltb_lt in L1. apply N.ltb_lt in L2.
      cbn [fval_kids] in MK. unfold nrows_of in LK. cbn [fold_right] in LK.
      destruct (rows_rt elem rows TY ks MK kb t t' kb' K k ltac:(lia)) as [rows' [b [E [D [V S]]]]].
      exists (FL rows'). eexists. split; [cbn [enc_fval]; rewrite E; reflexivity|]. split; [|split].
      + intros rest. cbn [dec_field fst snd]. rewrite <- app_assoc.
        rewrite rd_wr_uint by (rewrite <- W64_pow; exact L2). cbn [bind].
        replace (ALLOC_LIMIT <=? N.of_nat (length rows) * esz) with false by (symmetry; apply N.leb_gt; exact L1).
        rewrite D. reflexivity.
      + cbn. rewrite V. reflexivity.
      + exact S.
  Qed.

  Lemma fvals_rt : forall fs vs, fvals_typed fs vs = true ->
    forall ks, map wt_expr ks = vals_kids vs ->
    forall kb t t' kb', KD ks kb t t' kb' ->
    forall k, (nrows_of vs <= k)%nat ->
    exists vs' bytes, enc_fvals sw fs vs kb = (bytes, kb') /\
      (forall rest, dec_fields rec sw k fs (bytes ++ rest, t) = Ok (vs', (rest, t'))) /\
      map (fval_map wt_expr) vs' = vs /\ vals_kids vs' = ks.
  Proof.
    induction fs as [|f fs IH]; intros vs TY ks MK kb t t' kb' K k LK; destruct vs as [|v vs];
      cbn [fvals_typed] in TY; try discriminate.
    - cbn in MK. destruct ks; [|discriminate]. inversion K; subst.
      exists [], []. repeat split; reflexivity.
    - apply andb_prop in TY. destruct TY as [TY1 TY2].
      unfold vals_kids in MK. cbn [flat_map] in MK.
      apply map_eq_app in MK. destruct MK as [ks1 [ks2 [-> [M1 M2]]]].
      apply KD_app in K. destruct K as [t1 [kb1 [K1 K2]]].
      assert (LK1 : (nrows_of [v] <= k)%nat) by (unfold nrows_of in *; cbn [fold_right] in *; destruct v; lia).
      assert (LK2 : (nrows_of vs <= k)%nat) by (unfold nrows_of in *; cbn [fold_right] in *; destruct v; lia).
      destruct (fval_rt f v TY1 ks1 M1 kb t t1 kb1 K1 k LK1) as [v' [b1 [E1 [D1 [V1 S1]]]]].
      destruct (IH vs TY2 ks2 M2 kb1 t1 t' kb' K2 k LK2) as [vs' [b2 [E2 [D2 [V2 S2]]]]].
      exists (v' :: vs'), (b1 ++ b2). split; [cbn [enc_fvals]; rewrite E1, E2; reflexivity|].
      split; [|split].
      + intros rest. cbn [dec_fields]. rewrite <- app_assoc, D1. cbn [bind]. rewrite D2. reflexivity.
      + cbn [map]. rewrite V1, V2. reflexivity.
      + unfold vals_kids in *. cbn [flat_map]. rewrite S1, S2. reflexivity.
  Qed.
End Fields.

(* ---------------------------------------------------------------- the invariant *)
(* every id the encoder has written is bound, in the decoder's table, to THE node of that id *)
Definition inv (G : N -> option wtree) (seen : list N) (tbl : table) : Prop :=
  forall a, memN a seen = true -> lookup a tbl = G a.

Definition node_goal (sw : bool) (G : N -> option wtree) (w : wtree) : Prop :=
  (forall s, In s (subtrees w) -> node_ok s /\ G (wt_addr s) = Some s) ->
  forall seen tbl, inv G seen tbl ->
  forall bytes seen', enc_node sw w seen = (bytes, seen') ->
  exists tbl', inv G seen' tbl' /\
    forall fuel rest T, (wfuel w <= fuel)%nat -> derives (type_code (wt_expr w)) T = true ->
      dec_node fuel sw T (bytes ++ rest, tbl) = Ok (w, (rest, tbl')).

Lemma kids_rt : forall sw G ks, Forall (node_goal sw G) ks ->
  (forall k s, In k ks -> In s (subtrees k) -> node_ok s /\ G (wt_addr s) = Some s) ->
  forall seen tbl, inv G seen tbl ->
  forall kb seen', enc_kids sw ks seen = (kb, seen') ->
  exists tbl', inv G seen' tbl' /\
    forall f, (max_wfuel ks <= f)%nat -> KD (dec_node f sw) ks kb tbl tbl' [].
Proof.
  intros sw G ks F. induction F as [|k ks Pk F IH]; intros SUB seen tbl I kb seen' E.
  - cbn in E. injection E as <- <-. exists tbl. split; [exact I|]. intros; constructor.
  - cbn [enc_kids] in E. destruct (enc_node sw k seen) as [b s1] eqn:E1.
    destruct (enc_kids sw ks s1) as [bs s2] eqn:E2. injection E as <- <-.
    destruct (Pk (fun s Hs => SUB k s (or_introl eq_refl) Hs) seen tbl I b s1 E1) as [t1 [I1 D1]].
    destruct (IH (fun k' s Hk Hs => SUB k' s (or_intror Hk) Hs) s1 t1 I1 bs s2 E2) as [t2 [I2 D2]].
    exists t2. split; [exact I2|]. intros f LF. cbn [max_wfuel] in LF.
    econstructor.
    + intros rest T DT. apply D1; [lia | exact DT].
    + apply D2. lia.
Qed.

Theorem enc_dec_node : forall sw G w, node_goal sw G w.
Proof.
  intros sw G. apply wtree_ind2. intros a e ks IH SUB seen tbl I bytes seen' E.
  destruct (SUB (WT a e ks) (subtrees_self _)) as [[A [WK NS]] GA]. cbn [wt_addr wt_kids wt_expr] in *.
  rewrite enc_node_eq in E. destruct (memN a seen) eqn:M.
  - (* a back-reference *)
    injection E as <- <-. exists tbl. split; [exact I|].
    intros fuel rest T LF DT. rewrite wfuel_eq in LF. destruct fuel as [|f]; [lia|].
    cbn [dec_node fst snd]. rewrite <- app_assoc. rewrite rd_wr_uint by (rewrite <- W64_pow; exact A).
    cbn [bind app]. rewrite rd_byte. cbn [bind]. cbn [N.leb N.eqb].
    replace (2 <=? 0) with false by reflexivity. replace (0 =? 0) with true by reflexivity.
    rewrite (I a M), GA. cbn [wt_expr] in *. rewrite DT. reflexivity.
  - (* first occurrence *)
    destruct (enc_kids sw ks seen) as [kb sk] eqn:EK. injection E as <- <-.
    destruct (kids_rt sw G ks IH (fun k s Hk Hs => SUB s (subtrees_kid a e ks k s Hk Hs)) seen tbl I kb sk EK)
      as [tk [IK DK]].
    destruct (node_schema e NS) as [sch [SK [TY TC]]].
    exists ((a, WT a e ks) :: tk). split.
    + intros a' M'. rewrite memN_cons in M'. cbn [lookup].
      destruct (N.eqb_spec a a') as [<-|NE].
      * symmetry. exact GA.
      * replace (a' =? a) with false in M' by (symmetry; apply N.eqb_neq; congruence).
        apply IK. exact M'.
    + intros fuel rest T LF DT. rewrite wfuel_eq in LF. destruct fuel as [|f]; [lia|].
      destruct (fvals_rt (dec_node f sw) sw sch (vals_of e) TY ks WK kb tbl tk [] (DK f ltac:(lia)) f
                         ltac:(unfold nrows in LF; unfold nrows_of; lia))
        as [vs' [pb [EP [DP [VM VK]]]]].
      cbn [dec_node fst snd]. rewrite <- app_assoc. rewrite rd_wr_uint by (rewrite <- W64_pow; exact A).
      cbn [bind app]. rewrite rd_byte. cbn [bind].
      replace (2 <=? 1) with false by reflexivity. replace (1 =? 0) with false by reflexivity.
      rewrite rd_byte. cbn [bind].
      replace (TC_Count <=? type_code e) with false by (symmetry; apply N.leb_gt; exact TC).
      rewrite SK. unfold enc_payload. rewrite SK, EP. cbn [fst].
      rewrite DP. cbn [bind]. rewrite VM, (node_build e NS). cbn [bind]. rewrite VK.
      cbn [wt_expr] in DT. rewrite DT. reflexivity.
Qed.

(* ---------------------------------------------------------------- Basic::loads (Basic::dumps) *)
Definition flag_of (sw : bool) : N := if sw then 0 else 1.
Lemma rd_header_encode : forall sw ver rest,
  fst ver < 65536 -> snd ver < 65536 ->
  rd_header ([flag_of sw] ++ wr_uint sw 2 (fst ver) ++ wr_uint sw 2 (snd ver) ++ rest)
  = Ok (sw, fst ver, snd ver, rest).
Proof.
  intros sw ver rest H1 H2. unfold rd_header. cbn [app].
  assert (S : negb (flag_of sw =? 1) = sw) by (destruct sw; reflexivity).
  rewrite S. rewrite rd_wr_uint by exact H1. rewrite rd_wr_uint by exact H2. reflexivity.
Qed.

Theorem decode_encode_lab : forall sw ver G w,
  fst ver < 65536 -> snd ver < 65536 ->
  (forall s, In s (subtrees w) -> node_ok s) -> dag G w ->
  decode_lab ver (encode sw ver w) = Ok w.
Proof.
  intros sw ver G w V1 V2 NO DG. unfold decode_lab, encode.
  destruct (enc_node sw w []) as [bytes seen'] eqn:E. cbn [fst].
  fold (flag_of sw).
  rewrite rd_header_encode by assumption. cbn [bind].
  rewrite !N.eqb_refl. cbn [andb negb].
  destruct (enc_dec_node sw G w (fun s Hs => conj (NO s Hs) (DG s Hs)) [] [] ltac:(intros a M; discriminate) bytes seen' E)
    as [tbl' [_ D]].
  specialize (D (wfuel w) [] TBasic (le_n _) eq_refl). rewrite app_nil_r in D.
  set (bs := [flag_of sw] ++ wr_uint sw 2 (fst ver) ++ wr_uint sw 2 (snd ver) ++ bytes).
  assert (L : (length bytes < S (length bs))%nat).
  { unfold bs. rewrite !app_length. lia. }
  destruct (dec_node_total sw (S (length bs)) TBasic bytes [] L) as [F _].
  rewrite (dec_node_fuel_indep sw (wfuel w) (S (length bs)) TBasic (bytes, []) _ D).
  - reflexivity.
  - intros X. rewrite X in F. exact F.
Qed.

Corollary decode_encode : forall sw ver G w,
  fst ver < 65536 -> snd ver < 65536 ->
  (forall s, In s (subtrees w) -> node_ok s) -> dag G w ->
  decode ver (encode sw ver w) = Ok (wt_expr w).
Proof. intros. unfold decode. erewrite decode_encode_lab by eassumption. reflexivity. Qed.

(* sharing: the decoder returns the labelled DAG itself -- the same ids at the same positions, and
   positions with the same id hold the same (one) node *)
Theorem sharing_restored : forall sw ver G w,
  fst ver < 65536 -> snd ver < 65536 ->
  (forall s, In s (subtrees w) -> node_ok s) -> dag G w ->
  exists w', decode_lab ver (encode sw ver w) = Ok w' /\
    map wt_addr (subtrees w') = map wt_addr (subtrees w) /\
    wt_expr w' = wt_expr w /\
    forall s1 s2, In s1 (subtrees w') -> In s2 (subtrees w') -> wt_addr s1 = wt_addr s2 -> s1 = s2.
Proof.
  intros sw ver G w V1 V2 NO DG. exists w. split; [eapply decode_encode_lab; eassumption|].
  split; [reflexivity|]. split; [reflexivity|].
  intros s1 s2 H1 H2 EA. pose proof (DG s1 H1) as G1. pose proof (DG s2 H2) as G2.
  rewrite EA in G1. rewrite G1 in G2. injection G2 as ->. reflexivity.
Qed.
