(* C19 -- trees: an expression labelled with fresh ids (no sharing) round-trips; this instantiates
   the DAG theorem and shows that its hypotheses are satisfiable for every serialisable tree. *)
From SE Require Import Codec.CodecSpec Codec.CodecBytes Codec.CodecTotal Codec.CodecNode Codec.CodecRoundtrip Codec.CodecDeep.
From Coq Require Import Lia.
Local Open Scope N_scope.

Fixpoint label_list (f : nat) (l : list expr) (n : N) : list wtree * N :=
  match l with
  | [] => ([], n)
  | x :: r =>
      let '(w, n1) := label_fresh f x n in
      let '(ws, n2) := label_list f r n1 in (w :: ws, n2)
  end.

Lemma label_fresh_S : forall f e n,
  label_fresh (S f) e n = let '(ks, n') := label_list f (child_exprs e) (n + 1) in (WT n e ks, n').
Proof.
  intros. cbn [label_fresh].
  assert (E : forall l m,
    (fix go (l0 : list expr) (n0 : N) {struct l0} : list wtree * N :=
       match l0 with
       | [] => ([], n0)
       | x :: r => let '(w, n1) := label_fresh f x n0 in let '(ws, n2) := go r n1 in (w :: ws, n2)
       end) l m = label_list f l m).
  { induction l as [|x l IH]; intros m; [reflexivity|]. cbn [label_list].
    destruct (label_fresh f x m) as [w n1]. rewrite IH. reflexivity. }
  rewrite E. reflexivity.
Qed.

Lemma NoDup_app_disjoint : forall {A} (a b : list A),
  NoDup a -> NoDup b -> (forall x, In x a -> In x b -> False) -> NoDup (a ++ b).
Proof.
  intros A. induction a as [|x a IH]; intros b Na Nb D; [exact Nb|].
  inversion Na as [|x' a' NI Na']; subst. cbn [app]. constructor.
  - intros I. apply in_app_or in I. destruct I as [I|I]; [exact (NI I) | exact (D x (or_introl eq_refl) I)].
  - apply IH; [exact Na' | exact Nb|]. intros y Ia Ib. exact (D y (or_intror Ia) Ib).
Qed.

(* what a subtree of a fresh labelling satisfies *)
Definition sub_ok (lo hi : N) (s : wtree) : Prop :=
  lo <= wt_addr s < hi /\ map wt_expr (wt_kids s) = child_exprs (wt_expr s).

Lemma sub_ok_widen : forall lo hi lo' hi' s, lo' <= lo -> hi <= hi' -> sub_ok lo hi s -> sub_ok lo' hi' s.
Proof. unfold sub_ok. intros. intuition lia. Qed.

Definition fresh_goal (f : nat) : Prop :=
  forall e n, deep_enough f e = true ->
    wt_expr (fst (label_fresh f e n)) = e /\ n < snd (label_fresh f e n) /\
    Forall (sub_ok n (snd (label_fresh f e n))) (subtrees (fst (label_fresh f e n))) /\
    NoDup (map wt_addr (subtrees (fst (label_fresh f e n)))).

Lemma label_list_ok : forall f, fresh_goal f ->
  forall l n, forallb (deep_enough f) l = true ->
    map wt_expr (fst (label_list f l n)) = l /\ n <= snd (label_list f l n) /\
    Forall (sub_ok n (snd (label_list f l n))) (flat_map subtrees (fst (label_list f l n))) /\
    NoDup (map wt_addr (flat_map subtrees (fst (label_list f l n)))).
Proof.
  intros f FG. induction l as [|x l IH]; intros n D.
  - cbn. repeat split; [lia | constructor | constructor].
  - cbn [forallb] in D. apply andb_prop in D. destruct D as [D1 D2].
    cbn [label_list]. destruct (FG x n D1) as [E1 [L1 [F1 N1]]].
    destruct (label_fresh f x n) as [w n1]. cbn [fst snd] in *.
    destruct (IH n1 D2) as [E2 [L2 [F2 N2]]].
    destruct (label_list f l n1) as [ws n2]. cbn [fst snd] in *.
    repeat split.
    + cbn [map]. rewrite E1, E2. reflexivity.
    + lia.
    + cbn [flat_map]. apply Forall_app. split.
      * eapply Forall_impl; [|exact F1]. intros s. apply sub_ok_widen; lia.
      * eapply Forall_impl; [|exact F2]. intros s. apply sub_ok_widen; lia.
    + cbn [flat_map]. rewrite map_app. apply NoDup_app_disjoint; [exact N1 | exact N2|].
      intros a Ia Ib. apply in_map_iff in Ia. destruct Ia as [s1 [<- I1]].
      apply in_map_iff in Ib. destruct Ib as [s2 [E I2]].
      rewrite Forall_forall in F1, F2. destruct (F1 s1 I1) as [[_ A1] _]. destruct (F2 s2 I2) as [[A2 _] _]. lia.
Qed.

Lemma label_fresh_ok : forall f, fresh_goal f.
Proof.
  induction f as [|f IH]; intros e n D.
  - cbn [label_fresh fst snd subtrees]. cbn [deep_enough] in D.
    destruct (child_exprs e) eqn:CE; [|discriminate].
    repeat split; [lia | | repeat constructor; intros []].
    constructor; [|constructor]. unfold sub_ok. cbn [wt_addr wt_kids wt_expr map]. split; [lia | symmetry; exact CE].
  - rewrite label_fresh_S. cbn [deep_enough] in D.
    destruct (label_list_ok f IH (child_exprs e) (n + 1) D) as [E [L [F N]]].
    destruct (label_list f (child_exprs e) (n + 1)) as [ks n']. cbn [fst snd] in *.
    rewrite subtrees_eq. repeat split.
    + lia.
    + constructor.
      * unfold sub_ok. cbn [wt_addr wt_kids wt_expr]. split; [lia | exact E].
      * eapply Forall_impl; [|exact F]. intros s. apply sub_ok_widen; lia.
    + cbn [map wt_addr]. constructor; [|exact N].
      intros I. apply in_map_iff in I. destruct I as [s [EA I]].
      rewrite Forall_forall in F. destruct (F s I) as [[A _] _]. lia.
Qed.

(* ids without repetition determine the node *)
Definition G_of (w : wtree) (a : N) : option wtree := find (fun s => wt_addr s =? a) (subtrees w).

Lemma find_nodup : forall (l : list wtree) s,
  NoDup (map wt_addr l) -> In s l -> find (fun x => wt_addr x =? wt_addr s) l = Some s.
Proof.
  induction l as [|x l IH]; intros s N I; [destruct I|].
  cbn [map] in N. inversion N as [|a r NI N']; subst. cbn [find].
  destruct I as [<-|I]; [rewrite N.eqb_refl; reflexivity|].
  destruct (N.eqb_spec (wt_addr x) (wt_addr s)) as [E|_]; [|apply IH; assumption].
  exfalso. apply NI. rewrite E. apply in_map. exact I.
Qed.

Lemma dag_nodup : forall w, NoDup (map wt_addr (subtrees w)) -> dag (G_of w) w.
Proof. intros w N s I. unfold G_of. apply find_nodup; assumption. Qed.

(* loads (dumps e) = e for every serialisable tree e *)
Theorem decode_encode_tree : forall sw ver e,
  fst ver < 65536 -> snd ver < 65536 -> serialisable e = true ->
  decode ver (encode sw ver (label e)) = Ok e.
Proof.
  intros sw ver e V1 V2 S. unfold serialisable in S.
  apply andb_prop in S. destruct S as [S2 S3]. pose proof (deep_enough_label e) as S1.
  apply N.ltb_lt in S3.
  destruct (label_fresh_ok (size e + 2) e 1 S1) as [E [L [F N]]].
  unfold label in *.
  remember (fst (label_fresh (size e + 2) e 1)) as w eqn:W.
  rewrite <- E. apply (decode_encode sw ver (G_of w)); try assumption.
  - intros s I. rewrite Forall_forall in F. destruct (F s I) as [[A1 A2] K].
    rewrite forallb_forall in S2. repeat split; [lia | exact K | apply S2; exact I].
  - apply dag_nodup. exact N.
Qed.
