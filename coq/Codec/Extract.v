(* Extraction of the codec model (C19, C20); run from the output directory. *)
From SE Require Import Codec.CodecIO.
Require Import ExtrOcamlBasic.
Extraction "semodel.ml" N_of_digits Z_of_digits digits_of_N tc_lookup
  hex_of_N name_of_code label
  decode_lab decode decode_matrix encode encode_matrix enc_node schema_k kind_of vals_of type_code child_exprs
  wt_expr wt_addr wt_kids expr_eqb hash derives TC_Count.
