(* C19 -- the fuel [size e + 2] of [label] always reaches every wire node of e (so the first
   conjunct of [serialisable] holds for every expression). *)
From SE Require Import Codec.CodecSpec.
From Coq Require Import Lia.

Lemma size_pos : forall e, (1 <= size e)%nat.
Proof. destruct e; cbn [size]; lia. Qed.

Lemma fold_list_in : forall (l : list expr) c, In c l ->
  (size c <= fold_right (fun x acc => size x + acc) 0 l)%nat.
Proof.
  induction l as [|x l IH]; intros c H0; [destruct H0|]. destruct H0 as [<-|H]; cbn [fold_right]; [lia|]. specialize (IH c H). lia.
Qed.
Lemma fold_pairs_in : forall (l : list (expr * expr)) p, In p l ->
  (size (fst p) + size (snd p) <= fold_right (fun q acc => size (fst q) + size (snd q) + acc) 0 l)%nat.
Proof.
  induction l as [|x l IH]; intros p H0; [destruct H0|]. destruct H0 as [<-|H]; cbn [fold_right]; [lia|]. specialize (IH p H). lia.
Qed.
Lemma fold_add_in : forall (l : list (expr * number)) p, In p l ->
  (size (fst p) + 1 <= fold_right (fun q acc => size (fst q) + 1 + acc) 0 l)%nat.
Proof.
  induction l as [|x l IH]; intros p H0; [destruct H0|]. destruct H0 as [<-|H]; cbn [fold_right]; [lia|]. specialize (IH p H). lia.
Qed.

Lemma in_rows1 : forall l c, In c (flat_map row_kids (map row1 l)) -> In c l.
Proof.
  induction l as [|x l IH]; intros c H; [destruct H|]. cbn in H. destruct H as [<-|H]; [left; reflexivity | right; apply IH; exact H].
Qed.
Lemma in_rows2 : forall (l : list (expr * expr)) c, In c (flat_map row_kids (map row2 l)) ->
  exists p, In p l /\ (c = fst p \/ c = snd p).
Proof.
  induction l as [|x l IH]; intros c H; [destruct H|]. cbn in H.
  destruct H as [<-|[<-|H]]; [exists x; split; [left; reflexivity | left; reflexivity]
                             | exists x; split; [left; reflexivity | right; reflexivity]|].
  destruct (IH c H) as [p [I E]]. exists p. split; [right; exact I | exact E].
Qed.
Lemma in_rows2n : forall (l : list (expr * number)) c, In c (flat_map row_kids (map row2n l)) ->
  (exists n, c = ENum n) \/ exists p, In p l /\ c = fst p.
Proof.
  induction l as [|x l IH]; intros c H; [destruct H|]. cbn in H.
  destruct H as [<-|[<-|H]]; [right; exists x; split; [left; reflexivity | reflexivity] | left; eexists; reflexivity|].
  destruct (IH c H) as [N|[p [I E]]]; [left; exact N | right; exists p; split; [right; exact I | exact E]].
Qed.

(* a child on the wire is a number node or a proper subterm *)
Lemma child_cases : forall e c, In c (child_exprs e) -> (exists n, c = ENum n) \/ (size c < size e)%nat.
Proof.
  intros e c H. unfold child_exprs, vals_kids in H.
  destruct e as [n|s|s i|s|k d|k d|a b|t a|t a b|t l|s l|t a b|a l|a d|l|b|s x lo ro|t];
    cbn [vals_of flat_map fval_kids sval_kids app enum] in H.
  - destruct n; cbn [vals_of flat_map fval_kids sval_kids app enum] in H;
      repeat (destruct H as [<-|H]; [left; eexists; reflexivity|]); destruct H.
  - destruct H.
  - destruct H.
  - destruct H.
  - destruct H as [<-|H]; [left; eexists; reflexivity|]. rewrite app_nil_r in H.
    destruct (in_rows2n d c H) as [N|[p [I ->]]]; [left; exact N|]. right. cbn [size].
    pose proof (fold_add_in d p I). lia.
  - destruct H as [<-|H]; [left; eexists; reflexivity|]. rewrite app_nil_r in H.
    destruct (in_rows2 d c H) as [p [I E]]. right. cbn [size]. pose proof (fold_pairs_in d p I).
    destruct E as [->| ->]; lia.
  - right. cbn [size]. destruct H as [<-|[<-|[]]]; lia.
  - right. cbn [size]. destruct H as [<-|[]]. lia.
  - right. cbn [size]. destruct H as [<-|[<-|[]]]; lia.
  - rewrite app_nil_r in H. apply in_rows1 in H. right. cbn [size]. pose proof (fold_list_in l c H). lia.
  - rewrite app_nil_r in H. apply in_rows1 in H. right. cbn [size]. pose proof (fold_list_in l c H). lia.
  - right. cbn [size]. destruct H as [<-|[<-|[]]]; lia.
  - destruct H as [<-|H]; [right; cbn [size]; lia|]. rewrite app_nil_r in H. apply in_rows1 in H.
    right. cbn [size]. pose proof (fold_list_in l c H). lia.
  - destruct H as [<-|H]; [right; cbn [size]; lia|]. rewrite app_nil_r in H.
    destruct (in_rows2 d c H) as [p [I E]]. right. cbn [size]. pose proof (fold_pairs_in d p I).
    destruct E as [->| ->]; lia.
  - rewrite app_nil_r in H. destruct (in_rows2 l c H) as [p [I E]]. right. cbn [size].
    pose proof (fold_pairs_in l p I). destruct E as [->| ->]; lia.
  - destruct H.
  - right. cbn [size]. destruct H as [<-|[<-|[]]]; lia.
  - destruct H.
Qed.

Lemma deep_num : forall n f, (2 <= f)%nat -> deep_enough f (ENum n) = true.
Proof.
  intros n f H. destruct f as [|[|f]]; try lia.
  destruct n as [z|p q|rn rd imn imd|b|re im|d|]; try reflexivity.
  cbn [deep_enough child_exprs vals_kids vals_of flat_map fval_kids sval_kids app enum forallb].
  unfold rat_number. destruct (rd =? 1)%positive, (imd =? 1)%positive; destruct f; reflexivity.
Qed.

Lemma deep_enough_size : forall n e f, (size e <= n)%nat -> (size e + 2 <= f)%nat -> deep_enough f e = true.
Proof.
  induction n as [|n IH]; intros e f S F; [pose proof (size_pos e); lia|].
  destruct f as [|f]; [lia|]. cbn [deep_enough]. apply forallb_forall. intros c I.
  destruct (child_cases e c I) as [[k ->]|L].
  - apply deep_num. pose proof (size_pos e). lia.
  - apply IH; lia.
Qed.

Theorem deep_enough_label : forall e, deep_enough (size e + 2) e = true.
Proof. intros e. apply (deep_enough_size (size e)); lia. Qed.
