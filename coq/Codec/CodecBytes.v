(* C19 / C20 -- the byte-level primitives of the codec: fixed-width integers in both byte
   orders, decimal integer strings. *)
From SE Require Import Codec.CodecModel.
From Coq Require Import Lia ZifyBool ZifyNat ZifyN.
Ltac Zify.zify_post_hook ::= Z.div_mod_to_equations.
Local Open Scope N_scope.

(* ---------------------------------------------------------------- take *)
Lemma take_app : forall (l r : list N), take (length l) (l ++ r) = Some (l, r).
Proof.
  intros l r. unfold take. rewrite app_length.
  replace (length l <=? length l + length r)%nat with true by (symmetry; apply Nat.leb_le; lia).
  rewrite firstn_app, Nat.sub_diag, firstn_all. cbn [firstn]. rewrite app_nil_r.
  rewrite skipn_app, Nat.sub_diag, skipn_all. reflexivity.
Qed.

Lemma take_some : forall n bs h t, take n bs = Some (h, t) -> bs = h ++ t /\ length h = n.
Proof.
  unfold take. intros n bs h t H.
  destruct (n <=? length bs)%nat eqn:E; [|discriminate].
  injection H as <- <-. split; [symmetry; apply firstn_skipn|].
  apply Nat.leb_le in E. apply firstn_length_le; exact E.
Qed.

Lemma take_n_app : forall (l r : list N), take_n (N.of_nat (length l)) (l ++ r) = Some (l, r).
Proof.
  intros l r. unfold take_n. rewrite app_length, Nat2N.id.
  replace (N.of_nat (length l + length r) <? N.of_nat (length l)) with false by (symmetry; apply N.ltb_ge; lia).
  rewrite firstn_app, Nat.sub_diag, firstn_all. cbn [firstn]. rewrite app_nil_r.
  rewrite skipn_app, Nat.sub_diag, skipn_all. reflexivity.
Qed.

Lemma take_n_some : forall n bs h t, take_n n bs = Some (h, t) -> bs = h ++ t /\ N.of_nat (length h) = n.
Proof.
  unfold take_n. intros n bs h t H.
  destruct (N.of_nat (length bs) <? n) eqn:E; [discriminate|].
  injection H as <- <-. split; [symmetry; apply firstn_skipn|].
  apply N.ltb_ge in E. rewrite firstn_length_le by lia. lia.
Qed.

(* ---------------------------------------------------------------- fixed-width integers *)
Lemma le_bytes_length : forall w n, length (le_bytes w n) = w.
Proof. induction w; intros; cbn [le_bytes length]; [reflexivity | f_equal; apply IHw]. Qed.

Lemma le_val_bytes : forall w n, le_val (le_bytes w n) = n mod 256 ^ N.of_nat w.
Proof.
  induction w; intros n.
  - cbn. symmetry. apply N.mod_1_r.
  - cbn [le_bytes le_val]. rewrite IHw.
    replace (N.of_nat (S w)) with (N.succ (N.of_nat w)) by lia.
    rewrite N.pow_succ_r'.
    assert (H : 256 ^ N.of_nat w <> 0) by (apply N.pow_nonzero; discriminate).
    rewrite N.mod_mul_r by (try discriminate; exact H). reflexivity.
Qed.

Lemma le_val_bytes_small : forall w n, n < 256 ^ N.of_nat w -> le_val (le_bytes w n) = n.
Proof. intros. rewrite le_val_bytes. apply N.mod_small. assumption. Qed.

Lemma wr_uint_length : forall sw w n, length (wr_uint sw w n) = w.
Proof. intros. unfold wr_uint. destruct sw; [rewrite rev_length|]; apply le_bytes_length. Qed.

Lemma rd_wr_uint : forall sw w n rest,
  n < 256 ^ N.of_nat w -> rd_uint sw w (wr_uint sw w n ++ rest) = Ok (n, rest).
Proof.
  intros sw w n rest H. unfold rd_uint.
  pose proof (take_app (wr_uint sw w n) rest) as T. rewrite wr_uint_length in T. rewrite T.
  unfold wr_uint. destruct sw; [rewrite rev_involutive|]; rewrite le_val_bytes_small by exact H; reflexivity.
Qed.

Lemma rd_uint_ok : forall sw w bs n t, rd_uint sw w bs = Ok (n, t) -> (length t + w = length bs)%nat.
Proof.
  unfold rd_uint. intros sw w bs n t H.
  destruct (take w bs) as [[h t']|] eqn:E; [|discriminate].
  injection H as _ <-. apply take_some in E. destruct E as [-> L]. rewrite app_length. lia.
Qed.

Lemma rd_uint_res : forall sw w bs, (exists n t, rd_uint sw w bs = Ok (n, t)) \/ rd_uint sw w bs = ErrExn EXN_SERIAL.
Proof.
  intros. unfold rd_uint. destruct (take w bs) as [[h t]|]; [left; eauto | right; reflexivity].
Qed.

(* ---------------------------------------------------------------- decimal strings *)
Definition dstep (a d : N) : N := a * 10 + (d - 48).

(* value of a digit string with an accumulator *)
Lemma digs_fold : forall fuel n acc,
  n < 10 ^ N.of_nat fuel ->
  forall a, fold_left dstep (digs fuel n acc) a =
            fold_left dstep acc (fold_left dstep (digs fuel n []) a).
Proof.
  induction fuel; intros n acc H a.
  - cbn. reflexivity.
  - cbn [digs]. destruct (n <? 10) eqn:E.
    + cbn [fold_left]. reflexivity.
    + apply N.ltb_ge in E.
      assert (H' : n / 10 < 10 ^ N.of_nat fuel).
      { replace (N.of_nat (S fuel)) with (N.succ (N.of_nat fuel)) in H by lia.
        rewrite N.pow_succ_r' in H. apply N.div_lt_upper_bound; [discriminate | exact H]. }
      rewrite (IHfuel (n / 10) ((48 + n mod 10) :: acc) H' a).
      rewrite (IHfuel (n / 10) [48 + n mod 10] H' a).
      cbn [fold_left]. reflexivity.
Qed.

Lemma digs_value : forall fuel n,
  n < 10 ^ N.of_nat fuel -> (0 < fuel)%nat -> fold_left dstep (digs fuel n []) 0 = n.
Proof.
  induction fuel; intros n H F; [lia|].
  cbn [digs]. destruct (n <? 10) eqn:E.
  - cbn [fold_left]. unfold dstep. lia.
  - apply N.ltb_ge in E.
    assert (H' : n / 10 < 10 ^ N.of_nat fuel).
    { replace (N.of_nat (S fuel)) with (N.succ (N.of_nat fuel)) in H by lia.
      rewrite N.pow_succ_r' in H. apply N.div_lt_upper_bound; [discriminate | exact H]. }
    rewrite digs_fold by exact H'. cbn [fold_left].
    destruct fuel as [|fuel'].
    + cbn in H'. assert (n / 10 = 0) by lia. lia.
    + rewrite IHfuel by (try exact H'; lia). unfold dstep.
      pose proof (N.mod_lt n 10). lia.
Qed.

Lemma digs_digits : forall fuel n acc,
  forallb is_digit acc = true -> forallb is_digit (digs fuel n acc) = true.
Proof.
  induction fuel; intros n acc H; cbn [digs]; [exact H|].
  destruct (n <? 10) eqn:E.
  - cbn [forallb]. rewrite H. apply N.ltb_lt in E. unfold is_digit.
    replace (48 <=? 48 + n) with true by (symmetry; apply N.leb_le; lia).
    replace (48 + n <=? 57) with true by (symmetry; apply N.leb_le; lia). reflexivity.
  - apply IHfuel. cbn [forallb]. rewrite H. unfold is_digit.
    pose proof (N.mod_lt n 10).
    replace (48 <=? 48 + n mod 10) with true by (symmetry; apply N.leb_le; lia).
    replace (48 + n mod 10 <=? 57) with true by (symmetry; apply N.leb_le; lia). reflexivity.
Qed.

Lemma digs_nonempty : forall fuel n acc, (0 < fuel)%nat -> digs fuel n acc <> [].
Proof.
  induction fuel; intros n acc F; [lia|]. cbn [digs].
  destruct (n <? 10); [discriminate|].
  destruct fuel; [cbn; discriminate | apply IHfuel; lia].
Qed.

Lemma size_bound : forall n, n < 10 ^ N.of_nat (S (N.to_nat (N.size n))).
Proof.
  intros n. destruct n as [|p]; [cbn; lia|].
  assert (H : N.pos p < 2 ^ N.size (N.pos p)) by (apply N.size_gt).
  replace (N.of_nat (S (N.to_nat (N.size (N.pos p))))) with (N.succ (N.size (N.pos p))) by lia.
  eapply N.lt_le_trans; [exact H|].
  rewrite N.pow_succ_r'.
  assert (2 ^ N.size (N.pos p) <= 10 ^ N.size (N.pos p)) by (apply N.pow_le_mono_l; lia).
  lia.
Qed.

Lemma digits_val_fold : forall l, digits_val l = fold_left dstep l 0.
Proof. reflexivity. Qed.

Lemma dec_string_N_val : forall n, digits_val (dec_string_N n) = n.
Proof.
  intros n. unfold dec_string_N. rewrite digits_val_fold.
  apply digs_value; [apply size_bound | lia].
Qed.

Lemma dec_string_N_digits : forall n, forallb is_digit (dec_string_N n) = true.
Proof. intros. unfold dec_string_N. apply digs_digits. reflexivity. Qed.

Lemma dec_string_N_nonempty : forall n, dec_string_N n <> [].
Proof. intros. unfold dec_string_N. apply digs_nonempty. lia. Qed.

(* loads reads back what operator<< printed *)
Lemma parse_dec_string : forall z, parse_int (dec_string z) = Ok z.
Proof.
  intros z. unfold dec_string.
  destruct z as [|p|p].
  - reflexivity.
  - cbn [Z.to_N].
    pose proof (dec_string_N_digits (N.pos p)) as D.
    pose proof (dec_string_N_val (N.pos p)) as V.
    destruct (dec_string_N (N.pos p)) as [|c r] eqn:E; [exfalso; eapply dec_string_N_nonempty; exact E|].
    unfold parse_int. cbn [forallb] in D. apply andb_prop in D. destruct D as [D1 D2].
    rewrite D1, D2, orb_true_r. cbn [negb].
    assert (C : (c =? 45) = false).
    { unfold is_digit in D1. apply N.eqb_neq. lia. }
    rewrite C, V. reflexivity.
  - unfold parse_int.
    replace (45 =? 45) with true by reflexivity. cbn [orb negb].
    rewrite dec_string_N_digits. cbn [negb]. rewrite dec_string_N_val. reflexivity.
Qed.

Lemma dec_string_bytes : forall z, forallb (fun b => b <? 256) (dec_string z) = true.
Proof.
  intros z.
  assert (H : forall l, forallb is_digit l = true -> forallb (fun b => b <? 256) l = true).
  { induction l; cbn [forallb]; [reflexivity|]. intros A. apply andb_prop in A. destruct A as [A1 A2].
    rewrite IHl by exact A2. unfold is_digit in A1.
    replace (a <? 256) with true by (symmetry; apply N.ltb_lt; lia). reflexivity. }
  unfold dec_string. destruct z; try (apply H, dec_string_N_digits).
  cbn [forallb]. rewrite H by apply dec_string_N_digits. reflexivity.
Qed.
