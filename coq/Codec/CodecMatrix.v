(* C19 -- DenseMatrix::loads (DenseMatrix::dumps A) = A: dimensions and the element vector, the
   elements sharing one id table. *)
From SE Require Import Codec.CodecSpec Codec.CodecBytes Codec.CodecTotal Codec.CodecNode Codec.CodecRoundtrip.
From Coq Require Import Lia.
Local Open Scope N_scope.
Local Open Scope res_scope.

Lemma row_cls_typed_forest : forall ws,
  forallb (row_typed [SNode TBasic]) (map row1 (map wt_expr ws)) = true.
Proof. induction ws as [|w ws IH]; [reflexivity|]. cbn. exact IH. Qed.

Lemma forest_kids : forall ws, flat_map row_kids (map row1 (map wt_expr ws)) = map wt_expr ws.
Proof. induction ws as [|w ws IH]; [reflexivity|]. cbn. f_equal. exact IH. Qed.

Lemma forest_goal : forall sw G ws, Forall (node_goal sw G) ws.
Proof. intros. apply Forall_forall. intros w _. apply enc_dec_node. Qed.

Theorem dense_roundtrip : forall sw ver G rows cols ws,
  fst ver < 65536 -> snd ver < 65536 ->
  rows < 4294967296 -> cols < 4294967296 -> rows * cols = N.of_nat (length ws) ->
  N.of_nat (length ws) * 8 < ALLOC_LIMIT ->
  (forall w s, In w ws -> In s (subtrees w) -> node_ok s /\ G (wt_addr s) = Some s) ->
  decode_matrix ver (encode_matrix sw ver rows cols ws) = Ok (rows, cols, ws).
Proof.
  intros sw ver G rows cols ws V1 V2 R C RC AL SUB.
  unfold decode_matrix, encode_matrix.
  destruct (enc_forest sw ws []) as [kb seen'] eqn:EK. cbn [fst].
  destruct (kids_rt sw G ws (forest_goal sw G ws) SUB [] [] ltac:(intros a M; discriminate) kb seen' EK)
    as [tk [_ DK]].
  set (f0 := Nat.max (max_wfuel ws) (length ws)).
  assert (TY : fvals_typed matrix_schema (matrix_vals rows cols (map wt_expr ws)) = true).
  { cbn [fvals_typed matrix_schema matrix_vals fval_typed sval_typed]. rewrite !map_length.
    rewrite row_cls_typed_forest.
    replace (rows <? 4294967296) with true by (symmetry; apply N.ltb_lt; exact R).
    replace (cols <? 4294967296) with true by (symmetry; apply N.ltb_lt; exact C).
    replace (N.of_nat (length ws) * 8 <? ALLOC_LIMIT) with true by (symmetry; apply N.ltb_lt; exact AL).
    replace (N.of_nat (length ws) <? W64) with true by (symmetry; apply N.ltb_lt; unfold ALLOC_LIMIT, W64 in *; lia).
    reflexivity. }
  assert (MK : map wt_expr ws = vals_kids (matrix_vals rows cols (map wt_expr ws))).
  { unfold vals_kids, matrix_vals. cbn [flat_map fval_kids sval_kids app]. rewrite app_nil_r, forest_kids. reflexivity. }
  destruct (fvals_rt (dec_node f0 sw) sw matrix_schema _ TY ws MK kb [] tk [] (DK f0 ltac:(unfold f0; lia)) f0
              ltac:(unfold nrows_of, matrix_vals; cbn [fold_right]; rewrite !map_length; unfold f0; lia))
    as [vs' [pb [EP [DP [VM VK]]]]].
  rewrite EP. cbn [fst]. fold (flag_of sw).
  rewrite rd_header_encode by assumption. cbn [bind]. rewrite !N.eqb_refl. cbn [andb negb].
  set (bs := [flag_of sw] ++ wr_uint sw 2 (fst ver) ++ wr_uint sw 2 (snd ver) ++ pb).
  specialize (DP []). rewrite app_nil_r in DP.
  assert (L : (length pb < S (length bs))%nat) by (unfold bs; rewrite !app_length; lia).
  (* the same result with the fuel of decode_matrix *)
  assert (E : dec_fields (dec_node (S (length bs)) sw) sw (S (length bs)) matrix_schema (pb, [])
              = Ok (vs', ([], tk))).
  { destruct (fields_total (dec_node (S (length bs)) sw) sw (S (length bs)) (dec_node_total sw (S (length bs)))
                (S (length bs)) matrix_schema ltac:(repeat constructor; cbn; discriminate) pb [] L L) as [F _].
    destruct (Nat.le_ge_cases f0 (S (length bs))) as [LE|GE].
    - rewrite (fields_mono (dec_node f0 sw) (dec_node (S (length bs)) sw) sw
                 (fun T st NF => dec_node_mono sw f0 (S (length bs)) T st LE NF) f0 (S (length bs)) _ _ LE);
        [exact DP | intros X; assert (Y := eq_trans (eq_sym X) DP); discriminate Y].
    - rewrite <- DP. symmetry.
      apply (fields_mono (dec_node (S (length bs)) sw) (dec_node f0 sw) sw
               (fun T st NF => dec_node_mono sw (S (length bs)) f0 T st GE NF) (S (length bs)) f0 _ _ GE).
      intros X. exact (eq_ind _ fine F _ X). }
  rewrite E. unfold matrix_vals in VM.
  destruct vs' as [|[[r0|?|?]|?] [|[[c0|?|?]|?] [|[?|rows'] [|? ?]]]]; try discriminate VM.
  cbn [map fval_map sval_map] in VM. injection VM as -> -> VM.
  unfold vals_kids in VK. cbn [flat_map fval_kids sval_kids app] in VK. rewrite app_nil_r in VK.
  assert (LR : length rows' = length ws).
  { apply (f_equal (@length _)) in VM. rewrite !map_length in VM. exact VM. }
  rewrite LR, RC, N.eqb_refl, VK. reflexivity.
Qed.
