(* C19 / C20 -- the cereal portable-binary codec of symengine/serialize-cereal.h on [expr].

   Wire format (PortableBinaryOutputArchive, RCPBasicAwareOutputArchive):
     stream  = u8 little_endian_flag | u16 major | u16 minor | node
     node    = u64 id | u8 first_seen | (if first_seen = 1:) u8 type_code | payload
     id      = the object's ADDRESS in the real archive; here an abstract label
     payload = the fields that save_basic / load_basic of the class pass to ar(...), in order:
               bool = 1 byte, unsigned = 4 bytes, size_t / double = 8 bytes (fixed width, byte
               order of the flag), std::string = u64 length | bytes, RCP<const T> = node,
               vector / set / map = u64 count | elements (pairs: first, second).

   The decoder transcribes RCPBasicAwareInputArchive::load_rcp_basic and the load_basic
   overloads (one row of [schema_k] + one case of [build] per overload); the encoder transcribes
   save_rcp_basic and the save_basic overloads ([vals_of]).  Expressions on the wire are DAGs:
   a [wtree] is a tree of nodes labelled with their ids; two nodes with the same id are the
   same object.  The decoder returns the labelled tree, so that restored sharing is visible.

   Model conventions: errors are values ([ErrExn c], Base/Prelude.v); code 99 = the result is
   outside the [expr] fragment (Infty with a non-integer direction, ImageSet, ConditionSet, a
   ComplexDouble node whose parts are not two doubles, ...), code 98 = unreachable by typing. *)
From SE Require Export Expr.Guards.
Local Open Scope N_scope.
Local Open Scope res_scope.

Definition EXN_UNMODELLED : N := 99.
Definition EXN_INTERNAL : N := 98.

(* ---------------------------------------------------------------- classes *)
(* the static types T of the RCP<const T> fields that occur in the loaders *)
Inductive tclass := TBasic | TNumber | TInteger | TBoolean | TSet.

(* std::is_base_of<T, Class> by type code (cross-checked against the library by the driver's
   `classes` command) *)
Definition number_codes : list N :=
  [TC_Integer; TC_Rational; TC_Complex; TC_ComplexDouble; TC_RealMPFR; TC_ComplexMPC; TC_RealDouble;
   TC_Infty; TC_NaN; TC_NumberWrapper; TC_UnivariateSeries].
Definition boolean_codes : list N :=
  [TC_Contains; TC_BooleanAtom; TC_Not; TC_And; TC_Or; TC_Xor; TC_Equality; TC_Unequality;
   TC_LessThan; TC_StrictLessThan].
Definition set_codes : list N :=
  [TC_EmptySet; TC_FiniteSet; TC_Interval; TC_Complexes; TC_Reals; TC_Rationals; TC_Integers;
   TC_Naturals; TC_Naturals0; TC_ConditionSet; TC_Union; TC_Intersection; TC_Complement;
   TC_ImageSet; TC_UniversalSet].

Definition derives (tc : N) (T : tclass) : bool :=
  match T with
  | TBasic => true
  | TNumber => memN tc number_codes
  | TInteger => tc =? TC_Integer
  | TBoolean => memN tc boolean_codes
  | TSet => memN tc set_codes
  end.

(* ---------------------------------------------------------------- schemas *)
Inductive sfield := SBool | SU32 | SU64 | SF64 | SStr | SNode (T : tclass).
(* FSeq esz elem: u64 count, then count rows of [elem]; esz = sizeof(element) when the container
   is a std::vector (cereal resizes it BEFORE reading the elements), 0 for set / map *)
Inductive field := FOne (f : sfield) | FSeq (esz : N) (elem : list sfield).

(* which load_basic overload a type code selects *)
Inductive ckind :=
| KInteger | KRational | KComplex | KComplexDouble | KRealDouble | KInfty | KNaN
| KSymbol | KDummy | KConstant | KMul | KAdd | KPow | KInterval | KBooleanAtom
| KAndOr | KXor | KNot | KPiecewise | KContains | KAtomSet | KUnion | KComplement
| KImageSet | KFiniteSet | KConditionSet | KDerivative | KSubs
| KOneArg | KTwoArg | KFunctionSymbol | KMultiArg | KNone.

(* std::is_base_of<OneArgFunction, T> *)
Definition one_arg_codes : list N :=
  [TC_Log; TC_Conjugate; TC_Sign; TC_Floor; TC_Ceiling; TC_Truncate;
   TC_Sin; TC_Cos; TC_Tan; TC_Cot; TC_Csc; TC_Sec;
   TC_ASin; TC_ACos; TC_ASec; TC_ACsc; TC_ATan; TC_ACot;
   TC_Sinh; TC_Csch; TC_Cosh; TC_Sech; TC_Tanh; TC_Coth;
   TC_ASinh; TC_ACsch; TC_ACosh; TC_ATanh; TC_ACoth; TC_ASech;
   TC_LambertW; TC_Dirichlet_eta; TC_Erf; TC_Erfc; TC_Gamma; TC_LogGamma; TC_Abs;
   TC_PrimePi; TC_Primorial; TC_UnevaluatedExpr].
(* TwoArgFunction and Relational subclasses: the same loader shape *)
Definition two_arg_codes : list N :=
  [TC_ATan2; TC_Zeta; TC_KroneckerDelta; TC_PolyGamma; TC_LowerGamma; TC_UpperGamma; TC_Beta;
   TC_Equality; TC_Unequality; TC_LessThan; TC_StrictLessThan].
(* MultiArgFunction subclasses without an overload of their own *)
Definition multi_arg_codes : list N := [TC_LeviCivita; TC_Max; TC_Min].
Definition atom_set_codes : list N :=
  [TC_Reals; TC_Rationals; TC_EmptySet; TC_Integers; TC_UniversalSet].

Definition kind_of (tc : N) : ckind :=
  if tc =? TC_Integer then KInteger
  else if tc =? TC_Rational then KRational
  else if tc =? TC_Complex then KComplex
  else if tc =? TC_ComplexDouble then KComplexDouble
  else if tc =? TC_RealDouble then KRealDouble
  else if tc =? TC_Infty then KInfty
  else if tc =? TC_NaN then KNaN
  else if tc =? TC_Symbol then KSymbol
  else if tc =? TC_Dummy then KDummy
  else if tc =? TC_Constant then KConstant
  else if tc =? TC_Mul then KMul
  else if tc =? TC_Add then KAdd
  else if tc =? TC_Pow then KPow
  else if tc =? TC_Interval then KInterval
  else if tc =? TC_BooleanAtom then KBooleanAtom
  else if (tc =? TC_And) || (tc =? TC_Or) then KAndOr
  else if tc =? TC_Xor then KXor
  else if tc =? TC_Not then KNot
  else if tc =? TC_Piecewise then KPiecewise
  else if tc =? TC_Contains then KContains
  else if memN tc atom_set_codes then KAtomSet
  else if tc =? TC_Union then KUnion
  else if tc =? TC_Complement then KComplement
  else if tc =? TC_ImageSet then KImageSet
  else if tc =? TC_FiniteSet then KFiniteSet
  else if tc =? TC_ConditionSet then KConditionSet
  else if tc =? TC_Derivative then KDerivative
  else if tc =? TC_Subs then KSubs
  else if memN tc one_arg_codes then KOneArg
  else if memN tc two_arg_codes then KTwoArg
  else if tc =? TC_FunctionSymbol then KFunctionSymbol
  else if memN tc multi_arg_codes then KMultiArg
  else KNone.

Definition nd (T : tclass) : field := FOne (SNode T).

(* the fields each load_basic overload reads, in order; None = "Loading of this type is not
   implemented" / "Unknown typeID" *)
Definition schema_k (k : ckind) : option (list field) :=
  match k with
  | KInteger => Some [FOne SStr]
  | KRational => Some [nd TInteger; nd TInteger]
  | KComplex | KComplexDouble => Some [nd TNumber; nd TNumber]
  | KRealDouble => Some [FOne SF64]
  | KInfty => Some [nd TNumber]
  | KNaN => Some []
  | KSymbol | KConstant => Some [FOne SStr]
  | KDummy => Some [FOne SStr; FOne SU64]
  | KMul => Some [nd TNumber; FSeq 0 [SNode TBasic; SNode TBasic]]
  | KAdd => Some [nd TNumber; FSeq 0 [SNode TBasic; SNode TNumber]]
  | KPow => Some [nd TBasic; nd TBasic]
  | KInterval => Some [FOne SBool; nd TNumber; FOne SBool; nd TNumber]
  | KBooleanAtom => Some [FOne SBool]
  | KAndOr => Some [FSeq 0 [SNode TBoolean]]
  | KXor => Some [FSeq 8 [SNode TBoolean]]
  | KNot => Some [nd TBoolean]
  | KPiecewise => Some [FSeq 16 [SNode TBasic; SNode TBoolean]]
  | KContains => Some [nd TBasic; nd TSet]
  | KAtomSet => Some []
  | KUnion => Some [FSeq 0 [SNode TSet]]
  | KComplement => Some [nd TSet; nd TSet]
  | KImageSet => Some [nd TBasic; nd TBasic; nd TSet]
  | KFiniteSet => Some [FSeq 0 [SNode TBasic]]
  | KConditionSet => Some [nd TBasic; nd TBoolean]
  | KDerivative => Some [nd TBasic; FSeq 0 [SNode TBasic]]
  | KSubs => Some [nd TBasic; FSeq 0 [SNode TBasic; SNode TBasic]]
  | KOneArg => Some [nd TBasic]
  | KTwoArg => Some [nd TBasic; nd TBasic]
  | KFunctionSymbol => Some [FOne SStr; FSeq 8 [SNode TBasic]]
  | KMultiArg => Some [FSeq 8 [SNode TBasic]]
  | KNone => None
  end.

(* ---------------------------------------------------------------- values *)
Inductive sval (A : Type) := VN (n : N) | VS (s : list N) | VE (a : A).
Arguments VN {A} n.
Arguments VS {A} s.
Arguments VE {A} a.
Inductive fval (A : Type) := FV (v : sval A) | FL (rows : list (list (sval A))).
Arguments FV {A} v.
Arguments FL {A} rows.

Definition sval_map {A B} (f : A -> B) (v : sval A) : sval B :=
  match v with VN n => VN n | VS s => VS s | VE a => VE (f a) end.
Definition fval_map {A B} (f : A -> B) (v : fval A) : fval B :=
  match v with FV v => FV (sval_map f v) | FL rows => FL (map (map (sval_map f)) rows) end.

(* the node fields of a value list, in stream order *)
Definition sval_kids {A} (v : sval A) : list A := match v with VE a => [a] | _ => [] end.
Definition row_kids {A} (r : list (sval A)) : list A := flat_map sval_kids r.
Definition fval_kids {A} (v : fval A) : list A :=
  match v with FV v => sval_kids v | FL rows => flat_map row_kids rows end.
Definition vals_kids {A} (vs : list (fval A)) : list A := flat_map fval_kids vs.

(* a node of the archive: id, the object, the nodes of its RCP fields in stream order *)
Inductive wtree := WT (addr : N) (e : expr) (kids : list wtree).
Definition wt_addr (w : wtree) : N := match w with WT a _ _ => a end.
Definition wt_expr (w : wtree) : expr := match w with WT _ e _ => e end.
Definition wt_kids (w : wtree) : list wtree := match w with WT _ _ k => k end.

(* ---------------------------------------------------------------- containers *)
(* std::set / std::map with RCPBasicKeyLess: sorted, a key equivalent to a stored one is not
   inserted (emplace_hint) *)
Section Containers.
  Context {V : Type}.
  Fixpoint kl_insert (k : expr) (v : V) (m : list (expr * V)) : list (expr * V) :=
    match m with
    | [] => [(k, v)]
    | (k', v') :: r =>
        if expr_keyless k' k then (k', v') :: kl_insert k v r
        else if expr_keyless k k' then (k, v) :: m
        else m
    end.
  Definition kl_build (rows : list (expr * V)) : list (expr * V) :=
    fold_left (fun m p => kl_insert (fst p) (snd p) m) rows [].
  (* std::unordered_map with RCPBasicHash / RCPBasicKeyEq: emplace keeps the first of two
     equal keys; the model keeps insertion order (the library iterates in bucket order: Add
     entries are compared as sets) *)
  Definition um_mem (k : expr) (m : list (expr * V)) : bool :=
    existsb (fun p => (hash (fst p) =? hash k) && expr_eqb (fst p) k) m.
  Definition um_build (rows : list (expr * V)) : list (expr * V) :=
    fold_left (fun m p => if um_mem (fst p) m then m else m ++ [p]) rows [].
End Containers.

(* std::multiset: equivalent keys are kept; a new key goes behind the keys that are not greater *)
Fixpoint ms_insert (k : expr) (m : list expr) : list expr :=
  match m with
  | [] => [k]
  | k' :: r => if expr_keyless k k' then k :: m else k' :: ms_insert k r
  end.
Definition ms_build (l : list expr) : list expr := fold_left (fun m k => ms_insert k m) l [].

Definition set_build (l : list expr) : list expr :=
  map fst (kl_build (map (fun k => (k, tt)) l)).

(* ---------------------------------------------------------------- numbers *)
Definition is_digit (c : N) : bool := (48 <=? c) && (c <=? 57).
Definition digits_val (l : list N) : N := fold_left (fun a d => a * 10 + (d - 48)) l 0.

(* load_helper(integer_class): validation, then mpz_init_set_str (whose failure on the lone
   sign "-" leaves the value 0) *)
Definition parse_int (s : list N) : res Z :=
  match s with
  | [] => ErrExn EXN_SERIAL
  | c :: r =>
      if negb ((c =? 45) || is_digit c) then ErrExn EXN_SERIAL
      else if negb (forallb is_digit r) then ErrExn EXN_SERIAL
      else if c =? 45 then Ok (- Z.of_N (digits_val r))%Z
      else Ok (Z.of_N (digits_val (c :: r)))
  end.

(* Rational::from_two_ints *)
Definition rat_norm (n d : Z) : number :=
  if (d =? 0)%Z then (if (n =? 0)%Z then NNaN else NInf 0)
  else
    let g := Z.gcd n d in
    let n' := (if (d <? 0)%Z then - (n / g) else n / g)%Z in
    let d' := (Z.abs d / g)%Z in
    if (d' =? 1)%Z then NInt n' else NRat n' (Z.to_pos d').

Definition rat_parts (x : number) : option (Z * positive) :=
  match x with
  | NInt z => Some (z, 1%positive)
  | NRat n d => Some (n, d)
  | _ => None
  end.
(* Rational::from_mpq *)
Definition rat_number (n : Z) (d : positive) : number :=
  if (d =? 1)%positive then NInt n else NRat n d.

(* Complex::from_two_nums *)
Definition cplx_build (re im : number) : res number :=
  match rat_parts re, rat_parts im with
  | Some (rn, rd), Some (imn, imd) =>
      if (imn =? 0)%Z then Ok (rat_number rn rd) else Ok (NCplx rn rd imn imd)
  | _, _ => ErrExn EXN_SYMENGINE
  end.

(* load_basic(RCP<const ComplexDouble>): two RealDouble parts give the value with exactly these
   parts; other operands go through addnum(re, mulnum(I, im)) (code 99) *)
Definition cd_build (re im : number) : res number :=
  match re, im with
  | NDbl r, NDbl i => Ok (NCDbl r i)
  | _, _ => ErrExn EXN_UNMODELLED
  end.

(* ---------------------------------------------------------------- build (load_basic) *)
Definition as_num (e : expr) : res number :=
  match e with ENum n => Ok n | _ => ErrExn EXN_INTERNAL end.

Fixpoint rows1 (rows : list (list (sval expr))) : res (list expr) :=
  match rows with
  | [] => Ok []
  | [VE a] :: r => do l <- rows1 r; Ok (a :: l)
  | _ => ErrExn EXN_INTERNAL
  end.
Fixpoint rows2 (rows : list (list (sval expr))) : res (list (expr * expr)) :=
  match rows with
  | [] => Ok []
  | [VE a; VE b] :: r => do l <- rows2 r; Ok ((a, b) :: l)
  | _ => ErrExn EXN_INTERNAL
  end.
Fixpoint rows_num (rows : list (expr * expr)) : res (list (expr * number)) :=
  match rows with
  | [] => Ok []
  | (a, b) :: r => do n <- as_num b; do l <- rows_num r; Ok ((a, n) :: l)
  end.

Definition build (tc : N) (vals : list (fval expr)) : res expr :=
  match kind_of tc, vals with
  | KInteger, [FV (VS s)] => do z <- parse_int s; Ok (ENum (NInt z))
  | KRational, [FV (VE (ENum (NInt n))); FV (VE (ENum (NInt d)))] => Ok (ENum (rat_norm n d))
  | KComplex, [FV (VE a); FV (VE b)] =>
      do x <- as_num a; do y <- as_num b; do r <- cplx_build x y; Ok (ENum r)
  | KComplexDouble, [FV (VE a); FV (VE b)] =>
      do x <- as_num a; do y <- as_num b; do r <- cd_build x y; Ok (ENum r)
  | KRealDouble, [FV (VN b)] => Ok (ENum (NDbl b))
  | KInfty, [FV (VE a)] =>
      do x <- as_num a;
      match x with NInt d => Ok (ENum (NInf d)) | _ => ErrExn EXN_UNMODELLED end
  | KNaN, [] => Ok (ENum NNaN)
  | KSymbol, [FV (VS s)] => Ok (ESym s)
  | KDummy, [FV (VS s); FV (VN i)] => Ok (EDummy s i)
  | KConstant, [FV (VS s)] => Ok (EConst s)
  | KMul, [FV (VE c); FL rows] =>
      do x <- as_num c; do l <- rows2 rows; Ok (EMul x (kl_build l))
  | KAdd, [FV (VE c); FL rows] =>
      do x <- as_num c; do l <- rows2 rows; do ln <- rows_num l; Ok (EAdd x (um_build ln))
  | KPow, [FV (VE a); FV (VE b)] => Ok (EPow a b)
  | KInterval, [FV (VN lo); FV (VE s); FV (VN ro); FV (VE e)] =>
      if (1 <? lo) || (1 <? ro) then ErrExn EXN_SERIAL else Ok (EInterval s e (lo =? 1) (ro =? 1))
  | KBooleanAtom, [FV (VN b)] => if 1 <? b then ErrExn EXN_SERIAL else Ok (EBool (b =? 1))
  | KAndOr, [FL rows] =>
      do l <- rows1 rows;
      if (length (set_build l) <? 2)%nat then ErrExn EXN_SERIAL else Ok (EFN tc (set_build l))
  | KXor, [FL rows] =>
      do l <- rows1 rows; if (length l <? 2)%nat then ErrExn EXN_SERIAL else Ok (EFN tc l)
  | KNot, [FV (VE a)] => Ok (EF1 tc a)
  | KPiecewise, [FL rows] =>
      do l <- rows2 rows; if (length l <? 1)%nat then ErrExn EXN_SERIAL else Ok (EPw l)
  | KContains, [FV (VE a); FV (VE b)] => Ok (ELex tc a b)
  | KAtomSet, [] => Ok (EAtom tc)
  | KUnion, [FL rows] =>
      do l <- rows1 rows;
      if (length (set_build l) <? 2)%nat then ErrExn EXN_SERIAL else Ok (EFN tc (set_build l))
  | KComplement, [FV (VE a); FV (VE b)] => Ok (ELex tc a b)
  | KImageSet, [FV (VE _); FV (VE _); FV (VE _)] => ErrExn EXN_UNMODELLED
  | KFiniteSet, [FL rows] => do l <- rows1 rows; Ok (EFN tc (set_build l))
  | KConditionSet, [FV (VE _); FV (VE _)] => ErrExn EXN_UNMODELLED
  | KDerivative, [FV (VE a); FL rows] => do l <- rows1 rows; Ok (EDeriv a (ms_build l))
  | KSubs, [FV (VE a); FL rows] => do l <- rows2 rows; Ok (ESubs a (kl_build l))
  | KOneArg, [FV (VE a)] => Ok (EF1 tc a)
  | KTwoArg, [FV (VE a); FV (VE b)] => Ok (EF2 tc a b)
  | KFunctionSymbol, [FV (VS s); FL rows] => do l <- rows1 rows; Ok (EFunSym s l)
  | KMultiArg, [FL rows] =>
      do l <- rows1 rows; if (length l <? 1)%nat then ErrExn EXN_SERIAL else Ok (EFN tc l)
  | _, _ => ErrExn EXN_INTERNAL
  end.

(* ---------------------------------------------------------------- reading bytes *)
Definition take (n : nat) (bs : list N) : option (list N * list N) :=
  if (n <=? length bs)%nat then Some (firstn n bs, skipn n bs) else None.

(* the same with the count in N (never converts a count larger than the input to nat) *)
Definition take_n (n : N) (bs : list N) : option (list N * list N) :=
  if N.of_nat (length bs) <? n then None
  else Some (firstn (N.to_nat n) bs, skipn (N.to_nat n) bs).

Fixpoint le_val (l : list N) : N :=
  match l with [] => 0 | b :: r => b + 256 * le_val r end.

(* a fixed-width unsigned value; [sw] = the stream's byte order differs from the machine's
   (loadBinary swaps every DataSize-sized item) *)
Definition rd_uint (sw : bool) (w : nat) (bs : list N) : res (N * list N) :=
  match take w bs with
  | None => ErrExn EXN_SERIAL
  | Some (h, t) => Ok (le_val (if sw then rev h else h), t)
  end.

(* vector::resize / string::resize of a size read from the stream happen before the elements are
   read: sizes of 2^32 bytes and more fail with std::length_error / std::bad_alloc in the test
   environment (drivers run under RLIMIT_AS = 3 GiB); load_rcp_basic and DenseMatrix::loads
   convert both to SerializationError *)
Definition ALLOC_LIMIT : N := 4294967296.

Definition dstate : Type := list N * list (N * wtree).

Fixpoint lookup (a : N) (t : list (N * wtree)) : option wtree :=
  match t with
  | [] => None
  | (k, w) :: r => if k =? a then Some w else lookup a r
  end.

Section Fields.
  (* the recursive call for an RCP field *)
  Variable rec : tclass -> dstate -> res (wtree * dstate).
  Variable sw : bool.

  Definition dec_sfield (f : sfield) (st : dstate) : res (sval wtree * dstate) :=
    match f with
    | SBool => do '(n, bs) <- rd_uint sw 1 (fst st); Ok (VN n, (bs, snd st))
    | SU32 => do '(n, bs) <- rd_uint sw 4 (fst st); Ok (VN n, (bs, snd st))
    | SU64 | SF64 => do '(n, bs) <- rd_uint sw 8 (fst st); Ok (VN n, (bs, snd st))
    | SStr =>
        do '(n, bs) <- rd_uint sw 8 (fst st);
        if ALLOC_LIMIT <=? n then ErrExn EXN_SERIAL
        else match take_n n bs with
             | None => ErrExn EXN_SERIAL
             | Some (s, bs') => Ok (VS s, (bs', snd st))
             end
    | SNode T => do '(w, st') <- rec T st; Ok (VE w, st')
    end.

  Fixpoint dec_svals (fs : list sfield) (st : dstate) : res (list (sval wtree) * dstate) :=
    match fs with
    | [] => Ok ([], st)
    | f :: r =>
        do '(v, st1) <- dec_sfield f st;
        do '(vs, st2) <- dec_svals r st1;
        Ok (v :: vs, st2)
    end.

  Fixpoint dec_rows (k : nat) (n : N) (elem : list sfield) (st : dstate)
    : res (list (list (sval wtree)) * dstate) :=
    if n =? 0 then Ok ([], st)
    else match k with
         | O => ErrFuel
         | S k' =>
             do '(row, st1) <- dec_svals elem st;
             do '(rows, st2) <- dec_rows k' (n - 1) elem st1;
             Ok (row :: rows, st2)
         end.

  Definition dec_field (k : nat) (f : field) (st : dstate) : res (fval wtree * dstate) :=
    match f with
    | FOne s => do '(v, st1) <- dec_sfield s st; Ok (FV v, st1)
    | FSeq esz elem =>
        do '(n, bs) <- rd_uint sw 8 (fst st);
        if ALLOC_LIMIT <=? n * esz then ErrExn EXN_SERIAL
        else do '(rows, st1) <- dec_rows k n elem (bs, snd st); Ok (FL rows, st1)
    end.

  Fixpoint dec_fields (k : nat) (fs : list field) (st : dstate) : res (list (fval wtree) * dstate) :=
    match fs with
    | [] => Ok ([], st)
    | f :: r =>
        do '(v, st1) <- dec_field k f st;
        do '(vs, st2) <- dec_fields k r st1;
        Ok (v :: vs, st2)
    end.
End Fields.

(* RCPBasicAwareInputArchive::load_rcp_basic<T> *)
Fixpoint dec_node (fuel : nat) (sw : bool) (T : tclass) (st : dstate) : res (wtree * dstate) :=
  match fuel with
  | O => ErrFuel
  | S f =>
      do '(addr, bs1) <- rd_uint sw 8 (fst st);
      do '(fs, bs2) <- rd_uint sw 1 bs1;
      if 2 <=? fs then ErrExn EXN_SERIAL
      else if fs =? 0 then
        match lookup addr (snd st) with
        | None => ErrExn EXN_SERIAL
        | Some w =>
            if derives (type_code (wt_expr w)) T then Ok (w, (bs2, snd st)) else ErrExn EXN_SERIAL
        end
      else
        do '(tc, bs3) <- rd_uint sw 1 bs2;
        if TC_Count <=? tc then ErrExn EXN_SERIAL
        else match schema_k (kind_of tc) with
             | None => ErrExn EXN_SERIAL
             | Some sch =>
                 do '(vals, st') <- dec_fields (dec_node f sw) sw f sch (bs3, snd st);
                 do e <- build tc (map (fval_map wt_expr) vals);
                 let w := WT addr e (vals_kids vals) in
                 if derives tc T then Ok (w, (fst st', (addr, w) :: snd st'))
                 else ErrExn EXN_SERIAL
             end
  end.

(* the stream header; an end of input here is a cereal::Exception, converted by loads *)
Definition rd_header (bs : list N) : res (bool * N * N * list N) :=
  match bs with
  | [] => ErrExn EXN_SERIAL
  | flag :: r =>
      let sw := negb (flag =? 1) in
      match rd_uint sw 2 r with
      | Ok (major, r1) =>
          match rd_uint sw 2 r1 with
          | Ok (minor, r2) => Ok (sw, major, minor, r2)
          | _ => ErrExn EXN_SERIAL
          end
      | _ => ErrExn EXN_SERIAL
      end
  end.

(* Basic::loads; [ver] = (SYMENGINE_MAJOR_VERSION, SYMENGINE_MINOR_VERSION) *)
Definition decode_lab (ver : N * N) (bs : list N) : res wtree :=
  do '(sw, major, minor, r) <- rd_header bs;
  if negb ((major =? fst ver) && (minor =? snd ver)) then ErrExn EXN_SERIAL
  else do '(w, _) <- dec_node (S (length bs)) sw TBasic (r, []); Ok w.

Definition decode (ver : N * N) (bs : list N) : res expr :=
  do w <- decode_lab ver bs; Ok (wt_expr w).

(* DenseMatrix::loads: row, col, the element vector, which must have row * col entries *)
Definition matrix_schema : list field := [FOne SU32; FOne SU32; FSeq 8 [SNode TBasic]].
Definition decode_matrix (ver : N * N) (bs : list N) : res (N * N * list wtree) :=
  do '(sw, major, minor, r) <- rd_header bs;
  if negb ((major =? fst ver) && (minor =? snd ver)) then ErrExn EXN_SERIAL
  else
    match dec_fields (dec_node (S (length bs)) sw) sw (S (length bs)) matrix_schema (r, []) with
    | Ok ([FV (VN row); FV (VN col); FL rows], _) =>
        if row * col =? N.of_nat (length rows) then Ok (row, col, flat_map row_kids rows)
        else ErrExn EXN_SERIAL
    | Ok _ => ErrExn EXN_INTERNAL
    | ErrExn c => ErrExn c
    | ErrFuel => ErrFuel
    | ErrOOB i l => ErrOOB i l
    end.

(* ---------------------------------------------------------------- encoder *)
Fixpoint le_bytes (w : nat) (n : N) : list N :=
  match w with O => [] | S w' => n mod 256 :: le_bytes w' (n / 256) end.
Definition wr_uint (sw : bool) (w : nat) (n : N) : list N :=
  if sw then rev (le_bytes w n) else le_bytes w n.

(* decimal digits, most significant first *)
Fixpoint digs (fuel : nat) (n : N) (acc : list N) : list N :=
  match fuel with
  | O => acc
  | S f => if n <? 10 then (48 + n) :: acc else digs f (n / 10) ((48 + n mod 10) :: acc)
  end.
Definition dec_string_N (n : N) : list N := digs (S (N.to_nat (N.size n))) n [].
(* operator<<(ostream, integer_class) *)
Definition dec_string (z : Z) : list N :=
  match z with
  | Zneg p => 45 :: dec_string_N (Npos p)
  | _ => dec_string_N (Z.to_N z)
  end.

Definition b2n (b : bool) : N := if b then 1 else 0.
Definition enum (n : number) : sval expr := VE (ENum n).
Definition row1 (a : expr) : list (sval expr) := [VE a].
Definition row2 (p : expr * expr) : list (sval expr) := [VE (fst p); VE (snd p)].
Definition row2n (p : expr * number) : list (sval expr) := [VE (fst p); enum (snd p)].

(* the values save_basic passes to the archive *)
Definition vals_of (e : expr) : list (fval expr) :=
  match e with
  | ENum (NInt z) => [FV (VS (dec_string z))]
  | ENum (NRat n d) => [FV (enum (NInt n)); FV (enum (NInt (Zpos d)))]
  | ENum (NCplx rn rd imn imd) => [FV (enum (rat_number rn rd)); FV (enum (rat_number imn imd))]
  | ENum (NDbl b) => [FV (VN b)]
  | ENum (NCDbl re im) => [FV (enum (NDbl re)); FV (enum (NDbl im))]
  | ENum (NInf d) => [FV (enum (NInt d))]
  | ENum NNaN => []
  | ESym s => [FV (VS s)]
  | EDummy s i => [FV (VS s); FV (VN i)]
  | EConst s => [FV (VS s)]
  | EAdd c d => [FV (enum c); FL (map row2n d)]
  | EMul c d => [FV (enum c); FL (map row2 d)]
  | EPow a b => [FV (VE a); FV (VE b)]
  | EF1 _ a => [FV (VE a)]
  | EF2 _ a b => [FV (VE a); FV (VE b)]
  | EFN _ l => [FL (map row1 l)]
  | EFunSym s l => [FV (VS s); FL (map row1 l)]
  | ELex _ a b => [FV (VE a); FV (VE b)]
  | EDeriv a l => [FV (VE a); FL (map row1 l)]
  | ESubs a d => [FV (VE a); FL (map row2 d)]
  | EPw l => [FL (map row2 l)]
  | EBool b => [FV (VN (b2n b))]
  | EInterval s x lo ro => [FV (VN (b2n lo)); FV (VE s); FV (VN (b2n ro)); FV (VE x)]
  | EAtom _ => []
  end.

(* the expressions of the RCP fields of a node, in stream order *)
Definition child_exprs (e : expr) : list expr := vals_kids (vals_of e).

(* writing the fields: node fields take the next already-encoded child *)
Definition enc_sval (sw : bool) (f : sfield) (v : sval expr) (kb : list (list N))
  : list N * list (list N) :=
  match f, v with
  | SBool, VN n => (wr_uint sw 1 n, kb)
  | SU32, VN n => (wr_uint sw 4 n, kb)
  | (SU64 | SF64), VN n => (wr_uint sw 8 n, kb)
  | SStr, VS s => (wr_uint sw 8 (N.of_nat (length s)) ++ s, kb)
  | SNode _, VE _ => match kb with b :: r => (b, r) | [] => ([], []) end
  | _, _ => ([], kb)
  end.
Fixpoint enc_row (sw : bool) (fs : list sfield) (vs : list (sval expr)) (kb : list (list N))
  : list N * list (list N) :=
  match fs, vs with
  | f :: fr, v :: vr =>
      let '(b1, kb1) := enc_sval sw f v kb in
      let '(b2, kb2) := enc_row sw fr vr kb1 in (b1 ++ b2, kb2)
  | _, _ => ([], kb)
  end.
Fixpoint enc_rows (sw : bool) (fs : list sfield) (rows : list (list (sval expr))) (kb : list (list N))
  : list N * list (list N) :=
  match rows with
  | [] => ([], kb)
  | r :: rr =>
      let '(b1, kb1) := enc_row sw fs r kb in
      let '(b2, kb2) := enc_rows sw fs rr kb1 in (b1 ++ b2, kb2)
  end.
Definition enc_fval (sw : bool) (f : field) (v : fval expr) (kb : list (list N))
  : list N * list (list N) :=
  match f, v with
  | FOne s, FV x => enc_sval sw s x kb
  | FSeq _ elem, FL rows =>
      let '(b, kb1) := enc_rows sw elem rows kb in
      (wr_uint sw 8 (N.of_nat (length rows)) ++ b, kb1)
  | _, _ => ([], kb)
  end.
Fixpoint enc_fvals (sw : bool) (fs : list field) (vs : list (fval expr)) (kb : list (list N))
  : list N * list (list N) :=
  match fs, vs with
  | f :: fr, v :: vr =>
      let '(b1, kb1) := enc_fval sw f v kb in
      let '(b2, kb2) := enc_fvals sw fr vr kb1 in (b1 ++ b2, kb2)
  | _, _ => ([], kb)
  end.

Definition enc_payload (sw : bool) (e : expr) (kb : list (list N)) : list N :=
  match schema_k (kind_of (type_code e)) with
  | Some sch => fst (enc_fvals sw sch (vals_of e) kb)
  | None => []
  end.

(* RCPBasicAwareOutputArchive::save_rcp_basic; [seen] = _addresses.  Returns the bytes and the
   new set of addresses. *)
Fixpoint enc_node (sw : bool) (w : wtree) (seen : list N) : list N * list N :=
  match w with
  | WT a e kids =>
      if memN a seen then (wr_uint sw 8 a ++ [0], seen)
      else
        let fix go (ks : list wtree) (seen : list N) : list (list N) * list N :=
          match ks with
          | [] => ([], seen)
          | k :: r =>
              let '(b, s1) := enc_node sw k seen in
              let '(bs, s2) := go r s1 in (b :: bs, s2)
          end in
        let '(kb, seen') := go kids seen in
        (wr_uint sw 8 a ++ [1; type_code e] ++ enc_payload sw e kb, a :: seen')
  end.

(* Basic::dumps *)
Definition encode (sw : bool) (ver : N * N) (w : wtree) : list N :=
  [if sw then 0 else 1] ++ wr_uint sw 2 (fst ver) ++ wr_uint sw 2 (snd ver)
  ++ fst (enc_node sw w []).

(* DenseMatrix::dumps: ar(row_, col_, m_) -- the elements share one id set *)
Fixpoint enc_forest (sw : bool) (ws : list wtree) (seen : list N) : list (list N) * list N :=
  match ws with
  | [] => ([], seen)
  | w :: r =>
      let '(b, s1) := enc_node sw w seen in
      let '(bs, s2) := enc_forest sw r s1 in (b :: bs, s2)
  end.
Definition matrix_vals (rows cols : N) (es : list expr) : list (fval expr) :=
  [FV (VN rows); FV (VN cols); FL (map row1 es)].
Definition encode_matrix (sw : bool) (ver : N * N) (rows cols : N) (ws : list wtree) : list N :=
  [if sw then 0 else 1] ++ wr_uint sw 2 (fst ver) ++ wr_uint sw 2 (snd ver)
  ++ fst (enc_fvals sw matrix_schema (matrix_vals rows cols (map wt_expr ws)) (fst (enc_forest sw ws []))).

(* which classes save_basic accepts (the others throw SerializationError / NotImplementedError) *)
Definition saveable (e : expr) : bool :=
  match schema_k (kind_of (type_code e)) with Some _ => true | None => false end.

(* ---------------------------------------------------------------- labelling trees *)
(* every node gets a fresh id (no sharing), in stream order starting at [n] *)
Fixpoint label_fresh (fuel : nat) (e : expr) (n : N) : wtree * N :=
  match fuel with
  | O => (WT n e [], n + 1)
  | S f =>
      let fix go (l : list expr) (n : N) : list wtree * N :=
        match l with
        | [] => ([], n)
        | x :: r => let '(w, n1) := label_fresh f x n in let '(ws, n2) := go r n1 in (w :: ws, n2)
        end in
      let '(ks, n') := go (child_exprs e) (n + 1) in
      (WT n e ks, n')
  end.
(* the number of wire nodes is bounded by 3 * size + 2 per level; [size e] levels suffice
   because every child expression of a non-number is a subterm and numbers nest at most twice *)
Definition label (e : expr) : wtree := fst (label_fresh (size e + 2) e 1).
