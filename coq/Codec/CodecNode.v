(* C19 -- one node: load_basic applied to the values save_basic wrote rebuilds the node. *)
From SE Require Import Codec.CodecSpec Codec.CodecBytes.
From Coq Require Import Lia.
Local Open Scope N_scope.
Local Open Scope res_scope.

(* ---------------------------------------------------------------- rows *)
Lemma rows1_map : forall l, rows1 (map row1 l) = Ok l.
Proof. induction l as [|a l IH]; [reflexivity|]. cbn [map row1 rows1]. rewrite IH. reflexivity. Qed.

Lemma rows2_map : forall d, rows2 (map row2 d) = Ok d.
Proof.
  induction d as [|[a b] d IH]; [reflexivity|]. cbn [map row2 rows2 fst snd]. rewrite IH. reflexivity.
Qed.

Lemma rows2_map_n : forall d, rows2 (map row2n d) = Ok (map (fun p => (fst p, ENum (snd p))) d).
Proof.
  induction d as [|[a b] d IH]; [reflexivity|]. cbn [map row2n rows2 fst snd enum]. rewrite IH. reflexivity.
Qed.

Lemma rows_num_map : forall (d : list (expr * number)), rows_num (map (fun p => (fst p, ENum (snd p))) d) = Ok d.
Proof.
  induction d as [|[a b] d IH]; [reflexivity|]. cbn [map rows_num fst snd as_num bind]. rewrite IH. reflexivity.
Qed.

(* ---------------------------------------------------------------- containers *)
Lemma kl_insert_end : forall {V} k (v : V) m,
  forallb (fun x => expr_keyless (fst x) k) m = true -> kl_insert k v m = m ++ [(k, v)].
Proof.
  intros V k v. induction m as [|[k' v'] m IH]; intros H; [reflexivity|].
  cbn [forallb fst] in H. apply andb_prop in H. destruct H as [H1 H2].
  cbn [kl_insert]. rewrite H1. cbn [app]. f_equal. apply IH. exact H2.
Qed.

Lemma kl_fold_sorted : forall {V} (d acc : list (expr * V)),
  (forall x y, In x acc -> In y d -> expr_keyless (fst x) (fst y) = true) ->
  kl_sorted d = true ->
  fold_left (fun m p => kl_insert (fst p) (snd p) m) d acc = acc ++ d.
Proof.
  intros V. induction d as [|[k v] d IH]; intros acc H S; [cbn; symmetry; apply app_nil_r|].
  cbn [kl_sorted fst] in S. apply andb_prop in S. destruct S as [S1 S2].
  cbn [fold_left fst snd]. rewrite kl_insert_end.
  - rewrite IH; [rewrite <- app_assoc; reflexivity | | exact S2].
    intros x y Hx Hy. apply in_app_or in Hx. destruct Hx as [Hx|[<-|[]]].
    + apply H; [exact Hx | right; exact Hy].
    + rewrite forallb_forall in S1. apply S1. exact Hy.
  - apply forallb_forall. intros x Hx. apply (H x (k, v)); [exact Hx | left; reflexivity].
Qed.

Lemma kl_build_sorted : forall {V} (d : list (expr * V)), kl_sorted d = true -> kl_build d = d.
Proof. intros V d S. unfold kl_build. rewrite kl_fold_sorted; [reflexivity | intros x y [] | exact S]. Qed.

Lemma set_sorted_kl : forall l, set_sorted l = true -> kl_sorted (map (fun k => (k, tt)) l) = true.
Proof.
  induction l as [|x l IH]; [reflexivity|]. cbn [set_sorted map kl_sorted fst]. intros H.
  apply andb_prop in H. destruct H as [H1 H2]. rewrite IH by exact H2. rewrite andb_true_r.
  rewrite forallb_forall in *. intros y Hy. apply in_map_iff in Hy. destruct Hy as [z [<- Hz]]. cbn. apply H1. exact Hz.
Qed.

Lemma set_build_sorted : forall l, set_sorted l = true -> set_build l = l.
Proof.
  intros l S. unfold set_build. rewrite kl_build_sorted by (apply set_sorted_kl; exact S).
  rewrite map_map. cbn. apply map_id.
Qed.

Lemma ms_insert_end : forall k m,
  forallb (fun x => negb (expr_keyless k x)) m = true -> ms_insert k m = m ++ [k].
Proof.
  intros k. induction m as [|k' m IH]; intros H; [reflexivity|].
  cbn [forallb] in H. apply andb_prop in H. destruct H as [H1 H2].
  cbn [ms_insert]. apply negb_true_iff in H1. rewrite H1. cbn [app]. f_equal. apply IH. exact H2.
Qed.

Lemma ms_fold_sorted : forall d acc,
  (forall x y, In x acc -> In y d -> expr_keyless y x = false) ->
  ms_sorted d = true ->
  fold_left (fun m k => ms_insert k m) d acc = acc ++ d.
Proof.
  induction d as [|k d IH]; intros acc H S; [cbn; symmetry; apply app_nil_r|].
  cbn [ms_sorted] in S. apply andb_prop in S. destruct S as [S1 S2].
  cbn [fold_left]. rewrite ms_insert_end.
  - rewrite IH; [rewrite <- app_assoc; reflexivity | | exact S2].
    intros x y Hx Hy. apply in_app_or in Hx. destruct Hx as [Hx|[<-|[]]].
    + apply H; [exact Hx | right; exact Hy].
    + rewrite forallb_forall in S1. apply negb_true_iff. apply S1. exact Hy.
  - apply forallb_forall. intros x Hx. apply negb_true_iff. apply (H x k); [exact Hx | left; reflexivity].
Qed.

Lemma ms_build_sorted : forall l, ms_sorted l = true -> ms_build l = l.
Proof. intros l S. unfold ms_build. rewrite ms_fold_sorted; [reflexivity | intros x y [] | exact S]. Qed.

Lemma um_fold_distinct : forall {V} (d acc : list (expr * V)),
  (forall x y, In x acc -> In y d -> (hash (fst x) =? hash (fst y)) && expr_eqb (fst x) (fst y) = false) ->
  um_distinct d = true ->
  fold_left (fun m p => if um_mem (fst p) m then m else m ++ [p]) d acc = acc ++ d.
Proof.
  intros V. induction d as [|p d IH]; intros acc H S; [cbn; symmetry; apply app_nil_r|].
  cbn [um_distinct] in S. apply andb_prop in S. destruct S as [S1 S2].
  cbn [fold_left].
  assert (M : um_mem (fst p) acc = false).
  { unfold um_mem. apply not_true_is_false. intros E. apply existsb_exists in E. destruct E as [x [Hx E]].
    rewrite (H x p Hx (or_introl eq_refl)) in E. discriminate. }
  rewrite M. rewrite IH; [rewrite <- app_assoc; reflexivity | | exact S2].
  intros x y Hx Hy. apply in_app_or in Hx. destruct Hx as [Hx|[<-|[]]].
  - apply H; [exact Hx | right; exact Hy].
  - rewrite forallb_forall in S1. apply negb_true_iff. apply S1. exact Hy.
Qed.

Lemma um_build_distinct : forall {V} (d : list (expr * V)), um_distinct d = true -> um_build d = d.
Proof. intros V d S. unfold um_build. rewrite um_fold_distinct; [reflexivity | intros x y [] | exact S]. Qed.

(* ---------------------------------------------------------------- numbers *)
Lemma rat_norm_canonical : forall n d,
  (Z.gcd n (Zpos d) =? 1)%Z = true -> (1 <? Zpos d)%Z = true -> rat_norm n (Zpos d) = NRat n d.
Proof.
  intros n d G L. unfold rat_norm. apply Z.eqb_eq in G. apply Z.ltb_lt in L.
  replace (Z.pos d =? 0)%Z with false by reflexivity. rewrite G.
  replace (Z.pos d <? 0)%Z with false by reflexivity.
  rewrite Z.div_1_r. cbn [Z.abs]. rewrite Z.div_1_r.
  replace (Z.pos d =? 1)%Z with false by (symmetry; apply Z.eqb_neq; lia).
  reflexivity.
Qed.

Lemma rat_parts_number : forall n d, rat_parts (rat_number n d) = Some (n, d).
Proof.
  intros n d. unfold rat_number. destruct (d =? 1)%positive eqn:E; [|reflexivity].
  apply Pos.eqb_eq in E. subst. reflexivity.
Qed.

Lemma b2n_back : forall b, (b2n b =? 1) = b.
Proof. destruct b; reflexivity. Qed.
Lemma b2n_small : forall b, (1 <? b2n b) = false.
Proof. destruct b; reflexivity. Qed.
Lemma ltb_of_leb : forall a b, (S a <=? b)%nat = true -> (b <? S a)%nat = false.
Proof. intros a b H. apply Nat.leb_le in H. apply Nat.ltb_ge. exact H. Qed.

Lemma ckind_beq_eq : forall a b, ckind_beq a b = true -> a = b.
Proof. exact internal_ckind_dec_bl. Qed.

(* ---------------------------------------------------------------- the node *)
Theorem node_build : forall e, node_ser e = true -> build (type_code e) (vals_of e) = Ok e.
Proof.
  intros e H. unfold node_ser in H. apply andb_prop in H. destruct H as [_ H].
  destruct (schema_k (kind_of (type_code e))) as [sch|] eqn:SK; [|discriminate].
  apply andb_prop in H. destruct H as [TY CO].
  destruct e as [n|s|s i|s|c d|c d|a b|c a|c a b|c l|s l|c a b|a l|a d|l|b|s x lo ro|c];
    cbn [type_code vals_of class_ok] in *.
  - (* numbers *)
    destruct n as [z|n d|rn rd imn imd|b|re im|d|]; cbn [num_type_code vals_of] in *; unfold build.
    + change (kind_of TC_Integer) with KInteger. rewrite parse_dec_string. reflexivity.
    + change (kind_of TC_Rational) with KRational. cbn [enum].
      apply andb_prop in CO. destruct CO as [G L]. rewrite rat_norm_canonical by assumption. reflexivity.
    + change (kind_of TC_Complex) with KComplex. cbn [enum as_num bind]. unfold cplx_build.
      rewrite !rat_parts_number. apply negb_true_iff in CO. rewrite CO. reflexivity.
    + change (kind_of TC_RealDouble) with KRealDouble. reflexivity.
    + change (kind_of TC_ComplexDouble) with KComplexDouble. reflexivity.
    + change (kind_of TC_Infty) with KInfty. reflexivity.
    + change (kind_of TC_NaN) with KNaN. reflexivity.
  - unfold build. change (kind_of TC_Symbol) with KSymbol. reflexivity.
  - unfold build. change (kind_of TC_Dummy) with KDummy. reflexivity.
  - unfold build. change (kind_of TC_Constant) with KConstant. reflexivity.
  - unfold build. change (kind_of TC_Add) with KAdd. cbn [enum as_num bind].
    rewrite rows2_map_n. cbn [bind]. rewrite rows_num_map. cbn [bind].
    rewrite um_build_distinct by exact CO. reflexivity.
  - unfold build. change (kind_of TC_Mul) with KMul. cbn [enum as_num bind].
    rewrite rows2_map. cbn [bind]. rewrite kl_build_sorted by exact CO. reflexivity.
  - unfold build. change (kind_of TC_Pow) with KPow. reflexivity.
  - unfold build. apply orb_prop in CO. destruct CO as [K|K]; apply ckind_beq_eq in K; rewrite K; reflexivity.
  - unfold build. apply ckind_beq_eq in CO. rewrite CO. reflexivity.
  - unfold build. destruct (kind_of c) eqn:K; try discriminate; rewrite rows1_map; cbn [bind].
    + apply andb_prop in CO. destruct CO as [CS CL]. rewrite set_build_sorted by exact CS.
      rewrite (ltb_of_leb _ _ CL). reflexivity.
    + rewrite (ltb_of_leb _ _ CO). reflexivity.
    + apply andb_prop in CO. destruct CO as [CS CL]. rewrite set_build_sorted by exact CS.
      rewrite (ltb_of_leb _ _ CL). reflexivity.
    + rewrite set_build_sorted by exact CO. reflexivity.
    + rewrite (ltb_of_leb _ _ CO). reflexivity.
  - unfold build. change (kind_of TC_FunctionSymbol) with KFunctionSymbol. rewrite rows1_map. reflexivity.
  - unfold build. apply orb_prop in CO. destruct CO as [K|K]; apply ckind_beq_eq in K; rewrite K; reflexivity.
  - unfold build. change (kind_of TC_Derivative) with KDerivative. rewrite rows1_map. cbn [bind].
    rewrite ms_build_sorted by exact CO. reflexivity.
  - unfold build. change (kind_of TC_Subs) with KSubs. rewrite rows2_map. cbn [bind].
    rewrite kl_build_sorted by exact CO. reflexivity.
  - unfold build. change (kind_of TC_Piecewise) with KPiecewise. rewrite rows2_map. cbn [bind].
    rewrite (ltb_of_leb _ _ CO). reflexivity.
  - unfold build. change (kind_of TC_BooleanAtom) with KBooleanAtom. rewrite b2n_small, b2n_back. reflexivity.
  - unfold build. change (kind_of TC_Interval) with KInterval. rewrite !b2n_small, !b2n_back. reflexivity.
  - unfold build. apply ckind_beq_eq in CO. rewrite CO. reflexivity.
Qed.

Lemma node_schema : forall e, node_ser e = true ->
  exists sch, schema_k (kind_of (type_code e)) = Some sch /\ fvals_typed sch (vals_of e) = true
              /\ type_code e < TC_Count.
Proof.
  intros e H. unfold node_ser in H. apply andb_prop in H. destruct H as [C H].
  destruct (schema_k (kind_of (type_code e))) as [sch|]; [|discriminate].
  apply andb_prop in H. destruct H as [TY _]. exists sch. repeat split; [exact TY|].
  apply N.ltb_lt. exact C.
Qed.
