(* C19 / C20 -- specification side: which nodes are serialisable, what a DAG labelling is, which
   decoded trees are well typed / canonical. *)
From SE Require Export Codec.CodecModel.
Local Open Scope N_scope.

(* ---------------------------------------------------------------- labelled trees *)
Fixpoint subtrees (w : wtree) : list wtree :=
  match w with
  | WT _ _ kids => w :: (fix go (l : list wtree) : list wtree :=
                           match l with [] => [] | k :: r => subtrees k ++ go r end) kids
  end.

(* a labelling is a DAG when an id determines the node: G maps every id that occurs to THE
   subtree carrying it *)
Definition dag (G : N -> option wtree) (root : wtree) : Prop :=
  forall s, In s (subtrees root) -> G (wt_addr s) = Some s.

(* ---------------------------------------------------------------- typing of field values *)
Definition byte_ok (b : N) : bool := b <? 256.

Definition sval_typed (f : sfield) (v : sval expr) : bool :=
  match f, v with
  | SBool, VN n => n <? 256
  | SU32, VN n => n <? 4294967296
  | SU64, VN n | SF64, VN n => n <? W64
  | SStr, VS s => forallb byte_ok s && (N.of_nat (length s) <? ALLOC_LIMIT)
  | SNode T, VE c => derives (type_code c) T
  | _, _ => false
  end.

Fixpoint row_typed (fs : list sfield) (vs : list (sval expr)) : bool :=
  match fs, vs with
  | [], [] => true
  | f :: fr, v :: vr => sval_typed f v && row_typed fr vr
  | _, _ => false
  end.

Definition fval_typed (f : field) (v : fval expr) : bool :=
  match f, v with
  | FOne s, FV x => sval_typed s x
  | FSeq esz elem, FL rows =>
      forallb (row_typed elem) rows && (N.of_nat (length rows) * esz <? ALLOC_LIMIT)
      && (N.of_nat (length rows) <? W64)
  | _, _ => false
  end.

Fixpoint fvals_typed (fs : list field) (vs : list (fval expr)) : bool :=
  match fs, vs with
  | [], [] => true
  | f :: fr, v :: vr => fval_typed f v && fvals_typed fr vr
  | _, _ => false
  end.

(* ---------------------------------------------------------------- container states *)
(* a std::map / std::set state: keys strictly increasing for RCPBasicKeyLess (checked for all
   pairs, so that no transitivity of the order is needed) *)
Fixpoint kl_sorted {V} (d : list (expr * V)) : bool :=
  match d with
  | [] => true
  | x :: r => forallb (fun y => expr_keyless (fst x) (fst y)) r && kl_sorted r
  end.
Fixpoint set_sorted (l : list expr) : bool :=
  match l with
  | [] => true
  | x :: r => forallb (fun y => expr_keyless x y) r && set_sorted r
  end.
(* a std::multiset state: no element is less than an earlier one *)
Fixpoint ms_sorted (l : list expr) : bool :=
  match l with
  | [] => true
  | x :: r => forallb (fun y => negb (expr_keyless y x)) r && ms_sorted r
  end.
(* an unordered_map state: no two keys are equal (same hash and eq) *)
Fixpoint um_distinct {V} (d : list (expr * V)) : bool :=
  match d with
  | [] => true
  | x :: r => forallb (fun y => negb ((hash (fst x) =? hash (fst y)) && expr_eqb (fst x) (fst y))) r
              && um_distinct r
  end.

Scheme Equality for ckind.

(* class-specific conditions under which load_basic rebuilds exactly this node *)
Definition class_ok (e : expr) : bool :=
  match e with
  | ENum (NRat n d) => (Z.gcd n (Zpos d) =? 1)%Z && (1 <? Zpos d)%Z
  | ENum (NCplx _ _ imn _) => negb (imn =? 0)%Z
  | ENum _ => true
  | ESym _ | EDummy _ _ | EConst _ | EPow _ _ | EFunSym _ _ | EBool _ | EInterval _ _ _ _ => true
  | EPw l => (1 <=? length l)%nat
  | EAdd _ d => um_distinct d
  | EMul _ d => kl_sorted d
  | ESubs _ d => kl_sorted d
  | EDeriv _ l => ms_sorted l
  | EF1 c _ => ckind_beq (kind_of c) KOneArg || ckind_beq (kind_of c) KNot
  | EF2 c _ _ => ckind_beq (kind_of c) KTwoArg
  | EFN c l =>
      match kind_of c with
      | KMultiArg => (1 <=? length l)%nat
      | KXor => (2 <=? length l)%nat
      | KAndOr | KUnion => set_sorted l && (2 <=? length l)%nat
      | KFiniteSet => set_sorted l
      | _ => false
      end
  | ELex c _ _ => ckind_beq (kind_of c) KContains || ckind_beq (kind_of c) KComplement
  | EAtom c => ckind_beq (kind_of c) KAtomSet
  end.

(* a node that dumps writes and loads reads back unchanged *)
Definition node_ser (e : expr) : bool :=
  (type_code e <? TC_Count) &&
  match schema_k (kind_of (type_code e)) with
  | Some sch => fvals_typed sch (vals_of e) && class_ok e
  | None => false
  end.

(* the per-node hypotheses of the round-trip theorem *)
Definition node_ok (s : wtree) : Prop :=
  wt_addr s < W64 /\ map wt_expr (wt_kids s) = child_exprs (wt_expr s) /\ node_ser (wt_expr s) = true.

(* fuel for decoding a labelled tree: nesting depth plus the longest sequence *)
Definition nrows (e : expr) : nat :=
  fold_right (fun v acc => match v with FL rows => length rows + acc | _ => acc end)%nat O (vals_of e).
Fixpoint wfuel (w : wtree) : nat :=
  match w with
  | WT _ e kids => S (nrows e + (fix go (l : list wtree) : nat :=
                                   match l with [] => O | k :: r => Nat.max (wfuel k) (go r) end) kids)
  end.

(* ---------------------------------------------------------------- trees (no sharing) *)
(* the recursion of [label_fresh] reaches every node within this fuel *)
Fixpoint deep_enough (f : nat) (e : expr) : bool :=
  match f with
  | O => match child_exprs e with [] => true | _ => false end
  | S f' => forallb (deep_enough f') (child_exprs e)
  end.

(* every wire node of e is serialisable, and there are fewer than 2^64 of them *)
Definition serialisable (e : expr) : bool :=
  forallb (fun s => node_ser (wt_expr s)) (subtrees (label e))
  && (snd (label_fresh (size e + 2) e 1) <? W64).

(* ---------------------------------------------------------------- what a decoded tree satisfies *)
(* the values of RCP<const T> fields belong to class T: shape of a value list against a schema *)
Definition sval_cls (f : sfield) (v : sval expr) : bool :=
  match f, v with
  | SNode T, VE c => derives (type_code c) T
  | SNode _, _ => false
  | _, VE _ => false
  | _, _ => true
  end.
Fixpoint row_cls (fs : list sfield) (vs : list (sval expr)) : bool :=
  match fs, vs with
  | [], [] => true
  | f :: fr, v :: vr => sval_cls f v && row_cls fr vr
  | _, _ => false
  end.
Definition fval_cls (f : field) (v : fval expr) : bool :=
  match f, v with
  | FOne s, FV x => sval_cls s x
  | FSeq _ elem, FL rows => forallb (row_cls elem) rows
  | _, _ => false
  end.
Fixpoint fvals_cls (fs : list field) (vs : list (fval expr)) : bool :=
  match fs, vs with
  | [], [] => true
  | f :: fr, v :: vr => fval_cls f v && fvals_cls fr vr
  | _, _ => false
  end.

(* the members whose static type is narrower than Basic hold objects of that type: the
   rcp_static_casts of the loaders were valid (Boolean: Not, And, Or, Xor, Piecewise conditions;
   Set: Contains, Union, Complement; Number: Interval ends; Add/Mul coefficients are numbers by
   the type of [expr]) *)
Definition is_class (T : tclass) (e : expr) : bool := derives (type_code e) T.
Definition class_typed (e : expr) : bool :=
  match e with
  | EF1 c a => match kind_of c with KNot => is_class TBoolean a | _ => true end
  | EFN c l =>
      match kind_of c with
      | KAndOr | KXor => forallb (is_class TBoolean) l
      | KUnion => forallb (is_class TSet) l
      | _ => true
      end
  | ELex c a b =>
      match kind_of c with
      | KContains => is_class TSet b
      | KComplement => is_class TSet a && is_class TSet b
      | _ => true
      end
  | EPw l => forallb (fun p => is_class TBoolean (snd p)) l
  | EInterval s x _ _ => is_class TNumber s && is_class TNumber x
  | _ => true
  end.

(* first clauses of the classes' own is_canonical: the sizes below which printing / evaluation
   read a missing first argument *)
Definition sized_ok (e : expr) : bool :=
  match e with
  | EFN c l =>
      match kind_of c with
      | KAndOr | KXor | KUnion => (2 <=? length l)%nat
      | KMultiArg => (1 <=? length l)%nat
      | _ => true
      end
  | EPw l => (1 <=? length l)%nat
  | _ => true
  end.

(* every node of a tree *)
Definition good (e : expr) : bool := class_typed e && sized_ok e.
Fixpoint all_good (e : expr) : bool :=
  good e &&
  match e with
  | ENum _ | ESym _ | EDummy _ _ | EConst _ | EBool _ | EAtom _ => true
  | EAdd _ d => forallb (fun p => all_good (fst p)) d
  | EMul _ d => forallb (fun p => all_good (fst p) && all_good (snd p)) d
  | ESubs a d => all_good a && forallb (fun p => all_good (fst p) && all_good (snd p)) d
  | EPow a b | EF2 _ a b | ELex _ a b | EInterval a b _ _ => all_good a && all_good b
  | EF1 _ a => all_good a
  | EFN _ l | EFunSym _ l => forallb all_good l
  | EDeriv a l => all_good a && forallb all_good l
  | EPw l => forallb (fun p => all_good (fst p) && all_good (snd p)) l
  end.

(* a fragment of canonical form: Add / Mul / Infty / container sizes (the conditions whose
   violation the witnesses exhibit) *)
Definition is_zero_num (n : number) : bool :=
  match n with NInt z => (z =? 0)%Z | _ => false end.
Definition canonical_node (e : expr) : bool :=
  sized_ok e &&
  match e with
  | EAdd c d =>
      negb (match d with [] => true | _ => false end)
      && forallb (fun p => negb (is_zero_num (snd p)) && match fst p with ENum _ => false | _ => true end) d
      && negb ((length d =? 1)%nat && is_zero_num c)
  | EMul c d =>
      negb (match d with [] => true | _ => false end) && negb (is_zero_num c)
      && forallb (fun p => match snd p with ENum (NInt 0) => false | _ => true end) d
  | ENum (NInf d) => (d =? 1)%Z || (d =? 0)%Z || (d =? -1)%Z
  | ENum (NRat n d) => (Z.gcd n (Zpos d) =? 1)%Z && (1 <? Zpos d)%Z
  | ENum (NCplx _ _ imn _) => negb (imn =? 0)%Z
  | _ => true
  end.
