(* C20 -- what every decoded tree satisfies: the members with a static type narrower than Basic
   hold objects of that type (class_typed), and no And/Or/Xor/Union/Piecewise/Max/Min/LeviCivita
   node is smaller than its class allows (sized_ok) -- at every node of the tree. *)
From SE Require Import Codec.CodecSpec Codec.CodecBytes Codec.CodecTotal.
From Coq Require Import Lia.
Local Open Scope N_scope.
Local Open Scope res_scope.

Ltac break H := repeat match type of H with
  | context [match ?x with _ => _ end] => destruct x eqn:?; try discriminate H
  | context [if ?x then _ else _] => destruct x eqn:?; try discriminate H
  end.

(* ---------------------------------------------------------------- finite sweeps over type codes *)
Lemma below_sweep : forall (P : N -> bool) (n : nat),
  forallb P (map N.of_nat (seq 0 n)) = true -> forall x, x < N.of_nat n -> P x = true.
Proof.
  intros P n H x L. rewrite forallb_forall in H. apply H.
  apply in_map_iff. exists (N.to_nat x). split; [apply N2Nat.id|]. apply in_seq. lia.
Qed.

(* the kinds with a single type code *)
Definition tc_facts (tc : N) : bool :=
  match kind_of tc with
  | KInteger => tc =? TC_Integer | KRational => tc =? TC_Rational | KComplex => tc =? TC_Complex
  | KComplexDouble => tc =? TC_ComplexDouble | KRealDouble => tc =? TC_RealDouble
  | KInfty => tc =? TC_Infty | KNaN => tc =? TC_NaN | KSymbol => tc =? TC_Symbol
  | KDummy => tc =? TC_Dummy | KConstant => tc =? TC_Constant | KMul => tc =? TC_Mul
  | KAdd => tc =? TC_Add | KPow => tc =? TC_Pow | KInterval => tc =? TC_Interval
  | KBooleanAtom => tc =? TC_BooleanAtom | KPiecewise => tc =? TC_Piecewise
  | KDerivative => tc =? TC_Derivative | KSubs => tc =? TC_Subs
  | KFunctionSymbol => tc =? TC_FunctionSymbol
  | _ => true
  end.

Lemma tc_facts_all : forall tc, tc < TC_Count -> tc_facts tc = true.
Proof. apply (below_sweep tc_facts 122). vm_compute. reflexivity. Qed.

Lemma num_derives : forall n, derives (num_type_code n) TNumber = true.
Proof. destruct n; reflexivity. Qed.

(* ---------------------------------------------------------------- containers only drop entries *)
Lemma kl_insert_in : forall {V} k (v : V) m p, In p (kl_insert k v m) -> p = (k, v) \/ In p m.
Proof.
  intros V k v. induction m as [|[k' v'] m IH]; intros p H; cbn [kl_insert] in H.
  - destruct H as [<-|[]]. left. reflexivity.
  - destruct (expr_keyless k' k).
    + destruct H as [<-|H]; [right; left; reflexivity|].
      destruct (IH p H) as [->|I]; [left; reflexivity | right; right; exact I].
    + destruct (expr_keyless k k'); [|right; exact H].
      destruct H as [<-|H]; [left; reflexivity | right; exact H].
Qed.

Lemma kl_fold_in : forall {V} (rows acc : list (expr * V)) p,
  In p (fold_left (fun m q => kl_insert (fst q) (snd q) m) rows acc) -> In p acc \/ In p rows.
Proof.
  intros V. induction rows as [|[k v] rows IH]; intros acc p H; cbn [fold_left] in H; [left; exact H|].
  destruct (IH _ p H) as [I|I]; [|right; right; exact I].
  cbn [fst snd] in I. destruct (kl_insert_in k v acc p I) as [->|J]; [right; left; reflexivity | left; exact J].
Qed.

Lemma kl_build_in : forall {V} (rows : list (expr * V)) p, In p (kl_build rows) -> In p rows.
Proof. intros V rows p H. destruct (kl_fold_in rows [] p H) as [[]|I]. exact I. Qed.

Lemma set_build_in : forall l x, In x (set_build l) -> In x l.
Proof.
  intros l x H. unfold set_build in H. apply in_map_iff in H. destruct H as [[y u] [<- H]].
  apply kl_build_in in H. apply in_map_iff in H. destruct H as [z [E I]]. injection E as <-. exact I.
Qed.

Lemma um_fold_in : forall {V} (rows acc : list (expr * V)) p,
  In p (fold_left (fun m q => if um_mem (fst q) m then m else m ++ [q]) rows acc) -> In p acc \/ In p rows.
Proof.
  intros V. induction rows as [|q rows IH]; intros acc p H; cbn [fold_left] in H; [left; exact H|].
  destruct (IH _ p H) as [I|I]; [|right; right; exact I].
  destruct (um_mem (fst q) acc); [left; exact I|].
  apply in_app_or in I. destruct I as [I|[<-|[]]]; [left; exact I | right; left; reflexivity].
Qed.

Lemma um_build_in : forall {V} (rows : list (expr * V)) p, In p (um_build rows) -> In p rows.
Proof. intros V rows p H. destruct (um_fold_in rows [] p H) as [[]|I]. exact I. Qed.

Lemma ms_insert_in : forall k m x, In x (ms_insert k m) -> x = k \/ In x m.
Proof.
  intros k. induction m as [|k' m IH]; intros x H; cbn [ms_insert] in H.
  - destruct H as [<-|[]]. left. reflexivity.
  - destruct (expr_keyless k k').
    + destruct H as [<-|H]; [left; reflexivity | right; exact H].
    + destruct H as [<-|H]; [right; left; reflexivity|].
      destruct (IH x H) as [->|I]; [left; reflexivity | right; right; exact I].
Qed.

Lemma ms_fold_in : forall rows acc x,
  In x (fold_left (fun m k => ms_insert k m) rows acc) -> In x acc \/ In x rows.
Proof.
  induction rows as [|k rows IH]; intros acc x H; cbn [fold_left] in H; [left; exact H|].
  destruct (IH _ x H) as [I|I]; [|right; right; exact I].
  destruct (ms_insert_in k acc x I) as [->|J]; [right; left; reflexivity | left; exact J].
Qed.

Lemma ms_build_in : forall l x, In x (ms_build l) -> In x l.
Proof. intros l x H. destruct (ms_fold_in l [] x H) as [[]|I]. exact I. Qed.

Lemma forallb_sub : forall {A} (f : A -> bool) l l',
  (forall x, In x l' -> In x l) -> forallb f l = true -> forallb f l' = true.
Proof. intros A f l l' S H. rewrite forallb_forall in *. intros x I. apply H, S, I. Qed.

(* ---------------------------------------------------------------- rows *)
Lemma rows1_in : forall rows l, rows1 rows = Ok l -> forall a, In a l -> In a (flat_map row_kids rows).
Proof.
  induction rows as [|r rows IH]; intros l H a I; cbn [rows1] in H.
  - injection H as <-. destruct I.
  - unfold bind in H. break H. subst. injection H as <-.
    cbn [flat_map row_kids sval_kids app]. destruct I as [<-|I]; [left; reflexivity | right; eapply IH; eauto].
Qed.

Lemma rows1_cls : forall T rows l, rows1 rows = Ok l ->
  forallb (row_cls [SNode T]) rows = true -> forallb (is_class T) l = true.
Proof.
  intros T. induction rows as [|r rows IH]; intros l H C; cbn [rows1] in H.
  - injection H as <-. reflexivity.
  - unfold bind in H. break H. subst. injection H as <-.
    cbn [forallb row_cls sval_cls] in C. apply andb_prop in C. destruct C as [C1 C2].
    rewrite andb_true_r in C1. cbn [forallb]. unfold is_class at 1. rewrite C1. cbn [andb]. eapply IH; eauto.
Qed.

Lemma rows2_in : forall rows l, rows2 rows = Ok l -> forall p, In p l ->
  In (fst p) (flat_map row_kids rows) /\ In (snd p) (flat_map row_kids rows).
Proof.
  induction rows as [|r rows IH]; intros l H p I; cbn [rows2] in H.
  - injection H as <-. destruct I.
  - unfold bind in H. break H. subst. injection H as <-.
    cbn [flat_map row_kids sval_kids app]. destruct I as [<-|I]; cbn [fst snd].
    + split; [left; reflexivity | right; left; reflexivity].
    + destruct (IH _ eq_refl p I). split; right; right; assumption.
Qed.

Lemma rows2_cls : forall T1 T2 rows l, rows2 rows = Ok l ->
  forallb (row_cls [SNode T1; SNode T2]) rows = true ->
  forallb (fun p => is_class T2 (snd p)) l = true.
Proof.
  intros T1 T2. induction rows as [|r rows IH]; intros l H C; cbn [rows2] in H.
  - injection H as <-. reflexivity.
  - unfold bind in H. break H. subst. injection H as <-.
    cbn [forallb row_cls sval_cls] in C. apply andb_prop in C. destruct C as [C1 C2].
    apply andb_prop in C1. destruct C1 as [_ C1]. rewrite andb_true_r in C1.
    cbn [forallb snd]. unfold is_class at 1. rewrite C1. cbn [andb]. eapply IH; eauto.
Qed.

Lemma rows_num_in : forall l ln, rows_num l = Ok ln -> forall p, In p ln -> exists q, In q l /\ fst q = fst p.
Proof.
  induction l as [|[a b] l IH]; intros ln H p I; cbn [rows_num] in H.
  - injection H as <-. destruct I.
  - unfold bind in H. break H. subst. injection H as <-.
    destruct I as [<-|I]; [exists (a, b); split; [left; reflexivity | reflexivity]|].
    destruct (IH _ eq_refl p I) as [q [Q1 Q2]]. exists q. split; [right; exact Q1 | exact Q2].
Qed.

Lemma leb_of_ltb : forall a b, (b <? S a)%nat = false -> (S a <=? b)%nat = true.
Proof. intros a b H. apply Nat.ltb_ge in H. apply Nat.leb_le. exact H. Qed.

Lemma good_num : forall n, all_good (ENum n) = true.
Proof. reflexivity. Qed.

(* ---------------------------------------------------------------- one node *)
Lemma build_good : forall tc vals e sch,
  tc < TC_Count -> schema_k (kind_of tc) = Some sch -> fvals_cls sch vals = true ->
  (forall c, In c (vals_kids vals) -> all_good c = true) ->
  build tc vals = Ok e ->
  all_good e = true /\ forall T, derives tc T = true -> derives (type_code e) T = true.
Proof.
  intros tc vals e sch TC SK CL KG H.
  pose proof (tc_facts_all tc TC) as TF. unfold tc_facts in TF.
  unfold build in H. unfold bind in H.
  break H; subst; injection H as <-;
    cbn [schema_k] in SK; injection SK as <-;
    cbn [fvals_cls fval_cls sval_cls nd] in CL;
    unfold vals_kids in KG; cbn [flat_map fval_kids sval_kids app] in KG;
    try (apply N.eqb_eq in TF; subst tc).
  (* numbers, atoms *)
  all: try (split; [reflexivity | intros T D; destruct T; try reflexivity; try discriminate D; apply num_derives]).
  all: cbn [all_good]; unfold good; cbn [class_typed sized_ok type_code];
    repeat match goal with K : kind_of ?c = _ |- _ => rewrite K end.
  all: repeat match goal with
       | H : (_ && _) = true |- _ => apply andb_prop in H; destruct H
       | H : (_ <? S _)%nat = false |- _ => apply leb_of_ltb in H
       end.
  all: try rewrite app_nil_r in KG.
  all: split; [|try (intros T D; exact D)].
  all: repeat (apply andb_true_intro; split); try reflexivity; try assumption;
       try (apply KG; cbn; tauto).
  all: try (unfold is_class; assumption).
  (* the members of the containers *)
  all: try (eapply forallb_sub; [apply set_build_in|]).
  all: try (eapply rows1_cls; eassumption).
  all: try (eapply rows2_cls; eassumption).
  all: apply forallb_forall; intros x I;
    try apply kl_build_in in I; try apply ms_build_in in I; try apply set_build_in in I;
    try apply um_build_in in I.
  all: try (match goal with R : rows1 _ = Ok _ |- _ => pose proof (rows1_in _ _ R _ I) end;
            apply KG; cbn [In]; tauto).
  all: try (match goal with R : rows2 _ = Ok _ |- _ => destruct (rows2_in _ _ R _ I) end;
            apply andb_true_intro; split; apply KG; cbn [In]; tauto).
  (* Add: the keys *)
  match goal with R : rows_num _ = Ok _ |- _ => destruct (rows_num_in _ _ R _ I) as [q [Q1 Q2]] end.
  match goal with R : rows2 _ = Ok _ |- _ => destruct (rows2_in _ _ R _ Q1) as [Q3 _] end.
  rewrite <- Q2. apply KG. cbn [In]. tauto.
Qed.

(* ---------------------------------------------------------------- the decoder *)
Definition tbl_good (t : list (N * wtree)) : Prop :=
  forall a w, lookup a t = Some w -> all_good (wt_expr w) = true.

Lemma sval_kids_map : forall (v : sval wtree), sval_kids (sval_map wt_expr v) = map wt_expr (sval_kids v).
Proof. destruct v; reflexivity. Qed.
Lemma row_kids_map : forall (r : list (sval wtree)), row_kids (map (sval_map wt_expr) r) = map wt_expr (row_kids r).
Proof.
  unfold row_kids. induction r as [|v r IH]; [reflexivity|]. cbn [map flat_map].
  rewrite map_app, sval_kids_map, IH. reflexivity.
Qed.
Lemma rows_kids_map : forall (rows : list (list (sval wtree))),
  flat_map row_kids (map (map (sval_map wt_expr)) rows) = map wt_expr (flat_map row_kids rows).
Proof.
  induction rows as [|r rows IH]; [reflexivity|]. cbn [map flat_map]. rewrite map_app, row_kids_map, IH. reflexivity.
Qed.
Lemma vals_kids_map : forall (vs : list (fval wtree)),
  vals_kids (map (fval_map wt_expr) vs) = map wt_expr (vals_kids vs).
Proof.
  unfold vals_kids. induction vs as [|v vs IH]; [reflexivity|]. cbn [map flat_map]. rewrite map_app, IH. f_equal.
  destruct v as [x|rows]; cbn [fval_map fval_kids]; [apply sval_kids_map | apply rows_kids_map].
Qed.

Section FieldsGood.
  Variable rec : tclass -> dstate -> res (wtree * dstate).
  Variable sw : bool.
  Hypothesis rec_good : forall T st w st', tbl_good (snd st) -> rec T st = Ok (w, st') ->
    all_good (wt_expr w) = true /\ derives (type_code (wt_expr w)) T = true /\ tbl_good (snd st').

  Lemma sfield_good : forall f st v st', tbl_good (snd st) -> dec_sfield rec sw f st = Ok (v, st') ->
    sval_cls f (sval_map wt_expr v) = true /\
    (forall w, In w (sval_kids v) -> all_good (wt_expr w) = true) /\ tbl_good (snd st').
  Proof.
    intros f st v st' TG H. destruct f; cbn [dec_sfield] in H; unfold bind in H; break H; subst;
      injection H as <- <-; cbn [snd sval_map sval_cls sval_kids]; try (repeat split; [intros w []| exact TG]).
    match goal with R : _ = Ok (_, _) |- _ => destruct (rec_good _ _ _ _ TG R) as [G [D TG']] end.
    cbn [snd] in TG'. repeat split; [exact D | | exact TG']. intros w' [<-|[]]. exact G.
  Qed.

  Lemma svals_good : forall fs st vs st', tbl_good (snd st) -> dec_svals rec sw fs st = Ok (vs, st') ->
    row_cls fs (map (sval_map wt_expr) vs) = true /\
    (forall w, In w (row_kids vs) -> all_good (wt_expr w) = true) /\ tbl_good (snd st').
  Proof.
    induction fs as [|f fs IH]; intros st vs st' TG H; cbn [dec_svals] in H.
    - injection H as <- <-. repeat split; [intros w [] | exact TG].
    - unfold bind in H. break H. subst. injection H as <- <-.
      match goal with R : dec_sfield _ _ _ _ = Ok _ |- _ => destruct (sfield_good _ _ _ _ TG R) as [C1 [G1 T1]] end.
      match goal with R : dec_svals _ _ _ _ = Ok _ |- _ => destruct (IH _ _ _ T1 R) as [C2 [G2 T2]] end.
      cbn [map row_cls]. rewrite C1, C2. repeat split; [|exact T2].
      intros w I. unfold row_kids in I. cbn [flat_map] in I. apply in_app_or in I. destruct I; [apply G1 | apply G2]; assumption.
  Qed.

  Lemma rows_good : forall elem k cnt st rows st', tbl_good (snd st) ->
    dec_rows rec sw k cnt elem st = Ok (rows, st') ->
    forallb (row_cls elem) (map (map (sval_map wt_expr)) rows) = true /\
    (forall w, In w (flat_map row_kids rows) -> all_good (wt_expr w) = true) /\ tbl_good (snd st').
  Proof.
    intros elem. induction k as [|k IH]; intros cnt st rows st' TG H; cbn [dec_rows] in H.
    - destruct (cnt =? 0); [|discriminate]. injection H as <- <-. repeat split; [intros w [] | exact TG].
    - destruct (cnt =? 0); [injection H as <- <-; repeat split; [intros w [] | exact TG]|].
      unfold bind in H. break H. subst. injection H as <- <-.
      match goal with R : dec_svals _ _ _ _ = Ok _ |- _ => destruct (svals_good _ _ _ _ TG R) as [C1 [G1 T1]] end.
      match goal with R : dec_rows _ _ _ _ _ _ = Ok _ |- _ => destruct (IH _ _ _ _ T1 R) as [C2 [G2 T2]] end.
      cbn [map forallb]. rewrite C1, C2. repeat split; [|exact T2].
      intros w I. cbn [flat_map] in I. apply in_app_or in I. destruct I; [apply G1 | apply G2]; assumption.
  Qed.

  Lemma field_good : forall k f st v st', tbl_good (snd st) -> dec_field rec sw k f st = Ok (v, st') ->
    fval_cls f (fval_map wt_expr v) = true /\
    (forall w, In w (fval_kids v) -> all_good (wt_expr w) = true) /\ tbl_good (snd st').
  Proof.
    intros k f st v st' TG H. destruct f as [s|esz elem]; cbn [dec_field] in H; unfold bind in H; break H; subst;
      injection H as <- <-.
    - match goal with R : dec_sfield _ _ _ _ = Ok _ |- _ => destruct (sfield_good _ _ _ _ TG R) as [C1 [G1 T1]] end.
      cbn [fval_map fval_cls fval_kids]. repeat split; assumption.
    - match goal with R : dec_rows _ _ ?k0 ?n0 ?el ?s0 = Ok (?r0, ?d0) |- _ => destruct (rows_good el k0 n0 s0 r0 d0 TG R) as [C1 [G1 T1]] end.
      cbn [fval_map fval_cls fval_kids]. repeat split; assumption.
  Qed.

  Lemma fields_good : forall k fs st vs st', tbl_good (snd st) -> dec_fields rec sw k fs st = Ok (vs, st') ->
    fvals_cls fs (map (fval_map wt_expr) vs) = true /\
    (forall w, In w (vals_kids vs) -> all_good (wt_expr w) = true) /\ tbl_good (snd st').
  Proof.
    intros k. induction fs as [|f fs IH]; intros st vs st' TG H; cbn [dec_fields] in H.
    - injection H as <- <-. repeat split; [intros w [] | exact TG].
    - unfold bind in H. break H. subst. injection H as <- <-.
      match goal with R : dec_field _ _ _ _ _ = Ok _ |- _ => destruct (field_good _ _ _ _ _ TG R) as [C1 [G1 T1]] end.
      match goal with R : dec_fields _ _ _ _ _ = Ok _ |- _ => destruct (IH _ _ _ T1 R) as [C2 [G2 T2]] end.
      cbn [map fvals_cls]. rewrite C1, C2. repeat split; [|exact T2].
      intros w I. unfold vals_kids in I. cbn [flat_map] in I. apply in_app_or in I. destruct I; [apply G1 | apply G2]; assumption.
  Qed.
End FieldsGood.

Theorem dec_node_good : forall sw f T st w st',
  tbl_good (snd st) -> dec_node f sw T st = Ok (w, st') ->
  all_good (wt_expr w) = true /\ derives (type_code (wt_expr w)) T = true /\ tbl_good (snd st').
Proof.
  intros sw. induction f as [|f IH]; intros T st w st' TG H; [discriminate|].
  cbn [dec_node] in H. unfold bind in H. break H; subst.
  - (* a reference *)
    injection H as <- <-. cbn [snd]. repeat split; [eapply TG; eassumption | assumption | exact TG].
  - (* a new node *)
    injection H as <- <-.
    match goal with R : dec_fields _ _ ?k0 ?fs0 ?s0 = Ok (?v0, ?d0) |- _ =>
      destruct (fields_good (dec_node f sw) sw IH k0 fs0 s0 v0 d0 TG R) as [C [G TG']] end.
    match goal with B : build ?tc0 (map (fval_map wt_expr) ?v0) = Ok ?e0, SK : schema_k _ = Some ?sch0,
                    L : (TC_Count <=? _) = false |- _ =>
      assert (KG : forall c, In c (vals_kids (map (fval_map wt_expr) v0)) -> all_good c = true)
        by (rewrite vals_kids_map; intros c I; apply in_map_iff in I; destruct I as [w' [<- I]]; apply G; exact I);
      destruct (build_good tc0 _ e0 sch0 (proj1 (N.leb_gt _ _) L) SK C KG B) as [AG DV] end.
    cbn [wt_expr snd]. repeat split; [exact AG | apply DV; assumption|].
    intros a' w' L'. cbn [lookup] in L'. destruct (_ =? a'); [injection L' as <-; exact AG | eapply TG'; exact L'].
Qed.

(* every node of every tree that loads returns is well typed and of an admissible size *)
Theorem decode_good : forall ver bs e, decode ver bs = Ok e -> all_good e = true.
Proof.
  intros ver bs e H. unfold decode in H. destruct (decode_lab ver bs) as [w0| | |] eqn:E; try discriminate H.
  cbn [bind] in H. injection H as <-. unfold decode_lab, bind in E. break E; subst. injection E as <-.
  match goal with R : dec_node ?f0 ?sw0 ?T0 ?s0 = Ok (?w0, ?d0) |- _ =>
    assert (TG : tbl_good (snd s0)) by (intros a w' L; discriminate L);
    destruct (dec_node_good sw0 f0 T0 s0 w0 d0 TG R) as [G _] end.
  exact G.
Qed.
