(* Helpers for the OCaml reader/printer glue of the codec slices (ocaml/codec_main.ml). *)
From SE Require Export Expr.IO Codec.CodecModel.
Local Open Scope N_scope.

Fixpoint hexd (w : nat) (n : N) (acc : list N) : list N :=
  match w with O => acc | S w' => hexd w' (n / 16) (n mod 16 :: acc) end.
(* [w] hexadecimal digits of n, most significant first *)
Definition hex_of_N (w : nat) (n : N) : list N := hexd w n [].

Fixpoint name_find (c : N) (t : list (list N * N)) : option (list N) :=
  match t with
  | [] => None
  | (n, c') :: r => if c' =? c then Some n else name_find c r
  end.
Definition name_of_code (c : N) : option (list N) := name_find c tc_table.
