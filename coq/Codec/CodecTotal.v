(* C20 -- the decoder is total: on every byte list it ends with a value or an exception (never
   out of fuel with fuel > length of the input, never an out-of-range access), every node consumes
   input, and the result does not depend on the fuel. *)
From SE Require Import Codec.CodecModel Codec.CodecBytes.
From Coq Require Import Lia.
Local Open Scope res_scope.

Definition fine {A} (r : res A) : Prop :=
  match r with ErrFuel | ErrOOB _ _ => False | _ => True end.

Lemma fine_bind : forall {A B} (r : res A) (k : A -> res B),
  fine r -> (forall a, r = Ok a -> fine (k a)) -> fine (bind r k).
Proof. intros A B r k H K. destruct r; cbn in *; auto. Qed.

Lemma bind_ok : forall {A B} (r : res A) (k : A -> res B) b,
  bind r k = Ok b -> exists a, r = Ok a /\ k a = Ok b.
Proof. intros A B r k b H. destruct r; cbn in H; try discriminate. eauto. Qed.

Lemma rd_uint_fine : forall sw w bs, fine (rd_uint sw w bs).
Proof. intros. destruct (rd_uint_res sw w bs) as [[n [t E]]|E]; rewrite E; exact I. Qed.

(* a field list in which every sequence has a non-empty element schema *)
Definition field_wf (f : field) : Prop :=
  match f with FOne _ => True | FSeq _ elem => elem <> [] end.

Lemma schema_wf : forall k sch, schema_k k = Some sch -> Forall field_wf sch.
Proof.
  intros k sch H. destruct k; cbn in H; try discriminate; injection H as <-;
    repeat constructor; cbn; discriminate.
Qed.

Section Total.
  Variable rec : tclass -> dstate -> res (wtree * dstate).
  Variable sw : bool.
  Variable n : nat.
  (* what the recursive call guarantees on inputs shorter than n *)
  Hypothesis rec_ok : forall T bs tbl, (length bs < n)%nat ->
    fine (rec T (bs, tbl)) /\
    forall w bs' tbl', rec T (bs, tbl) = Ok (w, (bs', tbl')) -> (length bs' < length bs)%nat.

  Lemma sfield_total : forall f bs tbl, (length bs < n)%nat ->
    fine (dec_sfield rec sw f (bs, tbl)) /\
    forall v bs' tbl', dec_sfield rec sw f (bs, tbl) = Ok (v, (bs', tbl')) -> (length bs' < length bs)%nat.
  Proof.
    intros f bs tbl L.
    assert (U : forall w (k : N -> sval wtree), (0 < w)%nat ->
      fine (do '(x, b) <- rd_uint sw w bs; Ok (k x, (b, tbl))) /\
      forall v bs' tbl', (do '(x, b) <- rd_uint sw w bs; Ok (k x, (b, tbl))) = Ok (v, (bs', tbl')) ->
                         (length bs' < length bs)%nat).
    { intros w k W. destruct (rd_uint_res sw w bs) as [[x [t E]]|E]; rewrite E; cbn.
      - split; [exact I|]. intros v bs' tbl' H. injection H as _ <- _. apply rd_uint_ok in E. lia.
      - split; [exact I | discriminate]. }
    destruct f; cbn [dec_sfield fst snd].
    - apply U; lia.
    - apply U; lia.
    - apply U; lia.
    - apply U; lia.
    - destruct (rd_uint_res sw 8 bs) as [[x [t E]]|E]; rewrite E; cbn [bind].
      + apply rd_uint_ok in E.
        destruct (ALLOC_LIMIT <=? x)%N; [split; [exact I | discriminate]|].
        destruct (take_n x t) as [[s t']|] eqn:TK; [|split; [exact I | discriminate]].
        split; [exact I|]. intros v bs' tbl' H. injection H as _ <- _.
        apply take_n_some in TK. destruct TK as [-> _]. rewrite app_length in E. lia.
      + split; [exact I | discriminate].
    - destruct (rec_ok T bs tbl L) as [F P].
      destruct (rec T (bs, tbl)) as [[w [b t]]| | |] eqn:E; cbn in *; try (split; [tauto | discriminate]).
      split; [exact I|]. intros v bs' tbl' H. injection H as _ <- _. eapply P. reflexivity.
  Qed.

  Lemma svals_total : forall fs bs tbl, (length bs < n)%nat ->
    fine (dec_svals rec sw fs (bs, tbl)) /\
    forall vs bs' tbl', dec_svals rec sw fs (bs, tbl) = Ok (vs, (bs', tbl')) ->
      (length bs' <= length bs)%nat /\ (fs <> [] -> (length bs' < length bs)%nat).
  Proof.
    induction fs as [|f r IH]; intros bs tbl L.
    - cbn. split; [exact I|]. intros vs bs' tbl' H. injection H as _ <- _. split; [lia | congruence].
    - cbn [dec_svals]. destruct (sfield_total f bs tbl L) as [F P].
      destruct (dec_sfield rec sw f (bs, tbl)) as [[v [b1 t1]]| | |] eqn:E; cbn [bind] in *;
        try (split; [tauto | discriminate]).
      specialize (P v b1 t1 eq_refl).
      assert (L1 : (length b1 < n)%nat) by lia.
      destruct (IH b1 t1 L1) as [F2 P2].
      destruct (dec_svals rec sw r (b1, t1)) as [[vs [b2 t2]]| | |] eqn:E2; cbn [bind] in *;
        try (split; [tauto | discriminate]).
      split; [exact I|]. intros vs' bs' tbl' H. injection H as _ <- _.
      destruct (P2 vs b2 t2 eq_refl). split; intros; lia.
  Qed.

  Lemma rows_total : forall elem, elem <> [] -> forall k cnt bs tbl,
    (length bs < n)%nat -> (length bs < k)%nat ->
    fine (dec_rows rec sw k cnt elem (bs, tbl)) /\
    forall rows bs' tbl', dec_rows rec sw k cnt elem (bs, tbl) = Ok (rows, (bs', tbl')) ->
      (length bs' <= length bs)%nat.
  Proof.
    intros elem NE. induction k as [|k IH]; intros cnt bs tbl L K; [lia|].
    cbn [dec_rows]. destruct (cnt =? 0)%N.
    - split; [exact I|]. intros rows bs' tbl' H. injection H as _ <- _. lia.
    - destruct (svals_total elem bs tbl L) as [F P].
      destruct (dec_svals rec sw elem (bs, tbl)) as [[row [b1 t1]]| | |] eqn:E; cbn [bind] in *;
        try (split; [tauto | discriminate]).
      destruct (P row b1 t1 eq_refl) as [_ P1]. specialize (P1 NE).
      assert (L1 : (length b1 < n)%nat) by lia.
      assert (K1 : (length b1 < k)%nat) by lia.
      destruct (IH (cnt - 1)%N b1 t1 L1 K1) as [F2 P2].
      destruct (dec_rows rec sw k (cnt - 1) elem (b1, t1)) as [[rows [b2 t2]]| | |] eqn:E2; cbn [bind] in *;
        try (split; [tauto | discriminate]).
      split; [exact I|]. intros rows' bs' tbl' H. injection H as _ <- _.
      specialize (P2 rows b2 t2 eq_refl). lia.
  Qed.

  Lemma field_total : forall k f bs tbl, field_wf f ->
    (length bs < n)%nat -> (length bs < k)%nat ->
    fine (dec_field rec sw k f (bs, tbl)) /\
    forall v bs' tbl', dec_field rec sw k f (bs, tbl) = Ok (v, (bs', tbl')) -> (length bs' < length bs)%nat.
  Proof.
    intros k f bs tbl W L K. destruct f as [s|esz elem]; cbn [dec_field fst snd].
    - destruct (sfield_total s bs tbl L) as [F P].
      destruct (dec_sfield rec sw s (bs, tbl)) as [[v [b1 t1]]| | |] eqn:E; cbn [bind] in *;
        try (split; [tauto | discriminate]).
      split; [exact I|]. intros v' bs' tbl' H. injection H as _ <- _. eapply P. reflexivity.
    - destruct (rd_uint_res sw 8 bs) as [[x [t E]]|E]; rewrite E; cbn [bind];
        [|split; [exact I | discriminate]].
      apply rd_uint_ok in E.
      destruct (ALLOC_LIMIT <=? x * esz)%N; [split; [exact I | discriminate]|].
      assert (L1 : (length t < n)%nat) by lia.
      assert (K1 : (length t < k)%nat) by lia.
      destruct (rows_total elem W k x t tbl L1 K1) as [F P].
      destruct (dec_rows rec sw k x elem (t, tbl)) as [[rows [b2 t2]]| | |] eqn:E2; cbn [bind] in *;
        try (split; [tauto | discriminate]).
      split; [exact I|]. intros v bs' tbl' H. injection H as _ <- _.
      specialize (P rows b2 t2 eq_refl). lia.
  Qed.

  Lemma fields_total : forall k fs, Forall field_wf fs -> forall bs tbl,
    (length bs < n)%nat -> (length bs < k)%nat ->
    fine (dec_fields rec sw k fs (bs, tbl)) /\
    forall vs bs' tbl', dec_fields rec sw k fs (bs, tbl) = Ok (vs, (bs', tbl')) -> (length bs' <= length bs)%nat.
  Proof.
    intros k fs W. induction W as [|f r Wf Wr IH]; intros bs tbl L K.
    - cbn. split; [exact I|]. intros vs bs' tbl' H. injection H as _ <- _. lia.
    - cbn [dec_fields]. destruct (field_total k f bs tbl Wf L K) as [F P].
      destruct (dec_field rec sw k f (bs, tbl)) as [[v [b1 t1]]| | |] eqn:E; cbn [bind] in *;
        try (split; [tauto | discriminate]).
      specialize (P v b1 t1 eq_refl).
      assert (L1 : (length b1 < n)%nat) by lia.
      assert (K1 : (length b1 < k)%nat) by lia.
      destruct (IH b1 t1 L1 K1) as [F2 P2].
      destruct (dec_fields rec sw k r (b1, t1)) as [[vs [b2 t2]]| | |] eqn:E2; cbn [bind] in *;
        try (split; [tauto | discriminate]).
      split; [exact I|]. intros vs' bs' tbl' H. injection H as _ <- _.
      specialize (P2 vs b2 t2 eq_refl). lia.
  Qed.
End Total.

(* no constructor of the model's [build] produces ErrFuel / ErrOOB *)
Lemma as_num_fine : forall e, fine (as_num e).
Proof. destruct e; exact I. Qed.
Lemma rows1_fine : forall rows, fine (rows1 rows).
Proof.
  induction rows as [|r rr IH]; [exact I|]. cbn [rows1].
  destruct r as [|[n|s|a] [|? ?]]; try exact I.
  apply fine_bind; [exact IH | intros; exact I].
Qed.
Lemma rows2_fine : forall rows, fine (rows2 rows).
Proof.
  induction rows as [|r rr IH]; [exact I|]. cbn [rows2].
  destruct r as [|[n|s|a] [|[n'|s'|b] [|? ?]]]; try exact I.
  apply fine_bind; [exact IH | intros; exact I].
Qed.
Lemma rows_num_fine : forall rows, fine (rows_num rows).
Proof.
  induction rows as [|[a b] rr IH]; [exact I|]. cbn [rows_num].
  apply fine_bind; [apply as_num_fine|]. intros. apply fine_bind; [exact IH | intros; exact I].
Qed.
Lemma parse_int_fine : forall s, fine (parse_int s).
Proof.
  intros s. unfold parse_int. destruct s as [|c r]; [exact I|].
  destruct (negb ((c =? 45)%N || is_digit c)); [exact I|].
  destruct (negb (forallb is_digit r)); [exact I|].
  destruct (c =? 45)%N; exact I.
Qed.
Lemma cplx_build_fine : forall a b, fine (cplx_build a b).
Proof.
  intros. unfold cplx_build. destruct (rat_parts a) as [[? ?]|]; [|exact I].
  destruct (rat_parts b) as [[? ?]|]; [|exact I]. destruct (_ =? _)%Z; exact I.
Qed.
Lemma cd_build_fine : forall a b, fine (cd_build a b).
Proof.
  intros. unfold cd_build. destruct a; try exact I. destruct b; exact I.
Qed.

Ltac fine_step :=
  first [ exact I
        | apply fine_bind; [first [apply as_num_fine | apply rows1_fine | apply rows2_fine | apply rows_num_fine
                                   | apply parse_int_fine | apply cplx_build_fine | apply cd_build_fine] | intros ? _] ].

Lemma build_is_fine : forall tc vals, fine (build tc vals).
Proof.
  intros tc vals. unfold build.
  destruct (kind_of tc);
    repeat match goal with
           | |- fine (if ?c then _ else _) => destruct c
           | |- fine (match ?l with _ => _ end) => destruct l
           | |- fine (bind _ _) => fine_step
           | |- fine (Ok _) => exact I
           | |- fine (ErrExn _) => exact I
           end.
Qed.

(* RCPBasicAwareInputArchive::load_rcp_basic terminates within fuel = input length + 1, never
   reads out of range, and consumes input *)
Theorem dec_node_total : forall sw f T bs tbl, (length bs < f)%nat ->
  fine (dec_node f sw T (bs, tbl)) /\
  forall w bs' tbl', dec_node f sw T (bs, tbl) = Ok (w, (bs', tbl')) -> (length bs' < length bs)%nat.
Proof.
  intros sw. induction f as [|f IH]; intros T bs tbl L; [lia|].
  cbn [dec_node fst snd].
  destruct (rd_uint_res sw 8 bs) as [[addr [b1 E1]]|E1]; rewrite E1; cbn [bind];
    [|split; [exact I | discriminate]].
  apply rd_uint_ok in E1.
  destruct (rd_uint_res sw 1 b1) as [[fs [b2 E2]]|E2]; rewrite E2; cbn [bind];
    [|split; [exact I | discriminate]].
  apply rd_uint_ok in E2.
  destruct (2 <=? fs)%N; [split; [exact I | discriminate]|].
  destruct (fs =? 0)%N.
  - destruct (lookup addr tbl) as [w|]; [|split; [exact I | discriminate]].
    destruct (derives _ T); [|split; [exact I | discriminate]].
    split; [exact I|]. intros w' bs' tbl' H. injection H as _ <- _. lia.
  - destruct (rd_uint_res sw 1 b2) as [[tc [b3 E3]]|E3]; rewrite E3; cbn [bind];
      [|split; [exact I | discriminate]].
    apply rd_uint_ok in E3.
    destruct (TC_Count <=? tc)%N; [split; [exact I | discriminate]|].
    destruct (schema_k (kind_of tc)) as [sch|] eqn:SK; [|split; [exact I | discriminate]].
    assert (L3 : (length b3 < f)%nat) by lia.
    destruct (fields_total (dec_node f sw) sw f IH f sch (schema_wf _ _ SK) b3 tbl L3 L3) as [F P].
    destruct (dec_fields (dec_node f sw) sw f sch (b3, tbl)) as [[vals [b4 t4]]| | |] eqn:E4; cbn [bind] in *;
      try (split; [tauto | discriminate]).
    specialize (P vals b4 t4 eq_refl).
    pose proof (build_is_fine tc (map (fval_map wt_expr) vals)) as BF.
    destruct (build tc (map (fval_map wt_expr) vals)) as [e| | |]; cbn [bind] in *;
      try (split; [tauto | discriminate]).
    destruct (derives tc T); [|split; [exact I | discriminate]].
    split; [exact I|]. intros w' bs' tbl' H. injection H as _ <- _. cbn [fst]. lia.
Qed.

Lemma rd_header_res : forall bs,
  (exists sw ma mi r, rd_header bs = Ok (sw, ma, mi, r) /\ (length r < length bs)%nat)
  \/ rd_header bs = ErrExn EXN_SERIAL.
Proof.
  intros bs. unfold rd_header. destruct bs as [|flag r]; [right; reflexivity|].
  destruct (rd_uint_res (negb (flag =? 1)%N) 2 r) as [[ma [r1 E1]]|E1]; rewrite E1; [|right; reflexivity].
  destruct (rd_uint_res (negb (flag =? 1)%N) 2 r1) as [[mi [r2 E2]]|E2]; rewrite E2; [|right; reflexivity].
  left. exists (negb (flag =? 1)%N), ma, mi, r2. split; [reflexivity|].
  apply rd_uint_ok in E1. apply rd_uint_ok in E2. cbn [length]. lia.
Qed.

(* Basic::loads on any byte list: a labelled tree or an exception *)
Theorem decode_lab_total : forall ver bs, fine (decode_lab ver bs).
Proof.
  intros ver bs. unfold decode_lab.
  destruct (rd_header_res bs) as [[sw [ma [mi [r [E L]]]]]|E]; rewrite E; cbn [bind]; [|exact I].
  destruct (negb _); [exact I|].
  destruct (dec_node_total sw (S (length bs)) TBasic r [] ltac:(lia)) as [F _].
  destruct (dec_node (S (length bs)) sw TBasic (r, [])) as [[w st]| | |]; cbn in *; tauto.
Qed.

Theorem decode_total : forall ver bs,
  (exists e, decode ver bs = Ok e) \/ (exists c, decode ver bs = ErrExn c).
Proof.
  intros ver bs. unfold decode. pose proof (decode_lab_total ver bs) as F.
  destruct (decode_lab ver bs) as [w| | |c]; cbn in *; try tauto; eauto.
Qed.

(* ---------------------------------------------------------------- independence of the fuel *)
Lemma bind_mono : forall {A B} (r1 r2 : res A) (k1 k2 : A -> res B),
  bind r1 k1 <> ErrFuel -> (r1 <> ErrFuel -> r2 = r1) ->
  (forall a, r1 = Ok a -> k1 a <> ErrFuel -> k2 a = k1 a) ->
  bind r2 k2 = bind r1 k1.
Proof.
  intros A B r1 r2 k1 k2 NF R K.
  assert (N1 : r1 <> ErrFuel) by (intro X; rewrite X in NF; apply NF; reflexivity).
  rewrite (R N1). destruct r1; cbn in *; try reflexivity. apply K; [reflexivity | exact NF].
Qed.

Section Mono.
  Variables rec1 rec2 : tclass -> dstate -> res (wtree * dstate).
  Variable sw : bool.
  Hypothesis rec_le : forall T st, rec1 T st <> ErrFuel -> rec2 T st = rec1 T st.

  Lemma sfield_mono : forall f st, dec_sfield rec1 sw f st <> ErrFuel ->
    dec_sfield rec2 sw f st = dec_sfield rec1 sw f st.
  Proof.
    intros f st NF. destruct f; try reflexivity. cbn [dec_sfield] in *.
    apply bind_mono; [exact NF | apply rec_le | reflexivity].
  Qed.

  Lemma svals_mono : forall fs st, dec_svals rec1 sw fs st <> ErrFuel ->
    dec_svals rec2 sw fs st = dec_svals rec1 sw fs st.
  Proof.
    induction fs as [|f r IH]; intros st NF; [reflexivity|]. cbn [dec_svals] in *.
    apply bind_mono; [exact NF | apply sfield_mono|].
    intros [v st1] E NF1. apply bind_mono; [exact NF1 | apply IH | reflexivity].
  Qed.

  Lemma rows_mono : forall elem k1 k2 cnt st, (k1 <= k2)%nat ->
    dec_rows rec1 sw k1 cnt elem st <> ErrFuel ->
    dec_rows rec2 sw k2 cnt elem st = dec_rows rec1 sw k1 cnt elem st.
  Proof.
    intros elem. induction k1 as [|k1 IH]; intros k2 cnt st LE NF.
    - cbn [dec_rows] in *. destruct (cnt =? 0)%N eqn:C; [|congruence].
      destruct k2; cbn [dec_rows]; rewrite C; reflexivity.
    - destruct k2 as [|k2]; [lia|]. cbn [dec_rows] in *. destruct (cnt =? 0)%N; [reflexivity|].
      apply bind_mono; [exact NF | apply svals_mono|].
      intros [row st1] E NF1. apply bind_mono; [exact NF1 | apply IH; lia | reflexivity].
  Qed.

  Lemma field_mono : forall k1 k2 f st, (k1 <= k2)%nat ->
    dec_field rec1 sw k1 f st <> ErrFuel ->
    dec_field rec2 sw k2 f st = dec_field rec1 sw k1 f st.
  Proof.
    intros k1 k2 f st LE NF. destruct f as [s|esz elem]; cbn [dec_field] in *.
    - apply bind_mono; [exact NF | apply sfield_mono | reflexivity].
    - apply bind_mono; [exact NF | reflexivity|].
      intros [x bs] E NF1. destruct (ALLOC_LIMIT <=? x * esz)%N; [reflexivity|].
      apply bind_mono; [exact NF1 | apply rows_mono; exact LE | reflexivity].
  Qed.

  Lemma fields_mono : forall k1 k2 fs st, (k1 <= k2)%nat ->
    dec_fields rec1 sw k1 fs st <> ErrFuel ->
    dec_fields rec2 sw k2 fs st = dec_fields rec1 sw k1 fs st.
  Proof.
    intros k1 k2 fs. induction fs as [|f r IH]; intros st LE NF; [reflexivity|]. cbn [dec_fields] in *.
    apply bind_mono; [exact NF | apply field_mono; exact LE|].
    intros [v st1] E NF1. apply bind_mono; [exact NF1 | apply IH; exact LE | reflexivity].
  Qed.
End Mono.

(* more fuel does not change a result that is not "out of fuel" *)
Theorem dec_node_mono : forall sw f1 f2 T st, (f1 <= f2)%nat ->
  dec_node f1 sw T st <> ErrFuel -> dec_node f2 sw T st = dec_node f1 sw T st.
Proof.
  intros sw. induction f1 as [|f1 IH]; intros f2 T st LE NF; [cbn in NF; congruence|].
  destruct f2 as [|f2]; [lia|]. cbn [dec_node] in *.
  apply bind_mono; [exact NF | reflexivity|]. intros [addr bs1] _ NF1.
  apply bind_mono; [exact NF1 | reflexivity|]. intros [fs bs2] _ NF2.
  destruct (2 <=? fs)%N; [reflexivity|]. destruct (fs =? 0)%N; [reflexivity|].
  apply bind_mono; [exact NF2 | reflexivity|]. intros [tc bs3] _ NF3.
  destruct (TC_Count <=? tc)%N; [reflexivity|].
  destruct (schema_k (kind_of tc)) as [sch|]; [|reflexivity].
  apply bind_mono; [exact NF3 | | reflexivity].
  apply fields_mono; [|lia]. intros T' st' NF'. apply IH; [lia | exact NF'].
Qed.

Corollary dec_node_fuel_indep : forall sw f1 f2 T st r,
  dec_node f1 sw T st = Ok r -> dec_node f2 sw T st <> ErrFuel -> dec_node f2 sw T st = Ok r.
Proof.
  intros sw f1 f2 T st r H NF.
  destruct (Nat.le_ge_cases f1 f2) as [LE|GE].
  - rewrite (dec_node_mono sw f1 f2 T st LE); [exact H | rewrite H; discriminate].
  - rewrite <- H. symmetry. apply dec_node_mono; assumption.
Qed.
