(* Extraction of the expand (C09) and subs (C11) models together with the expression core. *)
From SE Require Import Expr.IO Expr.ArithGuards C09.ExpandModel C11.SubsModel C09.ExpandGuards C09.ExpandGuardedOps
  C11.SubsGuards C11.SubsGuardedOps.
Require Import ExtrOcamlBasic.
Extraction "semodel.ml" N_of_digits Z_of_digits digits_of_N tc_lookup tc_table wf
  hash expr_eqb expr_cmp expr_keyless canonical
  expand multinomial_coefficients expanded poly_frag xpoly_frag expand_guard
  subs_gen mk_dict occurs_any keys_consistent single_pow_key subs_guard.
