(* Shared by the C09 (expand) and C11 (subs) models: the public arithmetic calls with the fuel of the
   arithmetic model (Expr/Arith.v), and Mul::dict_add_term_new as a stand-alone call. *)
From SE Require Export Expr.Arith.
Local Open Scope Z_scope.
Local Open Scope res_scope.

(* mul(a, b), pow(a, b), div(a, b) *)
Definition a_mul (a b : expr) : res expr := api_run OMul [a; b].
Definition a_pow (a b : expr) : res expr := api_run OPow [a; b].
Definition a_div (a b : expr) : res expr := api_run ODiv [a; b].

Definition msize (d : mdict) : nat := fold_right (fun p acc => (size (fst p) + size (snd p) + acc)%nat) 0%nat d.
Definition datn_fuel (d : mdict) (exp t : expr) : nat := (4 * (msize d + size exp + size t) + 40)%nat.
(* Mul::dict_add_term_new(outArg(coef), d, exp, t) with st = (coef, d) *)
Definition a_datn (st : number * mdict) (exp t : expr) : res (number * mdict) :=
  rS (arith (datn_fuel (snd st) exp t)) (CDatn (fst st) (snd st) exp t).
