(* Q(i) (pairs of rationals up to Qeq, Num/NumSpec.v) as a ring for the [ring] tactic. *)
From SE Require Export Num.NumSpec Num.NumQi.
From Coq Require Import QArith Ring Setoid Morphisms.

Lemma qi_ring_theory : ring_theory qi_zero qi_one qi_add qi_mul qi_sub qi_opp qi_eq.
Proof.
  constructor; intros; repeat match goal with x : qi |- _ => destruct x end; qi_unfold; split; ring.
Qed.
Lemma qi_opp_proper : Proper (qi_eq ==> qi_eq) qi_opp.
Proof. intros [a b] [c d] [H1 H2]. qi_unfold. split; rewrite ?H1, ?H2; reflexivity. Qed.
Lemma qi_ring_ext : ring_eq_ext qi_add qi_mul qi_opp qi_eq.
Proof. constructor; [exact qi_add_proper | exact qi_mul_proper | exact qi_opp_proper]. Qed.
Add Ring qi_ring : qi_ring_theory (setoid qi_eq_equiv qi_ring_ext).

Lemma qi_ring_test : forall a b c : qi, qi_eq (qi_mul a (qi_add b c)) (qi_add (qi_mul c a) (qi_mul a b)).
Proof. intros. ring. Qed.
