(* C35 -- the Pow-of-Pow rule of RefineVisitor: (b^k)^n -> abs(b)^(k n) for real b (taken only for an
   even integer k since the repair ef8465f) and (b^k)^n -> b^(k n) for positive b are value
   preserving when k is an even integer and n a half-integer.  Real arithmetic in Q. *)
From SE Require Import Assume.AssumeSem Num.NumQi Assume.RefineModel
  Assume.AssumeProofs Assume.AssumeProofs2 Assume.AssumeProofs3 Assume.C34Theorems Assume.RefineProofs.
From Coq Require Import QArith Qabs Qpower List ZArith Bool Lia Lqa Setoid Morphisms.
Import ListNotations.
Local Open Scope Q_scope.

(* powers of a real number, in Q *)
Lemma pow_nat_real : forall a b n, b == 0 -> qi_eq (qi_pow_nat (a, b) n) (a ^ Z.of_nat n, 0).
Proof.
  intros a b n B. induction n as [|n IH].
  - cbn. split; reflexivity.
  - cbn [qi_pow_nat]. rewrite IH.
    assert (E : a ^ Z.of_nat (S n) == a ^ Z.of_nat n * a).
    { rewrite Nat2Z.inj_succ. unfold Z.succ. rewrite (Qpower_plus' a (Z.of_nat n) 1) by lia.
      rewrite Qpower_1_r. reflexivity. }
    unfold qi_mul, qi_eq. cbn [fst snd]. split; [rewrite E, B; ring | rewrite B; ring].
Qed.

Lemma inv_real : forall c, qi_eq (qi_inv (c, 0)) (/ c, 0).
Proof.
  intro c. unfold qi_inv, qi_div, qi_one, qi_norm2, qi_eq. cbn [fst snd]. split.
  - destruct (Qeq_dec c 0) as [Z|NZ].
    + rewrite Z. reflexivity.
    + field. exact NZ.
  - unfold Qdiv. ring.
Qed.

Lemma powz_real : forall a b k, b == 0 -> qi_eq (qi_powz (a, b) k) (a ^ k, 0).
Proof.
  intros a b k B. destruct k as [|p|p]; cbn [qi_powz].
  - split; reflexivity.
  - rewrite (pow_nat_real a b (Pos.to_nat p) B). rewrite positive_nat_Z. reflexivity.
  - rewrite (pow_nat_real a b (Pos.to_nat p) B). rewrite positive_nat_Z. rewrite inv_real.
    split; cbn [fst snd]; [|reflexivity]. change (Z.neg p) with (- Z.pos p)%Z. rewrite Qpower_opp. reflexivity.
Qed.

Lemma qi_powz_proper : forall x y k, qi_eq x y -> qi_eq (qi_powz x k) (qi_powz y k).
Proof.
  intros x y k E. destruct k as [|p|p]; cbn [qi_powz].
  - reflexivity.
  - now rewrite E.
  - now rewrite E.
Qed.

Lemma sqrt_unique : forall s t, 0 <= s -> 0 <= t -> s * s == t * t -> s == t.
Proof. intros s t S T E. nra. Qed.

(* the value of (b^(2j))^(m/2) for a real b, as a power of c >= 0 with c^2 = b^2 *)
Theorem pow_even_value : forall b1 b2 c j n m f,
  b2 == 0 -> 0 <= c -> c * c == b1 * b1 ->
  q_as_int n = None -> q_as_int (2 * n) = Some m ->
  qi_pow (qi_powz (b1, b2) (2 * j)) (n, 0) = PFin f ->
  qi_eq f (qi_powz (c, 0) (j * m)).
Proof.
  intros b1 b2 c j n m f B C CC N1 N2 H.
  pose proof (powz_real b1 b2 (2 * j) B) as R. set (r := qi_powz (b1, b2) (2 * j)) in *.
  destruct R as [R1 R2]. cbn [fst snd] in R1, R2.
  (* b1^(2j) = (c^j)^2 *)
  assert (SQ : b1 ^ (2 * j) == (c ^ j) * (c ^ j)).
  { rewrite Qpower_mult. assert (E2 : b1 ^ 2 == c ^ 2) by (cbn; rewrite CC; reflexivity).
    rewrite E2. rewrite <- Qpower_mult. rewrite Z.mul_comm, Qpower_mult. cbn. reflexivity. }
  assert (CJ : 0 <= c ^ j) by (now apply Qpower_0_le).
  unfold qi_pow in H. cbn [fst snd] in H.
  change (qi_is_realb (n, 0)) with true in H. cbn iota in H. rewrite N1, N2 in H.
  unfold psqrt in H.
  assert (RB : qi_is_realb r = true) by (apply qi_is_realb_iff; exact R2). rewrite RB in H.
  destruct (qsqrt (Qabs (fst r))) as [s|] eqn:QS; [|discriminate H].
  destruct (qsqrt_sound _ _ QS) as [SS SP].
  assert (RP : 0 <= fst r) by (rewrite R1, SQ; nra).
  assert (LB : Qle_bool 0 (fst r) = true) by (apply Qle_bool_iff; exact RP). rewrite LB in H.
  destruct ((m <? 0)%Z && qi_is_zerob r); [discriminate H|]. injection H as <-.
  assert (SE : s == c ^ j).
  { apply sqrt_unique; auto. rewrite SS, (Qabs_pos _ RP), R1, SQ. reflexivity. }
  rewrite (powz_real s 0 m (Qeq_refl 0)). rewrite (powz_real c 0 (j * m) (Qeq_refl 0)).
  split; cbn [fst snd]; [|reflexivity]. rewrite SE. rewrite <- Qpower_mult. reflexivity.
Qed.

Section PowRule.
  Variables (rho : valuation) (A : option assum).
  Hypothesis HO : oassum_ok rho A.

  (* decision DPos: the base is known positive *)
  Theorem pow_rule_pos_even : forall ib xn j n m bz f,
    refine_pow A (EPow ib (ENum (NInt (2 * j)))) (ENum xn) = DPos ->
    keys_ok ib = true -> pos_guard ib = true ->
    vfin (denote rho ib) = Some bz -> vfin (num_val xn) = Some (n, 0) ->
    q_as_int n = None -> q_as_int (2 * n) = Some m ->
    qi_pow (qi_powz bz (2 * j)) (n, 0) = PFin f ->
    qi_eq f (qi_powz (fst bz, 0) (j * m)).
  Proof.
    intros ib xn j n m bz f H K G V X N1 N2 P. unfold refine_pow in H.
    destruct (is_real A ib) as [t| | |] eqn:ER; cbn [qb] in H; try discriminate H.
    destruct t; cbn [t_true] in H; try discriminate H.
    destruct (negb (n_is_complex (NInt (2 * j))) && negb (n_is_complex xn)); [|discriminate H].
    destruct (is_positive A ib) as [u| | |] eqn:EP; cbn [qb] in H; try discriminate H.
    destruct u; cbn [t_true] in H; try (destruct (Z.even (2 * j)); discriminate H).
    pose proof (vfin_denote _ _ _ V) as D.
    assert (RR : v_real (VC bz)) by (apply (real_sound_guarded rho A HO ib (VC bz) K ER D); discriminate).
    destruct (positive_sound_guarded rho A HO ib TT (VC bz) G EP D) as [PP _]. destruct (PP eq_refl) as [_ PB].
    destruct bz as [b1 b2]. cbn [v_real] in RR. unfold qi_real in RR. cbn [fst snd] in *.
    apply (pow_even_value b1 b2 b1 j n m f); auto; first [lra | reflexivity].
  Qed.

  (* decision DAbs: the base is real *)
  Theorem pow_rule_abs_even : forall ib xn j n m bz f,
    refine_pow A (EPow ib (ENum (NInt (2 * j)))) (ENum xn) = DAbs ->
    keys_ok ib = true ->
    vfin (denote rho ib) = Some bz -> vfin (num_val xn) = Some (n, 0) ->
    q_as_int n = None -> q_as_int (2 * n) = Some m ->
    qi_pow (qi_powz bz (2 * j)) (n, 0) = PFin f ->
    qi_eq f (qi_powz (Qabs (fst bz), 0) (j * m)).
  Proof.
    intros ib xn j n m bz f H K V X N1 N2 P. unfold refine_pow in H.
    destruct (is_real A ib) as [t| | |] eqn:ER; cbn [qb] in H; try discriminate H.
    destruct t; cbn [t_true] in H; try discriminate H.
    pose proof (vfin_denote _ _ _ V) as D.
    assert (RR : v_real (VC bz)) by (apply (real_sound_guarded rho A HO ib (VC bz) K ER D); discriminate).
    destruct bz as [b1 b2]. cbn [v_real] in RR. unfold qi_real in RR. cbn [fst snd] in *.
    apply (pow_even_value b1 b2 (Qabs b1) j n m f); auto.
    - apply Qabs_nonneg.
    - destruct (Qlt_le_dec b1 0) as [L|L].
      + rewrite (Qabs_neg b1) by lra. ring.
      + rewrite (Qabs_pos b1 L). reflexivity.
  Qed.
  (* the abs branch is only taken for an even integer inner exponent *)
  Lemma refine_pow_abs_shape : forall nb ne, refine_pow A nb ne = DAbs ->
    exists ib j xn, nb = EPow ib (ENum (NInt (2 * j))) /\ ne = ENum xn.
  Proof.
    intros nb ne H. unfold refine_pow in H.
    destruct nb as [ | | | | | |ib ie| | | | | | | | | | | ]; try discriminate H.
    destruct ne as [xn| | | | | | | | | | | | | | | | | ]; try discriminate H.
    destruct (is_real A ib) as [t| | |]; cbn [qb] in H; try discriminate H.
    destruct (t_true t); [|discriminate H].
    destruct ie as [m| | | | | | | | | | | | | | | | | ]; try discriminate H.
    destruct (negb (n_is_complex m) && negb (n_is_complex xn)); [|discriminate H].
    destruct (is_positive A ib) as [u| | |]; cbn [qb] in H; try discriminate H.
    destruct (t_true u); [discriminate H|].
    destruct m as [z| | | | | |]; try discriminate H.
    destruct (Z.even z) eqn:EV; [|discriminate H].
    apply Z.even_spec in EV. destruct EV as [j ->]. eauto.
  Qed.

  (* every firing of the abs branch preserves the value (outer exponent a half-integer) *)
  Theorem pow_rule_abs_sound : forall nb ne, refine_pow A nb ne = DAbs ->
    exists ib j xn, nb = EPow ib (ENum (NInt (2 * j))) /\ ne = ENum xn /\
      forall n m bz f, keys_ok ib = true ->
        vfin (denote rho ib) = Some bz -> vfin (num_val xn) = Some (n, 0) ->
        q_as_int n = None -> q_as_int (2 * n) = Some m ->
        qi_pow (qi_powz bz (2 * j)) (n, 0) = PFin f ->
        qi_eq f (qi_powz (Qabs (fst bz), 0) (j * m)).
  Proof.
    intros nb ne H. destruct (refine_pow_abs_shape nb ne H) as (ib & j & xn & -> & ->).
    exists ib, j, xn. split; [reflexivity|]. split; [reflexivity|]. intros n0 m0 bz f K V X N1 N2 P.
    now apply (pow_rule_abs_even ib xn j n0 m0 bz f H).
  Qed.
End PowRule.
