(* C34 -- executable transcription of symengine/assumptions.cpp (class Assumptions) and of the
   query visitors of symengine/test_visitors.{h,cpp}: ZeroVisitor, PositiveVisitor,
   NegativeVisitor, NonNegativeVisitor, NonPositiveVisitor, IntegerVisitor, RealVisitor,
   ComplexVisitor, RationalVisitor, FiniteVisitor, AlgebraicVisitor, PolynomialVisitor and the
   derived is_nonzero / is_infinite / is_irrational / is_transcendental / is_even / is_odd.

   The model works on the tree dump of an expression ([expr], Expr/ExprDefs.v).  Visitor
   dispatch (BaseVisitor: the bvisit overload of the nearest base class) is transcribed by
   pattern matching on the constructor / type code.  A visitor's member variable that is left
   untouched by a loop (IntegerVisitor::bvisit(Add), ComplexVisitor::bvisit(Add),
   RationalVisitor::bvisit(Add) ...) keeps the value of the last visit, as in the C++.
   Exceptions are the value [QExn]; a place where the C++ builds a new expression with the
   library's constructors that the model does not have (sub(arg, 1), cos(arg) ...) and whose
   result matters is [QUnsup] (the model declines; the check skips the comparison).
   Recursive visitors carry a fuel (the C++ recursion through Add::get_args builds new Mul
   nodes, so the recursion is not structural); [QFuel] is never produced with the fuel used by
   the entry points.
   No proofs here. *)
From SE Require Export Expr.ExprDefs Assume.Tribool.
From Coq Require Import List NArith ZArith Bool.
Import ListNotations.
Local Open Scope N_scope.

(* ------------------------------------------------------------------ numbers *)
(* predicates of the Number classes; doubles by their bit patterns (i > 0, i < 0, i == 0.0) *)
Definition DBL_INF : N := 9218868437227405312.        (* 0x7FF0000000000000 *)
Definition DBL_SIGN : N := 9223372036854775808.       (* 0x8000000000000000 *)
Definition DBL_NINF : N := 18442240474082181120.      (* 0xFFF0000000000000 *)
Definition DBL_ONE : N := 4607182418800017408.        (* 0x3FF0000000000000 *)
Definition dbl_is_zero (b : N) : bool := (b =? 0) || (b =? DBL_SIGN).
Definition dbl_is_pos (b : N) : bool := (0 <? b) && (b <=? DBL_INF).
Definition dbl_is_neg (b : N) : bool := (DBL_SIGN <? b) && (b <=? DBL_NINF).

Definition n_is_zero (a : number) : bool :=
  match a with
  | NInt z => (z =? 0)%Z
  | NRat n _ => (n =? 0)%Z
  | NCplx _ _ _ _ => false
  | NDbl b => dbl_is_zero b
  | NCDbl re im => dbl_is_zero re && dbl_is_zero im
  | NInf _ => false
  | NNaN => false
  end.
Definition n_is_positive (a : number) : bool :=
  match a with
  | NInt z => (0 <? z)%Z
  | NRat n _ => (0 <? n)%Z
  | NDbl b => dbl_is_pos b
  | NInf d => (0 <? d)%Z
  | _ => false
  end.
Definition n_is_negative (a : number) : bool :=
  match a with
  | NInt z => (z <? 0)%Z
  | NRat n _ => (n <? 0)%Z
  | NDbl b => dbl_is_neg b
  | NInf d => (d <? 0)%Z
  | _ => false
  end.
(* Number::is_complex *)
Definition n_is_complex (a : number) : bool :=
  match a with
  | NCplx _ _ _ _ | NCDbl _ _ => true
  | NInf d => (d =? 0)%Z
  | _ => false
  end.
(* is_a_Complex(x): Complex or ComplexDouble (ComplexBase) *)
Definition n_is_a_Complex (a : number) : bool :=
  match a with NCplx _ _ _ _ | NCDbl _ _ => true | _ => false end.
Definition n_is_inf (a : number) : bool := match a with NInf _ => true | _ => false end.
Definition n_is_nan (a : number) : bool := match a with NNaN => true | _ => false end.
Definition n_is_integer (a : number) : bool := match a with NInt _ => true | _ => false end.
(* eq(x, *one) / Number::is_one on Integer *)
Definition n_is_int_one (a : number) : bool := match a with NInt z => (z =? 1)%Z | _ => false end.
(* Number::is_one: Integer 1 only (Rational is never 1; RealDouble::is_one is false) *)
Definition n_is_one (a : number) : bool := n_is_int_one a.
Definition e_is_int_one (e : expr) : bool := match e with ENum n => n_is_int_one n | _ => false end.

(* ------------------------------------------------------------------ class tests *)
Fixpoint name_eqb (a b : list N) : bool :=
  match a, b with
  | [], [] => true
  | x :: a', y :: b' => (x =? y) && name_eqb a' b'
  | _, _ => false
  end.

Definition is_set (e : expr) : bool :=
  match e with
  | EAtom _ => true                                   (* Reals, Integers, EmptySet, ... *)
  | EInterval _ _ _ _ => true
  | EFN c _ => (c =? TC_FiniteSet) || (c =? TC_Union) || (c =? TC_Intersection)
  | ELex c _ _ => c =? TC_Complement
  | _ => false
  end.
Definition is_relational (e : expr) : bool :=
  match e with
  | EF2 c _ _ => (c =? TC_Equality) || (c =? TC_Unequality) || (c =? TC_LessThan) || (c =? TC_StrictLessThan)
  | _ => false
  end.
(* Boolean and its subclasses (Relational included) *)
Definition is_boolean (e : expr) : bool :=
  match e with
  | EBool _ => true
  | ELex c _ _ => c =? TC_Contains
  | EF1 c _ => c =? TC_Not
  | EFN c _ => (c =? TC_And) || (c =? TC_Or) || (c =? TC_Xor)
  | _ => is_relational e
  end.
Definition is_setbool (e : expr) : bool := is_set e || is_boolean e.

Definition NM_pi : list N := [112; 105].
Definition NM_E : list N := [69].
Definition NM_EulerGamma : list N := [69; 117; 108; 101; 114; 71; 97; 109; 109; 97].
Definition NM_Catalan : list N := [67; 97; 116; 97; 108; 97; 110].
Definition NM_GoldenRatio : list N := [71; 111; 108; 100; 101; 110; 82; 97; 116; 105; 111].
Definition is_known_const (nm : list N) : bool :=
  name_eqb nm NM_pi || name_eqb nm NM_E || name_eqb nm NM_EulerGamma || name_eqb nm NM_Catalan
  || name_eqb nm NM_GoldenRatio.

(* ------------------------------------------------------------------ Assumptions *)
Record assum := mkAssum {
  a_complex : list (list N); a_real : list (list N); a_rational : list (list N); a_integer : list (list N);
  a_positive : list (list N * bool); a_nonnegative : list (list N * bool);
  a_negative : list (list N * bool); a_nonpositive : list (list N * bool);
  a_nonzero : list (list N * bool); a_zero : list (list N * bool) }.
Definition assum_empty : assum := mkAssum [] [] [] [] [] [] [] [] [] [].

Fixpoint mem_name (x : list N) (l : list (list N)) : bool :=
  match l with [] => false | y :: r => name_eqb y x || mem_name x r end.
(* Assumptions::from_map *)
Fixpoint from_map (m : list (list N * bool)) (x : list N) : tribool :=
  match m with
  | [] => TI
  | (y, v) :: r => if name_eqb y x then tri_of_bool v else from_map r x
  end.
(* Assumptions::set_map: throws on an inconsistent value; map[symbol] = value *)
Definition set_map (m : list (list N * bool)) (x : list N) (v : bool) : res (list (list N * bool)) :=
  let old := from_map m x in
  if (t_true old && negb v) || (t_false old && v) then ErrExn EXN_SYMENGINE
  else Ok ((x, v) :: m).

(* the six updates of one map each, chained; the first inconsistency throws *)
Local Open Scope res_scope.
Record upd := mkUpd { u_nonneg : option bool; u_pos : option bool; u_neg : option bool;
                      u_nonpos : option bool; u_nonzero : option bool; u_zero : option bool }.
Definition set_opt (m : list (list N * bool)) (x : list N) (v : option bool) : res (list (list N * bool)) :=
  match v with None => Ok m | Some b => set_map m x b end.

Definition sym_name (e : expr) : option (list N) := match e with ESym nm => Some nm | _ => None end.
Definition as_num (e : expr) : option number := match e with ENum n => Some n | _ => None end.

(* one statement of the constructor's loop.  The C++ performs the set_map calls of a branch in
   a fixed order; the order only decides WHICH inconsistency throws first, the exception is the
   same, so the model applies them in the order nonnegative, positive, negative, nonpositive,
   nonzero, zero (each map is independent of the others). *)
Definition apply_upd (A : assum) (x : list N) (u : upd) : res assum :=
  do m1 <- set_opt (a_nonnegative A) x (u_nonneg u);
  do m2 <- set_opt (a_positive A) x (u_pos u);
  do m3 <- set_opt (a_negative A) x (u_neg u);
  do m4 <- set_opt (a_nonpositive A) x (u_nonpos u);
  do m5 <- set_opt (a_nonzero A) x (u_nonzero u);
  do m6 <- set_opt (a_zero A) x (u_zero u);
  Ok (mkAssum (a_complex A) (a_real A) (a_rational A) (a_integer A) m2 m1 m3 m4 m5 m6).

Definition U_none : upd := mkUpd None None None None None None.
(* x is positive *)
Definition U_positive : upd := mkUpd (Some true) (Some true) (Some false) (Some false) (Some true) (Some false).
(* x is negative *)
Definition U_negative : upd := mkUpd (Some false) (Some false) (Some true) (Some true) (Some true) (Some false).
Definition U_nonnegative : upd := mkUpd (Some true) None (Some false) None None None.
Definition U_nonpositive : upd := mkUpd None (Some false) None (Some true) None None.
Definition U_zero : upd := mkUpd (Some true) (Some false) (Some false) (Some true) (Some false) (Some true).
Definition U_nonzero : upd := mkUpd None None None None (Some true) (Some false).

Definition add_real (A : assum) (x : list N) : assum :=
  mkAssum (a_complex A) (x :: a_real A) (a_rational A) (a_integer A)
          (a_positive A) (a_nonnegative A) (a_negative A) (a_nonpositive A) (a_nonzero A) (a_zero A).
Definition add_complex (A : assum) (x : list N) : assum :=
  mkAssum (x :: a_complex A) (a_real A) (a_rational A) (a_integer A)
          (a_positive A) (a_nonnegative A) (a_negative A) (a_nonpositive A) (a_nonzero A) (a_zero A).
Definition add_sets (A : assum) (x : list N) (cx re ra it : bool) : assum :=
  mkAssum (if cx then x :: a_complex A else a_complex A) (if re then x :: a_real A else a_real A)
          (if ra then x :: a_rational A else a_rational A) (if it then x :: a_integer A else a_integer A)
          (a_positive A) (a_nonnegative A) (a_negative A) (a_nonpositive A) (a_nonzero A) (a_zero A).

Definition add_stmt (A : assum) (s : expr) : res assum :=
  match s with
  | ELex c x st =>
      if c =? TC_Contains then
        match sym_name x, st with
        | Some nm, EAtom t =>
            if t =? TC_Complexes then Ok (add_sets A nm true false false false)
            else if t =? TC_Reals then Ok (add_sets A nm true true false false)
            else if t =? TC_Rationals then Ok (add_sets A nm true true true false)
            else if t =? TC_Integers then Ok (add_sets A nm true true true true)
            else Ok A
        | _, _ => Ok A
        end
      else Ok A
  | EF2 c a1 a2 =>
      if c =? TC_LessThan then                                (* a1 <= a2 *)
        match sym_name a2, as_num a1, sym_name a1, as_num a2 with
        | Some nm, Some n, _, _ =>
            let A' := add_real A nm in
            if n_is_positive n then apply_upd A' nm U_positive
            else if n_is_zero n then apply_upd A' nm U_nonnegative
            else Ok A'
        | _, _, Some nm, Some n =>
            let A' := add_real A nm in
            if n_is_negative n then apply_upd A' nm U_negative
            else if n_is_zero n then apply_upd A' nm U_nonpositive
            else Ok A'
        | _, _, _, _ => Ok A
        end
      else if c =? TC_StrictLessThan then                     (* a1 < a2 *)
        match sym_name a2, as_num a1, sym_name a1, as_num a2 with
        | Some nm, Some n, _, _ =>
            let A' := add_real A nm in
            if negb (n_is_negative n) then apply_upd A' nm U_positive else Ok A'
        | _, _, Some nm, Some n =>
            let A' := add_real A nm in
            if negb (n_is_positive n) then apply_upd A' nm U_negative else Ok A'
        | _, _, _, _ => Ok A
        end
      else if c =? TC_Equality then
        match as_num a1, sym_name a2 with
        | Some n, Some nm =>
            let A' := add_complex A nm in
            if n_is_zero n then
              (* set_map(zero_, true) comes first in the C++, then the sets, then the rest *)
              do A2 <- apply_upd A' nm U_zero;
              Ok (add_sets A2 nm false true true true)
            else apply_upd A' nm U_nonzero
        | _, _ => Ok A
        end
      else if c =? TC_Unequality then
        match as_num a1, sym_name a2 with
        | Some n, Some nm => if n_is_zero n then apply_upd A nm U_nonzero else Ok A
        | _, _ => Ok A
        end
      else Ok A
  | _ => Ok A
  end.

Fixpoint mk_assum_from (A : assum) (l : list expr) : res assum :=
  match l with
  | [] => Ok A
  | s :: r => do A' <- add_stmt A s; mk_assum_from A' r
  end.
(* Assumptions::Assumptions(const set_basic &statements): statements in the set's order *)
Definition mk_assum (l : list expr) : res assum := mk_assum_from assum_empty l.

Definition tri_mem (x : list N) (l : list (list N)) : tribool := if mem_name x l then TT else TI.

(* ------------------------------------------------------------------ query results *)
Inductive qr := QT (t : tribool) | QExn | QFuel | QUnsup.
Definition qbind (r : qr) (k : tribool -> qr) : qr := match r with QT t => k t | o => o end.
Definition qmap (f : tribool -> tribool) (r : qr) : qr := qbind r (fun t => QT (f t)).
Definition q_true (r : qr) : bool := match r with QT TT => true | _ => false end.

(* lookup of a symbol in one of the maps / sets; a Dummy is never found (the constructor only
   stores objects of class Symbol, and a Dummy is not eq to a Symbol) *)
Definition sym_map (A : option assum) (f : assum -> list (list N * bool)) (e : expr) : qr :=
  match A, e with
  | Some a, ESym nm => QT (from_map (f a) nm)
  | _, _ => QT TI
  end.
Definition sym_set (A : option assum) (f : assum -> list (list N)) (e : expr) : qr :=
  match A, e with
  | Some a, ESym nm => QT (tri_mem nm (f a))
  | _, _ => QT TI
  end.
Definition is_symbol (e : expr) : bool := match e with ESym _ | EDummy _ _ => true | _ => false end.

(* ------------------------------------------------------------------ ZeroVisitor *)
Fixpoint q_zero (A : option assum) (e : expr) : qr :=
  match e with
  | ENum n => QT (tri_of_bool (n_is_zero n))
  | ESym _ | EDummy _ _ => sym_map A a_zero e
  | EConst _ => QT TF
  | EF1 c a =>
      if (c =? TC_Abs) || (c =? TC_Conjugate) || (c =? TC_Sign) then q_zero A a
      else if c =? TC_PrimePi then QUnsup           (* is_negative(arg - 2): needs sub *)
      else if c =? TC_Not then QExn
      else QT TI
  | _ => if is_setbool e then QExn else QT TI
  end.
Definition is_zero (A : option assum) (e : expr) : qr := q_zero A e.
Definition is_nonzero (A : option assum) (e : expr) : qr := qmap not_tribool (q_zero A e).

(* ------------------------------------------------------------------ Negative / NonNegative / NonPositive *)
Definition is_negative (A : option assum) (e : expr) : qr :=
  match e with
  | ENum n => QT (if n_is_a_Complex n then TF else tri_of_bool (n_is_negative n))
  | ESym _ | EDummy _ _ => sym_map A a_negative e
  | EConst _ => QT TF
  | _ => if is_setbool e then QExn else QT TI
  end.
Definition is_nonnegative (A : option assum) (e : expr) : qr :=
  match e with
  | ENum n => QT (if n_is_a_Complex n || n_is_nan n || n_is_complex n then TF
                 else if n_is_negative n then TF else TT)
  | ESym _ | EDummy _ _ => sym_map A a_nonnegative e
  | EConst _ => QT TT
  | _ => if is_setbool e then QExn else QT TI
  end.
Definition is_nonpositive (A : option assum) (e : expr) : qr :=
  match e with
  | ENum n => QT (if n_is_a_Complex n || n_is_nan n || n_is_complex n then TF
                 else if n_is_positive n then TF else TT)
  | ESym _ | EDummy _ _ => sym_map A a_nonpositive e
  | EConst _ => QT TF
  | _ => if is_setbool e then QExn else QT TI
  end.

(* ------------------------------------------------------------------ PositiveVisitor *)
Section PosAdd.
  Variable pos : expr -> qr.
  Variable neg : expr -> qr.
  (* the loop of PositiveVisitor::bvisit(const Add&) over the dictionary *)
  Fixpoint pos_add_loop (d : list (expr * number)) (can_true can_false : bool) : qr :=
    match d with
    | [] => QT (if can_true then TT else if can_false then TF else TI)
    | (k, v) :: r =>
        if negb can_true && negb can_false then QT TI
        else
          qbind (pos k) (fun p =>
            (* neg_visitor.apply is only evaluated where the C++ short-circuit reaches it *)
            let vp := n_is_positive v in
            let vn := n_is_negative v in
            let negk := fun (_ : unit) => neg k in
            let c1a := vp && t_true p in
            qbind (if c1a then QT TT else if vn then qmap (fun t => tri_of_bool (t_true t)) (negk tt) else QT TF)
              (fun c1 =>
                 if t_true c1 then pos_add_loop r can_true false
                 else
                   let c2a := vn && t_true p in
                   qbind (if c2a then QT TT else if vp then qmap (fun t => tri_of_bool (t_true t)) (negk tt) else QT TF)
                     (fun c2 =>
                        if t_true c2 then pos_add_loop r false can_false
                        else pos_add_loop r false false)))
    end.
End PosAdd.

Fixpoint q_positive (A : option assum) (fuel : nat) (e : expr) {struct fuel} : qr :=
  match fuel with
  | O => QFuel
  | S f =>
      match e with
      | ENum n => QT (if n_is_a_Complex n then TF else tri_of_bool (n_is_positive n))
      | ESym _ | EDummy _ _ => sym_map A a_positive e
      | EConst _ => QT TT
      | EAdd c d =>
          (* coefficient positive: cannot be false; negative: cannot be true; neither and non-real
             (Complex, zoo) or nan: cannot be true *)
          let ct := negb (n_is_negative c) && negb (n_is_complex c || n_is_nan c) in
          let cf := negb (n_is_positive c) in
          pos_add_loop (q_positive A f) (is_negative A) d ct cf
      | _ => if is_setbool e then QExn else QT TI
      end
  end.
Definition fuel_of (e : expr) : nat := (2 * size e + 2)%nat.
Definition is_positive (A : option assum) (e : expr) : qr := q_positive A (fuel_of e) e.

(* ------------------------------------------------------------------ get_args *)
(* the Mul dictionary of an Add term: Add::from_dict with one entry *)
Definition term_dict (k : expr) : list (expr * expr) :=
  match k with
  | EMul _ d => d
  | EPow b x => [(b, x)]
  | _ => [(k, ENum (NInt 1))]
  end.
Definition add_arg (p : expr * number) : expr :=
  if n_is_int_one (snd p) then fst p else EMul (snd p) (term_dict (fst p)).
(* Add::get_args *)
Definition add_args (c : number) (d : list (expr * number)) : list expr :=
  (if n_is_zero c then [] else [ENum c]) ++ map add_arg d.
Definition mul_arg (p : expr * expr) : expr :=
  if e_is_int_one (snd p) then fst p else EPow (fst p) (snd p).
(* Mul::get_args *)
Definition mul_args (c : number) (d : list (expr * expr)) : list expr :=
  (if n_is_one c then [] else [ENum c]) ++ map mul_arg d.

(* ------------------------------------------------------------------ IntegerVisitor *)
Section AllTrue.
  Variable vis : expr -> qr.
  (* for (arg : args) { accept; if (not t_true(r)) { r = indeterminate; return; } } *)
  Fixpoint all_true_loop (l : list expr) (last : qr) : qr :=
    match l with
    | [] => last
    | a :: r => qbind (vis a) (fun t => if t_true t then all_true_loop r (QT TT) else QT TI)
    end.
End AllTrue.

Fixpoint q_integer (A : option assum) (fuel : nat) (e : expr) {struct fuel} : qr :=
  match fuel with
  | O => QFuel
  | S f =>
      match e with
      | ENum n => QT (tri_of_bool (n_is_integer n))
      | ESym _ | EDummy _ _ => sym_set A a_integer e
      | EConst nm => QT (if is_known_const nm then TF else TI)
      | EAdd c d => all_true_loop (q_integer A f) (add_args c d) QUnsup
      | EMul c d => all_true_loop (q_integer A f) (mul_args c d) QUnsup
      | EF1 c a => if c =? TC_Conjugate then q_integer A f a
                   else if c =? TC_Not then QT TF else QT TI
      | EF2 c _ _ => if c =? TC_KroneckerDelta then QT TT
                     else if is_relational e then QT TF else QT TI
      | _ => if is_setbool e then QT TF else QT TI
      end
  end.
Definition is_integer (A : option assum) (e : expr) : qr := q_integer A (fuel_of e) e.

(* ------------------------------------------------------------------ ComplexVisitor *)
(* is_zero of sub(arg, k) for a numeric constant k in {1, -1, I, -I}, WITHOUT assumptions:
   exact for exact numeric arguments; an Add with one term may collapse to that term (declined);
   every other difference is an Add, for which ZeroVisitor answers indeterminate. *)
Inductive pmk := K_one | K_mone | K_i | K_mi.
Definition num_eq_k (n : number) (k : pmk) : option bool :=
  match n with
  | NInt z => Some (match k with K_one => (z =? 1)%Z | K_mone => (z =? -1)%Z | _ => false end)
  | NRat _ _ => Some false
  | NCplx rn rd imn imd =>
      Some (match k with
            | K_i => (rn =? 0)%Z && (imn =? 1)%Z && (imd =? 1)%positive
            | K_mi => (rn =? 0)%Z && (imn =? -1)%Z && (imd =? 1)%positive
            | _ => false end)
  | NInf _ | NNaN => Some false
  | _ => None
  end.
Definition zero_sub_k (arg : expr) (k : pmk) : qr :=
  match arg with
  | ENum n => match num_eq_k n k with Some b => QT (tri_of_bool b) | None => QUnsup end
  | EAdd _ d => match d with [_] => QUnsup | _ => QT TI end
  | _ => if is_setbool arg then QUnsup else QT TI
  end.

Section FirstNotTrue.
  Context {X : Type}.
  Variable vis : X -> qr.
  (* b = true; for (arg) { accept; b = andwk(b, r); if (indeterminate(b) or false(b)) return; }
     -- the member keeps the value of the last visit *)
  Fixpoint first_not_true (l : list X) (last : qr) : qr :=
    match l with
    | [] => last
    | a :: r => qbind (vis a) (fun t => if t_true t then first_not_true r (QT TT) else QT t)
    end.
End FirstNotTrue.

Definition c_passthrough (c : N) : bool :=
  (c =? TC_Cos) || (c =? TC_Sin) || (c =? TC_ASin) || (c =? TC_ACos) || (c =? TC_Sinh) || (c =? TC_Cosh)
  || (c =? TC_Sign) || (c =? TC_Floor) || (c =? TC_Ceiling) || (c =? TC_Abs) || (c =? TC_Conjugate).
Definition c_arg_not_zero (c : N) : bool :=
  (c =? TC_Log) || (c =? TC_ASec) || (c =? TC_ASech) || (c =? TC_ACsc) || (c =? TC_ACsch).
Definition c_needs_trig (c : N) : bool :=
  (c =? TC_Tan) || (c =? TC_Cot) || (c =? TC_Sec) || (c =? TC_Csc).

Fixpoint q_complex (A : option assum) (fuel : nat) (e : expr) {struct fuel} : qr :=
  match fuel with
  | O => QFuel
  | S f =>
      let check_power := fun (b x : expr) =>
        qbind (q_complex A f b) (fun t => if t_true t then q_complex A f x else QT t) in
      match e with
      | ENum n => QT (if n_is_inf n || n_is_nan n then TF else TT)
      | ESym _ | EDummy _ _ => sym_set A a_complex e
      | EConst _ => QT TT
      | EAdd c d => first_not_true (q_complex A f) (add_args c d) QUnsup
      | EMul c d => first_not_true (fun p => check_power (fst p) (snd p)) d QUnsup
      | EPow b x => check_power b x
      | EF1 c a =>
          if c_passthrough c then q_complex A f a
          else if c_arg_not_zero c then
            qbind (q_complex A f a) (fun t =>
              if t_true t then
                qbind (q_zero None a) (fun z => if t_false z then QT TT else QT (not_tribool z))
              else QT t)
          else if c_needs_trig c then
            qbind (q_complex A f a) (fun t => if t_true t then QUnsup else QT t)
          else if (c =? TC_ATan) || (c =? TC_ACot) || (c =? TC_ATanh) || (c =? TC_ACoth) then
            let one := (c =? TC_ATanh) || (c =? TC_ACoth) in
            qbind (q_complex A f a) (fun t =>
              if t_true t then
                qbind (zero_sub_k a (if one then K_one else K_i)) (fun z1 =>
                  if t_false z1 then
                    qbind (zero_sub_k a (if one then K_mone else K_mi)) (fun z2 => QT (not_tribool z2))
                  else QT (not_tribool z1))
              else QT t)
          else if c =? TC_Not then QT TF
          else QT TI
      | EF2 c _ _ => if c =? TC_KroneckerDelta then QT TT
                     else if is_relational e then QT TF else QT TI
      | _ => if is_setbool e then QT TF else QT TI
      end
  end.
Definition is_complex (A : option assum) (e : expr) : qr := q_complex A (fuel_of e) e.

(* ------------------------------------------------------------------ RealVisitor *)
(* is_zero of sub(exp, integer(1)) under the assumptions *)
Definition zero_sub_one (x : expr) : qr :=
  match x with
  | ENum (NDbl b) => QT (tri_of_bool (b =? DBL_ONE))
  | ENum (NCDbl re im) => QT (tri_of_bool ((re =? DBL_ONE) && dbl_is_zero im))
  | _ => zero_sub_k x K_one
  end.

Section RealLoops.
  Variable vis : expr -> qr.
  (* RealVisitor::bvisit(const Add&): a second non-real term makes the answer indeterminate *)
  Fixpoint real_add_loop (l : list expr) (b : tribool) (non_real : nat) : qr :=
    match l with
    | [] => QT b
    | a :: r => qbind (vis a) (fun t =>
                  let nr := if t_false t then S non_real else non_real in
                  if t_false t && Nat.ltb 1 nr then QT TI
                  else
                    let b' := andwk_tribool b t in
                    if t_indet b' then QT b' else real_add_loop r b' nr)
    end.
  Variable chk : expr -> expr -> qr.
  (* the loop of RealVisitor::bvisit(const Mul&) *)
  Fixpoint real_mul_loop (d : list (expr * expr)) (b : tribool) (non_real : nat) : qr :=
    match d with
    | [] => QT (if Nat.eqb non_real 1 then TF else b)
    | (k, v) :: r =>
        qbind (chk k v) (fun t =>
          let nr := if t_false t then S non_real else non_real in
          if t_false t && Nat.ltb 1 nr then QT TI
          else
            let b' := andwk_tribool b t in
            if t_indet b' then QT TI else real_mul_loop r b' nr)
    end.
End RealLoops.

Fixpoint q_real (A : option assum) (fuel : nat) (e : expr) {struct fuel} : qr :=
  match fuel with
  | O => QFuel
  | S f =>
      let check_power := fun (base x : expr) =>
        qbind (is_zero A x) (fun z =>
          if t_true z then QT TT
          else
            qbind (q_real A f base) (fun rb =>
              if t_true rb then
                qbind (is_integer A x) (fun ix =>
                  if t_true ix then QT TT
                  else
                    qbind (is_nonnegative A base) (fun nb =>
                      if t_true nb then
                        qbind (q_real A f x) (fun rx => if t_false rx then QT TI else QT rx)
                      else QT TI))
              else if t_false rb then
                qbind (is_complex A base) (fun cb =>
                  if t_true cb then
                    qbind (zero_sub_one x) (fun z1 => if t_true z1 then QT TF else QT TI)
                  else QT TI)
              else QT TI)) in
      match e with
      | ENum n => QT (if n_is_a_Complex n || n_is_inf n || n_is_nan n then TF else TT)
      | ESym _ | EDummy _ _ => sym_set A a_real e
      | EConst nm => QT (if is_known_const nm then TT else TI)
      | EAdd c d => real_add_loop (q_real A f) (add_args c d) TT 0%nat
      | EMul c d =>
          let b := tri_of_bool (negb (n_is_complex c)) in
          real_mul_loop check_power d b (if t_false b then 1%nat else 0%nat)
      | EPow b x => check_power b x
      | _ => if is_setbool e then QT TF else QT TI
      end
  end.
Definition is_real (A : option assum) (e : expr) : qr := q_real A (fuel_of e) e.

(* ------------------------------------------------------------------ RationalVisitor *)
(* state: (is_rational_, neither_) *)
Section RatAdd.
  Variable vis : expr -> tribool * bool.
  Fixpoint rat_add_loop (l : list expr) (b : tribool) (last : tribool) (neither : bool) : tribool * bool :=
    match l with
    | [] => (last, neither)
    | a :: r =>
        let '(t, nb) := vis a in
        let b' := andwk_tribool b t in
        if t_indet b' then (t, neither || nb) else rat_add_loop r b' t (neither || nb)
    end.
End RatAdd.
Fixpoint q_rational (fuel : nat) (e : expr) {struct fuel} : tribool * bool :=
  match fuel with
  | O => (TI, false)
  | S f =>
      match e with
      | ENum (NInt _) | ENum (NRat _ _) => (TT, false)
      | ENum n => (TF, n_is_a_Complex n || n_is_inf n || n_is_nan n)
      | ESym _ | EDummy _ _ => (TI, false)
      | EConst nm => (if name_eqb nm NM_pi || name_eqb nm NM_E || name_eqb nm NM_GoldenRatio then TF else TI, false)
      | EAdd c d => rat_add_loop (q_rational f) (add_args c d) TT TI false
      | _ => if is_setbool e then (TF, true) else (TI, false)
      end
  end.
Definition rational_apply (rational : bool) (e : expr) : qr :=
  let '(r, neither) := q_rational (fuel_of e) e in
  QT (if negb rational && negb neither then not_tribool r else r).
Definition is_rational (e : expr) : qr := rational_apply true e.
Definition is_irrational (e : expr) : qr := rational_apply false e.

(* ------------------------------------------------------------------ FiniteVisitor *)
Definition is_finite (A : option assum) (e : expr) : qr :=
  match e with
  | ENum n => if n_is_inf n then QT TF else if n_is_nan n then QExn else QT TT
  | ESym _ | EDummy _ _ => sym_set A a_complex e
  | EConst _ => QT TT
  | _ => if is_setbool e then QExn else QT TI
  end.
Definition is_infinite (A : option assum) (e : expr) : qr := qmap not_tribool (is_finite A e).

(* ------------------------------------------------------------------ AlgebraicVisitor *)
Section AlgAdd.
  Variable vis : expr -> qr.
  Fixpoint alg_add_loop (l : list expr) (current : tribool) : qr :=
    match l with
    | [] => QT current
    | a :: r =>
        qbind (vis a) (fun t =>
          if t_false current && t_false t then QT TI
          else let c' := andwk_tribool current t in
               if t_indet c' then QT c' else alg_add_loop r c')
    end.
End AlgAdd.
Definition c_trig_hyp_w (c : N) : bool :=
  (c =? TC_Sin) || (c =? TC_Cos) || (c =? TC_Tan) || (c =? TC_Cot) || (c =? TC_Csc) || (c =? TC_Sec)
  || (c =? TC_Sinh) || (c =? TC_Csch) || (c =? TC_Cosh) || (c =? TC_Sech) || (c =? TC_Tanh) || (c =? TC_Coth)
  || (c =? TC_LambertW).
Fixpoint q_algebraic (A : option assum) (fuel : nat) (e : expr) {struct fuel} : qr :=
  match fuel with
  | O => QFuel
  | S f =>
      match e with
      | ENum (NInt _) | ENum (NRat _ _) => QT TT
      | ENum _ => QT TI
      | ESym _ | EDummy _ _ =>
          qbind (sym_set A a_rational e) (fun t => QT (if t_false t then TI else t))
      | EConst nm => QT (if name_eqb nm NM_pi || name_eqb nm NM_E then TF
                         else if name_eqb nm NM_GoldenRatio then TT else TI)
      | EAdd c d => alg_add_loop (q_algebraic A f) (add_args c d) TT
      | EF1 c a =>
          if c_trig_hyp_w c then
            qbind (q_algebraic A f a) (fun t =>
              if t_true t then qbind (is_nonzero None a) (fun nz => QT (if t_true nz then TF else TI))
              else QT TI)
          else if c =? TC_Not then QExn else QT TI
      | _ => if is_setbool e then QExn else QT TI
      end
  end.
Definition is_algebraic (A : option assum) (e : expr) : qr := q_algebraic A (fuel_of e) e.
Definition is_transcendental (A : option assum) (e : expr) : qr := qmap not_tribool (is_algebraic A e).

(* ------------------------------------------------------------------ is_even / is_odd *)
(* is_even(b) = is_integer(b / 2), is_odd(b) = is_integer((b + 1) / 2): the quotient is built by
   the library's constructors; the driver hands its dump to the model *)
Definition is_even_via (A : option assum) (half : expr) : qr := is_integer A half.
Definition is_odd_via (A : option assum) (half_succ : expr) : qr := is_integer A half_succ.

(* ------------------------------------------------------------------ PolynomialVisitor *)
(* state: is_polynomial_ (threaded), variables_allowed_ (argument).  [None] = declined. *)
Definition generic_args (e : expr) : option (list expr) :=
  match e with
  | EF1 _ a => Some [a]
  | EF2 _ a b => Some [a; b]
  | EFN _ l => Some l
  | EFunSym _ l => Some l
  | _ => None
  end.
Fixpoint mem_var (x : list N) (vars : list expr) : bool :=
  match vars with
  | [] => false
  | ESym y :: r => name_eqb y x || mem_var x r
  | _ :: r => mem_var x r
  end.
Section PolyLoop.
  Context {X : Type}.
  Variable vis : X -> bool -> option bool.      (* is_polynomial_ on entry -> on exit *)
  Fixpoint poly_loop (l : list X) (ip : bool) : option bool :=
    match l with
    | [] => Some ip
    | a :: r => match vis a ip with
                | Some true => poly_loop r true
                | o => o
                end
    end.
End PolyLoop.
Fixpoint q_poly (vars : list expr) (fuel : nat) (allowed : bool) (e : expr) (ip : bool) {struct fuel} : option bool :=
  match fuel with
  | O => None
  | S f =>
      let check_power := fun (b x : expr) (ip : bool) =>
        if allowed then
          match q_poly vars f false x ip with
          | Some true =>
              match q_poly vars f false b true with
              | Some true => Some true
              | Some false =>
                  match q_poly vars f true b true with
                  | Some r => Some (r && match x with ENum (NInt z) => (0 <? z)%Z | _ => false end)
                  | None => None
                  end
              | None => None
              end
          | o => o
          end
        else
          match q_poly vars f false b ip with
          | Some true => q_poly vars f false x true
          | o => o
          end in
      match e with
      | ENum _ | EConst _ => Some ip
      | ESym nm =>
          if allowed then Some ip
          else match vars with
               | [] => Some false
               | _ => Some (if mem_var nm vars then false else ip)
               end
      | EDummy _ _ => if allowed then Some ip else match vars with [] => Some false | _ => Some ip end
      | EAdd c d => poly_loop (q_poly vars f allowed) (add_args c d) ip
      | EMul c d => poly_loop (fun p ip => check_power (fst p) (snd p) ip) d ip
      | EPow b x => check_power b x ip
      | _ =>
          if is_set e || is_relational e then Some false
          else match generic_args e with
               | Some l => poly_loop (q_poly vars f false) l ip
               | None => None
               end
      end
  end.
Definition is_polynomial (vars : list expr) (e : expr) : option bool :=
  q_poly vars (fuel_of e) true e true.

(* ------------------------------------------------------------------ all queries of one case *)
Definition all_queries (A : option assum) (e : expr) : list qr :=
  [is_zero A e; is_nonzero A e; is_positive A e; is_negative A e; is_nonnegative A e; is_nonpositive A e;
   is_integer A e; is_real A e; is_complex A e; is_rational e; is_irrational e; is_finite A e; is_infinite A e;
   is_algebraic A e; is_transcendental A e].

(* ------------------------------------------------------------------ guards of the guarded theorems *)
(* the literal is neither nan nor zoo (no longer needed by the theorems since the repair of
   NonNegativeVisitor / NonPositiveVisitor; kept for the rule lemmas that mention it) *)
Definition sign_guard (e : expr) : bool :=
  match e with
  | ENum NNaN => false
  | ENum (NInf d) => negb (d =? 0)%Z
  | _ => true
  end.
(* well-formedness of sums: an Add has at least one term (an empty sum with coefficient 0 would be
   reported positive) *)
Definition coef_real_exact (c : number) : bool :=
  match c with NInt _ | NRat _ _ => true | _ => false end.
Fixpoint pos_guard (e : expr) : bool :=
  match e with
  | EAdd c d => negb (match d with [] => true | _ => false end)
                && forallb (fun p => pos_guard (fst p)) d
  | _ => true
  end.
(* the keys of an Add that are products carry the coefficient one (Add's canonical form: the
   numeric factor of a term lives in the dictionary value); needed to relate Add::get_args,
   which rebuilds a term as Mul(value, dict of the key), to the value of the term *)
Fixpoint keys_ok (e : expr) : bool :=
  match e with
  | EAdd c d => forallb (fun p => match fst p with EMul c' _ => n_is_int_one c' | _ => true end
                                  && keys_ok (fst p)) d
  | EMul c d => forallb (fun p => keys_ok (fst p) && keys_ok (snd p)) d
  | EPow b x => keys_ok b && keys_ok x
  | EF1 _ a => keys_ok a
  | _ => true
  end.
