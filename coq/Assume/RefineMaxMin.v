(* C35 -- the Max rule of RefineVisitor: dropping the arguments the rule drops does not change the
   maximum; Min is the mirror image. *)
From SE Require Import Assume.AssumeSem Num.NumQi Assume.RefineModel
  Assume.AssumeProofs Assume.AssumeProofs2 Assume.AssumeProofs3 Assume.C34Theorems Assume.RefineProofs.
From Coq Require Import QArith Qminmax List ZArith NArith Bool Lia Lqa.
Import ListNotations.
Local Open Scope Q_scope.

(* ------------------------------------------------------------------ maximum of a list *)
Lemma fold_max_ub : forall r a x, In x (a :: r) -> x <= fold_left Qmax r a.
Proof.
  induction r as [|b r IH]; intros a x H; cbn [fold_left].
  - destruct H as [<-|[]]. apply Qle_refl.
  - destruct H as [E|[E|H]].
    + rewrite <- E. apply Qle_trans with (Qmax a b); [apply Q.le_max_l | apply IH; left; reflexivity].
    + rewrite <- E. apply Qle_trans with (Qmax a b); [apply Q.le_max_r | apply IH; left; reflexivity].
    + apply IH. right. exact H.
Qed.
Lemma fold_max_in : forall r a, exists x, In x (a :: r) /\ fold_left Qmax r a == x.
Proof.
  induction r as [|b r IH]; intros a; cbn [fold_left].
  - exists a. split; [left; reflexivity | reflexivity].
  - destruct (IH (Qmax a b)) as (x & [<-|Hx] & E).
    + destruct (Q.max_dec a b) as [M|M].
      * exists a. split; [left; reflexivity|]. rewrite E. exact M.
      * exists b. split; [right; left; reflexivity|]. rewrite E. exact M.
    + exists x. split; [right; right; exact Hx | exact E].
Qed.

Lemma maxl_ub : forall l M x, q_maxl l = Some M -> In x l -> x <= M.
Proof. intros [|a r] M x H Hx; [contradiction|]. injection H as <-. now apply fold_max_ub. Qed.
Lemma maxl_in : forall l M, q_maxl l = Some M -> exists x, In x l /\ M == x.
Proof. intros [|a r] M H; [discriminate H|]. injection H as <-. apply fold_max_in. Qed.

(* two lists that dominate each other have the same maximum *)
Lemma maxl_same : forall l1 l2 M1 M2, q_maxl l1 = Some M1 -> q_maxl l2 = Some M2 ->
  (forall x, In x l1 -> exists y, In y l2 /\ x <= y) ->
  (forall y, In y l2 -> exists x, In x l1 /\ y <= x) -> M1 == M2.
Proof.
  intros l1 l2 M1 M2 H1 H2 D1 D2. apply Qle_antisym.
  - destruct (maxl_in l1 M1 H1) as (x & Hx & ->). destruct (D1 x Hx) as (y & Hy & L).
    apply Qle_trans with y; [exact L | now apply (maxl_ub l2 M2 y)].
  - destruct (maxl_in l2 M2 H2) as (y & Hy & ->). destruct (D2 y Hy) as (x & Hx & L).
    apply Qle_trans with x; [exact L | now apply (maxl_ub l1 M1 x)].
Qed.

(* ------------------------------------------------------------------ the decision on classes *)
Definition max_dec (cls : list mclass) : dec :=
  let cl := index_from 0 cls in
  if has MExn cl then DExn else if has MUnsup cl then DUnsup
  else
    let keep := pick (fun c => mc_eqb c MPos || mc_eqb c MNonneg || mc_eqb c MOther) cl in
    let nonpositive := pick (mc_eqb MNonpos) cl in
    let negative := pick (mc_eqb MNeg) cl in
    let have_positive := has MPos cl in
    let have_nonnegative := has MNonneg cl in
    let keep1 := if negb have_positive then keep ++ nonpositive else keep in
    let keep2 := if negb have_nonnegative && negb have_positive then keep1 ++ negative else keep1 in
    DList keep2.
Lemma refine_max_dec : forall A nas, refine_max A nas = max_dec (map (max_class A) nas).
Proof. reflexivity. Qed.

Definition class_ok (c : mclass) (v : Q) : Prop :=
  match c with
  | MPos => 0 < v | MNonneg => 0 <= v | MNeg => v < 0 | MNonpos => v <= 0
  | _ => True
  end.

Lemma mc_eqb_eq : forall a b, mc_eqb a b = true <-> a = b.
Proof. intros a b. destruct a; destruct b; cbn; split; intro H; try discriminate H; reflexivity. Qed.

Lemma index_from_in : forall l s i c, In (i, c) (index_from s l) <->
  exists k, i = (s + N.of_nat k)%N /\ nth_error l k = Some c.
Proof.
  induction l as [|a r IH]; intros s i c; cbn [index_from].
  - split; [intros [] | intros (k & _ & H); destruct k; discriminate H].
  - split.
    + intros [E|H].
      * injection E as <- <-. exists 0%nat. split; [cbn; lia | reflexivity].
      * apply IH in H. destruct H as (k & -> & Hk). exists (S k). split; [lia | exact Hk].
    + intros (k & -> & Hk). destruct k as [|k].
      * left. cbn in Hk. injection Hk as <-. f_equal. cbn. lia.
      * right. apply IH. exists k. split; [lia | exact Hk].
Qed.

Lemma pick_in : forall f l i, In i (pick f l) <-> exists c, In (i, c) l /\ f c = true.
Proof.
  intros f l i. unfold pick. rewrite in_map_iff. split.
  - intros ([j c] & <- & H). apply filter_In in H. destruct H as [H1 H2]. exists c. split; assumption.
  - intros (c & H1 & H2). exists (i, c). split; [reflexivity|]. apply filter_In. split; assumption.
Qed.
Lemma has_iff : forall c l, has c l = true <-> exists i, In (i, c) l.
Proof.
  intros c l. unfold has. rewrite existsb_exists. split.
  - intros ([i c'] & H1 & H2). apply mc_eqb_eq in H2. cbn in H2. subst c'. eauto.
  - intros (i & H). exists (i, c). split; [exact H | apply mc_eqb_eq; reflexivity].
Qed.

(* the value of the argument with index i *)
Definition val_at (vals : list Q) (i : N) : Q := nth (N.to_nat i) vals 0.

Theorem max_dec_sound : forall cls vals keep M M',
  max_dec cls = DList keep ->
  length cls = length vals ->
  (forall k c v, nth_error cls k = Some c -> nth_error vals k = Some v -> class_ok c v) ->
  q_maxl vals = Some M -> q_maxl (map (val_at vals) keep) = Some M' -> M == M'.
Proof.
  intros cls vals keep M M' H L OK HM HM'. unfold max_dec in H.
  set (cl := index_from 0 cls) in *.
  destruct (has MExn cl) eqn:HE; [discriminate H|]. destruct (has MUnsup cl) eqn:HU; [discriminate H|].
  injection H as H.
  set (base := pick (fun c0 => mc_eqb c0 MPos || mc_eqb c0 MNonneg || mc_eqb c0 MOther) cl) in *.
  (* membership in cl *)
  assert (CL : forall i c, In (i, c) cl <-> exists k, i = N.of_nat k /\ nth_error cls k = Some c).
  { intros i c. unfold cl. rewrite index_from_in. split; intros (k & E & Hk); exists k; split; auto; lia. }
  assert (VAL : forall k c, nth_error cls k = Some c ->
            exists v, nth_error vals k = Some v /\ val_at vals (N.of_nat k) = v /\ In v vals).
  { intros k c Hk. assert (LT : (k < length vals)%nat) by (rewrite <- L; apply nth_error_Some; congruence).
    destruct (nth_error vals k) as [v|] eqn:E; [|apply nth_error_None in E; lia].
    exists v. split; [reflexivity|]. split.
    - unfold val_at. rewrite Nat2N.id. now apply nth_error_nth.
    - eapply nth_error_In; eauto. }
  (* the three ways of being kept *)
  assert (KB : forall i, In i base -> In i keep).
  { intros i Hi. rewrite <- H. destruct (negb (has MNonneg cl) && negb (has MPos cl)); destruct (negb (has MPos cl));
      repeat (apply in_or_app; left); exact Hi. }
  assert (KNP : forall i, has MPos cl = false -> In i (pick (mc_eqb MNonpos) cl) -> In i keep).
  { intros i HP Hi. rewrite <- H. rewrite HP. cbn [negb]. destruct (negb (has MNonneg cl) && true).
    - apply in_or_app. left. apply in_or_app. right. exact Hi.
    - apply in_or_app. right. exact Hi. }
  assert (KN : forall i, has MPos cl = false -> has MNonneg cl = false -> In i (pick (mc_eqb MNeg) cl) -> In i keep).
  { intros i HP HN Hi. rewrite <- H. rewrite HP, HN. cbn [negb andb]. apply in_or_app. right. exact Hi. }
  assert (SUB : forall i, In i keep -> exists c, In (i, c) cl).
  { intros i Hi. rewrite <- H in Hi.
    destruct (negb (has MNonneg cl) && negb (has MPos cl)); destruct (negb (has MPos cl));
      repeat (apply in_app_or in Hi; destruct Hi as [Hi|Hi]); apply pick_in in Hi; destruct Hi as (c & Hc & _); eauto. }
  apply (maxl_same vals (map (val_at vals) keep) M M' HM HM').
  - (* every value is dominated by a kept one *)
    intros x Hx. apply In_nth_error in Hx. destruct Hx as (k & Hk).
    assert (LT : (k < length cls)%nat) by (rewrite L; apply nth_error_Some; congruence).
    destruct (nth_error cls k) as [c|] eqn:Ec; [|apply nth_error_None in Ec; lia].
    pose proof (OK k c x Ec Hk) as Ck.
    assert (INk : In (N.of_nat k, c) cl) by (apply CL; eauto).
    assert (SELF : In (N.of_nat k) keep -> exists y, In y (map (val_at vals) keep) /\ x <= y).
    { intro IK. exists x. split; [|apply Qle_refl]. apply in_map_iff. exists (N.of_nat k). split; [|exact IK].
      destruct (VAL k c Ec) as (v & E1 & E2 & _). rewrite Hk in E1. injection E1 as <-. exact E2. }
    assert (OTHER : forall c', (c' = MPos \/ c' = MNonneg) -> has c' cl = true -> x <= 0 ->
              exists y, In y (map (val_at vals) keep) /\ x <= y).
    { intros c' Hc' HH X0. apply has_iff in HH. destruct HH as (i & Hi). pose proof Hi as Hi2.
      apply CL in Hi2. destruct Hi2 as (k' & -> & Hk').
      destruct (VAL k' c' Hk') as (v & E1 & E2 & _). pose proof (OK k' c' v Hk' E1) as Cv.
      exists v. split.
      - apply in_map_iff. exists (N.of_nat k'). split; [exact E2|]. apply KB. unfold base. apply pick_in.
        exists c'. split; [exact Hi|]. destruct Hc' as [-> | ->]; reflexivity.
      - destruct Hc' as [-> | ->]; cbn in Cv; lra. }
    assert (BASE : mc_eqb c MPos || mc_eqb c MNonneg || mc_eqb c MOther = true -> In (N.of_nat k) keep).
    { intro B. apply KB. unfold base. apply pick_in. exists c. split; assumption. }
    destruct c; cbn [class_ok] in Ck.
    + apply SELF. apply BASE. reflexivity.
    + apply SELF. apply BASE. reflexivity.
    + (* negative *)
      destruct (has MPos cl) eqn:HP; [apply (OTHER MPos); auto; lra|].
      destruct (has MNonneg cl) eqn:HN; [apply (OTHER MNonneg); auto; lra|].
      apply SELF. apply KN; auto. apply pick_in. exists MNeg. split; [exact INk | reflexivity].
    + (* nonpositive *)
      destruct (has MPos cl) eqn:HP; [apply (OTHER MPos); auto|].
      apply SELF. apply KNP; auto. apply pick_in. exists MNonpos. split; [exact INk | reflexivity].
    + apply SELF. apply BASE. reflexivity.
    + exfalso. assert (has MExn cl = true) by (apply has_iff; eauto). congruence.
    + exfalso. assert (has MUnsup cl = true) by (apply has_iff; eauto). congruence.
  - (* every kept value is one of the values *)
    intros y Hy. apply in_map_iff in Hy. destruct Hy as (i & <- & Hi).
    destruct (SUB i Hi) as (c & Hc). apply CL in Hc. destruct Hc as (k & -> & Hk).
    destruct (VAL k c Hk) as (v & _ & E2 & IV). exists v. split; [exact IV|]. rewrite E2. apply Qle_refl.
Qed.

(* ------------------------------------------------------------------ from the queries to the classes *)
Section MaxRule.
  Variables (rho : valuation) (A : option assum).
  Hypothesis HO : oassum_ok rho A.

  Lemma max_class_ok : forall a z, pos_guard a = true -> vfin (denote rho a) = Some z -> qi_real z ->
    class_ok (max_class A a) (fst z).
  Proof.
    intros a z G V R. pose proof (vfin_denote _ _ _ V) as D. pose proof (finite_sign_guard rho a z V) as SG.
    unfold max_class.
    destruct (is_positive A a) as [t| | |] eqn:E1; cbn [qc]; try exact I.
    destruct (t_true t) eqn:T1.
    { destruct t; try discriminate T1. destruct (positive_sound_guarded rho A HO a TT (VC z) G E1 D) as [P _].
      destruct (P eq_refl) as [_ X]. exact X. }
    destruct (is_nonnegative A a) as [t2| | |] eqn:E2; cbn [qc]; try exact I.
    destruct (t_true t2) eqn:T2.
    { destruct t2; try discriminate T2. destruct (nonnegative_sound_guarded rho A HO a TT (VC z) SG E2 D) as [P _].
      destruct (P eq_refl) as [_ X]. exact X. }
    destruct (is_negative A a) as [t3| | |] eqn:E3; cbn [qc]; try exact I.
    destruct (t_true t3) eqn:T3.
    { destruct t3; try discriminate T3. destruct (negative_sound rho A HO a TT (VC z) E3 D) as [P _].
      destruct (P eq_refl) as [_ X]. exact X. }
    destruct (is_nonpositive A a) as [t4| | |] eqn:E4; cbn [qc]; try exact I.
    destruct (t_true t4) eqn:T4; [|exact I].
    destruct t4; try discriminate T4. destruct (nonpositive_sound_guarded rho A HO a TT (VC z) SG E4 D) as [P _].
    destruct (P eq_refl) as [_ X]. exact X.
  Qed.

  Lemma reals_of_nth : forall (l : list (option qi)) rs, reals_of l = Some rs ->
    length l = length rs /\
    forall k v, nth_error rs k = Some v -> exists z, nth_error l k = Some (Some z) /\ qi_real z /\ fst z = v.
  Proof.
    induction l as [|o r IH]; intros rs H; cbn [reals_of] in H.
    - injection H as <-. split; [reflexivity|]. intros k v Hk. destruct k; discriminate Hk.
    - destruct o as [z|]; [|discriminate H]. destruct (qi_is_realb z) eqn:R; [|discriminate H].
      destruct (reals_of r) as [t|] eqn:E; [|discriminate H]. injection H as <-.
      destruct (IH t eq_refl) as [L N]. split; [cbn; now rewrite L|].
      intros k v Hk. destruct k as [|k].
      + cbn in Hk. injection Hk as <-. exists z. split; [reflexivity|]. split; [now apply qi_is_realb_iff | reflexivity].
      + cbn in Hk. destruct (N k v Hk) as (z' & H1 & H2 & H3). exists z'. split; [exact H1|]. split; assumption.
  Qed.

  (* refine(max(a1 ... an)) = max of the kept arguments: same value *)
  Theorem max_rule_sound : forall nas keep vals M M',
    refine_max A nas = DList keep ->
    (forall a, In a nas -> pos_guard a = true) ->
    reals_of (map (fun a => vfin (denote rho a)) nas) = Some vals ->
    q_maxl vals = Some M -> q_maxl (map (val_at vals) keep) = Some M' -> M == M'.
  Proof.
    intros nas keep vals M M' H G RV HM HM'. rewrite refine_max_dec in H.
    destruct (reals_of_nth _ _ RV) as [L N]. rewrite map_length in L.
    apply (max_dec_sound (map (max_class A) nas) vals keep M M' H); auto.
    - rewrite map_length. exact L.
    - intros k c v Hc Hv. destruct (N k v Hv) as (z & Hz & R & <-).
      rewrite nth_error_map in Hc, Hz.
      destruct (nth_error nas k) as [a|] eqn:Ea; [|discriminate Hc]. cbn in Hc, Hz. injection Hc as <-. injection Hz as Hz.
      apply max_class_ok; auto. apply G. eapply nth_error_In; eauto.
  Qed.
End MaxRule.

(* ================================================================== Min: the mirror image *)
Lemma fold_min_lb : forall r a x, In x (a :: r) -> fold_left Qmin r a <= x.
Proof.
  induction r as [|b r IH]; intros a x H; cbn [fold_left].
  - destruct H as [<-|[]]. apply Qle_refl.
  - destruct H as [E|[E|H]].
    + rewrite <- E. apply Qle_trans with (Qmin a b); [apply IH; left; reflexivity | apply Q.le_min_l].
    + rewrite <- E. apply Qle_trans with (Qmin a b); [apply IH; left; reflexivity | apply Q.le_min_r].
    + apply IH. right. exact H.
Qed.
Lemma fold_min_in : forall r a, exists x, In x (a :: r) /\ fold_left Qmin r a == x.
Proof.
  induction r as [|b r IH]; intros a; cbn [fold_left].
  - exists a. split; [left; reflexivity | reflexivity].
  - destruct (IH (Qmin a b)) as (x & [<-|Hx] & E).
    + destruct (Q.min_dec a b) as [M|M].
      * exists a. split; [left; reflexivity|]. rewrite E. exact M.
      * exists b. split; [right; left; reflexivity|]. rewrite E. exact M.
    + exists x. split; [right; right; exact Hx | exact E].
Qed.
Lemma minl_lb : forall l M x, q_minl l = Some M -> In x l -> M <= x.
Proof. intros [|a r] M x H Hx; [contradiction|]. injection H as <-. now apply fold_min_lb. Qed.
Lemma minl_in : forall l M, q_minl l = Some M -> exists x, In x l /\ M == x.
Proof. intros [|a r] M H; [discriminate H|]. injection H as <-. apply fold_min_in. Qed.
Lemma minl_same : forall l1 l2 M1 M2, q_minl l1 = Some M1 -> q_minl l2 = Some M2 ->
  (forall x, In x l1 -> exists y, In y l2 /\ y <= x) ->
  (forall y, In y l2 -> exists x, In x l1 /\ x <= y) -> M1 == M2.
Proof.
  intros l1 l2 M1 M2 H1 H2 D1 D2. apply Qle_antisym.
  - destruct (minl_in l2 M2 H2) as (y & Hy & ->). destruct (D2 y Hy) as (x & Hx & L).
    apply Qle_trans with x; [now apply (minl_lb l1 M1 x) | exact L].
  - destruct (minl_in l1 M1 H1) as (x & Hx & ->). destruct (D1 x Hx) as (y & Hy & L).
    apply Qle_trans with y; [now apply (minl_lb l2 M2 y) | exact L].
Qed.

Definition min_dec (cls : list mclass) : dec :=
  let cl := index_from 0 cls in
  if has MExn cl then DExn else if has MUnsup cl then DUnsup
  else
    let keep := pick (fun c => mc_eqb c MNeg || mc_eqb c MNonpos || mc_eqb c MOther) cl in
    let nonnegative := pick (mc_eqb MNonneg) cl in
    let positive := pick (mc_eqb MPos) cl in
    let have_negative := has MNeg cl in
    let have_nonpositive := has MNonpos cl in
    let keep1 := if negb have_negative then keep ++ nonnegative else keep in
    let keep2 := if negb have_nonpositive && negb have_negative then keep1 ++ positive else keep1 in
    DList keep2.
Lemma refine_min_dec : forall A nas, refine_min A nas = min_dec (map (min_class A) nas).
Proof. reflexivity. Qed.

Theorem min_dec_sound : forall cls vals keep M M',
  min_dec cls = DList keep ->
  length cls = length vals ->
  (forall k c v, nth_error cls k = Some c -> nth_error vals k = Some v -> class_ok c v) ->
  q_minl vals = Some M -> q_minl (map (val_at vals) keep) = Some M' -> M == M'.
Proof.
  intros cls vals keep M M' H L OK HM HM'. unfold min_dec in H.
  set (cl := index_from 0 cls) in *.
  destruct (has MExn cl) eqn:HE; [discriminate H|]. destruct (has MUnsup cl) eqn:HU; [discriminate H|].
  injection H as H.
  set (base := pick (fun c0 => mc_eqb c0 MNeg || mc_eqb c0 MNonpos || mc_eqb c0 MOther) cl) in *.
  assert (CL : forall i c, In (i, c) cl <-> exists k, i = N.of_nat k /\ nth_error cls k = Some c).
  { intros i c. unfold cl. rewrite index_from_in. split; intros (k & E & Hk); exists k; split; auto; lia. }
  assert (VAL : forall k c, nth_error cls k = Some c ->
            exists v, nth_error vals k = Some v /\ val_at vals (N.of_nat k) = v /\ In v vals).
  { intros k c Hk. assert (LT : (k < length vals)%nat) by (rewrite <- L; apply nth_error_Some; congruence).
    destruct (nth_error vals k) as [v|] eqn:E; [|apply nth_error_None in E; lia].
    exists v. split; [reflexivity|]. split.
    - unfold val_at. rewrite Nat2N.id. now apply nth_error_nth.
    - eapply nth_error_In; eauto. }
  assert (KB : forall i, In i base -> In i keep).
  { intros i Hi. rewrite <- H. destruct (negb (has MNonpos cl) && negb (has MNeg cl)); destruct (negb (has MNeg cl));
      repeat (apply in_or_app; left); exact Hi. }
  assert (KNP : forall i, has MNeg cl = false -> In i (pick (mc_eqb MNonneg) cl) -> In i keep).
  { intros i HP Hi. rewrite <- H. rewrite HP. cbn [negb]. destruct (negb (has MNonpos cl) && true).
    - apply in_or_app. left. apply in_or_app. right. exact Hi.
    - apply in_or_app. right. exact Hi. }
  assert (KN : forall i, has MNeg cl = false -> has MNonpos cl = false -> In i (pick (mc_eqb MPos) cl) -> In i keep).
  { intros i HP HN Hi. rewrite <- H. rewrite HP, HN. cbn [negb andb]. apply in_or_app. right. exact Hi. }
  assert (SUB : forall i, In i keep -> exists c, In (i, c) cl).
  { intros i Hi. rewrite <- H in Hi.
    destruct (negb (has MNonpos cl) && negb (has MNeg cl)); destruct (negb (has MNeg cl));
      repeat (apply in_app_or in Hi; destruct Hi as [Hi|Hi]); apply pick_in in Hi; destruct Hi as (c & Hc & _); eauto. }
  apply (minl_same vals (map (val_at vals) keep) M M' HM HM').
  - intros x Hx. apply In_nth_error in Hx. destruct Hx as (k & Hk).
    assert (LT : (k < length cls)%nat) by (rewrite L; apply nth_error_Some; congruence).
    destruct (nth_error cls k) as [c|] eqn:Ec; [|apply nth_error_None in Ec; lia].
    pose proof (OK k c x Ec Hk) as Ck.
    assert (INk : In (N.of_nat k, c) cl) by (apply CL; eauto).
    assert (SELF : In (N.of_nat k) keep -> exists y, In y (map (val_at vals) keep) /\ y <= x).
    { intro IK. exists x. split; [|apply Qle_refl]. apply in_map_iff. exists (N.of_nat k). split; [|exact IK].
      destruct (VAL k c Ec) as (v & E1 & E2 & _). rewrite Hk in E1. injection E1 as <-. exact E2. }
    assert (OTHER : forall c', (c' = MNeg \/ c' = MNonpos) -> has c' cl = true -> 0 <= x ->
              exists y, In y (map (val_at vals) keep) /\ y <= x).
    { intros c' Hc' HH X0. apply has_iff in HH. destruct HH as (i & Hi). pose proof Hi as Hi2.
      apply CL in Hi2. destruct Hi2 as (k' & -> & Hk').
      destruct (VAL k' c' Hk') as (v & E1 & E2 & _). pose proof (OK k' c' v Hk' E1) as Cv.
      exists v. split.
      - apply in_map_iff. exists (N.of_nat k'). split; [exact E2|]. apply KB. unfold base. apply pick_in.
        exists c'. split; [exact Hi|]. destruct Hc' as [-> | ->]; reflexivity.
      - destruct Hc' as [-> | ->]; cbn in Cv; lra. }
    assert (BASE : mc_eqb c MNeg || mc_eqb c MNonpos || mc_eqb c MOther = true -> In (N.of_nat k) keep).
    { intro B. apply KB. unfold base. apply pick_in. exists c. split; assumption. }
    destruct c; cbn [class_ok] in Ck.
    + (* positive *)
      destruct (has MNeg cl) eqn:HP; [apply (OTHER MNeg); auto; lra|].
      destruct (has MNonpos cl) eqn:HN; [apply (OTHER MNonpos); auto; lra|].
      apply SELF. apply KN; auto. apply pick_in. exists MPos. split; [exact INk | reflexivity].
    + (* nonnegative *)
      destruct (has MNeg cl) eqn:HP; [apply (OTHER MNeg); auto|].
      apply SELF. apply KNP; auto. apply pick_in. exists MNonneg. split; [exact INk | reflexivity].
    + apply SELF. apply BASE. reflexivity.
    + apply SELF. apply BASE. reflexivity.
    + apply SELF. apply BASE. reflexivity.
    + exfalso. assert (has MExn cl = true) by (apply has_iff; eauto). congruence.
    + exfalso. assert (has MUnsup cl = true) by (apply has_iff; eauto). congruence.
  - intros y Hy. apply in_map_iff in Hy. destruct Hy as (i & <- & Hi).
    destruct (SUB i Hi) as (c & Hc). apply CL in Hc. destruct Hc as (k & -> & Hk).
    destruct (VAL k c Hk) as (v & _ & E2 & IV). exists v. split; [exact IV|]. rewrite E2. apply Qle_refl.
Qed.

Section MinRule.
  Variables (rho : valuation) (A : option assum).
  Hypothesis HO : oassum_ok rho A.

  Lemma min_class_ok : forall a z, pos_guard a = true -> vfin (denote rho a) = Some z -> qi_real z ->
    class_ok (min_class A a) (fst z).
  Proof.
    intros a z G V R. pose proof (vfin_denote _ _ _ V) as D. pose proof (finite_sign_guard rho a z V) as SG.
    unfold min_class.
    destruct (is_negative A a) as [t3| | |] eqn:E3; cbn [qc]; try exact I.
    destruct (t_true t3) eqn:T3.
    { destruct t3; try discriminate T3. destruct (negative_sound rho A HO a TT (VC z) E3 D) as [P _].
      destruct (P eq_refl) as [_ X]. exact X. }
    destruct (is_nonpositive A a) as [t4| | |] eqn:E4; cbn [qc]; try exact I.
    destruct (t_true t4) eqn:T4.
    { destruct t4; try discriminate T4. destruct (nonpositive_sound_guarded rho A HO a TT (VC z) SG E4 D) as [P _].
      destruct (P eq_refl) as [_ X]. exact X. }
    destruct (is_positive A a) as [t| | |] eqn:E1; cbn [qc]; try exact I.
    destruct (t_true t) eqn:T1.
    { destruct t; try discriminate T1. destruct (positive_sound_guarded rho A HO a TT (VC z) G E1 D) as [P _].
      destruct (P eq_refl) as [_ X]. exact X. }
    destruct (is_nonnegative A a) as [t2| | |] eqn:E2; cbn [qc]; try exact I.
    destruct (t_true t2) eqn:T2; [|exact I].
    destruct t2; try discriminate T2. destruct (nonnegative_sound_guarded rho A HO a TT (VC z) SG E2 D) as [P _].
    destruct (P eq_refl) as [_ X]. exact X.
  Qed.

  Theorem min_rule_sound : forall nas keep vals M M',
    refine_min A nas = DList keep ->
    (forall a, In a nas -> pos_guard a = true) ->
    reals_of (map (fun a => vfin (denote rho a)) nas) = Some vals ->
    q_minl vals = Some M -> q_minl (map (val_at vals) keep) = Some M' -> M == M'.
  Proof.
    intros nas keep vals M M' H G RV HM HM'. rewrite refine_min_dec in H.
    destruct (reals_of_nth _ _ RV) as [L N]. rewrite map_length in L.
    apply (min_dec_sound (map (min_class A) nas) vals keep M M' H); auto.
    - rewrite map_length. exact L.
    - intros k c v Hc Hv. destruct (N k v Hv) as (z & Hz & R & <-).
      rewrite nth_error_map in Hc, Hz.
      destruct (nth_error nas k) as [a|] eqn:Ea; [|discriminate Hc]. cbn in Hc, Hz. injection Hc as <-. injection Hz as Hz.
      apply min_class_ok; auto. apply G. eapply nth_error_In; eauto.
  Qed.
End MinRule.
