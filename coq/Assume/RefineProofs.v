(* C35 -- value preservation of the rules of RefineVisitor, rule by rule: when the model of a rule
   decides for a candidate, the candidate has the value of the original node at every valuation
   that satisfies the assumptions.  The candidates are built by library constructors (neg, abs,
   ceiling ...); the theorems are stated on VALUES: e.g. for Abs/DNeg "the value of abs(a) equals
   minus the value of a".  They use the query soundness theorems of C34 (AssumeProofs*.v), so an
   unsound query would show up here as an unprovable rule.
   Pow-of-Pow: RefinePow.v; Max/Min: RefineMaxMin.v.  Log and simplify_pow have no theorem (values outside
   Q(i)): correspondence and oracle only. *)
From SE Require Import Assume.AssumeSem Num.NumQi Assume.RefineModel
  Assume.AssumeProofs Assume.AssumeProofs2 Assume.AssumeProofs3 Assume.C34Theorems.
From Coq Require Import QArith Qabs Qround List ZArith Bool Lia Lqa.
Import ListNotations.
Local Open Scope Q_scope.

Lemma finite_sign_guard : forall rho e z, vfin (denote rho e) = Some z -> sign_guard e = true.
Proof.
  intros rho e z V. destruct e as [n| | | | | | | | | | | | | | | | | ]; try reflexivity.
  destruct n as [k|p d|rn rd imn imd| | |dir|]; try reflexivity; cbn in V.
  - destruct (0 <? dir)%Z; [discriminate V|]. destruct (dir <? 0)%Z; discriminate V.
  - discriminate V.
Qed.

Lemma qb_true : forall r k d, qb r k = d -> d <> DExn -> d <> DUnsup -> exists t, r = QT t /\ k (t_true t) = d.
Proof. intros r k d H N1 N2. destruct r; cbn in H; try congruence. eauto. Qed.

Section Rules.
  Variables (rho : valuation) (A : option assum).
  Hypothesis HO : oassum_ok rho A.

  (* ---------------------------------------------------------------- Abs *)
  Theorem abs_rule_id : forall na z w, refine_abs A na = DId ->
    vfin (denote rho na) = Some z -> qi_abs z = Some w -> qi_eq w z.
  Proof.
    intros na z w H V QA. unfold refine_abs in H.
    destruct (is_nonnegative A na) as [t| | |] eqn:E; cbn [qb] in H; try discriminate H.
    destruct (t_true t) eqn:T.
    - destruct t; try discriminate T.
      destruct (nonnegative_sound_guarded rho A HO na TT (VC z) (finite_sign_guard rho na z V) E (vfin_denote _ _ _ V)) as [NN _].
      destruct (NN eq_refl) as [R P]. destruct z as [a b]. unfold qi_real in R. cbn [fst snd] in *.
      unfold qi_abs in QA. assert (RB : qi_is_realb (a, b) = true) by (apply qi_is_realb_iff; exact R).
      rewrite RB in QA. injection QA as <-. split; cbn [fst snd]; [now apply Qabs_pos | now symmetry].
    - destruct (is_nonpositive A na) as [u| | |]; cbn [qb] in H; try discriminate H.
      destruct (t_true u); [discriminate H|]. destruct na; try discriminate H. destruct (_ =? _)%N; discriminate H.
  Qed.

  Theorem abs_rule_neg : forall na z w, refine_abs A na = DNeg ->
    vfin (denote rho na) = Some z -> qi_abs z = Some w -> qi_eq w (qi_opp z).
  Proof.
    intros na z w H V QA. unfold refine_abs in H.
    destruct (is_nonnegative A na) as [t| | |] eqn:E; cbn [qb] in H; try discriminate H.
    destruct (t_true t); [discriminate H|].
    destruct (is_nonpositive A na) as [u| | |] eqn:E2; cbn [qb] in H; try discriminate H.
    destruct (t_true u) eqn:T.
    - destruct u; try discriminate T.
      destruct (nonpositive_sound_guarded rho A HO na TT (VC z) (finite_sign_guard rho na z V) E2 (vfin_denote _ _ _ V)) as [NN _].
      destruct (NN eq_refl) as [R P]. destruct z as [a b]. unfold qi_real in R. cbn [fst snd] in *.
      unfold qi_abs in QA. assert (RB : qi_is_realb (a, b) = true) by (apply qi_is_realb_iff; exact R).
      rewrite RB in QA. injection QA as <-. unfold qi_opp. split; cbn [fst snd]; [now apply Qabs_neg | lra].
    - destruct na; try discriminate H. destruct (_ =? _)%N; discriminate H.
  Qed.

  Lemma qsqrt_proper : forall p q, p == q -> qsqrt p = qsqrt q.
  Proof. intros p q E. unfold qsqrt. rewrite (Qred_complete p q E). reflexivity. Qed.

  (* abs(conjugate(u)) -> abs(u) *)
  Theorem abs_rule_conj : forall na inner zi w1 w2, refine_abs A na = DConj -> na = EF1 TC_Conjugate inner ->
    vfin (denote rho inner) = Some zi -> qi_abs (qi_conj zi) = Some w1 -> qi_abs zi = Some w2 -> qi_eq w1 w2.
  Proof.
    intros na inner [a b] w1 w2 _ _ _ Q1 Q2. unfold qi_abs, qi_conj, qi_is_realb in *. cbn [fst snd] in *.
    assert (EQ : q_is_zero (- b) = q_is_zero b).
    { destruct (q_is_zero b) eqn:E.
      - apply q_is_zero_iff in E. apply q_is_zero_iff. lra.
      - destruct (q_is_zero (- b)) eqn:E2; [|reflexivity]. apply q_is_zero_iff in E2.
        assert (q_is_zero b = true) by (apply q_is_zero_iff; lra). congruence. }
    rewrite EQ in Q1. destruct (q_is_zero b).
    - injection Q1 as <-. injection Q2 as <-. reflexivity.
    - assert (N : qi_norm2 (a, - b) == qi_norm2 (a, b)) by (unfold qi_norm2; cbn [fst snd]; ring).
      rewrite (qsqrt_proper _ _ N) in Q1. destruct (qsqrt (qi_norm2 (a, b))); [|discriminate Q1].
      injection Q1 as <-. injection Q2 as <-. reflexivity.
  Qed.

  (* ---------------------------------------------------------------- Sign *)
  Lemma q_sgn_pos : forall a, 0 < a -> q_sgn a == 1.
  Proof. intros [n d] P. unfold Qlt in P. cbn in P. unfold q_sgn. cbn [Qnum]. destruct n; cbn in *; try lia. reflexivity. Qed.
  Lemma q_sgn_neg : forall a, a < 0 -> q_sgn a == -1.
  Proof. intros [n d] P. unfold Qlt in P. cbn in P. unfold q_sgn. cbn [Qnum]. destruct n; cbn in *; try lia. reflexivity. Qed.
  Lemma q_sgn_zero : forall a, a == 0 -> q_sgn a == 0.
  Proof. intros [n d] P. unfold Qeq in P. cbn in P. unfold q_sgn. cbn [Qnum]. destruct n; cbn in *; try lia. reflexivity. Qed.

  Theorem sign_rule_one : forall na z w, refine_sign A na = DOne -> pos_guard na = true ->
    vfin (denote rho na) = Some z -> qi_sign z = Some w -> qi_eq w (inject_Z 1, 0).
  Proof.
    intros na z w H G V QS. unfold refine_sign in H.
    destruct (is_positive A na) as [t| | |] eqn:E; cbn [qb] in H; try discriminate H.
    destruct (t_true t) eqn:T.
    - destruct t; try discriminate T.
      destruct (positive_sound_guarded rho A HO na TT (VC z) G E (vfin_denote _ _ _ V)) as [PP _].
      destruct (PP eq_refl) as [R P]. destruct z as [a b]. unfold qi_real in R. cbn [fst snd] in *.
      unfold qi_sign in QS. assert (RB : qi_is_realb (a, b) = true) by (apply qi_is_realb_iff; exact R).
      rewrite RB in QS. injection QS as <-. split; cbn [fst snd]; [now apply q_sgn_pos | reflexivity].
    - destruct (is_negative A na) as [u| | |]; cbn [qb] in H; try discriminate H.
      destruct (t_true u); [discriminate H|].
      destruct (is_zero A na) as [x| | |]; cbn [qb] in H; try discriminate H. destruct (t_true x); discriminate H.
  Qed.

  Theorem sign_rule_minus_one : forall na z w, refine_sign A na = DMone ->
    vfin (denote rho na) = Some z -> qi_sign z = Some w -> qi_eq w (inject_Z (-1), 0).
  Proof.
    intros na z w H V QS. unfold refine_sign in H.
    destruct (is_positive A na) as [t| | |] eqn:E; cbn [qb] in H; try discriminate H.
    destruct (t_true t); [discriminate H|].
    destruct (is_negative A na) as [u| | |] eqn:E2; cbn [qb] in H; try discriminate H.
    destruct (t_true u) eqn:T.
    - destruct u; try discriminate T.
      destruct (negative_sound rho A HO na TT (VC z) E2 (vfin_denote _ _ _ V)) as [PP _].
      destruct (PP eq_refl) as [R P]. destruct z as [a b]. unfold qi_real in R. cbn [fst snd] in *.
      unfold qi_sign in QS. assert (RB : qi_is_realb (a, b) = true) by (apply qi_is_realb_iff; exact R).
      rewrite RB in QS. injection QS as <-. split; cbn [fst snd]; [now apply q_sgn_neg | reflexivity].
    - destruct (is_zero A na) as [x| | |]; cbn [qb] in H; try discriminate H. destruct (t_true x); discriminate H.
  Qed.

  Theorem sign_rule_zero : forall na z w, refine_sign A na = DZero ->
    vfin (denote rho na) = Some z -> qi_sign z = Some w -> qi_eq w qi_zero.
  Proof.
    intros na z w H V QS. unfold refine_sign in H.
    destruct (is_positive A na) as [t| | |] eqn:E; cbn [qb] in H; try discriminate H.
    destruct (t_true t); [discriminate H|].
    destruct (is_negative A na) as [u| | |] eqn:E2; cbn [qb] in H; try discriminate H.
    destruct (t_true u); [discriminate H|].
    destruct (is_zero A na) as [x| | |] eqn:E3; cbn [qb] in H; try discriminate H.
    destruct (t_true x) eqn:T; [|discriminate H]. destruct x; try discriminate T.
    destruct (zero_sound rho A HO na TT (VC z) E3 (vfin_denote _ _ _ V)) as [ZZ _].
    pose proof (qi_sign_zero_iff z w QS) as K. apply K. now apply ZZ.
  Qed.

  (* ---------------------------------------------------------------- Floor, Ceiling *)
  Lemma floor_of_int : forall a k, a == inject_Z k -> inject_Z (Qfloor a) == a.
  Proof. intros a k E. rewrite (Qfloor_comp a (inject_Z k) E), Qfloor_Z. now symmetry. Qed.
  Lemma ceiling_of_int : forall a k, a == inject_Z k -> inject_Z (Qceiling a) == a.
  Proof. intros a k E. rewrite (Qceiling_comp a (inject_Z k) E), Qceiling_Z. now symmetry. Qed.

  Theorem floor_rule_id : forall na z w, refine_floor A na true = DId \/ refine_floor A na false = DId ->
    keys_ok na = true -> vfin (denote rho na) = Some z -> qi_floor z = Some w -> qi_eq w z.
  Proof.
    intros na z w H K V QF.
    assert (I : is_integer A na = QT TT).
    { unfold refine_floor in H. destruct (is_integer A na) as [t| | |]; cbn [qb] in H; try (destruct H; discriminate).
      destruct t; cbn [t_true] in H; try (destruct H; discriminate). reflexivity. }
    destruct (integer_sound rho A HO na TT (VC z) K I (vfin_denote _ _ _ V)) as [II _].
    destruct (II eq_refl) as [R [k Kk]]. destruct z as [a b]. unfold qi_real in R. cbn [fst snd] in *.
    unfold qi_floor in QF. assert (RB : qi_is_realb (a, b) = true) by (apply qi_is_realb_iff; exact R).
    rewrite RB in QF. injection QF as <-. split; cbn [fst snd]; [now apply (floor_of_int a k) | now symmetry].
  Qed.
  Theorem ceiling_rule_id : forall na z w, refine_ceiling A na true = DId \/ refine_ceiling A na false = DId ->
    keys_ok na = true -> vfin (denote rho na) = Some z -> qi_ceiling z = Some w -> qi_eq w z.
  Proof.
    intros na z w H K V QF.
    assert (I : is_integer A na = QT TT).
    { unfold refine_ceiling in H. destruct (is_integer A na) as [t| | |]; cbn [qb] in H; try (destruct H; discriminate).
      destruct t; cbn [t_true] in H; try (destruct H; discriminate). reflexivity. }
    destruct (integer_sound rho A HO na TT (VC z) K I (vfin_denote _ _ _ V)) as [II _].
    destruct (II eq_refl) as [R [k Kk]]. destruct z as [a b]. unfold qi_real in R. cbn [fst snd] in *.
    unfold qi_ceiling in QF. assert (RB : qi_is_realb (a, b) = true) by (apply qi_is_realb_iff; exact R).
    rewrite RB in QF. injection QF as <-. split; cbn [fst snd]; [now apply (ceiling_of_int a k) | now symmetry].
  Qed.

  (* floor(x) -> -ceiling(-x) and ceiling(x) -> -floor(-x): identities, whatever the queries say *)
  Theorem floor_rule_flip : forall z w c, qi_floor z = Some w -> qi_ceiling (qi_opp z) = Some c -> qi_eq w (qi_opp c).
  Proof.
    intros [a b] w c QF QC. unfold qi_floor, qi_ceiling, qi_opp, qi_is_realb in *. cbn [fst snd] in *.
    destruct (q_is_zero b) eqn:B; [|discriminate QF].
    destruct (q_is_zero (- b)); [|discriminate QC]. injection QF as <-. injection QC as <-.
    split; cbn [fst snd]; [|reflexivity].
    unfold Qceiling. rewrite inject_Z_opp, Qopp_involutive.
    rewrite (Qfloor_comp (- - a) a (Qopp_involutive a)). reflexivity.
  Qed.
  Theorem ceiling_rule_flip : forall z w c, qi_ceiling z = Some w -> qi_floor (qi_opp z) = Some c -> qi_eq w (qi_opp c).
  Proof.
    intros [a b] w c QC QF. unfold qi_floor, qi_ceiling, qi_opp, qi_is_realb in *. cbn [fst snd] in *.
    destruct (q_is_zero b) eqn:B; [|discriminate QC].
    destruct (q_is_zero (- b)); [|discriminate QF]. injection QF as <-. injection QC as <-.
    split; cbn [fst snd]; [|reflexivity].
    unfold Qceiling. rewrite inject_Z_opp. reflexivity.
  Qed.

  (* ---------------------------------------------------------------- Conjugate *)
  Theorem conjugate_rule_id : forall na z, refine_conjugate A na = DId -> keys_ok na = true ->
    vfin (denote rho na) = Some z -> qi_eq (qi_conj z) z.
  Proof.
    intros na z H K V. unfold refine_conjugate in H.
    destruct (is_real A na) as [t| | |] eqn:E; cbn [qb] in H; try discriminate H.
    destruct t; cbn [t_true] in H; try discriminate H.
    assert (R : v_real (VC z)).
    { apply (real_sound_guarded rho A HO na (VC z) K E (vfin_denote _ _ _ V)). discriminate. }
    destruct z as [a b]. cbn [v_real] in R. unfold qi_real in R. unfold qi_conj. cbn [fst snd] in *.
    split; cbn [fst snd]; [reflexivity | lra].
  Qed.
End Rules.

(* ------------------------------------------------------------------ Pow of Pow *)
(* (x^3)^(1/2) with x real used to be rewritten to abs(x)^(3/2) (at x = -1: I versus 1).  After the repair
   (commit ef8465f) the abs branch needs an even integer inner exponent: the rule keeps this node. *)
Definition e_sqrt_x3 : expr := EPow (EPow sx (ENum (NInt 3))) (ENum (NRat 1 2)).
Definition e_abs_x_32 : expr := EPow (EF1 TC_Abs sx) (ENum (NRat 3 2)).
Example pow_rule_odd_inner_exponent_kept : exists st A rho,
  assum_of st = Ok A /\ osat rho st /\
  refine_pow A (EPow sx (ENum (NInt 3))) (ENum (NRat 1 2)) = DKeep /\
  refine_pow A (EPow sx (ENum (NInt 2))) (ENum (NRat 1 2)) = DAbs /\
  denote rho e_sqrt_x3 = Some (VC (0, 1)) /\ denote rho e_abs_x_32 = Some (VC (1, 0)).
Proof.
  eexists st_real_x, _, (rho_const (-1 # 1, 0)). split; [vm_compute; reflexivity|].
  split; [exact (sat_real_x (-1 # 1))|]. repeat split; vm_compute; reflexivity.
Qed.

(* instances of the rule: (x^2)^(1/2) -> abs(x) at x = -3, (x^2)^(3/2) at x = -2 *)
Example pow_rule_abs_even_instances :
  denote (rho_const (-3 # 1, 0)) (EPow (EPow sx (ENum (NInt 2))) (ENum (NRat 1 2))) = Some (VC (3, 0)) /\
  denote (rho_const (-2 # 1, 0)) (EPow (EPow sx (ENum (NInt 2))) (ENum (NRat 3 2))) = Some (VC (8, 0)).
Proof. split; vm_compute; reflexivity. Qed.
