(* C34/C35 -- specification: the value of an expression at an assignment of Gaussian rationals to
   the symbols, the meaning of the assumption statements, and the properties the queries talk
   about.  Schoolbook definitions, computable (so that witnesses are checked by vm_compute),
   axiom-free (Q(i) as pairs of Q, Num/NumSpec.v).

   Fragment with a value ([denote] = Some _): exact numbers (Integer, Rational, Complex), the
   symbolic infinities and NaN as literals, symbols, Add, Mul, Pow with an integer exponent or a
   half-integer exponent on a real base that is plus/minus a rational square (principal value),
   abs, sign, conjugate, floor, ceiling, max, min.  Arithmetic on infinities/NaN, floating point
   numbers, the constants pi, E ... and the elementary functions have no value here ([None]):
   theorems say nothing about expressions that contain them.
   A power 0^negative standing alone has the value zoo (what the library's own arithmetic gives
   for 1/0); inside a product it makes the product undefined. *)
From SE Require Export Assume.AssumeModel Num.NumSpec.
From Coq Require Import QArith Qabs Qround Qminmax List ZArith Bool.
Import ListNotations.
Local Open Scope Q_scope.

Inductive val := VC (z : qi) | VPInf | VNInf | VZoo | VNaN.

Definition valuation := list N -> qi.

(* ------------------------------------------------------------------ numbers *)
(* number literals in canonical form only: a Rational is in lowest terms with denominator > 1, a
   Complex has a nonzero imaginary part (other literals do not occur in dumps; they have no value) *)
Definition rat_canon (p : Z) (d : positive) : bool := ((Z.gcd p (Zpos d) =? 1) && (1 <? Zpos d))%Z.
Definition num_val (n : number) : option val :=
  match n with
  | NInt z => Some (VC (inject_Z z, 0))
  | NRat p d => if rat_canon p d then Some (VC (Qmake p d, 0)) else None
  | NCplx rn rd imn imd => if (imn =? 0)%Z then None else Some (VC (Qmake rn rd, Qmake imn imd))
  | NInf d => Some (if (0 <? d)%Z then VPInf else if (d <? 0)%Z then VNInf else VZoo)
  | NNaN => Some VNaN
  | NDbl _ | NCDbl _ _ => None
  end.
Definition vfin (o : option val) : option qi := match o with Some (VC z) => Some z | _ => None end.

(* ------------------------------------------------------------------ helpers on Q *)
Definition q_as_int (x : Q) : option Z :=
  let r := Qred x in if Pos.eqb (Qden r) 1 then Some (Qnum r) else None.
Definition q_is_zero (x : Q) : bool := Qeq_bool x 0.
Definition qi_is_zerob (z : qi) : bool := q_is_zero (fst z) && q_is_zero (snd z).
Definition qi_is_realb (z : qi) : bool := q_is_zero (snd z).

(* exact square root of a rational: Some s with s >= 0 and s*s == q, when numerator and denominator of the
   reduced fraction are perfect squares *)
Definition qsqrt (q : Q) : option Q :=
  let r := Qred q in
  let n := Qnum r in
  let d := Zpos (Qden r) in
  if (0 <=? n)%Z then
    let sn := Z.sqrt n in
    let sd := Z.sqrt d in
    if ((sn * sn =? n) && (sd * sd =? d))%Z then Some (Qmake sn (Z.to_pos sd)) else None
  else None.

Definition q_sgn (x : Q) : Q := inject_Z (Z.sgn (Qnum x)).

(* |z| *)
Definition qi_abs (z : qi) : option qi :=
  if qi_is_realb z then Some (Qabs (fst z), 0)
  else match qsqrt (qi_norm2 z) with Some r => Some (r, 0) | None => None end.
(* sign(z) = z/|z|, sign(0) = 0 *)
Definition qi_sign (z : qi) : option qi :=
  if qi_is_realb z then Some (q_sgn (fst z), 0)
  else match qsqrt (qi_norm2 z) with Some r => Some (qi_div z (r, 0)) | None => None end.
Definition qi_conj (z : qi) : qi := (fst z, - snd z).
Definition qi_floor (z : qi) : option qi :=
  if qi_is_realb z then Some (inject_Z (Qfloor (fst z)), 0) else None.
Definition qi_ceiling (z : qi) : option qi :=
  if qi_is_realb z then Some (inject_Z (Qceiling (fst z)), 0) else None.

(* principal square root of a real number that is plus/minus a rational square *)
Definition psqrt (b : qi) : option qi :=
  if qi_is_realb b then
    match qsqrt (Qabs (fst b)) with
    | Some s => Some (if Qle_bool 0 (fst b) then (s, 0) else (0, s))
    | None => None
    end
  else None.

Inductive powres := PFin (z : qi) | PZoo | PUndef.
(* b ^ x *)
Definition qi_pow (b x : qi) : powres :=
  if qi_is_realb x then
    match q_as_int (fst x) with
    | Some n => if (n <? 0)%Z && qi_is_zerob b then PZoo else PFin (qi_powz b n)
    | None =>
        match q_as_int (2 * fst x) with
        | Some m =>
            match psqrt b with
            | Some s => if (m <? 0)%Z && qi_is_zerob b then PZoo else PFin (qi_powz s m)
            | None => PUndef
            end
        | None => PUndef
        end
    end
  else PUndef.
Definition pow_fin (b x : qi) : option qi := match qi_pow b x with PFin z => Some z | _ => None end.
Definition pow_val (b x : qi) : option val :=
  match qi_pow b x with PFin z => Some (VC z) | PZoo => Some VZoo | PUndef => None end.

(* real parts of a list of finite real values *)
Fixpoint reals_of (l : list (option qi)) : option (list Q) :=
  match l with
  | [] => Some []
  | Some z :: r => if qi_is_realb z then match reals_of r with Some t => Some (fst z :: t) | None => None end else None
  | None :: _ => None
  end.
Definition q_maxl (l : list Q) : option Q :=
  match l with [] => None | a :: r => Some (fold_left Qmax r a) end.
Definition q_minl (l : list Q) : option Q :=
  match l with [] => None | a :: r => Some (fold_left Qmin r a) end.

(* ------------------------------------------------------------------ the value of an expression *)
Definition add_step (ok : option qi) (ov : option qi) (acc : option qi) : option qi :=
  match acc, ov, ok with
  | Some a, Some v, Some k => Some (qi_add (qi_mul v k) a)
  | _, _, _ => None
  end.
Definition mul_step (ob : option qi) (ox : option qi) (acc : option qi) : option qi :=
  match acc, ob, ox with
  | Some a, Some b, Some x => match pow_fin b x with Some f => Some (qi_mul f a) | None => None end
  | _, _, _ => None
  end.
Definition opt_vc (o : option qi) : option val := match o with Some z => Some (VC z) | None => None end.

Section Denote.
  Variable rho : valuation.

  Fixpoint denote (e : expr) : option val :=
    match e with
    | ENum n => num_val n
    | ESym nm => Some (VC (rho nm))
    | EAdd c d =>
        opt_vc (fold_right (fun p acc => add_step (vfin (denote (fst p))) (vfin (num_val (snd p))) acc)
                           (vfin (num_val c)) d)
    | EMul c d =>
        opt_vc (fold_right (fun p acc => mul_step (vfin (denote (fst p))) (vfin (denote (snd p))) acc)
                           (vfin (num_val c)) d)
    | EPow b x =>
        match vfin (denote b), vfin (denote x) with
        | Some vb, Some vx => pow_val vb vx
        | _, _ => None
        end
    | EF1 c a =>
        match vfin (denote a) with
        | Some z =>
            if (c =? TC_Abs)%N then opt_vc (qi_abs z)
            else if (c =? TC_Sign)%N then opt_vc (qi_sign z)
            else if (c =? TC_Conjugate)%N then Some (VC (qi_conj z))
            else if (c =? TC_Floor)%N then opt_vc (qi_floor z)
            else if (c =? TC_Ceiling)%N then opt_vc (qi_ceiling z)
            else None
        | None => None
        end
    | EFN c l =>
        if (c =? TC_Max)%N then
          match reals_of (map (fun a => vfin (denote a)) l) with
          | Some rs => match q_maxl rs with Some m => Some (VC (m, 0)) | None => None end
          | None => None
          end
        else if (c =? TC_Min)%N then
          match reals_of (map (fun a => vfin (denote a)) l) with
          | Some rs => match q_minl rs with Some m => Some (VC (m, 0)) | None => None end
          | None => None
          end
        else None
    | _ => None
    end.

  Definition dfin (e : expr) : option qi := vfin (denote e).
End Denote.

(* ------------------------------------------------------------------ properties of values *)
Definition qi_real (z : qi) : Prop := snd z == 0.
Definition q_isint (x : Q) : Prop := exists k : Z, x == inject_Z k.

Definition v_zero (v : val) : Prop := match v with VC z => qi_eq z qi_zero | _ => False end.
Definition v_positive (v : val) : Prop :=
  match v with VC z => qi_real z /\ 0 < fst z | VPInf => True | _ => False end.
Definition v_negative (v : val) : Prop :=
  match v with VC z => qi_real z /\ fst z < 0 | VNInf => True | _ => False end.
Definition v_nonnegative (v : val) : Prop :=
  match v with VC z => qi_real z /\ 0 <= fst z | VPInf => True | _ => False end.
Definition v_nonpositive (v : val) : Prop :=
  match v with VC z => qi_real z /\ fst z <= 0 | VNInf => True | _ => False end.
Definition v_real (v : val) : Prop := match v with VC z => qi_real z | _ => False end.
Definition v_complex (v : val) : Prop := match v with VC _ => True | _ => False end.
Definition v_integer (v : val) : Prop := match v with VC z => qi_real z /\ q_isint (fst z) | _ => False end.
(* in Q(i) every real value is rational *)
Definition v_rational (v : val) : Prop := v_real v.
Definition v_irrational (v : val) : Prop := False.
Definition v_finite (v : val) : Prop := match v with VC _ => True | _ => False end.
Definition v_infinite (v : val) : Prop := match v with VPInf | VNInf | VZoo => True | _ => False end.
Definition v_even (v : val) : Prop := match v with VC z => qi_real z /\ exists k : Z, fst z == inject_Z (2 * k) | _ => False end.
Definition v_odd (v : val) : Prop := match v with VC z => qi_real z /\ exists k : Z, fst z == inject_Z (2 * k + 1) | _ => False end.

Definition veq (a b : val) : Prop :=
  match a, b with
  | VC x, VC y => qi_eq x y
  | VPInf, VPInf | VNInf, VNInf | VZoo, VZoo | VNaN, VNaN => True
  | _, _ => False
  end.

(* ------------------------------------------------------------------ meaning of the statements *)
(* exact real bound of a relational statement *)
Definition num_q (n : number) : option Q :=
  match n with
  | NInt z => Some (inject_Z z)
  | NRat p d => if rat_canon p d then Some (Qmake p d) else None
  | _ => None
  end.
Definition num_qi (n : number) : option qi := vfin (num_val n).

(* The statements the Assumptions constructor understands, for a symbol and a numeric bound.
   A statement of another form is ignored by the constructor; it is given the meaning True here
   (it adds no fact).  A relational statement whose bound is not an exact rational (double,
   complex, infinity) has no meaning here (False: such statement sets are outside the theorems). *)
Definition stmt_holds (rho : valuation) (s : expr) : Prop :=
  match s with
  | ELex c (ESym nm) (EAtom t) =>
      if (c =? TC_Contains)%N then
        if (t =? TC_Complexes)%N then True
        else if (t =? TC_Reals)%N then qi_real (rho nm)
        else if (t =? TC_Rationals)%N then qi_real (rho nm)
        else if (t =? TC_Integers)%N then qi_real (rho nm) /\ q_isint (fst (rho nm))
        else True
      else True
  | EF2 c a1 a2 =>
      if (c =? TC_LessThan)%N then
        match sym_name a2, as_num a1, sym_name a1, as_num a2 with
        | Some nm, Some n, _, _ => match num_q n with Some q => qi_real (rho nm) /\ q <= fst (rho nm) | None => False end
        | _, _, Some nm, Some n => match num_q n with Some q => qi_real (rho nm) /\ fst (rho nm) <= q | None => False end
        | _, _, _, _ => True
        end
      else if (c =? TC_StrictLessThan)%N then
        match sym_name a2, as_num a1, sym_name a1, as_num a2 with
        | Some nm, Some n, _, _ => match num_q n with Some q => qi_real (rho nm) /\ q < fst (rho nm) | None => False end
        | _, _, Some nm, Some n => match num_q n with Some q => qi_real (rho nm) /\ fst (rho nm) < q | None => False end
        | _, _, _, _ => True
        end
      else if (c =? TC_Equality)%N then
        match as_num a1, sym_name a2 with
        | Some n, Some nm => match num_qi n with Some z => qi_eq (rho nm) z | None => False end
        | _, _ => True
        end
      else if (c =? TC_Unequality)%N then
        match as_num a1, sym_name a2 with
        | Some n, Some nm => match num_qi n with Some z => ~ qi_eq (rho nm) z | None => False end
        | _, _ => True
        end
      else True
  | _ => True
  end.
Definition sat (rho : valuation) (l : list expr) : Prop := Forall (stmt_holds rho) l.

(* what the internal form of the assumptions promises about a valuation *)
Definition map_ok (rho : valuation) (m : list (list N * bool)) (P : val -> Prop) : Prop :=
  forall x, (from_map m x = TT -> P (VC (rho x))) /\ (from_map m x = TF -> ~ P (VC (rho x))).
Definition set_ok (rho : valuation) (l : list (list N)) (P : val -> Prop) : Prop :=
  forall x, mem_name x l = true -> P (VC (rho x)).
Record assum_ok (rho : valuation) (a : assum) : Prop := mkAssumOk {
  ok_complex : set_ok rho (a_complex a) v_complex;
  ok_real : set_ok rho (a_real a) v_real;
  ok_rational : set_ok rho (a_rational a) v_rational;
  ok_integer : set_ok rho (a_integer a) v_integer;
  ok_positive : map_ok rho (a_positive a) v_positive;
  ok_nonnegative : map_ok rho (a_nonnegative a) v_nonnegative;
  ok_negative : map_ok rho (a_negative a) v_negative;
  ok_nonpositive : map_ok rho (a_nonpositive a) v_nonpositive;
  ok_nonzero : map_ok rho (a_nonzero a) (fun v => ~ v_zero v);
  ok_zero : map_ok rho (a_zero a) v_zero }.
Definition oassum_ok (rho : valuation) (A : option assum) : Prop :=
  match A with Some a => assum_ok rho a | None => True end.
