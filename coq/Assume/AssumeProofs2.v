(* C34 -- part 2: the value of the arguments built by Add::get_args / Mul::get_args, and the
   soundness of IntegerVisitor, RealVisitor, ComplexVisitor, RationalVisitor, FiniteVisitor. *)
From SE Require Import Assume.AssumeSem Num.NumQi Assume.AssumeProofs.
From Coq Require Import QArith Qabs Qround List ZArith Bool Lia Lqa Setoid Morphisms.
Import ListNotations.
Local Open Scope Q_scope.

(* sets and booleans have no value *)
Lemma setbool_no_value : forall rho e, is_setbool e = true -> denote rho e = None.
Proof.
  intros rho e H. destruct e; try discriminate H; try reflexivity.
  - cbn in H. apply N.eqb_eq in H. subst code. cbn [denote]. destruct (vfin (denote rho e)); reflexivity.
  - unfold is_setbool, is_set, is_boolean in H. cbn [is_relational] in H.
    repeat (apply orb_prop in H; destruct H as [H|H]); try discriminate H; apply N.eqb_eq in H; subst code; reflexivity.
Qed.
Ltac default_case H D :=
  let SB := fresh "SB" in
  destruct (is_setbool _) eqn:SB;
  [ first [ discriminate H | rewrite (setbool_no_value _ _ SB) in D; discriminate D ]
  | injection H as <-; split; discriminate ].

(* ------------------------------------------------------------------ products *)
Definition fac_sem (rho : valuation) (p : expr * expr) (acc : option qi) : option qi :=
  mul_step (vfin (denote rho (fst p))) (vfin (denote rho (snd p))) acc.

Lemma denote_EAdd : forall rho c d,
  denote rho (EAdd c d) = opt_vc (fold_right (term_sem rho) (vfin (num_val c)) d).
Proof. reflexivity. Qed.
Lemma denote_EMul : forall rho c d,
  denote rho (EMul c d) = opt_vc (fold_right (fac_sem rho) (vfin (num_val c)) d).
Proof. reflexivity. Qed.

Lemma fold_fac_none : forall rho d, fold_right (fac_sem rho) None d = None.
Proof. induction d as [|p r IH]; cbn [fold_right]; [reflexivity|]. rewrite IH. reflexivity. Qed.

Lemma fac_step : forall rho p r init z,
  fold_right (fac_sem rho) init (p :: r) = Some z ->
  exists bz xz f s, vfin (denote rho (fst p)) = Some bz /\ vfin (denote rho (snd p)) = Some xz /\
    pow_fin bz xz = Some f /\ fold_right (fac_sem rho) init r = Some s /\ z = qi_mul f s.
Proof.
  intros rho p r init z F. cbn [fold_right] in F. unfold fac_sem at 1, mul_step in F.
  destruct (fold_right (fac_sem rho) init r) as [s|]; [|discriminate F].
  destruct (vfin (denote rho (fst p))) as [bz|]; [|discriminate F].
  destruct (vfin (denote rho (snd p))) as [xz|]; [|discriminate F].
  destruct (pow_fin bz xz) as [f|] eqn:PF; [|discriminate F]. injection F as <-. eauto 10.
Qed.
Lemma term_step : forall rho p r init z,
  fold_right (term_sem rho) init (p :: r) = Some z ->
  exists kz vz s, vfin (denote rho (fst p)) = Some kz /\ vfin (num_val (snd p)) = Some vz /\
    fold_right (term_sem rho) init r = Some s /\ z = qi_add (qi_mul vz kz) s.
Proof.
  intros rho p r init z F. cbn [fold_right] in F. unfold term_sem at 1, add_step in F.
  destruct (fold_right (term_sem rho) init r) as [s|]; [|discriminate F].
  destruct (vfin (num_val (snd p))) as [vz|]; [|discriminate F].
  destruct (vfin (denote rho (fst p))) as [kz|]; [|discriminate F]. injection F as <-. eauto 8.
Qed.

(* the same dictionary under another coefficient: the product scales *)
Lemma fold_fac_scale : forall rho d a x, fold_right (fac_sem rho) (Some a) d = Some x ->
  forall b, exists y, fold_right (fac_sem rho) (Some b) d = Some y /\ qi_eq (qi_mul a y) (qi_mul b x).
Proof.
  induction d as [|p r IH]; intros a x F b.
  - cbn in F. injection F as <-. exists b. split; [reflexivity|]. apply qi_mul_comm.
  - destruct (fac_step rho p r (Some a) x F) as (bz & xz & f & s & D1 & D2 & PF & Fs & ->).
    destruct (IH a s Fs b) as (y & Fy & E). exists (qi_mul f y). split.
    + cbn [fold_right]. rewrite Fy. unfold fac_sem, mul_step. rewrite D1, D2, PF. reflexivity.
    + rewrite (qi_mul_assoc a f y), (qi_mul_comm a f), <- (qi_mul_assoc f a y), E.
      rewrite (qi_mul_assoc f b s), (qi_mul_comm f b), <- (qi_mul_assoc b f s). reflexivity.
Qed.

Lemma pow_fin_one : forall z, exists f, pow_fin z (inject_Z 1, 0) = Some f /\ qi_eq f z.
Proof.
  intro z. unfold pow_fin, qi_pow. cbn [fst snd].
  exists (qi_mul z qi_one). split; [reflexivity|]. apply qi_mul_1_r.
Qed.

Lemma num_one_val : forall v, n_is_int_one v = true -> vfin (num_val v) = Some (inject_Z 1, 0).
Proof. intros [z| | | | | |] H; try discriminate H. cbn in H. apply Z.eqb_eq in H. subst. reflexivity. Qed.

Lemma qi_one_l : forall z, qi_eq (qi_mul (inject_Z 1, 0) z) z.
Proof. intro z. apply (qi_mul_1_l z). Qed.

(* Add::get_args: the argument rebuilt for the term key*value has the value of the term *)
Lemma add_arg_value : forall rho k v kz vz,
  (match k with EMul c' _ => n_is_int_one c' | _ => true end) = true ->
  vfin (denote rho k) = Some kz -> vfin (num_val v) = Some vz ->
  exists az, vfin (denote rho (add_arg (k, v))) = Some az /\ qi_eq az (qi_mul vz kz).
Proof.
  intros rho k v kz vz K Dk Dv. unfold add_arg. cbn [fst snd].
  destruct (n_is_int_one v) eqn:V1.
  - rewrite (num_one_val v V1) in Dv. injection Dv as <-. exists kz. split; [exact Dk|]. symmetry. apply qi_one_l.
  - assert (GEN : forall k', term_dict k' = [(k', ENum (NInt 1))] -> vfin (denote rho k') = Some kz ->
              exists az, vfin (denote rho (EMul v (term_dict k'))) = Some az /\ qi_eq az (qi_mul vz kz)).
    { intros k' T Dk'. rewrite T, denote_EMul. cbn [fold_right]. rewrite Dv. unfold fac_sem, mul_step. cbn [fst snd].
      rewrite Dk'. cbn [denote num_val vfin]. destruct (pow_fin_one kz) as (f & PF & E). rewrite PF.
      cbn [opt_vc vfin]. exists (qi_mul f vz). split; [reflexivity|]. rewrite E. apply qi_mul_comm. }
    destruct k; try (apply GEN; [reflexivity | exact Dk]).
    + (* the key is a product with coefficient one *)
      cbn [term_dict]. rewrite denote_EMul in Dk |- *. rewrite (num_one_val coef K) in Dk.
      destruct (fold_right (fac_sem rho) (Some (inject_Z 1, 0)) d) as [x|] eqn:F; [|discriminate Dk].
      cbn in Dk. injection Dk as <-. rewrite Dv.
      destruct (fold_fac_scale rho d _ _ F vz) as (y & Fy & E). rewrite Fy. cbn. exists y. split; [reflexivity|].
      rewrite <- E. symmetry. apply qi_one_l.
    + (* the key is a power *)
      cbn [term_dict]. rewrite denote_EMul. cbn [fold_right]. rewrite Dv. unfold fac_sem, mul_step. cbn [fst snd].
      cbn [denote] in Dk.
      destruct (vfin (denote rho k1)) as [bz|]; [|discriminate Dk].
      destruct (vfin (denote rho k2)) as [xz|]; [|discriminate Dk].
      unfold pow_val in Dk. unfold pow_fin. destruct (qi_pow bz xz) as [f| |]; try discriminate Dk.
      cbn in Dk. injection Dk as <-. cbn. exists (qi_mul f vz). split; [reflexivity|]. apply qi_mul_comm.
Qed.

(* Mul::get_args: the argument for base**exp has the value of the factor *)
Lemma mul_arg_value : forall rho b x bz xz f,
  vfin (denote rho b) = Some bz -> vfin (denote rho x) = Some xz -> pow_fin bz xz = Some f ->
  exists az, vfin (denote rho (mul_arg (b, x))) = Some az /\ qi_eq az f.
Proof.
  intros rho b x bz xz f Db Dx PF. unfold mul_arg. cbn [fst snd].
  destruct (e_is_int_one x) eqn:X1.
  - destruct x as [n| | | | | | | | | | | | | | | | | ]; try discriminate X1. cbn [e_is_int_one] in X1.
    cbn [denote] in Dx. rewrite (num_one_val n X1) in Dx. injection Dx as <-.
    destruct (pow_fin_one bz) as (f' & PF' & E). rewrite PF in PF'. injection PF' as <-.
    exists bz. split; [exact Db | now symmetry].
  - cbn [denote]. rewrite Db, Dx. unfold pow_val. unfold pow_fin in PF.
    destruct (qi_pow bz xz) as [g| |]; try discriminate PF. injection PF as ->.
    exists f. split; reflexivity.
Qed.

(* ------------------------------------------------------------------ closure lemmas *)
Section Closed.
  Variable P : qi -> Prop.
  Hypothesis P_eq : forall x y, qi_eq x y -> P x -> P y.

  Lemma sum_closed : (forall x y, P x -> P y -> P (qi_add x y)) ->
    forall rho d a z, P a -> fold_right (term_sem rho) (Some a) d = Some z ->
    (forall p kz vz, In p d -> vfin (denote rho (fst p)) = Some kz -> vfin (num_val (snd p)) = Some vz ->
       P (qi_mul vz kz)) -> P z.
  Proof.
    intros Padd rho. induction d as [|p r IH]; intros a z Pa F T.
    - cbn in F. injection F as <-. exact Pa.
    - destruct (term_step rho p r (Some a) z F) as (kz & vz & s & Dk & Dv & Fs & ->).
      apply Padd.
      + apply (T p kz vz); auto. left. reflexivity.
      + apply (IH a s Pa Fs). intros q kz' vz' Hq. apply T. right. exact Hq.
  Qed.

  Lemma prod_closed : (forall x y, P x -> P y -> P (qi_mul x y)) ->
    forall rho d a z, P a -> fold_right (fac_sem rho) (Some a) d = Some z ->
    (forall p bz xz f, In p d -> vfin (denote rho (fst p)) = Some bz -> vfin (denote rho (snd p)) = Some xz ->
       pow_fin bz xz = Some f -> P f) -> P z.
  Proof.
    intros Pmul rho. induction d as [|p r IH]; intros a z Pa F T.
    - cbn in F. injection F as <-. exact Pa.
    - destruct (fac_step rho p r (Some a) z F) as (bz & xz & f & s & D1 & D2 & PF & Fs & ->).
      apply Pmul.
      + apply (T p bz xz f); auto. left. reflexivity.
      + apply (IH a s Pa Fs). intros q bz' xz' f' Hq. apply T. right. exact Hq.
  Qed.
End Closed.

(* ------------------------------------------------------------------ integers *)
Definition qi_int (z : qi) : Prop := qi_real z /\ q_isint (fst z).

Lemma qi_int_eq : forall x y, qi_eq x y -> qi_int x -> qi_int y.
Proof.
  intros [a b] [c d] [E1 E2] [R [k K]]. unfold qi_int, qi_real in *. cbn [fst snd] in *. split.
  - rewrite <- E2. exact R.
  - exists k. rewrite <- E1. exact K.
Qed.
Lemma qi_int_add : forall x y, qi_int x -> qi_int y -> qi_int (qi_add x y).
Proof.
  intros [a b] [c d] [R1 [k K]] [R2 [m M]]. unfold qi_int, qi_real, qi_add in *. cbn [fst snd] in *. split.
  - lra.
  - exists (k + m)%Z. rewrite inject_Z_plus, K, M. reflexivity.
Qed.
Lemma qi_int_mul : forall x y, qi_int x -> qi_int y -> qi_int (qi_mul x y).
Proof.
  intros [a b] [c d] [R1 [k K]] [R2 [m M]]. unfold qi_int, qi_real, qi_mul in *. cbn [fst snd] in *. split.
  - nra.
  - exists (k * m)%Z. rewrite inject_Z_mult, K, M. rewrite R1, R2. ring.
Qed.
Lemma qi_int_zero : forall z, qi_eq z qi_zero -> qi_int z.
Proof. intros [a b] [E1 E2]. cbn [qi_zero fst snd] in *. split; [exact E2|]. exists 0%Z. exact E1. Qed.
Lemma qi_int_one : qi_int (inject_Z 1, 0).
Proof. split; [reflexivity|]. exists 1%Z. reflexivity. Qed.

Lemma all_true_loop_TT : forall vis l last,
  all_true_loop vis l last = QT TT -> Forall (fun a => vis a = QT TT) l.
Proof.
  intros vis. induction l as [|a r IH]; intros last H; [constructor|].
  cbn [all_true_loop] in H. destruct (vis a) as [t| | |] eqn:E; try discriminate H. cbn [qbind] in H.
  destruct t; cbn [t_true] in H; try discriminate H. constructor; [exact E|]. eapply IH. exact H.
Qed.
Lemma all_true_loop_TF : forall vis l last t,
  all_true_loop vis l last = QT t -> t = TF -> last = QT TF /\ l = [].
Proof.
  intros vis. induction l as [|a r IH]; intros last t H E.
  - cbn in H. subst. auto.
  - cbn [all_true_loop] in H. destruct (vis a) as [u| | |] eqn:EV; try discriminate H. cbn [qbind] in H.
    destruct (t_true u).
    + destruct (IH _ _ H E) as [K _]. discriminate K.
    + injection H as <-. discriminate E.
Qed.

Lemma keys_ok_add : forall c d, keys_ok (EAdd c d) = true ->
  forall p, In p d -> (match fst p with EMul c' _ => n_is_int_one c' | _ => true end) = true /\ keys_ok (fst p) = true.
Proof.
  intros c d K p Hp. cbn [keys_ok] in K. rewrite forallb_forall in K. specialize (K p Hp).
  apply andb_prop in K. exact K.
Qed.
Lemma keys_ok_mul : forall c d, keys_ok (EMul c d) = true ->
  forall p, In p d -> keys_ok (fst p) = true /\ keys_ok (snd p) = true.
Proof.
  intros c d K p Hp. cbn [keys_ok] in K. rewrite forallb_forall in K. specialize (K p Hp).
  apply andb_prop in K. exact K.
Qed.
Lemma keys_ok_term_dict : forall k, keys_ok k = true -> forall v, keys_ok (EMul v (term_dict k)) = true.
Proof.
  intros k K v.
  assert (GEN : term_dict k = [(k, ENum (NInt 1))] -> keys_ok (EMul v (term_dict k)) = true).
  { intro T. rewrite T. cbn [keys_ok forallb fst snd]. rewrite K. reflexivity. }
  destruct k; try (apply GEN; reflexivity).
  - cbn [term_dict]. exact K.
  - cbn [term_dict keys_ok forallb fst snd] in *. rewrite K. reflexivity.
Qed.
Lemma keys_ok_add_arg : forall c d, keys_ok (EAdd c d) = true -> forall a, In a (add_args c d) -> keys_ok a = true.
Proof.
  intros c d K a Ha. unfold add_args in Ha. apply in_app_or in Ha. destruct Ha as [Ha|Ha].
  - destruct (n_is_zero c); [contradiction|]. destruct Ha as [<-|[]]. reflexivity.
  - apply in_map_iff in Ha. destruct Ha as (p & <- & Hp). destruct (keys_ok_add c d K p Hp) as [_ K2].
    unfold add_arg. destruct (n_is_int_one (snd p)); [exact K2|]. now apply keys_ok_term_dict.
Qed.
Lemma keys_ok_mul_arg : forall c d, keys_ok (EMul c d) = true -> forall a, In a (mul_args c d) -> keys_ok a = true.
Proof.
  intros c d K a Ha. unfold mul_args in Ha. apply in_app_or in Ha. destruct Ha as [Ha|Ha].
  - destruct (n_is_one c); [contradiction|]. destruct Ha as [<-|[]]. reflexivity.
  - apply in_map_iff in Ha. destruct Ha as (p & <- & Hp). destruct (keys_ok_mul c d K p Hp) as [K1 K2].
    unfold mul_arg. destruct (e_is_int_one (snd p)); [exact K1|]. cbn [keys_ok]. rewrite K1, K2. reflexivity.
Qed.

(* value of a sum / product from the values of the get_args arguments *)
Lemma add_args_closed : forall (P : qi -> Prop),
  (forall x y, qi_eq x y -> P x -> P y) -> (forall x y, P x -> P y -> P (qi_add x y)) ->
  (forall z, qi_eq z qi_zero -> P z) ->
  forall rho c d v, keys_ok (EAdd c d) = true -> denote rho (EAdd c d) = Some v ->
  (forall a az, In a (add_args c d) -> vfin (denote rho a) = Some az -> P az) ->
  exists z, v = VC z /\ P z.
Proof.
  intros P Peq Padd Pzero rho c d v K D T. rewrite denote_EAdd in D.
  destruct (vfin (num_val c)) as [cz|] eqn:EC; [|rewrite fold_term_none in D; discriminate D].
  destruct (fold_right (term_sem rho) (Some cz) d) as [z|] eqn:F; [|discriminate D]. injection D as <-.
  exists z. split; [reflexivity|].
  apply (sum_closed P Padd rho d cz z); auto.
  - destruct (n_is_zero c) eqn:Z.
    + apply Pzero. apply (num_qi_zero c); auto.
    + apply (T (ENum c)); [|exact EC]. unfold add_args. rewrite Z. left. reflexivity.
  - intros p kz vz Hp Dk Dv. destruct (keys_ok_add c d K p Hp) as [K1 _].
    destruct p as [k w]. cbn [fst snd] in *.
    destruct (add_arg_value rho k w kz vz K1 Dk Dv) as (az & Da & E).
    apply (Peq az); [exact E|]. apply (T (add_arg (k, w))); [|exact Da].
    unfold add_args. apply in_or_app. right. apply in_map_iff. exists (k, w). auto.
Qed.

Lemma mul_args_closed : forall (P : qi -> Prop),
  (forall x y, qi_eq x y -> P x -> P y) -> (forall x y, P x -> P y -> P (qi_mul x y)) ->
  P (inject_Z 1, 0) ->
  forall rho c d v, denote rho (EMul c d) = Some v ->
  (forall a az, In a (mul_args c d) -> vfin (denote rho a) = Some az -> P az) ->
  exists z, v = VC z /\ P z.
Proof.
  intros P Peq Pmul Pone rho c d v D T. rewrite denote_EMul in D.
  destruct (vfin (num_val c)) as [cz|] eqn:EC; [|rewrite fold_fac_none in D; discriminate D].
  destruct (fold_right (fac_sem rho) (Some cz) d) as [z|] eqn:F; [|discriminate D]. injection D as <-.
  exists z. split; [reflexivity|].
  apply (prod_closed P Pmul rho d cz z); auto.
  - destruct (n_is_one c) eqn:Z.
    + unfold n_is_one in Z. rewrite (num_one_val c Z) in EC. injection EC as <-. exact Pone.
    + apply (T (ENum c)); [|exact EC]. unfold mul_args. rewrite Z. left. reflexivity.
  - intros p bz xz f Hp Db Dx PF. destruct p as [b x]. cbn [fst snd] in *.
    destruct (mul_arg_value rho b x bz xz f Db Dx PF) as (az & Da & E).
    apply (Peq az); [exact E|]. apply (T (mul_arg (b, x))); [|exact Da].
    unfold mul_args. apply in_or_app. right. apply in_map_iff. exists (b, x). auto.
Qed.

Lemma v_integer_VC : forall z, v_integer (VC z) <-> qi_int z.
Proof. intro z. reflexivity. Qed.

Lemma rat_canon_not_int : forall p d, rat_canon p d = true -> ~ q_isint (Qmake p d).
Proof.
  intros p d C [k K]. unfold rat_canon in C. apply andb_prop in C. destruct C as [C1 C2].
  apply Z.eqb_eq in C1. apply Z.ltb_lt in C2. unfold Qeq in K. cbn in K.
  (* p = k * d, so d divides gcd p d = 1 *)
  assert (DV : (Z.pos d | Z.gcd p (Z.pos d))%Z).
  { apply Z.gcd_greatest; [|apply Z.divide_refl]. exists k. lia. }
  rewrite C1 in DV. apply Z.divide_1_r_nonneg in DV; lia.
Qed.

Theorem integer_sound_fuel : forall rho A, oassum_ok rho A -> forall fuel e t v, keys_ok e = true ->
  q_integer A fuel e = QT t -> denote rho e = Some v -> (t = TT -> v_integer v) /\ (t = TF -> ~ v_integer v).
Proof.
  intros rho A O. induction fuel as [|f IH]; intros e t v K H D; [discriminate H|].
  cbn [q_integer] in H. destruct e; try (default_case H D).
  - (* numbers *)
    cbn [denote] in D. injection H as <-.
    destruct n as [k|p d|rn rd imn imd| | |dir|]; cbn in D; try discriminate D.
    + injection D as <-. split; [|discriminate]. intros _. split; [reflexivity|]. exists k. reflexivity.
    + destruct (rat_canon p d) eqn:C; [|discriminate D]. injection D as <-. split; [discriminate|].
      intros _ [_ I]. now apply (rat_canon_not_int p d C).
    + destruct (imn =? 0)%Z eqn:E; [discriminate D|]. injection D as <-. split; [discriminate|].
      intros _ [R _]. unfold qi_real in R. cbn [snd] in R. now apply (Qmake_nonzero imn imd E).
    + split; [discriminate|]. intros _. destruct (0 <? dir)%Z; [injection D as <-; tauto|].
      destruct (dir <? 0)%Z; injection D as <-; tauto.
    + injection D as <-. split; [discriminate | tauto].
  - (* symbols *)
    assert (SO : forall a, A = Some a -> set_ok rho (a_integer a) v_integer).
    { apply (oassum_field rho A (fun a => set_ok rho (a_integer a) v_integer) O). intros a Ka. apply Ka. }
    destruct (sym_set_sound rho A a_integer v_integer (ESym name) t v SO H D) as [S1 S2].
    split; [exact S1 | intros E X; exact (S2 E)].
  - cbn in D. discriminate D.
  - cbn in D. discriminate D.
  - (* Add *)
    split; intro E; subst t.
    + pose proof (all_true_loop_TT _ _ _ H) as ALL. rewrite Forall_forall in ALL.
      destruct (add_args_closed qi_int qi_int_eq qi_int_add qi_int_zero rho coef d v K D) as (z & -> & Pz).
      * intros a az Ha Da. pose proof (ALL a Ha) as Q. apply vfin_denote in Da.
        destruct (IH a TT (VC az) (keys_ok_add_arg coef d K a Ha) Q Da) as [I _]. now apply I.
      * exact Pz.
    + destruct (all_true_loop_TF _ _ _ _ H eq_refl) as [X _]. discriminate X.
  - (* Mul *)
    split; intro E; subst t.
    + pose proof (all_true_loop_TT _ _ _ H) as ALL. rewrite Forall_forall in ALL.
      destruct (mul_args_closed qi_int qi_int_eq qi_int_mul qi_int_one rho coef d v D) as (z & -> & Pz).
      * intros a az Ha Da. pose proof (ALL a Ha) as Q. apply vfin_denote in Da.
        destruct (IH a TT (VC az) (keys_ok_mul_arg coef d K a Ha) Q Da) as [I _]. now apply I.
      * exact Pz.
    + destruct (all_true_loop_TF _ _ _ _ H eq_refl) as [X _]. discriminate X.
  - (* one-argument functions: conjugate *)
    destruct (code =? TC_Conjugate)%N eqn:C.
    + cbn [denote] in D. destruct (vfin (denote rho e)) as [z|] eqn:V; [|discriminate D].
      apply N.eqb_eq in C. subst code. cbn in D. injection D as <-.
      cbn [keys_ok] in K. destruct (IH e t (VC z) K H (vfin_denote _ _ _ V)) as [I1 I2].
      assert (EQ : qi_int (qi_conj z) <-> qi_int z).
      { destruct z as [a b]. unfold qi_int, qi_conj, qi_real. cbn [fst snd]. split; intros [R I]; split; auto; lra. }
      cbn [v_integer] in *. split; intro E; [apply EQ; now apply I1 | intro X; apply (I2 E); now apply EQ].
    + destruct (code =? TC_Not)%N eqn:CN; injection H as <-; split; try discriminate.
      intros _. apply N.eqb_eq in CN. subst code. cbn [denote] in D.
      destruct (vfin (denote rho e)); [|discriminate D]. cbn in D. discriminate D.
  - (* two-argument functions *)
    cbn in D. discriminate D.
Qed.

Theorem integer_sound : forall rho A, oassum_ok rho A -> forall e t v, keys_ok e = true ->
  is_integer A e = QT t -> denote rho e = Some v -> (t = TT -> v_integer v) /\ (t = TF -> ~ v_integer v).
Proof. intros rho A O e t v K H D. eapply integer_sound_fuel; eauto. Qed.

(* ------------------------------------------------------------------ powers of real numbers *)
Lemma q_as_int_sound : forall x n, q_as_int x = Some n -> x == inject_Z n.
Proof.
  intros x n H. unfold q_as_int in H. destruct (Pos.eqb (Qden (Qred x)) 1) eqn:E; [|discriminate H].
  injection H as <-. apply Pos.eqb_eq in E. rewrite <- (Qred_correct x) at 1.
  destruct (Qred x) as [a b]. cbn [Qnum Qden] in *. subst b. reflexivity.
Qed.
Lemma q_as_int_complete : forall x n, x == inject_Z n -> q_as_int x = Some n.
Proof.
  intros x n H. unfold q_as_int. rewrite (Qred_complete x (inject_Z n) H).
  assert (R : Qred (inject_Z n) = inject_Z n).
  { unfold Qred, inject_Z. pose proof (Z.ggcd_correct_divisors n 1) as C. pose proof (Z.ggcd_gcd n 1) as G.
    destruct (Z.ggcd n 1) as [g [aa bb]]. cbn [fst snd] in *. rewrite Z.gcd_1_r in G. subst g.
    destruct C as [C1 C2]. rewrite Z.mul_1_l in C1, C2. subst aa bb. reflexivity. }
  rewrite R. reflexivity.
Qed.

Lemma qi_real_mul : forall x y, qi_real x -> qi_real y -> qi_real (qi_mul x y).
Proof. intros [a b] [c d]. unfold qi_real, qi_mul. cbn [fst snd]. intros B D. nra. Qed.
Lemma qi_real_add : forall x y, qi_real x -> qi_real y -> qi_real (qi_add x y).
Proof. intros [a b] [c d]. unfold qi_real, qi_add. cbn [fst snd]. intros B D. lra. Qed.
Lemma qi_real_eq : forall x y, qi_eq x y -> qi_real x -> qi_real y.
Proof. intros [a b] [c d] [E1 E2]. unfold qi_real. cbn [fst snd] in *. intro R. rewrite <- E2. exact R. Qed.
Lemma qi_real_zero : forall z, qi_eq z qi_zero -> qi_real z.
Proof. intros [a b] [E1 E2]. exact E2. Qed.
Lemma qi_real_one : qi_real (inject_Z 1, 0).
Proof. reflexivity. Qed.
Lemma qi_real_pow_nat : forall x n, qi_real x -> qi_real (qi_pow_nat x n).
Proof. intros x n R. induction n as [|n IH]; cbn [qi_pow_nat]; [reflexivity | now apply qi_real_mul]. Qed.
Lemma qi_real_inv : forall y, qi_real y -> qi_real (qi_inv y).
Proof.
  intros [c d]. unfold qi_real, qi_inv, qi_div, qi_one, qi_norm2. cbn [fst snd]. intro D.
  unfold Qdiv. assert (E : 0 * c - 1 * d == 0) by lra. rewrite E. ring.
Qed.
Lemma qi_real_powz : forall x k, qi_real x -> qi_real (qi_powz x k).
Proof.
  intros x k R. destruct k; cbn [qi_powz]; [reflexivity | now apply qi_real_pow_nat |].
  apply qi_real_inv. now apply qi_real_pow_nat.
Qed.

Lemma psqrt_nonneg_real : forall b s, psqrt b = Some s -> 0 <= fst b -> qi_real s.
Proof.
  intros b s H P. unfold psqrt in H. destruct (qi_is_realb b); [|discriminate H].
  destruct (qsqrt (Qabs (fst b))) as [r|]; [|discriminate H]. injection H as <-.
  assert (L : Qle_bool 0 (fst b) = true) by (apply Qle_bool_iff; exact P). rewrite L. reflexivity.
Qed.

(* base^x is real when x is an integer and the base is real ... *)
Lemma pow_fin_real_int : forall b x f, qi_real b -> qi_int x -> pow_fin b x = Some f -> qi_real f.
Proof.
  intros b x f Rb [Rx [k K]] H. unfold pow_fin, qi_pow in H.
  assert (E1 : qi_is_realb x = true) by (apply qi_is_realb_iff; exact Rx). rewrite E1 in H.
  rewrite (q_as_int_complete (fst x) k K) in H.
  destruct ((k <? 0)%Z && qi_is_zerob b); [discriminate H|]. injection H as <-. now apply qi_real_powz.
Qed.
(* ... or x is real and the base is a nonnegative real *)
Lemma pow_fin_real_nonneg : forall b x f, qi_real b -> 0 <= fst b -> qi_real x -> pow_fin b x = Some f -> qi_real f.
Proof.
  intros b x f Rb Pb Rx H. unfold pow_fin, qi_pow in H.
  assert (E1 : qi_is_realb x = true) by (apply qi_is_realb_iff; exact Rx). rewrite E1 in H.
  destruct (q_as_int (fst x)) as [k|].
  - destruct ((k <? 0)%Z && qi_is_zerob b); [discriminate H|]. injection H as <-. now apply qi_real_powz.
  - destruct (q_as_int (2 * fst x)) as [m|]; [|discriminate H].
    destruct (psqrt b) as [s|] eqn:PS; [|discriminate H].
    destruct ((m <? 0)%Z && qi_is_zerob b); [discriminate H|]. injection H as <-.
    apply qi_real_powz. now apply (psqrt_nonneg_real b s PS).
Qed.
Lemma pow_fin_zero_exp : forall b x f, qi_eq x qi_zero -> pow_fin b x = Some f -> qi_real f.
Proof.
  intros b x f [Z1 Z2] H. cbn [qi_zero fst snd] in Z1, Z2. unfold pow_fin, qi_pow in H.
  assert (E1 : qi_is_realb x = true) by (apply qi_is_realb_iff; exact Z2). rewrite E1 in H.
  rewrite (q_as_int_complete (fst x) 0%Z Z1) in H. cbn in H. injection H as <-. reflexivity.
Qed.

(* ------------------------------------------------------------------ RealVisitor *)
Lemma real_add_loop_TT : forall vis l b nr,
  real_add_loop vis l b nr = QT TT -> b = TT /\ Forall (fun a => vis a = QT TT) l.
Proof.
  intros vis. induction l as [|a r IH]; intros b nr H; cbn [real_add_loop] in H.
  - injection H as ->. split; [reflexivity | constructor].
  - destruct (vis a) as [t| | |] eqn:E; try discriminate H. cbn [qbind] in H.
    destruct (t_false t && _); [discriminate H|].
    destruct (t_indet (andwk_tribool b t)) eqn:I.
    + injection H as H. rewrite H in I. discriminate I.
    + destruct (IH _ _ H) as [B F]. destruct b; destruct t; try discriminate B. split; [reflexivity|].
      constructor; [exact E | exact F].
Qed.

Lemma real_mul_loop_TT : forall chk d b nr,
  real_mul_loop chk d b nr = QT TT -> b = TT /\ Forall (fun p => chk (fst p) (snd p) = QT TT) d.
Proof.
  intros chk. induction d as [|[k v] r IH]; intros b nr H; cbn [real_mul_loop] in H.
  - destruct (Nat.eqb nr 1); [discriminate H|]. injection H as ->. split; [reflexivity | constructor].
  - destruct (chk k v) as [t| | |] eqn:E; try discriminate H. cbn [qbind] in H.
    destruct (t_false t && _); [discriminate H|].
    destruct (t_indet (andwk_tribool b t)) eqn:I; [discriminate H|].
    destruct (IH _ _ H) as [B F]. destruct b; destruct t; try discriminate B. split; [reflexivity|].
    constructor; [exact E | exact F].
Qed.

Lemma q_real_sign_guard : forall A f e, q_real A f e = QT TT -> sign_guard e = true.
Proof.
  intros A f e H. destruct f as [|f]; [discriminate H|].
  destruct e as [n| | | | | | | | | | | | | | | | | ]; try reflexivity.
  destruct n; try reflexivity; cbn in H; discriminate H.
Qed.

Theorem real_sound_fuel : forall rho A, oassum_ok rho A -> forall fuel e v, keys_ok e = true ->
  q_real A fuel e = QT TT -> denote rho e = Some v -> v <> VZoo -> v_real v.
Proof.
  intros rho A O. induction fuel as [|f IH]; intros e v K H D NZ; [discriminate H|].
  (* the power test, for a base and an exponent with finite values *)
  assert (CP : forall base x bz xz fz, keys_ok base = true -> keys_ok x = true ->
    qbind (is_zero A x) (fun z =>
      if t_true z then QT TT
      else qbind (q_real A f base) (fun rb =>
        if t_true rb then
          qbind (is_integer A x) (fun ix =>
            if t_true ix then QT TT
            else qbind (is_nonnegative A base) (fun nb =>
              if t_true nb then qbind (q_real A f x) (fun rx => if t_false rx then QT TI else QT rx)
              else QT TI))
        else if t_false rb then
          qbind (is_complex A base) (fun cb =>
            if t_true cb then qbind (zero_sub_one x) (fun z1 => if t_true z1 then QT TF else QT TI)
            else QT TI)
        else QT TI)) = QT TT ->
    vfin (denote rho base) = Some bz -> vfin (denote rho x) = Some xz -> pow_fin bz xz = Some fz -> qi_real fz).
  { intros base x bz xz fz Kb Kx C Db Dx PF. apply vfin_denote in Db, Dx.
    destruct (is_zero A x) as [z| | |] eqn:EZ; try discriminate C. cbn [qbind] in C.
    destruct (t_true z) eqn:TZ.
    { destruct z; try discriminate TZ. destruct (zero_sound rho A O x TT (VC xz) EZ Dx) as [Z _].
      apply (pow_fin_zero_exp bz xz fz); auto. now apply Z. }
    destruct (q_real A f base) as [rb| | |] eqn:ER; try discriminate C. cbn [qbind] in C.
    destruct (t_true rb) eqn:TR.
    2:{ destruct (t_false rb); [|discriminate C].
        destruct (is_complex A base) as [cb| | |]; try discriminate C. cbn [qbind] in C.
        destruct (t_true cb); [|discriminate C].
        destruct (zero_sub_one x) as [z1| | |]; try discriminate C. cbn [qbind] in C.
        destruct (t_true z1); discriminate C. }
    destruct rb; try discriminate TR.
    assert (Rb : qi_real bz) by (apply (IH base (VC bz) Kb ER Db); discriminate).
    destruct (is_integer A x) as [ix| | |] eqn:EI; try discriminate C. cbn [qbind] in C.
    destruct (t_true ix) eqn:TI.
    { destruct ix; try discriminate TI. destruct (integer_sound rho A O x TT (VC xz) Kx EI Dx) as [I _].
      apply (pow_fin_real_int bz xz fz); auto. now apply I. }
    destruct (is_nonnegative A base) as [nb| | |] eqn:EN; try discriminate C. cbn [qbind] in C.
    destruct (t_true nb) eqn:TN; [|discriminate C]. destruct nb; try discriminate TN.
    destruct (q_real A f x) as [rx| | |] eqn:EX; try discriminate C. cbn [qbind] in C.
    destruct rx; cbn [t_false] in C; try discriminate C.
    assert (Rx : qi_real xz) by (apply (IH x (VC xz) Kx EX Dx); discriminate).
    destruct (nonnegative_sound_guarded rho A O base TT (VC bz) (q_real_sign_guard A f base ER) EN Db) as [NN _].
    destruct (NN eq_refl) as [_ Pb].
    now apply (pow_fin_real_nonneg bz xz fz). }
  cbn [q_real] in H. destruct e; try (destruct (is_setbool _); discriminate H).
  - (* numbers *)
    cbn [denote] in D. destruct n as [k|p d|rn rd imn imd| | |dir|]; cbn in H; try discriminate H; cbn in D.
    + injection D as <-. reflexivity.
    + destruct (rat_canon p d); [|discriminate D]. injection D as <-. reflexivity.
    + discriminate D.
  - (* symbols *)
    assert (SO : forall a, A = Some a -> set_ok rho (a_real a) v_real).
    { apply (oassum_field rho A (fun a => set_ok rho (a_real a) v_real) O). intros a Ka. apply Ka. }
    destruct (sym_set_sound rho A a_real v_real (ESym name) TT v SO H D) as [S1 _]. now apply S1.
  - cbn in D. discriminate D.
  - cbn in D. discriminate D.
  - (* Add *)
    destruct (real_add_loop_TT _ _ _ _ H) as [_ ALL]. rewrite Forall_forall in ALL.
    destruct (add_args_closed qi_real qi_real_eq qi_real_add qi_real_zero rho coef d v K D) as (z & -> & Pz).
    + intros a az Ha Da. apply vfin_denote in Da.
      apply (IH a (VC az) (keys_ok_add_arg coef d K a Ha) (ALL a Ha) Da). discriminate.
    + exact Pz.
  - (* Mul *)
    destruct (real_mul_loop_TT _ _ _ _ H) as [B ALL]. rewrite Forall_forall in ALL.
    rewrite denote_EMul in D.
    destruct (vfin (num_val coef)) as [cz|] eqn:EC; [|rewrite fold_fac_none in D; discriminate D].
    destruct (fold_right (fac_sem rho) (Some cz) d) as [z|] eqn:F; [|discriminate D]. injection D as <-.
    cbn [v_real]. apply (prod_closed qi_real qi_real_mul rho d cz z); auto.
    + destruct (num_fin_cases coef cz EC) as [(q & _ & ->)|(rn & rd & imn & imd & -> & _)]; [reflexivity|].
      cbn in B. discriminate B.
    + intros p bz xz fz Hp Db Dx PF. destruct (keys_ok_mul coef d K p Hp) as [K1 K2].
      apply (CP (fst p) (snd p) bz xz fz K1 K2 (ALL p Hp) Db Dx PF).
  - (* Pow *)
    cbn [keys_ok] in K. apply andb_prop in K. destruct K as [K1 K2].
    cbn [denote] in D.
    destruct (vfin (denote rho e1)) as [bz|] eqn:Db; [|discriminate D].
    destruct (vfin (denote rho e2)) as [xz|] eqn:Dx; [|discriminate D].
    unfold pow_val in D. destruct (qi_pow bz xz) as [fz| |] eqn:QP; try discriminate D.
    + injection D as <-. cbn [v_real]. apply (CP e1 e2 bz xz fz K1 K2 H Db Dx). unfold pow_fin. rewrite QP. reflexivity.
    + injection D as <-. now elim NZ.
Qed.

(* is_real(e) = true: the value is real, unless it is the pole 0^negative *)
Theorem real_sound_guarded : forall rho A, oassum_ok rho A -> forall e v, keys_ok e = true ->
  is_real A e = QT TT -> denote rho e = Some v -> v <> VZoo -> v_real v.
Proof. intros rho A O e v K H D NZ. eapply real_sound_fuel; eauto. Qed.

