(* C34 -- the property theorems in their final form: from the STATEMENTS of an assumption set
   (as the library receives them) to the value of the expression at every satisfying valuation;
   refutations of the unsound rules by concrete witnesses (vm_compute). *)
From SE Require Import Assume.AssumeSem Num.NumQi Assume.AssumeProofs Assume.AssumeProofs2 Assume.AssumeProofs3.
From Coq Require Import QArith List ZArith Bool Lia Lqa.
Import ListNotations.
Local Open Scope Q_scope.

(* the optional Assumptions object of a query: None = nullptr *)
Definition assum_of (st : option (list expr)) : res (option assum) :=
  match st with
  | None => Ok None
  | Some l => match mk_assum l with Ok a => Ok (Some a) | ErrExn c => ErrExn c | ErrFuel => ErrFuel | ErrOOB i n => ErrOOB i n end
  end.
Definition osat (rho : valuation) (st : option (list expr)) : Prop :=
  match st with None => True | Some l => sat rho l end.

Lemma assum_of_ok : forall rho st A, assum_of st = Ok A -> osat rho st -> oassum_ok rho A.
Proof.
  intros rho [l|] A H S; cbn in H.
  - destruct (mk_assum l) as [a| | |] eqn:E; try discriminate H. injection H as <-. cbn. now apply (mk_assum_sound rho l).
  - injection H as <-. exact I.
Qed.

Section Final.
  Variables (rho : valuation) (st : option (list expr)) (A : option assum).
  Hypothesis HA : assum_of st = Ok A.
  Hypothesis HS : osat rho st.

  Theorem zero_final : forall e t v, is_zero A e = QT t -> denote rho e = Some v ->
    (t = TT -> v_zero v) /\ (t = TF -> ~ v_zero v).
  Proof. intros. eapply zero_sound; eauto. eapply assum_of_ok; eauto. Qed.

  Theorem nonzero_final : forall e t v, is_nonzero A e = QT t -> denote rho e = Some v ->
    (t = TT -> ~ v_zero v) /\ (t = TF -> v_zero v).
  Proof.
    intros e t v H D. unfold is_nonzero, qmap in H. destruct (q_zero A e) as [u| | |] eqn:E; try discriminate H.
    cbn in H. injection H as <-. destruct (zero_final e u v E D) as [Z1 Z2].
    destruct u; cbn [not_tribool]; split; intro X; try discriminate X.
    - exact (Z2 eq_refl).
    - exact (Z1 eq_refl).
  Qed.

  Theorem negative_final : forall e t v, is_negative A e = QT t -> denote rho e = Some v ->
    (t = TT -> v_negative v) /\ (t = TF -> ~ v_negative v).
  Proof. intros. eapply negative_sound; eauto. eapply assum_of_ok; eauto. Qed.

  Theorem nonnegative_final : forall e t v,
    is_nonnegative A e = QT t -> denote rho e = Some v ->
    (t = TT -> v_nonnegative v) /\ (t = TF -> ~ v_nonnegative v).
  Proof. intros. eapply nonnegative_sound; eauto. eapply assum_of_ok; eauto. Qed.

  Theorem nonpositive_final : forall e t v,
    is_nonpositive A e = QT t -> denote rho e = Some v ->
    (t = TT -> v_nonpositive v) /\ (t = TF -> ~ v_nonpositive v).
  Proof. intros. eapply nonpositive_sound; eauto. eapply assum_of_ok; eauto. Qed.

  (* pos_guard e: every sum in e has at least one term (well-formedness of the dump) *)
  Theorem positive_final : forall e t v, pos_guard e = true ->
    is_positive A e = QT t -> denote rho e = Some v ->
    (t = TT -> v_positive v) /\ (t = TF -> ~ v_positive v).
  Proof. intros. eapply positive_sound_guarded; eauto. eapply assum_of_ok; eauto. Qed.

  Theorem integer_final : forall e t v, keys_ok e = true ->
    is_integer A e = QT t -> denote rho e = Some v ->
    (t = TT -> v_integer v) /\ (t = TF -> ~ v_integer v).
  Proof. intros. eapply integer_sound; eauto. eapply assum_of_ok; eauto. Qed.

  Theorem real_final_guarded : forall e v, keys_ok e = true ->
    is_real A e = QT TT -> denote rho e = Some v -> v <> VZoo -> v_real v.
  Proof. intros. eapply real_sound_guarded; eauto. eapply assum_of_ok; eauto. Qed.

  Theorem complex_true_final_guarded : forall e v,
    is_complex A e = QT TT -> denote rho e = Some v -> v <> VZoo -> v_complex v.
  Proof. intros. eapply complex_true_sound; eauto. Qed.

  Theorem complex_false_final : forall e v, keys_ok e = true ->
    is_complex A e = QT TF -> denote rho e = Some v -> ~ v_complex v.
  Proof. intros. eapply complex_false_sound; eauto. Qed.

  Theorem finite_final : forall e t v, is_finite A e = QT t -> denote rho e = Some v ->
    (t = TT -> v_finite v) /\ (t = TF -> v_infinite v).
  Proof. intros. eapply finite_sound; eauto. eapply assum_of_ok; eauto. Qed.

  Theorem even_final : forall e half z h, keys_ok half = true ->
    is_even_via A half = QT TT -> denote rho e = Some (VC z) -> denote rho half = Some (VC h) ->
    qi_eq (qi_add h h) z -> v_even (VC z).
  Proof. intros. eapply even_sound; eauto. eapply assum_of_ok; eauto. Qed.
  Theorem odd_final : forall e half z h, keys_ok half = true ->
    is_odd_via A half = QT TT -> denote rho e = Some (VC z) -> denote rho half = Some (VC h) ->
    qi_eq (qi_add h h) (qi_add z (inject_Z 1, 0)) -> v_odd (VC z).
  Proof. intros. eapply odd_sound; eauto. eapply assum_of_ok; eauto. Qed.
End Final.

(* ------------------------------------------------------------------ witnesses *)
Definition sx : expr := ESym [120%N].
Definition rho_const (z : qi) : valuation := fun _ => z.
Definition st_real_x : option (list expr) := Some [ELex TC_Contains sx (EAtom TC_Reals)].
Definition st_complex_x : option (list expr) := Some [ELex TC_Contains sx (EAtom TC_Complexes)].
Definition st_pos_x : option (list expr) := Some [EF2 TC_StrictLessThan (ENum (NInt 0)) sx].

Lemma sat_real_x : forall q, osat (rho_const (q, 0)) st_real_x.
Proof. intro q. constructor; [|constructor]. cbn. reflexivity. Qed.
Lemma sat_complex_x : forall z, osat (rho_const z) st_complex_x.
Proof. intro z. constructor; [|constructor]. cbn. exact I. Qed.
Lemma sat_pos_x : osat (rho_const (1, 0)) st_pos_x.
Proof. constructor; [|constructor]. cbn. split; [reflexivity|]. unfold Qlt. cbn. lia. Qed.

(* regression examples for the repaired rules (fix commits 089e9a7, 7182169, 8ffd80b): the former
   counterexamples now get a sound answer *)
Definition e_pos_cplx : expr := EAdd (NCplx 1 1 1 1) [(sx, NInt 1)].
Definition e_add_two_nonreal : expr := EAdd (NCplx 1 1 1 1) [(sx, NCplx 0 1 1 1)].
Example repaired_rules :
  is_nonnegative None (ENum NNaN) = QT TF /\ is_nonpositive None (ENum NNaN) = QT TF /\
  is_nonnegative None (ENum (NInf 0)) = QT TF /\ is_nonpositive None (ENum (NInf 0)) = QT TF /\
  (exists A, assum_of st_pos_x = Ok A /\ is_positive A e_pos_cplx = QT TI) /\
  (exists A, assum_of st_real_x = Ok A /\ is_real A e_add_two_nonreal = QT TI).
Proof. repeat split; try (eexists; split; vm_compute; reflexivity); vm_compute; reflexivity. Qed.

(* RealVisitor(Mul): I*x with x real is "not real"; at x = 0 the value is 0 *)
Definition e_ix : expr := EMul (NCplx 0 1 1 1) [(sx, ENum (NInt 1))].
Theorem real_false_refuted_mul : exists st A rho e v,
  assum_of st = Ok A /\ osat rho st /\ is_real A e = QT TF /\ denote rho e = Some v /\ v_real v.
Proof.
  eexists st_real_x, _, (rho_const (0, 0)), e_ix, _. split; [vm_compute; reflexivity|].
  split; [exact (sat_real_x 0)|]. split; [vm_compute; reflexivity|]. split; [cbn; reflexivity|].
  cbn [v_real]. unfold qi_real, Qeq. vm_compute. reflexivity.
Qed.

(* poles: 1/x is "real" and "complex" for real x; at x = 0 the value is zoo *)
Definition e_inv_x : expr := EPow sx (ENum (NInt (-1))).
Theorem real_true_refuted_pole : exists st A rho e,
  assum_of st = Ok A /\ osat rho st /\ is_real A e = QT TT /\ is_complex A e = QT TT /\
  denote rho e = Some VZoo /\ ~ v_real VZoo /\ ~ v_complex VZoo.
Proof.
  eexists st_real_x, _, (rho_const (0, 0)), e_inv_x. split; [vm_compute; reflexivity|].
  split; [exact (sat_real_x 0)|]. split; [vm_compute; reflexivity|]. split; [vm_compute; reflexivity|].
  split; [vm_compute; reflexivity|]. split; intro H; exact H.
Qed.

(* ------------------------------------------------------------------ non-vacuity *)
(* 2*x - y + 3 with x > 0, y < 0 is positive; the hypotheses of the theorem hold at x = 1/2, y = -3 *)
Definition sy : expr := ESym [121%N].
Definition st_xy : option (list expr) :=
  Some [EF2 TC_StrictLessThan (ENum (NInt 0)) sx; EF2 TC_StrictLessThan sy (ENum (NInt 0))].
Definition e_lin : expr := EAdd (NInt 3) [(sx, NInt 2); (sy, NInt (-1))].
Definition rho_xy : valuation := fun nm => match nm with [120%N] => (1 # 2, 0) | _ => (-3 # 1, 0) end.
