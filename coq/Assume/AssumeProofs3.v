(* C34 -- part 3: ComplexVisitor, RationalVisitor, FiniteVisitor, is_even / is_odd. *)
From SE Require Import Assume.AssumeSem Num.NumQi Assume.AssumeProofs Assume.AssumeProofs2.
From Coq Require Import QArith Qabs Qround List ZArith Bool Lia Lqa Setoid Morphisms.
Import ListNotations.
Local Open Scope Q_scope.

(* ------------------------------------------------------------------ ComplexVisitor *)
Lemma denote_shape : forall rho e v, denote rho e = Some v ->
  (exists n, e = ENum n) \/ v = VZoo \/ exists z, v = VC z.
Proof.
  intros rho e v D. destruct e; try discriminate D.
  - left. eauto.
  - right. right. cbn in D. injection D as <-. eauto.
  - right. right. rewrite denote_EAdd in D. destruct (fold_right _ _ _); [|discriminate D]. injection D as <-. eauto.
  - right. right. rewrite denote_EMul in D. destruct (fold_right _ _ _); [|discriminate D]. injection D as <-. eauto.
  - right. cbn [denote] in D. destruct (vfin (denote rho e1)); [|discriminate D].
    destruct (vfin (denote rho e2)); [|discriminate D]. unfold pow_val in D.
    destruct (qi_pow q q0); try discriminate D; injection D as <-; eauto.
  - right. right. revert D. cbn [denote]. destruct (vfin (denote rho e)); [|discriminate].
    repeat match goal with
    | |- (if ?c then _ else _) = _ -> _ => destruct c
    end; try discriminate;
    try (match goal with |- opt_vc ?o = _ -> _ => destruct o; [|discriminate] end);
    intro D; injection D as <-; eauto.
  - right. right. revert D. cbn [denote].
    repeat match goal with
    | |- (if ?c then _ else _) = _ -> _ => destruct c
    | |- match ?o with Some _ => _ | None => _ end = _ -> _ => destruct o; [|discriminate]
    end; try discriminate; intro D; injection D as <-; eauto.
Qed.

(* is_complex(e) = true: the value is a (finite) complex number, unless it is the pole 0^negative *)
Theorem complex_true_sound : forall rho A e v,
  is_complex A e = QT TT -> denote rho e = Some v -> v <> VZoo -> v_complex v.
Proof.
  intros rho A e v H D NZ. destruct (denote_shape rho e v D) as [[n ->]|[->|[z ->]]]; [|now elim NZ|exact I].
  unfold is_complex in H. cbn in H. cbn [denote] in D.
  destruct n as [k|p d|rn rd imn imd| | |dir|]; cbn in H; try discriminate H; cbn in D.
  - injection D as <-. exact I.
  - destruct (rat_canon p d); [|discriminate D]. injection D as <-. exact I.
  - destruct (imn =? 0)%Z; [discriminate D|]. injection D as <-. exact I.
  - discriminate D.
  - discriminate D.
Qed.

Lemma first_not_true_TF : forall (X : Type) (vis : X -> qr) l last,
  first_not_true vis l last = QT TF -> last <> QT TF -> exists a, In a l /\ vis a = QT TF.
Proof.
  intros X vis. induction l as [|a r IH]; intros last H NL; cbn [first_not_true] in H.
  - contradiction.
  - destruct (vis a) as [t| | |] eqn:E; try discriminate H. cbn [qbind] in H.
    destruct (t_true t) eqn:T.
    + destruct (IH (QT TT) H) as (b & Hb & Vb); [discriminate|]. exists b. split; [right; exact Hb | exact Vb].
    + injection H as ->. exists a. split; [left; reflexivity | exact E].
Qed.

Lemma denote_EF1_some : forall rho c a v, denote rho (EF1 c a) = Some v ->
  (exists z, vfin (denote rho a) = Some z) /\ c_passthrough c = true.
Proof.
  intros rho c a v D. cbn [denote] in D. destruct (vfin (denote rho a)) as [z|]; [|discriminate D].
  split; [eauto|]. unfold c_passthrough.
  destruct (c =? TC_Abs)%N eqn:E1; [rewrite !orb_true_r; reflexivity|].
  destruct (c =? TC_Sign)%N eqn:E2; [rewrite !orb_true_r; reflexivity|].
  destruct (c =? TC_Conjugate)%N eqn:E3; [rewrite !orb_true_r; reflexivity|].
  destruct (c =? TC_Floor)%N eqn:E4; [rewrite !orb_true_r; reflexivity|].
  destruct (c =? TC_Ceiling)%N eqn:E5; [rewrite !orb_true_r; reflexivity|]. discriminate D.
Qed.

Lemma add_args_defined : forall rho c d v, keys_ok (EAdd c d) = true -> denote rho (EAdd c d) = Some v ->
  forall a, In a (add_args c d) -> exists az, vfin (denote rho a) = Some az.
Proof.
  intros rho c d v K D a Ha. rewrite denote_EAdd in D.
  destruct (vfin (num_val c)) as [cz|] eqn:EC; [|rewrite fold_term_none in D; discriminate D].
  destruct (fold_right (term_sem rho) (Some cz) d) as [z|] eqn:F; [|discriminate D].
  unfold add_args in Ha. apply in_app_or in Ha. destruct Ha as [Ha|Ha].
  - destruct (n_is_zero c); [contradiction|]. destruct Ha as [<-|[]]. exists cz. exact EC.
  - apply in_map_iff in Ha. destruct Ha as (p & <- & Hp).
    destruct (keys_ok_add c d K p Hp) as [K1 _]. clear D K.
    revert z F. induction d as [|q r IHd]; intros z F; [contradiction|].
    destruct (term_step rho q r (Some cz) z F) as (kz & vz & s & Dk & Dv & Fs & _).
    destruct Hp as [->|Hp].
    + destruct p as [k w]. cbn [fst snd] in *. destruct (add_arg_value rho k w kz vz K1 Dk Dv) as (az & Da & _). eauto.
    + apply (IHd Hp s Fs).
Qed.

Lemma mul_factors_defined : forall rho c d v, denote rho (EMul c d) = Some v ->
  forall p, In p d -> exists bz xz, vfin (denote rho (fst p)) = Some bz /\ vfin (denote rho (snd p)) = Some xz.
Proof.
  intros rho c d v D p Hp. rewrite denote_EMul in D.
  destruct (vfin (num_val c)) as [cz|] eqn:EC; [|rewrite fold_fac_none in D; discriminate D].
  destruct (fold_right (fac_sem rho) (Some cz) d) as [z|] eqn:F; [|discriminate D]. clear D.
  revert z F. induction d as [|q r IHd]; intros z F; [contradiction|].
  destruct (fac_step rho q r (Some cz) z F) as (bz & xz & f & s & D1 & D2 & _ & Fs & _).
  destruct Hp as [->|Hp]; [eauto | apply (IHd Hp s Fs)].
Qed.

(* is_complex(e) = false: the value is not a finite complex number *)
Theorem complex_false_sound_fuel : forall rho A fuel e v, keys_ok e = true ->
  q_complex A fuel e = QT TF -> denote rho e = Some v -> ~ v_complex v.
Proof.
  intros rho A. induction fuel as [|f IH]; intros e v K H D; [discriminate H|].
  assert (CP : forall b x bz xz, keys_ok b = true -> keys_ok x = true ->
            qbind (q_complex A f b) (fun t => if t_true t then q_complex A f x else QT t) = QT TF ->
            vfin (denote rho b) = Some bz -> vfin (denote rho x) = Some xz -> False).
  { intros b x bz xz Kb Kx C Db Dx. apply vfin_denote in Db, Dx.
    destruct (q_complex A f b) as [t| | |] eqn:EB; try discriminate C. cbn [qbind] in C.
    destruct (t_true t).
    - apply (IH x (VC xz) Kx C Dx). exact I.
    - injection C as ->. apply (IH b (VC bz) Kb EB Db). exact I. }
  cbn [q_complex] in H. destruct e;
    try (destruct (is_setbool _) eqn:SB; [rewrite (setbool_no_value _ _ SB) in D; discriminate D | discriminate H]).
  - (* numbers *)
    cbn [denote] in D. destruct n as [k|p d|rn rd imn imd| | |dir|]; cbn in H; try discriminate H; cbn in D.
    + destruct (0 <? dir)%Z; [injection D as <-; tauto|]. destruct (dir <? 0)%Z; injection D as <-; tauto.
    + injection D as <-. tauto.
  - (* symbols *)
    unfold sym_set in H. destruct A; [|discriminate H]. injection H as H. unfold tri_mem in H.
    destruct (mem_name _ _); discriminate H.
  - unfold sym_set in H. destruct A; discriminate H.
  - discriminate H.
  - (* Add *)
    destruct (first_not_true_TF _ _ _ _ H) as (a & Ha & Va); [discriminate|].
    destruct (add_args_defined rho coef d v K D a Ha) as (az & Da). apply vfin_denote in Da.
    exfalso. apply (IH a (VC az) (keys_ok_add_arg coef d K a Ha) Va Da). exact I.
  - (* Mul *)
    destruct (first_not_true_TF _ _ _ _ H) as (p & Hp & Vp); [discriminate|].
    destruct (mul_factors_defined rho coef d v D p Hp) as (bz & xz & Db & Dx).
    destruct (keys_ok_mul coef d K p Hp) as [K1 K2].
    exfalso. exact (CP (fst p) (snd p) bz xz K1 K2 Vp Db Dx).
  - (* Pow *)
    cbn [keys_ok] in K. apply andb_prop in K. destruct K as [K1 K2].
    cbn [denote] in D.
    destruct (vfin (denote rho e1)) as [bz|] eqn:Db; [|discriminate D].
    destruct (vfin (denote rho e2)) as [xz|] eqn:Dx; [|discriminate D].
    exfalso. exact (CP e1 e2 bz xz K1 K2 H Db Dx).
  - (* one-argument functions *)
    destruct (denote_EF1_some rho code e v D) as [(z & Dz) PT]. rewrite PT in H.
    cbn [keys_ok] in K. apply vfin_denote in Dz. exfalso. apply (IH e (VC z) K H Dz). exact I.
  - (* two-argument functions *)
    cbn in D. discriminate D.
Qed.

Theorem complex_false_sound : forall rho A e v, keys_ok e = true ->
  is_complex A e = QT TF -> denote rho e = Some v -> ~ v_complex v.
Proof. intros rho A e v K H D. eapply complex_false_sound_fuel; eauto. Qed.

(* ------------------------------------------------------------------ RationalVisitor, FiniteVisitor *)
(* is_rational answers true only for Integer and Rational literals (and sums that end with one);
   the last visited argument decides the answer of a sum *)
Theorem rational_true_sound : forall rho e v,
  (forall c d, e <> EAdd c d) -> is_rational e = QT TT -> denote rho e = Some v -> v_rational v.
Proof.
  intros rho e v NA H D. unfold is_rational, rational_apply in H.
  destruct (q_rational (fuel_of e) e) as [r nb] eqn:Q. cbn in H. injection H as ->.
  unfold fuel_of in Q. cbn [Nat.add Nat.mul] in Q. rewrite Nat.add_comm in Q. cbn [Nat.add q_rational] in Q.
  destruct e; try (destruct (is_setbool _); discriminate Q); try discriminate Q.
  - destruct n as [k|p d| | | | |]; try discriminate Q; cbn in D.
    + injection D as <-. reflexivity.
    + destruct (rat_canon p d); [|discriminate D]. injection D as <-. reflexivity.
  - destruct (_ || _); discriminate Q.
  - exfalso. now apply (NA coef d).
Qed.

Theorem rational_false_sound_literal : forall rho n v,
  is_rational (ENum n) = QT TF -> denote rho (ENum n) = Some v -> ~ v_rational v.
Proof.
  intros rho n v H D. cbn [denote] in D.
  destruct n as [k|p d|rn rd imn imd| | |dir|]; try discriminate H; cbn in D; try discriminate D.
  - destruct (imn =? 0)%Z eqn:E; [discriminate D|]. injection D as <-. cbn. unfold qi_real. cbn [snd].
    now apply Qmake_nonzero.
  - destruct (0 <? dir)%Z; [injection D as <-; tauto|]. destruct (dir <? 0)%Z; injection D as <-; tauto.
  - injection D as <-. tauto.
Qed.

Theorem finite_sound : forall rho A, oassum_ok rho A -> forall e t v,
  is_finite A e = QT t -> denote rho e = Some v -> (t = TT -> v_finite v) /\ (t = TF -> v_infinite v).
Proof.
  intros rho A O e t v H D. unfold is_finite in H.
  destruct e; try (destruct (is_setbool _); [discriminate H | injection H as <-; split; discriminate]).
  - cbn [denote] in D. destruct n as [k|p d|rn rd imn imd| | |dir|]; cbn in H; try discriminate H; injection H as <-; cbn in D;
      split; try discriminate; intros _.
    + injection D as <-. exact I.
    + destruct (rat_canon p d); [|discriminate D]. injection D as <-. exact I.
    + destruct (imn =? 0)%Z; [discriminate D|]. injection D as <-. exact I.
    + destruct (0 <? dir)%Z; [injection D as <-; exact I|]. destruct (dir <? 0)%Z; injection D as <-; exact I.
  - assert (SO : forall a, A = Some a -> set_ok rho (a_complex a) v_complex).
    { apply (oassum_field rho A (fun a => set_ok rho (a_complex a) v_complex) O). intros a Ka. apply Ka. }
    destruct (sym_set_sound rho A a_complex v_complex (ESym name) t v SO H D) as [S1 S2].
    split; [exact S1 | intro E; elim (S2 E)].
  - cbn in D. discriminate D.
  - cbn in D. discriminate D.
Qed.

(* is_even(e) = is_integer(e/2), is_odd(e) = is_integer((e+1)/2): sound whenever the quotient
   built by the library has the value it should have *)
Theorem even_sound : forall rho A, oassum_ok rho A -> forall e half z h, keys_ok half = true ->
  is_even_via A half = QT TT -> denote rho e = Some (VC z) -> denote rho half = Some (VC h) ->
  qi_eq (qi_add h h) z -> v_even (VC z).
Proof.
  intros rho A O e half z h K H D Dh E.
  destruct (integer_sound rho A O half TT (VC h) K H Dh) as [I _]. destruct (I eq_refl) as [R [k Kk]].
  destruct z as [a b]. destruct h as [c d]. destruct E as [E1 E2]. unfold qi_real in *. cbn [fst snd qi_add] in *.
  cbn [v_even]. unfold qi_real. cbn [fst snd]. split; [lra|]. exists k. rewrite <- E1, Kk, inject_Z_mult. change (inject_Z 2) with 2. ring.
Qed.
Theorem odd_sound : forall rho A, oassum_ok rho A -> forall e half z h, keys_ok half = true ->
  is_odd_via A half = QT TT -> denote rho e = Some (VC z) -> denote rho half = Some (VC h) ->
  qi_eq (qi_add h h) (qi_add z (inject_Z 1, 0)) -> v_odd (VC z).
Proof.
  intros rho A O e half z h K H D Dh E.
  destruct (integer_sound rho A O half TT (VC h) K H Dh) as [I _]. destruct (I eq_refl) as [R [k Kk]].
  destruct z as [a b]. destruct h as [c d]. destruct E as [E1 E2]. unfold qi_real in *. cbn [fst snd qi_add] in *.
  cbn [v_odd]. unfold qi_real. cbn [fst snd]. split; [lra|]. exists (k - 1)%Z.
  assert (EQ : inject_Z (2 * (k - 1) + 1) == 2 * inject_Z k - 1).
  { unfold Qeq, Qminus, Qplus, Qmult, Qopp, inject_Z. cbn [Qnum Qden]. rewrite !Pos.mul_1_l. lia. }
  rewrite EQ, <- Kk. change (inject_Z 1) with 1 in E1. lra.
Qed.
