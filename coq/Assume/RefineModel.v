(* C35 -- the rule decisions of RefineVisitor (symengine/refine.cpp) and of
   SimplifyVisitor::simplify_pow (symengine/simplify.cpp).

   refine rebuilds its results with the library's constructors (neg, abs, pow, mul, max ...),
   which are not modelled here.  What is transcribed is the DECISION each rule takes, as a
   function of the already refined argument(s) and of the assumptions: which of the candidate
   results the rule returns.  The driver prints, for every rule node, the refined arguments,
   every candidate (built with the library's constructors) and the actual result; the check
   verifies that the result is the candidate the model chose.  The value-preservation theorems
   (RefineProofs.v) are stated per decision.
   No proofs here. *)
From SE Require Export Assume.AssumeModel.
From Coq Require Import List NArith ZArith Bool.
Import ListNotations.
Local Open Scope N_scope.

Inductive dec :=
| DId | DNeg | DConj | DKeep          (* Abs: newarg, neg(newarg), abs(inner of conjugate), abs(newarg) *)
| DOne | DMone | DZero                (* Sign *)
| DFlip                               (* Floor/Ceiling: -ceiling(-x) / -floor(-x) *)
| DPos | DAbs                         (* Pow of Pow: b^(k n) / abs(b)^(k n) *)
| DMullog | DPerfect                  (* Log *)
| DSin | DCos | DTan                  (* simplify_pow *)
| DList (keep : list N)               (* Max / Min: indices of the kept arguments, in order *)
| DExn | DUnsup.

(* is_true(query): continue with the boolean; an exception / a declined query ends the rule *)
Definition qb (r : qr) (k : bool -> dec) : dec :=
  match r with
  | QT t => k (t_true t)
  | QExn => DExn
  | _ => DUnsup
  end.

Definition refine_abs (A : option assum) (na : expr) : dec :=
  qb (is_nonnegative A na) (fun nn =>
    if nn then DId
    else qb (is_nonpositive A na) (fun np =>
      if np then DNeg
      else match na with
           | EF1 c _ => if c =? TC_Conjugate then DConj else DKeep
           | _ => DKeep
           end)).

Definition refine_sign (A : option assum) (na : expr) : dec :=
  qb (is_positive A na) (fun p =>
    if p then DOne
    else qb (is_negative A na) (fun n =>
      if n then DMone
      else qb (is_zero A na) (fun z => if z then DZero else DKeep))).

(* could_extract_minus(newarg) is computed by the library (not part of the anchored code): input *)
Definition refine_floor (A : option assum) (na : expr) (cem : bool) : dec :=
  qb (is_integer A na) (fun i => if i then DId else if cem then DFlip else DKeep).
Definition refine_ceiling (A : option assum) (na : expr) (cem : bool) : dec :=
  qb (is_integer A na) (fun i => if i then DId else if cem then DFlip else DKeep).

Definition refine_conjugate (A : option assum) (na : expr) : dec :=
  qb (is_real A na) (fun r => if r then DId else DKeep).

Definition refine_pow (A : option assum) (nb ne : expr) : dec :=
  match nb, ne with
  | EPow ib ie, ENum n =>
      qb (is_real A ib) (fun r =>
        if r then
          match ie with
          | ENum m =>
              if negb (n_is_complex m) && negb (n_is_complex n) then
                qb (is_positive A ib) (fun p =>
                  if p then DPos
                  else match m with
                       | NInt z => if Z.even z then DAbs else DKeep    (* x^k = abs(x)^k needs an even integer k *)
                       | _ => DKeep
                       end)
              else DKeep
          | _ => DKeep
          end
        else DKeep)
  | _, _ => DKeep
  end.

(* pp: mp_perfect_power_decomposition(n).second != 1, computed by the library: input *)
Definition refine_log (A : option assum) (na : expr) (pp : bool) : dec :=
  match na with
  | EPow b x =>
      qb (is_positive A b) (fun p =>
        if p then qb (is_real A x) (fun r => if r then DMullog else DKeep) else DKeep)
  | ENum (NInt _) => if pp then DPerfect else DKeep
  | _ => DKeep
  end.

(* Max: classes of the refined arguments *)
Inductive mclass := MPos | MNonneg | MNeg | MNonpos | MOther | MExn | MUnsup.
Definition qc (r : qr) (k : bool -> mclass) : mclass :=
  match r with QT t => k (t_true t) | QExn => MExn | _ => MUnsup end.
Definition max_class (A : option assum) (a : expr) : mclass :=
  qc (is_positive A a) (fun p => if p then MPos else
  qc (is_nonnegative A a) (fun nn => if nn then MNonneg else
  qc (is_negative A a) (fun n => if n then MNeg else
  qc (is_nonpositive A a) (fun np => if np then MNonpos else MOther)))).
Definition min_class (A : option assum) (a : expr) : mclass :=
  (* same names, mirrored: MPos = "negative" first ... kept explicit for readability *)
  qc (is_negative A a) (fun n => if n then MNeg else
  qc (is_nonpositive A a) (fun np => if np then MNonpos else
  qc (is_positive A a) (fun p => if p then MPos else
  qc (is_nonnegative A a) (fun nn => if nn then MNonneg else MOther)))).

Fixpoint index_from (i : N) (l : list mclass) : list (N * mclass) :=
  match l with [] => [] | c :: r => (i, c) :: index_from (i + 1) r end.
Definition pick (f : mclass -> bool) (l : list (N * mclass)) : list N :=
  map fst (filter (fun p => f (snd p)) l).
Definition mc_eqb (a b : mclass) : bool :=
  match a, b with
  | MPos, MPos | MNonneg, MNonneg | MNeg, MNeg | MNonpos, MNonpos | MOther, MOther
  | MExn, MExn | MUnsup, MUnsup => true
  | _, _ => false
  end.
Definition has (c : mclass) (l : list (N * mclass)) : bool := existsb (fun p => mc_eqb (snd p) c) l.

Definition refine_max (A : option assum) (nas : list expr) : dec :=
  let cl := index_from 0 (map (max_class A) nas) in
  if has MExn cl then DExn else if has MUnsup cl then DUnsup
  else
    let keep := pick (fun c => mc_eqb c MPos || mc_eqb c MNonneg || mc_eqb c MOther) cl in
    let nonpositive := pick (mc_eqb MNonpos) cl in
    let negative := pick (mc_eqb MNeg) cl in
    let have_positive := has MPos cl in
    let have_nonnegative := has MNonneg cl in
    let keep1 := if negb have_positive then keep ++ nonpositive else keep in
    let keep2 := if negb have_nonnegative && negb have_positive then keep1 ++ negative else keep1 in
    DList keep2.

Definition refine_min (A : option assum) (nas : list expr) : dec :=
  let cl := index_from 0 (map (min_class A) nas) in
  if has MExn cl then DExn else if has MUnsup cl then DUnsup
  else
    let keep := pick (fun c => mc_eqb c MNeg || mc_eqb c MNonpos || mc_eqb c MOther) cl in
    let nonnegative := pick (mc_eqb MNonneg) cl in
    let positive := pick (mc_eqb MPos) cl in
    let have_negative := has MNeg cl in
    let have_nonpositive := has MNonpos cl in
    let keep1 := if negb have_negative then keep ++ nonnegative else keep in
    let keep2 := if negb have_nonpositive && negb have_negative then keep1 ++ positive else keep1 in
    DList keep2.

(* SimplifyVisitor::simplify_pow(e, b) *)
Definition e_is_minus_one (e : expr) : bool := match e with ENum (NInt z) => (z =? -1)%Z | _ => false end.
Definition simplify_pow (b e : expr) : dec :=
  match b with
  | EF1 c _ =>
      if (c =? TC_Csc) && e_is_minus_one e then DSin
      else if (c =? TC_Sec) && e_is_minus_one e then DCos
      else if (c =? TC_Cot) && e_is_minus_one e then DTan
      else DKeep
  | _ => DKeep
  end.
