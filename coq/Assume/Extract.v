(* Extraction of the C34/C35 model (queries under assumptions, refine rule decisions). *)
From SE Require Import Expr.IO Assume.RefineModel.
Require Import ExtrOcamlBasic.
Extraction "semodel.ml" N_of_digits Z_of_digits digits_of_N tc_lookup
  mk_assum all_queries is_even_via is_odd_via is_polynomial
  refine_abs refine_sign refine_floor refine_ceiling refine_conjugate refine_pow refine_log
  refine_max refine_min simplify_pow.
