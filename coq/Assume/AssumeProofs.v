(* C34 -- soundness of the queries of test_visitors.cpp under assumptions, against the value
   semantics of Assume/AssumeSem.v.  Part 1: the Assumptions constructor, ZeroVisitor,
   NegativeVisitor, NonNegativeVisitor, NonPositiveVisitor, PositiveVisitor. *)
From SE Require Import Assume.AssumeSem Num.NumQi.
From Coq Require Import QArith Qabs Qround List ZArith Bool Lia Lqa Setoid Morphisms.
Import ListNotations.
Local Open Scope Q_scope.

(* ------------------------------------------------------------------ basics *)
Lemma name_eqb_eq : forall a b, name_eqb a b = true <-> a = b.
Proof.
  induction a as [|x a IH]; destruct b as [|y b]; cbn [name_eqb]; split; intro H; try discriminate; try reflexivity.
  - apply andb_prop in H. destruct H as [H1 H2]. apply N.eqb_eq in H1. apply IH in H2. now subst.
  - injection H as -> ->. rewrite N.eqb_refl. cbn. now apply IH.
Qed.
Lemma name_eqb_refl : forall a, name_eqb a a = true.
Proof. intro a. now apply name_eqb_eq. Qed.

Lemma tri_of_bool_TT : forall b, tri_of_bool b = TT -> b = true.
Proof. now destruct b. Qed.
Lemma tri_of_bool_TF : forall b, tri_of_bool b = TF -> b = false.
Proof. now destruct b. Qed.

Lemma q_is_zero_iff : forall x, q_is_zero x = true <-> x == 0.
Proof. intro x. unfold q_is_zero. apply Qeq_bool_iff. Qed.
Lemma qi_is_realb_iff : forall z, qi_is_realb z = true <-> qi_real z.
Proof. intro z. unfold qi_is_realb, qi_real. apply q_is_zero_iff. Qed.
Lemma qi_is_zerob_iff : forall z, qi_is_zerob z = true <-> qi_eq z qi_zero.
Proof.
  intro z. unfold qi_is_zerob, qi_eq, qi_zero. cbn [fst snd]. rewrite andb_true_iff, !q_is_zero_iff. tauto.
Qed.

(* ------------------------------------------------------------------ exact numbers *)
Lemma Qmake_pos : forall p d, (0 <? p)%Z = true -> 0 < Qmake p d.
Proof. intros p d H. apply Z.ltb_lt in H. unfold Qlt. cbn. lia. Qed.
Lemma Qmake_neg : forall p d, (p <? 0)%Z = true -> Qmake p d < 0.
Proof. intros p d H. apply Z.ltb_lt in H. unfold Qlt. cbn. lia. Qed.
Lemma Qmake_zero : forall p d, (p =? 0)%Z = true -> Qmake p d == 0.
Proof. intros p d H. apply Z.eqb_eq in H. subst. reflexivity. Qed.
Lemma Qmake_nonneg : forall p d, (p <? 0)%Z = false -> 0 <= Qmake p d.
Proof. intros p d H. apply Z.ltb_ge in H. unfold Qle. cbn. lia. Qed.
Lemma Qmake_nonpos : forall p d, (0 <? p)%Z = false -> Qmake p d <= 0.
Proof. intros p d H. apply Z.ltb_ge in H. unfold Qle. cbn. lia. Qed.
Lemma Qmake_nonzero : forall p d, (p =? 0)%Z = false -> ~ Qmake p d == 0.
Proof. intros p d H E. apply Z.eqb_neq in H. unfold Qeq in E. cbn in E. lia. Qed.

(* an exact real literal: its sign predicates, as the Number classes compute them, on a fraction p/d *)
Lemma num_q_cases : forall n q, num_q n = Some q ->
  exists p d, (q = Qmake p d) /\ (num_val n = Some (VC (q, 0))) /\
    (n_is_positive n = Z.ltb 0 p) /\ (n_is_negative n = Z.ltb p 0) /\ (n_is_zero n = Z.eqb p 0).
Proof.
  intros [z|p d| | | | |] q H; try discriminate H; cbn in H.
  - injection H as <-. exists z, 1%positive. repeat split; reflexivity.
  - destruct (rat_canon p d) eqn:E; [|discriminate H]. injection H as <-. exists p, d. cbn. rewrite E. repeat split; reflexivity.
Qed.
Lemma num_q_val : forall n q, num_q n = Some q -> num_val n = Some (VC (q, 0)).
Proof. intros n q H. destruct (num_q_cases n q H) as (p & d & _ & V & _). exact V. Qed.
Lemma num_q_positive : forall n q, num_q n = Some q -> n_is_positive n = true -> 0 < q.
Proof. intros n q H P. destruct (num_q_cases n q H) as (p & d & -> & _ & E & _). rewrite E in P. now apply Qmake_pos. Qed.
Lemma num_q_negative : forall n q, num_q n = Some q -> n_is_negative n = true -> q < 0.
Proof. intros n q H P. destruct (num_q_cases n q H) as (p & d & -> & _ & _ & E & _). rewrite E in P. now apply Qmake_neg. Qed.
Lemma num_q_zero : forall n q, num_q n = Some q -> n_is_zero n = true -> q == 0.
Proof. intros n q H P. destruct (num_q_cases n q H) as (p & d & -> & _ & _ & _ & E). rewrite E in P. now apply Qmake_zero. Qed.
Lemma num_q_not_negative : forall n q, num_q n = Some q -> n_is_negative n = false -> 0 <= q.
Proof. intros n q H P. destruct (num_q_cases n q H) as (p & d & -> & _ & _ & E & _). rewrite E in P. now apply Qmake_nonneg. Qed.
Lemma num_q_not_positive : forall n q, num_q n = Some q -> n_is_positive n = false -> q <= 0.
Proof. intros n q H P. destruct (num_q_cases n q H) as (p & d & -> & _ & E & _). rewrite E in P. now apply Qmake_nonpos. Qed.
Lemma num_q_not_zero : forall n q, num_q n = Some q -> n_is_zero n = false -> ~ q == 0.
Proof. intros n q H P. destruct (num_q_cases n q H) as (p & d & -> & _ & _ & _ & E). rewrite E in P. now apply Qmake_nonzero. Qed.

(* a finite literal is an exact real one or a canonical Complex *)
Lemma num_fin_cases : forall n z, vfin (num_val n) = Some z ->
  (exists q, num_q n = Some q /\ z = (q, 0)) \/
  (exists rn rd imn imd, n = NCplx rn rd imn imd /\ (imn =? 0)%Z = false /\ z = (Qmake rn rd, Qmake imn imd)).
Proof.
  intros [k|p d|rn rd imn imd| | |dir|] z H; cbn in H; try discriminate H.
  - injection H as <-. left. exists (inject_Z k). split; reflexivity.
  - left. cbn [num_q]. destruct (rat_canon p d); [|discriminate H]. injection H as <-. exists (Qmake p d). split; reflexivity.
  - right. destruct (imn =? 0)%Z eqn:E; [discriminate H|]. injection H as <-. exists rn, rd, imn, imd. repeat split; assumption.
  - destruct (0 <? dir)%Z; [discriminate H|]. destruct (dir <? 0)%Z; discriminate H.
Qed.
Lemma num_qi_zero : forall n z, num_qi n = Some z -> n_is_zero n = true -> qi_eq z qi_zero.
Proof.
  intros n z H Z. destruct (num_fin_cases n z H) as [(q & Hq & ->)|(rn & rd & imn & imd & -> & _ & _)]; [|discriminate Z].
  split; cbn [fst snd qi_zero]; [now apply (num_q_zero n)|reflexivity].
Qed.
Lemma num_qi_nonzero : forall n z, num_qi n = Some z -> n_is_zero n = false -> ~ qi_eq z qi_zero.
Proof.
  intros n z H Z [Z1 Z2]. cbn [qi_zero fst snd] in Z1, Z2.
  destruct (num_fin_cases n z H) as [(q & Hq & ->)|(rn & rd & imn & imd & -> & E & ->)]; cbn [fst snd] in *.
  - now apply (num_q_not_zero n q Hq Z).
  - now apply (Qmake_nonzero imn imd E).
Qed.

(* ------------------------------------------------------------------ the Assumptions constructor *)
Lemma from_map_cons : forall m x v y,
  from_map ((x, v) :: m) y = if name_eqb x y then tri_of_bool v else from_map m y.
Proof. reflexivity. Qed.

Definition fact (P : val -> Prop) (rho : valuation) (x : list N) (v : option bool) : Prop :=
  match v with
  | Some true => P (VC (rho x))
  | Some false => ~ P (VC (rho x))
  | None => True
  end.

Lemma set_opt_ok : forall rho m x v m' P,
  set_opt m x v = Ok m' -> map_ok rho m P -> fact P rho x v -> map_ok rho m' P.
Proof.
  intros rho m x v m' P H M F. destruct v as [b|]; cbn [set_opt] in H.
  - unfold set_map in H. destruct (_ || _); [discriminate H|]. injection H as <-.
    intro y. rewrite from_map_cons. destruct (name_eqb x y) eqn:E.
    + apply name_eqb_eq in E. subst y. destruct b; cbn [tri_of_bool fact] in *; split; intro H; try discriminate H; assumption.
    + apply M.
  - injection H as <-. exact M.
Qed.

Record upd_holds (rho : valuation) (x : list N) (u : upd) : Prop := mkUpdHolds {
  uh_nonneg : fact v_nonnegative rho x (u_nonneg u);
  uh_pos : fact v_positive rho x (u_pos u);
  uh_neg : fact v_negative rho x (u_neg u);
  uh_nonpos : fact v_nonpositive rho x (u_nonpos u);
  uh_nonzero : fact (fun v => ~ v_zero v) rho x (u_nonzero u);
  uh_zero : fact v_zero rho x (u_zero u) }.

Lemma apply_upd_ok : forall rho A x u A',
  apply_upd A x u = Ok A' -> assum_ok rho A -> upd_holds rho x u -> assum_ok rho A'.
Proof.
  intros rho A x u A' H [o1 o2 o3 o4 o5 o6 o7 o8 o9 o10] [h1 h2 h3 h4 h5 h6].
  unfold apply_upd in H.
  destruct (set_opt (a_nonnegative A) x (u_nonneg u)) as [m1| | |] eqn:E1; try discriminate H. cbn [bind] in H.
  destruct (set_opt (a_positive A) x (u_pos u)) as [m2| | |] eqn:E2; try discriminate H. cbn [bind] in H.
  destruct (set_opt (a_negative A) x (u_neg u)) as [m3| | |] eqn:E3; try discriminate H. cbn [bind] in H.
  destruct (set_opt (a_nonpositive A) x (u_nonpos u)) as [m4| | |] eqn:E4; try discriminate H. cbn [bind] in H.
  destruct (set_opt (a_nonzero A) x (u_nonzero u)) as [m5| | |] eqn:E5; try discriminate H. cbn [bind] in H.
  destruct (set_opt (a_zero A) x (u_zero u)) as [m6| | |] eqn:E6; try discriminate H. cbn [bind] in H.
  injection H as <-. constructor; cbn; try assumption.
  - eapply set_opt_ok; eauto.
  - eapply set_opt_ok; eauto.
  - eapply set_opt_ok; eauto.
  - eapply set_opt_ok; eauto.
  - eapply set_opt_ok; eauto.
  - eapply set_opt_ok; eauto.
Qed.

Lemma set_ok_cons : forall rho l x P (b : bool),
  set_ok rho l P -> (b = true -> P (VC (rho x))) -> set_ok rho (if b then x :: l else l) P.
Proof.
  intros rho l x P b S H. destruct b; [|exact S].
  intros y M. cbn [mem_name] in M. apply orb_prop in M. destruct M as [M|M].
  - apply name_eqb_eq in M. subst y. now apply H.
  - now apply S.
Qed.

Lemma add_sets_ok : forall rho A x cx re ra it,
  assum_ok rho A ->
  (re = true -> v_real (VC (rho x))) -> (ra = true -> v_rational (VC (rho x))) ->
  (it = true -> v_integer (VC (rho x))) ->
  assum_ok rho (add_sets A x cx re ra it).
Proof.
  intros rho A x cx re ra it [o1 o2 o3 o4 o5 o6 o7 o8 o9 o10] Hre Hra Hit.
  constructor; cbn; try assumption; apply set_ok_cons; try assumption. intros _. exact I.
Qed.
Lemma add_real_ok : forall rho A x, assum_ok rho A -> v_real (VC (rho x)) -> assum_ok rho (add_real A x).
Proof.
  intros rho A x O H. change (add_real A x) with (add_sets A x false true false false).
  apply add_sets_ok; auto; discriminate.
Qed.
Lemma add_complex_ok : forall rho A x, assum_ok rho A -> assum_ok rho (add_complex A x).
Proof.
  intros rho A x O. change (add_complex A x) with (add_sets A x true false false false).
  apply add_sets_ok; auto; discriminate.
Qed.

Ltac qreal := unfold qi_real in *; cbn [fst snd] in *.

Ltac solve_fact :=
  unfold qi_eq, qi_zero, qi_real in *; cbn [fst snd] in *;
  first [ exact I
        | lra
        | split; lra
        | (let H := fresh in intros [H ?]; lra)
        | (let H := fresh in intro H; apply H; let K := fresh in intros [K ?]; lra)
        | (let H := fresh in intro H; apply H; split; lra) ].

Lemma upd_positive : forall rho x, qi_real (rho x) -> 0 < fst (rho x) -> upd_holds rho x U_positive.
Proof. intros rho x R P. constructor; cbn; solve_fact. Qed.
Lemma upd_negative : forall rho x, qi_real (rho x) -> fst (rho x) < 0 -> upd_holds rho x U_negative.
Proof. intros rho x R P. constructor; cbn; solve_fact. Qed.
Lemma upd_nonnegative : forall rho x, qi_real (rho x) -> 0 <= fst (rho x) -> upd_holds rho x U_nonnegative.
Proof. intros rho x R P. constructor; cbn; solve_fact. Qed.
Lemma upd_nonpositive : forall rho x, qi_real (rho x) -> fst (rho x) <= 0 -> upd_holds rho x U_nonpositive.
Proof. intros rho x R P. constructor; cbn; solve_fact. Qed.
Lemma upd_zero : forall rho x, qi_eq (rho x) qi_zero -> upd_holds rho x U_zero.
Proof. intros rho x [H1 H2]. constructor; cbn; solve_fact. Qed.
Lemma upd_nonzero : forall rho x, ~ qi_eq (rho x) qi_zero -> upd_holds rho x U_nonzero.
Proof. intros rho x H. constructor; cbn; try exact I; try assumption. Qed.

Lemma add_stmt_ok : forall rho A s A',
  add_stmt A s = Ok A' -> assum_ok rho A -> stmt_holds rho s -> assum_ok rho A'.
Proof.
  intros rho A s A' H O S.
  destruct s as [n|nm|nm i|nm|c d|c d|b x|c a|c a1 a2|c l|nm l|c x st|a l|a d|l|b|s1 e1 lo ro|t];
    cbn [add_stmt] in H; try (injection H as <-; exact O).
  - (* relational *)
    cbn [stmt_holds] in S.
    destruct (c =? TC_LessThan)%N.
    { destruct (sym_name a2) as [nm|] eqn:E2; [destruct (as_num a1) as [n|] eqn:E1|].
      - destruct (num_q n) as [q|] eqn:Eq; [|contradiction]. destruct S as [R L].
        destruct (n_is_positive n) eqn:P.
        + pose proof (num_q_positive n q Eq P). eapply apply_upd_ok; [exact H| now apply add_real_ok | apply upd_positive; [exact R|lra]].
        + destruct (n_is_zero n) eqn:Z.
          * pose proof (num_q_zero n q Eq Z). eapply apply_upd_ok; [exact H| now apply add_real_ok | apply upd_nonnegative; [exact R|lra]].
          * injection H as <-. now apply add_real_ok.
      - destruct (sym_name a1) as [nm1|] eqn:E3; [destruct (as_num a2) as [n|] eqn:E4|]; try (injection H as <-; exact O).
        destruct (num_q n) as [q|] eqn:Eq; [|contradiction]. destruct S as [R L].
        destruct (n_is_negative n) eqn:P.
        + pose proof (num_q_negative n q Eq P). eapply apply_upd_ok; [exact H| now apply add_real_ok | apply upd_negative; [exact R|lra]].
        + destruct (n_is_zero n) eqn:Z.
          * pose proof (num_q_zero n q Eq Z). eapply apply_upd_ok; [exact H| now apply add_real_ok | apply upd_nonpositive; [exact R|lra]].
          * injection H as <-. now apply add_real_ok.
      - destruct (as_num a1) as [n0|]; destruct (sym_name a1) as [nm1|] eqn:E3; try (injection H as <-; exact O);
          destruct (as_num a2) as [n|] eqn:E4; try (injection H as <-; exact O);
          (destruct (num_q n) as [q|] eqn:Eq; [|contradiction]); destruct S as [R L];
          (destruct (n_is_negative n) eqn:P;
           [ pose proof (num_q_negative n q Eq P); eapply apply_upd_ok; [exact H| now apply add_real_ok | apply upd_negative; [exact R|lra]]
           | destruct (n_is_zero n) eqn:Z;
             [ pose proof (num_q_zero n q Eq Z); eapply apply_upd_ok; [exact H| now apply add_real_ok | apply upd_nonpositive; [exact R|lra]]
             | injection H as <-; now apply add_real_ok ]]). }
    destruct (c =? TC_StrictLessThan)%N.
    { destruct (sym_name a2) as [nm|] eqn:E2; [destruct (as_num a1) as [n|] eqn:E1|].
      - destruct (num_q n) as [q|] eqn:Eq; [|contradiction]. destruct S as [R L].
        destruct (n_is_negative n) eqn:P; cbn [negb] in H.
        + injection H as <-. now apply add_real_ok.
        + pose proof (num_q_not_negative n q Eq P). eapply apply_upd_ok; [exact H| now apply add_real_ok | apply upd_positive; [exact R|lra]].
      - destruct (sym_name a1) as [nm1|] eqn:E3; [destruct (as_num a2) as [n|] eqn:E4|]; try (injection H as <-; exact O).
        destruct (num_q n) as [q|] eqn:Eq; [|contradiction]. destruct S as [R L].
        destruct (n_is_positive n) eqn:P; cbn [negb] in H.
        + injection H as <-. now apply add_real_ok.
        + pose proof (num_q_not_positive n q Eq P). eapply apply_upd_ok; [exact H| now apply add_real_ok | apply upd_negative; [exact R|lra]].
      - destruct (as_num a1) as [n0|]; destruct (sym_name a1) as [nm1|] eqn:E3; try (injection H as <-; exact O);
          destruct (as_num a2) as [n|] eqn:E4; try (injection H as <-; exact O);
          (destruct (num_q n) as [q|] eqn:Eq; [|contradiction]); destruct S as [R L];
          (destruct (n_is_positive n) eqn:P; cbn [negb] in H;
           [ injection H as <-; now apply add_real_ok
           | pose proof (num_q_not_positive n q Eq P); eapply apply_upd_ok; [exact H| now apply add_real_ok | apply upd_negative; [exact R|lra]]]). }
    destruct (c =? TC_Equality)%N.
    { destruct (as_num a1) as [n|] eqn:E1; [destruct (sym_name a2) as [nm|] eqn:E2|]; try (injection H as <-; exact O).
      destruct (num_qi n) as [z|] eqn:Ez; [|contradiction].
      destruct (n_is_zero n) eqn:Z.
      - pose proof (num_qi_zero n z Ez Z) as Z0.
        assert (RZ : qi_eq (rho nm) qi_zero) by (etransitivity; eassumption).
        destruct (apply_upd (add_complex A nm) nm U_zero) as [A2| | |] eqn:EA; try discriminate H. cbn [bind] in H.
        injection H as <-.
        assert (O2 : assum_ok rho A2) by (eapply apply_upd_ok; [exact EA | now apply add_complex_ok | now apply upd_zero]).
        destruct RZ as [R1 R2]. cbn [qi_zero fst snd] in R1, R2.
        apply add_sets_ok; auto; intros _; cbn; unfold qi_real; try exact R2.
        split; [exact R2|]. exists 0%Z. exact R1.
      - eapply apply_upd_ok; [exact H | now apply add_complex_ok | apply upd_nonzero].
        intro RZ. apply (num_qi_nonzero n z Ez Z). etransitivity; [symmetry; exact S | exact RZ]. }
    destruct (c =? TC_Unequality)%N.
    { destruct (as_num a1) as [n|] eqn:E1; [destruct (sym_name a2) as [nm|] eqn:E2|]; try (injection H as <-; exact O).
      destruct (num_qi n) as [z|] eqn:Ez; [|contradiction].
      destruct (n_is_zero n) eqn:Z; [|injection H as <-; exact O].
      eapply apply_upd_ok; [exact H | exact O | apply upd_nonzero].
      intro RZ. apply S. etransitivity; [exact RZ|]. symmetry. now apply (num_qi_zero n). }
    injection H as <-. exact O.
  - (* Contains *)
    destruct (c =? TC_Contains)%N eqn:EC; [|injection H as <-; exact O].
    destruct x as [n|nm| | | | | | | | | | | | | | | | ]; cbn [sym_name] in H; try (injection H as <-; exact O).
    destruct st as [ | | | | | | | | | | | | | | | | |t]; try (injection H as <-; exact O).
    cbn [stmt_holds] in S. rewrite EC in S.
    destruct (t =? TC_Complexes)%N; [injection H as <-; apply add_sets_ok; auto; discriminate|].
    destruct (t =? TC_Reals)%N; [injection H as <-; apply add_sets_ok; auto; discriminate|].
    destruct (t =? TC_Rationals)%N; [injection H as <-; apply add_sets_ok; auto; discriminate|].
    destruct (t =? TC_Integers)%N; [injection H as <-; destruct S as [S1 S2]; apply add_sets_ok; auto; intros _; cbn; auto|].
    injection H as <-. exact O.
Qed.

Lemma assum_empty_ok : forall rho, assum_ok rho assum_empty.
Proof.
  intro rho. constructor; cbn; try (intros x H; discriminate H); intro x; split; intro H; discriminate H.
Qed.

Lemma mk_assum_from_ok : forall rho l A a,
  mk_assum_from A l = Ok a -> assum_ok rho A -> sat rho l -> assum_ok rho a.
Proof.
  induction l as [|s l IH]; intros A a H O S; cbn [mk_assum_from] in H.
  - injection H as <-. exact O.
  - destruct (add_stmt A s) as [A'| | |] eqn:E; try discriminate H. cbn [bind] in H.
    inversion S; subst. eapply IH; eauto. eapply add_stmt_ok; eauto.
Qed.

(* C34: the internal form of the assumptions only records facts that hold at every valuation
   satisfying the statements *)
Theorem mk_assum_sound : forall rho l a, mk_assum l = Ok a -> sat rho l -> assum_ok rho a.
Proof. intros rho l a H S. eapply mk_assum_from_ok; eauto. apply assum_empty_ok. Qed.

(* ------------------------------------------------------------------ symbols *)
Lemma sym_map_sound : forall rho A (f : assum -> list (list N * bool)) (P : val -> Prop) e t v,
  (forall a, A = Some a -> map_ok rho (f a) P) ->
  sym_map A f e = QT t -> denote rho e = Some v -> (t = TT -> P v) /\ (t = TF -> ~ P v).
Proof.
  intros rho A f P e t v M H D. unfold sym_map in H.
  destruct A as [a|]; destruct e; try (injection H as <-; split; discriminate).
  cbn in D. injection D as <-. injection H as <-. apply (M a eq_refl).
Qed.
Lemma sym_set_sound : forall rho A (f : assum -> list (list N)) (P : val -> Prop) e t v,
  (forall a, A = Some a -> set_ok rho (f a) P) ->
  sym_set A f e = QT t -> denote rho e = Some v -> (t = TT -> P v) /\ (t = TF -> False).
Proof.
  intros rho A f P e t v M H D. unfold sym_set in H.
  destruct A as [a|]; destruct e; try (injection H as <-; split; discriminate).
  cbn in D. injection D as <-. injection H as <-. unfold tri_mem.
  destruct (mem_name name (f a)) eqn:E; split; try discriminate. intros _. now apply (M a eq_refl).
Qed.

(* ------------------------------------------------------------------ square roots *)
Lemma qsqrt_sound : forall q s, qsqrt q = Some s -> s * s == q /\ 0 <= s.
Proof.
  intros q s H. unfold qsqrt in H.
  destruct (0 <=? Qnum (Qred q))%Z eqn:E0; [|discriminate H].
  destruct (_ && _) eqn:E1; [|discriminate H]. injection H as <-.
  apply andb_prop in E1. destruct E1 as [E1 E2]. apply Z.eqb_eq in E1, E2. apply Z.leb_le in E0.
  set (n := Qnum (Qred q)) in *. set (d := Qden (Qred q)) in *.
  assert (SD : (0 < Z.sqrt (Zpos d))%Z).
  { pose proof (Z.sqrt_nonneg (Zpos d)). destruct (Z.eq_dec (Z.sqrt (Zpos d)) 0) as [Z0|]; [|lia]. rewrite Z0 in E2. discriminate E2. }
  split.
  - rewrite <- (Qred_correct q). unfold Qeq, Qmult. cbn [Qnum Qden]. fold n d.
    cbn in E2 |- *. rewrite E1. rewrite E2. reflexivity.
  - unfold Qle. cbn [Qnum Qden]. pose proof (Z.sqrt_nonneg n). lia.
Qed.

Lemma Qsq_zero : forall r, r * r == 0 -> r == 0.
Proof. intros r H. nra. Qed.

(* ------------------------------------------------------------------ ZeroVisitor *)
Lemma qi_abs_zero_iff : forall z w, qi_abs z = Some w -> (qi_eq w qi_zero <-> qi_eq z qi_zero).
Proof.
  intros [a b] w H. unfold qi_abs in H. cbn [fst snd] in H.
  destruct (qi_is_realb (a, b)) eqn:R.
  - injection H as <-. apply qi_is_realb_iff in R. unfold qi_real in R. cbn [fst snd] in R.
    unfold qi_eq, qi_zero. cbn [fst snd]. split; intros [H1 H2]; split; try reflexivity; try assumption.
    + destruct (Qlt_le_dec a 0) as [L|L].
      * rewrite (Qabs_neg a) in H1 by lra. lra.
      * rewrite (Qabs_pos a L) in H1. exact H1.
    + rewrite H1. reflexivity.
  - destruct (qsqrt (qi_norm2 (a, b))) as [r|] eqn:Q; [|discriminate H]. injection H as <-.
    destruct (qsqrt_sound _ _ Q) as [SQ _]. unfold qi_norm2 in SQ. cbn [fst snd] in SQ.
    assert (NR : ~ b == 0).
    { intro B. assert (qi_is_realb (a, b) = true) by (apply qi_is_realb_iff; exact B). congruence. }
    unfold qi_eq, qi_zero. cbn [fst snd]. split; intros [H1 H2].
    + exfalso. apply NR. rewrite H1 in SQ. nra.
    + contradiction.
Qed.

Lemma Zsgn_zero_iff : forall a : Q, inject_Z (Z.sgn (Qnum a)) == 0 <-> a == 0.
Proof.
  intros [n d]. unfold Qeq. cbn. split; intro H.
  - destruct n; cbn in *; lia.
  - destruct n; cbn in *; lia.
Qed.

Lemma qi_sign_zero_iff : forall z w, qi_sign z = Some w -> (qi_eq w qi_zero <-> qi_eq z qi_zero).
Proof.
  intros [a b] w H. unfold qi_sign in H. cbn [fst snd] in H.
  destruct (qi_is_realb (a, b)) eqn:R.
  - injection H as <-. apply qi_is_realb_iff in R. unfold qi_real in R. cbn [fst snd] in R.
    unfold qi_eq, qi_zero, q_sgn. cbn [fst snd]. rewrite Zsgn_zero_iff. split; intros [H1 H2]; split; try reflexivity; assumption.
  - destruct (qsqrt (qi_norm2 (a, b))) as [r|] eqn:Q; [|discriminate H]. injection H as <-.
    destruct (qsqrt_sound _ _ Q) as [SQ RP]. unfold qi_norm2 in SQ. cbn [fst snd] in SQ.
    assert (NR : ~ b == 0).
    { intro B. assert (qi_is_realb (a, b) = true) by (apply qi_is_realb_iff; exact B). congruence. }
    assert (RN : ~ r == 0) by (intro E; apply NR; rewrite E in SQ; nra).
    unfold qi_eq, qi_zero, qi_div, qi_norm2. cbn [fst snd]. split; intros [H1 H2]; [|contradiction].
    exfalso. apply NR.
    assert (D : ~ r * r + 0 * 0 == 0) by (intro E; apply RN; nra).
    assert (E2 : b * r - a * 0 == ((b * r - a * 0) / (r * r + 0 * 0)) * (r * r + 0 * 0)) by (field; exact RN).
    rewrite H2, Qmult_0_l in E2. nra.
Qed.

Lemma oassum_zero : forall rho A, oassum_ok rho A -> forall a, A = Some a -> map_ok rho (a_zero a) v_zero.
Proof. intros rho A O a ->. apply O. Qed.

Lemma num_val_zero_sound : forall n v, num_val n = Some v ->
  (n_is_zero n = true -> v_zero v) /\ (n_is_zero n = false -> ~ v_zero v).
Proof.
  intros n v H. destruct v as [z| | | |]; try (split; [|intros _ K; exact K]; intro Z;
    destruct n as [k|p d|rn rd imn imd| | |dir|]; cbn in H; try discriminate H; try discriminate Z;
    try (destruct (rat_canon p d); discriminate H); try (destruct (imn =? 0)%Z; discriminate H)).
  assert (F : num_qi n = Some z) by (unfold num_qi; rewrite H; reflexivity).
  split; intro Z; cbn [v_zero]; [now apply (num_qi_zero n) | now apply (num_qi_nonzero n)].
Qed.

Theorem zero_sound : forall rho A, oassum_ok rho A -> forall e t v,
  q_zero A e = QT t -> denote rho e = Some v -> (t = TT -> v_zero v) /\ (t = TF -> ~ v_zero v).
Proof.
  intros rho A O. induction e; intros t v H D; cbn [q_zero] in H;
    try (destruct (is_setbool _); [discriminate H | injection H as <-; split; discriminate]).
  - (* numbers *)
    cbn [denote] in D. injection H as <-. destruct (num_val_zero_sound n v D) as [Z1 Z2].
    split; intro E; [apply tri_of_bool_TT in E | apply tri_of_bool_TF in E]; auto.
  - eapply sym_map_sound; eauto. now apply oassum_zero.
  - eapply sym_map_sound; eauto. now apply oassum_zero.
  - discriminate D.
  - (* one-argument functions *)
    cbn [denote] in D. destruct (vfin (denote rho e)) as [z|] eqn:V; [|discriminate D].
    assert (DV : denote rho e = Some (VC z)).
    { destruct (denote rho e) as [[w| | | |]|]; try discriminate V. injection V as ->. reflexivity. }
    destruct ((code =? TC_Abs)%N || (code =? TC_Conjugate)%N || (code =? TC_Sign)%N) eqn:C.
    + destruct (IHe t (VC z) H DV) as [I1 I2]. cbn [v_zero] in I1, I2.
      destruct (code =? TC_Abs)%N eqn:CA.
      { destruct (qi_abs z) as [w|] eqn:QA; [|discriminate D]. injection D as <-. cbn [v_zero].
        pose proof (qi_abs_zero_iff z w QA). tauto. }
      destruct (code =? TC_Sign)%N eqn:CS.
      { destruct (qi_sign z) as [w|] eqn:QA; [|discriminate D]. injection D as <-. cbn [v_zero].
        pose proof (qi_sign_zero_iff z w QA). tauto. }
      cbn [orb] in C. rewrite orb_false_r in C. rewrite C in D. injection D as <-. cbn [v_zero].
      assert (K : qi_eq (qi_conj z) qi_zero <-> qi_eq z qi_zero).
      { destruct z as [a b]. unfold qi_conj, qi_eq, qi_zero. cbn [fst snd]. split; intros [H1 H2]; split; try assumption; lra. }
      tauto.
    + destruct (code =? TC_PrimePi)%N; [discriminate H|]. destruct (code =? TC_Not)%N; [discriminate H|].
      injection H as <-. split; discriminate.
Qed.

(* ------------------------------------------------------------------ sign queries on literals *)
Lemma num_val_sign : forall n v, num_val n = Some v ->
  match v with
  | VC z =>
      (exists q, num_q n = Some q /\ z = (q, 0) /\ n_is_a_Complex n = false) \/
      (n_is_a_Complex n = true /\ ~ qi_real z)
  | VPInf => n_is_a_Complex n = false /\ n_is_positive n = true /\ n_is_negative n = false
  | VNInf => n_is_a_Complex n = false /\ n_is_positive n = false /\ n_is_negative n = true
  | VZoo => n = NInf 0
  | VNaN => n = NNaN
  end.
Proof.
  intros [k|p d|rn rd imn imd| | |dir|] v H; cbn in H; try discriminate H.
  - injection H as <-. left. exists (inject_Z k). repeat split.
  - destruct (rat_canon p d) eqn:E; [|discriminate H]. injection H as <-. left. exists (Qmake p d). cbn. rewrite E. repeat split.
  - destruct (imn =? 0)%Z eqn:E; [discriminate H|]. injection H as <-. right. split; [reflexivity|].
    unfold qi_real. cbn [snd]. now apply Qmake_nonzero.
  - destruct (0 <? dir)%Z eqn:E1; [injection H as <-; cbn; rewrite E1; repeat split; apply Z.ltb_lt in E1; apply Z.ltb_ge; lia|].
    destruct (dir <? 0)%Z eqn:E2; injection H as <-; cbn; [rewrite E1, E2; repeat split|].
    apply Z.ltb_ge in E1, E2. f_equal. lia.
  - injection H as <-. reflexivity.
Qed.

Lemma oassum_field : forall rho A (P : assum -> Prop), oassum_ok rho A ->
  (forall a, assum_ok rho a -> P a) -> forall a, A = Some a -> P a.
Proof. intros rho A P O H a ->. apply H. exact O. Qed.

Theorem negative_sound : forall rho A, oassum_ok rho A -> forall e t v,
  is_negative A e = QT t -> denote rho e = Some v -> (t = TT -> v_negative v) /\ (t = TF -> ~ v_negative v).
Proof.
  intros rho A O e t v H D. destruct e; cbn [is_negative] in H;
    try (destruct (is_setbool _); [discriminate H | injection H as <-; split; discriminate]).
  - cbn [denote] in D. pose proof (num_val_sign n v D) as S. injection H as <-.
    destruct v as [z| | | |]; cbn [v_negative].
    + destruct S as [(q & Hq & -> & C)|[C NR]]; rewrite C.
      * destruct (n_is_negative n) eqn:E; cbn [tri_of_bool]; split; try discriminate; intros _.
        -- split; [reflexivity|]. now apply (num_q_negative n).
        -- intros [_ K]. cbn [fst] in K. pose proof (num_q_not_negative n q Hq E). lra.
      * split; [discriminate|]. intros _ [K _]. contradiction.
    + destruct S as (C & P & N). rewrite C, N. split; [discriminate | tauto].
    + destruct S as (C & P & N). rewrite C, N. split; [tauto | discriminate].
    + subst n. cbn. split; [discriminate | tauto].
    + subst n. cbn. split; [discriminate | tauto].
  - eapply sym_map_sound; eauto. apply (oassum_field rho A (fun a => map_ok rho (a_negative a) v_negative) O). intros a K. apply K.
  - eapply sym_map_sound; eauto. apply (oassum_field rho A (fun a => map_ok rho (a_negative a) v_negative) O). intros a K. apply K.
  - discriminate D.
Qed.

Lemma inject_Z_Qmake : forall k, inject_Z k = Qmake k 1.
Proof. reflexivity. Qed.

(* NonNegativeVisitor / NonPositiveVisitor (after the repair 089e9a7: nan and zoo answer false) *)
Theorem nonnegative_sound : forall rho A, oassum_ok rho A -> forall e t v,
  is_nonnegative A e = QT t -> denote rho e = Some v -> (t = TT -> v_nonnegative v) /\ (t = TF -> ~ v_nonnegative v).
Proof.
  intros rho A O e t v H D. destruct e; cbn [is_nonnegative] in H;
    try (destruct (is_setbool _); [discriminate H | injection H as <-; split; discriminate]).
  - cbn [denote] in D. injection H as <-.
    destruct n as [k|p d|rn rd imn imd|b|re im|dir|]; cbn in D; try discriminate D.
    + injection D as <-. cbn. destruct (k <? 0)%Z eqn:E; split; try discriminate; intros _.
      * intros [_ K]. cbn [fst] in K. pose proof (Qmake_neg k 1 E). rewrite inject_Z_Qmake in K. lra.
      * split; [reflexivity|]. cbn [fst]. rewrite inject_Z_Qmake. now apply Qmake_nonneg.
    + destruct (rat_canon p d); [|discriminate D]. injection D as <-. cbn. destruct (p <? 0)%Z eqn:E; split; try discriminate; intros _.
      * intros [_ K]. cbn [fst] in K. pose proof (Qmake_neg p d E). lra.
      * split; [reflexivity|]. cbn [fst]. now apply Qmake_nonneg.
    + destruct (imn =? 0)%Z eqn:E; [discriminate D|]. injection D as <-. cbn. split; [discriminate|].
      intros _ [K _]. unfold qi_real in K. cbn [snd] in K. now apply (Qmake_nonzero imn imd E).
    + destruct dir as [|p|p]; cbn in D |- *; injection D as <-; cbn; split; try discriminate; tauto.
    + injection D as <-. cbn. split; [discriminate | tauto].
  - eapply sym_map_sound; eauto. apply (oassum_field rho A (fun a => map_ok rho (a_nonnegative a) v_nonnegative) O). intros a K. apply K.
  - eapply sym_map_sound; eauto. apply (oassum_field rho A (fun a => map_ok rho (a_nonnegative a) v_nonnegative) O). intros a K. apply K.
  - discriminate D.
Qed.

Theorem nonpositive_sound : forall rho A, oassum_ok rho A -> forall e t v,
  is_nonpositive A e = QT t -> denote rho e = Some v -> (t = TT -> v_nonpositive v) /\ (t = TF -> ~ v_nonpositive v).
Proof.
  intros rho A O e t v H D. destruct e; cbn [is_nonpositive] in H;
    try (destruct (is_setbool _); [discriminate H | injection H as <-; split; discriminate]).
  - cbn [denote] in D. injection H as <-.
    destruct n as [k|p d|rn rd imn imd|b|re im|dir|]; cbn in D; try discriminate D.
    + injection D as <-. cbn. destruct (0 <? k)%Z eqn:E; split; try discriminate; intros _.
      * intros [_ K]. cbn [fst] in K. pose proof (Qmake_pos k 1 E). rewrite inject_Z_Qmake in K. lra.
      * split; [reflexivity|]. cbn [fst]. rewrite inject_Z_Qmake. now apply Qmake_nonpos.
    + destruct (rat_canon p d); [|discriminate D]. injection D as <-. cbn. destruct (0 <? p)%Z eqn:E; split; try discriminate; intros _.
      * intros [_ K]. cbn [fst] in K. pose proof (Qmake_pos p d E). lra.
      * split; [reflexivity|]. cbn [fst]. now apply Qmake_nonpos.
    + destruct (imn =? 0)%Z eqn:E; [discriminate D|]. injection D as <-. cbn. split; [discriminate|].
      intros _ [K _]. unfold qi_real in K. cbn [snd] in K. now apply (Qmake_nonzero imn imd E).
    + destruct dir as [|p|p]; cbn in D |- *; injection D as <-; cbn; split; try discriminate; tauto.
    + injection D as <-. cbn. split; [discriminate | tauto].
  - eapply sym_map_sound; eauto. apply (oassum_field rho A (fun a => map_ok rho (a_nonpositive a) v_nonpositive) O). intros a K. apply K.
  - eapply sym_map_sound; eauto. apply (oassum_field rho A (fun a => map_ok rho (a_nonpositive a) v_nonpositive) O). intros a K. apply K.
  - discriminate D.
Qed.

(* the former guarded statements (the guard is no longer needed) *)
Theorem nonnegative_sound_guarded : forall rho A, oassum_ok rho A -> forall e t v, sign_guard e = true ->
  is_nonnegative A e = QT t -> denote rho e = Some v -> (t = TT -> v_nonnegative v) /\ (t = TF -> ~ v_nonnegative v).
Proof. intros rho A O e t v _. now apply nonnegative_sound. Qed.
Theorem nonpositive_sound_guarded : forall rho A, oassum_ok rho A -> forall e t v, sign_guard e = true ->
  is_nonpositive A e = QT t -> denote rho e = Some v -> (t = TT -> v_nonpositive v) /\ (t = TF -> ~ v_nonpositive v).
Proof. intros rho A O e t v _. now apply nonpositive_sound. Qed.

(* ------------------------------------------------------------------ PositiveVisitor *)
Lemma vfin_denote : forall rho e z, vfin (denote rho e) = Some z -> denote rho e = Some (VC z).
Proof.
  intros rho e z V. destruct (denote rho e) as [[w| | | |]|]; try discriminate V. injection V as ->. reflexivity.
Qed.

(* sign of a finite literal used as a coefficient *)
Lemma coef_positive : forall n z, vfin (num_val n) = Some z -> n_is_positive n = true -> qi_real z /\ 0 < fst z.
Proof.
  intros n z H P. destruct (num_fin_cases n z H) as [(q & Hq & ->)|(rn & rd & imn & imd & -> & _ & _)]; [|discriminate P].
  split; [reflexivity|]. now apply (num_q_positive n).
Qed.
Lemma coef_negative : forall n z, vfin (num_val n) = Some z -> n_is_negative n = true -> qi_real z /\ fst z < 0.
Proof.
  intros n z H P. destruct (num_fin_cases n z H) as [(q & Hq & ->)|(rn & rd & imn & imd & -> & _ & _)]; [|discriminate P].
  split; [reflexivity|]. now apply (num_q_negative n).
Qed.

Lemma real_mul_pos : forall v k, qi_real v -> qi_real k -> 0 < fst v * fst k ->
  qi_real (qi_mul v k) /\ 0 < fst (qi_mul v k).
Proof. intros [a b] [c d]. unfold qi_real, qi_mul. cbn [fst snd]. intros B D P. split; nra. Qed.
Lemma real_mul_neg : forall v k, qi_real v -> qi_real k -> fst v * fst k < 0 ->
  qi_real (qi_mul v k) /\ fst (qi_mul v k) < 0.
Proof. intros [a b] [c d]. unfold qi_real, qi_mul. cbn [fst snd]. intros B D P. split; nra. Qed.

Section PosLoop.
  Variable rho : valuation.
  Variable pos neg : expr -> qr.
  Definition term_sem (p : expr * number) (acc : option qi) : option qi :=
    add_step (vfin (denote rho (fst p))) (vfin (num_val (snd p))) acc.
  Variable d0 : list (expr * number).
  Hypothesis pos_ok : forall k t v, In k (map fst d0) -> pos k = QT t -> denote rho k = Some v ->
    (t = TT -> v_positive v) /\ (t = TF -> ~ v_positive v).
  Hypothesis neg_ok : forall k t v, neg k = QT t -> denote rho k = Some v ->
    (t = TT -> v_negative v) /\ (t = TF -> ~ v_negative v).

  Lemma pos_add_loop_sound : forall d, incl d d0 -> forall ct cf t,
    pos_add_loop pos neg d ct cf = QT t ->
    (t = TT -> ct = true /\ forall a z, fold_right term_sem (Some a) d = Some z ->
                 snd z == snd a /\ fst a <= fst z /\ (d <> [] -> fst a < fst z)) /\
    (t = TF -> cf = true /\ forall a z, fold_right term_sem (Some a) d = Some z ->
                 snd z == snd a /\ fst z <= fst a).
  Proof.
    induction d as [|[k v] r IH]; intros INC ct cf t H; cbn [pos_add_loop] in H.
    - injection H as <-. split; intro E.
      + destruct ct; [|destruct cf; discriminate E]. split; [reflexivity|].
        intros a z F. cbn in F. injection F as <-. repeat split; try reflexivity; try apply Qle_refl. intro K. now elim K.
      + destruct ct; [discriminate E|]. destruct cf; [|discriminate E]. split; [reflexivity|].
        intros a z F. cbn in F. injection F as <-. split; [reflexivity | apply Qle_refl].
    - destruct (negb ct && negb cf) eqn:B.
      { injection H as <-. split; discriminate. }
      assert (INk : In k (map fst d0)) by (apply in_map_iff; exists (k, v); split; [reflexivity | apply INC; left; reflexivity]).
      assert (INCr : incl r d0) by (intros x Hx; apply INC; right; exact Hx).
      destruct (pos k) as [p| | |] eqn:EP; try discriminate H. cbn [qbind] in H.
      (* what a step of the fold adds *)
      assert (STEP : forall a z, fold_right term_sem (Some a) ((k, v) :: r) = Some z ->
                exists kz vz s, vfin (denote rho k) = Some kz /\ vfin (num_val v) = Some vz /\
                  fold_right term_sem (Some a) r = Some s /\ z = qi_add (qi_mul vz kz) s).
      { intros a z F. cbn [fold_right] in F. unfold term_sem at 1 in F. cbn [fst snd] in F. unfold add_step in F.
        destruct (fold_right term_sem (Some a) r) as [s|]; [|discriminate F].
        destruct (vfin (num_val v)) as [vz|]; [|discriminate F].
        destruct (vfin (denote rho k)) as [kz|]; [|discriminate F]. injection F as <-. eauto 8. }
      (* first condition *)
      set (c1 := if n_is_positive v && t_true p then QT TT
                 else if n_is_negative v then qmap (fun t0 => tri_of_bool (t_true t0)) (neg k) else QT TF) in H.
      destruct c1 as [c1v| | |] eqn:EC1; try discriminate H. cbn [qbind] in H.
      destruct (t_true c1v) eqn:T1.
      { (* the term is positive *)
        assert (TP : forall kz vz, vfin (denote rho k) = Some kz -> vfin (num_val v) = Some vz ->
                  qi_real (qi_mul vz kz) /\ 0 < fst (qi_mul vz kz)).
        { intros kz vz Dk Dv. apply vfin_denote in Dk. subst c1.
          destruct (n_is_positive v && t_true p) eqn:A1.
          - apply andb_prop in A1. destruct A1 as [A1 A2]. destruct p; try discriminate A2.
            destruct (pos_ok k TT (VC kz) INk EP Dk) as [PK _]. destruct (PK eq_refl) as [RK GK].
            destruct (coef_positive v vz Dv A1) as [RV GV]. apply real_mul_pos; auto. nra.
          - destruct (n_is_negative v) eqn:A3; [|injection EC1 as <-; discriminate T1].
            destruct (neg k) as [nk| | |] eqn:EN; try discriminate EC1. cbn [qmap qbind] in EC1. injection EC1 as <-.
            destruct nk; try discriminate T1.
            destruct (neg_ok k TT (VC kz) EN Dk) as [NK _]. destruct (NK eq_refl) as [RK GK].
            destruct (coef_negative v vz Dv A3) as [RV GV]. apply real_mul_pos; auto. nra. }
        destruct (IH INCr ct false t H) as [I1 I2]. split; intro E.
        - destruct (I1 E) as [CT I]. split; [exact CT|]. intros a z F.
          destruct (STEP a z F) as (kz & vz & s & Dk & Dv & Fs & ->).
          destruct (I a s Fs) as (Rs & Ps & _). destruct (TP kz vz Dk Dv) as [Rt Pt].
          unfold qi_real, qi_add in *. cbn [fst snd] in *. repeat split; first [lra | intros _; lra].
        - destruct (I2 E) as [CF _]. discriminate CF. }
      set (c2 := if n_is_negative v && t_true p then QT TT
                 else if n_is_positive v then qmap (fun t0 => tri_of_bool (t_true t0)) (neg k) else QT TF) in H.
      destruct c2 as [c2v| | |] eqn:EC2; try discriminate H. cbn [qbind] in H.
      destruct (t_true c2v) eqn:T2.
      { (* the term is negative *)
        assert (TN : forall kz vz, vfin (denote rho k) = Some kz -> vfin (num_val v) = Some vz ->
                  qi_real (qi_mul vz kz) /\ fst (qi_mul vz kz) < 0).
        { intros kz vz Dk Dv. apply vfin_denote in Dk. subst c2.
          destruct (n_is_negative v && t_true p) eqn:A1.
          - apply andb_prop in A1. destruct A1 as [A1 A2]. destruct p; try discriminate A2.
            destruct (pos_ok k TT (VC kz) INk EP Dk) as [PK _]. destruct (PK eq_refl) as [RK GK].
            destruct (coef_negative v vz Dv A1) as [RV GV]. apply real_mul_neg; auto. nra.
          - destruct (n_is_positive v) eqn:A3; [|injection EC2 as <-; discriminate T2].
            destruct (neg k) as [nk| | |] eqn:EN; try discriminate EC2. cbn [qmap qbind] in EC2. injection EC2 as <-.
            destruct nk; try discriminate T2.
            destruct (neg_ok k TT (VC kz) EN Dk) as [NK _]. destruct (NK eq_refl) as [RK GK].
            destruct (coef_positive v vz Dv A3) as [RV GV]. apply real_mul_neg; auto. nra. }
        destruct (IH INCr false cf t H) as [I1 I2]. split; intro E.
        - destruct (I1 E) as [CT _]. discriminate CT.
        - destruct (I2 E) as [CF I]. split; [exact CF|]. intros a z F.
          destruct (STEP a z F) as (kz & vz & s & Dk & Dv & Fs & ->).
          destruct (I a s Fs) as (Rs & Ps). destruct (TN kz vz Dk Dv) as [Rt Pt].
          unfold qi_real, qi_add in *. cbn [fst snd] in *. split; lra. }
      destruct (IH INCr false false t H) as [I1 I2]. split; intro E.
      + destruct (I1 E) as [CT _]. discriminate CT.
      + destruct (I2 E) as [CF _]. discriminate CF.
  Qed.
End PosLoop.

Lemma fold_term_none : forall rho d, fold_right (term_sem rho) None d = None.
Proof. induction d as [|p r IH]; cbn [fold_right]; [reflexivity|]. rewrite IH. reflexivity. Qed.

Lemma pos_guard_add : forall c d, pos_guard (EAdd c d) = true ->
  d <> [] /\ forall k, In k (map fst d) -> pos_guard k = true.
Proof.
  intros c d G. cbn [pos_guard] in G. apply andb_prop in G. destruct G as [G2 G3].
  split.
  - intro E. subst d. discriminate G2.
  - intros k Hk. apply in_map_iff in Hk. destruct Hk as ([k' v] & <- & Hin).
    rewrite forallb_forall in G3. apply (G3 _ Hin).
Qed.

Theorem positive_sound_fuel : forall rho A, oassum_ok rho A -> forall fuel e t v, pos_guard e = true ->
  q_positive A fuel e = QT t -> denote rho e = Some v -> (t = TT -> v_positive v) /\ (t = TF -> ~ v_positive v).
Proof.
  intros rho A O. induction fuel as [|f IH]; intros e t v G H D; [discriminate H|].
  cbn [q_positive] in H. destruct e;
    try (destruct (is_setbool _); [discriminate H | injection H as <-; split; discriminate]).
  - (* numbers *)
    cbn [denote] in D. pose proof (num_val_sign n v D) as S. injection H as <-.
    destruct v as [z| | | |]; cbn [v_positive].
    + destruct S as [(q & Hq & -> & C)|[C NR]]; rewrite C.
      * destruct (n_is_positive n) eqn:E; cbn [tri_of_bool]; split; try discriminate; intros _.
        -- split; [reflexivity|]. now apply (num_q_positive n).
        -- intros [_ K]. cbn [fst] in K. pose proof (num_q_not_positive n q Hq E). lra.
      * split; [discriminate|]. intros _ [K _]. contradiction.
    + destruct S as (C & P & N). rewrite C, P. split; [tauto | discriminate].
    + destruct S as (C & P & N). rewrite C, P. split; [discriminate | tauto].
    + subst n. cbn. split; [discriminate | tauto].
    + subst n. cbn. split; [discriminate | tauto].
  - eapply sym_map_sound; eauto. apply (oassum_field rho A (fun a => map_ok rho (a_positive a) v_positive) O). intros a K. apply K.
  - eapply sym_map_sound; eauto. apply (oassum_field rho A (fun a => map_ok rho (a_positive a) v_positive) O). intros a K. apply K.
  - discriminate D.
  - (* Add *)
    destruct (pos_guard_add coef d G) as (GD & GK).
    cbn [denote] in D.
    change (fold_right (fun p acc => add_step (vfin (denote rho (fst p))) (vfin (num_val (snd p))) acc) (vfin (num_val coef)) d)
      with (fold_right (term_sem rho) (vfin (num_val coef)) d) in D.
    destruct (vfin (num_val coef)) as [cz|] eqn:EC.
    2:{ rewrite fold_term_none in D. discriminate D. }
    destruct (fold_right (term_sem rho) (Some cz) d) as [z|] eqn:EF; [|discriminate D]. injection D as <-.
    pose proof (pos_add_loop_sound rho (q_positive A f) (is_negative A) d
                  (fun k t0 v0 Hk => IH k t0 v0 (GK k Hk)) (negative_sound rho A O) d (incl_refl d)
                  _ _ t H) as [L1 L2].
    cbn [v_positive]. unfold qi_real. split; intro E.
    + destruct (L1 E) as [CT I]. apply andb_prop in CT. destruct CT as [CT1 CT2].
      apply negb_true_iff in CT1, CT2. destruct (I cz z EF) as (Sz & _ & Pz).
      destruct (num_fin_cases coef cz EC) as [(q & Hq & ->)|(rn & rd & imn & imd & -> & _)]; [|discriminate CT2].
      cbn [fst snd] in *. pose proof (num_q_not_negative coef q Hq CT1). split; [exact Sz|]. specialize (Pz GD). lra.
    + destruct (L2 E) as [CF I]. apply negb_true_iff in CF. destruct (I cz z EF) as (Sz & Pz).
      destruct (num_fin_cases coef cz EC) as [(q & Hq & ->)|(rn & rd & imn & imd & -> & NI & ->)]; cbn [fst snd] in *.
      * pose proof (num_q_not_positive coef q Hq CF). intros [_ K]. lra.
      * intros [K _]. rewrite Sz in K. now apply (Qmake_nonzero imn imd NI).
Qed.

(* pos_guard: every sum has at least one term *)
Theorem positive_sound_guarded : forall rho A, oassum_ok rho A -> forall e t v, pos_guard e = true ->
  is_positive A e = QT t -> denote rho e = Some v -> (t = TT -> v_positive v) /\ (t = TF -> ~ v_positive v).
Proof. intros rho A O e t v G H D. eapply positive_sound_fuel; eauto. Qed.
