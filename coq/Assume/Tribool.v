(* C34/C35 -- the three-valued logic of symengine/tribool.h.
   enum class tribool { indeterminate = -1, trifalse = 0, tritrue = 1 }; the bit tricks of
   and_tribool (a & b, a | b on the unsigned casts) are transcribed by their truth tables. *)
From Coq Require Import Bool.

Inductive tribool := TI | TF | TT.

Definition tri_of_bool (b : bool) : tribool := if b then TT else TF.
Definition t_true (t : tribool) : bool := match t with TT => true | _ => false end.
Definition t_false (t : tribool) : bool := match t with TF => true | _ => false end.
Definition t_indet (t : tribool) : bool := match t with TI => true | _ => false end.

(* !(a & b) => false; otherwise a | b: with -1 = all ones, 1 | -1 = -1 *)
Definition and_tribool (a b : tribool) : tribool :=
  match a, b with
  | TF, _ | _, TF => TF
  | TT, TT => TT
  | _, _ => TI
  end.
Definition or_tribool (a b : tribool) : tribool :=
  match a, b with
  | TT, _ | _, TT => TT
  | TI, _ | _, TI => TI
  | _, _ => TF
  end.
Definition not_tribool (a : tribool) : tribool :=
  match a with TI => TI | TF => TT | TT => TF end.
(* weak Kleene connectives *)
Definition andwk_tribool (a b : tribool) : tribool :=
  match a, b with
  | TI, _ | _, TI => TI
  | TT, TT => TT
  | _, _ => TF
  end.
Definition orwk_tribool (a b : tribool) : tribool :=
  match a, b with
  | TI, _ | _, TI => TI
  | TF, TF => TF
  | _, _ => TT
  end.

Definition tribool_eqb (a b : tribool) : bool :=
  match a, b with TI, TI | TF, TF | TT, TT => true | _, _ => false end.
