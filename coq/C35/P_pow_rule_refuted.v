From SE Require Import Assume.AssumeSem Assume.RefineModel Assume.C34Theorems Assume.RefineProofs.
From Coq Require Import QArith List ZArith.
Import ListNotations.

(* (b^k)^n -> abs(b)^(k n) for real b: refuted by sqrt(x^3) at x = -1 (value I, rewritten value 1).
   Intended statement, not provable:  refine_pow A (EPow b k) n = DAbs -> the two sides have the same value.
   No guarded version is proved (the guard is: k an even integer; see P_nonvacuous.v for instances). *)
Theorem C35_pow_rule_abs_refuted : exists st A rho,
  assum_of st = Ok A /\ osat rho st /\
  refine_pow A (EPow sx (ENum (NInt 3))) (ENum (NRat 1 2)) = DAbs /\
  denote rho (EPow (EPow sx (ENum (NInt 3))) (ENum (NRat 1 2))) = Some (VC (0, 1)) /\
  denote rho (EPow (EF1 TC_Abs sx) (ENum (NRat 3 2))) = Some (VC (1, 0)).
Proof. exact pow_rule_abs_refuted. Qed.
Print Assumptions C35_pow_rule_abs_refuted.
