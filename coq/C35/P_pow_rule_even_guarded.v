From SE Require Import Assume.AssumeSem Assume.RefineModel Assume.C34Theorems Assume.RefinePow.
From Coq Require Import QArith Qabs List ZArith.
Import ListNotations.

(* refine((b^k)^n) with k = 2j an even integer literal and n a half-integer literal (n = m/2, m odd):
   [f] is the value of (b^k)^n at a valuation satisfying the assumptions.
   DPos: the rule returns b^(k n): f is the (j m)-th power of the value of b;
   DAbs: it returns abs(b)^(k n): f is the (j m)-th power of the absolute value of b.
   (k n = j m is the exponent the library computes with mul(n, k).)
   Without the guard on k the DAbs rule is refuted: P_pow_rule_refuted.v. *)
Theorem C35_pow_rule_even_guarded : forall rho st A, assum_of st = Ok A -> osat rho st ->
  (forall ib xn j n m bz f,
     refine_pow A (EPow ib (ENum (NInt (2 * j)))) (ENum xn) = DPos ->
     keys_ok ib = true -> pos_guard ib = true ->
     vfin (denote rho ib) = Some bz -> vfin (num_val xn) = Some (n, 0%Q) ->
     q_as_int n = None -> q_as_int (2 * n) = Some m ->
     qi_pow (qi_powz bz (2 * j)) (n, 0%Q) = PFin f ->
     qi_eq f (qi_powz (fst bz, 0%Q) (j * m))) /\
  (forall ib xn j n m bz f,
     refine_pow A (EPow ib (ENum (NInt (2 * j)))) (ENum xn) = DAbs ->
     keys_ok ib = true ->
     vfin (denote rho ib) = Some bz -> vfin (num_val xn) = Some (n, 0%Q) ->
     q_as_int n = None -> q_as_int (2 * n) = Some m ->
     qi_pow (qi_powz bz (2 * j)) (n, 0%Q) = PFin f ->
     qi_eq f (qi_powz (Qabs (fst bz), 0%Q) (j * m))).
Proof.
  intros rho st A HA HS. pose proof (assum_of_ok rho st A HA HS) as O. split.
  - exact (pow_rule_pos_even rho A O).
  - exact (pow_rule_abs_even rho A O).
Qed.
Print Assumptions C35_pow_rule_even_guarded.
