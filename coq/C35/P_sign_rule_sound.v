From SE Require Import Assume.AssumeSem Assume.RefineModel Assume.C34Theorems Assume.RefineProofs.
From Coq Require Import QArith List ZArith.
Import ListNotations.

(* refine(sign(a)) -> 1, -1, 0 *)
Theorem C35_sign_rule_sound : forall rho st A, assum_of st = Ok A -> osat rho st ->
  (forall na z w, refine_sign A na = DOne -> pos_guard na = true ->
     vfin (denote rho na) = Some z -> qi_sign z = Some w -> qi_eq w (inject_Z 1, 0)) /\
  (forall na z w, refine_sign A na = DMone ->
     vfin (denote rho na) = Some z -> qi_sign z = Some w -> qi_eq w (inject_Z (-1), 0)) /\
  (forall na z w, refine_sign A na = DZero ->
     vfin (denote rho na) = Some z -> qi_sign z = Some w -> qi_eq w qi_zero).
Proof.
  intros rho st A HA HS. pose proof (assum_of_ok rho st A HA HS) as O. split; [|split].
  - exact (sign_rule_one rho A O).
  - exact (sign_rule_minus_one rho A O).
  - exact (sign_rule_zero rho A O).
Qed.
Print Assumptions C35_sign_rule_sound.
