From SE Require Import Assume.AssumeSem Assume.RefineModel Assume.C34Theorems Assume.RefineProofs.
From Coq Require Import QArith List ZArith.
Import ListNotations.

(* refine(abs(a)): [na] is the refined argument, z its value, w the value of abs(na).
   id: the rule returns na; neg: it returns -na; conj: na = conjugate(u) and it returns abs(u) *)
Theorem C35_abs_rule_sound : forall rho st A, assum_of st = Ok A -> osat rho st ->
  (forall na z w, refine_abs A na = DId -> vfin (denote rho na) = Some z -> qi_abs z = Some w -> qi_eq w z) /\
  (forall na z w, refine_abs A na = DNeg -> vfin (denote rho na) = Some z -> qi_abs z = Some w -> qi_eq w (qi_opp z)) /\
  (forall na inner zi w1 w2, refine_abs A na = DConj -> na = EF1 TC_Conjugate inner ->
     vfin (denote rho inner) = Some zi -> qi_abs (qi_conj zi) = Some w1 -> qi_abs zi = Some w2 -> qi_eq w1 w2).
Proof.
  intros rho st A HA HS. pose proof (assum_of_ok rho st A HA HS) as O. split; [|split].
  - exact (abs_rule_id rho A O).
  - exact (abs_rule_neg rho A O).
  - exact (abs_rule_conj rho A).
Qed.
Print Assumptions C35_abs_rule_sound.
