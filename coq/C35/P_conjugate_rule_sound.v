From SE Require Import Assume.AssumeSem Assume.RefineModel Assume.C34Theorems Assume.RefineProofs.
From Coq Require Import QArith List ZArith.
Import ListNotations.

(* refine(conjugate(a)) -> a when is_real(a) *)
Theorem C35_conjugate_rule_sound : forall rho st A, assum_of st = Ok A -> osat rho st ->
  forall na z, refine_conjugate A na = DId -> keys_ok na = true ->
  vfin (denote rho na) = Some z -> qi_eq (qi_conj z) z.
Proof.
  intros rho st A HA HS. exact (conjugate_rule_id rho A (assum_of_ok rho st A HA HS)).
Qed.
Print Assumptions C35_conjugate_rule_sound.
