From SE Require Import Assume.AssumeSem Assume.RefineModel Assume.C34Theorems Assume.RefineProofs.
From Coq Require Import QArith List ZArith.
Import ListNotations.

(* the rules fire on concrete inputs: abs(x) with x <= 0 is rewritten to -x, sign(x) with x > 0 to 1,
   floor(2*x) with integer x to 2*x, conjugate(x) with real x to x; the hypotheses of the rule theorems hold
   at x = -3 / x = 1/2 ... *)
Definition st_nonpos_x : option (list expr) := Some [EF2 TC_LessThan sx (ENum (NInt 0))].
Definition st_int_x : option (list expr) := Some [ELex TC_Contains sx (EAtom TC_Integers)].
Example C35_nonvacuous :
  (exists A, assum_of st_nonpos_x = Ok A /\ refine_abs A sx = DNeg) /\
  (exists A, assum_of st_pos_x = Ok A /\ refine_sign A sx = DOne /\ pos_guard sx = true) /\
  (exists A, assum_of st_int_x = Ok A /\ refine_floor A (EMul (NInt 2) [(sx, ENum (NInt 1))]) false = DId /\
             keys_ok (EMul (NInt 2) [(sx, ENum (NInt 1))]) = true) /\
  (exists A, assum_of st_real_x = Ok A /\ refine_conjugate A sx = DId) /\
  (exists A, assum_of st_pos_x = Ok A /\ refine_pow A (EPow sx (ENum (NInt 2))) (ENum (NRat 1 2)) = DPos) /\
  qi_abs (-3 # 1, 0) = Some (3, 0) /\ qi_floor (7 # 2, 0) = Some (3, 0) /\ qi_ceiling (7 # 2, 0) = Some (4, 0).
Proof. repeat split; try (eexists; repeat split; vm_compute; reflexivity); vm_compute; reflexivity. Qed.
Example C35_nonvacuous_pow_instances :
  denote (rho_const (-3 # 1, 0)) (EPow (EPow sx (ENum (NInt 2))) (ENum (NRat 1 2))) = Some (VC (3, 0)) /\
  denote (rho_const (-2 # 1, 0)) (EPow (EPow sx (ENum (NInt 2))) (ENum (NRat 3 2))) = Some (VC (8, 0)).
Proof. exact pow_rule_abs_even_instances. Qed.
(* the repaired Pow rule: an odd inner exponent is kept, an even one rewritten *)
Example C35_nonvacuous_pow_rule : exists st A rho,
  assum_of st = Ok A /\ osat rho st /\
  refine_pow A (EPow sx (ENum (NInt 3))) (ENum (NRat 1 2)) = DKeep /\
  refine_pow A (EPow sx (ENum (NInt 2))) (ENum (NRat 1 2)) = DAbs /\
  denote rho e_sqrt_x3 = Some (VC (0, 1)) /\ denote rho e_abs_x_32 = Some (VC (1, 0)).
Proof. exact pow_rule_odd_inner_exponent_kept. Qed.
