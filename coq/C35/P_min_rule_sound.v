From SE Require Import Assume.AssumeSem Assume.RefineModel Assume.C34Theorems Assume.RefineMaxMin.
From Coq Require Import QArith List ZArith.
Import ListNotations.

(* refine(min(a1 ... an)) = min of the arguments the rule keeps: the minimum is the same *)
Theorem C35_min_rule_sound : forall rho st A, assum_of st = Ok A -> osat rho st ->
  forall nas keep vals M M',
    refine_min A nas = DList keep ->
    (forall a, In a nas -> pos_guard a = true) ->
    reals_of (map (fun a => vfin (denote rho a)) nas) = Some vals ->
    q_minl vals = Some M -> q_minl (map (val_at vals) keep) = Some M' -> (M == M')%Q.
Proof.
  intros rho st A HA HS. exact (min_rule_sound rho A (assum_of_ok rho st A HA HS)).
Qed.
Print Assumptions C35_min_rule_sound.
