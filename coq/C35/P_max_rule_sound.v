From SE Require Import Assume.AssumeSem Assume.RefineModel Assume.C34Theorems Assume.RefineMaxMin.
From Coq Require Import QArith List ZArith.
Import ListNotations.

(* refine(max(a1 ... an)) = max of the arguments the rule keeps (positive ones, nonnegative ones, undecided ones;
   the nonpositive ones only when none is positive; the negative ones only when none is positive or nonnegative):
   [vals] are the (real) values of the refined arguments, [keep] the indices the model keeps; the maximum is the same.
   Min: P_min_rule_sound.v. *)
Theorem C35_max_rule_sound : forall rho st A, assum_of st = Ok A -> osat rho st ->
  forall nas keep vals M M',
    refine_max A nas = DList keep ->
    (forall a, In a nas -> pos_guard a = true) ->
    reals_of (map (fun a => vfin (denote rho a)) nas) = Some vals ->
    q_maxl vals = Some M -> q_maxl (map (val_at vals) keep) = Some M' -> (M == M')%Q.
Proof.
  intros rho st A HA HS. exact (max_rule_sound rho A (assum_of_ok rho st A HA HS)).
Qed.
Print Assumptions C35_max_rule_sound.
