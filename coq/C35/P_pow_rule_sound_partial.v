From SE Require Import Assume.AssumeSem Assume.RefineModel Assume.C34Theorems Assume.RefinePow.
From Coq Require Import QArith Qabs List ZArith.
Import ListNotations.

(* refine((b^k)^n).  Full statement (not proved): whenever refine_pow decides DPos / DAbs, (b^k)^n and b^(k n) /
   abs(b)^(k n) have the same value.
   Proved: (1) EVERY firing of the abs branch (it is only taken for an even integer k = 2j since the repair ef8465f;
   before, it was taken for every real k and refuted by sqrt(x^3) at x = -1) preserves the value, for a half-integer
   outer exponent n = m/2; (2) the positive branch for an even integer k.  [f] is the value of (b^k)^n; j m = k n is
   the exponent the library computes with mul(n, k).
   Missing: the positive branch with an odd or fractional k; outer exponents that are not half-integers (outside
   the semantic domain Q(i)). *)
Theorem C35_pow_rule_sound_partial : forall rho st A, assum_of st = Ok A -> osat rho st ->
  (forall nb ne, refine_pow A nb ne = DAbs ->
     exists ib j xn, nb = EPow ib (ENum (NInt (2 * j))) /\ ne = ENum xn /\
       forall n m bz f, keys_ok ib = true ->
         vfin (denote rho ib) = Some bz -> vfin (num_val xn) = Some (n, 0%Q) ->
         q_as_int n = None -> q_as_int (2 * n) = Some m ->
         qi_pow (qi_powz bz (2 * j)) (n, 0%Q) = PFin f ->
         qi_eq f (qi_powz (Qabs (fst bz), 0%Q) (j * m))) /\
  (forall ib xn j n m bz f,
     refine_pow A (EPow ib (ENum (NInt (2 * j)))) (ENum xn) = DPos ->
     keys_ok ib = true -> pos_guard ib = true ->
     vfin (denote rho ib) = Some bz -> vfin (num_val xn) = Some (n, 0%Q) ->
     q_as_int n = None -> q_as_int (2 * n) = Some m ->
     qi_pow (qi_powz bz (2 * j)) (n, 0%Q) = PFin f ->
     qi_eq f (qi_powz (fst bz, 0%Q) (j * m))).
Proof.
  intros rho st A HA HS. pose proof (assum_of_ok rho st A HA HS) as O. split.
  - exact (pow_rule_abs_sound rho A O).
  - exact (pow_rule_pos_even rho A O).
Qed.
Print Assumptions C35_pow_rule_sound_partial.
