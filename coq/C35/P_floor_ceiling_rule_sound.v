From SE Require Import Assume.AssumeSem Assume.RefineModel Assume.C34Theorems Assume.RefineProofs.
From Coq Require Import QArith List ZArith.
Import ListNotations.

(* refine(floor(a)) -> a for an integer a, -> -ceiling(-a) (an identity); same for ceiling *)
Theorem C35_floor_ceiling_rule_sound : forall rho st A, assum_of st = Ok A -> osat rho st ->
  (forall na z w, refine_floor A na true = DId \/ refine_floor A na false = DId -> keys_ok na = true ->
     vfin (denote rho na) = Some z -> qi_floor z = Some w -> qi_eq w z) /\
  (forall na z w, refine_ceiling A na true = DId \/ refine_ceiling A na false = DId -> keys_ok na = true ->
     vfin (denote rho na) = Some z -> qi_ceiling z = Some w -> qi_eq w z) /\
  (forall z w c, qi_floor z = Some w -> qi_ceiling (qi_opp z) = Some c -> qi_eq w (qi_opp c)) /\
  (forall z w c, qi_ceiling z = Some w -> qi_floor (qi_opp z) = Some c -> qi_eq w (qi_opp c)).
Proof.
  intros rho st A HA HS. pose proof (assum_of_ok rho st A HA HS) as O. split; [|split; [|split]].
  - exact (floor_rule_id rho A O).
  - exact (ceiling_rule_id rho A O).
  - exact floor_rule_flip.
  - exact ceiling_rule_flip.
Qed.
Print Assumptions C35_floor_ceiling_rule_sound.
