(* C01 obligation (consequence): inserting into a hash-keyed container (unordered_map semantics:
   lookup = a stored key with the same hash that is eq) never produces two entries whose keys
   the library considers equal. *)
From SE Require Import Expr.Wf Expr.HashProofs.
Definition umap_insert (k : expr) (v : number) (d : list (expr * number)) : list (expr * number) :=
  match umap_find expr_eqb k d with
  | Some _ => d
  | None => (k, v) :: d
  end.
Theorem C01_container_no_dup :
  forall (k : expr) (v : number) (d : list (expr * number)),
    wf k = true -> forallb (fun p => wf (fst p)) d = true ->
    pairwise_ne (map fst d) = true ->
    pairwise_ne (map fst (umap_insert k v d)) = true.
Proof. exact container_no_dup. Qed.
Print Assumptions C01_container_no_dup.
