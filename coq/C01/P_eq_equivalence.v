(* C01 obligation: on well-formed expressions the library's eq is an equivalence relation
   (needed for "containers keyed by equality" to make sense at all). *)
From SE Require Import Expr.Wf Expr.HashProofs.
Theorem C01_eq_equivalence :
  (forall a, wf a = true -> expr_eqb a a = true) /\
  (forall a b, wf a = true -> wf b = true -> expr_eqb a b = true -> expr_eqb b a = true) /\
  (forall a b c, wf a = true -> wf b = true -> wf c = true ->
     expr_eqb a b = true -> expr_eqb b c = true -> expr_eqb a c = true).
Proof. exact eq_equivalence. Qed.
Print Assumptions C01_eq_equivalence.
