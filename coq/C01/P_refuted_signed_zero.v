(* C01 refutation (kept as documentation of why [wf] excludes -0.0): RealDouble::__eq__ uses ==
   (0.0 == -0.0) while __hash__ hashes the bit pattern. *)
From SE Require Import Expr.Wf.
Local Open Scope N_scope.
Theorem C01_refuted_signed_zero :
  exists a b : expr, expr_eqb a b = true /\ hash a <> hash b.
Proof.
  exists (ENum (NDbl 0)), (ENum (NDbl 9223372036854775808)).
  split; [vm_compute; reflexivity | vm_compute; discriminate].
Qed.
Print Assumptions C01_refuted_signed_zero.
