(* C01: the hypotheses are satisfiable by non-trivial values: two different dictionary orders of
   x + 2*y + 1/2 are well-formed, eq, and (by computation) hash alike. *)
From SE Require Import Expr.Wf.
Local Open Scope N_scope.
Definition ex_a := EAdd (NRat 1 2) [(ESym [120], NInt 1); (ESym [121], NInt 2)].
Definition ex_b := EAdd (NRat 1 2) [(ESym [121], NInt 2); (ESym [120], NInt 1)].
Example C01_nonvacuous :
  wf ex_a = true /\ wf ex_b = true /\ expr_eqb ex_a ex_b = true /\ hash ex_a = hash ex_b /\ ex_a <> ex_b.
Proof. repeat split; try (vm_compute; reflexivity). discriminate. Qed.
