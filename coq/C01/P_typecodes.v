(* C01/C02 obligation on the table regenerated from type_codes.inc: type codes are pairwise
   distinct and exactly the Number subclasses lie below NumberWrapper (is_a_Number relies on it;
   __cmp__ orders different classes by these codes). *)
From SE Require Import Expr.Wf.
Local Open Scope N_scope.
Theorem C01_typecodes_ok :
  NoDup (map snd tc_table) /\ NoDup (map fst tc_table) /\
  forallb (fun c => c <? TC_NumberWrapper)
    [TC_Integer; TC_Rational; TC_Complex; TC_ComplexDouble; TC_RealMPFR; TC_ComplexMPC;
     TC_RealDouble; TC_Infty; TC_NaN] = true /\
  forallb (fun c => TC_NumberWrapper <? c)
    [TC_Symbol; TC_Dummy; TC_Mul; TC_Add; TC_Pow; TC_Constant; TC_FunctionSymbol; TC_Derivative;
     TC_Subs; TC_Piecewise; TC_BooleanAtom; TC_Interval] = true.
Proof.
  split; [|split; [|split]]; try (vm_compute; reflexivity).
  - apply (NoDup_count_occ' N.eq_dec). intros x Hx.
    revert x Hx. apply Forall_forall. vm_compute. repeat constructor.
  - apply (NoDup_count_occ' (list_eq_dec N.eq_dec)). intros x Hx.
    revert x Hx. apply Forall_forall. vm_compute. repeat constructor.
Qed.
Print Assumptions C01_typecodes_ok.
