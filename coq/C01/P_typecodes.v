(* C01/C02 obligation on the table regenerated from type_codes.inc: type codes are pairwise
   distinct and the Number subclasses lie below NumberWrapper, everything else above
   (is_a_Number relies on it; __cmp__ orders different classes by these codes). *)
From SE Require Import Expr.Wf.
Local Open Scope N_scope.
Fixpoint nodupb {A} (eqb : A -> A -> bool) (l : list A) : bool :=
  match l with
  | [] => true
  | x :: r => negb (existsb (eqb x) r) && nodupb eqb r
  end.
Theorem C01_typecodes_ok :
  nodupb N.eqb (map snd tc_table) = true /\
  nodupb bytes_eqb (map fst tc_table) = true /\
  forallb (fun c => c <? TC_NumberWrapper)
    [TC_Integer; TC_Rational; TC_Complex; TC_ComplexDouble; TC_RealMPFR; TC_ComplexMPC;
     TC_RealDouble; TC_Infty; TC_NaN] = true /\
  forallb (fun c => TC_NumberWrapper <? c)
    [TC_Symbol; TC_Dummy; TC_Mul; TC_Add; TC_Pow; TC_Constant; TC_FunctionSymbol; TC_Derivative;
     TC_Subs; TC_Piecewise; TC_BooleanAtom; TC_Interval] = true.
Proof. repeat split; vm_compute; reflexivity. Qed.
Print Assumptions C01_typecodes_ok.
