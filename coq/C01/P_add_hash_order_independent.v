(* C01 obligation: the hash of a sum does not depend on the order in which the unordered
   dictionary happens to iterate its terms (bucket order, construction path). *)
From SE Require Import Expr.Wf Expr.HashProofs.
From Coq Require Import Permutation.
Theorem C01_add_hash_order_independent :
  forall (c : number) (d1 d2 : list (expr * number)),
    Permutation d1 d2 -> hash (EAdd c d1) = hash (EAdd c d2).
Proof. exact add_hash_order_independent. Qed.
Print Assumptions C01_add_hash_order_independent.
