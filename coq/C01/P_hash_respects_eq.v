(* C01 obligation: whenever the library's eq reports two (well-formed) expressions equal, their
   hashes are identical -- for every expression kind of the model, any size, any nesting. *)
From SE Require Import Expr.Wf Expr.HashProofs.
Theorem C01_hash_respects_eq :
  forall a b : expr, wf a = true -> wf b = true -> expr_eqb a b = true -> hash a = hash b.
Proof. exact hash_respects_eq. Qed.
Print Assumptions C01_hash_respects_eq.
