(* C05: the hypotheses of the theorems are met by concrete non-trivial inputs and the model
   computes the expected values on them (evaluated by the kernel). *)
From SE Require Import Num.NumModel Num.NumSpec Num.NumC05.
From Coq Require Import QArith.
Local Open Scope Z_scope.
(* (1/2 - 3/4 i) * (1 + 2i) = 2 + 1/4 i ; 6/4 = 3/2 ; (1+2i)^-3 = -11/125 + 2/125 i ; i^(2^64-1) = -i *)
Example C05_examples :
  num_mul (NCplx 1 2 (-3) 4) (NCplx 1 1 2 1) = Ok (NCplx 2 1 1 4) /\
  num_div (NInt 6) (NInt 4) = Ok (NRat 3 2) /\
  num_sub (NCplx 1 1 2 1) (NCplx 0 1 2 1) = Ok (NInt 1) /\
  num_pow (NCplx 1 1 2 1) (NInt (-3)) = Ok (NCplx (-11) 125 2 125) /\
  num_pow (NCplx 0 1 1 1) (NInt 18446744073709551615) = Ok (NCplx 0 1 (-1) 1) /\
  num_pow (NRat (-1) 2) (NInt (-3)) = Ok (NInt (-8)) /\
  num_pow (NInt 2) (NInt 18446744073709551616) = ErrExn EXN_SYMENGINE /\
  num_div (NCplx 1 1 2 1) (NInt 0) = Ok (NInf 0) /\ num_div (NInt 0) (NInt 0) = Ok NNaN.
Proof. vm_compute. repeat split; reflexivity. Qed.
Example C05_hypotheses_met :
  valQi (NCplx 1 2 (-3) 4) = Some (Qmake 1 2, Qmake (-3) 4) /\ num_wf (NCplx 1 2 (-3) 4) = true /\
  pow_in_range (NCplx 1 1 2 1) (-3) = true /\ ~ qi_is_zero (Qmake 1 1, Qmake 2 1) /\
  guard_rat_div_cplx (NCplx 1 1 2 1) (NRat 1 2) = false /\ guard_rat_div_cplx (NRat 1 2) (NCplx 1 1 2 1) = true.
Proof. repeat split; try reflexivity. intros [H _]. discriminate H. Qed.
Print Assumptions C05_examples.
