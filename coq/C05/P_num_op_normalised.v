(* C05 obligation: every result of add/sub/mul/div/pow(integer exponent) on normalised exact
   operands is normalised (lowest terms, positive denominator, Integer when the denominator is 1,
   real when the imaginary part is 0) and is an exact number, or zoo / nan (zero divisor).
   Rational::powrat passes num^e/den^e to from_mpq WITHOUT canonicalising: proved sound here. *)
From SE Require Import Num.NumModel Num.NumSpec Num.NumC05.
Theorem C05_num_op_normalised :
  forall a b r,
  num_is_exact a = true -> num_is_exact b = true -> num_wf a = true -> num_wf b = true ->
  (num_add a b = Ok r \/ num_sub a b = Ok r \/ num_mul a b = Ok r \/ num_div a b = Ok r \/
   (exists e, b = NInt e /\ num_pow a b = Ok r)) ->
  num_wf r = true /\ (num_is_exact r = true \/ r = NNaN \/ r = NInf 0).
Proof. exact num_op_normalised. Qed.
Print Assumptions C05_num_op_normalised.
Theorem C05_mk_rat_normalised :
  forall n d r, mk_rat n d = Ok r ->
  num_wf r = true /\ (num_is_exact r = true \/ r = NNaN \/ r = NInf 0).
Proof. exact mk_rat_normalised. Qed.
Print Assumptions C05_mk_rat_normalised.
