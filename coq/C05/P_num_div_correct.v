(* C05 obligation: division of exact numbers by a nonzero exact number is division in Q(i).
   The full statement (without the guard) is REFUTED by the faithful model: Rational / Complex
   throws NotImplementedError (Complex::rdiv accepts only an Integer); witness 1/2 / (1+2i),
   replayed on the library as `div R:1/2 C:1,2`.  The guarded theorem excludes exactly the class
   guard_rat_div_cplx (dividend a Rational, divisor an exact Complex). *)
From SE Require Import Num.NumModel Num.NumSpec Num.NumC05.
Theorem C05_num_div_correct_guarded :
  forall a b x y, valQi a = Some x -> valQi b = Some y -> ~ qi_is_zero y ->
  guard_rat_div_cplx a b = false ->
  exists r z, num_div a b = Ok r /\ valQi r = Some z /\ qi_eq z (qi_div x y).
Proof. exact num_div_correct. Qed.
Print Assumptions C05_num_div_correct_guarded.
Theorem C05_num_div_correct_refuted :
  exists a b x y, valQi a = Some x /\ valQi b = Some y /\ ~ qi_is_zero y /\
                  num_wf a = true /\ num_wf b = true /\ num_div a b = ErrExn EXN_NOTIMPL.
Proof. exact num_div_refuted. Qed.
Print Assumptions C05_num_div_correct_refuted.
