(* C05 obligation: an exact number raised to an integer exponent of either sign is the power in
   Q(i) (iterated multiplication, inverse for negative exponents), for every exponent the code
   accepts (|e| < 2^64 for Integer/Rational/purely imaginary bases, |e| < 2^63 otherwise; beyond
   that the model, like the code, throws) and every base that is nonzero when e < 0
   (0 ** negative = zoo is C05_pow_zero_negative in P_div_by_exact_zero.v). *)
From SE Require Import Num.NumModel Num.NumSpec Num.NumC05.
Local Open Scope Z_scope.
Theorem C05_num_powint_correct :
  forall a e x, valQi a = Some x -> pow_in_range a e = true -> (0 <= e \/ ~ qi_is_zero x) ->
  exists r z, num_pow a (NInt e) = Ok r /\ valQi r = Some z /\ qi_eq z (qi_powz x e).
Proof. exact num_powint_correct. Qed.
Print Assumptions C05_num_powint_correct.
