(* C05 obligation: pow_number's square-and-multiply loop equals iterated multiplication
   (induction on the binary exponent, for accumulators/bases equal up to Qeq). *)
From SE Require Import Num.NumModel Num.NumSpec Num.NumC05.
Theorem C05_pow_number_loop :
  forall (n : positive) (r p r' p' : qi), qi_eq r r' -> qi_eq p p' ->
  qi_eq (pow_number_loop r p n) (qi_mul r' (qi_pow_nat p' (Pos.to_nat n))).
Proof. exact pow_number_loop_correct. Qed.
Print Assumptions C05_pow_number_loop.
