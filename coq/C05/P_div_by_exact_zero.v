(* C05 obligation: division by an exact zero gives zoo (nan for 0/0) at every entry point:
   Number::div on every pair of exact kinds (divint, divrat, divcomp, rdivrat, rdivcomp),
   Integer::rdiv, Rational::from_two_ints.
   The remaining entry point, a negative power of 0, is REFUTED: Integer(0).pow(-1) ends in
   pow_negint building rational_class(0, 0) -> SIGFPE (replayed on the library: `pow I:0 I:-1`);
   C05_num_powint_correct carries the corresponding guard (base nonzero when e < 0). *)
From SE Require Import Num.NumModel Num.NumSpec Num.NumC05.
Local Open Scope Z_scope.
Theorem C05_div_by_exact_zero :
  forall a b x y, valQi a = Some x -> valQi b = Some y -> qi_is_zero y ->
  guard_rat_div_cplx a b = false ->
  (qi_is_zero x -> num_div a b = Ok NNaN) /\ (~ qi_is_zero x -> num_div a b = Ok (NInf 0)).
Proof. exact div_by_exact_zero. Qed.
Print Assumptions C05_div_by_exact_zero.
Theorem C05_from_two_ints_zero_den :
  forall n, mk_rat n 0 = Ok (if n =? 0 then NNaN else NInf 0).
Proof. exact mk_rat_zero_den. Qed.
Theorem C05_int_rdiv_zero :
  forall y, num_rdiv (NInt 0) (NInt y) = Ok (if y =? 0 then NNaN else NInf 0).
Proof. exact int_rdiv_zero. Qed.
Theorem C05_pow_zero_negative_refuted :
  exists e, e < 0 /\ num_pow (NInt 0) (NInt e) = ErrExn EXN_SIGFPE.
Proof. exact pow_zero_negative_refuted. Qed.
Print Assumptions C05_pow_zero_negative_refuted.
