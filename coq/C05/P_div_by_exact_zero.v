(* C05 obligation: division by an exact zero gives zoo (nan for 0/0) at every entry point:
   Number::div on every pair of exact kinds (divint, divrat, divcomp, rdivrat, rdivcomp),
   Integer::rdiv, Rational::from_two_ints, and a negative power of 0 (Integer::pow_negint;
   this entry point died with SIGFPE until commit 5eef324 -- found by this slice, case
   `pow I:0 I:-1`; the model follows the repaired code). *)
From SE Require Import Num.NumModel Num.NumSpec Num.NumC05.
Local Open Scope Z_scope.
Theorem C05_div_by_exact_zero :
  forall a b x y, valQi a = Some x -> valQi b = Some y -> qi_is_zero y ->
  guard_rat_div_cplx a b = false ->
  (qi_is_zero x -> num_div a b = Ok NNaN) /\ (~ qi_is_zero x -> num_div a b = Ok (NInf 0)).
Proof. exact div_by_exact_zero. Qed.
Print Assumptions C05_div_by_exact_zero.
Theorem C05_from_two_ints_zero_den :
  forall n, mk_rat n 0 = Ok (if n =? 0 then NNaN else NInf 0).
Proof. exact mk_rat_zero_den. Qed.
Theorem C05_int_rdiv_zero :
  forall y, num_rdiv (NInt 0) (NInt y) = Ok (if y =? 0 then NNaN else NInf 0).
Proof. exact int_rdiv_zero. Qed.
Theorem C05_pow_zero_negative :
  forall e, e < 0 -> Z.abs e <? TWO64 = true -> num_pow (NInt 0) (NInt e) = Ok (NInf 0).
Proof. exact pow_zero_negative. Qed.
Print Assumptions C05_pow_zero_negative.
