(* C05 obligation: multiplication of exact numbers is multiplication in Q(i). *)
From SE Require Import Num.NumModel Num.NumSpec Num.NumC05.
Theorem C05_num_mul_correct :
  forall a b x y, valQi a = Some x -> valQi b = Some y ->
  exists r z, num_mul a b = Ok r /\ valQi r = Some z /\ qi_eq z (qi_mul x y).
Proof. exact num_mul_correct. Qed.
Print Assumptions C05_num_mul_correct.
