(* C05 obligation: addition of exact numbers (Integer, Rational, Complex of any size) is
   addition in Q(i). *)
From SE Require Import Num.NumModel Num.NumSpec Num.NumC05.
Theorem C05_num_add_correct :
  forall a b x y, valQi a = Some x -> valQi b = Some y ->
  exists r z, num_add a b = Ok r /\ valQi r = Some z /\ qi_eq z (qi_add x y).
Proof. exact num_add_correct. Qed.
Print Assumptions C05_num_add_correct.
