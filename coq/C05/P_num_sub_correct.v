(* C05 obligation: subtraction of exact numbers is subtraction in Q(i). *)
From SE Require Import Num.NumModel Num.NumSpec Num.NumC05.
Theorem C05_num_sub_correct :
  forall a b x y, valQi a = Some x -> valQi b = Some y ->
  exists r z, num_sub a b = Ok r /\ valQi r = Some z /\ qi_eq z (qi_sub x y).
Proof. exact num_sub_correct. Qed.
Print Assumptions C05_num_sub_correct.
