(* C05 obligation ("normalised" at full strength): the normal form of exact numbers is UNIQUE --
   two normalised Integer/Rational/Complex objects of any size with the same value in Q(i) are
   the same object (class and fields).  Consequently the results of the arithmetic obey the ring
   laws AS REPRESENTATIONS: (a+b)+c and a+(b+c), (a*b)*c and a*(b*c), a*(b+c) and a*b+a*c are
   computed without error and are identical objects, for all normalised exact operands. *)
From SE Require Import Num.NumModel Num.NumSpec Num.NumC05 Num.NumC05U.
Theorem C05_exact_normal_form_unique : forall a b x y,
  num_wf a = true -> num_wf b = true ->
  valQi a = Some x -> valQi b = Some y -> qi_eq x y -> a = b.
Proof. exact exact_normal_form_unique. Qed.
Print Assumptions C05_exact_normal_form_unique.
Theorem C05_add_assoc_structural : forall a b c,
  num_is_exact a = true -> num_is_exact b = true -> num_is_exact c = true ->
  num_wf a = true -> num_wf b = true -> num_wf c = true ->
  exists ab bc r, num_add a b = Ok ab /\ num_add b c = Ok bc /\
                  num_add ab c = Ok r /\ num_add a bc = Ok r.
Proof. exact add_assoc_structural. Qed.
Print Assumptions C05_add_assoc_structural.
Theorem C05_mul_assoc_structural : forall a b c,
  num_is_exact a = true -> num_is_exact b = true -> num_is_exact c = true ->
  num_wf a = true -> num_wf b = true -> num_wf c = true ->
  exists ab bc r, num_mul a b = Ok ab /\ num_mul b c = Ok bc /\
                  num_mul ab c = Ok r /\ num_mul a bc = Ok r.
Proof. exact mul_assoc_structural. Qed.
Print Assumptions C05_mul_assoc_structural.
Theorem C05_mul_add_distr_structural : forall a b c,
  num_is_exact a = true -> num_is_exact b = true -> num_is_exact c = true ->
  num_wf a = true -> num_wf b = true -> num_wf c = true ->
  exists bc ab ac r, num_add b c = Ok bc /\ num_mul a b = Ok ab /\ num_mul a c = Ok ac /\
                     num_mul a bc = Ok r /\ num_add ab ac = Ok r.
Proof. exact mul_add_distr_structural. Qed.
Print Assumptions C05_mul_add_distr_structural.
(* __eq__ (structural equality of two objects) decides equality of VALUES on normalised exact numbers *)
Theorem C05_eq_decides_value_exact : forall a b x y,
  num_wf a = true -> num_wf b = true -> valQi a = Some x -> valQi b = Some y ->
  (num_eqb a b = true <-> qi_eq x y).
Proof. exact eq_decides_value_exact. Qed.
Print Assumptions C05_eq_decides_value_exact.
(* identities and inverses as representations: a + 0, 0 + a, a * 1, 1 * a are the object a;
   a - a is Integer 0; (a + b) - b is the object a *)
Theorem C05_add_zero_structural : forall a, num_is_exact a = true -> num_wf a = true ->
  num_add a (NInt 0) = Ok a /\ num_add (NInt 0) a = Ok a.
Proof. exact add_zero_structural. Qed.
Print Assumptions C05_add_zero_structural.
Theorem C05_mul_one_structural : forall a, num_is_exact a = true -> num_wf a = true ->
  num_mul a (NInt 1) = Ok a /\ num_mul (NInt 1) a = Ok a.
Proof. exact mul_one_structural. Qed.
Print Assumptions C05_mul_one_structural.
Theorem C05_sub_self_structural : forall a, num_is_exact a = true -> num_wf a = true ->
  num_sub a a = Ok (NInt 0).
Proof. exact sub_self_structural. Qed.
Print Assumptions C05_sub_self_structural.
Theorem C05_add_sub_cancel_structural : forall a b,
  num_is_exact a = true -> num_is_exact b = true -> num_wf a = true -> num_wf b = true ->
  exists ab, num_add a b = Ok ab /\ num_sub ab b = Ok a.
Proof. exact add_sub_cancel_structural. Qed.
Print Assumptions C05_add_sub_cancel_structural.
(* a / a is Integer 1 for every non-zero normalised exact a (Integer, Rational, Complex) *)
Theorem C05_div_self_structural : forall a x,
  num_wf a = true -> valQi a = Some x -> ~ qi_is_zero x -> num_div a a = Ok (NInt 1).
Proof. exact div_self_structural. Qed.
Print Assumptions C05_div_self_structural.
