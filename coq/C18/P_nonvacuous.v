(* C18: the state machine is not trivial: failed parses do change the object's state. *)
From SE Require Import Parse.ParseModel Parse.StateProofs.
Local Open Scope N_scope.
Example C18_nonvacuous_state :
  ps_res (fst (parser_parse fresh_parser (b "a b") true)) = Some (RSym (b "a")) /\
  snd (parser_parse fresh_parser (b "a b") true) = OutParseError /\
  ps_res (fst (parser_parse fresh_parser (b "(a b") true)) = None.
Proof. exact res_after_failed_parse. Qed.
Example C18_nonvacuous_history :
  snd (run_history fresh_parser [(b "x +", true); (b "y#", true); (b "2z", true)]) =
  [OutParseError; OutParseError; OutValue (RApp (b "mul") [RInt 2; RSym (b "z")])].
Proof. vm_compute. reflexivity. Qed.
Example C18_nonvacuous_nul :
  parse_ref (b "x+1" ++ 0 :: b "+(((") true = OutValue (RApp (b "add") [RSym (b "x"); RInt 1]).
Proof. vm_compute. reflexivity. Qed.
