(* C18 obligation: one Parser object used for any sequence of inputs (including inputs that fail)
   answers each of them exactly as a fresh parser does. *)
From SE Require Import Parse.ParseModel Parse.StateProofs.
Theorem C18_parser_stateless : forall h st,
  snd (run_history st h) = List.map (fun p => parse_ref (fst p) (snd p)) h.
Proof. exact history_stateless. Qed.
Print Assumptions C18_parser_stateless.
