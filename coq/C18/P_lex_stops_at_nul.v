(* C18 obligation: the token stream, and the outcome of a parse, do not depend on the bytes that
   follow the first NUL: the cursor never passes the terminator. *)
From SE Require Import Parse.ParseModel Parse.LexProofs Parse.StateProofs.
Local Open Scope N_scope.
Theorem C18_lex_stops_at_nul :
  (forall pre post, nonul pre -> lex (pre ++ 0 :: post) = lex pre) /\
  (forall pre post conv, nonul pre -> parse_ref (pre ++ 0 :: post) conv = parse_ref pre conv).
Proof. split; [exact lex_stops_at_nul|exact parse_stops_at_nul]. Qed.
Print Assumptions C18_lex_stops_at_nul.
