(* C18 obligation: the reference lexer and parser are total on EVERY byte list: the fuel
   (input length + 1) is never exhausted, so the outcome is a value or ParseError. *)
From SE Require Import Parse.ParseModel Parse.LexProofs Parse.StateProofs.
Theorem C18_parse_total :
  (forall bs, lex bs <> None) /\
  (forall bs conv, parse_syntax bs conv <> TopFuel) /\
  (forall bs conv, parse_ref bs conv <> OutFuel).
Proof. split; [exact lex_total|]. split; [exact parse_syntax_total|exact parse_total]. Qed.
Print Assumptions C18_parse_total.
