(* Helper lemmas on rationals: Qred yields lowest terms, the mpq operations of the model
   are the Q operations up to Qeq, zpow = Z.pow. *)
From SE Require Import Num.NumModel Num.NumSpec.
From Coq Require Import QArith Qreduction Lia ZArith Znumtheory Zpow_facts.
Local Open Scope Z_scope.

(* ------------------------------------------------------------------ zpow *)
Lemma zpow_pos_spec : forall b p, zpow_pos b p = b ^ Zpos p.
Proof.
  intros b p. induction p as [p IH | p IH | ]; cbn [zpow_pos].
  - rewrite IH. rewrite Pos2Z.inj_xI. rewrite Z.pow_add_r, Z.pow_mul_r by lia.
    rewrite Z.pow_1_r. rewrite Z.pow_2_r. rewrite <- Z.pow_mul_l.
    replace (b ^ Z.pos p * b ^ Z.pos p) with ((b * b) ^ Z.pos p) by (now rewrite Z.pow_mul_l). lia.
  - rewrite IH. rewrite Pos2Z.inj_xO. rewrite Z.pow_mul_r by lia. rewrite Z.pow_2_r.
    now rewrite Z.pow_mul_l.
  - now rewrite Z.pow_1_r.
Qed.

Lemma zpow_spec : forall b e, 0 <= e -> zpow b e = b ^ e.
Proof.
  intros b [|p|p] H; cbn [zpow].
  - reflexivity.
  - apply zpow_pos_spec.
  - lia.
Qed.

(* ------------------------------------------------------------------ lowest terms *)
Definition qlow (q : Q) : Prop := Z.gcd (Qnum q) (Zpos (Qden q)) = 1.

Lemma q_lowest_iff : forall n d, q_lowest n d = true <-> qlow (Qmake n d).
Proof. intros. unfold q_lowest, qlow. cbn. apply Z.eqb_eq. Qed.

Lemma Qred_low : forall q, qlow (Qred q).
Proof.
  intros [n d]. unfold qlow, Qred.
  pose proof (Z.ggcd_gcd n (Zpos d)) as Hg.
  pose proof (Z.ggcd_correct_divisors n (Zpos d)) as Hd.
  destruct (Z.ggcd n (Zpos d)) as [g [n' d']]. cbn [fst snd] in *. destruct Hd as [Hn Hdd].
  cbn [Qnum Qden].
  assert (Hgpos : 0 < g).
  { subst g. pose proof (Z.gcd_nonneg n (Zpos d)).
    assert (Z.gcd n (Z.pos d) <> 0) by (intro E; apply Z.gcd_eq_0_r in E; discriminate). lia. }
  assert (Hd' : 0 < d') by nia.
  rewrite Z2Pos.id by assumption.
  assert (Hgg : Z.gcd n (Z.pos d) = g * Z.gcd n' d').
  { rewrite Hn, Hdd. rewrite Z.gcd_mul_mono_l_nonneg by lia. reflexivity. }
  rewrite <- Hg in Hgg at 1.
  assert (Z.gcd n' d' = 1) by nia. assumption.
Qed.

Lemma qlow_Qred_id : forall q, qlow q -> Qred q = q.
Proof.
  intros [n d] H. unfold qlow in H. cbn [Qnum Qden] in H. unfold Qred.
  pose proof (Z.ggcd_gcd n (Zpos d)) as Hg.
  pose proof (Z.ggcd_correct_divisors n (Zpos d)) as Hd.
  destruct (Z.ggcd n (Zpos d)) as [g [n' d']]. cbn [fst snd] in *. destruct Hd as [Hn Hdd].
  rewrite H in Hg. subst g. rewrite Z.mul_1_l in Hn, Hdd. subst n'. rewrite <- Hdd. reflexivity.
Qed.

Lemma qlow_inject : forall z, qlow (inject_Z z).
Proof. intros z. unfold qlow. cbn. apply Z.gcd_1_r. Qed.

Lemma qlow_opp : forall q, qlow q -> qlow (Qopp q).
Proof. intros [n d]. unfold qlow. cbn. intros H. now rewrite Z.gcd_opp_l. Qed.

Lemma qlow_inv : forall q, qlow q -> qlow (Qinv q).
Proof.
  intros [n d]. unfold qlow, Qinv. cbn [Qnum Qden].
  destruct n as [|p|p]; cbn [Qnum Qden]; intros H.
  - reflexivity.
  - rewrite Z.gcd_comm. exact H.
  - rewrite Z.gcd_comm. rewrite <- Z.gcd_opp_l in H. cbn in H.
    change (Z.neg d) with (- Z.pos d). rewrite Z.gcd_opp_r. exact H.
Qed.

Lemma qlow_pow : forall n d e, 0 <= e -> qlow (Qmake n d) ->
  qlow (Qmake (n ^ e) (Z.to_pos (Zpos d ^ e))).
Proof.
  intros n d e He H. unfold qlow in *. cbn [Qnum Qden] in *.
  assert (0 < Zpos d ^ e) by (apply Z.pow_pos_nonneg; lia).
  rewrite Z2Pos.id by assumption.
  apply Zgcd_1_rel_prime. apply rel_prime_Zpower; try lia.
  apply Zgcd_1_rel_prime. exact H.
Qed.

(* ------------------------------------------------------------------ mpq operations *)
Lemma qadd_eq : forall a b, (qadd a b == a + b)%Q.
Proof. intros. unfold qadd. apply Qred_correct. Qed.
Lemma qsub_eq : forall a b, (qsub a b == a - b)%Q.
Proof. intros. unfold qsub. apply Qred_correct. Qed.
Lemma qmul_eq : forall a b, (qmul a b == a * b)%Q.
Proof. intros. unfold qmul. apply Qred_correct. Qed.
Lemma qdiv_eq : forall a b, (qdiv a b == a / b)%Q.
Proof. intros. unfold qdiv. apply Qred_correct. Qed.
Lemma qneg_eq : forall a, (qneg a == - a)%Q.
Proof. intros. reflexivity. Qed.

Lemma qadd_low : forall a b, qlow (qadd a b). Proof. intros; apply Qred_low. Qed.
Lemma qsub_low : forall a b, qlow (qsub a b). Proof. intros; apply Qred_low. Qed.
Lemma qmul_low : forall a b, qlow (qmul a b). Proof. intros; apply Qred_low. Qed.
Lemma qdiv_low : forall a b, qlow (qdiv a b). Proof. intros; apply Qred_low. Qed.

Lemma qcanon_eq : forall n d, d <> 0 -> (qcanon n d == inject_Z n / inject_Z d)%Q.
Proof.
  intros n d Hd. unfold qcanon. rewrite Qred_correct.
  unfold Qeq, Qdiv, Qmult, Qinv, inject_Z. cbn [Qnum Qden].
  destruct d as [|p|p]; try congruence; cbn; lia.
Qed.
Lemma qcanon_low : forall n d, qlow (qcanon n d). Proof. intros; apply Qred_low. Qed.

(* the zero tests of the code look at the numerator *)
Lemma q_num_zero : forall q, Qnum q = 0 <-> (q == 0)%Q.
Proof. intros [n d]. unfold Qeq. cbn. lia. Qed.

Lemma q_is_zero_iff : forall q, q_is_zero q = true <-> (q == 0)%Q.
Proof. intros q. unfold q_is_zero. rewrite Z.eqb_eq. apply q_num_zero. Qed.

Lemma q_sumsq_zero : forall a b : Q, (a * a + b * b == 0)%Q -> (a == 0)%Q /\ (b == 0)%Q.
Proof.
  intros a b H.
  assert (Ha : (0 <= a * a)%Q) by (destruct (Qlt_le_dec a 0); [ setoid_replace (a*a)%Q with ((-a)*(-a))%Q by ring; apply Qmult_le_0_compat; apply (Qopp_le_compat a 0); now apply Qlt_le_weak | now apply Qmult_le_0_compat]).
  assert (Hb : (0 <= b * b)%Q) by (destruct (Qlt_le_dec b 0); [ setoid_replace (b*b)%Q with ((-b)*(-b))%Q by ring; apply Qmult_le_0_compat; apply (Qopp_le_compat b 0); now apply Qlt_le_weak | now apply Qmult_le_0_compat]).
  assert (Ha0 : (a * a == 0)%Q).
  { apply Qle_antisym; [|assumption]. rewrite <- H. rewrite <- (Qplus_0_r (a*a)) at 1. apply Qplus_le_r. assumption. }
  assert (Hb0 : (b * b == 0)%Q).
  { apply Qle_antisym; [|assumption]. rewrite <- H. rewrite <- (Qplus_0_l (b*b)) at 1. apply Qplus_le_l. assumption. }
  split.
  - destruct (Qmult_integral _ _ Ha0); assumption.
  - destruct (Qmult_integral _ _ Hb0); assumption.
Qed.
