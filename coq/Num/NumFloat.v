(* Lemmas on the binary64 operations of the model (Flocq, single-NaN format):
   commutativity of addition and multiplication, x * 1.0 = x, bit-pattern round trip. *)
From SE Require Import Num.NumModel.
From Coq Require Import ZArith Reals Lia Lra.
From Flocq Require Import IEEE754.BinarySingleNaN IEEE754.Binary IEEE754.Bits Core.
Local Open Scope Z_scope.

Lemma fadd_comm : forall x y : f64, fadd x y = fadd y x.
Proof.
  intros x y. unfold fadd, BinarySingleNaN.Bplus.
  destruct x as [sx|sx| |sx mx ex Hx], y as [sy|sy| |sy my ey Hy]; try reflexivity.
  - destruct sx, sy; reflexivity.
  - destruct sx, sy; reflexivity.
  - rewrite (Z.min_comm ey ex). unfold Fplus_naive. rewrite Z.add_comm. reflexivity.
Qed.

Lemma fmul_comm : forall x y : f64, fmul x y = fmul y x.
Proof.
  intros x y. unfold fmul, BinarySingleNaN.Bmult.
  destruct x as [sx|sx| |sx mx ex Hx], y as [sy|sy| |sy my ey Hy]; try reflexivity;
    try (now rewrite xorb_comm).
  apply BinarySingleNaN.B2SF_inj. rewrite !BinarySingleNaN.B2SF_SF2B.
  rewrite (xorb_comm sy sx), (Pos.mul_comm my mx), (Z.add_comm ey ex). reflexivity.
Qed.

(* bits -> float -> bits -> float *)
Lemma of_to_bits : forall f : f64, of_bits (to_bits f) = f.
Proof.
  intros f. unfold of_bits, to_bits.
  rewrite Z2N.id.
  - unfold b64_of_bits, bits_of_b64. rewrite binary_float_of_bits_of_binary_float.
    apply B2BSN_BSN2B.
  - unfold bits_of_b64. pose proof (bits_of_binary_float_range 52 11 eq_refl eq_refl (BSN2B 53 1024 default_nan_pl64 f)). lia.
Qed.

Lemma canon_idem : forall b, canon_bits (canon_bits b) = canon_bits b.
Proof. intros b. unfold canon_bits. now rewrite of_to_bits. Qed.

(* 1.0 *)
Definition fone : f64 := d_of_Z 1.
Lemma fone_SF : BinarySingleNaN.B2SF fone = SpecFloat.S754_finite false 4503599627370496 (-52).
Proof. vm_compute. reflexivity. Qed.

Lemma fone_eq : exists H, fone = @BinarySingleNaN.B754_finite 53 1024 false 4503599627370496 (-52) H.
Proof.
  generalize fone_SF. generalize fone. intros f Hf.
  destruct f as [s|s| |s m e H]; cbn in Hf; try discriminate Hf.
  injection Hf as -> -> ->. exists H. reflexivity.
Qed.

Lemma fone_B2R : BinarySingleNaN.B2R fone = 1%R.
Proof.
  destruct fone_eq as [H ->]. unfold BinarySingleNaN.B2R, F2R, Defs.Fnum, Defs.Fexp, cond_Zopp.
  simpl bpow. change (Z.pow_pos 2 52) with 4503599627370496%Z.
  apply Rinv_r. apply not_0_IZR. discriminate.
Qed.

Lemma fmul_one : forall x : f64, fmul x fone = x.
Proof.
  intros x. unfold fmul.
  pose proof fone_B2R as HR.
  destruct fone_eq as [H1 fone_eq]. rewrite fone_eq in *.
  destruct x as [sx|sx| |sx mx ex Hx] eqn:Ex.
  - cbn. now rewrite xorb_false_r.
  - cbn. now rewrite xorb_false_r.
  - reflexivity.
  - pose proof (BinarySingleNaN.Bmult_correct 53 1024 _ _ mode_NE x (BinarySingleNaN.B754_finite false 4503599627370496 (-52) H1)) as H.
    rewrite HR, Rmult_1_r in H.
    rewrite round_generic in H; [|apply valid_rnd_N|apply BinarySingleNaN.generic_format_B2R].
    rewrite Rlt_bool_true in H by apply BinarySingleNaN.abs_B2R_lt_emax.
    destruct H as (H1' & H2 & H3). rewrite <- Ex.
    assert (Hf : BinarySingleNaN.is_finite (BinarySingleNaN.Bmult mode_NE x (BinarySingleNaN.B754_finite false 4503599627370496 (-52) H1)) = true).
    { rewrite H2. subst x. reflexivity. }
    apply BinarySingleNaN.B2R_Bsign_inj.
    + exact Hf.
    + subst x. reflexivity.
    + exact H1'.
    + rewrite H3.
      * subst x. cbn. now rewrite xorb_false_r.
      * destruct (BinarySingleNaN.Bmult mode_NE x _); try reflexivity. discriminate Hf.
Qed.
