(* C29: the relational constructors of logic.cpp on two numbers against the numeric order. *)
From SE Require Import Num.NumModel Num.NumQ Num.NumFloat.
From Coq Require Import QArith Qreduction Lia ZArith.
Local Open Scope Z_scope.

(* exact or symbolic-infinite real numbers: all values, no size bound *)
Definition xreal (a : number) : bool :=
  match a with
  | NInt _ | NRat _ _ => true
  | NInf d => (d =? 1) || (d =? -1)
  | _ => false
  end.

Lemma neg_from_mpq : forall q, num_is_negative (from_mpq q) = (Qnum q <? 0).
Proof. intros [n d]. unfold from_mpq. cbn [Qnum Qden]. destruct (d =? 1)%positive; reflexivity. Qed.

Lemma qnum_neg_iff : forall q, (Qnum q <? 0) = true <-> (q < 0)%Q.
Proof. intros [n d]. unfold Qlt. cbn. rewrite Z.ltb_lt. lia. Qed.

Lemma qred_neg : forall q, (Qnum (Qred q) <? 0) = (if Qlt_le_dec q 0 then true else false).
Proof.
  intros q. destruct (Qlt_le_dec q 0) as [H|H].
  - apply qnum_neg_iff. now rewrite Qred_correct.
  - apply Bool.not_true_is_false. intros E. apply qnum_neg_iff in E. rewrite Qred_correct in E.
    apply (Qlt_irrefl 0%Q). eapply Qle_lt_trans; eassumption.
Qed.

Lemma ltb_sub : forall p q : Q,
  (if Qlt_le_dec (p - q) 0 then true else false) = (if Qlt_le_dec p q then true else false).
Proof.
  intros p q. destruct (Qlt_le_dec (p - q) 0) as [H|H], (Qlt_le_dec p q) as [H'|H']; try reflexivity; exfalso.
  - apply (Qplus_lt_l _ _ q) in H. ring_simplify in H. apply (Qlt_irrefl q). eapply Qle_lt_trans; eassumption.
  - apply (Qplus_lt_l _ _ (-q)) in H'. apply (Qlt_irrefl 0%Q). eapply Qle_lt_trans; [exact H|].
    setoid_replace (q + - q)%Q with 0%Q in H' by ring. exact H'.
Qed.

Lemma ext_ltb_irrefl_eq : forall p q : Q, (p == q)%Q -> (if Qlt_le_dec p q then true else false) = false.
Proof. intros p q H. destruct (Qlt_le_dec p q) as [H'|H']; [|reflexivity]. rewrite H in H'. now apply Qlt_irrefl in H'. Qed.

Lemma q_eqb_eq : forall p q, q_eqb p q = true -> p = q.
Proof. intros [n d] [n' d'] H. unfold q_eqb in H. cbn in H. apply andb_prop in H as [H1 H2]. apply Z.eqb_eq in H1. apply Pos.eqb_eq in H2. now subst. Qed.

Lemma inf_add_from_mpq : forall d q, num_add (NInf d) (from_mpq q) = Ok (NInf d).
Proof. intros d q. unfold from_mpq. destruct (_ =? _)%positive; reflexivity. Qed.

Lemma rel_lt_inf_rat : forall d n dd, (d =? 0) = false ->
  rel_lt (NInf d) (NRat n dd) = Ok (Some (d <? 0)).
Proof.
  intros d n dd Hd. unfold rel_lt. cbn [is_a_Complex is_a_NaN num_eqb orb]. rewrite Hd.
  unfold num_sub. cbn [sub_step]. unfold default_sub, num_mul. cbn [mul_step bind].
  rewrite inf_add_from_mpq. reflexivity.
Qed.

Ltac dir_cases d H :=
  cbn [xreal] in H; apply Bool.orb_prop in H as [H|H]; apply Z.eqb_eq in H; subst d.

Theorem Lt_correct_exact : forall a b x y,
  xreal a = true -> xreal b = true -> val a = Some x -> val b = Some y ->
  rel_lt a b = Ok (Some (ext_ltb x y)).
Proof.
  intros a b x y Ha Hb Hx Hy.
  destruct a as [za|na da| | | |da| ]; try discriminate Ha;
    destruct b as [zb|nb db| | | |db| ]; try discriminate Hb.
  - (* Int Int *)
    injection Hx as <-. injection Hy as <-. unfold rel_lt. cbn [is_a_Complex is_a_NaN num_eqb orb].
    destruct (Z.eqb_spec za zb) as [->|Hne].
    + cbn [ext_ltb]. now rewrite ext_ltb_irrefl_eq.
    + unfold num_sub. cbn [sub_step bind num_is_negative ext_ltb]. repeat f_equal.
      destruct (Qlt_le_dec (inject_Z za) (inject_Z zb)) as [H|H].
      * rewrite <- Zlt_Qlt in H. apply Z.ltb_lt. lia.
      * rewrite <- Zle_Qle in H. apply Z.ltb_ge. lia.
  - (* Int Rat *)
    injection Hx as <-. injection Hy as <-. unfold rel_lt. cbn [is_a_Complex is_a_NaN num_eqb orb].
    unfold num_sub. cbn [sub_step num_rsub bind ext_ltb]. rewrite neg_from_mpq. unfold qsub. rewrite qred_neg.
    now rewrite ltb_sub.
  - (* Int Inf *)
    injection Hx as <-. dir_cases db Hb; cbn in Hy; injection Hy as <-; reflexivity.
  - (* Rat Int *)
    injection Hx as <-. injection Hy as <-. unfold rel_lt. cbn [is_a_Complex is_a_NaN num_eqb orb].
    unfold num_sub. cbn [sub_step num_rsub bind ext_ltb]. rewrite neg_from_mpq. unfold qsub. rewrite qred_neg.
    now rewrite ltb_sub.
  - (* Rat Rat *)
    injection Hx as <-. injection Hy as <-. unfold rel_lt. cbn [is_a_Complex is_a_NaN num_eqb orb].
    destruct (q_eqb (Qmake na da) (Qmake nb db)) eqn:E.
    + apply q_eqb_eq in E. rewrite E. cbn [ext_ltb]. now rewrite ext_ltb_irrefl_eq.
    + unfold num_sub. cbn [sub_step num_rsub bind ext_ltb]. rewrite neg_from_mpq. unfold qsub. rewrite qred_neg.
      now rewrite ltb_sub.
  - (* Rat Inf *)
    injection Hx as <-. dir_cases db Hb; cbn in Hy; injection Hy as <-; reflexivity.
  - (* Inf Int *)
    injection Hy as <-. dir_cases da Ha; cbn in Hx; injection Hx as <-; reflexivity.
  - (* Inf Rat *)
    injection Hy as <-. dir_cases da Ha; cbn in Hx; injection Hx as <-; rewrite rel_lt_inf_rat by reflexivity; reflexivity.
  - (* Inf Inf *)
    dir_cases da Ha; dir_cases db Hb; cbn in Hx, Hy; injection Hx as <-; injection Hy as <-; reflexivity.
Qed.

(* ------------------------------------------------------------------ Le
   (after commit 117ad73: true when lhs - rhs is negative or zero) *)
Lemma zero_from_mpq : forall q, num_is_zero (from_mpq q) = (Qnum q =? 0).
Proof. intros [n d]. unfold from_mpq. cbn [Qnum Qden]. destruct (d =? 1)%positive; reflexivity. Qed.

Lemma qred_zero : forall q, (Qnum (Qred q) =? 0) = Qeq_bool q 0.
Proof.
  intros q. destruct (Qeq_bool q 0) eqn:E.
  - apply Qeq_bool_iff in E. apply Z.eqb_eq. apply q_num_zero. now rewrite Qred_correct.
  - apply Bool.not_true_is_false. intros H. apply Z.eqb_eq in H. apply q_num_zero in H. rewrite Qred_correct in H.
    apply Qeq_bool_iff in H. congruence.
Qed.

Lemma eqb_sub : forall p q : Q, Qeq_bool (p - q) 0 = Qeq_bool p q.
Proof.
  intros p q. destruct (Qeq_bool p q) eqn:E.
  - apply Qeq_bool_iff in E. apply Qeq_bool_iff. rewrite E. ring.
  - apply Bool.not_true_is_false. intros H. apply Qeq_bool_iff in H.
    assert (p == q)%Q by (setoid_replace p with (p - q + q)%Q by ring; rewrite H; ring).
    apply Qeq_bool_iff in H0. congruence.
Qed.

Lemma ext_eqb_refl : forall x, ext_eqb x x = true.
Proof. intros [|q|]; cbn; try reflexivity. apply Qeq_bool_iff. reflexivity. Qed.

Lemma inject_leb : forall x y : Z,
  (x - y <? 0) || (x - y =? 0) =
  (if Qlt_le_dec (inject_Z x) (inject_Z y) then true else false) || Qeq_bool (inject_Z x) (inject_Z y).
Proof.
  intros x y.
  destruct (Qlt_le_dec (inject_Z x) (inject_Z y)) as [H|H]; destruct (Qeq_bool (inject_Z x) (inject_Z y)) eqn:E;
    cbn [orb].
  - rewrite <- Zlt_Qlt in H. apply Bool.orb_true_iff. left. apply Z.ltb_lt. lia.
  - rewrite <- Zlt_Qlt in H. apply Bool.orb_true_iff. left. apply Z.ltb_lt. lia.
  - apply Qeq_bool_iff in E. unfold Qeq in E. cbn in E. apply Bool.orb_true_iff. right. apply Z.eqb_eq. lia.
  - rewrite <- Zle_Qle in H.
    assert (x <> y). { intros ->. assert (Qeq_bool (inject_Z y) (inject_Z y) = true) by (apply Qeq_bool_iff; reflexivity). congruence. }
    apply Bool.orb_false_iff. split; [apply Z.ltb_ge|apply Z.eqb_neq]; lia.
Qed.

Lemma rel_le_inf_rat : forall d n dd, (d =? 0) = false ->
  rel_le (NInf d) (NRat n dd) = Ok (Some ((d <? 0) || false)).
Proof.
  intros d n dd Hd. unfold rel_le. cbn [is_a_Complex is_a_NaN num_eqb orb]. rewrite Hd.
  unfold num_sub. cbn [sub_step]. unfold default_sub, num_mul. cbn [mul_step bind].
  rewrite inf_add_from_mpq. reflexivity.
Qed.

Ltac le_rat_case :=
  unfold num_sub; cbn [sub_step num_rsub bind ext_ltb ext_eqb]; rewrite neg_from_mpq, zero_from_mpq; unfold qsub;
  rewrite qred_neg, qred_zero, ltb_sub, eqb_sub; reflexivity.

Theorem Le_correct_exact : forall a b x y,
  xreal a = true -> xreal b = true -> val a = Some x -> val b = Some y ->
  rel_le a b = Ok (Some (ext_leb x y)).
Proof.
  intros a b x y Ha Hb Hx Hy. unfold ext_leb.
  destruct a as [za|na da| | | |da| ]; try discriminate Ha;
    destruct b as [zb|nb db| | | |db| ]; try discriminate Hb.
  - (* Int Int *)
    injection Hx as <-. injection Hy as <-. unfold rel_le. cbn [is_a_Complex is_a_NaN num_eqb orb].
    destruct (Z.eqb_spec za zb) as [->|Hne].
    + now rewrite ext_eqb_refl, Bool.orb_true_r.
    + unfold num_sub. cbn [sub_step bind num_is_negative num_is_zero ext_ltb ext_eqb]. now rewrite inject_leb.
  - injection Hx as <-. injection Hy as <-. unfold rel_le. cbn [is_a_Complex is_a_NaN num_eqb orb]. le_rat_case.
  - injection Hx as <-. dir_cases db Hb; cbn in Hy; injection Hy as <-; reflexivity.
  - injection Hx as <-. injection Hy as <-. unfold rel_le. cbn [is_a_Complex is_a_NaN num_eqb orb]. le_rat_case.
  - injection Hx as <-. injection Hy as <-. unfold rel_le. cbn [is_a_Complex is_a_NaN num_eqb orb].
    destruct (q_eqb (Qmake na da) (Qmake nb db)) eqn:E.
    + apply q_eqb_eq in E. rewrite E. now rewrite ext_eqb_refl, Bool.orb_true_r.
    + le_rat_case.
  - injection Hx as <-. dir_cases db Hb; cbn in Hy; injection Hy as <-; reflexivity.
  - injection Hy as <-. dir_cases da Ha; cbn in Hx; injection Hx as <-; reflexivity.
  - injection Hy as <-. dir_cases da Ha; cbn in Hx; injection Hx as <-; rewrite rel_le_inf_rat by reflexivity; reflexivity.
  - dir_cases da Ha; dir_cases db Hb; cbn in Hx, Hy; injection Hx as <-; injection Hy as <-; reflexivity.
Qed.

(* Le(a,b) = not Lt(b,a) *)
Lemma ext_leb_negb_ltb : forall x y, ext_leb x y = negb (ext_ltb y x).
Proof.
  intros [|p|] [|q|]; unfold ext_leb; cbn; try reflexivity.
  destruct (Qlt_le_dec p q) as [H|H], (Qlt_le_dec q p) as [H'|H']; cbn.
  - exfalso. apply (Qlt_irrefl p). eapply Qlt_trans; eassumption.
  - reflexivity.
  - apply Bool.not_true_is_false. intros E. apply Qeq_bool_iff in E. rewrite E in H'. now apply Qlt_irrefl in H'.
  - apply Qeq_bool_iff. now apply Qle_antisym.
Qed.

Theorem Le_not_Lt_exact : forall a b x y,
  xreal a = true -> xreal b = true -> val a = Some x -> val b = Some y ->
  exists t, rel_lt b a = Ok (Some t) /\ rel_le a b = Ok (Some (negb t)).
Proof.
  intros a b x y Ha Hb Hx Hy. exists (ext_ltb y x). split.
  - now apply Lt_correct_exact.
  - rewrite <- ext_leb_negb_ltb. now apply Le_correct_exact.
Qed.

(* Ge / Gt are Le / Lt with the operands exchanged *)
Theorem Ge_Le : forall a b, rel_ge a b = rel_le b a.
Proof. reflexivity. Qed.
Theorem Gt_Lt : forall a b, rel_gt a b = rel_lt b a.
Proof. reflexivity. Qed.

(* Eq symmetric, Ne its negation: all numbers of all kinds *)
Lemma feq_sym : forall x y, feq x y = feq y x.
Proof.
  intros x y. unfold feq. rewrite (BinarySingleNaN.Bcompare_swap _ _ x y).
  destruct (BinarySingleNaN.Bcompare x y) as [[]|]; reflexivity.
Qed.
Lemma q_eqb_sym : forall p q, q_eqb p q = q_eqb q p.
Proof. intros. unfold q_eqb. now rewrite Z.eqb_sym, Pos.eqb_sym. Qed.

Lemma num_eqb_sym : forall a b, num_eqb a b = num_eqb b a.
Proof.
  intros a b. destruct a, b; cbn [num_eqb]; try reflexivity.
  - apply Z.eqb_sym.
  - apply q_eqb_sym.
  - now rewrite (q_eqb_sym (Qmake rn rd)), (q_eqb_sym (Qmake imn imd)).
  - apply feq_sym.
  - now rewrite (feq_sym (of_bits re)), (feq_sym (of_bits im)).
  - apply Z.eqb_sym.
Qed.

Theorem Eq_sym : forall a b, rel_eq a b = rel_eq b a.
Proof.
  intros a b. unfold rel_eq. rewrite (num_eqb_sym a b), (Bool.orb_comm (is_a_NaN a)). reflexivity.
Qed.

Theorem Ne_negb_Eq : forall a b, exists t, rel_eq a b = Ok (Some t) /\ rel_ne a b = Ok (Some (negb t)).
Proof.
  intros a b. unfold rel_ne, rel_eq.
  destruct (is_a_NaN a || is_a_NaN b); [exists false; split; reflexivity|].
  destruct (num_eqb a b); [exists true|exists false]; split; reflexivity.
Qed.
