(* C06: the double dispatch over all 7 x 7 pairs of kinds: commutativity, NaN absorption,
   infinity rules, floats never turn exact. *)
From SE Require Import Num.NumModel Num.NumQ Num.NumFloat.
From Coq Require Import QArith Lia ZArith.
Local Open Scope Z_scope.

(* ------------------------------------------------------------------ Leibniz commutativity of the mpq operations *)
Lemma Qplus_comm_eq : forall a b : Q, Qplus a b = Qplus b a.
Proof. intros [n d] [n' d']. unfold Qplus. cbn [Qnum Qden]. f_equal; [ring|apply Pos.mul_comm]. Qed.
Lemma Qmult_comm_eq : forall a b : Q, Qmult a b = Qmult b a.
Proof. intros [n d] [n' d']. unfold Qmult. cbn [Qnum Qden]. f_equal; [ring|apply Pos.mul_comm]. Qed.
Lemma qadd_comm : forall a b, qadd a b = qadd b a.
Proof. intros. unfold qadd. now rewrite Qplus_comm_eq. Qed.
Lemma qmul_comm : forall a b, qmul a b = qmul b a.
Proof. intros. unfold qmul. now rewrite Qmult_comm_eq. Qed.

Lemma cd_add_cc_comm : forall a b, cd_add_cc a b = cd_add_cc b a.
Proof. intros [a1 a2] [b1 b2]. unfold cd_add_cc. cbn [fst snd]. now rewrite (fadd_comm a1), (fadd_comm a2). Qed.
Lemma cd_mul_cc_comm : forall a b, cd_mul_cc a b = cd_mul_cc b a.
Proof.
  intros [a1 a2] [b1 b2]. unfold cd_mul_cc. cbn [fst snd].
  rewrite (fmul_comm b1 a1), (fmul_comm b2 a2), (fmul_comm b1 a2), (fmul_comm b2 a1).
  rewrite (fadd_comm (fmul a2 b1)). reflexivity.
Qed.

(* ------------------------------------------------------------------ addnum / mulnum *)
Theorem addnum_comm : forall a b, num_add a b = num_add b a.
Proof.
  intros a b.
  destruct a as [za|na da|rna rda ina ida|xa|ra ia|da| ], b as [zb|nb db|rnb rdb inb idb|xb|rb ib|db| ];
    unfold num_add; cbn [add_step inf_add]; try reflexivity.
  - now rewrite Z.add_comm.
  - now rewrite qadd_comm.
  - now rewrite (qadd_comm (Qmake rna rda)), (qadd_comm (Qmake ina ida)).
  - now rewrite fadd_comm.
  - now rewrite cd_add_cc_comm.
  - destruct (Z.eqb_spec db da) as [->|Hne].
    + rewrite Z.eqb_refl. reflexivity.
    + assert (E : (da =? db) = false) by (apply Z.eqb_neq; congruence). rewrite E. reflexivity.
Qed.

Theorem mulnum_comm : forall a b, num_mul a b = num_mul b a.
Proof.
  intros a b.
  destruct a as [za|na da|rna rda ina ida|xa|ra ia|da| ], b as [zb|nb db|rnb rdb inb idb|xb|rb ib|db| ];
    unfold num_mul; cbn [mul_step inf_mul num_is_positive num_is_negative]; try reflexivity.
  - now rewrite Z.mul_comm.
  - now rewrite qmul_comm.
  - rewrite (qmul_comm (Qmake rnb rdb) (Qmake rna rda)), (qmul_comm (Qmake inb idb) (Qmake ina ida)).
    rewrite (qmul_comm (Qmake rnb rdb) (Qmake ina ida)), (qmul_comm (Qmake inb idb) (Qmake rna rda)).
    rewrite (qadd_comm (qmul (Qmake ina ida) (Qmake rnb rdb))). reflexivity.
  - now rewrite fmul_comm.
  - now rewrite cd_mul_cc_comm.
  - now rewrite Z.mul_comm.
Qed.

(* ------------------------------------------------------------------ NaN absorbs *)
Lemma mul_nan_r : forall a, num_mul a NNaN = Ok NNaN.
Proof. intros [ | | | | | | ]; reflexivity. Qed.
Lemma mul_neg1_ok : forall b, exists c, num_mul b (NInt (-1)) = Ok c.
Proof.
  intros [z|n d|rn rd imn imd|x|re im|d| ]; unfold num_mul; cbn [mul_step inf_mul num_is_positive num_is_negative];
    eexists; reflexivity.
Qed.

Theorem nan_absorbs : forall a b,
  (a = NNaN \/ b = NNaN) ->
  num_add a b = Ok NNaN /\ num_sub a b = Ok NNaN /\ num_mul a b = Ok NNaN /\
  num_div a b = Ok NNaN /\ num_pow a b = Ok NNaN.
Proof.
  intros a b [-> | ->].
  - (* NaN op b *)
    repeat split; try reflexivity.
    unfold num_sub. cbn [sub_step]. unfold default_sub.
    destruct b as [z|n d|rn rd imn imd|x|re im|d| ]; reflexivity.
  - destruct a as [z|n d|rn rd imn imd|x|re im|d| ]; repeat split; reflexivity.
Qed.

(* ------------------------------------------------------------------ infinity rules *)
Definition is_dir (d : Z) : Prop := d = 1 \/ d = -1 \/ d = 0.

Theorem inf_add_rule : forall d d',
  num_add (NInf d) (NInf d') = Ok (if (d =? d') && negb (d =? 0) then NInf d else NNaN).
Proof.
  intros d d'. unfold num_add. cbn [add_step inf_add]. rewrite (Z.eqb_sym d' d).
  destruct (d =? d'), (d =? 0); reflexivity.
Qed.

Theorem inf_plus_finite : forall d x,
  is_inf x = false -> x <> NNaN -> num_add (NInf d) x = Ok (NInf d) /\ num_add x (NInf d) = Ok (NInf d).
Proof.
  intros d x Hi Hn. destruct x as [z|n d0|rn rd imn imd|b|re im|d0| ]; try discriminate Hi; try contradiction; split; reflexivity.
Qed.

Theorem zero_times_inf : forall d x, num_is_zero x = true ->
  num_mul (NInf d) x = Ok NNaN /\ num_mul x (NInf d) = Ok NNaN.
Proof.
  intros d x Hz. rewrite (mulnum_comm x). assert (H : num_mul (NInf d) x = Ok NNaN); [|split; exact H].
  destruct x as [z|n d0|rn rd imn imd|b|re im|d0| ]; cbn [num_is_zero] in Hz; try discriminate Hz;
    unfold num_mul; cbn [mul_step inf_mul num_is_positive num_is_negative].
  - apply Z.eqb_eq in Hz. subst z. reflexivity.
  - apply Z.eqb_eq in Hz. subst n. reflexivity.
  - unfold feq in Hz. unfold flt. rewrite BinarySingleNaN.Bcompare_swap.
    destruct (BinarySingleNaN.Bcompare (of_bits b) fzero) as [[]|]; try discriminate Hz. reflexivity.
  - reflexivity.
Qed.

Theorem inf_sign_rule : forall d x, is_inf x = false -> is_exact_cplx x = false ->
  (num_is_positive x = true -> num_mul (NInf d) x = Ok (NInf d) /\ num_mul x (NInf d) = Ok (NInf d) /\
                               num_div (NInf d) x = Ok (NInf d)) /\
  (num_is_negative x = true -> num_mul (NInf d) x = Ok (NInf (d * -1)) /\ num_mul x (NInf d) = Ok (NInf (d * -1))).
Proof.
  intros d x Hi Hc. split; intros Hs.
  - assert (Hn : num_is_negative x = false \/ True) by (right; exact I).
    rewrite (mulnum_comm x).
    destruct x as [z|n d0|rn rd imn imd|b|re im|d0| ]; try discriminate Hi; try discriminate Hc; try discriminate Hs;
      unfold num_mul, num_div; cbn [mul_step div_step inf_mul inf_div]; rewrite Hs; repeat split; reflexivity.
  - rewrite (mulnum_comm x).
    assert (Hp : num_is_positive x = false).
    { destruct x as [z|n d0|rn rd imn imd|b|re im|d0| ]; cbn [num_is_positive num_is_negative] in *; try discriminate Hs;
        try (apply Z.ltb_lt in Hs; apply Z.ltb_ge; lia).
      unfold flt in *. rewrite BinarySingleNaN.Bcompare_swap.
      destruct (BinarySingleNaN.Bcompare (of_bits b) fzero) as [[]|]; try discriminate Hs; reflexivity. }
    destruct x as [z|n d0|rn rd imn imd|b|re im|d0| ]; try discriminate Hi; try discriminate Hc; try discriminate Hs;
      unfold num_mul; cbn [mul_step inf_mul]; rewrite Hp, Hs; repeat split; reflexivity.
Qed.

Theorem inf_times_inf : forall d d', num_mul (NInf d) (NInf d') = Ok (NInf (d * d')).
Proof. reflexivity. Qed.

Theorem inf_div_inf : forall d d', num_div (NInf d) (NInf d') = Ok NNaN.
Proof. reflexivity. Qed.

(* zoo times a complex number: expected zoo; the code throws (exact Complex) or answers NaN (ComplexDouble) *)
Theorem inf_rules_refuted :
  num_mul (NCplx 1 1 2 1) (NInf 0) = ErrExn EXN_NOTIMPL /\
  num_mul (NInf 0) (NCDbl 4607182418800017408 4611686018427387904) = Ok NNaN.
Proof. split; vm_compute; reflexivity. Qed.

(* ------------------------------------------------------------------ floats never turn exact *)
Definition finite_kind (a : number) : bool :=
  match a with NInf _ | NNaN => false | _ => true end.

Lemma bind_float : forall (r : res cd) n, bind r (fun c => Ok (mkCD c)) = Ok n -> is_float n = true.
Proof. intros [c| | |] n H; cbn in H; try discriminate H. injection H as <-. reflexivity. Qed.

Theorem float_never_exact_guarded : forall a b r,
  is_float a || is_float b = true -> finite_kind a = true -> finite_kind b = true ->
  guard_dbl_times_int0 a b = false ->
  (num_add a b = Ok r \/ num_sub a b = Ok r \/ num_mul a b = Ok r \/ num_div a b = Ok r) ->
  is_float r = true.
Proof.
  intros a b r Hf Ha Hb Hg H.
  destruct a as [za|na da|rna rda ina ida|xa|ra ia|da| ], b as [zb|nb db|rnb rdb inb idb|xb|rb ib|db| ];
    try discriminate Hf; try discriminate Ha; try discriminate Hb;
    destruct H as [H|[H|[H|H]]];
    unfold num_add, num_sub, num_mul, num_div in H;
    cbn [add_step sub_step mul_step div_step num_rsub num_rdiv] in H;
    try (injection H as <-; reflexivity); try discriminate H;
    try (apply bind_float in H; exact H).
  all: unfold guard_dbl_times_int0, is_dbl, is_int0 in Hg; cbn [andb orb] in Hg;
    rewrite ?Bool.andb_true_r, ?Bool.orb_false_r, ?Bool.orb_false_l in Hg;
    rewrite Hg in H; injection H as <-; reflexivity.
Qed.

Theorem float_never_exact_refuted :
  exists a b, is_float a = true /\ num_wf a = true /\ num_wf b = true /\ num_mul a b = Ok (NInt 0).
Proof. exists (NDbl 4611686018427387904), (NInt 0). repeat split; vm_compute; reflexivity. Qed.

(* ------------------------------------------------------------------ Basic-level add(a,b), mul(a,b) *)
Lemma wf_bits : forall x, bits_ok x = true -> to_bits (of_bits x) = x.
Proof. intros x H. unfold bits_ok in H. apply andb_prop in H as [_ H]. now apply N.eqb_eq in H. Qed.

Lemma qmul_one_r : forall n d, qlow (Qmake n d) -> qmul (Qmake n d) (qz 1) = Qmake n d.
Proof.
  intros n d H. unfold qmul, qz, Qmult, inject_Z. cbn [Qnum Qden]. rewrite Z.mul_1_r, Pos.mul_1_r.
  now apply qlow_Qred_id.
Qed.
Lemma qadd_zero_r : forall n d, qlow (Qmake n d) -> qadd (Qmake n d) (qz 0) = Qmake n d.
Proof.
  intros n d H. unfold qadd, qz, Qplus, inject_Z. cbn [Qnum Qden]. rewrite Z.mul_1_r, Pos.mul_1_r, Z.mul_0_l, Z.add_0_r.
  now apply qlow_Qred_id.
Qed.

Lemma from_mpq_rat : forall n d, (d =? 1)%positive = false -> from_mpq (Qmake n d) = NRat n d.
Proof. intros n d H. unfold from_mpq. cbn [Qnum Qden]. now rewrite H. Qed.
Lemma cplx_from_mpq_cplx : forall rn rd imn imd, (imn =? 0) = false ->
  cplx_from_mpq (Qmake rn rd) (Qmake imn imd) = NCplx rn rd imn imd.
Proof. intros. unfold cplx_from_mpq. cbn [Qnum Qden]. now rewrite H. Qed.

Ltac wf_split H :=
  cbn [num_wf] in H;
  repeat match type of H with (_ && _ = true) => let H1 := fresh "Hw" in apply andb_prop in H as [H H1] end.

Lemma num_mul_one_l : forall a, num_wf a = true -> num_mul (NInt 1) a = Ok a.
Proof.
  intros [z|n d|rn rd imn imd|x|re im|d| ] Hw; unfold num_mul; cbn [mul_step inf_mul num_is_positive num_is_negative].
  - now rewrite Z.mul_1_l.
  - wf_split Hw. apply q_lowest_iff in Hw. rewrite qmul_one_r by assumption.
    apply Bool.negb_true_iff in Hw0. now rewrite from_mpq_rat.
  - wf_split Hw. apply q_lowest_iff in Hw, Hw1. rewrite !qmul_one_r by assumption.
    apply Bool.negb_true_iff in Hw0. now rewrite cplx_from_mpq_cplx.
  - cbn [Z.eqb]. fold fone. rewrite fmul_one. unfold mkD. cbn [num_wf] in Hw. now rewrite wf_bits.
  - unfold cd_mul_cs, cd_of_bits, mkCD. cbn [fst snd]. fold fone. rewrite !fmul_one.
    wf_split Hw. now rewrite !wf_bits.
  - reflexivity.
  - reflexivity.
Qed.

Theorem basic_mul_comm : forall a b, num_wf a = true -> num_wf b = true ->
  basic_mul_num a b = basic_mul_num b a.
Proof.
  intros a b Ha Hb. unfold basic_mul_num. rewrite !num_mul_one_l by assumption. cbn [bind].
  apply mulnum_comm.
Qed.

Lemma zero_nonfloat_wf : forall a, num_is_zero a = true -> is_float a = false -> num_wf a = true -> a = NInt 0.
Proof.
  intros [z|n d|rn rd imn imd|x|re im|d| ] Hz Hf Hw; cbn [num_is_zero is_float] in *; try discriminate.
  - apply Z.eqb_eq in Hz. now subst.
  - exfalso. apply Z.eqb_eq in Hz. subst n. wf_split Hw. unfold q_lowest in Hw.
    rewrite Z.gcd_0_l in Hw. change (Z.abs (Z.pos d)) with (Z.pos d) in Hw.
    apply Z.eqb_eq in Hw. injection Hw as ->. discriminate Hw0.
Qed.

Lemma num_add_zero_r : forall b, num_wf b = true -> is_float b = false -> num_add b (NInt 0) = Ok b.
Proof.
  intros [z|n d|rn rd imn imd|x|re im|d| ] Hw Hf; try discriminate Hf; unfold num_add; cbn [add_step inf_add].
  - now rewrite Z.add_0_r.
  - wf_split Hw. apply q_lowest_iff in Hw. rewrite qadd_zero_r by assumption.
    apply Bool.negb_true_iff in Hw0. now rewrite from_mpq_rat.
  - wf_split Hw. apply q_lowest_iff in Hw. rewrite qadd_zero_r by assumption.
    apply Bool.negb_true_iff in Hw0. now rewrite cplx_from_mpq_cplx.
  - reflexivity.
  - reflexivity.
Qed.

Theorem basic_add_comm_guarded : forall a b, num_wf a = true -> num_wf b = true ->
  guard_badd_zero_float a b = false ->
  basic_add_num a b = basic_add_num b a.
Proof.
  intros a b Ha Hb Hg. unfold basic_add_num. unfold guard_badd_zero_float in Hg.
  destruct (num_is_zero a) eqn:Za, (num_is_zero b) eqn:Zb; cbn [orb andb] in Hg.
  - reflexivity.
  - apply Bool.orb_false_iff in Hg as [Hfa Hfb].
    rewrite (zero_nonfloat_wf a Za Hfa Ha). rewrite num_add_zero_r by assumption. cbn [bind]. now rewrite Zb.
  - apply Bool.orb_false_iff in Hg as [Hfa Hfb].
    rewrite (zero_nonfloat_wf b Zb Hfb Hb). rewrite num_add_zero_r by assumption. cbn [bind]. now rewrite Za.
  - now rewrite addnum_comm.
Qed.

Theorem basic_add_comm_refuted :
  exists a b, num_wf a = true /\ num_wf b = true /\
              basic_add_num a b = Ok (NDbl 4607182418800017408) /\ basic_add_num b a = Ok (NInt 1).
Proof. exists (NInt 1), (NDbl 0). repeat split; vm_compute; reflexivity. Qed.
