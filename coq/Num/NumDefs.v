(* L1 -- the number tower: representation of SymEngine's Number subclasses.
   Pinned interface (the expression core and several properties build on it). *)
From SE Require Export Base.Prelude.

Inductive number :=
| NInt (z : Z)                                   (* Integer *)
| NRat (n : Z) (d : positive)                    (* Rational: lowest terms, d > 1 *)
| NCplx (rn : Z) (rd : positive) (imn : Z) (imd : positive)
                                                 (* Complex: real_ and imaginary_ as rationals in
                                                    lowest terms, imaginary part nonzero *)
| NDbl (bits : N)                                (* RealDouble: IEEE-754 binary64 bit pattern *)
| NCDbl (re im : N)                              (* ComplexDouble: two bit patterns *)
| NInf (dir : Z)                                 (* Infty: direction 1, -1 or 0 (zoo) *)
| NNaN.                                          (* the symbolic NaN *)
