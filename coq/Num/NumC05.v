(* C05: the exact classes (Integer, Rational, Complex) compute arithmetic in Q(i) and
   return normalised results. *)
From SE Require Import Num.NumModel Num.NumSpec Num.NumQ Num.NumQi.
From Coq Require Import QArith Qreduction Lia ZArith Setoid Morphisms Field.
Local Open Scope Z_scope.

(* the result of an operation is an exact number of value v *)
Definition has_val (r : res number) (v : qi) : Prop :=
  exists n z, r = Ok n /\ valQi n = Some z /\ qi_eq z v.

Lemma has_val_proper : forall r v w, qi_eq v w -> has_val r v -> has_val r w.
Proof. intros r v w H (n & z & H1 & H2 & H3). exists n, z. split; [assumption|]. split; [assumption|]. now transitivity v. Qed.

Lemma from_mpq_val : forall q v, (q == v)%Q -> has_val (Ok (from_mpq q)) (v, 0%Q).
Proof.
  intros [n d] v H. unfold from_mpq. cbn [Qnum Qden].
  destruct (Pos.eqb_spec d 1) as [->|Hd].
  - exists (NInt n), (inject_Z n, 0%Q). repeat split; cbn [fst snd]; try reflexivity. exact H.
  - exists (NRat n d), (Qmake n d, 0%Q). repeat split; cbn [fst snd]; try reflexivity. exact H.
Qed.

Lemma cplx_from_mpq_val : forall re im a b, (re == a)%Q -> (im == b)%Q ->
  has_val (Ok (cplx_from_mpq re im)) (a, b).
Proof.
  intros re im a b Ha Hb. unfold cplx_from_mpq.
  destruct (Z.eqb_spec (Qnum im) 0) as [Hz|Hnz].
  - apply q_num_zero in Hz. eapply has_val_proper; [|apply from_mpq_val; exact Ha].
    split; cbn [fst snd]; [reflexivity|]. now rewrite <- Hb, Hz.
  - exists (NCplx (Qnum re) (Qden re) (Qnum im) (Qden im)), (re, im).
    destruct re, im. repeat split; cbn [fst snd]; try reflexivity; assumption.
Qed.

Ltac exact_cases a b x y Ha Hb :=
  destruct a as [za|na da|rna rda ina ida| | | | ]; cbn [valQi] in Ha; try discriminate Ha;
  destruct b as [zb|nb db|rnb rdb inb idb| | | | ]; cbn [valQi] in Hb; try discriminate Hb;
  injection Ha as <-; injection Hb as <-.

Ltac solve_val :=
  first [ apply from_mpq_val | apply cplx_from_mpq_val ];
  rewrite ?qadd_eq, ?qsub_eq, ?qmul_eq, ?qneg_eq; unfold qz; cbn [fst snd];
  try ring.

(* ------------------------------------------------------------------ add / sub / mul *)
Theorem num_add_correct : forall a b x y,
  valQi a = Some x -> valQi b = Some y -> has_val (num_add a b) (qi_add x y).
Proof.
  intros a b x y Ha Hb. exact_cases a b x y Ha Hb; unfold num_add; cbn [add_step]; unfold qi_add; cbn [fst snd].
  - exists (NInt (za + zb)), (inject_Z (za + zb), 0%Q). repeat split; cbn [fst snd]; try reflexivity.
    rewrite inject_Z_plus. reflexivity.
  - eapply has_val_proper; [|apply from_mpq_val; rewrite qadd_eq; reflexivity].
    split; cbn [fst snd]; unfold qz; ring.
  - eapply has_val_proper; [|apply cplx_from_mpq_val; [rewrite qadd_eq; reflexivity|reflexivity]].
    split; cbn [fst snd]; unfold qz; ring.
  - eapply has_val_proper; [|apply from_mpq_val; rewrite qadd_eq; reflexivity].
    split; cbn [fst snd]; unfold qz; ring.
  - eapply has_val_proper; [|apply from_mpq_val; rewrite qadd_eq; reflexivity].
    split; cbn [fst snd]; ring.
  - eapply has_val_proper; [|apply cplx_from_mpq_val; [rewrite qadd_eq; reflexivity|reflexivity]].
    split; cbn [fst snd]; ring.
  - eapply has_val_proper; [|apply cplx_from_mpq_val; [rewrite qadd_eq; reflexivity|reflexivity]].
    split; cbn [fst snd]; unfold qz; ring.
  - eapply has_val_proper; [|apply cplx_from_mpq_val; [rewrite qadd_eq; reflexivity|reflexivity]].
    split; cbn [fst snd]; ring.
  - eapply has_val_proper; [|apply cplx_from_mpq_val; rewrite qadd_eq; reflexivity].
    split; cbn [fst snd]; ring.
Qed.

Theorem num_sub_correct : forall a b x y,
  valQi a = Some x -> valQi b = Some y -> has_val (num_sub a b) (qi_sub x y).
Proof.
  intros a b x y Ha Hb. exact_cases a b x y Ha Hb; unfold num_sub; cbn [sub_step num_rsub]; unfold qi_sub; cbn [fst snd].
  - exists (NInt (za - zb)), (inject_Z (za - zb), 0%Q). repeat split; cbn [fst snd]; try reflexivity.
    unfold Z.sub. rewrite inject_Z_plus, inject_Z_opp. reflexivity.
  - eapply has_val_proper; [|apply from_mpq_val; rewrite qsub_eq; reflexivity].
    split; cbn [fst snd]; unfold qz; ring.
  - eapply has_val_proper; [|apply cplx_from_mpq_val; [rewrite qsub_eq; reflexivity|rewrite qneg_eq; reflexivity]].
    split; cbn [fst snd]; unfold qz; ring.
  - eapply has_val_proper; [|apply from_mpq_val; rewrite qsub_eq; reflexivity].
    split; cbn [fst snd]; unfold qz; ring.
  - eapply has_val_proper; [|apply from_mpq_val; rewrite qsub_eq; reflexivity].
    split; cbn [fst snd]; ring.
  - eapply has_val_proper; [|apply cplx_from_mpq_val; [rewrite qsub_eq; reflexivity|rewrite qneg_eq; reflexivity]].
    split; cbn [fst snd]; ring.
  - eapply has_val_proper; [|apply cplx_from_mpq_val; [rewrite qsub_eq; reflexivity|reflexivity]].
    split; cbn [fst snd]; unfold qz; ring.
  - eapply has_val_proper; [|apply cplx_from_mpq_val; [rewrite qsub_eq; reflexivity|reflexivity]].
    split; cbn [fst snd]; ring.
  - eapply has_val_proper; [|apply cplx_from_mpq_val; rewrite qsub_eq; reflexivity].
    split; cbn [fst snd]; ring.
Qed.

Theorem num_mul_correct : forall a b x y,
  valQi a = Some x -> valQi b = Some y -> has_val (num_mul a b) (qi_mul x y).
Proof.
  intros a b x y Ha Hb. exact_cases a b x y Ha Hb; unfold num_mul; cbn [mul_step]; unfold qi_mul; cbn [fst snd].
  - exists (NInt (za * zb)), (inject_Z (za * zb), 0%Q). repeat split; cbn [fst snd]; try (rewrite inject_Z_mult); try ring; reflexivity.
  - eapply has_val_proper; [|apply from_mpq_val; rewrite qmul_eq; reflexivity].
    split; cbn [fst snd]; unfold qz; ring.
  - eapply has_val_proper; [|apply cplx_from_mpq_val; rewrite qmul_eq; reflexivity].
    split; cbn [fst snd]; unfold qz; ring.
  - eapply has_val_proper; [|apply from_mpq_val; rewrite qmul_eq; reflexivity].
    split; cbn [fst snd]; unfold qz; ring.
  - eapply has_val_proper; [|apply from_mpq_val; rewrite qmul_eq; reflexivity].
    split; cbn [fst snd]; ring.
  - eapply has_val_proper; [|apply cplx_from_mpq_val; rewrite qmul_eq; reflexivity].
    split; cbn [fst snd]; ring.
  - eapply has_val_proper; [|apply cplx_from_mpq_val; rewrite qmul_eq; reflexivity].
    split; cbn [fst snd]; unfold qz; ring.
  - eapply has_val_proper; [|apply cplx_from_mpq_val; rewrite qmul_eq; reflexivity].
    split; cbn [fst snd]; ring.
  - eapply has_val_proper; [|apply cplx_from_mpq_val; [rewrite qsub_eq, !qmul_eq; reflexivity|rewrite qadd_eq, !qmul_eq; reflexivity]].
    split; cbn [fst snd]; ring.
Qed.

(* ------------------------------------------------------------------ division *)
Lemma real_nonzero : forall q : Q, ~ qi_is_zero (q, 0%Q) -> ~ (q == 0)%Q.
Proof. intros q H E. apply H. split; cbn [fst snd]; [exact E|reflexivity]. Qed.

Lemma qi_div_real : forall a b q : Q, ~ (q == 0)%Q ->
  qi_eq (qi_div (a, b) (q, 0%Q)) ((a / q)%Q, (b / q)%Q).
Proof. intros a b q Hq. unfold qi_div, qi_norm2. cbn [fst snd]. split; cbn [fst snd]; field; exact Hq. Qed.

Lemma num_nonzero_Q : forall n d, ~ (Qmake n d == 0)%Q -> n <> 0.
Proof. intros n d H E. apply H. subst n. reflexivity. Qed.

Lemma inject_nonzero : forall z, ~ (inject_Z z == 0)%Q -> z <> 0.
Proof. intros z H E. apply H. subst z. reflexivity. Qed.

Lemma norm2_nonzero : forall re im : Q, ~ qi_is_zero (re, im) -> ~ (re * re + im * im == 0)%Q.
Proof. intros re im H E. apply H. apply (qi_zero_norm2 (re, im)). exact E. Qed.

Lemma msq_not_zero : forall re im : Q, ~ qi_is_zero (re, im) ->
  q_is_zero (qadd (qmul re re) (qmul im im)) = false.
Proof.
  intros re im H. destruct (q_is_zero _) eqn:E; [|reflexivity].
  apply q_is_zero_iff in E. rewrite qadd_eq, !qmul_eq in E. now apply norm2_nonzero in H.
Qed.

Theorem num_div_correct : forall a b x y,
  valQi a = Some x -> valQi b = Some y -> ~ qi_is_zero y -> guard_rat_div_cplx a b = false ->
  has_val (num_div a b) (qi_div x y).
Proof.
  intros a b x y Ha Hb Hy Hg. exact_cases a b x y Ha Hb; unfold num_div; cbn [div_step num_rdiv];
    try discriminate Hg.
  - (* Int / Int *)
    apply real_nonzero in Hy. pose proof (inject_nonzero _ Hy) as Hz.
    destruct (Z.eqb_spec zb 0) as [E|_]; [contradiction|].
    eapply has_val_proper; [symmetry; apply qi_div_real; exact Hy|].
    eapply has_val_proper; [|apply from_mpq_val; apply qcanon_eq; exact Hz].
    split; cbn [fst snd]; [reflexivity|]. unfold Qdiv. ring.
  - (* Int / Rat *)
    apply real_nonzero in Hy. pose proof (num_nonzero_Q _ _ Hy) as Hz.
    destruct (Z.eqb_spec nb 0) as [E|_]; [contradiction|].
    eapply has_val_proper; [symmetry; apply qi_div_real; exact Hy|].
    eapply has_val_proper; [|apply from_mpq_val; rewrite qdiv_eq; reflexivity].
    split; cbn [fst snd]; [reflexivity|]. unfold Qdiv. ring.
  - (* Int / Cplx *)
    rewrite (msq_not_zero _ _ Hy).
    eapply has_val_proper; [|apply cplx_from_mpq_val; rewrite qdiv_eq, qadd_eq, !qmul_eq; reflexivity].
    unfold qi_div, qi_norm2, qz. cbn [fst snd]. split; cbn [fst snd]; apply Qdiv_comp; try reflexivity.
    + ring.
    + rewrite inject_Z_opp. ring.
  - (* Rat / Int *)
    apply real_nonzero in Hy. pose proof (inject_nonzero _ Hy) as Hz.
    destruct (Z.eqb_spec zb 0) as [E|_]; [contradiction|].
    eapply has_val_proper; [symmetry; apply qi_div_real; exact Hy|].
    eapply has_val_proper; [|apply from_mpq_val; rewrite qdiv_eq; reflexivity].
    split; cbn [fst snd]; [reflexivity|]. unfold Qdiv. ring.
  - (* Rat / Rat *)
    apply real_nonzero in Hy. pose proof (num_nonzero_Q _ _ Hy) as Hz.
    destruct (Z.eqb_spec nb 0) as [E|_]; [contradiction|].
    eapply has_val_proper; [symmetry; apply qi_div_real; exact Hy|].
    eapply has_val_proper; [|apply from_mpq_val; rewrite qdiv_eq; reflexivity].
    split; cbn [fst snd]; [reflexivity|]. unfold Qdiv. ring.
  - (* Cplx / Int *)
    apply real_nonzero in Hy. pose proof (inject_nonzero _ Hy) as Hz.
    destruct (Z.eqb_spec zb 0) as [E|_]; [contradiction|].
    eapply has_val_proper; [symmetry; apply qi_div_real; exact Hy|].
    apply cplx_from_mpq_val; rewrite qdiv_eq; reflexivity.
  - (* Cplx / Rat *)
    apply real_nonzero in Hy. pose proof (num_nonzero_Q _ _ Hy) as Hz.
    destruct (Z.eqb_spec nb 0) as [E|_]; [contradiction|].
    eapply has_val_proper; [symmetry; apply qi_div_real; exact Hy|].
    apply cplx_from_mpq_val; rewrite qdiv_eq; reflexivity.
  - (* Cplx / Cplx *)
    rewrite (msq_not_zero _ _ Hy).
    eapply has_val_proper; [|apply cplx_from_mpq_val; rewrite qdiv_eq, !qadd_eq, !qmul_eq, ?qneg_eq; reflexivity].
    unfold qi_div, qi_norm2. cbn [fst snd]. split; cbn [fst snd]; apply Qdiv_comp; try reflexivity; ring.
Qed.

(* ------------------------------------------------------------------ division by exact zero *)
Definition zero_result (x : qi) (r : res number) : Prop :=
  (qi_is_zero x -> r = Ok NNaN) /\ (~ qi_is_zero x -> r = Ok (NInf 0)).

Lemma zero_div_int : forall z, zero_result (inject_Z z, 0%Q) (Ok (zero_div (z =? 0))).
Proof.
  intros z. split; intros H; destruct (Z.eqb_spec z 0) as [E|E]; try reflexivity.
  - exfalso. apply E. destruct H as [H _]. cbn [fst] in H. unfold Qeq in H. cbn in H. lia.
  - exfalso. apply H. subst z. split; reflexivity.
Qed.

Lemma zero_div_rat : forall n d, zero_result (Qmake n d, 0%Q) (Ok (zero_div (n =? 0))).
Proof.
  intros n d. split; intros H; destruct (Z.eqb_spec n 0) as [E|E]; try reflexivity.
  - exfalso. apply E. destruct H as [H _]. cbn [fst] in H. unfold Qeq in H. cbn in H. lia.
  - exfalso. apply H. subst n. split; reflexivity.
Qed.

Lemma zero_div_cplx : forall re im : Q,
  zero_result (re, im) (Ok (zero_div (q_is_zero (qadd (qmul re re) (qmul im im))))).
Proof.
  intros re im. split; intros H.
  - assert (E : q_is_zero (qadd (qmul re re) (qmul im im)) = true).
    { apply q_is_zero_iff. rewrite qadd_eq, !qmul_eq. apply (qi_zero_norm2 (re, im)). exact H. }
    now rewrite E.
  - now rewrite (msq_not_zero _ _ H).
Qed.

Lemma real_zero_num : forall n d, qi_is_zero (Qmake n d, 0%Q) -> n = 0.
Proof. intros n d [H _]. cbn [fst] in H. unfold Qeq in H. cbn in H. lia. Qed.
Lemma real_zero_int : forall z, qi_is_zero (inject_Z z, 0%Q) -> z = 0.
Proof. intros z [H _]. cbn [fst] in H. unfold Qeq in H. cbn in H. lia. Qed.

Theorem div_by_exact_zero : forall a b x y,
  valQi a = Some x -> valQi b = Some y -> qi_is_zero y -> guard_rat_div_cplx a b = false ->
  zero_result x (num_div a b).
Proof.
  intros a b x y Ha Hb Hy Hg. exact_cases a b x y Ha Hb; unfold num_div; cbn [div_step num_rdiv];
    try discriminate Hg;
    try (apply real_zero_int in Hy; subst zb; cbn [Z.eqb]);
    try (apply real_zero_num in Hy; subst nb; cbn [Z.eqb]);
    try apply zero_div_int; try apply zero_div_rat; try apply zero_div_cplx.
  - (* Int / Cplx *)
    assert (E : q_is_zero (qadd (qmul (Qmake rnb rdb) (Qmake rnb rdb)) (qmul (Qmake inb idb) (Qmake inb idb))) = true).
    { apply q_is_zero_iff. rewrite qadd_eq, !qmul_eq. apply (qi_zero_norm2 (Qmake rnb rdb, Qmake inb idb)). exact Hy. }
    rewrite E. apply zero_div_int.
  - (* Cplx / Cplx *)
    assert (E : q_is_zero (qadd (qmul (Qmake rnb rdb) (Qmake rnb rdb)) (qmul (Qmake inb idb) (Qmake inb idb))) = true).
    { apply q_is_zero_iff. rewrite qadd_eq, !qmul_eq. apply (qi_zero_norm2 (Qmake rnb rdb, Qmake inb idb)). exact Hy. }
    rewrite E. apply zero_div_cplx.
Qed.

(* the other entry points *)
Theorem mk_rat_zero_den : forall n, mk_rat n 0 = Ok (if n =? 0 then NNaN else NInf 0).
Proof. intros n. unfold mk_rat. cbn [Z.eqb]. destruct (n =? 0); reflexivity. Qed.

Theorem int_rdiv_zero : forall y, num_rdiv (NInt 0) (NInt y) = Ok (if y =? 0 then NNaN else NInf 0).
Proof. intros y. cbn [num_rdiv Z.eqb]. unfold zero_div. destruct (y =? 0); reflexivity. Qed.

Theorem mk_rat_correct : forall n d, d <> 0 ->
  has_val (mk_rat n d) ((inject_Z n / inject_Z d)%Q, 0%Q).
Proof.
  intros n d Hd. unfold mk_rat. destruct (Z.eqb_spec d 0); [contradiction|].
  apply from_mpq_val. now apply qcanon_eq.
Qed.

(* pow with a negative exponent of 0 (Integer::pow_negint, repaired in commit 5eef324) *)
Theorem pow_zero_negative : forall e, e < 0 -> Z.abs e <? TWO64 = true ->
  num_pow (NInt 0) (NInt e) = Ok (NInf 0).
Proof.
  intros e He Hr. apply Z.ltb_lt in Hr. unfold num_pow. cbn [pow_step]. unfold int_powint, fits_ulong.
  assert (E1 : (0 <=? e) = false) by (apply Z.leb_gt; lia). rewrite E1. cbn [andb].
  assert (E2 : (0 <? e) = false) by (apply Z.ltb_ge; lia). rewrite E2.
  unfold int_pow_negint, fits_ulong.
  assert (E3 : (0 <=? - e) = true) by (apply Z.leb_le; lia).
  assert (E4 : (- e <? TWO64) = true) by (apply Z.ltb_lt; lia).
  rewrite E3, E4. cbn [andb]. rewrite zpow_spec by lia. rewrite Z.pow_0_l by lia. reflexivity.
Qed.

(* ------------------------------------------------------------------ integer powers *)
#[global] Instance qi_powz_proper : Proper (qi_eq ==> eq ==> qi_eq) qi_powz.
Proof.
  intros x y H e e' <-. destruct e; cbn [qi_powz].
  - reflexivity.
  - now rewrite H.
  - now rewrite H.
Qed.

Lemma sgn_abs_inv : forall j, j <> 0 -> (inject_Z (Z.sgn j) / inject_Z (Z.abs j) == 1 / inject_Z j)%Q.
Proof.
  intros [|p|p] H; try congruence; unfold Qdiv, Qinv, Qmult, Qeq, inject_Z; cbn; lia.
Qed.

Lemma pos_nat_Z : forall p, Z.of_nat (Pos.to_nat p) = Zpos p.
Proof. intros p. apply positive_nat_Z. Qed.

Lemma int_powint_correct : forall b e,
  Z.abs e <? TWO64 = true -> (0 <= e \/ b <> 0) ->
  has_val (int_powint b e) (qi_powz (inject_Z b, 0%Q) e).
Proof.
  intros b e Hr Hz. apply Z.ltb_lt in Hr. unfold int_powint, fits_ulong.
  destruct e as [|p|p].
  - cbn. exists (NInt 1), (inject_Z 1, 0%Q). repeat split; reflexivity.
  - assert (E1 : (0 <=? Z.pos p) = true) by (apply Z.leb_le; lia).
    assert (E2 : (Z.pos p <? TWO64) = true) by (apply Z.ltb_lt; lia).
    rewrite E1, E2. cbn [andb qi_powz].
    exists (NInt (zpow b (Zpos p))), (inject_Z (zpow b (Zpos p)), 0%Q). repeat split; try reflexivity.
    + cbn [fst]. rewrite zpow_spec by lia. destruct (qi_pow_nat_int b (Pos.to_nat p)) as [H _].
      cbn [fst] in H. rewrite H. now rewrite pos_nat_Z.
    + cbn [snd]. destruct (qi_pow_nat_int b (Pos.to_nat p)) as [_ H]. cbn [snd] in H. now rewrite H.
  - assert (Hb : b <> 0) by (destruct Hz; [lia|assumption]).
    assert (E1 : (0 <=? Z.neg p) = false) by (apply Z.leb_gt; lia).
    rewrite E1. cbn [andb]. assert (E0 : (0 <? Z.neg p) = false) by (apply Z.ltb_ge; lia). rewrite E0.
    unfold int_pow_negint, fits_ulong. cbn [Z.opp].
    assert (E3 : (0 <=? Z.pos p) = true) by (apply Z.leb_le; lia).
    assert (E4 : (Z.pos p <? TWO64) = true) by (apply Z.ltb_lt; cbn in Hr; lia).
    rewrite E3, E4. cbn [andb]. rewrite zpow_spec by lia.
    assert (Hj : b ^ Z.pos p <> 0) by (apply Z.pow_nonzero; lia).
    destruct (Z.eqb_spec (b ^ Z.pos p) 0) as [E|_]; [contradiction|].
    cbn [qi_powz].
    assert (Hpow : qi_eq (qi_pow_nat (inject_Z b, 0%Q) (Pos.to_nat p)) (inject_Z (b ^ Z.pos p), 0%Q)).
    { rewrite qi_pow_nat_int. now rewrite pos_nat_Z. }
    eapply has_val_proper; [symmetry; unfold qi_inv; rewrite Hpow; apply qi_div_real|].
    + intros E. unfold Qeq in E. cbn in E. lia.
    + eapply has_val_proper; [|apply from_mpq_val; apply qcanon_eq; lia].
      split; cbn [fst snd]; [apply sgn_abs_inv; exact Hj|]. unfold Qdiv. ring.
Qed.

Lemma rat_powrat_correct : forall n d e,
  Z.abs e <? TWO64 = true -> (0 <= e \/ n <> 0) ->
  has_val (rat_powrat n d e) (qi_powz (Qmake n d, 0%Q) e).
Proof.
  intros n d e Hr Hz. apply Z.ltb_lt in Hr. unfold rat_powrat, fits_ulong.
  destruct e as [|p|p].
  - cbn. exists (NInt 1), (inject_Z 1, 0%Q). repeat split; reflexivity.
  - assert (E0 : (Z.pos p <? 0) = false) by (apply Z.ltb_ge; lia). rewrite E0.
    assert (E1 : (0 <=? Z.pos p) = true) by (apply Z.leb_le; lia).
    assert (E2 : (Z.pos p <? TWO64) = true) by (apply Z.ltb_lt; lia).
    rewrite E1, E2. cbn [andb negb qi_powz]. rewrite !zpow_spec by lia.
    eapply has_val_proper; [symmetry; apply qi_pow_nat_rat|]. rewrite pos_nat_Z.
    apply from_mpq_val. reflexivity.
  - assert (Hn : n <> 0) by (destruct Hz; [lia|assumption]).
    assert (E0 : (Z.neg p <? 0) = true) by (apply Z.ltb_lt; lia). rewrite E0. cbn [Z.opp].
    assert (E1 : (0 <=? Z.pos p) = true) by (apply Z.leb_le; lia).
    assert (E2 : (Z.pos p <? TWO64) = true) by (apply Z.ltb_lt; cbn in Hr; lia).
    rewrite E1, E2. cbn [andb negb qi_powz]. rewrite !zpow_spec by lia.
    set (v := Qmake (n ^ Z.pos p) (Z.to_pos (Z.pos d ^ Z.pos p))).
    assert (Hpow : qi_eq (qi_pow_nat (Qmake n d, 0%Q) (Pos.to_nat p)) (v, 0%Q)).
    { rewrite qi_pow_nat_rat. now rewrite pos_nat_Z. }
    assert (Hv : ~ (v == 0)%Q).
    { intros E. unfold v, Qeq in E. cbn in E. assert (n ^ Z.pos p <> 0) by (apply Z.pow_nonzero; lia). lia. }
    eapply has_val_proper; [symmetry; unfold qi_inv; rewrite Hpow; apply qi_div_real; exact Hv|].
    eapply has_val_proper; [|apply from_mpq_val; reflexivity].
    split; cbn [fst snd]; unfold Qdiv; ring.
Qed.

(* square and multiply = iterated multiplication *)
Lemma cq_mul_eq : forall r p, qi_eq (cq_mul r p) (qi_mul r p).
Proof. intros [a b] [c d]. unfold cq_mul, qi_mul. cbn [fst snd]. split; cbn [fst snd]; rewrite ?qsub_eq, ?qadd_eq, !qmul_eq; reflexivity. Qed.
Lemma cq_sqr_eq : forall p, qi_eq (cq_sqr p) (qi_mul p p).
Proof.
  intros [c d]. unfold cq_sqr, qi_mul, qz. cbn [fst snd]. split; cbn [fst snd]; rewrite ?qsub_eq, !qmul_eq.
  - reflexivity.
  - change (inject_Z 2) with (2 # 1)%Q. ring.
Qed.

Theorem pow_number_loop_correct : forall n r p r' p',
  qi_eq r r' -> qi_eq p p' ->
  qi_eq (pow_number_loop r p n) (qi_mul r' (qi_pow_nat p' (Pos.to_nat n))).
Proof.
  induction n as [n IH|n IH|]; intros r p r' p' Hr Hp; cbn [pow_number_loop].
  - rewrite (IH (cq_mul r p) (cq_sqr p) (qi_mul r' p') (qi_mul p' p')).
    + rewrite qi_pow_nat_sqr. rewrite Pos2Nat.inj_xI. cbn [qi_pow_nat].
      rewrite <- qi_mul_assoc. reflexivity.
    + rewrite cq_mul_eq. now rewrite Hr, Hp.
    + rewrite cq_sqr_eq. now rewrite Hp.
  - rewrite (IH r (cq_sqr p) r' (qi_mul p' p')).
    + rewrite qi_pow_nat_sqr. now rewrite Pos2Nat.inj_xO.
    + assumption.
    + rewrite cq_sqr_eq. now rewrite Hp.
  - rewrite cq_mul_eq. rewrite Hr, Hp. change (Pos.to_nat 1) with 1%nat. cbn [qi_pow_nat].
    now rewrite qi_mul_1_r.
Qed.

Lemma pow_number_val : forall x n, 0 <= n ->
  has_val (Ok (pow_number x n)) (qi_pow_nat x (Z.to_nat n)).
Proof.
  intros x n Hn. unfold pow_number. destruct n as [|p|p]; try lia.
  - cbn [Z.to_nat qi_pow_nat]. apply cplx_from_mpq_val; reflexivity.
  - pose proof (pow_number_loop_correct p (qz 1, qz 0) x qi_one x) as H.
    assert (H1 : qi_eq (qz 1, qz 0) qi_one) by (split; reflexivity).
    specialize (H H1 (reflexivity x)). rewrite qi_mul_1_l in H.
    cbn [Z.to_nat]. destruct H as [Ha Hb]. eapply has_val_proper; [|apply cplx_from_mpq_val; eassumption].
    destruct (qi_pow_nat x (Pos.to_nat p)). split; reflexivity.
Qed.

Lemma neg_mod4 : forall p, Z.neg p mod 4 = (- (Z.pos p mod 4)) mod 4.
Proof.
  intros p. change (Z.neg p) with (- Z.pos p).
  pose proof (Z.mod_pos_bound (Z.pos p) 4). pose proof (Z.mod_pos_bound (- Z.pos p) 4).
  pose proof (Z.mod_pos_bound (- (Z.pos p mod 4)) 4).
  pose proof (Z.div_mod (Z.pos p) 4). pose proof (Z.div_mod (- Z.pos p) 4).
  pose proof (Z.div_mod (- (Z.pos p mod 4)) 4). lia.
Qed.

Lemma powz_imag : forall y e, (0 <= e \/ ~ qi_is_zero y) ->
  qi_eq (qi_powz (qi_mul y qi_i) e) (qi_mul (qi_powz y e) (unit_of (e mod 4))).
Proof.
  intros y e H. destruct e as [|p|p]; cbn [qi_powz].
  - cbn. now rewrite qi_mul_1_l.
  - rewrite qi_pow_nat_mul_base, qi_i_pow. now rewrite pos_nat_Z.
  - assert (Hy : ~ qi_is_zero y) by (destruct H; [lia|assumption]).
    rewrite qi_pow_nat_mul_base, qi_i_pow, pos_nat_Z.
    rewrite qi_inv_mul.
    + rewrite unit_of_inv by (apply Z.mod_pos_bound; lia). now rewrite neg_mod4.
    + now apply qi_pow_nat_nonzero.
    + apply unit_of_nonzero.
Qed.

Definition pow_in_range (a : number) (e : Z) : bool :=
  match a with
  | NInt _ | NRat _ _ => Z.abs e <? TWO64
  | NCplx rn _ _ _ => if rn =? 0 then Z.abs e <? TWO64 else Z.abs e <? TWO63
  | _ => false
  end.

Lemma from_mpq_cases : forall n d,
  (d = 1%positive /\ from_mpq (Qmake n d) = NInt n) \/ from_mpq (Qmake n d) = NRat n d.
Proof.
  intros n d. unfold from_mpq. cbn [Qnum Qden]. destruct (Pos.eqb_spec d 1); [left|right]; auto.
Qed.

Lemma unit_val : forall e,
  valQi (match e mod 4 with 0 => NInt 1 | 1 => I_unit | 2 => NInt (-1) | _ => NCplx 0 1 (-1) 1 end)
  = Some (unit_of (e mod 4)).
Proof. intros e. destruct (e mod 4) as [|[[|[]|]|[|[]|]|]|]; reflexivity. Qed.

Theorem num_powint_correct : forall a e x,
  valQi a = Some x -> pow_in_range a e = true -> (0 <= e \/ ~ qi_is_zero x) ->
  has_val (num_pow a (NInt e)) (qi_powz x e).
Proof.
  intros a e x Ha Hr Hz.
  destruct a as [za|na da|rn rd imn imd| | | | ]; cbn [valQi] in Ha; try discriminate Ha;
    injection Ha as <-; unfold num_pow; cbn [pow_step]; cbn [pow_in_range] in Hr.
  - apply int_powint_correct; [assumption|].
    destruct Hz as [H|H]; [left; assumption|right]. intros ->. apply H. split; reflexivity.
  - apply rat_powrat_correct; [assumption|].
    destruct Hz as [H|H]; [left; assumption|right]. intros ->. apply H. split; reflexivity.
  - unfold cplx_powcomp. destruct (Z.eqb_spec rn 0) as [->|Hrn].
    + (* purely imaginary base *)
      set (im := Qmake imn imd).
      assert (Hx : qi_eq (Qmake 0 rd, im) (qi_mul (im, 0%Q) qi_i)).
      { unfold qi_mul, qi_i. cbn [fst snd]. split; cbn [fst snd]; [|ring]. unfold Qeq; cbn; ring. }
      assert (Hz' : 0 <= e \/ ~ qi_is_zero (im, 0%Q)).
      { destruct Hz as [H|H]; [left; assumption|right]. intros [E _]. apply H. cbn [fst] in E.
        split; cbn [fst snd]; [unfold Qeq; cbn; ring|exact E]. }
      assert (Hp : has_val (match from_mpq im with
                            | NInt z => int_powint z e
                            | NRat n d => rat_powrat n d e
                            | _ => ErrFuel end) (qi_powz (im, 0%Q) e)).
      { unfold im. destruct (from_mpq_cases imn imd) as [[-> E]|E]; rewrite E.
        - apply int_powint_correct; [assumption|].
          destruct Hz' as [H|H]; [left; assumption|right]. intros ->. apply H. split; reflexivity.
        - apply rat_powrat_correct; [assumption|].
          destruct Hz' as [H|H]; [left; assumption|right]. intros ->. apply H. split; reflexivity. }
      destruct Hp as (n0 & z0 & -> & Hv0 & Hz0). cbn [bind].
      eapply has_val_proper; [|apply (num_mul_correct _ _ _ _ Hv0 (unit_val e))].
      rewrite Hx. rewrite powz_imag by exact Hz'. now rewrite Hz0.
    + (* general base *)
      change (Z.abs e <? TWO63 = true) in Hr. apply Z.ltb_lt in Hr.
      assert (Hnz : ~ qi_is_zero (Qmake rn rd, Qmake imn imd)).
      { intros [E _]. cbn [fst] in E. unfold Qeq in E. cbn in E. lia. }
      destruct (Z.ltb_spec 0 e) as [Hpos|Hneg].
      * assert (E : fits_slong e = true) by (unfold fits_slong; apply andb_true_intro; split; [apply Z.leb_le|apply Z.ltb_lt]; unfold TWO63 in *; lia).
        rewrite E. destruct e as [|p|p]; try lia. cbn [qi_powz].
        pose proof (pow_number_val (Qmake rn rd, Qmake imn imd) (Z.pos p) ltac:(lia)) as H.
        cbn [Z.to_nat] in H. exact H.
      * assert (E : fits_slong e = true) by (unfold fits_slong; apply andb_true_intro; split; [apply Z.leb_le|apply Z.ltb_lt]; unfold TWO63 in *; lia).
        rewrite E.
        pose proof (pow_number_val (Qmake rn rd, Qmake imn imd) (- e) ltac:(lia)) as (nb & zb & Hnb & Hvb & Hzb).
        injection Hnb as <-.
        assert (Hzbnz : ~ qi_is_zero zb).
        { intros E0. unfold qi_is_zero in E0. rewrite Hzb in E0. revert E0. now apply qi_pow_nat_nonzero. }
        pose proof (num_div_correct (NInt 1) _ _ _ (eq_refl : valQi (NInt 1) = Some qi_one) Hvb Hzbnz eq_refl) as H.
        eapply has_val_proper; [|exact H].
        destruct e as [|p|p]; try lia.
        -- cbn [qi_powz]. cbn [Z.opp Z.to_nat qi_pow_nat] in Hzb. rewrite Hzb. apply qi_inv_one.
        -- cbn [qi_powz]. cbn [Z.opp Z.to_nat] in Hzb. unfold qi_inv. now rewrite Hzb.
Qed.

(* ------------------------------------------------------------------ normal forms *)
Lemma wf_from_mpq : forall q, qlow q -> num_wf (from_mpq q) = true.
Proof.
  intros [n d] H. unfold from_mpq. cbn [Qnum Qden]. destruct (Pos.eqb_spec d 1) as [E|E]; cbn [num_wf].
  - reflexivity.
  - apply andb_true_intro. split; [now apply q_lowest_iff|]. apply Bool.negb_true_iff. now apply Pos.eqb_neq.
Qed.

Lemma wf_cplx_from_mpq : forall re im, qlow re -> qlow im -> num_wf (cplx_from_mpq re im) = true.
Proof.
  intros re im Hre Him. unfold cplx_from_mpq. destruct (Z.eqb_spec (Qnum im) 0) as [E|E].
  - now apply wf_from_mpq.
  - cbn [num_wf]. destruct re as [rn rd], im as [imn imd]. unfold qlow in *. simpl Qnum in *. simpl Qden in *.
    repeat (apply andb_true_intro; split); try (apply q_lowest_iff; assumption).
    apply Bool.negb_true_iff. now apply Z.eqb_neq.
Qed.

Lemma wf_zero_div : forall b, num_wf (zero_div b) = true.
Proof. intros []; reflexivity. Qed.

Lemma from_mpq_exact : forall q, num_is_exact (from_mpq q) = true.
Proof. intros q. unfold from_mpq. destruct (_ =? _)%positive; reflexivity. Qed.
Lemma cplx_from_mpq_exact : forall re im, num_is_exact (cplx_from_mpq re im) = true.
Proof. intros. unfold cplx_from_mpq. destruct (_ =? _); [apply from_mpq_exact|reflexivity]. Qed.

Lemma wf_rat : forall n d, num_wf (NRat n d) = true -> qlow (Qmake n d).
Proof. intros n d H. cbn [num_wf] in H. apply andb_prop in H as [H _]. now apply q_lowest_iff. Qed.
Lemma wf_cplx : forall rn rd imn imd, num_wf (NCplx rn rd imn imd) = true ->
  qlow (Qmake rn rd) /\ qlow (Qmake imn imd) /\ imn <> 0.
Proof.
  intros rn rd imn imd H. cbn [num_wf] in H. apply andb_prop in H as [H H3]. apply andb_prop in H as [H1 H2].
  repeat split; try (now apply q_lowest_iff). apply Bool.negb_true_iff in H3. now apply Z.eqb_neq.
Qed.

(* a number of an exact kind in normal form, or the zoo / nan produced by a zero divisor *)
Definition good (r : number) : Prop :=
  num_wf r = true /\ (num_is_exact r = true \/ r = NNaN \/ r = NInf 0).

Lemma good_from_mpq : forall q, qlow q -> good (from_mpq q).
Proof. intros q H. split; [now apply wf_from_mpq|left; apply from_mpq_exact]. Qed.
Lemma good_cplx : forall re im, qlow re -> qlow im -> good (cplx_from_mpq re im).
Proof. intros. split; [now apply wf_cplx_from_mpq|left; apply cplx_from_mpq_exact]. Qed.
Lemma good_zero_div : forall b, good (zero_div b).
Proof. intros []; split; try reflexivity; right; [left|right]; reflexivity. Qed.
Lemma good_int : forall z, good (NInt z).
Proof. intros z. split; [reflexivity|left; reflexivity]. Qed.
Lemma good_zoo : good (NInf 0).
Proof. split; [reflexivity|right; right; reflexivity]. Qed.

#[local] Hint Resolve qadd_low qsub_low qmul_low qdiv_low qcanon_low qlow_opp qlow_inject qlow_inv
  good_from_mpq good_cplx good_zero_div good_int good_zoo : nwf.

Ltac wf_cases a b Ha Hb Hwa Hwb :=
  destruct a as [za|na da|rna rda ina ida| | | | ]; cbn [num_is_exact] in Ha; try discriminate Ha;
  destruct b as [zb|nb db|rnb rdb inb idb| | | | ]; cbn [num_is_exact] in Hb; try discriminate Hb;
  try (pose proof (wf_rat _ _ Hwa)); try (pose proof (wf_rat _ _ Hwb));
  try (pose proof (wf_cplx _ _ _ _ Hwa) as (? & ? & ?)); try (pose proof (wf_cplx _ _ _ _ Hwb) as (? & ? & ?)).

Ltac finish_good :=
  intros Hr; injection Hr as <-; unfold qneg, qz; auto 6 with nwf.

Lemma add_good : forall a b r, num_is_exact a = true -> num_is_exact b = true ->
  num_wf a = true -> num_wf b = true -> num_add a b = Ok r -> good r.
Proof.
  intros a b r Ha Hb Hwa Hwb. wf_cases a b Ha Hb Hwa Hwb; unfold num_add; cbn [add_step]; finish_good.
Qed.

Lemma sub_good : forall a b r, num_is_exact a = true -> num_is_exact b = true ->
  num_wf a = true -> num_wf b = true -> num_sub a b = Ok r -> good r.
Proof.
  intros a b r Ha Hb Hwa Hwb. wf_cases a b Ha Hb Hwa Hwb; unfold num_sub; cbn [sub_step num_rsub]; finish_good.
Qed.

Lemma mul_good : forall a b r, num_is_exact a = true -> num_is_exact b = true ->
  num_wf a = true -> num_wf b = true -> num_mul a b = Ok r -> good r.
Proof.
  intros a b r Ha Hb Hwa Hwb. wf_cases a b Ha Hb Hwa Hwb; unfold num_mul; cbn [mul_step]; finish_good.
Qed.

Lemma div_good : forall a b r, num_is_exact a = true -> num_is_exact b = true ->
  num_wf a = true -> num_wf b = true -> num_div a b = Ok r -> good r.
Proof.
  intros a b r Ha Hb Hwa Hwb. wf_cases a b Ha Hb Hwa Hwb; unfold num_div; cbn [div_step num_rdiv];
    repeat match goal with |- context [if ?c then _ else _] => destruct c end;
    try finish_good; intros Hr; discriminate Hr.
Qed.

Lemma int_powint_good : forall b e r, int_powint b e = Ok r -> good r.
Proof.
  intros b e r. unfold int_powint, int_pow_negint.
  repeat match goal with |- context [if ?c then _ else _] => destruct c end;
    try finish_good; intros Hr; discriminate Hr.
Qed.

Lemma rat_powrat_good : forall n d e r, qlow (Qmake n d) -> rat_powrat n d e = Ok r -> good r.
Proof.
  intros n d e r Hl. unfold rat_powrat.
  destruct (negb (fits_ulong _)) eqn:Ef; [intros Hr; discriminate Hr|].
  apply Bool.negb_false_iff in Ef. unfold fits_ulong in Ef. apply andb_prop in Ef as [Ef _]. apply Z.leb_le in Ef.
  rewrite !zpow_spec by assumption.
  pose proof (qlow_pow n d _ Ef Hl).
  destruct (negb (e <? 0)); finish_good.
Qed.

Lemma pow_loop_low : forall n r p, qlow (fst (pow_number_loop r p n)) /\ qlow (snd (pow_number_loop r p n)).
Proof.
  induction n as [n IH|n IH|]; intros r p; cbn [pow_number_loop].
  - apply IH.
  - apply IH.
  - unfold cq_mul. cbn [fst snd]. split; auto with nwf.
Qed.

Lemma pow_number_good : forall x n, good (pow_number x n).
Proof.
  intros x n. unfold pow_number. destruct n as [|p|p].
  - apply good_cplx; apply qlow_inject.
  - destruct (pow_loop_low p (qz 1, qz 0) x). now apply good_cplx.
  - apply good_cplx; apply qlow_inject.
Qed.

Lemma good_exact_or : forall r, good r -> num_is_exact r = true \/ r = NNaN \/ r = NInf 0.
Proof. intros r [_ H]. exact H. Qed.

Lemma pow_good : forall a e r, num_is_exact a = true -> num_wf a = true ->
  num_pow a (NInt e) = Ok r -> good r.
Proof.
  intros a e r Ha Hwa.
  destruct a as [za|na da|rn rd imn imd| | | | ]; cbn [num_is_exact] in Ha; try discriminate Ha;
    unfold num_pow; cbn [pow_step].
  - apply int_powint_good.
  - apply rat_powrat_good. now apply wf_rat.
  - pose proof (wf_cplx _ _ _ _ Hwa) as (Hre & Him & Hnz).
    unfold cplx_powcomp. destruct (rn =? 0).
    + (* im^e * unit *)
      set (u := match e mod 4 with 0 => NInt 1 | 1 => I_unit | 2 => NInt (-1) | _ => NCplx 0 1 (-1) 1 end).
      assert (Hu : num_is_exact u = true /\ num_wf u = true).
      { unfold u. destruct (e mod 4) as [|[[|[]|]|[|[]|]|]|]; split; reflexivity. }
      destruct Hu as [Hue Huw].
      destruct (from_mpq_cases imn imd) as [[-> E]|E]; rewrite E.
      * destruct (int_powint imn e) as [p| | |] eqn:Ep; cbn [bind]; try (intros Hr; discriminate Hr).
        pose proof (int_powint_good _ _ _ Ep) as Hg. intros Hr.
        destruct (good_exact_or _ Hg) as [Hx|[->| ->]].
        -- destruct Hg as [Hg _]. exact (mul_good p u r Hx Hue Hg Huw Hr).
        -- unfold num_mul in Hr. cbn [mul_step] in Hr. injection Hr as <-. split; [reflexivity|right; left; reflexivity].
        -- unfold num_mul, u in Hr. cbn [mul_step] in Hr.
           destruct (e mod 4) as [|[[|[]|]|[|[]|]|]|]; cbn in Hr; try discriminate Hr;
             injection Hr as <-; split; try reflexivity;
             first [left; reflexivity | right; left; reflexivity | right; right; reflexivity].
      * destruct (rat_powrat imn imd e) as [p| | |] eqn:Ep; cbn [bind]; try (intros Hr; discriminate Hr).
        pose proof (rat_powrat_good _ _ _ _ Him Ep) as Hg. intros Hr.
        destruct (good_exact_or _ Hg) as [Hx|[->| ->]].
        -- destruct Hg as [Hg _]. exact (mul_good p u r Hx Hue Hg Huw Hr).
        -- unfold num_mul in Hr. cbn [mul_step] in Hr. injection Hr as <-. split; [reflexivity|right; left; reflexivity].
        -- unfold num_mul, u in Hr. cbn [mul_step] in Hr.
           destruct (e mod 4) as [|[[|[]|]|[|[]|]|]|]; cbn in Hr; try discriminate Hr;
             injection Hr as <-; split; try reflexivity;
             first [left; reflexivity | right; left; reflexivity | right; right; reflexivity].
    + destruct (0 <? e).
      * destruct (fits_slong e); [|intros Hr; discriminate Hr]. intros Hr. injection Hr as <-. apply pow_number_good.
      * destruct (fits_slong e); [|intros Hr; discriminate Hr].
        pose proof (pow_number_good (Qmake rn rd, Qmake imn imd) (- e)) as Hg. intros Hr.
        destruct (good_exact_or _ Hg) as [Hx|[E| E]].
        -- destruct Hg as [Hg _]. exact (div_good (NInt 1) _ r eq_refl Hx eq_refl Hg Hr).
        -- rewrite E in Hr. unfold num_div in Hr. cbn [div_step num_rdiv default_rdiv] in Hr.
           unfold num_mul in Hr. cbn [mul_step] in Hr. injection Hr as <-. split; [reflexivity|right; left; reflexivity].
        -- rewrite E in Hr. cbn in Hr. injection Hr as <-. split; [reflexivity|left; reflexivity].
Qed.

Theorem num_op_normalised : forall a b r,
  num_is_exact a = true -> num_is_exact b = true -> num_wf a = true -> num_wf b = true ->
  (num_add a b = Ok r \/ num_sub a b = Ok r \/ num_mul a b = Ok r \/ num_div a b = Ok r \/
   (exists e, b = NInt e /\ num_pow a b = Ok r)) ->
  num_wf r = true /\ (num_is_exact r = true \/ r = NNaN \/ r = NInf 0).
Proof.
  intros a b r Ha Hb Hwa Hwb [H|[H|[H|[H|(e & -> & H)]]]].
  - exact (add_good a b r Ha Hb Hwa Hwb H).
  - exact (sub_good a b r Ha Hb Hwa Hwb H).
  - exact (mul_good a b r Ha Hb Hwa Hwb H).
  - exact (div_good a b r Ha Hb Hwa Hwb H).
  - exact (pow_good a e r Ha Hwa H).
Qed.

(* the constructors establish the invariant *)
Theorem mk_rat_normalised : forall n d r, mk_rat n d = Ok r -> good r.
Proof.
  intros n d r. unfold mk_rat. destruct (d =? 0).
  - destruct (n =? 0); intros H; injection H as <-; split; try reflexivity; right; [left|right]; reflexivity.
  - finish_good.
Qed.

(* Rational / Complex is rejected by the code (Complex::rdiv accepts only an Integer) *)
Theorem num_div_refuted :
  exists a b x y, valQi a = Some x /\ valQi b = Some y /\ ~ qi_is_zero y /\
                  num_wf a = true /\ num_wf b = true /\ num_div a b = ErrExn EXN_NOTIMPL.
Proof.
  exists (NRat 1 2), (NCplx 1 1 2 1), (Qmake 1 2, 0%Q), (Qmake 1 1, Qmake 2 1).
  repeat split; try reflexivity. intros [H _]. discriminate H.
Qed.
