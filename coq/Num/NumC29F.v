(* C29 on doubles, for ALL bit patterns: the relations compare the operands as IEEE doubles
   (after the truncating conversion of an exact operand), and the IEEE comparison is the
   comparison of the exact values. *)
From SE Require Import Num.NumModel Num.NumQ Num.NumFloat Num.NumFloatOrd Num.NumC29.
From Coq Require Import ZArith QArith Reals Qreals Lia Lra.
From Flocq Require Import IEEE754.BinarySingleNaN Core.
Local Open Scope Z_scope.

(* the double a real operand is compared as *)
Definition conv (a : number) : option f64 :=
  match a with
  | NInt z => Some (d_of_Z z)
  | NRat n d => Some (d_of_Q n d)
  | NDbl x => Some (of_bits x)
  | _ => None
  end.

Lemma neg_mkD : forall r : f64, num_is_negative (mkD r) = flt r fzero.
Proof. intros r. unfold mkD. cbn [num_is_negative]. now rewrite of_to_bits. Qed.
Lemma zero_mkD : forall r : f64, num_is_zero (mkD r) = feq r fzero.
Proof. intros r. unfold mkD. cbn [num_is_zero]. now rewrite of_to_bits. Qed.

Definition has_dbl (a b : number) : bool := is_dbl a || is_dbl b.

(* Lt / Le on {Integer, Rational, RealDouble} with at least one RealDouble = IEEE < / <= *)
Theorem rel_lt_ieee : forall a b x y, has_dbl a b = true -> conv a = Some x -> conv b = Some y ->
  rel_lt a b = Ok (Some (flt x y)).
Proof.
  intros a b x y Hd Hx Hy.
  destruct a as [za|na da| |xa| | | ]; try discriminate Hx; destruct b as [zb|nb db| |xb| | | ]; try discriminate Hy;
    try discriminate Hd; injection Hx as <-; injection Hy as <-;
    unfold rel_lt; cbn [is_a_Complex is_a_NaN num_eqb orb]; unfold num_sub; cbn [sub_step num_rsub bind];
    try (rewrite neg_mkD, fsub_lt; reflexivity).
  destruct (feq (of_bits xa) (of_bits xb)) eqn:E.
  - now rewrite feq_not_flt.
  - cbn [bind]. now rewrite neg_mkD, fsub_lt.
Qed.

Theorem rel_le_ieee : forall a b x y, has_dbl a b = true -> conv a = Some x -> conv b = Some y ->
  BinarySingleNaN.is_nan x = false -> BinarySingleNaN.is_nan y = false ->
  (* not two infinities, unless both operands are doubles (then eq() decides) *)
  (is_dbl a && is_dbl b = true \/ BinarySingleNaN.is_finite x = true \/ BinarySingleNaN.is_finite y = true) ->
  rel_le a b = Ok (Some (flt x y || feq x y)).
Proof.
  intros a b x y Hd Hx Hy Nx Ny Hfin.
  assert (Hgen : forall u v : f64, BinarySingleNaN.is_nan u = false -> BinarySingleNaN.is_nan v = false ->
            (BinarySingleNaN.is_finite u = true \/ BinarySingleNaN.is_finite v = true) ->
            flt (fsub u v) fzero || feq (fsub u v) fzero = flt u v || feq u v).
  { intros u v Nu Nv Hf. rewrite fsub_lt. destruct (feq u v) eqn:E.
    - rewrite (feq_not_flt u v E). cbn [orb].
      destruct u as [su|su| |su mu eu Hu], v as [sv|sv| |sv mv ev Hv]; try discriminate Nu; try discriminate Nv;
        try (rewrite fsub_eq_finite by reflexivity; exact E);
        unfold feq in E; cbn in E; destruct su, sv; try discriminate E;
        destruct Hf as [Hf|Hf]; discriminate Hf.
    - now rewrite (fsub_nonzero u v E). }
  destruct a as [za|na da| |xa| | | ]; try discriminate Hx; destruct b as [zb|nb db| |xb| | | ]; try discriminate Hy;
    try discriminate Hd; injection Hx as <-; injection Hy as <-;
    unfold rel_le; cbn [is_a_Complex is_a_NaN num_eqb orb]; unfold num_sub; cbn [sub_step num_rsub bind];
    cbn [is_dbl andb] in Hfin;
    try (rewrite neg_mkD, zero_mkD; rewrite Hgen;
         [reflexivity|assumption|assumption|destruct Hfin as [Hf|Hf]; [discriminate Hf|exact Hf]]).
  destruct (feq (of_bits xa) (of_bits xb)) eqn:E.
  - now rewrite Bool.orb_true_r.
  - cbn [bind]. rewrite neg_mkD, zero_mkD, fsub_lt, (fsub_nonzero _ _ E). reflexivity.
Qed.

(* ------------------------------------------------------------------ IEEE order = order of the exact values *)
Definition fval (x : f64) : option ext :=
  match x with
  | BinarySingleNaN.B754_nan => None
  | BinarySingleNaN.B754_infinity s => Some (if s then MInf else PInf)
  | _ => option_map Fin (f64_to_Q x)
  end.

Lemma val_dbl : forall b, val (NDbl b) = fval (of_bits b).
Proof. intros b. unfold val, fval. destruct (of_bits b); reflexivity. Qed.

Lemma B2R_Q2R : forall (a : f64) q, f64_to_Q a = Some q -> B2R64 a = Q2R q.
Proof.
  intros [s|s| |s m e H] q Hq; cbn [f64_to_Q] in Hq; try discriminate Hq; injection Hq as <-.
  - cbn. unfold Q2R. cbn. now rewrite Rmult_0_l.
  - unfold BinarySingleNaN.B2R, F2R. cbn [Defs.Fnum Defs.Fexp].
    assert (Hm : cond_Zopp s (Z.pos m) = (if s then Z.neg m else Z.pos m)) by (destruct s; reflexivity).
    rewrite Hm. set (mz := if s then Z.neg m else Z.pos m).
    destruct e as [|p|p].
    + cbn [bpow]. unfold Q2R, inject_Z. cbn [Qnum Qden]. now rewrite Rinv_1.
    + cbn [bpow]. unfold Q2R, inject_Z. cbn [Qnum Qden]. rewrite mult_IZR.
      change (Z.pow_pos 2 p) with (2 ^ Z.pos p)%Z. now rewrite Rinv_1, Rmult_1_r.
    + cbn [bpow]. unfold Q2R. cbn [Qnum Qden].
      change (Z.pow_pos 2 p) with (2 ^ Z.pos p)%Z.
      rewrite Z2Pos.id by (apply Z.pow_pos_nonneg; lia). reflexivity.
Qed.

Lemma finite_has_Q : forall a : f64, BinarySingleNaN.is_finite a = true -> exists q, f64_to_Q a = Some q.
Proof. intros [s|s| |s m e H] Hf; try discriminate Hf; cbn [f64_to_Q]; eexists; reflexivity. Qed.

Lemma flt_Q : forall (a b : f64) p q, f64_to_Q a = Some p -> f64_to_Q b = Some q ->
  flt a b = (if Qlt_le_dec p q then true else false).
Proof.
  intros a b p q Hp Hq.
  assert (Fa : BinarySingleNaN.is_finite a = true) by (destruct a; try discriminate Hp; reflexivity).
  assert (Fb : BinarySingleNaN.is_finite b = true) by (destruct b; try discriminate Hq; reflexivity).
  rewrite (flt_finite a b Fa Fb), (B2R_Q2R a p Hp), (B2R_Q2R b q Hq).
  destruct (Qlt_le_dec p q) as [H|H].
  - apply Qlt_Rlt in H. now rewrite Rcompare_Lt.
  - apply Qle_Rle in H. destruct (Rcompare_spec (Q2R p) (Q2R q)); try reflexivity. lra.
Qed.

Lemma feq_Q : forall (a b : f64) p q, f64_to_Q a = Some p -> f64_to_Q b = Some q ->
  feq a b = Qeq_bool p q.
Proof.
  intros a b p q Hp Hq.
  assert (Fa : BinarySingleNaN.is_finite a = true) by (destruct a; try discriminate Hp; reflexivity).
  assert (Fb : BinarySingleNaN.is_finite b = true) by (destruct b; try discriminate Hq; reflexivity).
  rewrite (feq_finite a b Fa Fb), (B2R_Q2R a p Hp), (B2R_Q2R b q Hq).
  destruct (Qeq_bool p q) eqn:E.
  - apply Qeq_bool_iff in E. apply Qeq_eqR in E. now rewrite Rcompare_Eq.
  - destruct (Rcompare_spec (Q2R p) (Q2R q)) as [H|H|H]; try reflexivity.
    apply eqR_Qeq in H. apply Qeq_bool_iff in H. congruence.
Qed.

Theorem flt_val : forall (a b : f64) x y, fval a = Some x -> fval b = Some y -> flt a b = ext_ltb x y.
Proof.
  intros a b x y Hx Hy.
  destruct a as [sa|sa| |sa ma ea Ha] eqn:Ea; cbn [fval] in Hx; try discriminate Hx;
    destruct b as [sb|sb| |sb mb eb Hb] eqn:Eb; cbn [fval] in Hy; try discriminate Hy;
    try (injection Hx as <-; injection Hy as <-; destruct sa, sb; reflexivity).
  all: try (rewrite <- Ea, <- Eb;
            destruct (finite_has_Q a ltac:(subst a; reflexivity)) as [p Hp];
            destruct (finite_has_Q b ltac:(subst b; reflexivity)) as [q Hq];
            rewrite <- Ea in Hx; rewrite <- Eb in Hy; rewrite Hp in Hx; rewrite Hq in Hy;
            injection Hx as <-; injection Hy as <-; cbn [ext_ltb]; now apply flt_Q).
  all: injection Hx as <-; try (injection Hy as <-); cbn [option_map] in *; try (injection Hy as <-);
       destruct sa, sb; reflexivity.
Qed.

Theorem feq_val : forall (a b : f64) x y, fval a = Some x -> fval b = Some y -> feq a b = ext_eqb x y.
Proof.
  intros a b x y Hx Hy.
  destruct a as [sa|sa| |sa ma ea Ha] eqn:Ea; cbn [fval] in Hx; try discriminate Hx;
    destruct b as [sb|sb| |sb mb eb Hb] eqn:Eb; cbn [fval] in Hy; try discriminate Hy;
    try (injection Hx as <-; injection Hy as <-; destruct sa, sb; reflexivity).
  all: try (rewrite <- Ea, <- Eb;
            destruct (finite_has_Q a ltac:(subst a; reflexivity)) as [p Hp];
            destruct (finite_has_Q b ltac:(subst b; reflexivity)) as [q Hq];
            rewrite <- Ea in Hx; rewrite <- Eb in Hy; rewrite Hp in Hx; rewrite Hq in Hy;
            injection Hx as <-; injection Hy as <-; cbn [ext_eqb]; now apply feq_Q).
  all: injection Hx as <-; try (injection Hy as <-); cbn [option_map] in *; try (injection Hy as <-);
       destruct sa, sb; reflexivity.
Qed.

(* ext order respects Qeq *)
Definition ext_equiv (x y : ext) : Prop :=
  match x, y with MInf, MInf => True | PInf, PInf => True | Fin p, Fin q => (p == q)%Q | _, _ => False end.

Lemma ext_ltb_proper : forall x x' y y', ext_equiv x x' -> ext_equiv y y' -> ext_ltb x y = ext_ltb x' y'.
Proof.
  intros [|p|] [|p'|] [|q|] [|q'|] Hx Hy; cbn in *; try contradiction; try reflexivity.
  destruct (Qlt_le_dec p q) as [H|H], (Qlt_le_dec p' q') as [H'|H']; try reflexivity; exfalso.
  - rewrite Hx, Hy in H. apply (Qlt_irrefl p'). eapply Qlt_le_trans; eassumption.
  - rewrite <- Hx, <- Hy in H'. apply (Qlt_irrefl p). eapply Qlt_le_trans; eassumption.
Qed.
Lemma ext_eqb_proper : forall x x' y y', ext_equiv x x' -> ext_equiv y y' -> ext_eqb x y = ext_eqb x' y'.
Proof.
  intros [|p|] [|p'|] [|q|] [|q'|] Hx Hy; cbn in *; try contradiction; try reflexivity.
  destruct (Qeq_bool p q) eqn:E, (Qeq_bool p' q') eqn:E'; try reflexivity; exfalso.
  - apply Qeq_bool_iff in E. rewrite Hx, Hy in E. apply Qeq_bool_iff in E. congruence.
  - apply Qeq_bool_iff in E'. rewrite <- Hx, <- Hy in E'. apply Qeq_bool_iff in E'. congruence.
Qed.
Lemma ext_equiv_refl : forall x, ext_equiv x x.
Proof. intros [|p|]; cbn; auto. reflexivity. Qed.

(* an operand whose conversion is exact has the value of its double *)
Lemma conv_val : forall a c x, conv a = Some c -> val a = Some x -> conv_inexact a = false ->
  exists x', fval c = Some x' /\ ext_equiv x' x /\ BinarySingleNaN.is_nan c = false /\
             (is_dbl a = false -> BinarySingleNaN.is_finite c = true).
Proof.
  intros a c x Hc Hx Hi.
  destruct a as [z|n d| |b| | | ]; try discriminate Hc; injection Hc as <-.
  - cbn [val] in Hx. injection Hx as <-. cbn [conv_inexact] in Hi.
    destruct (f64_to_Q (d_of_Z z)) as [q|] eqn:Eq; [|discriminate Hi].
    apply Bool.negb_false_iff in Hi. apply Qeq_bool_iff in Hi.
    exists (Fin q). destruct (d_of_Z z) eqn:Ed; try discriminate Eq; cbn [fval]; rewrite ?Eq; repeat split; auto.
  - cbn [val] in Hx. injection Hx as <-. cbn [conv_inexact] in Hi.
    destruct (f64_to_Q (d_of_Q n d)) as [q|] eqn:Eq; [|discriminate Hi].
    apply Bool.negb_false_iff in Hi. apply Qeq_bool_iff in Hi.
    exists (Fin q). destruct (d_of_Q n d) eqn:Ed; try discriminate Eq; cbn [fval]; rewrite ?Eq; repeat split; auto.
  - rewrite val_dbl in Hx. exists x. repeat split.
    + exact Hx.
    + apply ext_equiv_refl.
    + destruct (of_bits b); try reflexivity. discriminate Hx.
    + intros H. discriminate H.
Qed.

Theorem Lt_correct_dbl_guarded : forall a b ca cb x y,
  has_dbl a b = true -> conv a = Some ca -> conv b = Some cb ->
  val a = Some x -> val b = Some y -> guard_inexact_conv a b = false ->
  rel_lt a b = Ok (Some (ext_ltb x y)).
Proof.
  intros a b ca cb x y Hd Ha Hb Hx Hy Hg.
  assert (Hia : conv_inexact a = false /\ conv_inexact b = false).
  { unfold guard_inexact_conv in Hg. apply Bool.orb_false_iff in Hg as [H1 H2].
    unfold has_dbl in Hd.
    destruct a as [za|na da| |xa| | | ]; try discriminate Ha; destruct b as [zb|nb db| |xb| | | ]; try discriminate Hb;
      try discriminate Hd; cbn [is_dbl andb] in *; rewrite ?Bool.andb_true_r in *; split; auto. }
  destruct Hia as [Hia Hib].
  destruct (conv_val a ca x Ha Hx Hia) as (x' & Hx' & Ex & _).
  destruct (conv_val b cb y Hb Hy Hib) as (y' & Hy' & Ey & _).
  rewrite (rel_lt_ieee a b ca cb Hd Ha Hb). rewrite (flt_val ca cb x' y' Hx' Hy').
  now rewrite (ext_ltb_proper x' x y' y Ex Ey).
Qed.

Theorem Le_correct_dbl_guarded : forall a b ca cb x y,
  has_dbl a b = true -> conv a = Some ca -> conv b = Some cb ->
  val a = Some x -> val b = Some y -> guard_inexact_conv a b = false ->
  rel_le a b = Ok (Some (ext_leb x y)).
Proof.
  intros a b ca cb x y Hd Ha Hb Hx Hy Hg.
  assert (Hia : conv_inexact a = false /\ conv_inexact b = false).
  { unfold guard_inexact_conv in Hg. apply Bool.orb_false_iff in Hg as [H1 H2].
    unfold has_dbl in Hd.
    destruct a as [za|na da| |xa| | | ]; try discriminate Ha; destruct b as [zb|nb db| |xb| | | ]; try discriminate Hb;
      try discriminate Hd; cbn [is_dbl andb] in *; rewrite ?Bool.andb_true_r in *; split; auto. }
  destruct Hia as [Hia Hib].
  destruct (conv_val a ca x Ha Hx Hia) as (x' & Hx' & Ex & Na & Fa).
  destruct (conv_val b cb y Hb Hy Hib) as (y' & Hy' & Ey & Nb & Fb).
  rewrite (rel_le_ieee a b ca cb Hd Ha Hb Na Nb).
  - rewrite (flt_val ca cb x' y' Hx' Hy'), (feq_val ca cb x' y' Hx' Hy'). unfold ext_leb.
    now rewrite (ext_ltb_proper x' x y' y Ex Ey), (ext_eqb_proper x' x y' y Ex Ey).
  - destruct (is_dbl a) eqn:Da, (is_dbl b) eqn:Db.
    + left. reflexivity.
    + right. right. now apply Fb.
    + right. left. now apply Fa.
    + unfold has_dbl in Hd. rewrite Da, Db in Hd. discriminate Hd.
Qed.

(* ------------------------------------------------------------------ symbolic infinity against a finite double *)
Lemma mul_neg1_dbl : forall y, exists b, num_mul (NDbl y) (NInt (-1)) = Ok (NDbl b).
Proof. intros y. unfold num_mul. cbn [mul_step Z.eqb]. eexists. reflexivity. Qed.

Lemma rel_lt_inf_dbl : forall d y, (d =? 0) = false ->
  rel_lt (NInf d) (NDbl y) = Ok (Some (d <? 0)) /\ rel_le (NInf d) (NDbl y) = Ok (Some ((d <? 0) || false)).
Proof.
  intros d y Hd. unfold rel_lt, rel_le. cbn [is_a_Complex is_a_NaN num_eqb orb]. rewrite Hd.
  unfold num_sub. cbn [sub_step]. unfold default_sub.
  destruct (mul_neg1_dbl y) as [b ->]. cbn [bind]. split; reflexivity.
Qed.

Lemma rel_lt_dbl_inf : forall d x, (d =? 0) = false ->
  rel_lt (NDbl x) (NInf d) = Ok (Some (d * -1 <? 0)) /\ rel_le (NDbl x) (NInf d) = Ok (Some ((d * -1 <? 0) || false)).
Proof.
  intros d x Hd. unfold rel_lt, rel_le. cbn [is_a_Complex is_a_NaN num_eqb orb]. rewrite Hd.
  unfold num_sub. cbn [sub_step num_rsub]. unfold default_rsub, num_mul. cbn [mul_step inf_mul num_is_positive num_is_negative bind].
  split; reflexivity.
Qed.

Lemma finite_dbl_val : forall b, is_dbl_inf (NDbl b) = false -> forall x, val (NDbl b) = Some x -> exists q, x = Fin q.
Proof.
  intros b Hi x Hx. rewrite val_dbl in Hx. unfold is_dbl_inf in Hi.
  destruct (of_bits b) as [s|s| |s m e H]; cbn [fval] in Hx; try discriminate Hx; try discriminate Hi.
  - injection Hx as <-. eexists; reflexivity.
  - cbn [f64_to_Q option_map] in Hx. injection Hx as <-. eexists; reflexivity.
Qed.

(* ------------------------------------------------------------------ all real numbers of all kinds *)
Definition lt_guard (a b : number) : bool := guard_inexact_conv a b || guard_dblinf_infty a b.

Lemma real_kinds : forall a x, val a = Some x -> num_wf a = true ->
  (xreal a = true) \/ (exists b, a = NDbl b).
Proof.
  intros [z|n d| |b| |d| ] x Hx Hw; cbn [val] in Hx; try discriminate Hx.
  - left; reflexivity.
  - left; reflexivity.
  - right; eexists; reflexivity.
  - left. cbn [num_wf] in Hw. cbn [xreal].
    destruct (Z.eqb_spec d 1); [reflexivity|]. destruct (Z.eqb_spec d (-1)); [reflexivity|].
    destruct (Z.eqb_spec d 0) as [->|]; [discriminate Hx|discriminate Hw].
Qed.

Lemma xreal_conv : forall a, xreal a = true -> (exists c, conv a = Some c /\ is_dbl a = false) \/ (exists d, a = NInf d /\ (d = 1 \/ d = -1)).
Proof.
  intros [z|n d| | | |d| ] H; try discriminate H.
  - left; eexists; split; reflexivity.
  - left; eexists; split; reflexivity.
  - right. exists d. split; [reflexivity|]. cbn [xreal] in H. apply Bool.orb_prop in H as [H|H]; apply Z.eqb_eq in H; auto.
Qed.

Theorem Lt_Le_correct_guarded : forall a b x y,
  num_wf a = true -> num_wf b = true -> val a = Some x -> val b = Some y -> lt_guard a b = false ->
  rel_lt a b = Ok (Some (ext_ltb x y)) /\ rel_le a b = Ok (Some (ext_leb x y)).
Proof.
  intros a b x y Hwa Hwb Hx Hy Hg. unfold lt_guard in Hg. apply Bool.orb_false_iff in Hg as [Hg1 Hg2].
  destruct (real_kinds a x Hx Hwa) as [Xa|[ba ->]], (real_kinds b y Hy Hwb) as [Xb|[bb ->]].
  - split; [now apply Lt_correct_exact|now apply Le_correct_exact].
  - (* exact or infinite vs double *)
    destruct (xreal_conv a Xa) as [(ca & Hca & _)|(d & -> & Hd)].
    + split; [eapply Lt_correct_dbl_guarded|eapply Le_correct_dbl_guarded]; try eassumption; try reflexivity;
        unfold has_dbl; cbn [is_dbl]; apply Bool.orb_true_r.
    + unfold guard_dblinf_infty in Hg2. change (is_dbl_inf (NInf d)) with false in Hg2.
      cbn [is_inf andb orb] in Hg2.
      destruct (finite_dbl_val bb Hg2 y Hy) as [q ->].
      destruct Hd as [-> | ->]; cbn [val Z.ltb Z.compare] in Hx; injection Hx as <-.
      * destruct (rel_lt_inf_dbl 1 bb eq_refl) as [-> ->]; split; reflexivity.
      * destruct (rel_lt_inf_dbl (-1) bb eq_refl) as [-> ->]; split; reflexivity.
  - destruct (xreal_conv b Xb) as [(cb & Hcb & _)|(d & -> & Hd)].
    + split; [eapply Lt_correct_dbl_guarded|eapply Le_correct_dbl_guarded]; try eassumption; try reflexivity.
    + unfold guard_dblinf_infty in Hg2. change (is_dbl_inf (NInf d)) with false in Hg2.
      cbn [is_inf andb orb] in Hg2. rewrite ?Bool.andb_true_r, ?Bool.andb_false_r, ?Bool.orb_false_r in Hg2.
      destruct (finite_dbl_val ba Hg2 x Hx) as [q ->].
      destruct Hd as [-> | ->]; cbn [val Z.ltb Z.compare] in Hy; injection Hy as <-.
      * destruct (rel_lt_dbl_inf 1 ba eq_refl) as [-> ->]; split; reflexivity.
      * destruct (rel_lt_dbl_inf (-1) ba eq_refl) as [-> ->]; split; reflexivity.
  - split; [eapply Lt_correct_dbl_guarded|eapply Le_correct_dbl_guarded]; try eassumption; reflexivity.
Qed.

Theorem Le_not_Lt_guarded : forall a b x y,
  num_wf a = true -> num_wf b = true -> val a = Some x -> val b = Some y -> lt_guard a b = false ->
  exists t, rel_lt b a = Ok (Some t) /\ rel_le a b = Ok (Some (negb t)).
Proof.
  intros a b x y Hwa Hwb Hx Hy Hg.
  assert (Hg' : lt_guard b a = false).
  { unfold lt_guard, guard_inexact_conv, guard_dblinf_infty in *.
    rewrite (Bool.orb_comm (conv_inexact b && is_dbl a)), (Bool.andb_comm (conv_inexact b)), (Bool.andb_comm (is_dbl b)).
    rewrite (Bool.orb_comm (is_dbl_inf b && is_inf a)), (Bool.andb_comm (is_dbl_inf b)), (Bool.andb_comm (is_inf b)).
    exact Hg. }
  exists (ext_ltb y x). split.
  - now apply (Lt_Le_correct_guarded b a y x).
  - rewrite <- ext_leb_negb_ltb. now apply (Lt_Le_correct_guarded a b x y).
Qed.
