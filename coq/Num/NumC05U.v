(* C05: the normal form of exact numbers is UNIQUE -- two normalised exact numbers with the same
   value in Q(i) are the same object (same class, same numerator/denominator).  With
   num_*_correct and num_op_normalised this makes every structural identity of the results a
   consequence of the corresponding identity in Q(i) (e.g. add a b = add b a as representations). *)
From SE Require Import Num.NumModel Num.NumSpec Num.NumQ Num.NumC05.
From Coq Require Import QArith Qreduction Lia ZArith Bool.
Local Open Scope Z_scope.

Lemma qlow_eq : forall p q : Q, qlow p -> qlow q -> (p == q)%Q -> p = q.
Proof.
  intros p q Hp Hq E.
  rewrite <- (qlow_Qred_id p Hp), <- (qlow_Qred_id q Hq). now apply Qred_complete.
Qed.

Lemma zero_num : forall n d, (0 == Qmake n d)%Q -> n = 0.
Proof. intros n d E. unfold Qeq in E. cbn in E. lia. Qed.

Theorem exact_normal_form_unique : forall a b x y,
  num_wf a = true -> num_wf b = true ->
  valQi a = Some x -> valQi b = Some y -> qi_eq x y -> a = b.
Proof.
  intros a b x y Ha Hb Hx Hy [E1 E2].
  destruct a as [za|na da|arn ard ain aid| | | | ]; try discriminate Hx;
  destruct b as [zb|nb db|brn brd bin bid| | | | ]; try discriminate Hy;
  injection Hx as <-; injection Hy as <-; cbn [fst snd] in E1, E2; cbn [num_wf] in Ha, Hb.
  - (* Int / Int *)
    f_equal. unfold Qeq in E1. cbn in E1. lia.
  - (* Int / Rat *)
    apply andb_prop in Hb as [Hl Hd]. apply q_lowest_iff in Hl.
    pose proof (qlow_eq _ _ (qlow_inject za) Hl E1) as E. unfold inject_Z in E. injection E as _ <-.
    discriminate Hd.
  - (* Int / Cplx *)
    apply andb_prop in Hb as [_ Hn]. apply zero_num in E2. subst bin. discriminate Hn.
  - (* Rat / Int *)
    apply andb_prop in Ha as [Hl Hd]. apply q_lowest_iff in Hl.
    pose proof (qlow_eq _ _ Hl (qlow_inject zb) E1) as E. unfold inject_Z in E. injection E as _ ->.
    discriminate Hd.
  - (* Rat / Rat *)
    apply andb_prop in Ha as [Hla _]. apply andb_prop in Hb as [Hlb _].
    apply q_lowest_iff in Hla. apply q_lowest_iff in Hlb.
    pose proof (qlow_eq _ _ Hla Hlb E1) as E. injection E as -> ->. reflexivity.
  - (* Rat / Cplx *)
    apply andb_prop in Hb as [_ Hn]. apply zero_num in E2. subst bin. discriminate Hn.
  - (* Cplx / Int *)
    apply andb_prop in Ha as [_ Hn]. symmetry in E2. apply zero_num in E2. subst ain. discriminate Hn.
  - (* Cplx / Rat *)
    apply andb_prop in Ha as [_ Hn]. symmetry in E2. apply zero_num in E2. subst ain. discriminate Hn.
  - (* Cplx / Cplx *)
    apply andb_prop in Ha as [Ha _]. apply andb_prop in Ha as [Har Hai].
    apply andb_prop in Hb as [Hb _]. apply andb_prop in Hb as [Hbr Hbi].
    apply q_lowest_iff in Har, Hai, Hbr, Hbi.
    pose proof (qlow_eq _ _ Har Hbr E1) as Er. pose proof (qlow_eq _ _ Hai Hbi E2) as Ei.
    injection Er as -> ->. injection Ei as -> ->. reflexivity.
Qed.

(* ---------- ring laws of the RESULTS, as representations ---------- *)
From SE Require Import Num.NumQi.

Lemma valQi_exact : forall r z, valQi r = Some z -> num_is_exact r = true.
Proof. intros r z H; destruct r; try discriminate H; reflexivity. Qed.

Lemma exact_valQi : forall a, num_is_exact a = true -> exists x, valQi a = Some x.
Proof. intros a H; destruct a; try discriminate H; eexists; reflexivity. Qed.

(* one step: the result exists, has the right value, is normalised and exact *)
Lemma step_add : forall a b x y,
  num_wf a = true -> num_wf b = true -> valQi a = Some x -> valQi b = Some y ->
  exists r z, num_add a b = Ok r /\ valQi r = Some z /\ qi_eq z (qi_add x y) /\ num_wf r = true.
Proof.
  intros a b x y Wa Wb Hx Hy.
  destruct (num_add_correct a b x y Hx Hy) as (r & z & Hr & Hz & E).
  exists r, z. split; [exact Hr|]. split; [exact Hz|]. split; [exact E|].
  exact (proj1 (num_op_normalised a b r (valQi_exact _ _ Hx) (valQi_exact _ _ Hy) Wa Wb (or_introl Hr))).
Qed.

Lemma step_mul : forall a b x y,
  num_wf a = true -> num_wf b = true -> valQi a = Some x -> valQi b = Some y ->
  exists r z, num_mul a b = Ok r /\ valQi r = Some z /\ qi_eq z (qi_mul x y) /\ num_wf r = true.
Proof.
  intros a b x y Wa Wb Hx Hy.
  destruct (num_mul_correct a b x y Hx Hy) as (r & z & Hr & Hz & E).
  exists r, z. split; [exact Hr|]. split; [exact Hz|]. split; [exact E|].
  exact (proj1 (num_op_normalised a b r (valQi_exact _ _ Hx) (valQi_exact _ _ Hy) Wa Wb
                 (or_intror (or_intror (or_introl Hr))))).
Qed.

Lemma qi_add_assoc : forall x y z, qi_eq (qi_add (qi_add x y) z) (qi_add x (qi_add y z)).
Proof. intros [x1 x2] [y1 y2] [z1 z2]. split; cbn; ring. Qed.
Lemma qi_add_comm : forall x y, qi_eq (qi_add x y) (qi_add y x).
Proof. intros [x1 x2] [y1 y2]. split; cbn; ring. Qed.
Lemma qi_mul_add_distr : forall x y z, qi_eq (qi_mul x (qi_add y z)) (qi_add (qi_mul x y) (qi_mul x z)).
Proof. intros [x1 x2] [y1 y2] [z1 z2]. split; cbn; ring. Qed.

(* (a + b) + c and a + (b + c) are the SAME object *)
Theorem add_assoc_structural : forall a b c,
  num_is_exact a = true -> num_is_exact b = true -> num_is_exact c = true ->
  num_wf a = true -> num_wf b = true -> num_wf c = true ->
  exists ab bc r, num_add a b = Ok ab /\ num_add b c = Ok bc /\
                  num_add ab c = Ok r /\ num_add a bc = Ok r.
Proof.
  intros a b c Ea Eb Ec Wa Wb Wc.
  destruct (exact_valQi a Ea) as [x Hx]. destruct (exact_valQi b Eb) as [y Hy].
  destruct (exact_valQi c Ec) as [w Hw].
  destruct (step_add a b x y Wa Wb Hx Hy) as (ab & z1 & H1 & V1 & Q1 & W1).
  destruct (step_add b c y w Wb Wc Hy Hw) as (bc & u1 & H2 & V2 & Q2 & W2).
  destruct (step_add ab c z1 w W1 Wc V1 Hw) as (r & z2 & H3 & V3 & Q3 & W3).
  destruct (step_add a bc x u1 Wa W2 Hx V2) as (s & u2 & H4 & V4 & Q4 & W4).
  exists ab, bc, r. repeat split; try assumption.
  rewrite H4. f_equal. symmetry.
  apply (exact_normal_form_unique r s z2 u2 W3 W4 V3 V4).
  rewrite Q3, Q4, Q1, Q2. apply qi_add_assoc.
Qed.

Theorem mul_assoc_structural : forall a b c,
  num_is_exact a = true -> num_is_exact b = true -> num_is_exact c = true ->
  num_wf a = true -> num_wf b = true -> num_wf c = true ->
  exists ab bc r, num_mul a b = Ok ab /\ num_mul b c = Ok bc /\
                  num_mul ab c = Ok r /\ num_mul a bc = Ok r.
Proof.
  intros a b c Ea Eb Ec Wa Wb Wc.
  destruct (exact_valQi a Ea) as [x Hx]. destruct (exact_valQi b Eb) as [y Hy].
  destruct (exact_valQi c Ec) as [w Hw].
  destruct (step_mul a b x y Wa Wb Hx Hy) as (ab & z1 & H1 & V1 & Q1 & W1).
  destruct (step_mul b c y w Wb Wc Hy Hw) as (bc & u1 & H2 & V2 & Q2 & W2).
  destruct (step_mul ab c z1 w W1 Wc V1 Hw) as (r & z2 & H3 & V3 & Q3 & W3).
  destruct (step_mul a bc x u1 Wa W2 Hx V2) as (s & u2 & H4 & V4 & Q4 & W4).
  exists ab, bc, r. repeat split; try assumption.
  rewrite H4. f_equal. symmetry.
  apply (exact_normal_form_unique r s z2 u2 W3 W4 V3 V4).
  rewrite Q3, Q4, Q1, Q2. symmetry. apply qi_mul_assoc.
Qed.

(* a * (b + c) and a*b + a*c are the SAME object *)
Theorem mul_add_distr_structural : forall a b c,
  num_is_exact a = true -> num_is_exact b = true -> num_is_exact c = true ->
  num_wf a = true -> num_wf b = true -> num_wf c = true ->
  exists bc ab ac r, num_add b c = Ok bc /\ num_mul a b = Ok ab /\ num_mul a c = Ok ac /\
                     num_mul a bc = Ok r /\ num_add ab ac = Ok r.
Proof.
  intros a b c Ea Eb Ec Wa Wb Wc.
  destruct (exact_valQi a Ea) as [x Hx]. destruct (exact_valQi b Eb) as [y Hy].
  destruct (exact_valQi c Ec) as [w Hw].
  destruct (step_add b c y w Wb Wc Hy Hw) as (bc & u1 & H1 & V1 & Q1 & W1).
  destruct (step_mul a b x y Wa Wb Hx Hy) as (ab & z1 & H2 & V2 & Q2 & W2).
  destruct (step_mul a c x w Wa Wc Hx Hw) as (ac & z2 & H3 & V3 & Q3 & W3).
  destruct (step_mul a bc x u1 Wa W1 Hx V1) as (r & z3 & H4 & V4 & Q4 & W4).
  destruct (step_add ab ac z1 z2 W2 W3 V2 V3) as (s & z4 & H5 & V5 & Q5 & W5).
  exists bc, ab, ac, r. repeat split; try assumption.
  rewrite H5. f_equal. symmetry.
  apply (exact_normal_form_unique r s z3 z4 W4 W5 V4 V5).
  rewrite Q4, Q5, Q1, Q2, Q3. apply qi_mul_add_distr.
Qed.

(* ---------- structural equality (__eq__, hence Eq) decides equality of VALUES on normalised
   exact numbers ---------- *)
Lemma q_eqb_true : forall p q, q_eqb p q = true -> p = q.
Proof.
  intros [n d] [n' d'] H. unfold q_eqb in H. cbn [Qnum Qden] in H.
  apply andb_prop in H as [H1 H2]. apply Z.eqb_eq in H1. apply Pos.eqb_eq in H2. now subst.
Qed.
Lemma q_eqb_refl : forall p, q_eqb p p = true.
Proof. intros [n d]. unfold q_eqb. cbn [Qnum Qden]. now rewrite Z.eqb_refl, Pos.eqb_refl. Qed.

Lemma num_eqb_exact_eq : forall a b, num_is_exact a = true -> num_eqb a b = true -> a = b.
Proof.
  intros a b Ea H. destruct a; try discriminate Ea; destruct b; try discriminate H; cbn [num_eqb] in H.
  - apply Z.eqb_eq in H. now subst.
  - apply q_eqb_true in H. now injection H as -> ->.
  - apply andb_prop in H as [H1 H2]. apply q_eqb_true in H1. apply q_eqb_true in H2.
    injection H1 as -> ->. injection H2 as -> ->. reflexivity.
Qed.

Lemma num_eqb_exact_refl : forall a, num_is_exact a = true -> num_eqb a a = true.
Proof.
  intros a Ea. destruct a; try discriminate Ea; cbn [num_eqb].
  - apply Z.eqb_refl.
  - apply q_eqb_refl.
  - now rewrite !q_eqb_refl.
Qed.

Theorem eq_decides_value_exact : forall a b x y,
  num_wf a = true -> num_wf b = true -> valQi a = Some x -> valQi b = Some y ->
  (num_eqb a b = true <-> qi_eq x y).
Proof.
  intros a b x y Wa Wb Hx Hy. split.
  - intros H. apply (num_eqb_exact_eq a b (valQi_exact _ _ Hx)) in H. subst b.
    rewrite Hx in Hy. injection Hy as <-. reflexivity.
  - intros E. rewrite (exact_normal_form_unique a b x y Wa Wb Hx Hy E) in *.
    apply num_eqb_exact_refl. exact (valQi_exact _ _ Hy).
Qed.

Lemma exact_not_NaN : forall a x, valQi a = Some x -> is_a_NaN a = false.
Proof. intros a x H; destruct a; try discriminate H; reflexivity. Qed.

(* the relational constructor Eq on two normalised exact numbers is True exactly when the
   values agree in Q(i), and False otherwise *)
Theorem Eq_decides_value_exact : forall a b x y,
  num_wf a = true -> num_wf b = true -> valQi a = Some x -> valQi b = Some y ->
  (rel_eq a b = Ok (Some true) <-> qi_eq x y) /\
  (rel_eq a b = Ok (Some false) <-> ~ qi_eq x y).
Proof.
  intros a b x y Wa Wb Hx Hy. unfold rel_eq.
  rewrite (exact_not_NaN a x Hx), (exact_not_NaN b y Hy). cbn [orb].
  pose proof (eq_decides_value_exact a b x y Wa Wb Hx Hy) as D.
  destruct (num_eqb a b) eqn:E; split; split; intros H; try discriminate H; try reflexivity.
  - now apply D.
  - exfalso. apply H. now apply D.
  - apply D in H. discriminate H.
  - intros Q. apply D in Q. discriminate Q.
Qed.

(* ---------- identities and inverses, as representations ---------- *)
Lemma step_sub : forall a b x y,
  num_wf a = true -> num_wf b = true -> valQi a = Some x -> valQi b = Some y ->
  exists r z, num_sub a b = Ok r /\ valQi r = Some z /\ qi_eq z (qi_sub x y) /\ num_wf r = true.
Proof.
  intros a b x y Wa Wb Hx Hy.
  destruct (num_sub_correct a b x y Hx Hy) as (r & z & Hr & Hz & E).
  exists r, z. split; [exact Hr|]. split; [exact Hz|]. split; [exact E|].
  exact (proj1 (num_op_normalised a b r (valQi_exact _ _ Hx) (valQi_exact _ _ Hy) Wa Wb
                 (or_intror (or_introl Hr)))).
Qed.

Theorem add_zero_structural : forall a, num_is_exact a = true -> num_wf a = true ->
  num_add a (NInt 0) = Ok a /\ num_add (NInt 0) a = Ok a.
Proof.
  intros a Ea Wa. destruct (exact_valQi a Ea) as [x Hx].
  destruct (step_add a (NInt 0) x (inject_Z 0, 0%Q) Wa eq_refl Hx eq_refl) as (r & z & H & V & Q & W).
  destruct (step_add (NInt 0) a (inject_Z 0, 0%Q) x eq_refl Wa eq_refl Hx) as (r' & z' & H' & V' & Q' & W').
  rewrite H, H'. split; f_equal.
  - apply (exact_normal_form_unique r a z x W Wa V Hx). rewrite Q. destruct x as [x1 x2]. split; cbn; ring.
  - apply (exact_normal_form_unique r' a z' x W' Wa V' Hx). rewrite Q'. destruct x as [x1 x2]. split; cbn; ring.
Qed.

Theorem mul_one_structural : forall a, num_is_exact a = true -> num_wf a = true ->
  num_mul a (NInt 1) = Ok a /\ num_mul (NInt 1) a = Ok a.
Proof.
  intros a Ea Wa. destruct (exact_valQi a Ea) as [x Hx].
  destruct (step_mul a (NInt 1) x (inject_Z 1, 0%Q) Wa eq_refl Hx eq_refl) as (r & z & H & V & Q & W).
  destruct (step_mul (NInt 1) a (inject_Z 1, 0%Q) x eq_refl Wa eq_refl Hx) as (r' & z' & H' & V' & Q' & W').
  rewrite H, H'. split; f_equal.
  - apply (exact_normal_form_unique r a z x W Wa V Hx). rewrite Q. destruct x as [x1 x2]. split; cbn; ring.
  - apply (exact_normal_form_unique r' a z' x W' Wa V' Hx). rewrite Q'. destruct x as [x1 x2]. split; cbn; ring.
Qed.

Theorem sub_self_structural : forall a, num_is_exact a = true -> num_wf a = true ->
  num_sub a a = Ok (NInt 0).
Proof.
  intros a Ea Wa. destruct (exact_valQi a Ea) as [x Hx].
  destruct (step_sub a a x x Wa Wa Hx Hx) as (r & z & H & V & Q & W).
  rewrite H. f_equal.
  apply (exact_normal_form_unique r (NInt 0) z (inject_Z 0, 0%Q) W eq_refl V eq_refl).
  rewrite Q. destruct x as [x1 x2]. split; cbn; ring.
Qed.

(* (a + b) - b is the object a *)
Theorem add_sub_cancel_structural : forall a b,
  num_is_exact a = true -> num_is_exact b = true -> num_wf a = true -> num_wf b = true ->
  exists ab, num_add a b = Ok ab /\ num_sub ab b = Ok a.
Proof.
  intros a b Ea Eb Wa Wb.
  destruct (exact_valQi a Ea) as [x Hx]. destruct (exact_valQi b Eb) as [y Hy].
  destruct (step_add a b x y Wa Wb Hx Hy) as (ab & z & H & V & Q & W).
  destruct (step_sub ab b z y W Wb V Hy) as (r & u & H' & V' & Q' & W').
  exists ab. split; [exact H|]. rewrite H'. f_equal.
  apply (exact_normal_form_unique r a u x W' Wa V' Hx).
  rewrite Q', Q. destruct x as [x1 x2], y as [y1 y2]. split; cbn; ring.
Qed.

(* a / a is Integer 1 for every non-zero normalised exact a *)
Lemma guard_self : forall a, guard_rat_div_cplx a a = false.
Proof. intros a; destruct a; reflexivity. Qed.

Theorem div_self_structural : forall a x, num_wf a = true -> valQi a = Some x -> ~ qi_is_zero x ->
  num_div a a = Ok (NInt 1).
Proof.
  intros a x Wa Hx Nz.
  destruct (num_div_correct a a x x Hx Hx Nz (guard_self a)) as (r & z & H & V & Q).
  pose proof (proj1 (num_op_normalised a a r (valQi_exact _ _ Hx) (valQi_exact _ _ Hx) Wa Wa
                 (or_intror (or_intror (or_intror (or_introl H)))))) as W.
  rewrite H. f_equal.
  apply (exact_normal_form_unique r (NInt 1) z (inject_Z 1, 0%Q) W eq_refl V eq_refl).
  rewrite Q. destruct x as [x1 x2]. unfold qi_is_zero, qi_eq, qi_zero in Nz. cbn [fst snd] in Nz.
  assert (Hn : ~ (qi_norm2 (x1, x2) == 0)%Q).
  { intro E. apply Nz. apply (proj2 (qi_zero_norm2 (x1, x2))) in E. exact E. }
  unfold qi_norm2 in Hn. cbn [fst snd] in Hn.
  split; unfold qi_div, qi_norm2; cbn [fst snd]; field; exact Hn.
Qed.
