(* Mathematical specification for the exact part of the number tower: arithmetic in Q(i)
   (pairs of rationals up to Qeq), schoolbook definitions. *)
From SE Require Import Num.NumDefs.
From Coq Require Import QArith.
Local Open Scope Q_scope.

Definition qi := (Q * Q)%type.
Definition qi_eq (x y : qi) : Prop := fst x == fst y /\ snd x == snd y.
Definition qi_zero : qi := (0, 0).
Definition qi_one : qi := (1, 0).
Definition qi_add (x y : qi) : qi := (fst x + fst y, snd x + snd y).
Definition qi_sub (x y : qi) : qi := (fst x - fst y, snd x - snd y).
Definition qi_opp (x : qi) : qi := (- fst x, - snd x).
Definition qi_mul (x y : qi) : qi := (fst x * fst y - snd x * snd y, fst x * snd y + snd x * fst y).
Definition qi_norm2 (y : qi) : Q := fst y * fst y + snd y * snd y.
(* x / y = x * conj(y) / |y|^2 *)
Definition qi_div (x y : qi) : qi :=
  ((fst x * fst y + snd x * snd y) / qi_norm2 y, (snd x * fst y - fst x * snd y) / qi_norm2 y).
Definition qi_inv (y : qi) : qi := qi_div qi_one y.

(* x^n as iterated multiplication *)
Fixpoint qi_pow_nat (x : qi) (n : nat) : qi :=
  match n with O => qi_one | S k => qi_mul x (qi_pow_nat x k) end.
(* integer exponent of either sign *)
Definition qi_powz (x : qi) (e : Z) : qi :=
  match e with
  | Z0 => qi_one
  | Zpos p => qi_pow_nat x (Pos.to_nat p)
  | Zneg p => qi_inv (qi_pow_nat x (Pos.to_nat p))
  end.

(* value of the exact kinds *)
Definition valQi (a : number) : option qi :=
  match a with
  | NInt z => Some (inject_Z z, 0)
  | NRat n d => Some (Qmake n d, 0)
  | NCplx rn rd imn imd => Some (Qmake rn rd, Qmake imn imd)
  | _ => None
  end.
Definition exact (a : number) : Prop := valQi a <> None.
Definition qi_is_zero (x : qi) : Prop := qi_eq x qi_zero.
