(* C29: the defect classes excluded by the guarded theorems are genuine refutations (each is
   replayed on the library by the check), and the repaired Le on equal values of different kinds. *)
From SE Require Import Num.NumModel.
From Coq Require Import List Bool QArith.

(* the guarded classes are genuine refutations (each replayed on the library by the check) *)
Local Open Scope Z_scope.
Theorem Le_correct_refuted :
  (* Le(2^53 + 1, RealDouble(2^53)) = True;  Le(oo, RealDouble(inf)) = False *)
  (exists a b x y, val a = Some x /\ val b = Some y /\ ext_leb x y = false /\ rel_le a b = Ok (Some true) /\
                   guard_inexact_conv a b = true) /\
  (exists a b x y, val a = Some x /\ val b = Some y /\ ext_leb x y = true /\ rel_le a b = Ok (Some false) /\
                   guard_dblinf_infty a b = true).
Proof.
  split.
  - exists (NInt 9007199254740993), (NDbl 4845873199050653696). do 2 eexists.
    split; [vm_compute; reflexivity|]. split; [vm_compute; reflexivity|]. vm_compute. repeat split; reflexivity.
  - exists (NInf 1), (NDbl 9218868437227405312). do 2 eexists.
    split; [vm_compute; reflexivity|]. split; [vm_compute; reflexivity|]. vm_compute. repeat split; reflexivity.
Qed.

(* equal values of different kinds: Le(1, 1.0) = True, Lt(1.0, 1) = False (repaired, commit 117ad73) *)
Example Le_equal_diffkind :
  rel_le (NInt 1) (NDbl 4607182418800017408) = Ok (Some true) /\
  rel_le (NDbl 4607182418800017408) (NInt 1) = Ok (Some true) /\
  rel_lt (NDbl 4607182418800017408) (NInt 1) = Ok (Some false).
Proof. vm_compute. repeat split; reflexivity. Qed.

Theorem Lt_correct_refuted :
  (* Lt(RealDouble(2^53), 2^53 + 1) = False;  Lt(RealDouble(inf), oo) = True *)
  (exists a b x y, val a = Some x /\ val b = Some y /\ ext_ltb x y = true /\ rel_lt a b = Ok (Some false) /\
                   guard_inexact_conv a b = true) /\
  (exists a b x y, val a = Some x /\ val b = Some y /\ ext_ltb x y = false /\ rel_lt a b = Ok (Some true) /\
                   guard_dblinf_infty a b = true).
Proof.
  split.
  - exists (NDbl 4845873199050653696), (NInt 9007199254740993). do 2 eexists.
    split; [vm_compute; reflexivity|]. split; [vm_compute; reflexivity|]. vm_compute. repeat split; reflexivity.
  - exists (NDbl 9218868437227405312), (NInf 1). do 2 eexists.
    split; [vm_compute; reflexivity|]. split; [vm_compute; reflexivity|]. vm_compute. repeat split; reflexivity.
Qed.
