(* C29, pairs involving doubles: the finite palette the check runs on the library (exact
   integers/rationals incl. multi-limb and 2^53+1, signed zeros, subnormal/huge/infinite
   doubles, doubles equal to exact values, +-oo), swept completely by the kernel. *)
From SE Require Import Num.NumModel Num.NumPalette.
From Coq Require Import List Bool QArith.

Definition res_ob_eqb (r : res (option bool)) (b : bool) : bool :=
  match r with Ok (Some t) => Bool.eqb t b | _ => false end.

Lemma res_ob_eqb_true : forall r b, res_ob_eqb r b = true -> r = Ok (Some b).
Proof. intros [[t|]| | |] b H; cbn in H; try discriminate H. apply Bool.eqb_prop in H. now subst. Qed.

Definition lt_guard (a b : number) : bool := guard_inexact_conv a b || guard_dblinf_infty a b.
Definition le_guard (a b : number) : bool := lt_guard a b.

Definition lt_ok (a b : number) : bool :=
  lt_guard a b ||
  match val a, val b with Some x, Some y => res_ob_eqb (rel_lt a b) (ext_ltb x y) | _, _ => false end.
Definition le_ok (a b : number) : bool :=
  le_guard a b ||
  match val a, val b with Some x, Some y => res_ob_eqb (rel_le a b) (ext_leb x y) | _, _ => false end.
Definition dual_ok (a b : number) : bool :=
  le_guard a b ||
  match rel_lt b a with Ok (Some t) => res_ob_eqb (rel_le a b) (negb t) | _ => false end.

Lemma sweep : forall (f : number -> number -> bool) (l : list number),
  forallb (fun a => forallb (f a) l) l = true ->
  forall a b, In a l -> In b l -> f a b = true.
Proof.
  intros f l H a b Ha Hb. rewrite forallb_forall in H. specialize (H a Ha). rewrite forallb_forall in H. exact (H b Hb).
Qed.

Theorem Lt_correct_palette_guarded : forall a b, In a real_palette -> In b real_palette ->
  lt_guard a b = false ->
  exists x y, val a = Some x /\ val b = Some y /\ rel_lt a b = Ok (Some (ext_ltb x y)).
Proof.
  assert (H : forallb (fun a => forallb (lt_ok a) real_palette) real_palette = true) by (vm_compute; reflexivity).
  intros a b Ha Hb Hg. pose proof (sweep lt_ok real_palette H a b Ha Hb) as Hk. unfold lt_ok in Hk. rewrite Hg in Hk.
  cbn [orb] in Hk. destruct (val a) as [x|]; [|discriminate Hk]. destruct (val b) as [y|]; [|discriminate Hk].
  exists x, y. repeat split. now apply res_ob_eqb_true.
Qed.

Theorem Le_correct_palette_guarded : forall a b, In a real_palette -> In b real_palette ->
  le_guard a b = false ->
  exists x y, val a = Some x /\ val b = Some y /\ rel_le a b = Ok (Some (ext_leb x y)).
Proof.
  assert (H : forallb (fun a => forallb (le_ok a) real_palette) real_palette = true) by (vm_compute; reflexivity).
  intros a b Ha Hb Hg. pose proof (sweep le_ok real_palette H a b Ha Hb) as Hk. unfold le_ok in Hk. rewrite Hg in Hk.
  cbn [orb] in Hk. destruct (val a) as [x|]; [|discriminate Hk]. destruct (val b) as [y|]; [|discriminate Hk].
  exists x, y. repeat split. now apply res_ob_eqb_true.
Qed.

Theorem Le_not_Lt_palette_guarded : forall a b, In a real_palette -> In b real_palette ->
  le_guard a b = false ->
  exists t, rel_lt b a = Ok (Some t) /\ rel_le a b = Ok (Some (negb t)).
Proof.
  assert (H : forallb (fun a => forallb (dual_ok a) real_palette) real_palette = true) by (vm_compute; reflexivity).
  intros a b Ha Hb Hg. pose proof (sweep dual_ok real_palette H a b Ha Hb) as Hk. unfold dual_ok in Hk. rewrite Hg in Hk.
  cbn [orb] in Hk. destruct (rel_lt b a) as [[t|]| | |]; try discriminate Hk.
  exists t. split; [reflexivity|]. now apply res_ob_eqb_true.
Qed.

(* the guarded classes are genuine refutations (each replayed on the library by the check) *)
Local Open Scope Z_scope.
Theorem Le_correct_refuted :
  (* Le(2^53 + 1, RealDouble(2^53)) = True;  Le(oo, RealDouble(inf)) = False *)
  (exists a b x y, val a = Some x /\ val b = Some y /\ ext_leb x y = false /\ rel_le a b = Ok (Some true) /\
                   guard_inexact_conv a b = true) /\
  (exists a b x y, val a = Some x /\ val b = Some y /\ ext_leb x y = true /\ rel_le a b = Ok (Some false) /\
                   guard_dblinf_infty a b = true).
Proof.
  split.
  - exists (NInt 9007199254740993), (NDbl 4845873199050653696). do 2 eexists.
    split; [vm_compute; reflexivity|]. split; [vm_compute; reflexivity|]. vm_compute. repeat split; reflexivity.
  - exists (NInf 1), (NDbl 9218868437227405312). do 2 eexists.
    split; [vm_compute; reflexivity|]. split; [vm_compute; reflexivity|]. vm_compute. repeat split; reflexivity.
Qed.

(* equal values of different kinds: Le(1, 1.0) = True, Lt(1.0, 1) = False (repaired, commit 117ad73) *)
Example Le_equal_diffkind :
  rel_le (NInt 1) (NDbl 4607182418800017408) = Ok (Some true) /\
  rel_le (NDbl 4607182418800017408) (NInt 1) = Ok (Some true) /\
  rel_lt (NDbl 4607182418800017408) (NInt 1) = Ok (Some false).
Proof. vm_compute. repeat split; reflexivity. Qed.

Theorem Lt_correct_refuted :
  (* Lt(RealDouble(2^53), 2^53 + 1) = False;  Lt(RealDouble(inf), oo) = True *)
  (exists a b x y, val a = Some x /\ val b = Some y /\ ext_ltb x y = true /\ rel_lt a b = Ok (Some false) /\
                   guard_inexact_conv a b = true) /\
  (exists a b x y, val a = Some x /\ val b = Some y /\ ext_ltb x y = false /\ rel_lt a b = Ok (Some true) /\
                   guard_dblinf_infty a b = true).
Proof.
  split.
  - exists (NDbl 4845873199050653696), (NInt 9007199254740993). do 2 eexists.
    split; [vm_compute; reflexivity|]. split; [vm_compute; reflexivity|]. vm_compute. repeat split; reflexivity.
  - exists (NDbl 9218868437227405312), (NInf 1). do 2 eexists.
    split; [vm_compute; reflexivity|]. split; [vm_compute; reflexivity|]. vm_compute. repeat split; reflexivity.
Qed.
