(* Order lemmas on binary64 (Flocq, single-NaN format): the sign of the rounded difference
   a - b decides a < b (no underflow to zero, overflow keeps the sign). *)
From SE Require Import Num.NumModel Num.NumFloat.
From Coq Require Import ZArith Reals Lia Lra.
From Flocq Require Import IEEE754.BinarySingleNaN Core Plus_error.
Local Open Scope R_scope.

Notation fexp64 := (SpecFloat.fexp 53 1024).
Notation B2R64 := (BinarySingleNaN.B2R (prec:=53) (emax:=1024)).

#[local] Instance valid_fexp64 : Valid_exp fexp64 := BinarySingleNaN.fexp_correct 53 1024 Hprec64.
#[local] Instance mono_fexp64 : Monotone_exp fexp64 := BinarySingleNaN.fexp_monotone 53 1024.

Lemma fzero_finite : BinarySingleNaN.is_finite fzero = true. Proof. reflexivity. Qed.
Lemma fzero_B2R : B2R64 fzero = 0. Proof. reflexivity. Qed.

Lemma sign_B2R : forall a : f64, BinarySingleNaN.is_finite a = true ->
  (BinarySingleNaN.Bsign a = true -> B2R64 a <= 0) /\ (BinarySingleNaN.Bsign a = false -> 0 <= B2R64 a).
Proof.
  intros [s|s| |s m e H] Hf; try discriminate Hf; cbn.
  - split; intros _; lra.
  - split; intros ->; cbn.
    + apply F2R_le_0. cbn. lia.
    + apply F2R_ge_0. cbn. lia.
Qed.

Lemma flt_finite : forall a b : f64,
  BinarySingleNaN.is_finite a = true -> BinarySingleNaN.is_finite b = true ->
  flt a b = match Rcompare (B2R64 a) (B2R64 b) with Lt => true | _ => false end.
Proof. intros a b Ha Hb. unfold flt. now rewrite BinarySingleNaN.Bcompare_correct. Qed.

Lemma round_neg_iff : forall x y : R,
  generic_format radix2 fexp64 x -> generic_format radix2 fexp64 y ->
  Rcompare (round radix2 fexp64 (round_mode mode_NE) (x - y)) 0 = Rcompare x y.
Proof.
  intros x y Fx Fy.
  assert (Fny : generic_format radix2 fexp64 (- y)) by now apply generic_format_opp.
  destruct (Rcompare_spec x y) as [H|H|H].
  - apply Rcompare_Lt.
    assert (Hle : round radix2 fexp64 (round_mode mode_NE) (x - y) <= 0).
    { rewrite <- (round_0 radix2 fexp64 (round_mode mode_NE)). apply round_le; try lra; try apply valid_rnd_N; try typeclasses eauto. }
    assert (Hne : round radix2 fexp64 (round_mode mode_NE) (x + - y) <> 0).
    { apply round_plus_neq_0; try assumption; try apply valid_rnd_N; try typeclasses eauto. intro E; lra. }
    unfold Rminus in *. lra.
  - subst. unfold Rminus. rewrite Rplus_opp_r, round_0 by apply valid_rnd_N. now apply Rcompare_Eq.
  - apply Rcompare_Gt.
    assert (Hge : 0 <= round radix2 fexp64 (round_mode mode_NE) (x - y)).
    { rewrite <- (round_0 radix2 fexp64 (round_mode mode_NE)). apply round_le; try lra; try apply valid_rnd_N; try typeclasses eauto. }
    assert (Hne : round radix2 fexp64 (round_mode mode_NE) (x + - y) <> 0).
    { apply round_plus_neq_0; try assumption; try apply valid_rnd_N; try typeclasses eauto. intro E; lra. }
    unfold Rminus in *. lra.
Qed.

Lemma Rcompare_0_sign : forall a b : R,
  match Rcompare (a - b) 0 with Lt => true | _ => false end = match Rcompare a b with Lt => true | _ => false end.
Proof.
  intros a b. destruct (Rcompare_spec a b) as [H|H|H].
  - rewrite Rcompare_Lt by lra. reflexivity.
  - rewrite Rcompare_Eq by lra. reflexivity.
  - rewrite Rcompare_Gt by lra. reflexivity.
Qed.

Lemma fsub_lt_finite : forall a b : f64,
  BinarySingleNaN.is_finite a = true -> BinarySingleNaN.is_finite b = true ->
  flt (fsub a b) fzero = flt a b.
Proof.
  intros a b Fa Fb. rewrite (flt_finite a b Fa Fb).
  pose proof (BinarySingleNaN.Bminus_correct 53 1024 _ _ mode_NE a b Fa Fb) as H.
  fold (fsub a b) in H.
  destruct (Rlt_bool (Rabs (round radix2 fexp64 (round_mode mode_NE) (B2R64 a - B2R64 b))) (bpow radix2 1024)) eqn:Hov.
  - destruct H as (H1 & H2 & _).
    rewrite (flt_finite (fsub a b) fzero H2 fzero_finite). rewrite H1, fzero_B2R.
    rewrite round_neg_iff by apply BinarySingleNaN.generic_format_B2R. reflexivity.
  - destruct H as (H1 & H2).
    assert (Hne : B2R64 a <> B2R64 b).
    { intros E. rewrite E, Rminus_diag_eq, round_0, Rabs_R0 in Hov by (try apply valid_rnd_N; reflexivity).
      rewrite Rlt_bool_true in Hov by apply bpow_gt_0. discriminate Hov. }
    destruct (sign_B2R a Fa) as [Sa1 Sa2]. destruct (sign_B2R b Fb) as [Sb1 Sb2].
    unfold BinarySingleNaN.binary_overflow in H1. cbn [BinarySingleNaN.overflow_to_inf] in H1.
    destruct (fsub a b) as [s|s| |s m e Hb]; cbn in H1; try discriminate H1.
    injection H1 as ->.
    destruct (BinarySingleNaN.Bsign a) eqn:Sa.
    + (* a <= 0 <= b, a <> b *)
      assert (Sb : BinarySingleNaN.Bsign b = false) by (destruct (BinarySingleNaN.Bsign b); [discriminate H2|reflexivity]).
      specialize (Sa1 eq_refl). specialize (Sb2 Sb).
      rewrite Rcompare_Lt by lra. reflexivity.
    + assert (Sb : BinarySingleNaN.Bsign b = true) by (destruct (BinarySingleNaN.Bsign b); [reflexivity|discriminate H2]).
      specialize (Sa2 eq_refl). specialize (Sb1 Sb).
      rewrite Rcompare_Gt by lra. reflexivity.
Qed.

(* all operands: infinities and NaN by the definitions of Bminus / Bcompare *)
Theorem fsub_lt : forall a b : f64, flt (fsub a b) fzero = flt a b.
Proof.
  intros a b.
  destruct (BinarySingleNaN.is_finite a) eqn:Fa, (BinarySingleNaN.is_finite b) eqn:Fb.
  - now apply fsub_lt_finite.
  - destruct a as [sa|sa| |sa ma ea Ha], b as [sb|sb| |sb mb eb Hb]; try discriminate Fa; try discriminate Fb;
      try reflexivity; destruct sa, sb; reflexivity.
  - destruct a as [sa|sa| |sa ma ea Ha], b as [sb|sb| |sb mb eb Hb]; try discriminate Fa; try discriminate Fb;
      try reflexivity; destruct sa, sb; reflexivity.
  - destruct a as [sa|sa| |sa ma ea Ha], b as [sb|sb| |sb mb eb Hb]; try discriminate Fa; try discriminate Fb;
      try reflexivity; destruct sa, sb; reflexivity.
Qed.

Lemma feq_finite : forall a b : f64,
  BinarySingleNaN.is_finite a = true -> BinarySingleNaN.is_finite b = true ->
  feq a b = match Rcompare (B2R64 a) (B2R64 b) with Eq => true | _ => false end.
Proof. intros a b Ha Hb. unfold feq. now rewrite BinarySingleNaN.Bcompare_correct. Qed.

Lemma fsub_eq_finite : forall a b : f64,
  BinarySingleNaN.is_finite a = true -> BinarySingleNaN.is_finite b = true ->
  feq (fsub a b) fzero = feq a b.
Proof.
  intros a b Fa Fb. rewrite (feq_finite a b Fa Fb).
  pose proof (BinarySingleNaN.Bminus_correct 53 1024 _ _ mode_NE a b Fa Fb) as H.
  fold (fsub a b) in H.
  destruct (Rlt_bool (Rabs (round radix2 fexp64 (round_mode mode_NE) (B2R64 a - B2R64 b))) (bpow radix2 1024)) eqn:Hov.
  - destruct H as (H1 & H2 & _).
    rewrite (feq_finite (fsub a b) fzero H2 fzero_finite). rewrite H1, fzero_B2R.
    rewrite round_neg_iff by apply BinarySingleNaN.generic_format_B2R. reflexivity.
  - destruct H as (H1 & H2).
    assert (Hne : B2R64 a <> B2R64 b).
    { intros E. rewrite E, Rminus_diag_eq, round_0, Rabs_R0 in Hov by (try apply valid_rnd_N; reflexivity).
      rewrite Rlt_bool_true in Hov by apply bpow_gt_0. discriminate Hov. }
    unfold BinarySingleNaN.binary_overflow in H1. cbn [BinarySingleNaN.overflow_to_inf] in H1.
    destruct (fsub a b) as [s|s| |s m e Hb]; cbn in H1; try discriminate H1.
    injection H1 as ->.
    destruct (Rcompare_spec (B2R64 a) (B2R64 b)) as [H|H|H]; try contradiction;
      destruct (BinarySingleNaN.Bsign a); reflexivity.
Qed.

(* the difference of two unequal doubles is not zero *)
Theorem fsub_nonzero : forall a b : f64, feq a b = false -> feq (fsub a b) fzero = false.
Proof.
  intros a b H.
  destruct (BinarySingleNaN.is_finite a) eqn:Fa, (BinarySingleNaN.is_finite b) eqn:Fb.
  - now rewrite fsub_eq_finite.
  - destruct a as [sa|sa| |sa ma ea Ha], b as [sb|sb| |sb mb eb Hb]; try discriminate Fa; try discriminate Fb;
      try reflexivity; destruct sa, sb; reflexivity.
  - destruct a as [sa|sa| |sa ma ea Ha], b as [sb|sb| |sb mb eb Hb]; try discriminate Fa; try discriminate Fb;
      try reflexivity; destruct sa, sb; reflexivity.
  - destruct a as [sa|sa| |sa ma ea Ha], b as [sb|sb| |sb mb eb Hb]; try discriminate Fa; try discriminate Fb;
      try reflexivity; destruct sa, sb; try reflexivity; discriminate H.
Qed.

Lemma feq_not_flt : forall a b : f64, feq a b = true -> flt a b = false.
Proof. intros a b. unfold feq, flt. destruct (BinarySingleNaN.Bcompare a b) as [[]|]; intros H; try discriminate H; reflexivity. Qed.
