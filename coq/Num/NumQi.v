(* Algebra of Q(i) as pairs of Q up to Qeq: setoid structure, ring/field identities used
   by the correctness proofs of the exact number classes. *)
From SE Require Import Num.NumSpec.
From Coq Require Import QArith Lia ZArith Setoid Morphisms Field.
Local Open Scope Q_scope.

#[global] Instance qi_eq_equiv : Equivalence qi_eq.
Proof.
  split.
  - intros [a b]; split; reflexivity.
  - intros x y [H1 H2]; split; symmetry; assumption.
  - intros x y z [H1 H2] [H3 H4]; split; etransitivity; eassumption.
Qed.

Ltac qi_unfold :=
  unfold qi_eq, qi_mul, qi_add, qi_sub, qi_opp, qi_div, qi_inv, qi_norm2, qi_one, qi_zero in *;
  cbn [fst snd] in *.

#[global] Instance qi_add_proper : Proper (qi_eq ==> qi_eq ==> qi_eq) qi_add.
Proof. intros [a b] [a' b'] [H1 H2] [c d] [c' d'] [H3 H4]. qi_unfold. split; rewrite ?H1, ?H2, ?H3, ?H4; reflexivity. Qed.
#[global] Instance qi_sub_proper : Proper (qi_eq ==> qi_eq ==> qi_eq) qi_sub.
Proof. intros [a b] [a' b'] [H1 H2] [c d] [c' d'] [H3 H4]. qi_unfold. split; rewrite ?H1, ?H2, ?H3, ?H4; reflexivity. Qed.
#[global] Instance qi_mul_proper : Proper (qi_eq ==> qi_eq ==> qi_eq) qi_mul.
Proof. intros [a b] [a' b'] [H1 H2] [c d] [c' d'] [H3 H4]. qi_unfold. split; rewrite ?H1, ?H2, ?H3, ?H4; reflexivity. Qed.
#[global] Instance qi_div_proper : Proper (qi_eq ==> qi_eq ==> qi_eq) qi_div.
Proof. intros [a b] [a' b'] [H1 H2] [c d] [c' d'] [H3 H4]. qi_unfold. split; rewrite ?H1, ?H2, ?H3, ?H4; reflexivity. Qed.
#[global] Instance qi_inv_proper : Proper (qi_eq ==> qi_eq) qi_inv.
Proof. intros x y H. unfold qi_inv. now rewrite H. Qed.
#[global] Instance qi_pow_nat_proper : Proper (qi_eq ==> eq ==> qi_eq) qi_pow_nat.
Proof.
  intros x y H n m <-. induction n as [|n IH]; cbn [qi_pow_nat].
  - reflexivity.
  - apply qi_mul_proper; assumption.
Qed.

Lemma qi_mul_comm : forall x y, qi_eq (qi_mul x y) (qi_mul y x).
Proof. intros [a b] [c d]. qi_unfold. split; ring. Qed.
Lemma qi_mul_assoc : forall x y z, qi_eq (qi_mul x (qi_mul y z)) (qi_mul (qi_mul x y) z).
Proof. intros [a b] [c d] [e f]. qi_unfold. split; ring. Qed.
Lemma qi_mul_1_l : forall x, qi_eq (qi_mul qi_one x) x.
Proof. intros [a b]. qi_unfold. split; ring. Qed.
Lemma qi_mul_1_r : forall x, qi_eq (qi_mul x qi_one) x.
Proof. intros [a b]. qi_unfold. split; ring. Qed.

Lemma qi_norm2_mul : forall x y, qi_norm2 (qi_mul x y) == qi_norm2 x * qi_norm2 y.
Proof. intros [a b] [c d]. unfold qi_norm2, qi_mul. cbn [fst snd]. ring. Qed.

Lemma qi_zero_norm2 : forall x, qi_is_zero x <-> qi_norm2 x == 0.
Proof.
  intros [a b]. unfold qi_is_zero, qi_norm2. qi_unfold. split.
  - intros [H1 H2]. rewrite H1, H2. ring.
  - intros H.
    assert (Ha : 0 <= a * a) by (destruct (Qlt_le_dec a 0); [ setoid_replace (a*a) with ((-a)*(-a)) by ring; apply Qmult_le_0_compat; apply (Qopp_le_compat a 0); now apply Qlt_le_weak | now apply Qmult_le_0_compat]).
    assert (Hb : 0 <= b * b) by (destruct (Qlt_le_dec b 0); [ setoid_replace (b*b) with ((-b)*(-b)) by ring; apply Qmult_le_0_compat; apply (Qopp_le_compat b 0); now apply Qlt_le_weak | now apply Qmult_le_0_compat]).
    assert (Ha0 : a * a == 0).
    { apply Qle_antisym; [|assumption]. rewrite <- H. rewrite <- (Qplus_0_r (a*a)) at 1. apply Qplus_le_r. assumption. }
    assert (Hb0 : b * b == 0).
    { apply Qle_antisym; [|assumption]. rewrite <- H. rewrite <- (Qplus_0_l (b*b)) at 1. apply Qplus_le_l. assumption. }
    split.
    + destruct (Qmult_integral _ _ Ha0); assumption.
    + destruct (Qmult_integral _ _ Hb0); assumption.
Qed.

Lemma qi_mul_nonzero : forall x y, ~ qi_is_zero x -> ~ qi_is_zero y -> ~ qi_is_zero (qi_mul x y).
Proof.
  intros x y Hx Hy H. rewrite qi_zero_norm2 in *. rewrite qi_norm2_mul in H.
  destruct (Qmult_integral _ _ H); tauto.
Qed.

Lemma qi_pow_nat_nonzero : forall x n, ~ qi_is_zero x -> ~ qi_is_zero (qi_pow_nat x n).
Proof.
  intros x n Hx. induction n as [|n IH]; cbn [qi_pow_nat].
  - unfold qi_is_zero. qi_unfold. intros [H _]. discriminate H.
  - now apply qi_mul_nonzero.
Qed.

Lemma qi_pow_nat_add : forall x n m, qi_eq (qi_pow_nat x (n + m)) (qi_mul (qi_pow_nat x n) (qi_pow_nat x m)).
Proof.
  intros x n m. induction n as [|n IH]; cbn [qi_pow_nat Nat.add].
  - now rewrite qi_mul_1_l.
  - rewrite IH. apply qi_mul_assoc.
Qed.

Lemma qi_pow_nat_mul_base : forall x y n,
  qi_eq (qi_pow_nat (qi_mul x y) n) (qi_mul (qi_pow_nat x n) (qi_pow_nat y n)).
Proof.
  intros x y n. induction n as [|n IH]; cbn [qi_pow_nat].
  - now rewrite qi_mul_1_l.
  - rewrite IH. destruct x as [a b], y as [c d], (qi_pow_nat (a,b) n) as [e f], (qi_pow_nat (c,d) n) as [g h].
    qi_unfold. split; ring.
Qed.

Lemma qi_pow_nat_sqr : forall x n, qi_eq (qi_pow_nat (qi_mul x x) n) (qi_pow_nat x (2 * n)).
Proof.
  intros x n. rewrite qi_pow_nat_mul_base. replace (2 * n)%nat with (n + n)%nat by lia.
  now rewrite qi_pow_nat_add.
Qed.

(* division *)
Lemma qi_div_mul : forall x y, ~ qi_is_zero y -> qi_eq (qi_mul (qi_div x y) y) x.
Proof.
  intros [a b] [c d] Hy. rewrite qi_zero_norm2 in Hy. unfold qi_norm2 in Hy. qi_unfold.
  split; field; exact Hy.
Qed.

Lemma qi_div_unique : forall x y z, ~ qi_is_zero y -> qi_eq (qi_mul z y) x -> qi_eq z (qi_div x y).
Proof.
  intros [a b] [c d] [e f] Hy [H1 H2]. rewrite qi_zero_norm2 in Hy. unfold qi_norm2 in Hy. qi_unfold.
  split; rewrite <- H1, <- H2; field; exact Hy.
Qed.

Lemma qi_inv_mul : forall x y, ~ qi_is_zero x -> ~ qi_is_zero y ->
  qi_eq (qi_inv (qi_mul x y)) (qi_mul (qi_inv x) (qi_inv y)).
Proof.
  intros x y Hx Hy. symmetry. unfold qi_inv at 3. apply qi_div_unique.
  - now apply qi_mul_nonzero.
  - transitivity (qi_mul (qi_mul (qi_inv x) x) (qi_mul (qi_inv y) y)).
    + destruct (qi_inv x) as [a b], (qi_inv y) as [c d], x as [e f], y as [g h]. qi_unfold. split; ring.
    + unfold qi_inv. rewrite !qi_div_mul by assumption. apply qi_mul_1_l.
Qed.

Lemma qi_inv_one : qi_eq (qi_inv qi_one) qi_one.
Proof. qi_unfold. split; reflexivity. Qed.

Lemma qi_div_as_mul : forall x y, ~ qi_is_zero y -> qi_eq (qi_div x y) (qi_mul x (qi_inv y)).
Proof.
  intros x y Hy. symmetry. apply qi_div_unique; [assumption|].
  rewrite <- qi_mul_assoc. unfold qi_inv. rewrite qi_div_mul by assumption. apply qi_mul_1_r.
Qed.

(* real elements *)
Lemma qi_pow_nat_rat : forall (n : Z) (d : positive) (k : nat),
  qi_eq (qi_pow_nat (Qmake n d, 0) k) (Qmake (n ^ Z.of_nat k) (Z.to_pos (Zpos d ^ Z.of_nat k)), 0).
Proof.
  intros n d k. induction k as [|k IH].
  - cbn. split; reflexivity.
  - cbn [qi_pow_nat]. rewrite IH. rewrite Nat2Z.inj_succ. unfold Z.succ.
    rewrite !Z.pow_add_r, !Z.pow_1_r by lia.
    assert (Hp : (0 < Zpos d ^ Z.of_nat k)%Z) by (apply Z.pow_pos_nonneg; lia).
    qi_unfold. split; [|ring].
    unfold Qeq, Qmult, Qminus, Qplus, Qopp. cbn [Qnum Qden].
    rewrite !Pos2Z.inj_mul. rewrite !Z2Pos.id by nia. ring.
Qed.

Lemma qi_pow_nat_int : forall (b : Z) (k : nat),
  qi_eq (qi_pow_nat (inject_Z b, 0) k) (inject_Z (b ^ Z.of_nat k), 0).
Proof.
  intros b k. unfold inject_Z at 1. rewrite qi_pow_nat_rat.
  split; cbn [fst snd]; [|reflexivity].
  rewrite Z.pow_1_l by lia. reflexivity.
Qed.

(* the four units *)
Definition qi_i : qi := (0, 1).
Definition unit_of (r : Z) : qi :=
  match r with 0%Z => (1, 0) | 1%Z => (0, 1) | 2%Z => (-1 # 1, 0) | _ => (0, -1 # 1) end.

Lemma unit_of_step : forall k : Z, (0 <= k)%Z ->
  qi_eq (unit_of ((k + 1) mod 4)) (qi_mul qi_i (unit_of (k mod 4))).
Proof.
  intros k Hk.
  assert (H : (k mod 4 = 0 \/ k mod 4 = 1 \/ k mod 4 = 2 \/ k mod 4 = 3)%Z) by (pose proof (Z.mod_pos_bound k 4); lia).
  rewrite Z.add_mod by lia.
  destruct H as [H|[H|[H|H]]]; rewrite H; cbn; qi_unfold; split; reflexivity.
Qed.

Lemma qi_i_pow : forall n, qi_eq (qi_pow_nat qi_i n) (unit_of (Z.of_nat n mod 4)).
Proof.
  induction n as [|n IH].
  - cbn. split; reflexivity.
  - cbn [qi_pow_nat]. rewrite IH. rewrite Nat2Z.inj_succ. unfold Z.succ.
    symmetry. apply unit_of_step. lia.
Qed.

Lemma unit_of_inv : forall r : Z, (0 <= r < 4)%Z -> qi_eq (qi_inv (unit_of r)) (unit_of ((- r) mod 4)).
Proof.
  intros r Hr. assert (H : (r = 0 \/ r = 1 \/ r = 2 \/ r = 3)%Z) by lia.
  destruct H as [H|[H|[H|H]]]; subst r; cbn; qi_unfold; split; reflexivity.
Qed.

Lemma unit_of_nonzero : forall r, ~ qi_is_zero (unit_of r).
Proof.
  intros r. unfold qi_is_zero.
  destruct r as [|[[|[]|]|[|[]|]|]|]; cbn; qi_unfold; intros [H1 H2]; try discriminate H1; try discriminate H2.
Qed.
