(* Extraction of the number-tower model (run from the output directory; not part of `make`). *)
From SE Require Import Num.NumModel.
Require Import ExtrOcamlBasic.
Extraction "num_model.ml" run_op run_rel run_pred mk_rat mk_cplx num_eqb num_cmp canon_bits guard_flags
  Z.add Z.mul Z.opp Z.div_eucl Z.of_N Z.to_N Z.compare.
