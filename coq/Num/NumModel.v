(* L1 -- the number tower: executable transcription of the arithmetic double dispatch of
   SymEngine's Number subclasses (integer.h/.cpp, rational.h/.cpp, complex.h/.cpp,
   real_double.h, complex_double.h, infinity.cpp, nan.cpp, number.cpp), the Basic-level
   number-number paths of add.cpp/mul.cpp and the relational constructors of logic.cpp.
   No proofs here (the model must extract when a proof breaks).

   Conventions
   - a C++ call  x.add(y)  that ends in "return other.add( *this )" is a [Swap] step: the
     dispatcher then runs the method of the other class with the operands exchanged.
   - GMP (mpz/mpq arithmetic on canonical operands, canonicalize, mpz_pow_ui, mpz_get_d and
     mpq_get_d = truncation toward zero, overflow to infinity) is the trusted external;
     mpq results are written [Qred (...)].
   - doubles are IEEE-754 binary64 bit patterns; arithmetic is Flocq's (round to nearest even)
     on the single-NaN format, every NaN result is the bit pattern 0x7FF8000000000000.
   - libm (std::pow) and libgcc's complex division / NaN recovery of complex multiplication
     are NOT modelled: such results are [ErrExn EXN_LIBM].
   - a SIGFPE of the process would be [ErrExn EXN_SIGFPE] (no longer produced: the code was
     repaired, commit 5eef324).
   The model follows the repaired code of commits 117ad73 (Le), 5eef324 (pow_negint),
   10bfe6c (Infty with a NaN operand). *)
From SE Require Export Num.NumDefs.
From Coq Require Import QArith.
From Flocq Require Import IEEE754.BinarySingleNaN IEEE754.Binary IEEE754.Bits Core.
Local Open Scope Z_scope.

Definition EXN_LIBM : N := 98%N.      (* needs libm / libgcc complex runtime: not modelled *)
Definition EXN_NOTNUM : N := 99%N.    (* result is not a Number (unused at Number level) *)
Definition EXN_SIGFPE : N := 208%N.   (* the process dies with SIGFPE (printed CRASH:8) *)

(* ------------------------------------------------------------------ integers *)

Definition TWO64 : Z := 18446744073709551616.
Definition TWO63 : Z := 9223372036854775808.
Definition fits_ulong (z : Z) : bool := (0 <=? z) && (z <? TWO64).
Definition fits_slong (z : Z) : bool := (- TWO63 <=? z) && (z <? TWO63).

(* mpz_pow_ui: b^e by binary recursion on the exponent (= Z.pow, proved in NumProofs) *)
Fixpoint zpow_pos (b : Z) (p : positive) : Z :=
  match p with
  | xH => b
  | xO p' => let r := zpow_pos b p' in r * r
  | xI p' => let r := zpow_pos b p' in b * (r * r)
  end.
Definition zpow (b e : Z) : Z :=
  match e with Z0 => 1 | Zpos p => zpow_pos b p | Zneg _ => 0 end.

(* ------------------------------------------------------------------ rationals (mpq) *)

Definition qadd (a b : Q) : Q := Qred (Qplus a b).
Definition qsub (a b : Q) : Q := Qred (Qminus a b).
Definition qmul (a b : Q) : Q := Qred (Qmult a b).
Definition qdiv (a b : Q) : Q := Qred (Qdiv a b).
Definition qneg (a : Q) : Q := Qopp a.
Definition qz (z : Z) : Q := inject_Z z.
Definition q_is_zero (a : Q) : bool := Qnum a =? 0.
(* mpq_equal *)
Definition q_eqb (a b : Q) : bool := (Qnum a =? Qnum b) && (Qden a =? Qden b)%positive.
(* mpq_cmp *)
Definition q_ltb (a b : Q) : bool := Qnum a * Zpos (Qden b) <? Qnum b * Zpos (Qden a).

(* rational_class q(n, d); canonicalize(q)   for d <> 0 *)
Definition qcanon (n d : Z) : Q := Qred (Qmake (n * Z.sgn d) (Z.to_pos (Z.abs d))).

(* Rational::from_mpq *)
Definition from_mpq (q : Q) : number :=
  if (Qden q =? 1)%positive then NInt (Qnum q) else NRat (Qnum q) (Qden q).

(* Complex::from_mpq *)
Definition cplx_from_mpq (re im : Q) : number :=
  if Qnum im =? 0 then from_mpq re else NCplx (Qnum re) (Qden re) (Qnum im) (Qden im).

(* Rational::from_two_ints *)
Definition mk_rat (n d : Z) : res number :=
  if d =? 0 then (if n =? 0 then Ok NNaN else Ok (NInf 0))
  else Ok (from_mpq (qcanon n d)).

(* Complex::from_two_nums *)
Definition mk_cplx (re im : number) : res number :=
  match re, im with
  | NInt a, NInt b => Ok (cplx_from_mpq (qz a) (qz b))
  | NRat a ad, NInt b => Ok (cplx_from_mpq (Qmake a ad) (qz b))
  | NInt a, NRat b bd => Ok (cplx_from_mpq (qz a) (Qmake b bd))
  | NRat a ad, NRat b bd => Ok (cplx_from_mpq (Qmake a ad) (Qmake b bd))
  | _, _ => ErrExn EXN_SYMENGINE
  end.

(* ------------------------------------------------------------------ doubles *)

Definition f64 := BinarySingleNaN.binary_float 53 1024.
#[global] Instance Hprec64 : Prec_gt_0 53 := eq_refl.
#[global] Instance Hmax64 : BinarySingleNaN.Prec_lt_emax 53 1024 := eq_refl.

Definition NAN_BITS : N := 9221120237041090560%N.      (* 0x7FF8000000000000 *)
Definition of_bits (n : N) : f64 := B2BSN 53 1024 (b64_of_bits (Z.of_N n)).
Definition to_bits (f : f64) : N := Z.to_N (bits_of_b64 (BSN2B 53 1024 default_nan_pl64 f)).

Definition fzero : f64 := BinarySingleNaN.B754_zero false.

(* mpz_get_d / mpq_get_d : truncation toward zero of n/d; infinity when |n/d| >= 2^1024;
   a quotient below the smallest subnormal gives +0.0 for either sign *)
Definition d_of_Q (n : Z) (d : positive) : f64 :=
  match n with
  | Z0 => fzero
  | _ =>
    let a := Z.abs n in
    let s := (n <? 0) in
    if (Zpos d * 2 ^ 1024 <=? a) then BinarySingleNaN.B754_infinity s
    else
      let k := Z.min 1074 (Z.max 0 (64 + Z.log2 (Zpos d) - Z.log2 a)) in
      let m := (a * 2 ^ k) / Zpos d in
      BinarySingleNaN.binary_normalize 53 1024 _ _ mode_ZR (if s then - m else m) (- k) false
  end.
Definition d_of_Z (z : Z) : f64 := d_of_Q z 1.

Definition fadd (x y : f64) : f64 := BinarySingleNaN.Bplus mode_NE x y.
Definition fsub (x y : f64) : f64 := BinarySingleNaN.Bminus mode_NE x y.
Definition fmul (x y : f64) : f64 := BinarySingleNaN.Bmult mode_NE x y.
Definition fdiv (x y : f64) : f64 := BinarySingleNaN.Bdiv mode_NE x y.
Definition fneg (x : f64) : f64 := BinarySingleNaN.Bopp x.
Definition feq (x y : f64) : bool :=
  match BinarySingleNaN.Bcompare x y with Some Eq => true | _ => false end.
Definition flt (x y : f64) : bool :=
  match BinarySingleNaN.Bcompare x y with Some Lt => true | _ => false end.
Definition f_is_nan (x : f64) : bool := BinarySingleNaN.is_nan x.

(* complex<double> as a pair; libstdc++ / GCC semantics of the mixed operators *)
Definition cd := (f64 * f64)%type.
Definition cd_add_cc (a b : cd) : cd := (fadd (fst a) (fst b), fadd (snd a) (snd b)).
Definition cd_add_cs (a : cd) (s : f64) : cd := (fadd (fst a) s, snd a).
Definition cd_sub_cc (a b : cd) : cd := (fsub (fst a) (fst b), fsub (snd a) (snd b)).
Definition cd_sub_cs (a : cd) (s : f64) : cd := (fsub (fst a) s, snd a).
(* operator-(T x, complex y) = (-y) += x *)
Definition cd_sub_sc (s : f64) (a : cd) : cd := (fadd (fneg (fst a)) s, fneg (snd a)).
Definition cd_neg (a : cd) : cd := (fneg (fst a), fneg (snd a)).
Definition cd_mul_cs (a : cd) (s : f64) : cd := (fmul (fst a) s, fmul (snd a) s).
Definition cd_div_cs (a : cd) (s : f64) : cd := (fdiv (fst a) s, fdiv (snd a) s).
(* complex * complex: (ac - bd, ad + bc); when both parts are NaN GCC calls __muldc3 *)
Definition cd_mul_cc (a b : cd) : res cd :=
  let re := fsub (fmul (fst a) (fst b)) (fmul (snd a) (snd b)) in
  let im := fadd (fmul (fst a) (snd b)) (fmul (snd a) (fst b)) in
  if f_is_nan re && f_is_nan im then ErrExn EXN_LIBM else Ok (re, im).

Definition mkD (x : f64) : number := NDbl (to_bits x).
Definition mkCD (c : cd) : number := NCDbl (to_bits (fst c)) (to_bits (snd c)).
Definition cd_of_cplx (rn : Z) (rd : positive) (imn : Z) (imd : positive) : cd :=
  (d_of_Q rn rd, d_of_Q imn imd).
Definition cd_of_bits (re im : N) : cd := (of_bits re, of_bits im).

(* ------------------------------------------------------------------ predicates *)

Definition num_is_zero (a : number) : bool :=
  match a with
  | NInt z => z =? 0
  | NRat n _ => n =? 0
  | NCplx _ _ _ _ => false
  | NDbl b => feq (of_bits b) fzero
  | NCDbl re im => feq (of_bits re) fzero && feq (of_bits im) fzero
  | NInf _ => false
  | NNaN => false
  end.
Definition num_is_one (a : number) : bool :=
  match a with
  | NInt z => z =? 1
  | NRat n d => q_eqb (Qmake n d) 1%Q
  | _ => false
  end.
Definition num_is_minus_one (a : number) : bool :=
  match a with
  | NInt z => z =? -1
  | NRat n d => q_eqb (Qmake n d) (Qmake (-1) 1)
  | _ => false
  end.
Definition num_is_positive (a : number) : bool :=
  match a with
  | NInt z => 0 <? z
  | NRat n _ => 0 <? n
  | NDbl b => flt fzero (of_bits b)
  | NInf d => 0 <? d
  | _ => false
  end.
Definition num_is_negative (a : number) : bool :=
  match a with
  | NInt z => z <? 0
  | NRat n _ => n <? 0
  | NDbl b => flt (of_bits b) fzero
  | NInf d => d <? 0
  | _ => false
  end.
Definition num_is_complex (a : number) : bool :=
  match a with
  | NCplx _ _ _ _ => true
  | NCDbl _ _ => true
  | NInf d => d =? 0
  | _ => false
  end.
Definition num_is_exact (a : number) : bool :=
  match a with
  | NInt _ | NRat _ _ | NCplx _ _ _ _ => true
  | _ => false
  end.
Definition num_is_exact_zero (a : number) : bool := num_is_exact a && num_is_zero a.

(* representation invariant of the classes *)
Definition q_lowest (n : Z) (d : positive) : bool := Z.gcd n (Zpos d) =? 1.
(* a bit pattern is well formed when it has 64 bits and, if a NaN, is the canonical NaN *)
Definition canon_bits (b : N) : N := to_bits (of_bits b).
Definition bits_ok (b : N) : bool := (b <? 18446744073709551616)%N && (canon_bits b =? b)%N.
Definition num_wf (a : number) : bool :=
  match a with
  | NInt _ => true
  | NRat n d => q_lowest n d && negb (d =? 1)%positive
  | NCplx rn rd imn imd => q_lowest rn rd && q_lowest imn imd && negb (imn =? 0)
  | NDbl b => bits_ok b
  | NCDbl re im => bits_ok re && bits_ok im
  | NInf d => (d =? 1) || (d =? 0) || (d =? -1)
  | NNaN => true
  end.

(* __eq__ (value comparison of two distinct objects) *)
Definition num_eqb (a b : number) : bool :=
  match a, b with
  | NInt x, NInt y => x =? y
  | NRat n d, NRat n' d' => q_eqb (Qmake n d) (Qmake n' d')
  | NCplx a1 a2 a3 a4, NCplx b1 b2 b3 b4 =>
      q_eqb (Qmake a1 a2) (Qmake b1 b2) && q_eqb (Qmake a3 a4) (Qmake b3 b4)
  | NDbl x, NDbl y => feq (of_bits x) (of_bits y)
  | NCDbl xr xi, NCDbl yr yi => feq (of_bits xr) (of_bits yr) && feq (of_bits xi) (of_bits yi)
  | NInf d, NInf d' => d =? d'
  | NNaN, NNaN => true
  | _, _ => false
  end.

(* compare within a class (Rational::compare also accepts an Integer) *)
Definition cmp3 (eq lt : bool) : Z := if eq then 0 else if lt then -1 else 1.
Definition num_cmp (a b : number) : Z :=
  match a, b with
  | NInt x, NInt y => cmp3 (x =? y) (x <? y)
  | NRat n d, NRat n' d' => cmp3 (q_eqb (Qmake n d) (Qmake n' d')) (q_ltb (Qmake n d) (Qmake n' d'))
  | NRat n d, NInt y => if q_ltb (Qmake n d) (qz y) then -1 else 1
  | NCplx a1 a2 a3 a4, NCplx b1 b2 b3 b4 =>
      if q_eqb (Qmake a1 a2) (Qmake b1 b2)
      then cmp3 (q_eqb (Qmake a3 a4) (Qmake b3 b4)) (q_ltb (Qmake a3 a4) (Qmake b3 b4))
      else if q_ltb (Qmake a1 a2) (Qmake b1 b2) then -1 else 1
  | NDbl x, NDbl y => cmp3 (feq (of_bits x) (of_bits y)) (flt (of_bits x) (of_bits y))
  | NCDbl xr xi, NCDbl yr yi =>
      if feq (of_bits xr) (of_bits yr) && feq (of_bits xi) (of_bits yi) then 0
      else if feq (of_bits xr) (of_bits yr) then (if flt (of_bits xi) (of_bits yi) then -1 else 1)
      else if flt (of_bits xr) (of_bits yr) then -1 else 1
  | NInf d, NInf d' => cmp3 (d =? d') (d <? d')
  | _, _ => 0
  end.

(* ------------------------------------------------------------------ dispatch steps *)

Inductive step :=
| Done (r : res number)     (* the method computed a result or threw *)
| Swap.                     (* the method ended in  other.<op or reverse op>( this ) *)

Definition I_unit : number := NCplx 0 1 1 1.

(* Infty::add *)
Definition inf_add (d : Z) (other : number) : res number :=
  match other with
  | NNaN => Ok NNaN
  | NInf d' => if negb (d' =? d) then Ok NNaN else if d =? 0 then Ok NNaN else Ok (NInf d)
  | _ => Ok (NInf d)
  end.

(* x.add(y), one class method *)
Definition add_step (a b : number) : step :=
  match a with
  | NInt x =>
      match b with NInt y => Done (Ok (NInt (x + y))) | _ => Swap end
  | NRat n d =>
      match b with
      | NRat n' d' => Done (Ok (from_mpq (qadd (Qmake n d) (Qmake n' d'))))
      | NInt y => Done (Ok (from_mpq (qadd (Qmake n d) (qz y))))
      | _ => Swap
      end
  | NCplx rn rd imn imd =>
      match b with
      | NRat n' d' => Done (Ok (cplx_from_mpq (qadd (Qmake rn rd) (Qmake n' d')) (Qmake imn imd)))
      | NInt y => Done (Ok (cplx_from_mpq (qadd (Qmake rn rd) (qz y)) (Qmake imn imd)))
      | NCplx rn' rd' imn' imd' =>
          Done (Ok (cplx_from_mpq (qadd (Qmake rn rd) (Qmake rn' rd')) (qadd (Qmake imn imd) (Qmake imn' imd'))))
      | _ => Swap
      end
  | NDbl x =>
      match b with
      | NRat n' d' => Done (Ok (mkD (fadd (of_bits x) (d_of_Q n' d'))))
      | NInt y => Done (Ok (mkD (fadd (of_bits x) (d_of_Z y))))
      | NCplx rn rd imn imd => Done (Ok (mkCD (cd_add_cs (cd_of_cplx rn rd imn imd) (of_bits x))))
      | NDbl y => Done (Ok (mkD (fadd (of_bits x) (of_bits y))))
      | _ => Swap
      end
  | NCDbl re im =>
      match b with
      | NRat n' d' => Done (Ok (mkCD (cd_add_cs (cd_of_bits re im) (d_of_Q n' d'))))
      | NInt y => Done (Ok (mkCD (cd_add_cs (cd_of_bits re im) (d_of_Z y))))
      | NCplx rn rd imn imd => Done (Ok (mkCD (cd_add_cc (cd_of_bits re im) (cd_of_cplx rn rd imn imd))))
      | NDbl y => Done (Ok (mkCD (cd_add_cs (cd_of_bits re im) (of_bits y))))
      | NCDbl re' im' => Done (Ok (mkCD (cd_add_cc (cd_of_bits re im) (cd_of_bits re' im'))))
      | _ => Swap
      end
  | NInf d => Done (inf_add d b)
  | NNaN => Done (Ok NNaN)
  end.

Definition num_add (a b : number) : res number :=
  match add_step a b with
  | Done r => r
  | Swap => match add_step b a with Done r => r | Swap => ErrFuel end
  end.

(* Infty::mul *)
Definition inf_mul (d : Z) (other : number) : res number :=
  match other with
  | NCplx _ _ _ _ => ErrExn EXN_NOTIMPL
  | NInf d' => Ok (NInf (d * d'))
  | _ => if num_is_positive other then Ok (NInf d)
         else if num_is_negative other then Ok (NInf (d * -1))
         else Ok NNaN
  end.

Definition mul_step (a b : number) : step :=
  match a with
  | NInt x =>
      match b with NInt y => Done (Ok (NInt (x * y))) | _ => Swap end
  | NRat n d =>
      match b with
      | NRat n' d' => Done (Ok (from_mpq (qmul (Qmake n d) (Qmake n' d'))))
      | NInt y => Done (Ok (from_mpq (qmul (Qmake n d) (qz y))))
      | _ => Swap
      end
  | NCplx rn rd imn imd =>
      let re := Qmake rn rd in let im := Qmake imn imd in
      match b with
      | NRat n' d' => Done (Ok (cplx_from_mpq (qmul re (Qmake n' d')) (qmul im (Qmake n' d'))))
      | NInt y => Done (Ok (cplx_from_mpq (qmul re (qz y)) (qmul im (qz y))))
      | NCplx rn' rd' imn' imd' =>
          let re' := Qmake rn' rd' in let im' := Qmake imn' imd' in
          Done (Ok (cplx_from_mpq (qsub (qmul re re') (qmul im im')) (qadd (qmul re im') (qmul im re'))))
      | _ => Swap
      end
  | NDbl x =>
      match b with
      | NRat n' d' => Done (Ok (mkD (fmul (of_bits x) (d_of_Q n' d'))))
      | NInt y => if y =? 0 then Done (Ok (NInt 0)) else Done (Ok (mkD (fmul (of_bits x) (d_of_Z y))))
      | NCplx rn rd imn imd => Done (Ok (mkCD (cd_mul_cs (cd_of_cplx rn rd imn imd) (of_bits x))))
      | NDbl y => Done (Ok (mkD (fmul (of_bits x) (of_bits y))))
      | _ => Swap
      end
  | NCDbl re im =>
      match b with
      | NRat n' d' => Done (Ok (mkCD (cd_mul_cs (cd_of_bits re im) (d_of_Q n' d'))))
      | NInt y => Done (Ok (mkCD (cd_mul_cs (cd_of_bits re im) (d_of_Z y))))
      | NCplx rn rd imn imd =>
          Done (bind (cd_mul_cc (cd_of_bits re im) (cd_of_cplx rn rd imn imd)) (fun c => Ok (mkCD c)))
      | NDbl y => Done (Ok (mkCD (cd_mul_cs (cd_of_bits re im) (of_bits y))))
      | NCDbl re' im' =>
          Done (bind (cd_mul_cc (cd_of_bits re im) (cd_of_bits re' im')) (fun c => Ok (mkCD c)))
      | _ => Swap
      end
  | NInf d => Done (inf_mul d b)
  | NNaN => Done (Ok NNaN)
  end.

Definition num_mul (a b : number) : res number :=
  match mul_step a b with
  | Done r => r
  | Swap => match mul_step b a with Done r => r | Swap => ErrFuel end
  end.

Definition num_neg (a : number) : res number := num_mul a (NInt (-1)).

(* ---- subtraction: x.sub(y) either computes, or calls y.rsub(x);
        Infty and NaN inherit Number::sub = add(other.mul(-1)) and
        Number::rsub = mul(-1)->add(other) *)

Definition default_sub (a b : number) : res number :=
  bind (num_mul b (NInt (-1))) (fun nb => num_add a nb).
Definition default_rsub (self other : number) : res number :=
  bind (num_mul self (NInt (-1))) (fun ns => num_add ns other).

(* self.rsub(other) = other - self *)
Definition num_rsub (self other : number) : res number :=
  match self with
  | NInt _ => ErrExn EXN_NOTIMPL
  | NRat n d =>
      match other with
      | NInt y => Ok (from_mpq (qsub (qz y) (Qmake n d)))
      | _ => ErrExn EXN_NOTIMPL
      end
  | NCplx rn rd imn imd =>
      match other with
      | NRat n' d' => Ok (cplx_from_mpq (qsub (Qmake n' d') (Qmake rn rd)) (qneg (Qmake imn imd)))
      | NInt y => Ok (cplx_from_mpq (qsub (qz y) (Qmake rn rd)) (qneg (Qmake imn imd)))
      | _ => ErrExn EXN_NOTIMPL
      end
  | NDbl x =>
      match other with
      | NRat n' d' => Ok (mkD (fsub (d_of_Q n' d') (of_bits x)))
      | NInt y => Ok (mkD (fsub (d_of_Z y) (of_bits x)))
      | NCplx rn rd imn imd => Ok (mkCD (cd_add_cs (cd_of_cplx rn rd imn imd) (fneg (of_bits x))))
      | _ => ErrExn EXN_NOTIMPL
      end
  | NCDbl re im =>
      match other with
      | NRat n' d' => Ok (mkCD (cd_sub_sc (d_of_Q n' d') (cd_of_bits re im)))
      | NInt y => Ok (mkCD (cd_sub_sc (d_of_Z y) (cd_of_bits re im)))
      | NCplx rn rd imn imd => Ok (mkCD (cd_add_cc (cd_neg (cd_of_bits re im)) (cd_of_cplx rn rd imn imd)))
      | NDbl y => Ok (mkCD (cd_sub_sc (of_bits y) (cd_of_bits re im)))
      | _ => ErrExn EXN_NOTIMPL
      end
  | NInf _ | NNaN => default_rsub self other
  end.

Definition sub_step (a b : number) : step :=
  match a with
  | NInt x =>
      match b with NInt y => Done (Ok (NInt (x - y))) | _ => Swap end
  | NRat n d =>
      match b with
      | NRat n' d' => Done (Ok (from_mpq (qsub (Qmake n d) (Qmake n' d'))))
      | NInt y => Done (Ok (from_mpq (qsub (Qmake n d) (qz y))))
      | _ => Swap
      end
  | NCplx rn rd imn imd =>
      match b with
      | NRat n' d' => Done (Ok (cplx_from_mpq (qsub (Qmake rn rd) (Qmake n' d')) (Qmake imn imd)))
      | NInt y => Done (Ok (cplx_from_mpq (qsub (Qmake rn rd) (qz y)) (Qmake imn imd)))
      | NCplx rn' rd' imn' imd' =>
          Done (Ok (cplx_from_mpq (qsub (Qmake rn rd) (Qmake rn' rd')) (qsub (Qmake imn imd) (Qmake imn' imd'))))
      | _ => Swap
      end
  | NDbl x =>
      match b with
      | NRat n' d' => Done (Ok (mkD (fsub (of_bits x) (d_of_Q n' d'))))
      | NInt y => Done (Ok (mkD (fsub (of_bits x) (d_of_Z y))))
      | NCplx rn rd imn imd => Done (Ok (mkCD (cd_sub_sc (of_bits x) (cd_of_cplx rn rd imn imd))))
      | NDbl y => Done (Ok (mkD (fsub (of_bits x) (of_bits y))))
      | _ => Swap
      end
  | NCDbl re im =>
      match b with
      | NRat n' d' => Done (Ok (mkCD (cd_sub_cs (cd_of_bits re im) (d_of_Q n' d'))))
      | NInt y => Done (Ok (mkCD (cd_sub_cs (cd_of_bits re im) (d_of_Z y))))
      | NCplx rn rd imn imd => Done (Ok (mkCD (cd_sub_cc (cd_of_bits re im) (cd_of_cplx rn rd imn imd))))
      | NDbl y => Done (Ok (mkCD (cd_sub_cs (cd_of_bits re im) (of_bits y))))
      | NCDbl re' im' => Done (Ok (mkCD (cd_sub_cc (cd_of_bits re im) (cd_of_bits re' im'))))
      | _ => Swap
      end
  | NInf _ | NNaN => Done (default_sub a b)
  end.

Definition num_sub (a b : number) : res number :=
  match sub_step a b with
  | Done r => r
  | Swap => num_rsub b a
  end.

(* ---- powers with an Integer exponent of the exact classes *)

(* Integer::pow_negint (exponent e < 0) and Integer::powint *)
Definition int_pow_negint (b e : Z) : res number :=
  let ne := - e in
  (* powint( *other.neg() ) *)
  if fits_ulong ne then
    let j := zpow b ne in
    (* 0 ** (-n) = 1/0 *)
    if j =? 0 then Ok (NInf 0)
    else Ok (from_mpq (qcanon (Z.sgn j) (Z.abs j)))
  else ErrExn EXN_SYMENGINE.
Definition int_powint (b e : Z) : res number :=
  if fits_ulong e then Ok (NInt (zpow b e))
  else if 0 <? e then ErrExn EXN_SYMENGINE
  else int_pow_negint b e.

(* Rational::powrat(Integer): num^e / den^e is passed to from_mpq WITHOUT canonicalising *)
Definition rat_powrat (n : Z) (d : positive) (e : Z) : res number :=
  let neg := e <? 0 in
  let ex := if neg then - e else e in
  if negb (fits_ulong ex) then ErrExn EXN_SYMENGINE
  else
    let val := Qmake (zpow n ex) (Z.to_pos (zpow (Zpos d) ex)) in
    if negb neg then Ok (from_mpq val) else Ok (from_mpq (Qinv val)).

(* pow_number(const Complex &x, unsigned long n): square and multiply, least significant
   bit first; the loop ends when no higher bit of n remains *)
Definition cq_mul (r p : Q * Q) : Q * Q :=
  (qsub (qmul (fst r) (fst p)) (qmul (snd r) (snd p)),
   qadd (qmul (fst r) (snd p)) (qmul (snd r) (fst p))).
Definition cq_sqr (p : Q * Q) : Q * Q :=
  (qsub (qmul (fst p) (fst p)) (qmul (snd p) (snd p)),
   qmul (qmul (qz 2) (fst p)) (snd p)).
Fixpoint pow_number_loop (r p : Q * Q) (n : positive) : Q * Q :=
  match n with
  | xH => cq_mul r p
  | xO n' => pow_number_loop r (cq_sqr p) n'
  | xI n' => pow_number_loop (cq_mul r p) (cq_sqr p) n'
  end.
Definition pow_number (x : Q * Q) (n : Z) : number :=
  let r := match n with Zpos p => pow_number_loop (qz 1, qz 0) x p | _ => (qz 1, qz 0) end in
  cplx_from_mpq (fst r) (snd r).

(* ---- division: x.div(y) computes or calls y.rdiv(x);  Infty and NaN inherit
        Number::rdiv = other.mul( pow(-1) ) *)

Definition zero_div (self_is_zero : bool) : number := if self_is_zero then NNaN else NInf 0.

(* Infty::pow with a non-Infty exponent that is not an exact Complex *)
Definition inf_pow_other (d : Z) (other : number) : res number :=
  if num_is_negative other then Ok (NInt 0)
  else if num_is_zero other then Ok (NInt 1)
  else if 0 <? d then Ok (NInf d)
  else if d <? 0 then ErrExn EXN_NOTIMPL
  else Ok (NInf 0).
Definition inf_pow (d : Z) (other : number) : res number :=
  match other with
  | NInf d' =>
      if 0 <? d then
        (if d' <? 0 then Ok (NInt 0) else if 0 <? d' then Ok (NInf d) else Ok NNaN)
      else if d <? 0 then Ok NNaN
      else (if 0 <? d' then Ok (NInf 0) else if d' <? 0 then Ok (NInt 0) else Ok NNaN)
  | NCplx _ _ _ _ => ErrExn EXN_NOTIMPL
  | NNaN => Ok NNaN
  | _ => inf_pow_other d other
  end.

(* Number::rdiv for Infty / NaN:  other.mul( this->pow(-1) ) *)
Definition default_rdiv (self other : number) : res number :=
  match self with
  | NInf d => bind (inf_pow d (NInt (-1))) (fun p => num_mul other p)
  | _ => num_mul other NNaN            (* NaN::pow = NaN *)
  end.

Definition num_rdiv (self other : number) : res number :=
  match self with
  | NInt x =>
      match other with
      | NInt y => if x =? 0 then Ok (zero_div (y =? 0)) else Ok (from_mpq (qcanon y x))
      | _ => ErrExn EXN_NOTIMPL
      end
  | NRat n d =>
      match other with
      | NInt y => if n =? 0 then Ok (zero_div (y =? 0)) else Ok (from_mpq (qdiv (qz y) (Qmake n d)))
      | _ => ErrExn EXN_NOTIMPL
      end
  | NCplx rn rd imn imd =>
      match other with
      | NInt y =>
          let re := Qmake rn rd in let im := Qmake imn imd in
          let m := qadd (qmul re re) (qmul im im) in
          if q_is_zero m then Ok (zero_div (y =? 0))
          else Ok (cplx_from_mpq (qdiv (qmul re (qz y)) m) (qdiv (qmul im (qz (- y))) m))
      | _ => ErrExn EXN_NOTIMPL
      end
  | NDbl x =>
      match other with
      | NRat n' d' => Ok (mkD (fdiv (d_of_Q n' d') (of_bits x)))
      | NInt y => Ok (mkD (fdiv (d_of_Z y) (of_bits x)))
      | NCplx rn rd imn imd => Ok (mkCD (cd_div_cs (cd_of_cplx rn rd imn imd) (of_bits x)))
      | _ => ErrExn EXN_NOTIMPL
      end
  | NCDbl _ _ =>
      match other with
      | NRat _ _ | NInt _ | NCplx _ _ _ _ | NDbl _ => ErrExn EXN_LIBM   (* scalar / complex, complex / complex *)
      | _ => ErrExn EXN_NOTIMPL
      end
  | NInf _ | NNaN => default_rdiv self other
  end.

(* Infty::div *)
Definition inf_div (d : Z) (other : number) : res number :=
  match other with
  | NInf _ | NNaN => Ok NNaN
  | _ => if num_is_positive other then Ok (NInf d)
         else if num_is_zero other then Ok (NInf 0)
         else Ok (NInf (d * -1))
  end.

Definition div_step (a b : number) : step :=
  match a with
  | NInt x =>
      match b with
      | NInt y => if y =? 0 then Done (Ok (zero_div (x =? 0))) else Done (Ok (from_mpq (qcanon x y)))
      | _ => Swap
      end
  | NRat n d =>
      match b with
      | NRat n' d' => if n' =? 0 then Done (Ok (zero_div (n =? 0)))
                      else Done (Ok (from_mpq (qdiv (Qmake n d) (Qmake n' d'))))
      | NInt y => if y =? 0 then Done (Ok (zero_div (n =? 0)))
                  else Done (Ok (from_mpq (qdiv (Qmake n d) (qz y))))
      | _ => Swap
      end
  | NCplx rn rd imn imd =>
      let re := Qmake rn rd in let im := Qmake imn imd in
      let msq := qadd (qmul re re) (qmul im im) in
      match b with
      | NRat n' d' => if n' =? 0 then Done (Ok (zero_div (q_is_zero msq)))
                      else Done (Ok (cplx_from_mpq (qdiv re (Qmake n' d')) (qdiv im (Qmake n' d'))))
      | NInt y => if y =? 0 then Done (Ok (zero_div (q_is_zero msq)))
                  else Done (Ok (cplx_from_mpq (qdiv re (qz y)) (qdiv im (qz y))))
      | NCplx rn' rd' imn' imd' =>
          let re' := Qmake rn' rd' in let im' := Qmake imn' imd' in
          let m := qadd (qmul re' re') (qmul im' im') in
          if q_is_zero m then Done (Ok (zero_div (q_is_zero msq)))
          else Done (Ok (cplx_from_mpq (qdiv (qadd (qmul re re') (qmul im im')) m)
                                       (qdiv (qadd (qmul (qneg re) im') (qmul im re')) m)))
      | _ => Swap
      end
  | NDbl x =>
      match b with
      | NRat n' d' => Done (Ok (mkD (fdiv (of_bits x) (d_of_Q n' d'))))
      | NInt y => Done (Ok (mkD (fdiv (of_bits x) (d_of_Z y))))
      | NCplx _ _ _ _ => Done (ErrExn EXN_LIBM)              (* scalar / complex *)
      | NDbl y => Done (Ok (mkD (fdiv (of_bits x) (of_bits y))))
      | _ => Swap
      end
  | NCDbl re im =>
      match b with
      | NRat n' d' => Done (Ok (mkCD (cd_div_cs (cd_of_bits re im) (d_of_Q n' d'))))
      | NInt y => Done (Ok (mkCD (cd_div_cs (cd_of_bits re im) (d_of_Z y))))
      | NCplx _ _ _ _ => Done (ErrExn EXN_LIBM)
      | NDbl y => Done (Ok (mkCD (cd_div_cs (cd_of_bits re im) (of_bits y))))
      | NCDbl _ _ => Done (ErrExn EXN_LIBM)
      | _ => Swap
      end
  | NInf d => Done (inf_div d b)
  | NNaN => Done (Ok NNaN)
  end.

Definition num_div (a b : number) : res number :=
  match div_step a b with
  | Done r => r
  | Swap => num_rdiv b a
  end.

(* Complex::powcomp(Integer) *)
Definition cplx_powcomp (rn : Z) (rd : positive) (imn : Z) (imd : positive) (e : Z) : res number :=
  if rn =? 0 then
    (* purely imaginary base: im^e * i^(e mod 4) *)
    let im := from_mpq (Qmake imn imd) in
    let unit := match e mod 4 with
                | 0 => NInt 1
                | 1 => I_unit
                | 2 => NInt (-1)
                | _ => NCplx 0 1 (-1) 1
                end in
    bind (match im with
          | NInt z => int_powint z e
          | NRat n d => rat_powrat n d e
          | _ => ErrFuel
          end) (fun p => num_mul p unit)
  else if 0 <? e then
    (if fits_slong e then Ok (pow_number (Qmake rn rd, Qmake imn imd) e) else ErrExn EXN_SYMENGINE)
  else
    (if fits_slong e then num_div (NInt 1) (pow_number (Qmake rn rd, Qmake imn imd) (- e))
     else ErrExn EXN_SYMENGINE).

(* Infty::rpow(other) = other ** this *)
Definition inf_rpow (d : Z) (other : number) : res number :=
  match other with
  | NCplx _ _ _ _ | NCDbl _ _ => ErrExn EXN_NOTIMPL
  | _ =>
    if num_is_negative other then ErrExn EXN_NOTIMPL
    else if num_is_zero other then ErrExn EXN_SYMENGINE
    else if num_is_one other then Ok NNaN
    else if 0 <? d then
      bind (num_sub other (NInt 1)) (fun s => if num_is_negative s then Ok (NInt 0) else Ok (NInf d))
    else if d <? 0 then
      bind (num_sub other (NInt 1)) (fun s => if num_is_negative s then Ok (NInf 0) else Ok (NInt 0))
    else ErrExn EXN_SYMENGINE
  end.

(* self.rpow(other) = other ** self *)
Definition num_rpow (self other : number) : res number :=
  match self with
  | NInt _ | NRat _ _ | NCplx _ _ _ _ => ErrExn EXN_NOTIMPL
  | NDbl _ =>
      match other with
      | NRat _ _ | NInt _ | NCplx _ _ _ _ => ErrExn EXN_LIBM
      | _ => ErrExn EXN_NOTIMPL
      end
  | NCDbl _ _ =>
      match other with
      | NRat _ _ | NInt _ | NCplx _ _ _ _ | NDbl _ => ErrExn EXN_LIBM
      | _ => ErrExn EXN_NOTIMPL
      end
  | NInf d => inf_rpow d other
  | NNaN => Ok NNaN
  end.

Definition pow_step (a b : number) : step :=
  match a with
  | NInt x => match b with NInt e => Done (int_powint x e) | _ => Swap end
  | NRat n d => match b with NInt e => Done (rat_powrat n d e) | _ => Swap end
  | NCplx rn rd imn imd => match b with NInt e => Done (cplx_powcomp rn rd imn imd e) | _ => Swap end
  | NDbl _ =>
      match b with
      | NRat _ _ | NInt _ | NCplx _ _ _ _ | NDbl _ => Done (ErrExn EXN_LIBM)
      | _ => Swap
      end
  | NCDbl _ _ =>
      match b with
      | NRat _ _ | NInt _ | NCplx _ _ _ _ | NDbl _ | NCDbl _ _ => Done (ErrExn EXN_LIBM)
      | _ => Swap
      end
  | NInf d => Done (inf_pow d b)
  | NNaN => Done (Ok NNaN)
  end.

Definition num_pow (a b : number) : res number :=
  match pow_step a b with
  | Done r => r
  | Swap => num_rpow b a
  end.

(* ------------------------------------------------------------------ Basic level
   add(a, b) and mul(a, b) of add.cpp / mul.cpp on two numbers: the coefficients travel
   through Add::dict_add_term under the key `one` / through imulnum on the coefficient 1 *)

Definition basic_add_num (a b : number) : res number :=
  if num_is_zero a then
    (if num_is_zero b then Ok (NInt 0) else Ok b)
  else
    bind (num_add a b) (fun s => if num_is_zero s then Ok (NInt 0) else Ok s).

Definition basic_mul_num (a b : number) : res number :=
  bind (num_mul (NInt 1) a) (fun c => num_mul c b).

(* ------------------------------------------------------------------ relations (logic.cpp) *)

Definition is_a_Complex (a : number) : bool :=
  match a with NCplx _ _ _ _ | NCDbl _ _ => true | _ => false end.
Definition is_a_NaN (a : number) : bool := match a with NNaN => true | _ => false end.

Definition rel_lt (a b : number) : res (option bool) :=
  if is_a_Complex a || is_a_Complex b then ErrExn EXN_SYMENGINE
  else if is_a_NaN a || is_a_NaN b then ErrExn EXN_SYMENGINE
  else if num_eqb a (NInf 0) || num_eqb b (NInf 0) then ErrExn EXN_SYMENGINE
  else if num_eqb a b then Ok (Some false)
  else bind (num_sub a b) (fun s => Ok (Some (num_is_negative s))).

Definition rel_le (a b : number) : res (option bool) :=
  if is_a_Complex a || is_a_Complex b then ErrExn EXN_SYMENGINE
  else if is_a_NaN a || is_a_NaN b then ErrExn EXN_SYMENGINE
  else if num_eqb a (NInf 0) || num_eqb b (NInf 0) then ErrExn EXN_SYMENGINE
  else if num_eqb a b then Ok (Some true)
  else bind (num_sub a b) (fun s => Ok (Some (num_is_negative s || num_is_zero s))).

Definition rel_gt (a b : number) : res (option bool) := rel_lt b a.
Definition rel_ge (a b : number) : res (option bool) := rel_le b a.

Definition rel_eq (a b : number) : res (option bool) :=
  if is_a_NaN a || is_a_NaN b then Ok (Some false)
  else if num_eqb a b then Ok (Some true)
  else Ok (Some false).

Definition rel_ne (a b : number) : res (option bool) :=
  bind (rel_eq a b) (fun r => Ok (option_map negb r)).

(* ------------------------------------------------------------------ one entry point for
   the extracted program *)
Inductive opcode :=
| OAdd | OSub | OMul | ODiv | OPow | ORsub | ORdiv | ORpow | OBAdd | OBMul | ONeg.

Definition run_op (o : opcode) (a b : number) : res number :=
  match o with
  | OAdd => num_add a b
  | OSub => num_sub a b
  | OMul => num_mul a b
  | ODiv => num_div a b
  | OPow => num_pow a b
  | ORsub => num_rsub a b
  | ORdiv => num_rdiv a b
  | ORpow => num_rpow a b
  | OBAdd => basic_add_num a b
  | OBMul => basic_mul_num a b
  | ONeg => num_neg a
  end.

Inductive relcode := RLt | RLe | RGt | RGe | REq | RNe.
Definition run_rel (o : relcode) (a b : number) : res (option bool) :=
  match o with
  | RLt => rel_lt a b | RLe => rel_le a b | RGt => rel_gt a b
  | RGe => rel_ge a b | REq => rel_eq a b | RNe => rel_ne a b
  end.


Definition run_pred (a : number) : list bool :=
  [num_is_zero a; num_is_one a; num_is_minus_one a; num_is_positive a; num_is_negative a;
   num_is_complex a; num_is_exact a; num_wf a].

(* ------------------------------------------------------------------ defect-class guards
   Each predicate names one class of inputs on which a property theorem fails on this model
   (the *_refuted theorems exhibit a witness in it, the *_guarded theorems assume its negation);
   the checks classify a violation found on the library by the guard its input falls in. *)
Definition is_inf (a : number) : bool := match a with NInf _ => true | _ => false end.
Definition is_zoo (a : number) : bool := match a with NInf d => d =? 0 | _ => false end.
Definition is_float (a : number) : bool := match a with NDbl _ | NCDbl _ _ => true | _ => false end.
Definition is_dbl (a : number) : bool := match a with NDbl _ => true | _ => false end.
Definition is_int0 (a : number) : bool := match a with NInt z => z =? 0 | _ => false end.
Definition is_exact_cplx (a : number) : bool := match a with NCplx _ _ _ _ => true | _ => false end.
Definition is_rat (a : number) : bool := match a with NRat _ _ => true | _ => false end.

(* C06: RealDouble::mulreal(Integer 0) returns the exact 0 *)
Definition guard_dbl_times_int0 (a b : number) : bool :=
  (is_dbl a && is_int0 b) || (is_int0 a && is_dbl b).
(* C06: Infty::mul throws for an exact Complex and answers NaN for a ComplexDouble *)
Definition guard_zoo_times_complex (a b : number) : bool :=
  (is_zoo a && is_a_Complex b) || (is_a_Complex a && is_zoo b).
(* C06, Basic level: Add::dict_add_term drops a zero first operand / a zero sum without
   looking at its exactness *)
Definition guard_badd_zero_float (a b : number) : bool :=
  (num_is_zero a || num_is_zero b) && (is_float a || is_float b).
Definition guard_badd_zero_sum (a b : number) : bool :=
  (is_float a || is_float b) &&
  match num_add a b with Ok s => num_is_zero s | _ => false end.
(* C05: Complex::rdiv accepts only an Integer *)
Definition guard_rat_div_cplx (a b : number) : bool := is_rat a && is_exact_cplx b.

(* exact value of a finite double *)
Definition f64_to_Q (x : f64) : option Q :=
  match x with
  | BinarySingleNaN.B754_zero _ => Some 0%Q
  | BinarySingleNaN.B754_finite s m e _ =>
      let mz := if s then Zneg m else Zpos m in
      Some (match e with
            | Z0 => inject_Z mz
            | Zpos p => inject_Z (mz * 2 ^ Zpos p)
            | Zneg p => Qmake mz (Z.to_pos (2 ^ Zpos p))
            end)
  | _ => None
  end.
(* extended real value of the real kinds: None = not a real number *)
Inductive ext := MInf | Fin (q : Q) | PInf.
Definition val (a : number) : option ext :=
  match a with
  | NInt z => Some (Fin (inject_Z z))
  | NRat n d => Some (Fin (Qmake n d))
  | NDbl b =>
      match of_bits b with
      | BinarySingleNaN.B754_nan => None
      | BinarySingleNaN.B754_infinity s => Some (if s then MInf else PInf)
      | x => option_map Fin (f64_to_Q x)
      end
  | NInf d => if 0 <? d then Some PInf else if d <? 0 then Some MInf else None
  | _ => None
  end.
Definition ext_ltb (x y : ext) : bool :=
  match x, y with
  | MInf, MInf => false | MInf, _ => true
  | Fin _, MInf => false | Fin p, Fin q => if Qlt_le_dec p q then true else false | Fin _, PInf => true
  | PInf, _ => false
  end.
Definition ext_eqb (x y : ext) : bool :=
  match x, y with
  | MInf, MInf => true | PInf, PInf => true | Fin p, Fin q => Qeq_bool p q | _, _ => false
  end.
Definition ext_leb (x y : ext) : bool := ext_ltb x y || ext_eqb x y.
Definition is_real (a : number) : bool := match val a with Some _ => true | None => false end.

(* C29: an exact operand is converted to double by truncation before the subtraction *)
Definition conv_inexact (a : number) : bool :=
  match a with
  | NInt z => match f64_to_Q (d_of_Z z) with Some q => negb (Qeq_bool q (inject_Z z)) | None => true end
  | NRat n d => match f64_to_Q (d_of_Q n d) with Some q => negb (Qeq_bool q (Qmake n d)) | None => true end
  | _ => false
  end.
Definition guard_inexact_conv (a b : number) : bool :=
  (conv_inexact a && is_dbl b) || (is_dbl a && conv_inexact b).
(* C29: an infinite double against the symbolic infinity *)
Definition is_dbl_inf (a : number) : bool :=
  match a with NDbl b => match of_bits b with BinarySingleNaN.B754_infinity _ => true | _ => false end | _ => false end.
Definition guard_dblinf_infty (a b : number) : bool :=
  (is_dbl_inf a && is_inf b) || (is_inf a && is_dbl_inf b).

(* names of the guards a case falls in, for the checks *)
Definition guard_flags (a b : number) : list bool :=
  [guard_dbl_times_int0 a b; guard_zoo_times_complex a b;
   guard_badd_zero_float a b; guard_badd_zero_sum a b; guard_rat_div_cplx a b;
   guard_inexact_conv a b; guard_dblinf_infty a b].
