(* C29: order laws of Lt on exact reals and +-oo, as corollaries of Lt_correct_exact: since the
   answer IS the numeric relation, Lt is irreflexive, asymmetric, transitive and total up to
   numeric equality -- for every value, no size bound. *)
From SE Require Import Num.NumModel Num.NumQ Num.NumFloat Num.NumC29.
From Coq Require Import QArith Lia ZArith.

Lemma ext_ltb_irrefl x : ext_ltb x x = false.
Proof.
  destruct x as [|p|]; cbn [ext_ltb]; try reflexivity.
  destruct (Qlt_le_dec p p) as [H|H]; [exfalso; exact (Qlt_irrefl p H) | reflexivity].
Qed.

Lemma ext_ltb_asym x y : ext_ltb x y = true -> ext_ltb y x = false.
Proof.
  destruct x as [|p|], y as [|q|]; cbn [ext_ltb]; try reflexivity; try discriminate.
  destruct (Qlt_le_dec p q) as [H|H]; [|discriminate]. intros _.
  destruct (Qlt_le_dec q p) as [H'|H']; [|reflexivity].
  exfalso; exact (Qlt_irrefl p (Qlt_trans _ _ _ H H')).
Qed.

Lemma ext_ltb_trans x y z : ext_ltb x y = true -> ext_ltb y z = true -> ext_ltb x z = true.
Proof.
  destruct x as [|p|], y as [|q|], z as [|r|]; cbn [ext_ltb]; try reflexivity; try discriminate.
  destruct (Qlt_le_dec p q) as [H|H]; [|discriminate].
  destruct (Qlt_le_dec q r) as [H'|H']; [|discriminate]. intros _ _.
  destruct (Qlt_le_dec p r) as [H''|H'']; [reflexivity|].
  exfalso; exact (Qlt_not_le _ _ (Qlt_trans _ _ _ H H') H'').
Qed.

Lemma ext_total x y : ext_ltb x y = true \/ ext_eqb x y = true \/ ext_ltb y x = true.
Proof.
  destruct x as [|p|], y as [|q|]; cbn [ext_ltb ext_eqb]; auto.
  destruct (Qlt_le_dec p q) as [H|H]; [auto|].
  destruct (Qlt_le_dec q p) as [H'|H']; [auto|].
  right; left. apply Qeq_bool_iff. apply Qle_antisym; assumption.
Qed.

Theorem Lt_strict_order_exact : forall a b c x y z,
  xreal a = true -> xreal b = true -> xreal c = true ->
  val a = Some x -> val b = Some y -> val c = Some z ->
  rel_lt a a = Ok (Some false) /\
  (rel_lt a b = Ok (Some true) -> rel_lt b a = Ok (Some false)) /\
  (rel_lt a b = Ok (Some true) -> rel_lt b c = Ok (Some true) -> rel_lt a c = Ok (Some true)) /\
  (rel_lt a b = Ok (Some true) \/ ext_eqb x y = true \/ rel_lt b a = Ok (Some true)).
Proof.
  intros a b c x y z Ha Hb Hc Hx Hy Hz.
  rewrite (Lt_correct_exact a a x x Ha Ha Hx Hx), (Lt_correct_exact a b x y Ha Hb Hx Hy),
          (Lt_correct_exact b a y x Hb Ha Hy Hx), (Lt_correct_exact b c y z Hb Hc Hy Hz),
          (Lt_correct_exact a c x z Ha Hc Hx Hz).
  rewrite ext_ltb_irrefl. split; [reflexivity|]. split; [|split].
  - intros H. injection H as H. now rewrite (ext_ltb_asym _ _ H).
  - intros H1 H2. injection H1 as H1. injection H2 as H2. now rewrite (ext_ltb_trans _ _ _ H1 H2).
  - destruct (ext_total x y) as [H|[H|H]]; [left|right;left|right;right]; now rewrite ?H.
Qed.

(* ---------- Le: a total preorder whose kernel is numeric equality ---------- *)
Lemma ext_leb_refl x : ext_leb x x = true.
Proof. rewrite ext_leb_negb_ltb, ext_ltb_irrefl; reflexivity. Qed.

Lemma ext_leb_trans x y z : ext_leb x y = true -> ext_leb y z = true -> ext_leb x z = true.
Proof.
  rewrite !ext_leb_negb_ltb. intros H1 H2.
  apply Bool.negb_true_iff in H1. apply Bool.negb_true_iff in H2. apply Bool.negb_true_iff.
  destruct (ext_ltb z x) eqn:Ezx; [exfalso|reflexivity].
  (* z < x; not (y < x) so x <= y, hence z < y or ... use totality *)
  destruct (ext_total y x) as [H|[H|H]].
  - congruence.
  - (* y == x numerically: z < x gives z < y *)
    destruct x as [|p|], y as [|q|], z as [|r|]; cbn [ext_ltb ext_eqb] in *; try discriminate.
    apply Qeq_bool_iff in H.
    destruct (Qlt_le_dec r p) as [A|A]; [|discriminate].
    destruct (Qlt_le_dec r q) as [B|B]; [discriminate|].
    rewrite <- H in A. exact (Qlt_not_le _ _ A B).
  - (* x < y and z < x give z < y *)
    rewrite (ext_ltb_trans _ _ _ Ezx H) in H2. discriminate.
Qed.

Lemma ext_leb_total x y : ext_leb x y = true \/ ext_leb y x = true.
Proof.
  rewrite !ext_leb_negb_ltb.
  destruct (ext_ltb y x) eqn:E; [right|left; reflexivity].
  now rewrite (ext_ltb_asym _ _ E).
Qed.

Lemma ext_leb_antisym x y : ext_leb x y = true -> ext_leb y x = true -> ext_eqb x y = true.
Proof.
  rewrite !ext_leb_negb_ltb. intros H1 H2.
  apply Bool.negb_true_iff in H1. apply Bool.negb_true_iff in H2.
  destruct (ext_total x y) as [H|[H|H]]; congruence.
Qed.

Theorem Le_total_preorder_exact : forall a b c x y z,
  xreal a = true -> xreal b = true -> xreal c = true ->
  val a = Some x -> val b = Some y -> val c = Some z ->
  rel_le a a = Ok (Some true) /\
  (rel_le a b = Ok (Some true) -> rel_le b c = Ok (Some true) -> rel_le a c = Ok (Some true)) /\
  (rel_le a b = Ok (Some true) \/ rel_le b a = Ok (Some true)) /\
  (rel_le a b = Ok (Some true) -> rel_le b a = Ok (Some true) -> ext_eqb x y = true).
Proof.
  intros a b c x y z Ha Hb Hc Hx Hy Hz.
  rewrite (Le_correct_exact a a x x Ha Ha Hx Hx), (Le_correct_exact a b x y Ha Hb Hx Hy),
          (Le_correct_exact b a y x Hb Ha Hy Hx), (Le_correct_exact b c y z Hb Hc Hy Hz),
          (Le_correct_exact a c x z Ha Hc Hx Hz).
  rewrite ext_leb_refl. split; [reflexivity|]. split; [|split].
  - intros H1 H2. injection H1 as H1. injection H2 as H2. now rewrite (ext_leb_trans _ _ _ H1 H2).
  - destruct (ext_leb_total x y) as [H|H]; [left|right]; now rewrite H.
  - intros H1 H2. injection H1 as H1. injection H2 as H2. exact (ext_leb_antisym _ _ H1 H2).
Qed.
