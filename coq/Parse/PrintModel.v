(* Model of StrPrinter (symengine/printers/strprinter.cpp) on the expression AST of
   Expr/ExprDefs.v: Precedence, parenthesizeLT / parenthesizeLE, bvisit of the numbers (incl.
   print_double = "%.15g" plus the ".0" rule), Symbol, Constant, Add (terms ordered by
   PrinterBasicCmp), Mul (numerator / denominator split), Pow (_print_pow: exp, sqrt), functions
   (names_ table read from the source), FunctionSymbol, relationals, And/Or/Xor/Not, Piecewise,
   BooleanAtom.  Other classes are outside the printed fragment ([printable] = false).
   Strings are byte lists. *)
From SE Require Export Expr.IO Parse.Tokens Parse.Gen_Names.
Local Open Scope N_scope.

(* ---------------------------------------------------------------- small strings *)
Definition s_lpar : list N := [40].
Definition s_rpar : list N := [41].
Definition s_minus : list N := [45].
Definition s_star : list N := [42].        (* print_mul() *)
Definition s_slash : list N := [47].
Definition s_I : list N := [73].           (* get_imag_symbol() *)
Definition s_plus_sp : list N := Eval compute in b " + ".
Definition s_minus_sp : list N := Eval compute in b " - ".
Definition s_comma_sp : list N := Eval compute in b ", ".
Definition s_powop : list N := Eval compute in b "**".
Definition s_exp_l : list N := Eval compute in b "exp(".
Definition s_sqrt_l : list N := Eval compute in b "sqrt(".
Definition s_one : list N := [49].
Definition s_oo : list N := Eval compute in b "oo".
Definition s_noo : list N := Eval compute in b "-oo".
Definition s_zoo : list N := Eval compute in b "zoo".
Definition s_nan : list N := Eval compute in b "nan".
Definition s_inf : list N := Eval compute in b "inf".
Definition s_true : list N := Eval compute in b "True".
Definition s_false : list N := Eval compute in b "False".
Definition s_And : list N := Eval compute in b "And(".
Definition s_Or : list N := Eval compute in b "Or(".
Definition s_Xor : list N := Eval compute in b "Xor(".
Definition s_Not : list N := Eval compute in b "Not(".
Definition s_Piecewise : list N := Eval compute in b "Piecewise(".
Definition s_eq : list N := Eval compute in b " == ".
Definition s_ne : list N := Eval compute in b " != ".
Definition s_le : list N := Eval compute in b " <= ".
Definition s_lt : list N := Eval compute in b " < ".
Definition s_dot0 : list N := Eval compute in b ".0".
Definition s_dot : list N := [46].
Definition s_unsupported : list N := Eval compute in b "<?>".
Definition name_E : list N := [69].

Definition parens (s : list N) : list N := s_lpar ++ s ++ s_rpar.

(* ---------------------------------------------------------------- integers, rationals *)
Definition dec_N (n : N) : list N := List.map (fun d => d + 48) (digits_of_N n).
Definition dec_Z (z : Z) : list N :=
  match z with
  | Z0 => [48]
  | Zpos p => dec_N (Npos p)
  | Zneg p => 45 :: dec_N (Npos p)
  end.
(* operator<< of rational_class: num/den *)
Definition dec_Q (n : Z) (d : positive) : list N := dec_Z n ++ s_slash ++ dec_N (Npos d).
(* a real_ / imaginary_ part of a Complex: an integer prints without denominator *)
Definition dec_Qi (n : Z) (d : positive) : list N :=
  match d with xH => dec_Z n | _ => dec_Q n d end.

(* ---------------------------------------------------------------- doubles: "%.15g" *)
Definition pow10 (k : N) : Z := Z.pow 10 (Z.of_N k).

(* |x| = num/den > 0: the decimal exponent X with 10^X <= num/den < 10^(X+1), searched around an
   estimate from the bit lengths *)
Definition ge_pow10 (num den : Z) (x : Z) : bool :=        (* 10^x <= num/den *)
  if (0 <=? x)%Z then (Z.pow 10 x * den <=? num)%Z else (den <=? num * Z.pow 10 (- x))%Z.
Fixpoint adjust_down (fuel : nat) (num den x : Z) : Z :=
  match fuel with
  | O => x
  | S f => if ge_pow10 num den x then x else adjust_down f num den (x - 1)%Z
  end.
Fixpoint adjust_up (fuel : nat) (num den x : Z) : Z :=
  match fuel with
  | O => x
  | S f => if ge_pow10 num den (x + 1)%Z then adjust_up f num den (x + 1)%Z else x
  end.
Definition dec_exponent (num den : Z) : Z :=
  let est := ((Z.log2 num - Z.log2 den) * 1233 / 4096)%Z in
  adjust_up 8 num den (adjust_down 8 num den (est + 1)%Z).

(* round-half-even of a/b for positive a, b *)
Definition round_half_even (a c : Z) : Z :=
  let q := (a / c)%Z in
  let r := (a mod c)%Z in
  if (2 * r <? c)%Z then q
  else if (c <? 2 * r)%Z then (q + 1)%Z
  else if Z.even q then q else (q + 1)%Z.

(* 15 significant digits of num/den: (D, X) with 10^14 <= D < 10^15 and num/den ~ D * 10^(X-14) *)
Definition sig15 (num den : Z) : Z * Z :=
  let x := dec_exponent num den in
  let sh := (14 - x)%Z in
  let d := if (0 <=? sh)%Z then round_half_even (num * Z.pow 10 sh) den
           else round_half_even num (den * Z.pow 10 (- sh)) in
  if (d =? Z.pow 10 15)%Z then (Z.pow 10 14, x + 1)%Z else (d, x).

Fixpoint strip_trailing_zeros_rev (l : list N) : list N :=
  match l with
  | 48 :: r => strip_trailing_zeros_rev r
  | _ => l
  end.
Definition strip_trailing_zeros (l : list N) : list N := rev (strip_trailing_zeros_rev (rev l)).

Definition two_digits (n : N) : list N :=
  if n <? 10 then [48; n + 48] else dec_N n.

(* "%.15g" of the positive finite value num/den *)
Definition fmt_g15 (num den : Z) : list N :=
  let '(d, x) := sig15 num den in
  let ds := dec_N (Z.to_N d) in                        (* 15 digits *)
  if (x <? -4)%Z || (15 <=? x)%Z then
    (* d.ddddde+XX, trailing zeros of the fraction removed *)
    let frac := strip_trailing_zeros (tl ds) in
    firstn 1 ds ++ (match frac with [] => [] | _ => 46 :: frac end)
      ++ [101] ++ (if (x <? 0)%Z then [45] else [43]) ++ two_digits (Z.to_N (Z.abs x))
  else if (0 <=? x)%Z then
    let k := S (Z.to_nat x) in
    let frac := strip_trailing_zeros (skipn k ds) in
    firstn k ds ++ (match frac with [] => [] | _ => 46 :: frac end)
  else
    [48; 46] ++ repeat 48 (Z.to_nat (- x - 1)) ++ strip_trailing_zeros ds.

Definition dbl_sign (bits : N) : bool := 9223372036854775808 <=? bits.
Definition dbl_expfield (bits : N) : N := (bits / 4503599627370496) mod 2048.
Definition dbl_mant (bits : N) : N := bits mod 4503599627370496.

(* ostream << double with precision 15 (glibc printf "%.15g") *)
Definition fmt_double (bits : N) : list N :=
  let sgn := if dbl_sign bits then s_minus else [] in
  let e := dbl_expfield bits in
  let m := dbl_mant bits in
  if e =? 2047 then sgn ++ (if m =? 0 then s_inf else s_nan)
  else if (e =? 0) && (m =? 0) then sgn ++ [48]
  else
    let mm := if e =? 0 then m else m + 4503599627370496 in
    let ee := if e =? 0 then (-1074)%Z else (Z.of_N e - 1075)%Z in
    let '(num, den) := if (0 <=? ee)%Z then (Z.of_N mm * Z.pow 2 ee, 1)%Z
                       else (Z.of_N mm, Z.pow 2 (- ee))%Z in
    sgn ++ fmt_g15 num den.

(* print_double: append ".0" when the text has neither '.' nor 'e' -- or "." when it is exactly
   15 characters long (digits10 - str_.size() > 0 is evaluated in size_t) *)
Definition print_double (bits : N) : list N :=
  let s := fmt_double bits in
  if existsb (fun c => (c =? 46) || (c =? 101)) s then s
  else if Nat.eqb (List.length s) 15 then s ++ s_dot else s ++ s_dot0.

(* x < 0 on doubles (false for NaN and -0.0) *)
Definition dbl_negative (bits : N) : bool := dbl_lt bits 0.
Definition dbl_negate (bits : N) : N :=
  if dbl_sign bits then bits - 9223372036854775808 else bits + 9223372036854775808.

(* ---------------------------------------------------------------- numbers *)
Definition print_number (n : number) : list N :=
  match n with
  | NInt z => dec_Z z
  | NRat p q => dec_Q p q
  | NCplx rn rd imn imd =>
      let im_is_unit := (Zpos imd =? 1)%Z && ((imn =? 1)%Z || (imn =? -1)%Z) in
      if negb (rn =? 0)%Z then
        dec_Qi rn rd ++ (if (0 <? imn)%Z then s_plus_sp else s_minus_sp)
          ++ (if im_is_unit then s_I else dec_Qi (Z.abs imn) imd ++ s_star ++ s_I)
      else
        if im_is_unit then (if (0 <? imn)%Z then s_I else s_minus ++ s_I)
        else dec_Qi imn imd ++ s_star ++ s_I
  | NDbl bits => print_double bits
  | NCDbl re im =>
      print_double re ++
        (if dbl_negative im then s_minus_sp ++ print_double (dbl_negate im) ++ s_star ++ s_I
         else s_plus_sp ++ print_double im ++ s_star ++ s_I)
  | NInf d => if (d <? 0)%Z then s_noo else if (0 <? d)%Z then s_oo else s_zoo
  | NNaN => s_nan
  end.

(* ---------------------------------------------------------------- Precedence *)
Definition is_relational (c : N) : bool :=
  (c =? TC_Equality) || (c =? TC_Unequality) || (c =? TC_LessThan) || (c =? TC_StrictLessThan).

Definition num_precedence (n : number) : N :=
  match n with
  | NInt z => if (z <? 0)%Z then PREC_Mul else PREC_Atom
  | NRat _ _ => PREC_Add
  | NCplx rn _ imn imd =>
      if (rn =? 0)%Z then (if (imn =? 1)%Z && (Zpos imd =? 1)%Z then PREC_Atom else PREC_Mul)
      else PREC_Add
  | NDbl bits => if dbl_negative bits then PREC_Mul else PREC_Atom
  | NCDbl _ _ => PREC_Add
  | NInf d => if infty_precedence_by_sign && (d <? 0)%Z then PREC_Mul else PREC_Atom
  | NNaN => PREC_Atom
  end.

Definition precedence (e : expr) : N :=
  match e with
  | EAdd _ _ => PREC_Add
  | EMul _ _ => PREC_Mul
  | EPow _ _ => PREC_Pow
  | EF2 c _ _ => if is_relational c then PREC_Relational else PREC_Atom
  | ENum n => num_precedence n
  | _ => PREC_Atom
  end.

(* ---------------------------------------------------------------- PrinterBasicCmp *)
Definition printer_lt (x y : expr) : bool :=
  if expr_eqb x y then false else (expr_cmp x y =? -1)%Z.

(* std::map<RCP<const Basic>, RCP<const Number>, PrinterBasicCmp>: successive insertion; an
   equivalent key is not inserted again *)
Fixpoint pmap_insert (k : expr) (v : number) (m : list (expr * number)) : list (expr * number) :=
  match m with
  | [] => [(k, v)]
  | (k', v') :: r =>
      if printer_lt k' k then (k', v') :: pmap_insert k v r
      else if printer_lt k k' then (k, v) :: m
      else m
  end.
Definition pmap_of (d : list (expr * number)) : list (expr * number) :=
  fold_left (fun m p => pmap_insert (fst p) (snd p) m) d [].

(* ---------------------------------------------------------------- helpers *)
Fixpoint join (sep : list N) (l : list (list N)) : list N :=
  match l with
  | [] => []
  | [x] => x
  | x :: r => x ++ sep ++ join sep r
  end.

Definition num_is (n : number) (z : Z) : bool :=
  match n with NInt x => (x =? z)%Z | _ => false end.
Definition is_num_int (e : expr) (z : Z) : bool :=
  match e with ENum n => num_is n z | _ => false end.
Definition is_E (e : expr) : bool :=
  match e with EConst nm => bytes_eqb nm name_E | _ => false end.
Definition is_half (e : expr) : bool :=
  match e with ENum (NRat 1 2) => true | _ => false end.
(* Integer or Rational, negative *)
Definition neg_rational_exp (e : expr) : option number :=
  match e with
  | ENum (NInt z) => if (z <? 0)%Z then Some (NInt (- z)) else None
  | ENum (NRat p q) => if (p <? 0)%Z then Some (NRat (- p) q) else None
  | _ => None
  end.

Definition printer_name (code : N) : list N :=
  let fix find (l : list (N * list N)) :=
    match l with
    | [] => []
    | (c, nm) :: r => if c =? code then nm else find r
    end in
  find printer_names.

Definition drop_last (l : list N) : list N := removelast l.

(* ---------------------------------------------------------------- the printer *)
Section WithRec.
  Variable pr : expr -> list N.

  Definition paren_lt (x : expr) (p : N) : list N :=
    if precedence x <? p then parens (pr x) else pr x.
  Definition paren_le (x : expr) (p : N) : list N :=
    if precedence x <=? p then parens (pr x) else pr x.

  (* _print_pow *)
  Definition print_pow (a c : expr) : list N :=
    if is_E a then s_exp_l ++ pr c ++ s_rpar
    else if is_half c then s_sqrt_l ++ pr a ++ s_rpar
    else paren_le a PREC_Pow ++ s_powop ++ paren_le c PREC_Pow.

  (* one term of an Add *)
  Definition add_term (k : expr) (v : number) : list N :=
    if num_is v 1 then paren_lt k PREC_Add
    else if num_is v (-1) then s_minus ++ paren_lt k PREC_Mul
    else paren_lt (ENum v) PREC_Mul ++ s_star ++ paren_lt k PREC_Mul.

  Fixpoint add_terms (first : bool) (l : list (expr * number)) : list N :=
    match l with
    | [] => []
    | (k, v) :: r =>
        let t := add_term k v in
        (if first then t
         else match t with
              | 45 :: t' => s_minus_sp ++ t'
              | _ => s_plus_sp ++ t
              end) ++ add_terms false r
    end.

  Definition print_add (coef : number) (d : list (expr * number)) : list N :=
    let sorted := pmap_of d in
    if negb (num_is coef 0) then pr (ENum coef) ++ add_terms false sorted
    else add_terms true sorted.

  (* Mul: (numerator text, numerator present, denominator text, number of denominator factors) *)
  Fixpoint mul_factors (l : list (expr * expr)) (o : list N) (num : bool) (o2 : list N) (den : nat)
    : list N * bool * list N * nat :=
    match l with
    | [] => (o, num, o2, den)
    | (bs, ex) :: r =>
        match (if is_E bs then None else neg_rational_exp ex) with
        | Some nex =>
            let t := if num_is nex 1 then paren_lt bs PREC_Mul else print_pow bs (ENum nex) in
            mul_factors r o num (o2 ++ t ++ s_star) (S den)
        | None =>
            let t := if is_num_int ex 1 then paren_lt bs PREC_Mul else print_pow bs ex in
            mul_factors r (o ++ t ++ s_star) true o2 den
        end
    end.

  Definition print_mul (coef : number) (d : list (expr * expr)) : list N :=
    let '(o0, num0) :=
      if num_is coef (-1) then (s_minus, false)
      else if negb (num_is coef 1) then (paren_lt (ENum coef) PREC_Mul ++ s_star, true)
      else ([], false) in
    let '(o, num, o2, den) := mul_factors d o0 num0 [] 0 in
    let o' := if num then o else o ++ s_one ++ s_star in
    let s := drop_last o' in
    match den with
    | O => s
    | S O => s ++ s_slash ++ drop_last o2
    | _ => s ++ s_slash ++ parens (drop_last o2)
    end.

  Definition print_args (l : list expr) : list N := join s_comma_sp (List.map pr l).

  Definition print_rel (op : list N) (a c : expr) : list N :=
    if relational_operands_parenthesized
    then paren_le a PREC_Relational ++ op ++ paren_le c PREC_Relational
    else pr a ++ op ++ pr c.

  Definition print_node (e : expr) : list N :=
    match e with
    | ENum n => print_number n
    | ESym nm => nm
    | EConst nm => nm
    | EAdd c d => print_add c d
    | EMul c d => print_mul c d
    | EPow a c => print_pow a c
    | EF1 code a =>
        if code =? TC_Not then s_Not ++ pr a ++ s_rpar
        else printer_name code ++ parens (print_args [a])
    | EF2 code a c =>
        if code =? TC_Equality then print_rel s_eq a c
        else if code =? TC_Unequality then print_rel s_ne a c
        else if code =? TC_LessThan then print_rel s_le a c
        else if code =? TC_StrictLessThan then print_rel s_lt a c
        else printer_name code ++ parens (print_args [a; c])
    | EFN code l =>
        if code =? TC_And then s_And ++ print_args l ++ s_rpar
        else if code =? TC_Or then s_Or ++ print_args l ++ s_rpar
        else if code =? TC_Xor then s_Xor ++ print_args l ++ s_rpar
        else printer_name code ++ parens (print_args l)
    | EFunSym nm l => nm ++ parens (print_args l)
    | EPw l =>
        s_Piecewise
          ++ join s_comma_sp (List.map (fun p => parens (pr (fst p) ++ s_comma_sp ++ pr (snd p))) l)
          ++ s_rpar
    | EBool v => if v then s_true else s_false
    | _ => s_unsupported
    end.
End WithRec.

Fixpoint pr_fuel (fuel : nat) (e : expr) : list N :=
  match fuel with
  | O => s_unsupported
  | S f => print_node (pr_fuel f) e
  end.

(* str(e) *)
Definition print (e : expr) : list N := pr_fuel (size e) e.

(* the classes the model prints *)
Definition nonempty_name (code : N) : bool :=
  match printer_name code with [] => false | _ => true end.

Fixpoint printable_fuel (fuel : nat) (e : expr) : bool :=
  match fuel with
  | O => false
  | S f =>
      let p := printable_fuel f in
      match e with
      | ENum _ | ESym _ | EConst _ | EBool _ => true
      | EAdd _ d => forallb (fun q => p (fst q)) d
      | EMul _ d => forallb (fun q => p (fst q) && p (snd q)) d
      | EPow a c => p a && p c
      | EF1 code a => ((code =? TC_Not) || nonempty_name code) && p a
      | EF2 code a c => (is_relational code || nonempty_name code) && p a && p c
      | EFN code l =>
          ((code =? TC_And) || (code =? TC_Or) || (code =? TC_Xor) || nonempty_name code)
          && forallb p l
      | EFunSym _ l => forallb p l
      | EPw l => forallb (fun q => p (fst q) && p (snd q)) l
      | _ => false
      end
  end.
Definition printable (e : expr) : bool := printable_fuel (size e) e.
