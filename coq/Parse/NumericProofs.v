(* C17 -- Parser::parse_numeric: a literal made of decimal digits only denotes its base-10 value
   (whatever the leading zeros, whatever the size: the strtol path and the overflow path
   integer_class(expr) agree), every other literal takes the floating-point path.
   The base argument of strtol is read from parser.cpp (Gen_Names.strtol_base): with base 0
   (the unfixed code: "010" = 8, "08" = 8.0) these proofs fail. *)
From SE Require Import Parse.ParseModel.
From Coq Require Import Lia ZifyBool ZifyN ZifyNat.
Local Open Scope N_scope.

(* schoolbook value of a digit string *)
Definition decimal_acc (acc : Z) (ds : list N) : Z :=
  fold_left (fun a c => (a * 10 + Z.of_N (c - 48))%Z) ds acc.
Definition decimal_value (ds : list N) : Z := decimal_acc 0 ds.

Lemma digit_val_dig : forall c, is_dig c = true -> digit_val c = Some (c - 48) /\ c - 48 < 10.
Proof.
  intros c H. unfold digit_val. rewrite H. split; [reflexivity|].
  unfold is_dig in H. lia.
Qed.

Lemma digit_val_nondig : forall c, is_dig c = false ->
  match digit_val c with Some d => 10 <= d | None => True end.
Proof.
  intros c H. unfold digit_val. rewrite H.
  destruct ((97 <=? c) && (c <=? 122)) eqn:E1; [lia|].
  destruct ((65 <=? c) && (c <=? 90)) eqn:E2; [lia|exact I].
Qed.

Lemma strtol_digits_all : forall ds acc n, forallb is_dig ds = true ->
  strtol_digits 10 acc n ds = (decimal_acc acc ds, (n + List.length ds)%nat, []).
Proof.
  induction ds as [|c ds IH]; intros acc n H; simpl.
  - f_equal. f_equal. lia.
  - simpl in H. apply andb_true_iff in H. destruct H as [Hc Hds].
    destruct (digit_val_dig c Hc) as [Hv Hlt]. rewrite Hv.
    destruct (c - 48 <? 10) eqn:E; [|lia].
    rewrite IH by assumption. f_equal. f_equal. lia.
Qed.

Lemma dec_value_all : forall ds acc, forallb is_dig ds = true ->
  dec_value acc ds = Some (decimal_acc acc ds).
Proof.
  induction ds as [|c ds IH]; intros acc H; simpl; [reflexivity|].
  simpl in H. apply andb_true_iff in H. destruct H as [Hc Hds]. rewrite Hc. apply IH. assumption.
Qed.

Lemma mem_dot_digits : forall ds, forallb is_dig ds = true -> mem 46 ds = false.
Proof.
  unfold mem. induction ds as [|c ds IH]; intros H; [reflexivity|].
  cbn [existsb]. cbn [forallb] in H. apply andb_true_iff in H. destruct H as [Hc Hds].
  rewrite (IH Hds). unfold is_dig in Hc. destruct (N.eqb_spec 46 c); [lia|reflexivity].
Qed.

Lemma base_is_10 : strtol_base = 10.
Proof. reflexivity. Qed.

Lemma strtol_10_digits : forall ds,
  ds <> [] -> forallb is_dig ds = true ->
  strtol 10 ds = (if (LONG_MAX <? decimal_value ds)%Z then (LONG_MAX, List.length ds, true)
                  else (decimal_value ds, List.length ds, false)).
Proof.
  intros ds Hne Hd. unfold strtol.
  change ((10 =? 0) || (10 =? 16)) with false. cbv beta iota. simpl andb.
  change (10 =? 0) with false. cbv iota beta.
  rewrite (strtol_digits_all ds 0%Z 0%nat Hd). simpl Nat.add.
  destruct ds as [|c ds']; [congruence|]. reflexivity.
Qed.

(* C17 parse_numeric_decimal *)
Theorem parse_numeric_decimal : forall ds,
  ds <> [] -> forallb is_dig ds = true -> parse_numeric ds = NumInt (decimal_value ds).
Proof.
  intros ds Hne Hd. unfold parse_numeric. rewrite base_is_10.
  rewrite (strtol_10_digits ds Hne Hd). rewrite (mem_dot_digits ds Hd).
  destruct (LONG_MAX <? decimal_value ds)%Z; cbv iota beta; rewrite Nat.eqb_refl; simpl negb;
    simpl andb; cbv iota.
  - rewrite (dec_value_all ds 0%Z Hd). reflexivity.
  - reflexivity.
Qed.

(* the digits strtol consumes in base 10 are decimal digits: it stops at the first other byte *)
Lemma strtol_digits_stop : forall bs acc n v n' rest,
  strtol_digits 10 acc n bs = (v, n', rest) ->
  (n' + List.length rest = n + List.length bs)%nat /\ (rest = [] -> forallb is_dig bs = true).
Proof.
  induction bs as [|c bs IH]; intros acc n v n' rest H; simpl in H.
  - inversion H; subst. split; [lia|reflexivity].
  - destruct (is_dig c) eqn:Ed.
    + destruct (digit_val_dig c Ed) as [Hv Hlt]. rewrite Hv in H.
      destruct (c - 48 <? 10) eqn:E; [|lia].
      apply IH in H. destruct H as [H1 H2]. simpl. split; [lia|].
      intros Hr. rewrite Ed. simpl. apply H2. assumption.
    + pose proof (digit_val_nondig c Ed) as Hn.
      destruct (digit_val c) as [d|].
      * destruct (d <? 10) eqn:E; [lia|]. inversion H; subst. split; [simpl; lia|discriminate].
      * inversion H; subst. split; [simpl; lia|discriminate].
Qed.

(* decimal-point and exponent literals ("1.5", ".5", "5.", "1e3", "1E+3"): anything that is not a
   plain digit string is converted by the floating-point path *)
Theorem parse_numeric_float : forall s,
  forallb is_dig s = false -> parse_numeric s = NumFloat s.
Proof.
  intros s Hd. unfold parse_numeric, strtol. rewrite base_is_10.
  change ((10 =? 0) || (10 =? 16)) with false. cbv beta iota. simpl andb.
  change (10 =? 0) with false. cbv iota.
  destruct (strtol_digits 10 0%Z 0%nat s) as [[v n] rest] eqn:E.
  apply strtol_digits_stop in E. destruct E as [E1 E2].
  assert (Hrest : rest <> []) by (intros Hr; rewrite (E2 Hr) in Hd; discriminate).
  assert (Hn : (n < List.length s)%nat).
  { destruct rest; [congruence|]. simpl in E1. lia. }
  destruct n as [|n0].
  - cbv iota beta. destruct s as [|c s']; [simpl in Hd; discriminate|].
    simpl List.length. simpl Nat.eqb. rewrite andb_false_r. reflexivity.
  - cbv iota beta. simpl Nat.add.
    destruct (LONG_MAX <? v)%Z; simpl fst; simpl snd;
      (destruct (Nat.eqb (S n0) (List.length s)) eqn:En; [apply Nat.eqb_eq in En; lia|]);
      rewrite andb_false_r; reflexivity.
Qed.
