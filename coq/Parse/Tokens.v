(* Shared by C16/C17/C18: tokens of symengine/parser/tokenizer.re and the terminal names used in
   the precedence declarations of symengine/parser/parser.yy.  Bytes are [N] values 0..255
   (the same representation as symbol names in Expr/ExprDefs.v). *)
From SE Require Export Base.Prelude.
From Coq Require Export String Ascii.
Local Open Scope N_scope.

(* byte list of a Coq string literal (used only for constants of the model) *)
Definition b (s : string) : list N := List.map N_of_ascii (list_ascii_of_string s).

Inductive token :=
| TEnd                    (* END_OF_FILE: the terminating NUL *)
| TBad                    (* the default rule `*`: the lexer throws ParseError("Unknown token") *)
| TOp (c : N)             (* operators = "-"|"+"|"/"|"("|")"|"*"|","|"^"|"~"|"<"|">"|"&"|"|" *)
| TPow                    (* pows = "**" | "@" *)
| TLe | TGe | TNe | TEq
| TPiecewise
| TIdent (s : list N)
| TNum (s : list N)
| TImpl (s : list N).     (* implicitmul = numeric ident *)

(* terminal names appearing in the %left/%right/%nonassoc lines of parser.yy *)
Inductive tk :=
| K_OR | K_XOR | K_AND | K_EQ | K_GT | K_LT | K_NE | K_LE | K_GE
| K_MINUS | K_PLUS | K_STAR | K_SLASH | K_UMINUS | K_UPLUS | K_POW | K_NOT | K_LPAREN
| K_PERCENT | K_BANG.     (* SBML grammar only *)

Inductive assoc := AssocLeft | AssocRight | AssocNon.

Definition tk_eqb (x y : tk) : bool :=
  match x, y with
  | K_OR, K_OR | K_XOR, K_XOR | K_AND, K_AND | K_EQ, K_EQ | K_GT, K_GT | K_LT, K_LT
  | K_NE, K_NE | K_LE, K_LE | K_GE, K_GE | K_MINUS, K_MINUS | K_PLUS, K_PLUS
  | K_STAR, K_STAR | K_SLASH, K_SLASH | K_UMINUS, K_UMINUS | K_UPLUS, K_UPLUS
  | K_POW, K_POW | K_NOT, K_NOT | K_LPAREN, K_LPAREN | K_PERCENT, K_PERCENT
  | K_BANG, K_BANG => true
  | _, _ => false
  end.

(* byte lists *)
Fixpoint bytes_eq (x y : list N) : bool :=
  match x, y with
  | [], [] => true
  | c :: x', d :: y' => (c =? d) && bytes_eq x' y'
  | _, _ => false
  end.

Lemma bytes_eq_true : forall x y, bytes_eq x y = true <-> x = y.
Proof.
  induction x as [|c x IH]; destruct y as [|d y]; simpl; split; intro H;
    try reflexivity; try discriminate.
  - apply andb_true_iff in H. destruct H as [H1 H2]. apply N.eqb_eq in H1.
    apply IH in H2. subst. reflexivity.
  - inversion H; subst. rewrite N.eqb_refl. simpl. apply IH. reflexivity.
Qed.

(* association lists keyed by byte strings (the std::map<std::string, ...>::find of parser.cpp) *)
Fixpoint assoc_find {A} (k : list N) (l : list (list N * A)) : option A :=
  match l with
  | [] => None
  | (k', v) :: r => if bytes_eq k k' then Some v else assoc_find k r
  end.
