(* C16 -- parse_print_partial (continuation of PrintParse.v): for the fragment of nested powers over
   identifier-named symbols and non-negative integers,
       parse_syntax (print e) = TopOk (syn e)
   bytes -> tokens -> tree, for either setting of convert_xor. *)
From SE Require Import Parse.ParseSpec Parse.ParseComplete Parse.LexProofs Parse.PrintModel
  Parse.PrintParse.
From Coq Require Import Lia ZifyBool ZifyN ZifyNat.
Local Open Scope N_scope.

(* ------------------------------------------------------------------ decimal digits *)
Lemma digits_aux_ok : forall f n acc,
  Forall (fun d => d < 10) acc -> Forall (fun d => d < 10) (digits_aux f n acc).
Proof.
  induction f as [|f IH]; intros n acc H; cbn [digits_aux]; [exact H|].
  destruct (n <? 10) eqn:E.
  - constructor; [lia|exact H].
  - apply IH. constructor; [|exact H]. apply N.mod_lt. discriminate.
Qed.

Lemma digits_aux_nonempty : forall f n acc, (acc <> [] \/ f <> 0%nat) -> digits_aux f n acc <> [].
Proof.
  induction f as [|f IH]; intros n acc H; cbn [digits_aux].
  - destruct H as [H|H]; [exact H|congruence].
  - destruct (n <? 10); [discriminate|]. apply IH. left. discriminate.
Qed.

Lemma dec_N_digits : forall n, dec_N n <> [] /\ forallb is_dig (dec_N n) = true.
Proof.
  intros n. unfold dec_N, digits_of_N.
  set (l := digits_aux (S (N.to_nat (N.size n))) n []).
  assert (Hl : Forall (fun d => d < 10) l) by (apply digits_aux_ok; constructor).
  assert (Hne : l <> []) by (apply digits_aux_nonempty; right; discriminate).
  split.
  - destruct l; [congruence|discriminate].
  - clear Hne. induction Hl as [|d l' Hd _ IH]; [reflexivity|].
    cbn [List.map forallb]. rewrite IH. unfold is_dig.
    destruct ((48 <=? d + 48) && (d + 48 <=? 57)) eqn:E; [reflexivity|lia].
Qed.

Lemma dec_Z_nat_digits : forall n, dec_Z (Z.of_N n) <> [] /\ forallb is_dig (dec_Z (Z.of_N n)) = true.
Proof.
  intros n. destruct n as [|p]; cbn [Z.of_N dec_Z]; [split; [discriminate|reflexivity]|].
  apply dec_N_digits.
Qed.

(* ------------------------------------------------------------------ the token chain *)
Definition okhead (tail : list token) : Prop :=
  match tail with [] => True | u :: _ => u = TPow \/ u = TOp 41 end.

Lemma chain_cons_free : forall t X, ftok t -> (forall u, follows t u) -> chain X -> chain (t :: X).
Proof.
  intros t X Ht Hf Hc. destruct X as [|u r]; [exact Ht|]. cbn [chain].
  split; [exact Ht|]. split; [apply Hf|exact Hc].
Qed.

Lemma chain_cons_atom : forall t tail, ftok t -> okhead tail -> chain tail ->
  (forall u, (u = TPow \/ u = TOp 41) -> follows t u) -> chain (t :: tail).
Proof.
  intros t tail Ht Hh Hc Hf. destruct tail as [|u r]; [exact Ht|]. cbn [chain].
  split; [exact Ht|]. split; [apply Hf; exact Hh|exact Hc].
Qed.

Lemma frag_chain : forall e, powfrag e ->
  forall tail, okhead tail -> chain tail -> chain (ptoks e ++ tail).
Proof.
  induction 1 as [nm Hn|n|a c Ha IHa Hc IHc]; intros tail Hh Ht.
  - cbn [ptoks app]. apply chain_cons_atom; try assumption.
    + apply FT_ident. exact Hn.
    + intros u Hu. exact Hu.
  - cbn [ptoks app]. destruct (dec_Z_nat_digits n) as [Hne Hd].
    apply chain_cons_atom; try assumption.
    + apply FT_num; assumption.
    + intros u Hu. exact Hu.
  - cbn [ptoks]. rewrite <- app_assoc. cbn [app].
    (* the exponent and what follows *)
    assert (Hc' : chain ((if is_pow c then TOp 40 :: ptoks c ++ [TOp 41] else ptoks c) ++ tail)).
    { destruct (is_pow c).
      - cbn [app]. rewrite <- app_assoc. cbn [app].
        apply chain_cons_free; [apply FT_lpar|intros u; exact I|].
        apply IHc; [right; reflexivity|].
        apply chain_cons_free; [apply FT_rpar|intros u; exact I|exact Ht].
      - apply IHc; assumption. }
    assert (Hp : chain (TPow :: (if is_pow c then TOp 40 :: ptoks c ++ [TOp 41] else ptoks c) ++ tail))
      by (apply chain_cons_free; [apply FT_pow|intros u; exact I|exact Hc']).
    destruct (is_pow a).
    + cbn [app]. rewrite <- app_assoc. cbn [app].
      apply chain_cons_free; [apply FT_lpar|intros u; exact I|].
      apply IHa; [right; reflexivity|].
      apply chain_cons_free; [apply FT_rpar|intros u; exact I|exact Hp].
    + apply IHa; [left; reflexivity|exact Hp].
Qed.

(* ------------------------------------------------------------------ print = render . ptoks *)
Lemma render_app : forall a c, render (a ++ c) = render a ++ render c.
Proof.
  induction a as [|t a IH]; intros c; [reflexivity|]. cbn [app render]. rewrite IH.
  rewrite app_assoc. reflexivity.
Qed.

Lemma frag_precedence : forall e, powfrag e ->
  is_E e = false /\ is_half e = false /\ (precedence e <=? PREC_Pow) = is_pow e.
Proof.
  intros e H. destruct H as [nm _|n|a c _ _]; repeat split; try reflexivity.
  cbn [precedence num_precedence is_pow]. destruct n; reflexivity.
Qed.

Lemma frag_print : forall e, powfrag e ->
  forall f, (size e <= f)%nat -> pr_fuel f e = render (ptoks e).
Proof.
  induction 1 as [nm Hn|n|a c Ha IHa Hc IHc]; intros f Hf.
  - destruct f as [|f]; [cbn [size] in Hf; lia|]. cbn [pr_fuel print_node ptoks render text].
    rewrite app_nil_r. reflexivity.
  - destruct f as [|f]; [cbn [size] in Hf; lia|].
    cbn [pr_fuel print_node print_number ptoks render text]. rewrite app_nil_r. reflexivity.
  - destruct f as [|f]; [cbn [size] in Hf; lia|]. cbn [size] in Hf.
    cbn [pr_fuel print_node]. unfold print_pow, paren_le.
    destruct (frag_precedence a Ha) as [Ea [_ Pa]]. destruct (frag_precedence c Hc) as [_ [Hh Pc]].
    rewrite Ea, Hh, Pa, Pc.
    rewrite (IHa f) by lia. rewrite (IHc f) by lia.
    cbn [ptoks]. rewrite render_app. cbn [render text].
    assert (Hw : forall x, (if is_pow x then parens (render (ptoks x)) else render (ptoks x))
                           = render (if is_pow x then TOp 40 :: ptoks x ++ [TOp 41] else ptoks x)).
    { intros x. destruct (is_pow x); [|reflexivity].
      cbn [render text]. rewrite render_app. cbn [render text]. unfold parens, s_lpar, s_rpar.
      rewrite app_nil_r. reflexivity. }
    rewrite !Hw. unfold s_powop. cbn [app]. reflexivity.
Qed.

(* no '^' in the printed string: convert_xor leaves it alone *)
Lemma ident_name_no94 : forall nm, ident_name nm = true -> forallb (fun c => negb (c =? 94)) nm = true.
Proof.
  intros nm H. unfold ident_name in H. destruct nm as [|c r]; [discriminate|].
  apply andb_true_iff in H. destruct H as [H _]. apply andb_true_iff in H. destruct H as [Hc Hr].
  cbn [forallb]. apply andb_true_iff. split.
  - unfold is_char in Hc. lia.
  - clear Hc. induction r as [|d r IH]; [reflexivity|].
    cbn [forallb] in *. apply andb_true_iff in Hr. destruct Hr as [Hd Hr]. rewrite (IH Hr).
    unfold is_identc, is_char, is_dig in Hd. destruct (d =? 94) eqn:E; [lia|reflexivity].
Qed.

Lemma digits_no94 : forall ds, forallb is_dig ds = true -> forallb (fun c => negb (c =? 94)) ds = true.
Proof.
  induction ds as [|d r IH]; intros H; [reflexivity|].
  cbn [forallb] in *. apply andb_true_iff in H. destruct H as [Hd Hr]. rewrite (IH Hr).
  unfold is_dig in Hd. destruct (d =? 94) eqn:E; [lia|reflexivity].
Qed.

Lemma chain_no94 : forall ts, chain ts -> forallb (fun c => negb (c =? 94)) (render ts) = true.
Proof.
  induction ts as [|t r IH]; intros Hc; [reflexivity|].
  assert (Ht : ftok t) by (destruct r; [exact Hc|exact (proj1 Hc)]).
  assert (Hr : chain r) by (destruct r as [|u r']; [exact I|exact (proj2 (proj2 Hc))]).
  cbn [render]. rewrite forallb_app. rewrite (IH Hr). rewrite andb_true_r.
  destruct Ht as [nm Hn|ds Hne Hd| | |]; cbn [text]; try reflexivity.
  - apply ident_name_no94. exact Hn.
  - apply digits_no94. exact Hd.
Qed.

Lemma convert_xor_id : forall conv bs,
  forallb (fun c => negb (c =? 94)) bs = true -> convert_xor conv bs = bs.
Proof.
  intros conv bs H. unfold convert_xor. destruct conv; [|reflexivity].
  induction bs as [|c r IH]; [reflexivity|].
  cbn [forallb] in H. apply andb_true_iff in H. destruct H as [Hc Hr].
  cbn [List.map]. rewrite (IH Hr). destruct (c =? 94); [discriminate|reflexivity].
Qed.

(* C16 parse_print, partial: the fragment of nested powers *)
Theorem parse_print_powers : forall e conv, powfrag e -> parse_syntax (print e) conv = TopOk (syn e).
Proof.
  intros e conv H. unfold parse_syntax, print.
  rewrite (frag_print e H (size e)) by lia.
  assert (Hc : chain (ptoks e)).
  { pose proof (frag_chain e H [] I I) as Hc. rewrite app_nil_r in Hc. exact Hc. }
  rewrite (convert_xor_id conv _ (chain_no94 _ Hc)).
  rewrite (lex_render _ Hc). apply frag_parse_tokens. exact H.
Qed.
